import IbModel.Model.Window
import IbModel.Generated.Tables
import IbModel.Proofs.Window
import IbModel.Proofs.WindowEngine
/-!
# C13 — tumbling windows partition event time; window grouping loses nothing

Property theorems only (helper lemmas: `Proofs/Window.lean`).  `tumble … = none` = the Rust call panics
in an overflow-checking build.  `Good w ts size off` is the property's statement for one timestamp:
`w.start ≤ ts < w.stop`, `w.stop − w.start = size`, `∃ k : ℤ, w.start = off + k·size`.
`U64 = 2^64`.  A window is *representable* when, in addition, `w.stop < 2^64`.

Part 1: `Window::tumble` (current code, after the `fix:` commit) returns a `Good` window whenever it
returns (`tumble_sound`), that window is the only `Good` one (`tumble_unique`), and it returns
whenever a representable `Good` window exists (`tumble_complete`, `tumble_total`).
Part 2: the pinned-commit code (`Legacy.tumble`) was sound but not total: `legacy_tumble_not_total`
(the witness the check guards against), `legacy_tumble_total_partial` (total only for `off ≤ ts`).
Part 3: `group_by_window` / `group_by_key_and_window` for EVERY list of partitions: distinct keys, each
group is exactly the sub-list of the input belonging to that window (and key), nothing lost or
duplicated, independent of the partitioning (so seq = par for every partition count).
Part 3a: `key_by_window` (unkeyed / keyed) is a 1:1 order-preserving relabelling whose key is exactly
`tumble ts size off` (`keyByWindow_exact`, `keyByKeyAndWindow_exact`, `…_element`, `…_none_iff`), over any
partition list (`keyByWindowPar_eq`); composed corollaries for the engine's own split `sourceParts xs n`
vs the sequential run, for every `n`: `keyByWindow_seq_eq_par`, `groupByWindow_seq_eq_par`,
`groupByKeyAndWindow_seq_eq_par` (same rows up to hash-map row order, identical group contents).

Part 3b: the keyed chain `attach_timestamps(..).key_by(..)` (`keyBy_attach_faithful`), the release-build corollaries
(`groupByWindow_release`, `groupByWindow_release_garbage`), what the derived observations show
(`groupByWindow_derived`: self-join through CoGroup, the sorted collectors), `Window::new` (`window_new_iff`,
`tumble_new_ok`), and `window_decEq_is_eqImpl`: the key test of the model's hash maps is `impl PartialEq`.
Part 4: the bespoke `groupPipeline` IS what the shared engine (`execSeq` / `execPar`), planner (`optimise`) and
`group_by_key` (C04's `gbkNode`) models compute for the builders' plan (`window_gbk_is_C04`,
`groupByWindow_engine`, `groupByKeyAndWindow_engine`).

Which model is validated against what: see the header of `Model/Window.lean`.  `tumbleWrapping`,
`Legacy.tumble` and `Legacy.tumbleWrapping` are compared with the real source text compiled under the
corresponding arithmetic profile (`TUMBLE-WRAP`, `TUMBLE-LEGACY`, `TUMBLE-LEGACY-WRAP`; the pre-fix text is the
vendored `harness/chkwin/legacy_window.rs`).  When a source copy is unavailable the harness says so in the evidence
(`VALIDATION INCOMPLETE …`, `validation:…=NOT-VALIDATED`) and the theorems of Part 2 / the `tumbleWrapping_*` /
`*_release*` theorems are proved but not validated in that run.
-/
namespace IB.Window

/-! ## Part 1 — `Window::tumble` -/

/-- `div_floor` on `u64` is plain division (its `q - 1` branch is dead code, never underflows). -/
theorem divFloor_eq (a b : Nat) (hb : 0 < b) : divFloor a b = some (a / b) := divFloor_eq' hb

/-- C13 (soundness): whenever `tumble` returns, the window contains the timestamp
    (`start ≤ ts < end`), has the configured length, and starts at the offset plus a whole
    (possibly negative) multiple of the length. -/
theorem tumble_sound (ts size off : Nat) (w : Window) (h : tumble ts size off = some w) :
    w.start ≤ ts ∧ ts < w.stop ∧ w.stop - w.start = size ∧
      ∃ k : Int, (w.start : Int) = off + k * size := by
  obtain ⟨hpos, ho, _, rfl⟩ := (tumble_eq_some_iff ts size off w).mp h
  exact startOf_good ts size off hpos ho

/-- the result is a pair of `u64`s (no wrapped value can come out of the checked code) -/
theorem tumble_fits (ts size off : Nat) (w : Window) (h : tumble ts size off = some w) :
    w.start < U64 ∧ w.stop < U64 := by
  obtain ⟨_, _, hlt, rfl⟩ := (tumble_eq_some_iff ts size off w).mp h
  exact ⟨by simp only; omega, hlt⟩

/-- C13 (exactly one): any window with the four properties is the one `tumble` computes — two
    windows with the four properties for the same `(ts, size, off)` are equal. -/
theorem tumble_unique (ts size off : Nat) (w w' : Window)
    (h : Good w ts size off) (h' : Good w' ts size off) : w = w' := by
  obtain ⟨_, _, hs, he⟩ := good_start w ts size off h
  obtain ⟨_, _, hs', he'⟩ := good_start w' ts size off h'
  cases w; cases w'; simp only at hs he hs' he'; simp only [Window.mk.injEq]; omega

/-- C13 (completeness): if a representable window with the four properties exists, `tumble`
    returns exactly it (no panic).  Together with `tumble_sound`: `tumble ts size off = some w`
    **iff** `w` is the unique representable window of `ts`. -/
theorem tumble_complete (ts size off : Nat) (w : Window)
    (h : Good w ts size off) (hfit : w.stop < U64) : tumble ts size off = some w := by
  obtain ⟨hpos, ho, hs, he⟩ := good_start w ts size off h
  refine (tumble_eq_some_iff ts size off w).mpr ⟨hpos, ho, by omega, ?_⟩
  cases w; simp only at hs he; simp only [Window.mk.injEq]; omega

theorem tumble_iff (ts size off : Nat) (w : Window) :
    tumble ts size off = some w ↔ Good w ts size off ∧ w.stop < U64 :=
  ⟨fun h => ⟨tumble_sound ts size off w h, (tumble_fits ts size off w h).2⟩,
   fun h => tumble_complete ts size off w h.1 h.2⟩

/-- C13 ("tumbling windows partition event time"): two windows produced for the same `(size, off)`
    are equal or disjoint — together with `tumble_sound`/`tumble_total` every timestamp of the
    representable domain lies in exactly one of them. -/
theorem tumble_windows_disjoint (t1 t2 size off : Nat) (w1 w2 : Window)
    (h1 : tumble t1 size off = some w1) (h2 : tumble t2 size off = some w2) :
    w1 = w2 ∨ w1.stop ≤ w2.start ∨ w2.stop ≤ w1.start := by
  have g1 := tumble_sound _ _ _ _ h1
  have g2 := tumble_sound _ _ _ _ h2
  by_cases hd : w1.stop ≤ w2.start ∨ w2.stop ≤ w1.start
  · exact Or.inr hd
  · refine Or.inl (tumble_unique (max w1.start w2.start) size off w1 w2 ?_ ?_)
    · exact ⟨by omega, by omega, g1.2.2.1, g1.2.2.2⟩
    · exact ⟨by omega, by omega, g2.2.2.1, g2.2.2.2⟩

/-- C13 ("contains the element's timestamp", read the other way): every timestamp inside a window that `tumble`
    produced is assigned that very window — a window is exactly the set of timestamps mapped to it -/
theorem tumble_member (ts ts' size off : Nat) (w : Window) (h : tumble ts size off = some w)
    (hlo : w.start ≤ ts') (hhi : ts' < w.stop) : tumble ts' size off = some w := by
  have g := tumble_sound _ _ _ _ h
  exact tumble_complete ts' size off w ⟨hlo, hhi, g.2.2.1, g.2.2.2⟩ (tumble_fits _ _ _ _ h).2

/-- two timestamps share a window iff the second lies in the first one's window -/
theorem tumble_same_window_iff (t1 t2 size off : Nat) (w1 w2 : Window)
    (h1 : tumble t1 size off = some w1) (h2 : tumble t2 size off = some w2) :
    w1 = w2 ↔ (w1.start ≤ t2 ∧ t2 < w1.stop) := by
  constructor
  · rintro rfl
    have g := tumble_sound _ _ _ _ h2
    exact ⟨g.1, g.2.1⟩
  · intro ⟨hlo, hhi⟩
    have := tumble_member t1 t2 size off w1 h1 hlo hhi
    rw [h2] at this
    exact (Option.some.inj this).symm

/-- windows are ordered like event time: a later timestamp never gets an earlier window -/
theorem tumble_monotone (t1 t2 size off : Nat) (w1 w2 : Window) (hle : t1 ≤ t2)
    (h1 : tumble t1 size off = some w1) (h2 : tumble t2 size off = some w2) :
    w1.start ≤ w2.start ∧ w1.stop ≤ w2.stop := by
  have g1 := tumble_sound _ _ _ _ h1
  have g2 := tumble_sound _ _ _ _ h2
  rcases tumble_windows_disjoint t1 t2 size off w1 w2 h1 h2 with rfl | hd | hd
  · exact ⟨Nat.le_refl _, Nat.le_refl _⟩
  · omega
  · omega

/-- no gaps: the window of the first timestamp after a window is the adjacent one (it starts where the other ends);
    with `tumble_windows_disjoint` the produced windows tile event time -/
theorem tumble_adjacent (ts size off : Nat) (w w' : Window)
    (h : tumble ts size off = some w) (h' : tumble w.stop size off = some w') :
    w'.start = w.stop ∧ w'.stop = w.stop + size := by
  have g := tumble_sound _ _ _ _ h
  have g' := tumble_sound _ _ _ _ h'
  rcases tumble_windows_disjoint ts w.stop size off w w' h h' with rfl | hd | hd
  · omega
  · omega
  · omega

/-- C13 (totality on the representable domain), arithmetic form of DESIGN §7: for `size ≥ 1`,
    `off % size ≤ ts` (otherwise the window would start below 0) and an end below `2^64`,
    the call does not panic. -/
theorem tumble_total (ts size off : Nat) (hsize : 1 ≤ size) (ho : off % size ≤ ts)
    (hend : ts - (ts - off % size) % size + size < U64) : tumble ts size off ≠ none := by
  have hb := Nat.div_add_mod (ts - off % size) size
  have hc : size * ((ts - off % size) / size) = (ts - off % size) / size * size := Nat.mul_comm _ _
  have hm := Nat.mod_le (ts - off % size) size
  have : tumble ts size off = some ⟨startOf ts size off, startOf ts size off + size⟩ :=
    (tumble_eq_some_iff ts size off _).mpr ⟨hsize, ho, by unfold startOf; omega, rfl⟩
  simp [this]

/-- … and outside that domain no representable window exists at all, so the remaining panics are
    not a loss: `tumble` panics **iff** there is no representable `Good` window. -/
theorem tumble_none_iff (ts size off : Nat) :
    tumble ts size off = none ↔ ¬ ∃ w, Good w ts size off ∧ w.stop < U64 := by
  constructor
  · rintro h ⟨w, hw, hfit⟩
    rw [tumble_complete ts size off w hw hfit] at h; cases h
  · intro h
    cases hw : tumble ts size off with
    | none => rfl
    | some w => exact absurd ⟨w, (tumble_iff ts size off w).mp hw⟩ h

/-- non-vacuity: `ts` below the offset (7 < 25), offset ≥ size — hypotheses of `tumble_total` hold,
    and the window is the expected `[5, 15)` (witness, not the theorem) -/
example : 1 ≤ 10 ∧ 25 % 10 ≤ 7 ∧ 7 - (7 - 25 % 10) % 10 + 10 < U64 ∧
    tumble 7 10 25 = some ⟨5, 15⟩ := by decide

/-- hypotheses of `tumble_adjacent` / `tumble_monotone` / `tumble_member` are satisfiable: `[5,15)` then `[15,25)`,
    and 14 (inside the first) is mapped to the first (witness, not the theorem) -/
example : tumble 7 10 25 = some ⟨5, 15⟩ ∧ tumble 15 10 25 = some ⟨15, 25⟩ ∧ tumble 14 10 25 = some ⟨5, 15⟩ := by
  decide

/-- witnesses at the top of the range: the last representable window, and one step beyond -/
example : tumble (U64 - 2) 1 0 = some ⟨U64 - 2, U64 - 1⟩ ∧ tumble (U64 - 1) 1 0 = none ∧
    tumble 3 10 5 = none ∧ tumble 5 0 0 = none := by decide

/-- release builds (wrapping arithmetic) return the same window whenever the checked build returns -/
theorem tumbleWrapping_eq (ts size off : Nat) (w : Window) (hts : ts < U64)
    (h : tumble ts size off = some w) : tumbleWrapping ts size off = some w := by
  obtain ⟨hpos, ho, hlt, rfl⟩ := (tumble_eq_some_iff ts size off _).mp h
  have hs : size ≠ 0 := by omega
  have hb := div_bracket (ts - off % size) size hpos
  unfold startOf at hlt ⊢
  unfold tumbleWrapping divFloorWrapping
  have e1 : wSub ts (off % size) = ts - off % size := by
    unfold wSub U64 at *; omega
  have hdead : ¬ ((ts - off % size) % size ≠ 0 ∧
      (decide ((ts - off % size) % size > 0) != decide (size > 0)) = true) := by
    rintro ⟨h1, h2⟩
    have : (ts - off % size) % size > 0 := by omega
    simp [this, hpos] at h2
  simp only [hs, if_false, e1, hdead]
  have e2 : wMul ((ts - off % size) / size) size = (ts - off % size) / size * size := by
    unfold wMul U64 at *; omega
  have e3 : wAdd ((ts - off % size) / size * size) (off % size)
      = (ts - off % size) / size * size + off % size := by
    unfold wAdd U64 at *; omega
  have e4 : wAdd ((ts - off % size) / size * size + off % size) size
      = (ts - off % size) / size * size + off % size + size := by
    unfold wAdd U64 at *; omega
  simp only [e2, e3, e4]

/-- … and on the rest of the `u64` domain with `size ≥ 1` (where the checked build panics because no
    representable window exists) the release build does **not** panic: it silently returns a window
    that violates the property (wrapped start or end).  So "no representable window" is a panic in
    overflow-checking builds and a garbage window in release builds — never a correct answer. -/
theorem tumbleWrapping_garbage_on_none_domain (ts size off : Nat) (hsize : 1 ≤ size)
    (h : tumble ts size off = none) :
    ∃ w, tumbleWrapping ts size off = some w ∧ w.stop < U64 ∧ ¬ Good w ts size off := by
  have hs : size ≠ 0 := by omega
  have hU : 0 < U64 := by decide
  obtain ⟨k, hk⟩ : ∃ k, divFloorWrapping (wSub ts (off % size)) size = some k := by
    unfold divFloorWrapping
    simp only [hs, if_false]
    split <;> exact ⟨_, rfl⟩
  have hw : tumbleWrapping ts size off =
      some ⟨wAdd (wMul k size) (off % size), wAdd (wAdd (wMul k size) (off % size)) size⟩ := by
    unfold tumbleWrapping
    simp only [hs, if_false, hk]
  have hfit : wAdd (wAdd (wMul k size) (off % size)) size < U64 := Nat.mod_lt _ hU
  refine ⟨_, hw, hfit, fun hg => ?_⟩
  rw [tumble_complete ts size off _ hg hfit] at h
  cases h

/-- the release build never panics for `size ≥ 1`, and its result is a pair of `u64`s -/
theorem tumbleWrapping_total (ts size off : Nat) (hs : size ≠ 0) :
    ∃ w, tumbleWrapping ts size off = some w ∧ w.stop < U64 := by
  have hU : 0 < U64 := by decide
  obtain ⟨k, hk⟩ : ∃ k, divFloorWrapping (wSub ts (off % size)) size = some k := by
    unfold divFloorWrapping
    simp only [hs, if_false]
    split <;> exact ⟨_, rfl⟩
  refine ⟨⟨wAdd (wMul k size) (off % size), wAdd (wAdd (wMul k size) (off % size)) size⟩, ?_, Nat.mod_lt _ hU⟩
  unfold tumbleWrapping
  simp only [hs, if_false, hk]

/-- witnesses (kernel-evaluated): below the phase the release build wraps the start, at the top it
    wraps the end; `size = 0` panics in both builds (`offset_ms % 0`) -/
example : tumble 3 10 5 = none ∧ tumbleWrapping 3 10 5 = some ⟨18446744073709551615, 9⟩ ∧
    tumble (U64 - 1) 1 0 = none ∧ tumbleWrapping (U64 - 1) 1 0 = some ⟨U64 - 1, 0⟩ ∧
    tumbleWrapping 5 0 0 = none := by decide

/-! ## Part 2 — the pinned-commit code (`rel = ts - offset_ms`) -/

/-- the old code was sound where it returned … -/
theorem legacy_tumble_sound (ts size off : Nat) (w : Window) (h : Legacy.tumble ts size off = some w) :
    Good w ts size off := by
  obtain ⟨hpos, ho, _, rfl⟩ := (legacy_tumble_eq_some_iff ts size off w).mp h
  have hb := div_bracket (ts - off) size hpos
  refine ⟨by simp only; omega, by simp only; omega, by simp only; omega, ?_⟩
  exact ⟨((ts - off) / size : Nat), by push_cast; omega⟩

/-- … but **not total** on the representable domain: the design witness `tumble(7, 10, 25)` panics
    although `[5, 15)` has all four properties (reproduced on the real code at the pinned commit:
    "attempt to subtract with overflow"; the release build returns the garbage window
    `[2^64 − 1, 9)`).  This is the defect the check guards against. -/
theorem legacy_tumble_not_total :
    Legacy.tumble 7 10 25 = none ∧ Good ⟨5, 15⟩ 7 10 25 ∧ (15 : Nat) < U64 ∧
    Legacy.tumbleWrapping 7 10 25 = some ⟨18446744073709551615, 9⟩ := by
  refine ⟨by decide, ⟨by decide, by decide, by decide, ⟨-2, by decide⟩⟩, by decide, by decide⟩

/-- what the old code did guarantee: total when additionally `off ≤ ts`
    (full statement = `tumble_total`, which needs only `off % size ≤ ts`). -/
theorem legacy_tumble_total_partial (ts size off : Nat) (hsize : 1 ≤ size) (ho : off ≤ ts)
    (hend : ts - (ts - off) % size + size < U64) : Legacy.tumble ts size off ≠ none := by
  have hb := Nat.div_add_mod (ts - off) size
  have hc : size * ((ts - off) / size) = (ts - off) / size * size := Nat.mul_comm _ _
  have hm := Nat.mod_le (ts - off) size
  have : Legacy.tumble ts size off = some
      ⟨(ts - off) / size * size + off, (ts - off) / size * size + off + size⟩ :=
    (legacy_tumble_eq_some_iff ts size off _).mpr ⟨hsize, ho, by omega, rfl⟩
  simp [this]

/-- the `fix:` is conservative: wherever the old code returned a window the new code returns the same -/
theorem fix_conservative (ts size off : Nat) (w : Window) (h : Legacy.tumble ts size off = some w) :
    tumble ts size off = some w := by
  have hg := legacy_tumble_sound ts size off w h
  obtain ⟨_, _, hlt, rfl⟩ := (legacy_tumble_eq_some_iff ts size off w).mp h
  exact tumble_complete ts size off _ hg hlt

/-! ## `Window` as a grouping key: `Eq` / `Hash` / `Ord` agree on `(start, end)` -/

/-- `impl PartialEq`: equal iff both fields are equal (so `HashMap` keys are windows, not starts) -/
theorem window_eq_iff (a b : Window) : a.eqImpl b = true ↔ a = b := Window.eqImpl_iff a b

/-- the `DecidableEq Window` instance of the model — the key test of every association-list `HashMap` in
    `groupByWindow` / `groupByKeyAndWindow` — IS `eqImpl`: the grouping theorems of Part 3 are about grouping with
    the code's own `==` (the instance is built from `eqImpl` and the proof above; it does not exist without it) -/
theorem window_decEq_is_eqImpl (a b : Window) : decide (a = b) = a.eqImpl b := by
  cases h : a.eqImpl b
  · exact decide_eq_false (fun hab => by rw [(window_eq_iff a b).mpr hab] at h; cases h)
  · exact decide_eq_true ((window_eq_iff a b).mp h)

/-- `Window::new(start, end)` (debug assertions on) returns exactly `[start, end)` and panics iff `end < start`;
    the release build never panics and returns the same fields -/
theorem window_new_iff (s e : Nat) (w : Window) :
    (Window.new? s e = some w ↔ s ≤ e ∧ w = ⟨s, e⟩) ∧ (Window.new? s e = none ↔ e < s) ∧
    Window.newRelease s e = ⟨s, e⟩ := by
  unfold Window.new? Window.newRelease
  refine ⟨?_, ?_, rfl⟩
  · by_cases h : e ≥ s
    · rw [if_pos h]
      constructor
      · intro hw; exact ⟨h, (Option.some.inj hw).symm⟩
      · intro hw; rw [hw.2]
    · rw [if_neg h]
      constructor
      · intro hw; cases hw
      · intro hw; exact absurd hw.1 h
  · by_cases h : e ≥ s
    · rw [if_pos h]
      constructor
      · intro hw; cases hw
      · intro hw; omega
    · rw [if_neg h]
      constructor
      · intro _; omega
      · intro _; rfl

/-- every window `tumble` returns satisfies `Window::new`'s assertion (and the release constructor agrees) -/
theorem tumble_new_ok (ts size off : Nat) (w : Window) (h : tumble ts size off = some w) :
    Window.new? w.start w.stop = some w ∧ Window.newRelease w.start w.stop = w := by
  have hs := tumble_sound ts size off w h
  unfold Window.new? Window.newRelease
  have : w.stop ≥ w.start := by omega
  simp [this]

/-- `impl Hash` is consistent with `Eq` (equal windows feed the hasher the same words), and the
    hashed words determine the window -/
theorem window_hash_consistent (a b : Window) : a.hashWords = b.hashWords ↔ a.eqImpl b = true := by
  cases a; cases b; simp [Window.eqImpl, Window.hashWords]

/-- `impl Ord` is consistent with `Eq` … -/
theorem window_cmp_eq_iff (a b : Window) : a.cmpImpl b = .eq ↔ a = b := by
  cases a; cases b
  simp only [Window.cmpImpl, Window.mk.injEq]
  rw [Ordering.then_eq_eq]
  simp

/-- … antisymmetric … -/
theorem window_cmp_swap (a b : Window) : a.cmpImpl b = .lt ↔ b.cmpImpl a = .gt := by
  cases a; cases b
  simp only [Window.cmpImpl, Ordering.then_eq_lt, Ordering.then_eq_gt, Nat.compare_eq_lt,
    Nat.compare_eq_gt, Nat.compare_eq_eq]
  omega

/-- … and transitive: a strict total order (lexicographic on `(start, end)`). -/
theorem window_cmp_trans (a b c : Window) (h1 : a.cmpImpl b = .lt) (h2 : b.cmpImpl c = .lt) :
    a.cmpImpl c = .lt := by
  cases a; cases b; cases c
  simp only [Window.cmpImpl, Ordering.then_eq_lt, Nat.compare_eq_lt, Nat.compare_eq_eq] at *
  omega

/-- `impl PartialOrd` is the total order: never `None`, always `Some(cmp)`, hence `Some(Equal)` iff
    the windows are equal -/
theorem window_partial_cmp (a b : Window) :
    a.partialCmpImpl b = some (a.cmpImpl b) ∧ (a.partialCmpImpl b = some .eq ↔ a = b) := by
  refine ⟨rfl, ?_⟩
  simp only [Window.partialCmpImpl, Option.some.injEq]
  exact window_cmp_eq_iff a b

/-! ## Part 3 — grouping by window / by key and window, for every partitioning -/

section Grouping
variable {α κ β : Type} [DecidableEq κ]

/-- **Generic exactness of a keyed map followed by `group_by_key`, for EVERY partition list.**
    If no element panics (`groupPipeline … = some gs`):
    1. the group keys are pairwise distinct;
    2. the group of key `k` is exactly the sub-list of the whole input (partitions concatenated)
       whose key is `k`, values in input order — every element is in the group of its key, with its
       multiplicity, and in no other group;
    3. a key has a group iff some input element has that key (no empty or invented groups);
    4. all group contents together are a permutation of the input values (nothing lost/duplicated). -/
theorem groupPipeline_exact (g : α → Option κ) (v : α → β) (parts : List (List α))
    (gs : List (κ × List β)) (h : groupPipeline (keyed g v) parts = some gs) :
    (gs.map Prod.fst).Nodup ∧
    (∀ k, groupOf k gs = (parts.flatten.filter (fun x => g x = some k)).map v) ∧
    (∀ k, k ∈ gs.map Prod.fst ↔ ∃ x ∈ parts.flatten, g x = some k) ∧
    (gs.flatMap Prod.snd).Perm (parts.flatten.map v) := by
  unfold groupPipeline at h
  cases hk : mapAll (mapAll (keyed g v)) parts with
  | none => simp [hk] at h
  | some kparts =>
    simp only [hk, Option.map_some, Option.some.injEq] at h; subst h
    have hfl := mapAll_flatten _ _ _ hk
    obtain ⟨hkeys, hvals, _⟩ := mapAll_keyed_keys g v _ _ hfl
    refine ⟨gbk_nodup kparts, ?_, ?_, ?_⟩
    · intro k
      rw [gbk_groupOf, mapAll_keyed_filter g v _ _ hfl k]
    · intro k
      have := gbk_mem kparts k
      simp only [keys] at this
      rw [this, hkeys, List.mem_filterMap]
    · have hp := (gbk_ungroup kparts).map Prod.snd
      rw [hvals] at hp
      refine List.Perm.trans ?_ hp
      simp only [ungroup, List.map_flatMap, List.map_map]
      refine List.Perm.of_eq ?_
      congr 1
      funext gk
      simp [Function.comp_def]

/-- the grouped run panics iff some element's key computation panics — for every partitioning -/
theorem groupPipeline_none_iff (g : α → Option κ) (v : α → β) (parts : List (List α)) :
    groupPipeline (keyed g v) parts = none ↔ ∃ x ∈ parts.flatten, g x = none := by
  unfold groupPipeline
  rw [Option.map_eq_none_iff, mapAll_eq_none_iff]
  simp only [List.mem_flatten]
  constructor
  · rintro ⟨p, hp, hnone⟩
    obtain ⟨x, hx, hkx⟩ := (mapAll_eq_none_iff _ _).mp hnone
    refine ⟨x, ⟨p, hp, hx⟩, ?_⟩
    unfold keyed at hkx
    cases hg : g x with
    | none => rfl
    | some k => simp [hg] at hkx
  · rintro ⟨x, ⟨p, hp, hx⟩, hg⟩
    exact ⟨p, hp, (mapAll_eq_none_iff _ _).mpr ⟨x, hx, by simp [keyed, hg]⟩⟩

/-- **Independence of the partitioning** (hence `collect_seq` = `collect_par` for every partition
    count, as grouped collections): two partition lists of the same input give the same outcome —
    both panic, or both return groupings with the same key set and the same group for every key. -/
theorem groupPipeline_partition_independent (g : α → Option κ) (v : α → β)
    (parts parts' : List (List α)) (hsame : parts.flatten = parts'.flatten) :
    (groupPipeline (keyed g v) parts = none ↔ groupPipeline (keyed g v) parts' = none) ∧
    ∀ gs gs', groupPipeline (keyed g v) parts = some gs → groupPipeline (keyed g v) parts' = some gs' →
      (∀ k, groupOf k gs = groupOf k gs') ∧ (∀ k, k ∈ gs.map Prod.fst ↔ k ∈ gs'.map Prod.fst) ∧
      (gs.map Prod.fst).Nodup ∧ (gs'.map Prod.fst).Nodup := by
  refine ⟨by rw [groupPipeline_none_iff, groupPipeline_none_iff, hsame], ?_⟩
  intro gs gs' h h'
  obtain ⟨n1, g1, m1, _⟩ := groupPipeline_exact g v parts gs h
  obtain ⟨n2, g2, m2, _⟩ := groupPipeline_exact g v parts' gs' h'
  refine ⟨fun k => by rw [g1, g2, hsame], fun k => by rw [m1, m2, hsame], n1, n2⟩

end Grouping

/-! ### instantiated for `group_by_window` and `group_by_key_and_window` -/

section Windows
variable {κ β : Type} [DecidableEq κ]

/-- C13 (unkeyed grouping), for every list of partitions: if the run does not panic, the window keys
    are distinct; the group of window `w` is exactly the input elements whose window is `w`
    (= whose timestamp lies in `[w.start, w.stop)` when `w` is one of the keys), in input order;
    a window has a group iff it is some element's window; and all groups together are a permutation
    of the input values. -/
theorem groupByWindow_exact (size off : Nat) (parts : List (List (Timestamped β)))
    (gs : List (Window × List β)) (h : groupByWindow size off parts = some gs) :
    (gs.map Prod.fst).Nodup ∧
    (∀ w, groupOf w gs =
      (parts.flatten.filter (fun ev => tumble ev.ts size off = some w)).map (fun ev => ev.value)) ∧
    (∀ w, w ∈ gs.map Prod.fst ↔ ∃ ev ∈ parts.flatten, tumble ev.ts size off = some w) ∧
    (∀ w ∈ gs.map Prod.fst, groupOf w gs =
      (parts.flatten.filter (fun ev => w.start ≤ ev.ts ∧ ev.ts < w.stop)).map (fun ev => ev.value)) ∧
    (gs.flatMap Prod.snd).Perm (parts.flatten.map (fun ev => ev.value)) := by
  obtain ⟨h1, h2, h3, h4⟩ := groupPipeline_exact (windowOf size off) (fun ev : Timestamped β => ev.value) parts gs h
  refine ⟨h1, h2, h3, ?_, h4⟩
  intro w hw
  rw [h2 w]
  obtain ⟨ev0, _, hev0⟩ := (h3 w).mp hw
  have hg0 := tumble_sound _ _ _ _ hev0
  have hfit := (tumble_fits _ _ _ _ hev0).2
  congr 1
  apply List.filter_congr
  intro ev _
  refine decide_eq_decide.mpr ?_
  simp only [windowOf]
  constructor
  · intro he
    have := tumble_sound _ _ _ _ he
    exact ⟨this.1, this.2.1⟩
  · rintro ⟨a, b⟩
    exact tumble_complete ev.ts size off w ⟨a, b, hg0.2.2.1, hg0.2.2.2⟩ hfit

/-- C13 (keyed grouping), for every list of partitions: groups are keyed by distinct `(key, window)`
    pairs; the group of `(k, w)` is exactly the input elements with key `k` whose window is `w`, in
    input order; a pair has a group iff some element has it; nothing is lost or duplicated. -/
theorem groupByKeyAndWindow_exact (size off : Nat) (parts : List (List (κ × Timestamped β)))
    (gs : List ((κ × Window) × List β)) (h : groupByKeyAndWindow size off parts = some gs) :
    (gs.map Prod.fst).Nodup ∧
    (∀ k w, groupOf (k, w) gs =
      (parts.flatten.filter (fun kv => kv.1 = k ∧ tumble kv.2.ts size off = some w)).map
        (fun kv => kv.2.value)) ∧
    (∀ k w, (k, w) ∈ gs.map Prod.fst ↔
      ∃ kv ∈ parts.flatten, kv.1 = k ∧ tumble kv.2.ts size off = some w) ∧
    (∀ kw ∈ gs.map Prod.fst, groupOf kw gs =
      (parts.flatten.filter (fun kv => kv.1 = kw.1 ∧ kw.2.start ≤ kv.2.ts ∧ kv.2.ts < kw.2.stop)).map
        (fun kv => kv.2.value)) ∧
    (gs.flatMap Prod.snd).Perm (parts.flatten.map (fun kv => kv.2.value)) := by
  obtain ⟨h1, h2, h3, h4⟩ :=
    groupPipeline_exact (keyWindowOf size off) (fun kv : κ × Timestamped β => kv.2.value) parts gs h
  have key : ∀ (kv : κ × Timestamped β) (k : κ) (w : Window),
      keyWindowOf size off kv = some (k, w) ↔ (kv.1 = k ∧ tumble kv.2.ts size off = some w) := by
    intro kv k w
    unfold keyWindowOf
    cases ht : tumble kv.2.ts size off with
    | none => simp
    | some w' => simp
  refine ⟨h1, ?_, ?_, ?_, h4⟩
  · intro k w
    rw [h2 (k, w)]
    congr 1
    apply List.filter_congr
    intro kv _
    exact decide_eq_decide.mpr (key kv k w)
  · intro k w
    rw [h3 (k, w)]
    constructor
    · rintro ⟨kv, hm, hk⟩; exact ⟨kv, hm, (key kv k w).mp hk⟩
    · rintro ⟨kv, hm, hk⟩; exact ⟨kv, hm, (key kv k w).mpr hk⟩
  · rintro ⟨k, w⟩ hkw
    rw [h2 (k, w)]
    obtain ⟨kv0, _, hkv0⟩ := (h3 (k, w)).mp hkw
    have hev0 := ((key kv0 k w).mp hkv0).2
    have hg0 := tumble_sound _ _ _ _ hev0
    have hfit := (tumble_fits _ _ _ _ hev0).2
    congr 1
    apply List.filter_congr
    intro kv _
    refine decide_eq_decide.mpr ?_
    rw [key kv k w]
    constructor
    · rintro ⟨hk, he⟩
      have := tumble_sound _ _ _ _ he
      exact ⟨hk, this.1, this.2.1⟩
    · rintro ⟨hk, a, b⟩
      exact ⟨hk, tumble_complete kv.2.ts size off w ⟨a, b, hg0.2.2.1, hg0.2.2.2⟩ hfit⟩

/-- every element lands in the group of its own window: for each input element the run (if it does
    not panic) has a group keyed by the element's window, and the element's value is in it -/
theorem groupByWindow_element (size off : Nat) (parts : List (List (Timestamped β)))
    (gs : List (Window × List β)) (h : groupByWindow size off parts = some gs)
    (ev : Timestamped β) (hev : ev ∈ parts.flatten) :
    ∃ w, tumble ev.ts size off = some w ∧ w ∈ gs.map Prod.fst ∧ ev.value ∈ groupOf w gs ∧
      w.start ≤ ev.ts ∧ ev.ts < w.stop := by
  obtain ⟨_, h2, h3, _, _⟩ := groupByWindow_exact size off parts gs h
  cases hw : tumble ev.ts size off with
  | none =>
    have := (groupPipeline_none_iff (windowOf size off) (fun ev : Timestamped β => ev.value) parts).mpr
      ⟨ev, hev, hw⟩
    unfold groupByWindow windowKey at h
    rw [this] at h; cases h
  | some w =>
    have hs := tumble_sound _ _ _ _ hw
    refine ⟨w, rfl, (h3 w).mpr ⟨ev, hev, hw⟩, ?_, hs.1, hs.2.1⟩
    rw [h2 w]
    exact List.mem_map.mpr ⟨ev, List.mem_filter.mpr ⟨hev, by simp [hw]⟩, rfl⟩

/-- the keyed variant: every `(key, event)` row lands in the group of its own key and window, which exists,
    and the window contains the event's timestamp -/
theorem groupByKeyAndWindow_element (size off : Nat) (parts : List (List (κ × Timestamped β)))
    (gs : List ((κ × Window) × List β)) (h : groupByKeyAndWindow size off parts = some gs)
    (kv : κ × Timestamped β) (hkv : kv ∈ parts.flatten) :
    ∃ w, tumble kv.2.ts size off = some w ∧ (kv.1, w) ∈ gs.map Prod.fst ∧
      kv.2.value ∈ groupOf (kv.1, w) gs ∧ w.start ≤ kv.2.ts ∧ kv.2.ts < w.stop := by
  obtain ⟨_, h2, h3, _, _⟩ := groupByKeyAndWindow_exact size off parts gs h
  cases hw : tumble kv.2.ts size off with
  | none =>
    have hk : keyWindowOf size off kv = none := by simp [keyWindowOf, hw]
    have := (groupPipeline_none_iff (keyWindowOf size off) (fun kv : κ × Timestamped β => kv.2.value) parts).mpr
      ⟨kv, hkv, hk⟩
    unfold groupByKeyAndWindow keyWindowKey at h
    rw [this] at h; cases h
  | some w =>
    have hs := tumble_sound _ _ _ _ hw
    refine ⟨w, rfl, (h3 kv.1 w).mpr ⟨kv, hkv, rfl, hw⟩, ?_, hs.1, hs.2.1⟩
    rw [h2 kv.1 w]
    exact List.mem_map.mpr ⟨kv, List.mem_filter.mpr ⟨hkv, by simp [hw]⟩, rfl⟩

/-- C13 (both execution modes / every partition count): `group_by_window` over two partitionings of the
    same event sequence (e.g. `[all]` = `collect_seq` and `exec_par`'s split into `n` chunks) panics
    for both or for neither, and otherwise yields the same set of windows with identical groups. -/
theorem groupByWindow_partition_independent (size off : Nat)
    (parts parts' : List (List (Timestamped β))) (hsame : parts.flatten = parts'.flatten) :
    (groupByWindow size off parts = none ↔ groupByWindow size off parts' = none) ∧
    ∀ gs gs', groupByWindow size off parts = some gs → groupByWindow size off parts' = some gs' →
      (∀ w, groupOf w gs = groupOf w gs') ∧ (∀ w, w ∈ gs.map Prod.fst ↔ w ∈ gs'.map Prod.fst) ∧
      (gs.map Prod.fst).Nodup ∧ (gs'.map Prod.fst).Nodup :=
  groupPipeline_partition_independent (windowOf size off) (fun ev => ev.value) parts parts' hsame

/-- the keyed variant of the previous theorem -/
theorem groupByKeyAndWindow_partition_independent (size off : Nat)
    (parts parts' : List (List (κ × Timestamped β))) (hsame : parts.flatten = parts'.flatten) :
    (groupByKeyAndWindow size off parts = none ↔ groupByKeyAndWindow size off parts' = none) ∧
    ∀ gs gs', groupByKeyAndWindow size off parts = some gs →
      groupByKeyAndWindow size off parts' = some gs' →
      (∀ kw, groupOf kw gs = groupOf kw gs') ∧ (∀ kw, kw ∈ gs.map Prod.fst ↔ kw ∈ gs'.map Prod.fst) ∧
      (gs.map Prod.fst).Nodup ∧ (gs'.map Prod.fst).Nodup :=
  groupPipeline_partition_independent (keyWindowOf size off) (fun kv => kv.2.value) parts parts' hsame

/-- the grouped run succeeds iff every event has a representable window (so, with `tumble_total`,
    exactly on the domain where the property is meaningful) — for every partitioning -/
theorem groupByWindow_none_iff (size off : Nat) (parts : List (List (Timestamped β))) :
    groupByWindow size off parts = none ↔ ∃ ev ∈ parts.flatten, tumble ev.ts size off = none :=
  groupPipeline_none_iff (windowOf size off) (fun ev => ev.value) parts

/-- the keyed variant: panics iff some event has no representable window -/
theorem groupByKeyAndWindow_none_iff (size off : Nat) (parts : List (List (κ × Timestamped β))) :
    groupByKeyAndWindow size off parts = none ↔
      ∃ kv ∈ parts.flatten, tumble kv.2.ts size off = none := by
  unfold groupByKeyAndWindow keyWindowKey
  rw [groupPipeline_none_iff]
  constructor
  · rintro ⟨kv, hm, hk⟩
    refine ⟨kv, hm, ?_⟩
    unfold keyWindowOf at hk
    cases ht : tumble kv.2.ts size off with
    | none => rfl
    | some w => simp [ht] at hk
  · rintro ⟨kv, hm, hk⟩
    exact ⟨kv, hm, by simp [keyWindowOf, hk]⟩

/-- `to_timestamped` / `attach_timestamps` (helpers/timestamped.rs) keep every element, in order,
    with exactly the supplied timestamp and an unchanged value -/
theorem timestamp_helpers_faithful {α : Type} (xs : List (Nat × β)) (ys : List α) (f : α → Nat) :
    (toTimestamped xs).map (fun ev => (ev.ts, ev.value)) = xs ∧
    (attachTimestamps f ys).map (fun ev => ev.value) = ys ∧
    (attachTimestamps f ys).map (fun ev => ev.ts) = ys.map f := by
  simp [toTimestamped, attachTimestamps, Function.comp_def]

omit [DecidableEq κ] in
/-- the idiomatic keyed chain `attach_timestamps(ts_fn).key_by(key_fn)` (helpers/timestamped.rs + helpers/keyed.rs):
    one `(key_fn(ev), ev)` row per element, in order, `ev` carrying `ts_fn(t)` and the unchanged element — so the keyed
    theorems apply to collections built this way with `kv.1 = key_fn ⟨ts_fn t, t⟩` -/
theorem keyBy_attach_faithful {α : Type} (tsFn : α → Nat) (keyFn : Timestamped α → κ) (xs : List α) :
    keyBy keyFn (attachTimestamps tsFn xs) = xs.map (fun t => (keyFn ⟨tsFn t, t⟩, ⟨tsFn t, t⟩)) ∧
    (keyBy keyFn (attachTimestamps tsFn xs)).length = xs.length := by
  simp [keyBy, attachTimestamps, Function.comp_def]

/-- release build of the unkeyed helper (model-level corollary; only `Window::tumble` itself is compared with a
    release compilation): whenever the overflow-checking pipeline returns a grouping, the release pipeline returns the
    SAME grouping, for every partition list … -/
theorem groupByWindow_release (size off : Nat) (parts : List (List (Timestamped β)))
    (hts : ∀ ev ∈ parts.flatten, ev.ts < U64)
    (gs : List (Window × List β)) (h : groupByWindow size off parts = some gs) :
    groupByWindowRelease size off parts = some gs := by
  unfold groupByWindow groupPipeline at h
  unfold groupByWindowRelease groupPipeline
  cases hm : mapAll (mapAll (windowKey size off)) parts with
  | none => simp [hm] at h
  | some kparts =>
    simp only [hm, Option.map_some, Option.some.injEq] at h
    have hflat := mapAll_flatten _ _ _ hm
    -- element-wise: on the events of this input the release closure returns what the checked one returns
    have key : ∀ p ∈ parts, ∀ (ys : List (Window × β)), mapAll (windowKey size off) p = some ys →
        mapAll (windowKeyRelease size off) p = some ys := by
      intro p hp ys hys
      rw [mapAll_eq_some_iff] at hys ⊢
      rw [← hys]
      apply List.map_congr_left
      intro ev hev
      have hlt := hts ev (List.mem_flatten.mpr ⟨p, hp, hev⟩)
      have hsome : ∃ r, windowKey size off ev = some r := by
        have := congrArg (fun l => l.length) hys
        cases hk : windowKey size off ev with
        | some r => exact ⟨r, rfl⟩
        | none =>
          exfalso
          have hn : mapAll (windowKey size off) p = none := (mapAll_eq_none_iff _ _).mpr ⟨ev, hev, hk⟩
          rw [(mapAll_eq_some_iff _ _ _).mpr hys] at hn; cases hn
      obtain ⟨r, hr⟩ := hsome
      rw [hr]
      unfold windowKey keyed windowOf at hr
      unfold windowKeyRelease keyed
      cases ht : tumble ev.ts size off with
      | none => simp [ht] at hr
      | some w =>
        simp only [ht, Option.map_some, Option.some.injEq] at hr
        have hw := tumbleWrapping_eq ev.ts size off w hlt ht
        simp only [hw, Option.map_some, hr]
    have : mapAll (mapAll (windowKeyRelease size off)) parts = some kparts := by
      rw [mapAll_eq_some_iff] at hm ⊢
      rw [← hm]
      apply List.map_congr_left
      intro p hp
      cases hq : mapAll (windowKey size off) p with
      | some ys => exact key p hp ys hq
      | none =>
        exfalso
        have hn : mapAll (mapAll (windowKey size off)) parts = none :=
          (mapAll_eq_none_iff _ _).mpr ⟨p, hp, hq⟩
        rw [(mapAll_eq_some_iff _ _ _).mpr hm] at hn; cases hn
    rw [this, Option.map_some, h]

/-- … and where the checked pipeline panics (some event has no representable window, `size ≥ 1`) the release pipeline
    does NOT panic: it returns a grouping in which that event sits under a window violating the property -/
theorem groupByWindow_release_garbage (size off : Nat) (hsize : 1 ≤ size) (parts : List (List (Timestamped β)))
    (h : groupByWindow size off parts = none) :
    ∃ gs, groupByWindowRelease size off parts = some gs ∧
      ∃ ev ∈ parts.flatten, ∃ w, tumbleWrapping ev.ts size off = some w ∧ w ∈ gs.map Prod.fst ∧
        ¬ Good w ev.ts size off := by
  obtain ⟨ev, hev, hnone⟩ := (groupByWindow_none_iff size off parts).mp h
  obtain ⟨w, hw, _, hbad⟩ := tumbleWrapping_garbage_on_none_domain ev.ts size off hsize hnone
  have hall : ∀ x ∈ parts.flatten, (fun e : Timestamped β => tumbleWrapping e.ts size off) x ≠ none := by
    intro x _ hx
    have hs : size ≠ 0 := by omega
    obtain ⟨w', hw', _⟩ := tumbleWrapping_total x.ts size off hs
    have hx' : tumbleWrapping x.ts size off = none := hx
    rw [hw'] at hx'; cases hx'
  cases hg : groupByWindowRelease size off parts with
  | none =>
    obtain ⟨x, hx, hxn⟩ := (groupPipeline_none_iff (fun e : Timestamped β => tumbleWrapping e.ts size off)
      (fun e => e.value) parts).mp hg
    exact absurd hxn (hall x hx)
  | some gs =>
    refine ⟨gs, rfl, ev, hev, w, hw, ?_, hbad⟩
    exact ((groupPipeline_exact (fun e : Timestamped β => tumbleWrapping e.ts size off) (fun e => e.value)
      parts gs hg).2.2.1 w).mpr ⟨ev, hev, hw⟩

/-- what the harness's derived observations show of a grouping `gs` returned by `group_by_window`
    (ops `gbwj`, `gbws`): joined with a second `group_by_window` of the same events (`join_inner`, the grouping running
    inside the CoGroup sub-plans) every window appears exactly once, paired with its own group on both sides; collected
    through the sorted collectors the rows are a permutation of `gs` in strictly ascending `impl Ord for Window` order -/
theorem groupByWindow_derived (size off : Nat) (parts : List (List (Timestamped β)))
    (gs : List (Window × List β)) (h : groupByWindow size off parts = some gs) :
    joinInner gs gs = gs.map (fun g => (g.1, (g.2, g.2))) ∧
    (sortByWindow gs).Perm gs ∧
    (sortByWindow gs).Pairwise (fun a b => a.1.cmpImpl b.1 = .lt) := by
  obtain ⟨hnd, _, _, _, _⟩ := groupByWindow_exact size off parts gs h
  refine ⟨?_, List.mergeSort_perm _ _, ?_⟩
  · unfold joinInner
    apply flatMap_eq_map_of_singleton
    intro a ha
    rw [filter_key_of_nodup gs hnd a ha]
    rfl
  · have hle : ∀ a b c : Window × List β, (a.1.cmpImpl b.1 != .gt) = true → (b.1.cmpImpl c.1 != .gt) = true →
        (a.1.cmpImpl c.1 != .gt) = true := by
      intro a b c
      obtain ⟨⟨a1, a2⟩, _⟩ := a; obtain ⟨⟨b1, b2⟩, _⟩ := b; obtain ⟨⟨c1, c2⟩, _⟩ := c
      simp only [Window.cmpImpl, bne_iff_ne, ne_eq, Ordering.then_eq_gt, Nat.compare_eq_gt, Nat.compare_eq_eq]
      omega
    have htot : ∀ a b : Window × List β, ((a.1.cmpImpl b.1 != .gt) || (b.1.cmpImpl a.1 != .gt)) = true := by
      intro a b
      obtain ⟨⟨a1, a2⟩, _⟩ := a; obtain ⟨⟨b1, b2⟩, _⟩ := b
      simp only [Window.cmpImpl, Bool.or_eq_true, bne_iff_ne, ne_eq, Ordering.then_eq_gt, Nat.compare_eq_gt,
        Nat.compare_eq_eq]
      omega
    have hsorted := List.pairwise_mergeSort (le := fun a b : Window × List β => a.1.cmpImpl b.1 != .gt) hle htot gs
    have hnd' : ((sortByWindow gs).map Prod.fst).Nodup := ((List.mergeSort_perm _ _).map Prod.fst).nodup_iff.mpr hnd
    unfold sortByWindow at hnd' ⊢
    -- distinct keys: "not greater" between distinct rows of a sorted list is "less"
    have hpw := (List.pairwise_map.mp hnd').and hsorted
    refine hpw.imp ?_
    rintro a b ⟨hne, hle'⟩
    cases hc : a.1.cmpImpl b.1 with
    | lt => rfl
    | eq => exact absurd ((window_cmp_eq_iff a.1 b.1).mp hc) hne
    | gt => simp [hc] at hle'

/-- `exec_par`'s source split is a partitioning of the input (so the theorems above apply to it) -/
theorem sourceParts_flatten {α : Type} (xs : List α) (n : Nat) : (sourceParts xs n).flatten = xs := by
  have chunks : ∀ (fuel c : Nat) (ys : List α), 0 < c → ys.length ≤ fuel →
      (chunksOf c fuel ys).flatten = ys := by
    intro fuel
    induction fuel with
    | zero => intro c ys _ hl; have : ys = [] := List.length_eq_zero_iff.mp (by omega); subst this; rfl
    | succ f ih =>
      intro c ys hc hl
      unfold chunksOf
      cases ys with
      | nil => rfl
      | cons y ys' =>
        simp only [List.isEmpty_cons, Bool.false_eq_true, if_false, List.flatten_cons]
        rw [ih c _ hc (by simp only [List.length_drop, List.length_cons] at hl ⊢; omega)]
        exact List.take_append_drop c (y :: ys')
  unfold sourceParts splitVec clampParts
  split
  · simp
  · rename_i hn
    apply chunks _ _ _ _ (Nat.le_refl _)
    have : 0 < min (max n 1) (max xs.length 1) := by omega
    exact Nat.div_pos (by omega) this

/-! ### `key_by_window` (unkeyed and keyed): a 1:1, order-preserving relabelling -/

/-- C13 (`PCollection<Timestamped<T>>::key_by_window` on one partition): the map returns `ys` **iff**
    `ys` has exactly one row per input element, in input order, each row carrying the element's
    unchanged value and — as its key — exactly `Window::tumble(ev.ts, size, off)`.
    Nothing is dropped, duplicated, reordered or re-keyed. -/
theorem keyByWindow_exact (size off : Nat) (xs : List (Timestamped β)) (ys : List (Window × β)) :
    keyByWindow size off xs = some ys ↔
      ys.length = xs.length ∧ ys.map Prod.snd = xs.map (fun ev => ev.value) ∧
      ys.map (fun r => some r.1) = xs.map (fun ev => tumble ev.ts size off) := by
  unfold keyByWindow
  rw [mapAll_eq_some_iff]
  induction xs generalizing ys with
  | nil => cases ys <;> simp
  | cons x xs ih =>
    cases ys with
    | nil => simp
    | cons y ys =>
      obtain ⟨w, v⟩ := y
      simp only [List.map_cons, List.cons.injEq, ih ys, List.length_cons, Nat.add_right_cancel_iff]
      have hx : windowKey size off x = some (w, v) ↔ (v = x.value ∧ some w = tumble x.ts size off) := by
        unfold windowKey keyed windowOf
        cases tumble x.ts size off with
        | none => simp
        | some w' => simp only [Option.map_some, Option.some.injEq, Prod.mk.injEq]; grind
      rw [hx]
      grind

/-- position by position: row `i` of the output is `(tumble xs[i].ts, xs[i].value)`, and its key is the
    window with the four properties of C13 for `xs[i].ts` -/
theorem keyByWindow_element (size off : Nat) (xs : List (Timestamped β)) (ys : List (Window × β))
    (h : keyByWindow size off xs = some ys) (i : Nat) (hx : i < xs.length) :
    ∃ hy : i < ys.length, tumble xs[i].ts size off = some ys[i].1 ∧ ys[i].2 = xs[i].value ∧
      Good ys[i].1 xs[i].ts size off := by
  obtain ⟨hl, hv, hk⟩ := (keyByWindow_exact size off xs ys).mp h
  have hy : i < ys.length := by omega
  have e1 := congrArg (fun l => l[i]?) hv
  have e2 := congrArg (fun l => l[i]?) hk
  simp only [List.getElem?_map, List.getElem?_eq_getElem hx, List.getElem?_eq_getElem hy,
    Option.map_some, Option.some.injEq] at e1 e2
  exact ⟨hy, e2.symm, e1, tumble_sound _ _ _ _ e2.symm⟩

/-- `key_by_window` panics iff some element has no representable window -/
theorem keyByWindow_none_iff (size off : Nat) (xs : List (Timestamped β)) :
    keyByWindow size off xs = none ↔ ∃ ev ∈ xs, tumble ev.ts size off = none := by
  unfold keyByWindow
  rw [mapAll_eq_none_iff]
  have hx : ∀ ev : Timestamped β, windowKey size off ev = none ↔ tumble ev.ts size off = none := by
    intro ev
    unfold windowKey keyed windowOf
    cases tumble ev.ts size off <;> simp
  simp only [hx]

omit [DecidableEq κ] in
/-- C13 (keyed `PCollection<(K, Timestamped<V>)>::key_by_window` on one partition): one row per input
    element, in input order, with the element's unchanged key and value, and `Window::tumble(ts, size,
    off)` of its timestamp as the window part of the new key. -/
theorem keyByKeyAndWindow_exact (size off : Nat) (xs : List (κ × Timestamped β))
    (ys : List ((κ × Window) × β)) :
    keyByKeyAndWindow size off xs = some ys ↔
      ys.length = xs.length ∧
      ys.map (fun r => (r.1.1, r.2)) = xs.map (fun kv => (kv.1, kv.2.value)) ∧
      ys.map (fun r => some r.1.2) = xs.map (fun kv => tumble kv.2.ts size off) := by
  unfold keyByKeyAndWindow
  rw [mapAll_eq_some_iff]
  induction xs generalizing ys with
  | nil => cases ys <;> simp
  | cons x xs ih =>
    cases ys with
    | nil => simp
    | cons y ys =>
      obtain ⟨⟨k, w⟩, v⟩ := y
      simp only [List.map_cons, List.cons.injEq, ih ys, List.length_cons, Nat.add_right_cancel_iff]
      have hx : keyWindowKey size off x = some ((k, w), v) ↔
          ((k, v) = (x.1, x.2.value) ∧ some w = tumble x.2.ts size off) := by
        unfold keyWindowKey keyed keyWindowOf
        cases tumble x.2.ts size off with
        | none => simp
        | some w' => simp only [Option.map_some, Option.some.injEq, Prod.mk.injEq]; grind
      rw [hx]
      grind

omit [DecidableEq κ] in
/-- position by position, keyed variant -/
theorem keyByKeyAndWindow_element (size off : Nat) (xs : List (κ × Timestamped β))
    (ys : List ((κ × Window) × β)) (h : keyByKeyAndWindow size off xs = some ys)
    (i : Nat) (hx : i < xs.length) :
    ∃ hy : i < ys.length, ys[i].1.1 = xs[i].1 ∧ tumble xs[i].2.ts size off = some ys[i].1.2 ∧
      ys[i].2 = xs[i].2.value ∧ Good ys[i].1.2 xs[i].2.ts size off := by
  obtain ⟨hl, hv, hk⟩ := (keyByKeyAndWindow_exact size off xs ys).mp h
  have hy : i < ys.length := by omega
  have e1 := congrArg (fun l => l[i]?) hv
  have e2 := congrArg (fun l => l[i]?) hk
  simp only [List.getElem?_map, List.getElem?_eq_getElem hx, List.getElem?_eq_getElem hy,
    Option.map_some, Option.some.injEq, Prod.mk.injEq] at e1 e2
  exact ⟨hy, e1.1, e2.symm, e1.2, tumble_sound _ _ _ _ e2.symm⟩

omit [DecidableEq κ] in
/-- keyed `key_by_window` panics iff some element has no representable window -/
theorem keyByKeyAndWindow_none_iff (size off : Nat) (xs : List (κ × Timestamped β)) :
    keyByKeyAndWindow size off xs = none ↔ ∃ kv ∈ xs, tumble kv.2.ts size off = none := by
  unfold keyByKeyAndWindow
  rw [mapAll_eq_none_iff]
  have hx : ∀ kv : κ × Timestamped β, keyWindowKey size off kv = none ↔ tumble kv.2.ts size off = none := by
    intro kv
    unfold keyWindowKey keyed keyWindowOf
    cases tumble kv.2.ts size off <;> simp
  simp only [hx]

/-- `key_by_window(..).collect` over ANY partition list = the one-partition map on the concatenated
    input (same panic behaviour, same rows, same order) -/
theorem keyByWindowPar_eq (size off : Nat) (parts : List (List (Timestamped β))) :
    keyByWindowPar size off parts = keyByWindow size off parts.flatten :=
  mapAll_parts_flatten _ parts

omit [DecidableEq κ] in
theorem keyByKeyAndWindowPar_eq (size off : Nat) (parts : List (List (κ × Timestamped β))) :
    keyByKeyAndWindowPar size off parts = keyByKeyAndWindow size off parts.flatten :=
  mapAll_parts_flatten _ parts

/-! ### the composed corollaries: the engine's own partitioning vs the sequential run -/

omit [DecidableEq κ] in
/-- C13 (both execution modes, `key_by_window`): for every partition count `n`, `collect_par` over
    `exec_par`'s split of the source returns exactly what `collect_seq` returns — the same panic or the
    same rows in the same order — for the unkeyed and the keyed helper. -/
theorem keyByWindow_seq_eq_par (size off : Nat) (xs : List (Timestamped β))
    (kxs : List (κ × Timestamped β)) (n : Nat) :
    keyByWindowPar size off (sourceParts xs n) = keyByWindowPar size off [xs] ∧
    keyByKeyAndWindowPar size off (sourceParts kxs n) = keyByKeyAndWindowPar size off [kxs] := by
  simp only [keyByWindowPar_eq, keyByKeyAndWindowPar_eq, sourceParts_flatten, List.flatten_cons,
    List.flatten_nil, List.append_nil, and_self]

/-- generic form: a keyed map + `group_by_key` over `exec_par`'s split (any `n`) and over the single
    sequential partition both panic or neither does, and the two groupings are the same rows
    `(key, group)` — group contents in input order — up to the order of the rows (hash-map order). -/
theorem groupPipeline_seq_eq_par {α : Type} (g : α → Option κ) (v : α → β) (xs : List α) (n : Nat) :
    (groupPipeline (keyed g v) (sourceParts xs n) = none ↔ groupPipeline (keyed g v) [xs] = none) ∧
    ∀ gp gq, groupPipeline (keyed g v) (sourceParts xs n) = some gp →
      groupPipeline (keyed g v) [xs] = some gq → gp.Perm gq ∧ ∀ k, groupOf k gp = groupOf k gq := by
  have hsame : (sourceParts xs n).flatten = [xs].flatten := by simp [sourceParts_flatten]
  obtain ⟨h0, h1⟩ := groupPipeline_partition_independent g v (sourceParts xs n) [xs] hsame
  refine ⟨h0, fun gp gq hp hq => ?_⟩
  obtain ⟨hg, hm, n1, n2⟩ := h1 gp gq hp hq
  exact ⟨groups_perm_of_groupOf_eq gp gq n1 n2 hm hg, hg⟩

/-- C13 ("in both execution modes", `group_by_window`): for every partition count `n`,
    `collect_par` (the engine's actual `sourceParts xs n`) and `collect_seq` (`[xs]`) panic together or
    return the same `(window, group)` rows up to row order. -/
theorem groupByWindow_seq_eq_par (size off : Nat) (xs : List (Timestamped β)) (n : Nat) :
    (groupByWindow size off (sourceParts xs n) = none ↔ groupByWindow size off [xs] = none) ∧
    ∀ gp gq, groupByWindow size off (sourceParts xs n) = some gp →
      groupByWindow size off [xs] = some gq → gp.Perm gq ∧ ∀ w, groupOf w gp = groupOf w gq :=
  groupPipeline_seq_eq_par (windowOf size off) (fun ev => ev.value) xs n

/-- the keyed variant (`group_by_key_and_window`) -/
theorem groupByKeyAndWindow_seq_eq_par (size off : Nat) (xs : List (κ × Timestamped β)) (n : Nat) :
    (groupByKeyAndWindow size off (sourceParts xs n) = none ↔
      groupByKeyAndWindow size off [xs] = none) ∧
    ∀ gp gq, groupByKeyAndWindow size off (sourceParts xs n) = some gp →
      groupByKeyAndWindow size off [xs] = some gq → gp.Perm gq ∧ ∀ kw, groupOf kw gp = groupOf kw gq :=
  groupPipeline_seq_eq_par (keyWindowOf size off) (fun kv => kv.2.value) xs n

/-- non-vacuity witnesses (kernel-evaluated): 3 elements over 2 partitions, `ts` below the offset;
    keys are the windows of the timestamps, order and values kept; a run with an element that has no
    window panics -/
example : keyByWindowPar 10 25 (sourceParts [⟨7, 70⟩, ⟨27, 71⟩, ⟨8, 70⟩] 2)
    = some [(⟨5, 15⟩, 70), (⟨25, 35⟩, 71), (⟨5, 15⟩, 70)] ∧
    sourceParts [(⟨7, 70⟩ : Timestamped Nat), ⟨27, 71⟩, ⟨8, 70⟩] 2 = [[⟨7, 70⟩, ⟨27, 71⟩], [⟨8, 70⟩]] ∧
    keyByKeyAndWindowPar 10 25 [[(1, ⟨7, 70⟩)], [((2 : Nat), ⟨8, 70⟩)]]
      = some [((1, ⟨5, 15⟩), 70), ((2, ⟨5, 15⟩), 70)] ∧
    keyByWindowPar 10 5 [[⟨30, 1⟩], [(⟨3, 2⟩ : Timestamped Nat)]] = none := by decide

/-- non-vacuity witness: three partitions, `ts` below the offset, a repeated value; the model run returns
    two windows and `[5,15)` holds the two elements 7 and 8 fall into -/
example : groupByWindow 10 25 [[⟨7, 70⟩, ⟨27, 71⟩], [], [⟨8, 70⟩]]
    = some [(⟨5, 15⟩, [70, 70]), (⟨25, 35⟩, [71])] := by decide

end Windows

/-! ## Part 4 — the same statements about the SHARED engine / planner / `group_by_key` models (C01–C08)

`groupPipeline` above is a bespoke description of "a keyed `map` on every partition, then `group_by_key`".  The
theorems of this part tie it to the models the other pipeline properties are proved about: `IB.execSeq` / `IB.execPar`
(`Model/Engine.lean`, `runner.rs`), `IB.optimise` (`Model/Planner.lean`, `planner.rs`), `IB.gbkNode` = `gbkLocal` /
`gbkMerge` (`Model/Closures.lean`, `helpers/keyed.rs::group_by_key`, the object of C04) and `IB.vecSplit`
(`VecOpsImpl::split`).  Rows travel as `Val`s: a window is `P(I start, I end)` (`encW`, injective), an event
`P(I ts, I value)` (`encEv`). -/

open IB in
/-- C13's association-list `group_by_key` IS C04's: for every injective key encoding (in particular `Window` and
    `(K, Window)` keys) and every partition list, `Window.groupByKeyPar` maps, row by row and in the same order, to
    `mergeGroups (parts.map groupRows)` — the list C04's theorems (`gbk_keys_nodup`, `gbk_values`, `gbk_contract`, …)
    are about. -/
theorem window_gbk_is_C04 {κ β : Type} [DecidableEq κ] (encK : κ → Val) (encV : β → Val)
    (hinj : Function.Injective encK) (parts : List (List (κ × β))) :
    (groupByKeyPar parts).map (encGroup encK encV) =
      mergeGroups ((parts.map (List.map (encRow encK encV))).map groupRows) :=
  groupByKeyPar_enc encK encV hinj parts

open IB in
/-- C13 ("in both execution modes", on the shared engine model): for the plan the builders create for
    `from_vec(events).group_by_window(size, off)` — `Source → Stateless[map] → GroupByKey`, passed through the planner
    model `optimise` — and EVERY partition count `n`: whenever the run has no panicking element, `execPar` returns the
    wire image of `groupByWindow size off (sourceParts xs n)` and `execSeq` that of `groupByWindow size off [xs]`.
    With `groupByWindow_seq_eq_par` / `groupByWindow_exact`: both engines return the same groups, each exactly the
    events of its window. -/
theorem groupByWindow_engine (size off : Nat) (xs : List (Timestamped Int)) (n : Nat) :
    (∀ gp, groupByWindow size off (sourceParts xs n) = some gp →
      execPar List.flatten (optimise (mapGbkChain (windowKeyVal size off) (xs.map encEv))) n =
        pure (encGroups (gp.map (encGroup encW Val.int)))) ∧
    (∀ gq, groupByWindow size off [xs] = some gq →
      execSeq (optimise (mapGbkChain (windowKeyVal size off) (xs.map encEv))) =
        pure (encGroups (gq.map (encGroup encW Val.int)))) :=
  ⟨fun gp h => enginePlan_par encEv encW Val.int encW_injective _ _ (windowKeyVal_realises size off) xs n gp h,
   fun gq h => enginePlan_seq encEv encW Val.int encW_injective _ _ (windowKeyVal_realises size off) xs gq h⟩

open IB in
/-- the keyed variant: `from_vec(rows).group_by_key_and_window(size, off)` on the shared engine model -/
theorem groupByKeyAndWindow_engine (size off : Nat) (xs : List (Int × Timestamped Int)) (n : Nat) :
    (∀ gp, groupByKeyAndWindow size off (sourceParts xs n) = some gp →
      execPar List.flatten (optimise (mapGbkChain (keyWindowKeyVal size off) (xs.map encKEv))) n =
        pure (encGroups (gp.map (encGroup encKW Val.int)))) ∧
    (∀ gq, groupByKeyAndWindow size off [xs] = some gq →
      execSeq (optimise (mapGbkChain (keyWindowKeyVal size off) (xs.map encKEv))) =
        pure (encGroups (gq.map (encGroup encKW Val.int)))) :=
  ⟨fun gp h => enginePlan_par encKEv encKW Val.int encKW_injective _ _ (keyWindowKeyVal_realises size off) xs n gp h,
   fun gq h => enginePlan_seq encKEv encKW Val.int encKW_injective _ _ (keyWindowKeyVal_realises size off) xs gq h⟩

/-- the chains of the two theorems above are the chains `builderChain` gives for `gbw` / `gbkw` on a direct
    `from_vec` source — the ones whose planned node kinds the driver request `WPLAN` compares with the chain the REAL
    runner receives (`Source, Stateless1, GroupByKey`) — and the planner model leaves them unchanged -/
theorem engine_chain_is_builder_chain (size off : Nat) (rows : List IB.Val) :
    builderChain size off "gbw" "d" rows = some (mapGbkChain (windowKeyVal size off) rows) ∧
    builderChain size off "gbkw" "d" rows = some (mapGbkChain (keyWindowKeyVal size off) rows) ∧
    IB.optimise (mapGbkChain (windowKeyVal size off) rows) = mapGbkChain (windowKeyVal size off) rows ∧
    planKinds size off "gbw" "d" = some ["Source", "Stateless1", "GroupByKey"] :=
  ⟨rfl, rfl, optimise_mapGbkChain _ _, by
    have : planKinds size off "gbw" "d" =
        some ((IB.optimise (mapGbkChain (windowKeyVal size off) [])).map IB.Node.kind) := rfl
    rw [this, optimise_mapGbkChain]
    simp only [mapGbkChain, IB.Node.kind, IB.vecSource, IB.gbkNode, List.map_cons, List.map_nil, List.length_cons,
      List.length_nil]
    decide⟩

/-- non-vacuity (kernel-evaluated): the hypotheses of the two theorems hold on the design witness (`ts` below the
    offset, two partitions) -/
example : groupByWindow 10 25 (sourceParts [⟨7, 70⟩, ⟨27, 71⟩, (⟨8, 72⟩ : Timestamped Int)] 2)
      = some [(⟨5, 15⟩, [70, 72]), (⟨25, 35⟩, [71])] ∧
    groupByKeyAndWindow 10 25 [[((1 : Int), ⟨7, 70⟩), (2, ⟨8, 71⟩), (1, (⟨9, 72⟩ : Timestamped Int))]]
      = some [((1, ⟨5, 15⟩), [70, 72]), ((2, ⟨5, 15⟩), [71])] := by decide

/-- Census obligation (round 5; `helperOpTable` is re-read from the running code on every run): the operators the two
    `key_by_window` builders insert do NOT claim the planner's value-only reorder contract, so a fused block that
    holds a windowing step is executed as written (`Props/C03.lean::helper_pinned`); the model's `key_by_window`
    (an ordinary `map`) then describes what runs. A windowing operator that claimed the flags would be sorted among
    neighbouring `map_values` / `filter_values` steps by cost hint and meet rows of the wrong type. Driver request
    `WGROUP kkbwv` runs exactly such a neighbourhood on the real engine. -/
theorem windowing_steps_not_movable :
    ∀ e ∈ IB.Generated.helperOpTable, (e.1 = "key_by_window" ∨ e.1 = "key_by_window:keyed") →
      (e.2.valueOnly && e.2.keyPreserving && e.2.reorderSafe) = false := by decide

example : (IB.Generated.helperOpTable.filter fun e => e.1 == "key_by_window" || e.1 == "key_by_window:keyed").length = 2 := by
  decide

end IB.Window
