import IbModel.Model.Planner
import IbModel.Model.Closures
import IbModel.Generated.Tables
/-!
# C03 — plan optimisation never changes what a pipeline computes

Structural legality of the four passes ("a legal rewrite"), stated for EVERY chain over every partition
type. The semantic theorems (`fuse_sem`, `reorder_sem_partial`, lift/drop semantics and their
composition) are in `Props/C02.lean` / `Props/C05.lean`; the negation witnesses of the value-only
reorder pass are in `Props/C02.lean`.
-/
namespace IB
variable {P : Type}

/-- all stateless ops of a chain, in execution order -/
def opsOf : List (Node P) → List (DynOp P)
  | [] => []
  | .stateless ops :: rest => ops ++ opsOf rest
  | _ :: rest => opsOf rest

/-- the non-stateless nodes of a chain, in order (compared by kind) -/
def barriersOf : List (Node P) → List String
  | [] => []
  | .stateless _ :: rest => barriersOf rest
  | n :: rest => n.kind :: barriersOf rest

/-- C03 (fusion): fusion keeps every element-wise step exactly once and in order. -/
theorem fuse_keeps_ops (c : List (Node P)) : opsOf (fuse c) = opsOf c := by
  induction c with
  | nil => rfl
  | cons n rest ih =>
    cases n with
    | stateless a =>
      simp only [fuse]
      split
      · next b r h => rw [h] at ih; simp only [opsOf] at ih ⊢; rw [← ih, List.append_assoc]
      · next h => simp only [opsOf, ih]
    | source w l s => simp [fuse, opsOf, ih]
    | gbk l m => simp [fuse, opsOf, ih]
    | combineValues lp lg m => simp [fuse, opsOf, ih]
    | combineGlobal l m f fo => simp [fuse, opsOf, ih]
    | coGroup l r cl cr e => simp [fuse, opsOf, ih]
    | materialized p => simp [fuse, opsOf, ih]

/-- C03 (fusion): the barriers, sources and markers are untouched by fusion. -/
theorem fuse_keeps_barriers (c : List (Node P)) : barriersOf (fuse c) = barriersOf c := by
  induction c with
  | nil => rfl
  | cons n rest ih =>
    cases n with
    | stateless a =>
      simp only [fuse]
      split
      · next b r h => rw [h] at ih; simpa [barriersOf] using ih
      · next h => simp only [barriersOf, ih]
    | source w l s => simp [fuse, barriersOf, ih]
    | gbk l m => simp [fuse, barriersOf, ih]
    | combineValues lp lg m => simp [fuse, barriersOf, ih]
    | combineGlobal l m f fo => simp [fuse, barriersOf, ih]
    | coGroup l r cl cr e => simp [fuse, barriersOf, ih]
    | materialized p => simp [fuse, barriersOf, ih]

/-- a block is permuted only if ALL its ops are movable (value-only ∧ key-preserving ∧ reorder-safe) -/
theorem reorderBlock_of_not_all_movable (ops : List (DynOp P)) (h : ops.all movable = false) :
    reorderBlock ops = ops := by
  simp [reorderBlock, h]

/-- whatever the block, the pass only permutes it -/
theorem reorderBlock_perm (ops : List (DynOp P)) : (reorderBlock ops).Perm ops := by
  unfold reorderBlock
  split
  · exact List.mergeSort_perm _ _
  · exact List.Perm.refl _

/-- … and when it does permute, the result is sorted by `(cost ≠ 1, cost)` -/
theorem reorderBlock_sorted (ops : List (DynOp P)) (h : ops.all movable = true) (hl : ops.length > 1) :
    (reorderBlock ops).Pairwise (fun a b => keyLe (sortKey a) (sortKey b) = true) := by
  unfold reorderBlock
  simp only [h, hl, decide_true, Bool.and_self, ↓reduceIte]
  apply List.pairwise_mergeSort
  · intro a b c hab hbc
    simp only [keyLe, Bool.or_eq_true, decide_eq_true_eq, Bool.and_eq_true, beq_iff_eq] at *
    omega
  · intro a b
    simp only [keyLe, Bool.or_eq_true, decide_eq_true_eq, Bool.and_eq_true, beq_iff_eq]
    omega

/-- C03 (reorder): the pass keeps the chain's node structure and only permutes ops inside blocks. -/
theorem reorder_perm_ops (c : List (Node P)) : (opsOf (reorder c)).Perm (opsOf c) := by
  induction c with
  | nil => exact List.Perm.refl _
  | cons n rest ih =>
    cases n with
    | stateless a => simp only [reorder, opsOf]; exact (reorderBlock_perm a).append ih
    | source w l s => simpa [reorder, opsOf] using ih
    | gbk l m => simpa [reorder, opsOf] using ih
    | combineValues lp lg m => simpa [reorder, opsOf] using ih
    | combineGlobal l m f fo => simpa [reorder, opsOf] using ih
    | coGroup l r cl cr e => simpa [reorder, opsOf] using ih
    | materialized p => simpa [reorder, opsOf] using ih

theorem reorder_length (c : List (Node P)) : (reorder c).length = c.length := by
  induction c with
  | nil => rfl
  | cons n rest ih => cases n <;> simp [reorder, ih]

theorem reorder_keeps_barriers (c : List (Node P)) : barriersOf (reorder c) = barriersOf c := by
  induction c with
  | nil => rfl
  | cons n rest ih => cases n <;> simp [reorder, barriersOf, ih]

/-- C03 (lift): the lift pass never touches stateless ops … -/
theorem liftGbk_keeps_ops (c : List (Node P)) : opsOf (liftGbk c) = opsOf c := by
  fun_induction liftGbk c with
  | case1 l m lp lg mm rest ih => simp [opsOf, ih]
  | case2 n rest h ih => cases n <;> simp_all [opsOf]
  | case3 => rfl

/-- … and a chain without a `GroupByKey` is left exactly as it is (a combine is never rewritten on its own) -/
theorem liftGbk_id_of_no_gbk (c : List (Node P)) (h : ∀ n ∈ c, ∀ l m, n ≠ Node.gbk l m) :
    liftGbk c = c := by
  fun_induction liftGbk c with
  | case1 l m lp lg mm rest ih => exact absurd rfl (h _ (by simp) l m)
  | case2 n rest hne ih => rw [ih (fun x hx => h x (by simp [hx]))]
  | case3 => rfl

/-- C03 (drop): only non-terminal materialisation markers are dropped — the terminal node survives. -/
theorem dropMid_keeps_last (c : List (Node P)) : (dropMid c).getLast? = c.getLast? := by
  fun_induction dropMid c with
  | case1 => rfl
  | case2 n => rfl
  | case3 p n rest ih => simpa [List.getLast?_cons_cons] using ih
  | case4 m n rest hm ih =>
    cases hd : dropMid (n :: rest) with
    | nil =>
      rw [hd] at ih
      have : (n :: rest).getLast? = some ((n :: rest).getLast (by simp)) := List.getLast?_eq_some_getLast (by simp)
      rw [this] at ih; simp at ih
    | cons x xs => rw [hd] at ih; rw [List.getLast?_cons_cons, List.getLast?_cons_cons]; exact ih

/-- C03 (drop): nothing but `Materialized` markers is ever removed -/
theorem dropMid_keeps_ops (c : List (Node P)) : opsOf (dropMid c) = opsOf c := by
  fun_induction dropMid c with
  | case1 => rfl
  | case2 n => rfl
  | case3 p n rest ih => simpa [opsOf] using ih
  | case4 m n rest hm ih => cases m <;> simp_all [opsOf]

/-- a chain without markers (every chain the public builders produce) is untouched -/
theorem dropMid_id_of_no_materialized (c : List (Node P)) (h : ∀ n ∈ c, ∀ p, n ≠ Node.materialized p) :
    dropMid c = c := by
  fun_induction dropMid c with
  | case1 => rfl
  | case2 n => rfl
  | case3 p n rest ih => exact absurd rfl (h _ (by simp) p)
  | case4 m n rest hm ih => rw [ih (fun x hx => h x (by simp [hx]))]

/-- C03: the whole optimiser keeps every element-wise op exactly once (as a multiset; in order unless a
    block is all-movable). -/
theorem optimise_perm_ops (c : List (Node P)) : (opsOf (optimise c)).Perm (opsOf c) := by
  unfold optimise
  rw [dropMid_keeps_ops, liftGbk_keeps_ops]
  exact (reorder_perm_ops (fuse c)).trans (by rw [fuse_keeps_ops])

/-- C03: and the terminal node of the plan is the terminal node of the pipeline, or the combine that
    replaced a terminal GBK→combine pair. -/
theorem optimiseNoReorder_keeps_ops (c : List (Node P)) : opsOf (optimiseNoReorder c) = opsOf c := by
  unfold optimiseNoReorder
  rw [dropMid_keeps_ops, liftGbk_keeps_ops, fuse_keeps_ops]

/-- Table obligation (re-read from the running code on every run): an operator that does not itself
    claim `reorder_safe_with_value_only` is never movable — the trait default is `false` whatever its
    other flags say — and an operator that overrides nothing is not movable and costs 10. -/
theorem trait_defaults_conservative :
    Generated.dynOpDefaults =
      [(false, false, false, 10), (false, true, false, 10), (true, false, false, 10), (true, true, false, 10)] ∧
    Generated.bareOpFlags = ⟨false, false, false, 10⟩ := by decide

end IB
