import IbModel.Model.Planner
import IbModel.Model.Closures
import IbModel.Generated.Tables
import IbModel.Proofs.PlanSem
import IbModel.Proofs.LiftPair
import IbModel.Props.C01
import IbModel.Props.C02
/-!
# C03 — plan optimisation never changes what a pipeline computes

Part 1 — structural legality of the four passes ("a legal rewrite"), stated for EVERY chain over every
partition type.

Part 2 — semantics, `exec(optimise(chain)) == exec(chain)`:
* `fuse`: no hypothesis (`IB.C02.fuse_sem`, `fuse_sem'`); used here in the composition;
* `liftGbk`: `lift_pair_sem` — for EVERY lawful combiner and EVERY input partition the
  GBK→lifted-combine window and the direct combine return literally the same partition;
  `liftPairsOK_of_shape` / `liftPairsOK_of_built` — hence every window the builders can create is liftable,
  also after `fuse` and `reorder`; `liftGbk_sem_builder`;
* `dropMid`: `dropMid_sem_of_restating_markers` (GENERAL: sound for every chain whose non-terminal markers
  restate the flowing value — `MidMatOK`), `dropMid_unsound_for_other_markers` (NEGATION witness: for any
  other marker the pass changes the result), `dropMid_builder_id` (builder chains contain no marker and no
  earlier pass creates one, so there the pass is the identity);
* `reorder`: sound only where it is inert / permutes commuting blocks. The full statement
  "`execSeq (optimise c) = execSeq c` for every builder chain" is FALSE for the code that exists — the known
  value-only reorder finding (`IB.C02.reorder_breaks_order`, restated for builder chains below as
  `optimise_sem_builder_full_is_false`). Proved instead: `optimise_sem_builder_partial` (under
  `ReorderInert`), `optimise_sem_builder_commuting_partial` (under the weaker `CommutingChain (fuse …)`), their
  parallel corollaries for every partition count, and the general `optimise_sem_general_partial` for
  arbitrary (synthetic) chains.
-/
namespace IB
variable {P : Type}

/-- all stateless ops of a chain, in execution order -/
def opsOf : List (Node P) → List (DynOp P)
  | [] => []
  | .stateless ops :: rest => ops ++ opsOf rest
  | _ :: rest => opsOf rest

/-- the non-stateless nodes of a chain, in order (compared by kind) -/
def barriersOf : List (Node P) → List String
  | [] => []
  | .stateless _ :: rest => barriersOf rest
  | n :: rest => n.kind :: barriersOf rest

/-- C03 (fusion): fusion keeps every element-wise step exactly once and in order. -/
theorem fuse_keeps_ops (c : List (Node P)) : opsOf (fuse c) = opsOf c := by
  induction c with
  | nil => rfl
  | cons n rest ih =>
    cases n with
    | stateless a =>
      simp only [fuse]
      split
      · next b r h => rw [h] at ih; simp only [opsOf] at ih ⊢; rw [← ih, List.append_assoc]
      · next h => simp only [opsOf, ih]
    | source w l s => simp [fuse, opsOf, ih]
    | gbk l m => simp [fuse, opsOf, ih]
    | combineValues lp lg m => simp [fuse, opsOf, ih]
    | combineGlobal l m f fo => simp [fuse, opsOf, ih]
    | coGroup l r cl cr e => simp [fuse, opsOf, ih]
    | materialized p => simp [fuse, opsOf, ih]

/-- C03 (fusion): the barriers, sources and markers are untouched by fusion. -/
theorem fuse_keeps_barriers (c : List (Node P)) : barriersOf (fuse c) = barriersOf c := by
  induction c with
  | nil => rfl
  | cons n rest ih =>
    cases n with
    | stateless a =>
      simp only [fuse]
      split
      · next b r h => rw [h] at ih; simpa [barriersOf] using ih
      · next h => simp only [barriersOf, ih]
    | source w l s => simp [fuse, barriersOf, ih]
    | gbk l m => simp [fuse, barriersOf, ih]
    | combineValues lp lg m => simp [fuse, barriersOf, ih]
    | combineGlobal l m f fo => simp [fuse, barriersOf, ih]
    | coGroup l r cl cr e => simp [fuse, barriersOf, ih]
    | materialized p => simp [fuse, barriersOf, ih]

/-- a block is permuted only if ALL its ops are movable (value-only ∧ key-preserving ∧ reorder-safe) -/
theorem reorderBlock_of_not_all_movable (ops : List (DynOp P)) (h : ops.all movable = false) :
    reorderBlock ops = ops := by
  simp [reorderBlock, h]

/-- whatever the block, the pass only permutes it -/
theorem reorderBlock_perm (ops : List (DynOp P)) : (reorderBlock ops).Perm ops := by
  unfold reorderBlock
  split
  · exact List.mergeSort_perm _ _
  · exact List.Perm.refl _

/-- … and when it does permute, the result is sorted by `(cost ≠ 1, cost)` -/
theorem reorderBlock_sorted (ops : List (DynOp P)) (h : ops.all movable = true) (hl : ops.length > 1) :
    (reorderBlock ops).Pairwise (fun a b => keyLe (sortKey a) (sortKey b) = true) := by
  unfold reorderBlock
  simp only [h, hl, decide_true, Bool.and_self, ↓reduceIte]
  apply List.pairwise_mergeSort
  · intro a b c hab hbc
    simp only [keyLe, Bool.or_eq_true, decide_eq_true_eq, Bool.and_eq_true, beq_iff_eq] at *
    omega
  · intro a b
    simp only [keyLe, Bool.or_eq_true, decide_eq_true_eq, Bool.and_eq_true, beq_iff_eq]
    omega

/-- C03 (reorder): the pass keeps the chain's node structure and only permutes ops inside blocks. -/
theorem reorder_perm_ops (c : List (Node P)) : (opsOf (reorder c)).Perm (opsOf c) := by
  induction c with
  | nil => exact List.Perm.refl _
  | cons n rest ih =>
    cases n with
    | stateless a => simp only [reorder, opsOf]; exact (reorderBlock_perm a).append ih
    | source w l s => simpa [reorder, opsOf] using ih
    | gbk l m => simpa [reorder, opsOf] using ih
    | combineValues lp lg m => simpa [reorder, opsOf] using ih
    | combineGlobal l m f fo => simpa [reorder, opsOf] using ih
    | coGroup l r cl cr e => simpa [reorder, opsOf] using ih
    | materialized p => simpa [reorder, opsOf] using ih

theorem reorder_length (c : List (Node P)) : (reorder c).length = c.length := by
  induction c with
  | nil => rfl
  | cons n rest ih => cases n <;> simp [reorder, ih]

theorem reorder_keeps_barriers (c : List (Node P)) : barriersOf (reorder c) = barriersOf c := by
  induction c with
  | nil => rfl
  | cons n rest ih => cases n <;> simp [reorder, barriersOf, ih]

/-- C03 (lift): the lift pass never touches stateless ops … -/
theorem liftGbk_keeps_ops (c : List (Node P)) : opsOf (liftGbk c) = opsOf c := by
  fun_induction liftGbk c with
  | case1 l m lp lg mm rest ih => simp [opsOf, ih]
  | case2 n rest h ih => cases n <;> simp_all [opsOf]
  | case3 => rfl

/-- … and a chain without a `GroupByKey` is left exactly as it is (a combine is never rewritten on its own) -/
theorem liftGbk_id_of_no_gbk (c : List (Node P)) (h : ∀ n ∈ c, ∀ l m, n ≠ Node.gbk l m) :
    liftGbk c = c := by
  fun_induction liftGbk c with
  | case1 l m lp lg mm rest ih => exact absurd rfl (h _ (by simp) l m)
  | case2 n rest hne ih => rw [ih (fun x hx => h x (by simp [hx]))]
  | case3 => rfl

/-- C03 (drop): only non-terminal materialisation markers are dropped — the terminal node survives. -/
theorem dropMid_keeps_last (c : List (Node P)) : (dropMid c).getLast? = c.getLast? := by
  fun_induction dropMid c with
  | case1 => rfl
  | case2 n => rfl
  | case3 p n rest ih => simpa [List.getLast?_cons_cons] using ih
  | case4 m n rest hm ih =>
    cases hd : dropMid (n :: rest) with
    | nil =>
      rw [hd] at ih
      have : (n :: rest).getLast? = some ((n :: rest).getLast (by simp)) := List.getLast?_eq_some_getLast (by simp)
      rw [this] at ih; simp at ih
    | cons x xs => rw [hd] at ih; rw [List.getLast?_cons_cons, List.getLast?_cons_cons]; exact ih

/-- C03 (drop): nothing but `Materialized` markers is ever removed -/
theorem dropMid_keeps_ops (c : List (Node P)) : opsOf (dropMid c) = opsOf c := by
  fun_induction dropMid c with
  | case1 => rfl
  | case2 n => rfl
  | case3 p n rest ih => simpa [opsOf] using ih
  | case4 m n rest hm ih => cases m <;> simp_all [opsOf]

/-- a chain without markers (every chain the public builders produce) is untouched -/
theorem dropMid_id_of_no_materialized (c : List (Node P)) (h : ∀ n ∈ c, ∀ p, n ≠ Node.materialized p) :
    dropMid c = c := by
  fun_induction dropMid c with
  | case1 => rfl
  | case2 n => rfl
  | case3 p n rest ih => exact absurd rfl (h _ (by simp) p)
  | case4 m n rest hm ih => rw [ih (fun x hx => h x (by simp [hx]))]

/-- C03: the whole optimiser keeps every element-wise op exactly once (as a multiset; in order unless a
    block is all-movable). -/
theorem optimise_perm_ops (c : List (Node P)) : (opsOf (optimise c)).Perm (opsOf c) := by
  unfold optimise
  rw [dropMid_keeps_ops, liftGbk_keeps_ops]
  exact (reorder_perm_ops (fuse c)).trans (by rw [fuse_keeps_ops])

/-- C03: and the terminal node of the plan is the terminal node of the pipeline, or the combine that
    replaced a terminal GBK→combine pair. -/
theorem optimiseNoReorder_keeps_ops (c : List (Node P)) : opsOf (optimiseNoReorder c) = opsOf c := by
  unfold optimiseNoReorder
  rw [dropMid_keeps_ops, liftGbk_keeps_ops, fuse_keeps_ops]

/-- Table obligation (re-read from the running code on every run): an operator that does not itself
    claim `reorder_safe_with_value_only` is never movable — the trait default is `false` whatever its
    other flags say — and an operator that overrides nothing is not movable and costs 10. -/
theorem trait_defaults_conservative :
    Generated.dynOpDefaults =
      [(false, false, false, 10), (false, true, false, 10), (true, false, false, 10), (true, true, false, 10)] ∧
    Generated.bareOpFlags = ⟨false, false, false, 10⟩ := by decide

end IB

/-! # Part 2 — semantics: exec(optimise(chain)) == exec(chain) -/

namespace IB
open C02W

/-! ## the GBK → lifted-combine window -/

/-- C03 (lift, the window law): "a group-then-combine pair is replaced by a direct combine only when
    both give the same per-key result". For EVERY lawful combiner `c` (any accumulator equivalence `R`)
    and EVERY partition `b`: running `group_by_key` and then the lifted local (`build_from_group` per
    group) on its output gives — after the combine's merge + finish — literally the partition the classic
    local (`add_input` row by row) gives on the raw rows: the same keys in first-occurrence order and, per
    key, `finish` of the fold over that key's values in input order. Uses `build_fold`/`finish_congr` of
    `LawfulCombiner`, "GBK never emits an empty group" and "GBK emits one group per key" (C04). -/
theorem lift_pair_sem {c : VCombiner} {R : Val → Val → Prop} (hc : LawfulCombiner c R) :
    ∀ b : Part, combineMerge c [combineLocalGroups c (gbkMerge [gbkLocal b])]
      = combineMerge c [combineLocalPairs c b] :=
  lift_pair_core hc

/-- … so the builders' window meets the hypothesis of `liftGbk_sem` (`LiftPairsOK`) -/
theorem lift_pair_ok {c : VCombiner} {R : Val → Val → Prop} (hc : LawfulCombiner c R)
    (rest : List (Node Part)) (hr : LiftPairsOK rest) :
    LiftPairsOK (gbkNode :: combineValuesLiftedNode c :: rest) :=
  ⟨lift_pair_sem hc, hr⟩

/-- C03 (lift, any synthetic chain of the builders' closures): if every `GroupByKey` node of a chain is
    the builders' `gbkNode` and every combine carrying `local_groups` is `combineValuesLiftedNode c` for a
    lawful `c` (`LiftShape`; all other nodes — custom operators, markers, joins, non-lifted combines — are
    unconstrained), every window the lift pass can rewrite is semantically liftable: in the chain itself,
    after fusion, and after fusion + reorder (what the pass actually runs on). -/
theorem liftPairsOK_of_shape (ch : List (Node Part)) (h : LiftShape ch) :
    LiftPairsOK ch ∧ LiftPairsOK (fuse ch) ∧ LiftPairsOK (reorder (fuse ch)) :=
  ⟨IB.liftPairsOK_of_shape' ch h, IB.liftPairsOK_of_shape' _ (liftShape_fuse ch h),
   IB.liftPairsOK_of_shape' _ (liftShape_reorder _ (liftShape_fuse ch h))⟩

/-- every builder-made node has the shape -/
theorem liftShapeNode_of_built {nd : Node Part} (h : Built nd) : LiftShapeNode nd := by
  cases h with
  | sub h =>
    cases h with
    | stateless ops h => trivial
    | gbk => exact ⟨rfl, rfl⟩
    | combineValues c R hc => trivial
    | combineValuesLifted c R hc => exact ⟨c, R, hc, rfl, rfl, rfl⟩
    | combineGlobal c R hc fo => trivial
    | combineGlobalLifted c R hc fo => trivial
  | join k xs ys l r hl hr => trivial

/-- C03 (lift, builder chains): for every chain of builder-made nodes — with or without its source —
    `LiftPairsOK` holds, also for `reorder (fuse chain)`. -/
theorem liftPairsOK_of_built (rest : List (Node Part)) (h : ∀ nd ∈ rest, Built nd) :
    LiftPairsOK rest ∧ LiftPairsOK (reorder (fuse rest)) ∧
    ∀ xs, LiftPairsOK (vecSource xs :: rest) ∧ LiftPairsOK (reorder (fuse (vecSource xs :: rest))) := by
  have hs : LiftShape rest := fun nd hnd => liftShapeNode_of_built (h nd hnd)
  refine ⟨(liftPairsOK_of_shape rest hs).1, (liftPairsOK_of_shape rest hs).2.2, fun xs => ?_⟩
  have hs' : LiftShape (vecSource xs :: rest) := by
    intro nd hnd
    rcases List.mem_cons.mp hnd with rfl | hnd
    · trivial
    · exact hs nd hnd
  exact ⟨(liftPairsOK_of_shape _ hs').1, (liftPairsOK_of_shape _ hs').2.2⟩

/-- C03 (lift, semantics on builder chains): the lift pass applied where the planner applies it (after
    fusion and reorder) never changes the sequential result of a builder chain — no hypothesis. -/
theorem liftGbk_sem_builder (xs : List Val) (rest : List (Node Part)) (h : ∀ nd ∈ rest, Built nd) :
    execSeq (liftGbk (reorder (fuse (vecSource xs :: rest)))) = execSeq (reorder (fuse (vecSource xs :: rest))) ∧
    execSeq (liftGbk (vecSource xs :: rest)) = execSeq (vecSource xs :: rest) :=
  ⟨liftGbk_sem _ ((liftPairsOK_of_built rest h).2.2 xs).2, liftGbk_sem _ ((liftPairsOK_of_built rest h).2.2 xs).1⟩

/-! ## mid-chain `Materialized` markers -/

section general
variable {P : Type}

/-- C03 (drop, GENERAL — any chain, any partition type, synthetic chains with mid-chain `Materialized`
    included): if every NON-TERMINAL marker `materialized p` restates the value flowing at that point —
    `MidMatOK c`: for each split `c = pre ++ materialized p :: post` with `post ≠ []`,
    `seqFold none pre = .ok (some p)` — dropping the mid-chain markers does not change the result. -/
theorem dropMid_sem_of_restating_markers (c : List (Node P)) (h : MidMatOK c) :
    execSeq (dropMid c) = execSeq c :=
  dropMid_sem_of_midMatOK c h

/-- the hypothesis holds trivially for chains without markers -/
theorem midMatOK_of_no_marker (c : List (Node P)) (h : ∀ n ∈ c, Node.isMat n = false) : MidMatOK c :=
  midMatOK_of_noMat none c h

/-- C03 (whole optimiser, GENERAL — any chain over any partition type): under (1) the reorder pass only
    permuting blocks that compute the same function either way, (2) liftable windows and (3) restating
    markers, the planned chain computes what the literal chain computes. PARTIAL in (1) — see
    `optimise_sem_builder_full_is_false`; (2) and (3) are discharged for all builder chains below. -/
theorem optimise_sem_general_partial (c : List (Node P)) (hcomm : CommutingChain (fuse c))
    (hlift : LiftPairsOK (reorder (fuse c))) (hmat : MidMatOK (liftGbk (reorder (fuse c)))) :
    execSeq (optimise c) = execSeq c :=
  optimise_sem_of c hcomm hlift hmat

end general

/-- NEGATION witness for (3) — dropping a mid-chain marker is ONLY sound for markers that restate the
    flowing value: on `source [1]; materialized [2]; stateless []` the literal run continues from the
    marker's payload and returns `[2]`, while `dropMid` removes the marker and the run returns `[1]`.
    (The chain violates `MidMatOK`: the fold before the marker holds `[1]`, not `[2]`.) -/
theorem dropMid_unsound_for_other_markers :
    let c : List (Node Part) := [vecSource [.int 1], .materialized [.int 2], .stateless []]
    execSeq c = .ok [.int 2] ∧ execSeq (dropMid c) = .ok [.int 1] ∧
    execSeq (dropMid c) ≠ execSeq c ∧ ¬ MidMatOK c := by
  refine ⟨rfl, rfl, ?_, ?_⟩
  · intro h
    exact absurd (Except.ok.inj h) (by decide)
  · intro h
    have := h [vecSource [.int 1]] [.int 2] [.stateless []] rfl (by simp)
    exact absurd (Option.some.inj (Except.ok.inj this)) (by decide)

/-- non-vacuity of `dropMid_sem_of_restating_markers`: a chain WITH a non-terminal marker that restates
    the flowing value meets `MidMatOK`, and the pass really removes the marker -/
example :
    let c : List (Node Part) := [vecSource [.int 1], .materialized [.int 1], .stateless []]
    MidMatOK c ∧ (dropMid c).length = 2 := by
  refine ⟨?_, rfl⟩
  intro pre p post hc hpost
  match pre, hc with
  | [], hc => simp [vecSource] at hc
  | [_], hc =>
    simp only [List.cons_append, List.nil_append, List.cons.injEq, Node.materialized.injEq] at hc
    obtain ⟨rfl, rfl, _⟩ := hc
    rfl
  | [_, _], hc =>
    simp only [List.cons_append, List.nil_append, List.cons.injEq] at hc
    exact absurd hc.2.2.1 (by simp)
  | _ :: _ :: _ :: _, hc => simp at hc

/-- no builder-made node is a marker -/
theorem built_not_materialized {nd : Node Part} (h : Built nd) : Node.isMat nd = false := by
  cases h with
  | sub h => cases h <;> rfl
  | join k xs ys l r hl hr => rfl

/-- C03 (drop, builder chains): no builder creates a `Materialized` node and neither `fuse`, `reorder` nor
    `liftGbk` creates one, so on every builder chain the last pass is the identity. -/
theorem dropMid_builder_id (xs : List Val) (rest : List (Node Part)) (h : ∀ nd ∈ rest, Built nd) :
    dropMid (liftGbk (reorder (fuse (vecSource xs :: rest)))) = liftGbk (reorder (fuse (vecSource xs :: rest))) := by
  apply dropMid_of_noMat
  apply noMat_before_dropMid
  intro n hn
  rcases List.mem_cons.mp hn with rfl | hn
  · rfl
  · exact built_not_materialized (h n hn)

/-! ## the composition -/

/-- C03, PARTIAL (sequential): `exec(optimise(chain)) == exec(chain)` for EVERY builder chain — any
    source vector, element-wise blocks, group_by_key, lifted and non-lifted per-key combines and global
    combines with any lawful combiner, joins — on which the value-only reorder pass is inert.

    The FULL statement (without `ReorderInert`) is FALSE for the code that exists: the known reorder
    finding, negation witnesses `IB.C02.reorder_breaks_order` and `optimise_sem_builder_full_is_false`
    below. The other three passes need no hypothesis (`fuse_sem'`, `liftGbk_sem_builder`,
    `dropMid_builder_id`). -/
theorem optimise_sem_builder_partial (xs : List Val) (rest : List (Node Part))
    (h : ∀ nd ∈ rest, Built nd) (hin : ReorderInert (vecSource xs :: rest)) :
    execSeq (optimise (vecSource xs :: rest)) = execSeq (vecSource xs :: rest) := by
  unfold optimise
  rw [dropMid_builder_id xs rest h, (liftGbk_sem_builder xs rest h).1,
    reorder_sem_of_commuting _ (commuting_of_inert _ hin), fuse_sem']

/-- C03, PARTIAL, weaker hypothesis: the reorder pass may permute blocks as long as every permuted block
    computes the same function (`CommutingChain` of the fused chain: sorted blocks, and blocks whose swapped
    operators commute). -/
theorem optimise_sem_builder_commuting_partial (xs : List Val) (rest : List (Node Part))
    (h : ∀ nd ∈ rest, Built nd) (hc : CommutingChain (fuse (vecSource xs :: rest))) :
    execSeq (optimise (vecSource xs :: rest)) = execSeq (vecSource xs :: rest) := by
  unfold optimise
  rw [dropMid_builder_id xs rest h, (liftGbk_sem_builder xs rest h).1,
    reorder_sem_of_commuting _ hc, fuse_sem']

/-- C03, PARTIAL (parallel, with C01): for every partition count `n`, `collect_par` on the PLANNED chain
    returns what the literal chain returns sequentially. -/
theorem optimise_sem_builder_par_partial (xs : List Val) (rest : List (Node Part))
    (h : ∀ nd ∈ rest, Built nd) (hin : ReorderInert (vecSource xs :: rest)) :
    ∀ n, execPar List.flatten (optimise (vecSource xs :: rest)) n = execSeq (vecSource xs :: rest) := by
  intro n
  rw [C01_pipeline xs rest h n, optimise_sem_builder_partial xs rest h hin]

/-- … and what the literal chain returns in parallel with ANY other partition count `m`: all four runs
    (planned/literal × seq/par) agree. -/
theorem optimise_sem_builder_par_par_partial (xs : List Val) (rest : List (Node Part))
    (h : ∀ nd ∈ rest, Built nd) (hin : ReorderInert (vecSource xs :: rest)) :
    ∀ n m, execPar List.flatten (optimise (vecSource xs :: rest)) n
      = execPar List.flatten (vecSource xs :: rest) m := by
  intro n m
  rw [optimise_sem_builder_par_partial xs rest h hin n, C01_pipeline_literal xs rest h m]

theorem optimise_sem_builder_par_commuting_partial (xs : List Val) (rest : List (Node Part))
    (h : ∀ nd ∈ rest, Built nd) (hc : CommutingChain (fuse (vecSource xs :: rest))) :
    ∀ n, execPar List.flatten (optimise (vecSource xs :: rest)) n = execSeq (vecSource xs :: rest) := by
  intro n
  rw [C01_pipeline xs rest h n, optimise_sem_builder_commuting_partial xs rest h hc]

/-- NEGATION of the full statement (the known value-only reorder finding, `IB.C02.reorder_breaks_order`,
    restated on a builder chain): `[("k",1),("k",2)].map_values(+1).filter_values(even)` — literal `[(k,2)]`,
    planned `[(k,3)]`. So `ReorderInert` / `CommutingChain` cannot be dropped above. -/
theorem optimise_sem_builder_full_is_false :
    ∃ (xs : List Val) (rest : List (Node Part)), (∀ nd ∈ rest, Built nd) ∧
      execSeq (optimise (vecSource xs :: rest)) ≠ execSeq (vecSource xs :: rest) := by
  refine ⟨[kv 0 1, kv 0 2], [EStep.mapValues add1, .filterValues isEven].map EStep.toNode, ?_, ?_⟩
  · intro nd hnd
    simp only [List.map_cons, List.map_nil, List.mem_cons, List.mem_nil_iff, or_false] at hnd
    rcases hnd with rfl | rfl
    · refine .sub (.stateless _ ?_)
      intro op hop ps
      simp only [List.mem_singleton] at hop
      subst hop
      exact toOp_flatten (.mapValues add1) trivial ps
    · refine .sub (.stateless _ ?_)
      intro op hop ps
      simp only [List.mem_singleton] at hop
      subst hop
      exact toOp_flatten (.filterValues isEven) trivial ps
  · rw [IB.C02.reorder_witness_filter.2.2, IB.C02.reorder_witness_filter.2.1]
    intro h
    exact absurd (Except.ok.inj h) (by decide)

/-! ## non-vacuity: concrete builder chains with a GBK → lifted-combine window -/

/-- the chain `map_values(+1); group_by_key; combine_values_lifted(Sum)`: it is builder-made, the reorder
    pass is inert on it, the optimiser really rewrites it (4 nodes → 3, the GBK is gone) and both runs
    return the per-key sums -/
example :
    let rest : List (Node Part) :=
      [.stateless [mapValuesOp add1], gbkNode, combineValuesLiftedNode Comb.sum.toCombiner]
    let xs : List Val := [kv 1 10, kv 2 20, kv 1 30]
    (∀ nd ∈ rest, Built nd) ∧ ReorderInert (vecSource xs :: rest) ∧
    (optimise (vecSource xs :: rest)).map Node.kind = ["Source", "Stateless1", "CombineValues"] ∧
    (vecSource xs :: rest).map Node.kind = ["Source", "Stateless1", "GroupByKey", "CombineValues+lifted"] ∧
    execSeq (vecSource xs :: rest) = .ok [kv 1 42, kv 2 21] ∧
    execSeq (optimise (vecSource xs :: rest)) = .ok [kv 1 42, kv 2 21] := by
  refine ⟨?_, ?_, by decide, by decide, ?_, ?_⟩
  · intro nd hnd
    simp only [List.mem_cons, List.mem_nil_iff, or_false] at hnd
    rcases hnd with rfl | rfl | rfl
    · refine .sub (.stateless _ ?_)
      intro op hop ps
      simp only [List.mem_singleton] at hop
      subst hop
      show List.map _ ps.flatten = (ps.map (List.map _)).flatten
      rw [List.map_flatten]
    · exact .sub .gbk
    · exact .sub (.combineValuesLifted _ Eq lawful_sum)
  · show InertChain (fuse _)
    simp [vecSource, fuse, gbkNode, combineValuesLiftedNode, InertChain, BlockInert]
  · exact congrArg Except.ok (by decide)
  · exact congrArg Except.ok (by decide)

/-- a chain whose fused block `[filter_values, map_values]` IS all-movable (the reorder pass looks at it)
    and already sorted by `(cost ≠ 1, cost)`, followed by the window: the hypotheses of
    `optimise_sem_builder_partial` hold non-trivially -/
example :
    let rest : List (Node Part) :=
      [.stateless [filterValuesOp isEven], .stateless [mapValuesOp add1], gbkNode,
       combineValuesLiftedNode Comb.count.toCombiner, .stateless [mapOp Val.value],
       combineGlobalNode Comb.sum.toCombiner (some 1)]
    (∀ nd ∈ rest, Built nd) ∧ ∀ xs, ReorderInert (vecSource xs :: rest) := by
  refine ⟨?_, ?_⟩
  · intro nd hnd
    simp only [List.mem_cons, List.mem_nil_iff, or_false] at hnd
    rcases hnd with rfl | rfl | rfl | rfl | rfl | rfl
    · refine .sub (.stateless _ ?_)
      intro op hop ps
      simp only [List.mem_singleton] at hop
      subst hop
      show List.filter _ ps.flatten = (ps.map (List.filter _)).flatten
      rw [List.filter_flatten]
    · refine .sub (.stateless _ ?_)
      intro op hop ps
      simp only [List.mem_singleton] at hop
      subst hop
      show List.map _ ps.flatten = (ps.map (List.map _)).flatten
      rw [List.map_flatten]
    · exact .sub .gbk
    · exact .sub (.combineValuesLifted _ Eq lawful_count)
    · refine .sub (.stateless _ ?_)
      intro op hop ps
      simp only [List.mem_singleton] at hop
      subst hop
      show List.map _ ps.flatten = (ps.map (List.map _)).flatten
      rw [List.map_flatten]
    · exact .sub (.combineGlobal _ Eq lawful_sum (some 1))
  · intro xs
    show InertChain (fuse _)
    simp only [vecSource, fuse, gbkNode, combineValuesLiftedNode, combineGlobalNode, InertChain,
      List.cons_append, List.nil_append, and_true]
    refine ⟨?_, ?_⟩ <;> decide

end IB
