import IbModel.Model.Planner
import IbModel.Model.Closures
import IbModel.Generated.Tables
import IbModel.Proofs.PlanSem
import IbModel.Proofs.LiftPair
import IbModel.Proofs.PlanExplain
import IbModel.Model.PlanSynth
import IbModel.Props.C01
import IbModel.Props.C02
/-!
# C03 — plan optimisation never changes what a pipeline computes

Part 1 — structural legality of the four passes ("a legal rewrite"), stated for EVERY chain over every
partition type.

Part 2 — semantics, `exec(optimise(chain)) == exec(chain)`:
* `fuse`: no hypothesis (`IB.C02.fuse_sem`, `fuse_sem'`); used here in the composition;
* `liftGbk`: `lift_pair_sem` — for EVERY lawful combiner and EVERY input partition the
  GBK→lifted-combine window and the direct combine return literally the same partition;
  `liftPairsOK_of_shape` / `liftPairsOK_of_built` — hence every window the builders can create is liftable,
  also after `fuse` and `reorder`; `liftGbk_sem_builder`;
* `dropMid`: `dropMid_sem_of_restating_markers` (GENERAL: sound for every chain whose non-terminal markers
  restate the flowing value — `MidMatOK`), `dropMid_unsound_for_other_markers` (NEGATION witness: for any
  other marker the pass changes the result), `dropMid_builder_id` (builder chains contain no marker and no
  earlier pass creates one, so there the pass is the identity);
* `reorder`: sound only where it is inert / permutes commuting blocks. The full statement
  "`execSeq (optimise c) = execSeq c` for every builder chain" is FALSE for the code that exists — the known
  value-only reorder finding (`IB.C02.reorder_breaks_order`, restated for builder chains below as
  `optimise_sem_builder_full_is_false`). Proved instead: `optimise_sem_builder_partial` (under
  `ReorderInert`), `optimise_sem_builder_commuting_partial` (under the weaker `CommutingChain (fuse …)`), their
  parallel corollaries for every partition count, and the general `optimise_sem_general_partial` for
  arbitrary (synthetic) chains.

Part 3 — "The plan reported by explain is the plan that runs" (`Model/PlannerExplain.lean`: the tracked passes with
their decisions, `build_plan`, `Plan::explain`, `run_collect`):
* `buildPlan_chain_is_optimise`, `runCollect_executes_the_plan` — `run_collect` executes `build_plan(..).chain`,
  which is `optimise chain` (the four passes in the code's order), in both engines; with Part 2:
  `runCollect_sem_builder_partial` (what `collect_seq` / `collect_par` return is what the literal steps return);
* `explain_lists_the_plan`, `explain_counts_the_plan`, `explain_is_the_plan_that_runs` — every step of `explain()`
  is the node of the executed chain at that position (type, barrier flag, cost hint, description, numbering) and the
  cost estimate counts that chain;
* decisions: `fuse_decision_iff_changed`, `fuse_decision_counts`, `lift_decision_iff_changed`,
  `drop_decision_iff_changed`, `reorder_decision_if_changed` + `reorder_decisions_are_the_sorted_blocks`; the "iff"
  is FALSE for the reorder pass of the code that exists (it reports every block it sorts, also one that was already
  in order): negation witness `reorder_decision_without_change`; `buildPlan_reports_the_passes_in_order`;
* partitions: `suggestPartitions_bounds`, `suggestPartitions_exact`, `collect_par_default_uses_the_suggestion`;
* lift guard: `lift_guard_no_local_groups`, `liftGbk_id_of_no_lifted_combine`; the user contract the planner relies
  on (`build_fold` of `LawfulCombiner`): negation witness `lift_unsound_without_build_fold`.
-/
namespace IB
variable {P : Type}

/-- all stateless ops of a chain, in execution order -/
def opsOf : List (Node P) → List (DynOp P)
  | [] => []
  | .stateless ops :: rest => ops ++ opsOf rest
  | _ :: rest => opsOf rest

/-- the non-stateless nodes of a chain, in order (compared by kind) -/
def barriersOf : List (Node P) → List String
  | [] => []
  | .stateless _ :: rest => barriersOf rest
  | n :: rest => n.kind :: barriersOf rest

/-- C03 (fusion): fusion keeps every element-wise step exactly once and in order. -/
theorem fuse_keeps_ops (c : List (Node P)) : opsOf (fuse c) = opsOf c := by
  induction c with
  | nil => rfl
  | cons n rest ih =>
    cases n with
    | stateless a =>
      simp only [fuse]
      split
      · next b r h => rw [h] at ih; simp only [opsOf] at ih ⊢; rw [← ih, List.append_assoc]
      · next h => simp only [opsOf, ih]
    | source w l s => simp [fuse, opsOf, ih]
    | gbk l m => simp [fuse, opsOf, ih]
    | combineValues lp lg m => simp [fuse, opsOf, ih]
    | combineGlobal l m f fo => simp [fuse, opsOf, ih]
    | coGroup l r cl cr e => simp [fuse, opsOf, ih]
    | materialized p => simp [fuse, opsOf, ih]

/-- C03 (fusion): the barriers, sources and markers are untouched by fusion. -/
theorem fuse_keeps_barriers (c : List (Node P)) : barriersOf (fuse c) = barriersOf c := by
  induction c with
  | nil => rfl
  | cons n rest ih =>
    cases n with
    | stateless a =>
      simp only [fuse]
      split
      · next b r h => rw [h] at ih; simpa [barriersOf] using ih
      · next h => simp only [barriersOf, ih]
    | source w l s => simp [fuse, barriersOf, ih]
    | gbk l m => simp [fuse, barriersOf, ih]
    | combineValues lp lg m => simp [fuse, barriersOf, ih]
    | combineGlobal l m f fo => simp [fuse, barriersOf, ih]
    | coGroup l r cl cr e => simp [fuse, barriersOf, ih]
    | materialized p => simp [fuse, barriersOf, ih]

/-- a block is permuted only if ALL its ops are movable (value-only ∧ key-preserving ∧ reorder-safe) -/
theorem reorderBlock_of_not_all_movable (ops : List (DynOp P)) (h : ops.all movable = false) :
    reorderBlock ops = ops := by
  simp [reorderBlock, h]

/-- whatever the block, the pass only permutes it -/
theorem reorderBlock_perm (ops : List (DynOp P)) : (reorderBlock ops).Perm ops := by
  unfold reorderBlock
  split
  · exact List.mergeSort_perm _ _
  · exact List.Perm.refl _

/-- … and when it does permute, the result is sorted by `(cost ≠ 1, cost)` -/
theorem reorderBlock_sorted (ops : List (DynOp P)) (h : ops.all movable = true) (hl : ops.length > 1) :
    (reorderBlock ops).Pairwise (fun a b => keyLe (sortKey a) (sortKey b) = true) := by
  unfold reorderBlock
  simp only [h, hl, decide_true, Bool.and_self, ↓reduceIte]
  apply List.pairwise_mergeSort
  · intro a b c hab hbc
    simp only [keyLe, Bool.or_eq_true, decide_eq_true_eq, Bool.and_eq_true, beq_iff_eq] at *
    omega
  · intro a b
    simp only [keyLe, Bool.or_eq_true, decide_eq_true_eq, Bool.and_eq_true, beq_iff_eq]
    omega

/-- C03 (reorder): the pass keeps the chain's node structure and only permutes ops inside blocks. -/
theorem reorder_perm_ops (c : List (Node P)) : (opsOf (reorder c)).Perm (opsOf c) := by
  induction c with
  | nil => exact List.Perm.refl _
  | cons n rest ih =>
    cases n with
    | stateless a => simp only [reorder, opsOf]; exact (reorderBlock_perm a).append ih
    | source w l s => simpa [reorder, opsOf] using ih
    | gbk l m => simpa [reorder, opsOf] using ih
    | combineValues lp lg m => simpa [reorder, opsOf] using ih
    | combineGlobal l m f fo => simpa [reorder, opsOf] using ih
    | coGroup l r cl cr e => simpa [reorder, opsOf] using ih
    | materialized p => simpa [reorder, opsOf] using ih

theorem reorder_length (c : List (Node P)) : (reorder c).length = c.length := by
  induction c with
  | nil => rfl
  | cons n rest ih => cases n <;> simp [reorder, ih]

theorem reorder_keeps_barriers (c : List (Node P)) : barriersOf (reorder c) = barriersOf c := by
  induction c with
  | nil => rfl
  | cons n rest ih => cases n <;> simp [reorder, barriersOf, ih]

/-- C03 (lift): the lift pass never touches stateless ops … -/
theorem liftGbk_keeps_ops (c : List (Node P)) : opsOf (liftGbk c) = opsOf c := by
  fun_induction liftGbk c with
  | case1 l m lp lg mm rest ih => simp [opsOf, ih]
  | case2 n rest h ih => cases n <;> simp_all [opsOf]
  | case3 => rfl

/-- … and a chain without a `GroupByKey` is left exactly as it is (a combine is never rewritten on its own) -/
theorem liftGbk_id_of_no_gbk (c : List (Node P)) (h : ∀ n ∈ c, ∀ l m, n ≠ Node.gbk l m) :
    liftGbk c = c := by
  fun_induction liftGbk c with
  | case1 l m lp lg mm rest ih => exact absurd rfl (h _ (by simp) l m)
  | case2 n rest hne ih => rw [ih (fun x hx => h x (by simp [hx]))]
  | case3 => rfl

/-- C03 (drop): only non-terminal materialisation markers are dropped — the terminal node survives. -/
theorem dropMid_keeps_last (c : List (Node P)) : (dropMid c).getLast? = c.getLast? := by
  fun_induction dropMid c with
  | case1 => rfl
  | case2 n => rfl
  | case3 p n rest ih => simpa [List.getLast?_cons_cons] using ih
  | case4 m n rest hm ih =>
    cases hd : dropMid (n :: rest) with
    | nil =>
      rw [hd] at ih
      have : (n :: rest).getLast? = some ((n :: rest).getLast (by simp)) := List.getLast?_eq_some_getLast (by simp)
      rw [this] at ih; simp at ih
    | cons x xs => rw [hd] at ih; rw [List.getLast?_cons_cons, List.getLast?_cons_cons]; exact ih

/-- C03 (drop): nothing but `Materialized` markers is ever removed -/
theorem dropMid_keeps_ops (c : List (Node P)) : opsOf (dropMid c) = opsOf c := by
  fun_induction dropMid c with
  | case1 => rfl
  | case2 n => rfl
  | case3 p n rest ih => simpa [opsOf] using ih
  | case4 m n rest hm ih => cases m <;> simp_all [opsOf]

/-- a chain without markers (every chain the public builders produce) is untouched -/
theorem dropMid_id_of_no_materialized (c : List (Node P)) (h : ∀ n ∈ c, ∀ p, n ≠ Node.materialized p) :
    dropMid c = c := by
  fun_induction dropMid c with
  | case1 => rfl
  | case2 n => rfl
  | case3 p n rest ih => exact absurd rfl (h _ (by simp) p)
  | case4 m n rest hm ih => rw [ih (fun x hx => h x (by simp [hx]))]

/-- C03: the whole optimiser keeps every element-wise op exactly once (as a multiset; in order unless a
    block is all-movable). -/
theorem optimise_perm_ops (c : List (Node P)) : (opsOf (optimise c)).Perm (opsOf c) := by
  unfold optimise
  rw [dropMid_keeps_ops, liftGbk_keeps_ops]
  exact (reorder_perm_ops (fuse c)).trans (by rw [fuse_keeps_ops])

/-- C03: and the terminal node of the plan is the terminal node of the pipeline, or the combine that
    replaced a terminal GBK→combine pair. -/
theorem optimiseNoReorder_keeps_ops (c : List (Node P)) : opsOf (optimiseNoReorder c) = opsOf c := by
  unfold optimiseNoReorder
  rw [dropMid_keeps_ops, liftGbk_keeps_ops, fuse_keeps_ops]

/-- Table obligation (re-read from the running code on every run): an operator that does not itself
    claim `reorder_safe_with_value_only` is never movable — the trait default is `false` whatever its
    other flags say — and an operator that overrides nothing is not movable and costs 10. -/
theorem trait_defaults_conservative :
    Generated.dynOpDefaults =
      [(false, false, false, 10), (false, true, false, 10), (true, false, false, 10), (true, true, false, 10)] ∧
    Generated.bareOpFlags = ⟨false, false, false, 10⟩ := by decide

/-! ### Census obligation (round 5; the tables are re-read from the running code by `ibh tables` on every run)

"Steps are re-ordered only where that cannot change the output" rests on WHICH operators claim the reorder
contract. The crate has twelve `DynOp` implementations; every public single-operator builder is probed for the flags
of what it inserts: the eight of `opTable` (C02), the six validation builders of `validateOpFlags` (C17) and the
thirteen helper builders of `helperOpTable` (windowing, timestamps, `try_*`, side inputs, debug taps). A builder that
starts claiming the contract — a validator "that drops rows like a filter", a windowing step "that only touches the
value side" — changes a table and one of these stops building. -/

/-- none of the crate's helper builders inserts a movable operator -/
theorem helper_builders_not_movable :
    ∀ e ∈ Generated.helperOpTable, e.2.movable = false := by decide

/-- … nor does any validation builder (rows `(name, key_preserving, value_only, reorder_safe, cost)`) -/
theorem validation_builders_not_movable :
    ∀ r ∈ Generated.validateOpFlags, (r.2.2.1 && r.2.1 && r.2.2.2.1) = false := by decide

/-- the movable builders of the whole crate are exactly the three value builders, with cost hints 3, 1, 2 -/
theorem crate_movable_builders :
    ((Generated.opTable ++ Generated.helperOpTable).filter (fun e => e.2.movable)).map (fun e => (e.1, e.2.cost))
      = [("map_values", 3), ("filter_values", 1), ("map_values_batches", 2)] := by decide

/-- hence a fused block that holds what a helper builder inserts — whatever else it holds — is left as written -/
theorem helper_pinned (ops : List (DynOp P))
    (h : ∃ op ∈ ops, ∃ e ∈ Generated.helperOpTable, movable op = e.2.movable) : reorderBlock ops = ops := by
  obtain ⟨op, hop, e, he, hm⟩ := h
  apply reorderBlock_of_not_all_movable
  rw [List.all_eq_false]
  exact ⟨op, hop, by simp [hm, helper_builders_not_movable e he]⟩

/-- non-vacuity: the census is not empty and covers the keyed windowing step -/
example : Generated.helperOpTable.length ≥ 13 ∧
    (Generated.helperOpTable.any fun e => e.1 == "key_by_window:keyed") = true := by decide

end IB

/-! # Part 2 — semantics: exec(optimise(chain)) == exec(chain) -/

namespace IB
open C02W

/-! ## the GBK → lifted-combine window -/

/-- C03 (lift, the window law): "a group-then-combine pair is replaced by a direct combine only when
    both give the same per-key result". For EVERY lawful combiner `c` (any accumulator equivalence `R`)
    and EVERY partition `b`: running `group_by_key` and then the lifted local (`build_from_group` per
    group) on its output gives — after the combine's merge + finish — literally the partition the classic
    local (`add_input` row by row) gives on the raw rows: the same keys in first-occurrence order and, per
    key, `finish` of the fold over that key's values in input order. Uses `build_fold`/`finish_congr` of
    `LawfulCombiner`, "GBK never emits an empty group" and "GBK emits one group per key" (C04). -/
theorem lift_pair_sem {c : VCombiner} {R : Val → Val → Prop} (hc : LawfulCombiner c R) :
    ∀ b : Part, combineMerge c [combineLocalGroups c (gbkMerge [gbkLocal b])]
      = combineMerge c [combineLocalPairs c b] :=
  lift_pair_core hc

/-- … so the builders' window meets the hypothesis of `liftGbk_sem` (`LiftPairsOK`) -/
theorem lift_pair_ok {c : VCombiner} {R : Val → Val → Prop} (hc : LawfulCombiner c R)
    (rest : List (Node Part)) (hr : LiftPairsOK rest) :
    LiftPairsOK (gbkNode :: combineValuesLiftedNode c :: rest) :=
  ⟨lift_pair_sem hc, hr⟩

/-- C03 (lift, any synthetic chain of the builders' closures): if every `GroupByKey` node of a chain is
    the builders' `gbkNode` and every combine carrying `local_groups` is `combineValuesLiftedNode c` for a
    lawful `c` (`LiftShape`; all other nodes — custom operators, markers, joins, non-lifted combines — are
    unconstrained), every window the lift pass can rewrite is semantically liftable: in the chain itself,
    after fusion, and after fusion + reorder (what the pass actually runs on). -/
theorem liftPairsOK_of_shape (ch : List (Node Part)) (h : LiftShape ch) :
    LiftPairsOK ch ∧ LiftPairsOK (fuse ch) ∧ LiftPairsOK (reorder (fuse ch)) :=
  ⟨IB.liftPairsOK_of_shape' ch h, IB.liftPairsOK_of_shape' _ (liftShape_fuse ch h),
   IB.liftPairsOK_of_shape' _ (liftShape_reorder _ (liftShape_fuse ch h))⟩

/-- every builder-made node has the shape -/
theorem liftShapeNode_of_built {nd : Node Part} (h : Built nd) : LiftShapeNode nd := by
  cases h with
  | sub h =>
    cases h with
    | stateless ops h => trivial
    | gbk => exact ⟨rfl, rfl⟩
    | combineValues c R hc => trivial
    | combineValuesLifted c R hc => exact ⟨c, R, hc, rfl, rfl, rfl⟩
    | combineGlobal c R hc fo => trivial
    | combineGlobalLifted c R hc fo => trivial
  | join k xs ys l r hl hr => trivial

/-- C03 (lift, builder chains): for every chain of builder-made nodes — with or without its source —
    `LiftPairsOK` holds, also for `reorder (fuse chain)`. -/
theorem liftPairsOK_of_built (rest : List (Node Part)) (h : ∀ nd ∈ rest, Built nd) :
    LiftPairsOK rest ∧ LiftPairsOK (reorder (fuse rest)) ∧
    ∀ xs, LiftPairsOK (vecSource xs :: rest) ∧ LiftPairsOK (reorder (fuse (vecSource xs :: rest))) := by
  have hs : LiftShape rest := fun nd hnd => liftShapeNode_of_built (h nd hnd)
  refine ⟨(liftPairsOK_of_shape rest hs).1, (liftPairsOK_of_shape rest hs).2.2, fun xs => ?_⟩
  have hs' : LiftShape (vecSource xs :: rest) := by
    intro nd hnd
    rcases List.mem_cons.mp hnd with rfl | hnd
    · trivial
    · exact hs nd hnd
  exact ⟨(liftPairsOK_of_shape _ hs').1, (liftPairsOK_of_shape _ hs').2.2⟩

/-- C03 (lift, semantics on builder chains): the lift pass applied where the planner applies it (after
    fusion and reorder) never changes the sequential result of a builder chain — no hypothesis. -/
theorem liftGbk_sem_builder (xs : List Val) (rest : List (Node Part)) (h : ∀ nd ∈ rest, Built nd) :
    execSeq (liftGbk (reorder (fuse (vecSource xs :: rest)))) = execSeq (reorder (fuse (vecSource xs :: rest))) ∧
    execSeq (liftGbk (vecSource xs :: rest)) = execSeq (vecSource xs :: rest) :=
  ⟨liftGbk_sem _ ((liftPairsOK_of_built rest h).2.2 xs).2, liftGbk_sem _ ((liftPairsOK_of_built rest h).2.2 xs).1⟩

/-! ## mid-chain `Materialized` markers -/

section general
variable {P : Type}

/-- C03 (drop, GENERAL — any chain, any partition type, synthetic chains with mid-chain `Materialized`
    included): if every NON-TERMINAL marker `materialized p` restates the value flowing at that point —
    `MidMatOK c`: for each split `c = pre ++ materialized p :: post` with `post ≠ []`,
    `seqFold none pre = .ok (some p)` — dropping the mid-chain markers does not change the result. -/
theorem dropMid_sem_of_restating_markers (c : List (Node P)) (h : MidMatOK c) :
    execSeq (dropMid c) = execSeq c :=
  dropMid_sem_of_midMatOK c h

/-- the hypothesis holds trivially for chains without markers -/
theorem midMatOK_of_no_marker (c : List (Node P)) (h : ∀ n ∈ c, Node.isMat n = false) : MidMatOK c :=
  midMatOK_of_noMat none c h

/-- C03 (whole optimiser, GENERAL — any chain over any partition type): under (1) the reorder pass only
    permuting blocks that compute the same function either way, (2) liftable windows and (3) restating
    markers, the planned chain computes what the literal chain computes. PARTIAL in (1) — see
    `optimise_sem_builder_full_is_false`; (2) and (3) are discharged for all builder chains below. -/
theorem optimise_sem_general_partial (c : List (Node P)) (hcomm : CommutingChain (fuse c))
    (hlift : LiftPairsOK (reorder (fuse c))) (hmat : MidMatOK (liftGbk (reorder (fuse c)))) :
    execSeq (optimise c) = execSeq c :=
  optimise_sem_of c hcomm hlift hmat

end general

/-- NEGATION witness for (3) — dropping a mid-chain marker is ONLY sound for markers that restate the
    flowing value: on `source [1]; materialized [2]; stateless []` the literal run continues from the
    marker's payload and returns `[2]`, while `dropMid` removes the marker and the run returns `[1]`.
    (The chain violates `MidMatOK`: the fold before the marker holds `[1]`, not `[2]`.) -/
theorem dropMid_unsound_for_other_markers :
    let c : List (Node Part) := [vecSource [.int 1], .materialized [.int 2], .stateless []]
    execSeq c = .ok [.int 2] ∧ execSeq (dropMid c) = .ok [.int 1] ∧
    execSeq (dropMid c) ≠ execSeq c ∧ ¬ MidMatOK c := by
  refine ⟨rfl, rfl, ?_, ?_⟩
  · intro h
    exact absurd (Except.ok.inj h) (by decide)
  · intro h
    have := h [vecSource [.int 1]] [.int 2] [.stateless []] rfl (by simp)
    exact absurd (Option.some.inj (Except.ok.inj this)) (by decide)

/-- non-vacuity of `dropMid_sem_of_restating_markers`: a chain WITH a non-terminal marker that restates
    the flowing value meets `MidMatOK`, and the pass really removes the marker -/
example :
    let c : List (Node Part) := [vecSource [.int 1], .materialized [.int 1], .stateless []]
    MidMatOK c ∧ (dropMid c).length = 2 := by
  refine ⟨?_, rfl⟩
  intro pre p post hc hpost
  match pre, hc with
  | [], hc => simp [vecSource] at hc
  | [_], hc =>
    simp only [List.cons_append, List.nil_append, List.cons.injEq, Node.materialized.injEq] at hc
    obtain ⟨rfl, rfl, _⟩ := hc
    rfl
  | [_, _], hc =>
    simp only [List.cons_append, List.nil_append, List.cons.injEq] at hc
    exact absurd hc.2.2.1 (by simp)
  | _ :: _ :: _ :: _, hc => simp at hc

/-- no builder-made node is a marker -/
theorem built_not_materialized {nd : Node Part} (h : Built nd) : Node.isMat nd = false := by
  cases h with
  | sub h => cases h <;> rfl
  | join k xs ys l r hl hr => rfl

/-- C03 (drop, builder chains): no builder creates a `Materialized` node and neither `fuse`, `reorder` nor
    `liftGbk` creates one, so on every builder chain the last pass is the identity. -/
theorem dropMid_builder_id (xs : List Val) (rest : List (Node Part)) (h : ∀ nd ∈ rest, Built nd) :
    dropMid (liftGbk (reorder (fuse (vecSource xs :: rest)))) = liftGbk (reorder (fuse (vecSource xs :: rest))) := by
  apply dropMid_of_noMat
  apply noMat_before_dropMid
  intro n hn
  rcases List.mem_cons.mp hn with rfl | hn
  · rfl
  · exact built_not_materialized (h n hn)

/-! ## the composition -/

/-- C03, PARTIAL (sequential): `exec(optimise(chain)) == exec(chain)` for EVERY builder chain — any
    source vector, element-wise blocks, group_by_key, lifted and non-lifted per-key combines and global
    combines with any lawful combiner, joins — on which the value-only reorder pass is inert.

    The FULL statement (without `ReorderInert`) is FALSE for the code that exists: the known reorder
    finding, negation witnesses `IB.C02.reorder_breaks_order` and `optimise_sem_builder_full_is_false`
    below. The other three passes need no hypothesis (`fuse_sem'`, `liftGbk_sem_builder`,
    `dropMid_builder_id`). -/
theorem optimise_sem_builder_partial (xs : List Val) (rest : List (Node Part))
    (h : ∀ nd ∈ rest, Built nd) (hin : ReorderInert (vecSource xs :: rest)) :
    execSeq (optimise (vecSource xs :: rest)) = execSeq (vecSource xs :: rest) := by
  unfold optimise
  rw [dropMid_builder_id xs rest h, (liftGbk_sem_builder xs rest h).1,
    reorder_sem_of_commuting _ (commuting_of_inert _ hin), fuse_sem']

/-- C03, PARTIAL, weaker hypothesis: the reorder pass may permute blocks as long as every permuted block
    computes the same function (`CommutingChain` of the fused chain: sorted blocks, and blocks whose swapped
    operators commute). -/
theorem optimise_sem_builder_commuting_partial (xs : List Val) (rest : List (Node Part))
    (h : ∀ nd ∈ rest, Built nd) (hc : CommutingChain (fuse (vecSource xs :: rest))) :
    execSeq (optimise (vecSource xs :: rest)) = execSeq (vecSource xs :: rest) := by
  unfold optimise
  rw [dropMid_builder_id xs rest h, (liftGbk_sem_builder xs rest h).1,
    reorder_sem_of_commuting _ hc, fuse_sem']

/-- C03, PARTIAL (parallel, with C01): for every partition count `n`, `collect_par` on the PLANNED chain
    returns what the literal chain returns sequentially. -/
theorem optimise_sem_builder_par_partial (xs : List Val) (rest : List (Node Part))
    (h : ∀ nd ∈ rest, Built nd) (hin : ReorderInert (vecSource xs :: rest)) :
    ∀ n, execPar List.flatten (optimise (vecSource xs :: rest)) n = execSeq (vecSource xs :: rest) := by
  intro n
  rw [C01_pipeline xs rest h n, optimise_sem_builder_partial xs rest h hin]

/-- … and what the literal chain returns in parallel with ANY other partition count `m`: all four runs
    (planned/literal × seq/par) agree. -/
theorem optimise_sem_builder_par_par_partial (xs : List Val) (rest : List (Node Part))
    (h : ∀ nd ∈ rest, Built nd) (hin : ReorderInert (vecSource xs :: rest)) :
    ∀ n m, execPar List.flatten (optimise (vecSource xs :: rest)) n
      = execPar List.flatten (vecSource xs :: rest) m := by
  intro n m
  rw [optimise_sem_builder_par_partial xs rest h hin n, C01_pipeline_literal xs rest h m]

theorem optimise_sem_builder_par_commuting_partial (xs : List Val) (rest : List (Node Part))
    (h : ∀ nd ∈ rest, Built nd) (hc : CommutingChain (fuse (vecSource xs :: rest))) :
    ∀ n, execPar List.flatten (optimise (vecSource xs :: rest)) n = execSeq (vecSource xs :: rest) := by
  intro n
  rw [C01_pipeline xs rest h n, optimise_sem_builder_commuting_partial xs rest h hc]

/-- NEGATION of the full statement (the known value-only reorder finding, `IB.C02.reorder_breaks_order`,
    restated on a builder chain): `[("k",1),("k",2)].map_values(+1).filter_values(even)` — literal `[(k,2)]`,
    planned `[(k,3)]`. So `ReorderInert` / `CommutingChain` cannot be dropped above. -/
theorem optimise_sem_builder_full_is_false :
    ∃ (xs : List Val) (rest : List (Node Part)), (∀ nd ∈ rest, Built nd) ∧
      execSeq (optimise (vecSource xs :: rest)) ≠ execSeq (vecSource xs :: rest) := by
  refine ⟨[kv 0 1, kv 0 2], [EStep.mapValues add1, .filterValues isEven].map EStep.toNode, ?_, ?_⟩
  · intro nd hnd
    simp only [List.map_cons, List.map_nil, List.mem_cons, List.mem_nil_iff, or_false] at hnd
    rcases hnd with rfl | rfl
    · refine .sub (.stateless _ ?_)
      intro op hop ps
      simp only [List.mem_singleton] at hop
      subst hop
      exact toOp_flatten (.mapValues add1) trivial ps
    · refine .sub (.stateless _ ?_)
      intro op hop ps
      simp only [List.mem_singleton] at hop
      subst hop
      exact toOp_flatten (.filterValues isEven) trivial ps
  · rw [IB.C02.reorder_witness_filter.2.2, IB.C02.reorder_witness_filter.2.1]
    intro h
    exact absurd (Except.ok.inj h) (by decide)

/-! ## non-vacuity: concrete builder chains with a GBK → lifted-combine window -/

/-- the chain `map_values(+1); group_by_key; combine_values_lifted(Sum)`: it is builder-made, the reorder
    pass is inert on it, the optimiser really rewrites it (4 nodes → 3, the GBK is gone) and both runs
    return the per-key sums -/
example :
    let rest : List (Node Part) :=
      [.stateless [mapValuesOp add1], gbkNode, combineValuesLiftedNode Comb.sum.toCombiner]
    let xs : List Val := [kv 1 10, kv 2 20, kv 1 30]
    (∀ nd ∈ rest, Built nd) ∧ ReorderInert (vecSource xs :: rest) ∧
    (optimise (vecSource xs :: rest)).map Node.kind = ["Source", "Stateless1", "CombineValues"] ∧
    (vecSource xs :: rest).map Node.kind = ["Source", "Stateless1", "GroupByKey", "CombineValues+lifted"] ∧
    execSeq (vecSource xs :: rest) = .ok [kv 1 42, kv 2 21] ∧
    execSeq (optimise (vecSource xs :: rest)) = .ok [kv 1 42, kv 2 21] := by
  refine ⟨?_, ?_, by decide, by decide, ?_, ?_⟩
  · intro nd hnd
    simp only [List.mem_cons, List.mem_nil_iff, or_false] at hnd
    rcases hnd with rfl | rfl | rfl
    · refine .sub (.stateless _ ?_)
      intro op hop ps
      simp only [List.mem_singleton] at hop
      subst hop
      show List.map _ ps.flatten = (ps.map (List.map _)).flatten
      rw [List.map_flatten]
    · exact .sub .gbk
    · exact .sub (.combineValuesLifted _ Eq lawful_sum)
  · show InertChain (fuse _)
    simp [vecSource, fuse, gbkNode, combineValuesLiftedNode, InertChain, BlockInert]
  · exact congrArg Except.ok (by decide)
  · exact congrArg Except.ok (by decide)

/-- a chain whose fused block `[filter_values, map_values]` IS all-movable (the reorder pass looks at it)
    and already sorted by `(cost ≠ 1, cost)`, followed by the window: the hypotheses of
    `optimise_sem_builder_partial` hold non-trivially -/
example :
    let rest : List (Node Part) :=
      [.stateless [filterValuesOp isEven], .stateless [mapValuesOp add1], gbkNode,
       combineValuesLiftedNode Comb.count.toCombiner, .stateless [mapOp Val.value],
       combineGlobalNode Comb.sum.toCombiner (some 1)]
    (∀ nd ∈ rest, Built nd) ∧ ∀ xs, ReorderInert (vecSource xs :: rest) := by
  refine ⟨?_, ?_⟩
  · intro nd hnd
    simp only [List.mem_cons, List.mem_nil_iff, or_false] at hnd
    rcases hnd with rfl | rfl | rfl | rfl | rfl | rfl
    · refine .sub (.stateless _ ?_)
      intro op hop ps
      simp only [List.mem_singleton] at hop
      subst hop
      show List.filter _ ps.flatten = (ps.map (List.filter _)).flatten
      rw [List.filter_flatten]
    · refine .sub (.stateless _ ?_)
      intro op hop ps
      simp only [List.mem_singleton] at hop
      subst hop
      show List.map _ ps.flatten = (ps.map (List.map _)).flatten
      rw [List.map_flatten]
    · exact .sub .gbk
    · exact .sub (.combineValuesLifted _ Eq lawful_count)
    · refine .sub (.stateless _ ?_)
      intro op hop ps
      simp only [List.mem_singleton] at hop
      subst hop
      show List.map _ ps.flatten = (ps.map (List.map _)).flatten
      rw [List.map_flatten]
    · exact .sub (.combineGlobal _ Eq lawful_sum (some 1))
  · intro xs
    show InertChain (fuse _)
    simp only [vecSource, fuse, gbkNode, combineValuesLiftedNode, combineGlobalNode, InertChain,
      List.cons_append, List.nil_append, and_true]
    refine ⟨?_, ?_⟩ <;> decide

end IB

/-! # Part 3 — "The plan reported by explain is the plan that runs" -/

namespace IB
open C02W
section explain
variable {P : Type}

/-- C03 (build_plan): the chain of the plan is the four passes composed in the code's order — fuse, reorder,
    lift, drop_mid — i.e. the `optimise` every theorem above is about (for every chain, every CPU count). -/
theorem buildPlan_chain_is_optimise (cpus : Nat) (c : List (Node P)) : (buildPlan cpus c).chain = optimise c := by
  simp only [buildPlan, dropMidTracked, liftTracked, reorderTracked, fuseTracked_fst, optimise]

/-- C03 (run_collect): what runs IS the plan's chain: `run_collect` of a default runner executes
    `optimise chain` with the sequential engine, and with the parallel engine on the requested partition count, or —
    when none is requested — on the suggested one, or on `2·max(cpus, 2)`. -/
theorem runCollect_executes_the_plan (concat : List P → P) (cpus : Nat) (c : List (Node P)) :
    runCollect concat cpus .sequential c = execSeq (optimise c) ∧
    (∀ n, runCollect concat cpus (.parallel (some n)) c = execPar concat (optimise c) n) ∧
    runCollect concat cpus (.parallel none) c =
      execPar concat (optimise c) (chosenPartitions cpus none (buildPlan cpus c).suggestedPartitions) := by
  refine ⟨?_, fun n => ?_, ?_⟩ <;> simp only [runCollect, buildPlan_chain_is_optimise, chosenPartitions]

/-- C03 (explain, steps): for EVERY plan, the steps of `explain()` are the nodes of `plan.chain`, one per node, in
    order: numbered 1.., with the node's type name, its barrier flag, its cost hint (Σ op costs for a block) and its
    description (op count and per-op costs of a block, lifted / pairs mode of a combine, fan-out of a global
    combine, size of a source). -/
theorem explain_lists_the_plan (p : Plan P) :
    p.explain.steps.length = p.chain.length ∧
    p.explain.steps.map (·.step) = List.range' 1 p.chain.length ∧
    p.explain.steps.map (·.nodeType) = p.chain.map Node.typeName ∧
    p.explain.steps.map (·.isBarrier) = p.chain.map Node.isBarrier ∧
    p.explain.steps.map (·.costHint) = p.chain.map Node.stepCost ∧
    p.explain.steps.map (·.description) = p.chain.map Node.description := by
  have h : p.explain.steps = stepsFrom 0 p.chain := by
    simp [Plan.explain, explainLoop_steps]
  rw [h]
  exact ⟨stepsFrom_length _ _, stepsFrom_map_step _ _, stepsFrom_map_type _ _, stepsFrom_map_barrier _ _,
    stepsFrom_map_cost _ _, stepsFrom_map_description _ _⟩

/-- every element-wise op of the chain is counted once by `stateless_ops` -/
theorem statelessOpCount_eq_opsOf (c : List (Node P)) : statelessOpCount c = (opsOf c).length := by
  induction c with
  | nil => rfl
  | cons n rest ih => cases n <;> simp [statelessOpCount, opsOf, ih]

/-- C03 (explain, cost estimate): `barriers` counts the barrier nodes of the chain, `stateless_ops` its
    element-wise ops, `total_ops` the ops plus one per non-source non-block node, `source_size` is the length of the
    (last) source node; the decisions and the partition suggestion are the plan's. -/
theorem explain_counts_the_plan (p : Plan P) :
    p.explain.costEstimate.barriers = (p.chain.filter Node.isBarrier).length ∧
    p.explain.costEstimate.statelessOps = (opsOf p.chain).length ∧
    p.explain.costEstimate.totalOps = totalOpCount p.chain ∧
    p.explain.costEstimate.sourceSize = lastSourceLen none p.chain ∧
    p.explain.optimizations = p.optimizations ∧
    p.explain.suggestedPartitions = p.suggestedPartitions := by
  refine ⟨?_, ?_, ?_, ?_, rfl, rfl⟩
  · simp [Plan.explain, explainLoop_barriers, barrierCount]
  · simp [Plan.explain, explainLoop_statelessOps, statelessOpCount_eq_opsOf]
  · simp [Plan.explain, explainLoop_totalOps]
  · simp [Plan.explain, explainLoop_sourceSize]

/-- C03, the last sentence of the property: for every chain `c` and machine, `explain()` of the plan that
    `run_collect` builds lists exactly the nodes of the chain that `run_collect` executes (`optimise c`). -/
theorem explain_is_the_plan_that_runs (concat : List P → P) (cpus : Nat) (c : List (Node P)) :
    let plan := buildPlan cpus c
    runCollect concat cpus .sequential c = execSeq plan.chain ∧
    (∀ n, runCollect concat cpus (.parallel (some n)) c = execPar concat plan.chain n) ∧
    plan.chain = optimise c ∧
    plan.explain.steps.map (·.nodeType) = (optimise c).map Node.typeName ∧
    plan.explain.steps.map (·.isBarrier) = (optimise c).map Node.isBarrier ∧
    plan.explain.steps.map (·.costHint) = (optimise c).map Node.stepCost ∧
    plan.explain.steps.map (·.description) = (optimise c).map Node.description ∧
    plan.explain.costEstimate.statelessOps = (opsOf (optimise c)).length ∧
    plan.explain.costEstimate.barriers = ((optimise c).filter Node.isBarrier).length := by
  intro plan
  have hc : plan.chain = optimise c := buildPlan_chain_is_optimise cpus c
  have hl := explain_lists_the_plan plan
  have hn := explain_counts_the_plan plan
  rw [hc] at hl hn
  exact ⟨rfl, fun _ => rfl, hc, hl.2.2.1, hl.2.2.2.1, hl.2.2.2.2.1, hl.2.2.2.2.2, hn.2.1, hn.1⟩

/-! ## a decision is reported iff the pass changed the chain -/

/-- C03 (decisions, fusion): `FusedStateless` is reported iff fusion changed the chain (iff it got shorter). -/
theorem fuse_decision_iff_changed (c : List (Node P)) :
    ((fuseTracked c).2.isSome ↔ fuse c ≠ c) ∧ ((fuseTracked c).2.isSome ↔ (fuse c).length < c.length) := by
  have hadd := fuse_length_add c
  have hle := fuse_length_le c
  have key : (fuseTracked c).2.isSome ↔ (fuse c).length < c.length := by
    rw [fuseTracked_snd]
    split
    · next h => simp only [Option.isSome_some, true_iff]; omega
    · next h => simp only [Option.isSome_none, Bool.false_eq_true, false_iff]; omega
  refine ⟨?_, key⟩
  rw [key]
  constructor
  · intro h he
    rw [he] at h
    exact Nat.lt_irrefl _ h
  · intro h
    rcases Nat.lt_or_ge (fuse c).length c.length with hlt | hge
    · exact hlt
    · exact absurd (fuse_eq_self_of_length c (Nat.le_antisymm hle hge)) h

/-- C03 (decisions, fusion): the numbers it reports are the chain's: blocks before = `Stateless` nodes of the
    input, blocks after = `Stateless` nodes of the output, ops = all element-wise ops; and the number of removed
    nodes is `before − after`. -/
theorem fuse_decision_counts (c : List (Node P)) (b a o : Nat)
    (h : (fuseTracked c).2 = some (.fusedStateless b a o)) :
    b = countStateless c ∧ a = countStateless (fuse c) ∧ o = (opsOf c).length ∧ a < b ∧
    c.length - (fuse c).length = b - a := by
  have hadd := fuse_length_add c
  rw [fuseTracked_snd] at h
  split at h
  · next hgt =>
    simp only [Option.some.injEq, Decision.fusedStateless.injEq] at h
    obtain ⟨rfl, rfl, rfl⟩ := h
    exact ⟨rfl, rfl, statelessOpCount_eq_opsOf c, hgt, by omega⟩
  · next _ => exact absurd h (by simp)

/-- C03 (decisions, lift): `LiftedGBKCombine` is reported iff the lift pass changed the chain. -/
theorem lift_decision_iff_changed (c : List (Node P)) :
    ((liftTracked c).2.isSome ↔ liftGbk c ≠ c) ∧ ((liftTracked c).2.isSome ↔ (liftGbk c).length < c.length) := by
  have key : (liftTracked c).2.isSome ↔ (liftGbk c).length < c.length := by
    rw [← liftFires_iff_shorter]
    unfold liftTracked
    cases liftFires c <;> simp
  refine ⟨?_, key⟩
  constructor
  · intro h he
    have := key.mp h
    rw [he] at this
    exact Nat.lt_irrefl _ this
  · intro h
    cases hf : liftFires c with
    | true => simp [liftTracked, hf]
    | false => exact absurd (liftGbk_eq_self_of_not_fires c hf) h

/-- C03 (decisions, drop): `DroppedMidMaterialized { count }` is reported iff the pass changed the chain, and
    `count` is the number of removed nodes. -/
theorem drop_decision_iff_changed (c : List (Node P)) :
    ((dropMidTracked c).2.isSome ↔ dropMid c ≠ c) ∧
    (∀ k, (dropMidTracked c).2 = some (.droppedMidMaterialized k) → 0 < k ∧ k = c.length - (dropMid c).length) := by
  have hadd := dropMid_length_add c
  constructor
  · unfold dropMidTracked
    constructor
    · intro h he
      rw [he] at hadd
      split at h
      · next hk => omega
      · next _ => simp at h
    · intro h
      split
      · rfl
      · next hk =>
        exact absurd (dropMid_eq_self_of_length c (by omega)) h
  · intro k hk
    unfold dropMidTracked at hk
    split at hk
    · next hpos =>
      simp only [Option.some.injEq, Decision.droppedMidMaterialized.injEq] at hk
      omega
    · next _ => exact absurd hk (by simp)

/-- C03 (decisions, reorder): every `ReorderedValueOps` decision belongs to a block of the chain whose ops are
    ALL movable and that has more than one op (a block the pass sorts), and carries that block's length. -/
theorem reorder_decisions_are_the_sorted_blocks (c : List (Node P)) :
    ∀ d ∈ reorderDecisions c, ∃ ops, Node.stateless ops ∈ c ∧ ops.all movable = true ∧ ops.length > 1 ∧
      d = .reorderedValueOps ops.length true := by
  induction c with
  | nil => intro d hd; simp [reorderDecisions] at hd
  | cons n rest ih =>
    intro d hd
    cases n with
    | stateless ops =>
      simp only [reorderDecisions, List.mem_append] at hd
      rcases hd with hd | hd
      · split at hd
        · next hc =>
          simp only [Bool.and_eq_true, decide_eq_true_eq] at hc
          simp only [List.mem_singleton] at hd
          exact ⟨ops, by simp, hc.1, hc.2, hd⟩
        · simp at hd
      · obtain ⟨o, ho, h2⟩ := ih d hd
        exact ⟨o, by simp [ho], h2⟩
    | source w l s => obtain ⟨o, ho, h2⟩ := ih d (by simpa [reorderDecisions] using hd); exact ⟨o, by simp [ho], h2⟩
    | gbk l m => obtain ⟨o, ho, h2⟩ := ih d (by simpa [reorderDecisions] using hd); exact ⟨o, by simp [ho], h2⟩
    | combineValues lp lg m => obtain ⟨o, ho, h2⟩ := ih d (by simpa [reorderDecisions] using hd); exact ⟨o, by simp [ho], h2⟩
    | combineGlobal l m f fo => obtain ⟨o, ho, h2⟩ := ih d (by simpa [reorderDecisions] using hd); exact ⟨o, by simp [ho], h2⟩
    | coGroup l r cl cr e => obtain ⟨o, ho, h2⟩ := ih d (by simpa [reorderDecisions] using hd); exact ⟨o, by simp [ho], h2⟩
    | materialized p => obtain ⟨o, ho, h2⟩ := ih d (by simpa [reorderDecisions] using hd); exact ⟨o, by simp [ho], h2⟩

/-- C03 (decisions, reorder), one direction: if the reorder pass changed the chain it reports a decision.
    FULL statement "reported iff changed" is FALSE for the code that exists, see the witness below. -/
theorem reorder_decision_if_changed (c : List (Node P)) (h : reorder c ≠ c) : (reorderTracked c).2 ≠ [] := by
  induction c with
  | nil => exact absurd rfl h
  | cons n rest ih =>
    cases n with
    | stateless ops =>
      simp only [reorderTracked, reorderDecisions]
      by_cases hc : (ops.all movable && decide (ops.length > 1)) = true
      · simp [hc]
      · have hb : reorderBlock ops = ops := by
          unfold reorderBlock
          simp only [hc, Bool.false_eq_true, ↓reduceIte]
        have hr : reorder rest ≠ rest := by
          intro he
          apply h
          simp only [reorder, hb, he]
        have := ih hr
        simp only [reorderTracked] at this
        simp [hc, this]
    | source w l s => exact ih (fun he => h (by simp only [reorder, he]))
    | gbk l m => exact ih (fun he => h (by simp only [reorder, he]))
    | combineValues lp lg m => exact ih (fun he => h (by simp only [reorder, he]))
    | combineGlobal l m f fo => exact ih (fun he => h (by simp only [reorder, he]))
    | coGroup l r cl cr e => exact ih (fun he => h (by simp only [reorder, he]))
    | materialized p => exact ih (fun he => h (by simp only [reorder, he]))

end explain

/-- NEGATION witness for "a `ReorderedValueOps` decision is reported iff the pass changed the chain": the block
    `[filter_values (cost 1), map_values (cost 3)]` is all-movable and already in cost order — the pass sorts it,
    nothing moves (the labels stay `["f", "m"]`), and `ReorderedValueOps { ops_count: 2 }` is reported all the same.
    (The code reports every block it SORTS; `reorder_decisions_are_the_sorted_blocks`.) -/
theorem reorder_decision_without_change :
    let f : DynOp Nat := { apply := id, keyPreserving := true, valueOnly := true, reorderSafe := true, cost := 1, label := "f" }
    let m : DynOp Nat := { apply := id, keyPreserving := true, valueOnly := true, reorderSafe := true, cost := 3, label := "m" }
    let c : List (Node Nat) := [.stateless [f, m]]
    (reorderTracked c).2 = [.reorderedValueOps 2 true] ∧ (opsOf (reorder c)).map (·.label) = ["f", "m"] := by
  refine ⟨by decide, ?_⟩
  simp [reorder, reorderBlock, movable, opsOf, List.mergeSort, List.MergeSort.Internal.splitInTwo, keyLe,
    sortKey]

section explain2
variable {P : Type}

/-- C03 (build_plan): the decisions are reported in the order of the passes, each computed on the chain the
    previous pass produced, followed by the partition suggestion when there is one. -/
theorem buildPlan_reports_the_passes_in_order (cpus : Nat) (c : List (Node P)) :
    (buildPlan cpus c).optimizations =
      (fuseTracked c).2.toList ++ reorderDecisions (fuse c) ++ (liftTracked (reorder (fuse c))).2.toList ++
      (dropMidTracked (liftGbk (reorder (fuse c)))).2.toList ++
      (match suggestPartitions (max cpus 2) (estimateSourceLen c) with
       | some parts => [Decision.partitionSuggestion (estimateSourceLen c) parts]
       | none => []) ∧
    (buildPlan cpus c).suggestedPartitions = suggestPartitions (max cpus 2) (estimateSourceLen c) := by
  simp only [buildPlan, dropMidTracked, liftTracked, reorderTracked, fuseTracked_fst]
  exact ⟨rfl, trivial⟩

/-! ## partitions -/

/-- C03 (partition suggestion): a suggestion is always within `[hw, 8·hw]` -/
theorem suggestPartitions_bounds (hw n p : Nat) (h : suggestPartitions hw (some n) = some p) :
    hw ≤ p ∧ p ≤ hw * 8 := by
  simp only [suggestPartitions, Option.some.injEq] at h
  split at h
  · omega
  · split at h <;> omega

/-- … and inside that window it is exactly `⌈n / 64 000⌉`; no length hint, no suggestion -/
theorem suggestPartitions_exact (hw n : Nat) (h1 : hw ≤ (n + 63999) / 64000) (h2 : (n + 63999) / 64000 ≤ hw * 8) :
    suggestPartitions hw (some n) = some ((n + 63999) / 64000) ∧ suggestPartitions hw none = none := by
  refine ⟨?_, rfl⟩
  simp only [suggestPartitions, Option.some.injEq]
  split
  · omega
  · split <;> omega

/-- C03 (`collect_par(None, None)`): on a chain that starts with a source of length `len` the parallel engine is
    handed exactly the suggested partition count (within `[hw, 8·hw]`, `hw = max(cpus, 2)`); on a chain without a
    head source there is no suggestion and it is handed the runner's default `2·hw`. -/
theorem collect_par_default_uses_the_suggestion (cpus : Nat) (c : List (Node P)) :
    (∀ w len split rest, c = .source w len split :: rest →
      ∃ p, suggestPartitions (max cpus 2) (some len) = some p ∧
        chosenPartitions cpus none (buildPlan cpus c).suggestedPartitions = p ∧ max cpus 2 ≤ p ∧ p ≤ max cpus 2 * 8) ∧
    (estimateSourceLen c = none →
      chosenPartitions cpus none (buildPlan cpus c).suggestedPartitions = 2 * max cpus 2) := by
  constructor
  · intro w len split rest hc
    subst hc
    have hs : (buildPlan cpus (Node.source w len split :: rest)).suggestedPartitions
        = suggestPartitions (max cpus 2) (some len) := (buildPlan_reports_the_passes_in_order cpus _).2
    cases hp : suggestPartitions (max cpus 2) (some len) with
    | none => simp [suggestPartitions] at hp
    | some p =>
      refine ⟨p, rfl, ?_, suggestPartitions_bounds _ _ _ hp⟩
      rw [hs, hp]
      rfl
  · intro hn
    rw [(buildPlan_reports_the_passes_in_order cpus c).2, hn]
    rfl

/-! ## the lift guard -/

/-- C03 (lift guard): a `GroupByKey` followed by a `CombineValues` WITHOUT `local_groups` (a classic
    `combine_values`) is NOT rewritten — both nodes stay, the scan continues behind them. -/
theorem lift_guard_no_local_groups (l : P → P) (m : List P → P) (lp : P → P) (mg : List P → P) (rest : List (Node P)) :
    liftGbk (.gbk l m :: .combineValues lp none mg :: rest) = .gbk l m :: .combineValues lp none mg :: liftGbk rest := by
  have h1 : liftGbk (.gbk l m :: .combineValues lp none mg :: rest)
      = .gbk l m :: liftGbk (.combineValues lp none mg :: rest) := by
    rw [liftGbk.eq_def]
  have h2 : liftGbk (.combineValues lp none mg :: rest) = .combineValues lp none mg :: liftGbk rest := by
    rw [liftGbk.eq_def]
  rw [h1, h2]

/-- C03 (lift guard, whole chains): a chain in which no combine carries `local_groups` is left exactly as it is,
    whatever else it contains; no decision is reported. -/
theorem liftGbk_id_of_no_lifted_combine (c : List (Node P))
    (h : ∀ n ∈ c, ∀ lp lg m, n ≠ Node.combineValues lp (some lg) m) :
    liftGbk c = c ∧ (liftTracked c).2 = none := by
  have hf : liftFires c = false := by
    induction c with
    | nil => rfl
    | cons n rest ih =>
      have hrest := ih (fun x hx => h x (by simp [hx]))
      rw [liftFires.eq_def]
      split
      · next l m lp lg mm r heq =>
        simp only [List.cons.injEq] at heq
        obtain ⟨_, rfl⟩ := heq
        exact absurd rfl (h _ (by simp) lp lg mm)
      · next n' r' _ heq =>
        simp only [List.cons.injEq] at heq
        obtain ⟨_, rfl⟩ := heq
        exact hrest
      · next heq => simp at heq
  exact ⟨liftGbk_eq_self_of_not_fires c hf, by simp [liftTracked, hf]⟩

end explain2

/-- C03, PARTIAL, end to end (`collect_seq` / `collect_par(_, n)` / `collect_par(_, None)`): on every builder chain
    on which the value-only reorder pass is inert, `run_collect` — planning by itself, with ANY requested partition
    count or with the one the planner suggests — returns what the steps executed literally as written return.
    (PARTIAL only through `ReorderInert`: the known reorder finding, `optimise_sem_builder_full_is_false`.) -/
theorem runCollect_sem_builder_partial (cpus : Nat) (xs : List Val) (rest : List (Node Part))
    (h : ∀ nd ∈ rest, Built nd) (hin : ReorderInert (vecSource xs :: rest)) :
    runCollect List.flatten cpus .sequential (vecSource xs :: rest) = execSeq (vecSource xs :: rest) ∧
    ∀ parts, runCollect List.flatten cpus (.parallel parts) (vecSource xs :: rest) = execSeq (vecSource xs :: rest) := by
  have hr := runCollect_executes_the_plan List.flatten cpus (vecSource xs :: rest)
  refine ⟨by rw [hr.1, optimise_sem_builder_partial xs rest h hin], fun parts => ?_⟩
  cases parts with
  | some n => rw [hr.2.1 n, optimise_sem_builder_par_partial xs rest h hin n]
  | none => rw [hr.2.2, optimise_sem_builder_par_partial xs rest h hin _]

/-- non-vacuity of the guard: `group_by_key(); combine_values(Sum)` (classic) — the plan keeps both barriers and
    reports no lift; with `combine_values_lifted` the pair is rewritten and the lift is reported -/
example :
    (liftGbk [gbkNode, combineValuesNode Comb.sum.toCombiner]).map Node.kind = ["GroupByKey", "CombineValues"] ∧
    (liftTracked [gbkNode, combineValuesNode Comb.sum.toCombiner]).2 = none ∧
    (liftGbk [gbkNode, combineValuesLiftedNode Comb.sum.toCombiner]).map Node.kind = ["CombineValues"] ∧
    (liftTracked [gbkNode, combineValuesLiftedNode Comb.sum.toCombiner]).2 = some (.liftedGbkCombine true) := by
  refine ⟨by decide, by decide, by decide, by decide⟩

/-- What the planner ASSUMES of a user `LiftableCombiner` (it cannot inspect one: it lifts whenever
    `local_groups.is_some()`): `build_from_group(values)` is — up to the accumulator equivalence — the fold of
    `add_input` over `values` (field `build_fold` of `LawfulCombiner`, the hypothesis of `lift_pair_sem`).
    NEGATION witness that the hypothesis cannot be dropped: `badSum` is `Sum` in everything but `build_from_group`
    (`= Σ + 1000`); on `[(1,10),(1,30),(2,20)]` the literal chain `GBK → lifted combine` returns `[(1,1040),(2,1020)]`
    and the planned chain (direct combine through `add_input`) returns `[(1,40),(2,20)]`; the window law fails.
    A breach of the user's contract, outside the property — the harness runs it (`LIFTNEG`) as a documented negative
    example, never as a violation. -/
theorem lift_unsound_without_build_fold :
    let b : Part := [kv 1 10, kv 1 30, kv 2 20]
    let chain : List (Node Part) := [vecSource b, gbkNode, combineValuesLiftedNode badSum]
    badSum.create = Comb.sum.toCombiner.create ∧ badSum.add = Comb.sum.toCombiner.add ∧
    badSum.merge = Comb.sum.toCombiner.merge ∧ badSum.finish = Comb.sum.toCombiner.finish ∧
    badSum.build [.int 10, .int 30] ≠ badSum.foldAdd badSum.create [.int 10, .int 30] ∧
    execSeq chain = .ok [kv 1 1040, kv 2 1020] ∧
    execSeq (optimise chain) = .ok [kv 1 40, kv 2 20] ∧
    combineMerge badSum [combineLocalGroups badSum (gbkMerge [gbkLocal b])] ≠ combineMerge badSum [combineLocalPairs badSum b] := by
  refine ⟨rfl, rfl, rfl, rfl, by decide, congrArg Except.ok (by decide), congrArg Except.ok (by decide), by decide⟩

end IB

