import IbModel.Generated.Kernels
import IbModel.Model.Engine
/-!
# C05 — kernel ties (translator route)

Tied here (`runner.rs`, the `CombineGlobal` arm of `exec_par` and of the nested `run_subplan_par`; the model has ONE
definition, `reduceGlobal`, for both arms, so both generated copies are tied to it):
* `let f = fanout.unwrap_or(usize::MAX).max(2);` ↔ the clamp `max f 2` of `reduceGlobal` (= `reduceGlobalWith 2`);
* `while accs.len() > 1` ↔ the `accs.length ≤ 1` exit test of `fanIn` and of the no-fan-out branch;
* `if f == usize::MAX` (single merge) ↔ the `none` branch of `reduceGlobalWith`: it is taken exactly when no fan-out
  was given, or the given one is `usize::MAX` itself (`K.usizeMax` = 2^64-1; the model then runs `fanIn` with that
  huge fan-in, which is the same single merge for every list shorter than 2^64 — not tied, stated here).

Not tied: the inner `loop`/`for _ in 0..f` grouping (modelled by `chunksOf f`), `Vec::with_capacity` hints.
-/
set_option autoImplicit false
namespace IB.KTies.C05
open IB.Generated
variable {P : Type}

theorem k_runner_fanout_par : ∀ fanout : Option Nat,
    K.runner_fanout_par fanout = match fanout with | some f => max f 2 | none => K.usizeMax := by
  intro fo; cases fo <;> simp [K.runner_fanout_par, K.usizeMax]

theorem k_runner_fanout_subplan : ∀ fanout : Option Nat,
    K.runner_fanout_subplan fanout = match fanout with | some f => max f 2 | none => K.usizeMax := by
  intro fo; cases fo <;> simp [K.runner_fanout_subplan, K.usizeMax]

theorem k_runner_fanin_guard_par : ∀ n : Nat, K.runner_fanin_guard_par n = !decide (n ≤ 1) := by
  intro n; unfold K.runner_fanin_guard_par
  by_cases h : n ≤ 1
  · have : ¬ n > 1 := by omega
    simp [h, this]
  · have : n > 1 := by omega
    simp [h, this]

theorem k_runner_fanin_guard_subplan : ∀ n : Nat, K.runner_fanin_guard_subplan n = !decide (n ≤ 1) := by
  intro n; unfold K.runner_fanin_guard_subplan
  by_cases h : n ≤ 1
  · have : ¬ n > 1 := by omega
    simp [h, this]
  · have : n > 1 := by omega
    simp [h, this]

/-- `f == usize::MAX` holds when no fan-out was requested … -/
theorem k_runner_single_merge_par_none : K.runner_single_merge_par (K.runner_fanout_par none) = true := by
  simp [K.runner_single_merge_par, K.runner_fanout_par, K.usizeMax]

/-- … and for no explicit fan-out below `usize::MAX` -/
theorem k_runner_single_merge_par_some : ∀ f : Nat, f < K.usizeMax →
    K.runner_single_merge_par (K.runner_fanout_par (some f)) = false := by
  intro f hf
  simp [K.runner_single_merge_par, K.runner_fanout_par, K.usizeMax] at *
  omega

theorem k_runner_single_merge_subplan_none : K.runner_single_merge_subplan (K.runner_fanout_subplan none) = true := by
  simp [K.runner_single_merge_subplan, K.runner_fanout_subplan, K.usizeMax]

theorem k_runner_single_merge_subplan_some : ∀ f : Nat, f < K.usizeMax →
    K.runner_single_merge_subplan (K.runner_fanout_subplan (some f)) = false := by
  intro f hf
  simp [K.runner_single_merge_subplan, K.runner_fanout_subplan, K.usizeMax] at *
  omega

/-- use site: one round of the model's fan-in loop is guarded by the generated `while` condition -/
theorem k_fanIn_model : ∀ (merge : List P → P) (f fuel : Nat) (accs : List P),
    fanIn merge f (fuel + 1) accs =
      if K.runner_fanin_guard_par accs.length then fanIn merge f fuel ((chunksOf f accs.length accs).map merge)
      else some accs := by
  intro merge f fuel accs
  by_cases h : accs.length ≤ 1 <;> simp [fanIn, k_runner_fanin_guard_par, h]

/-- use site: with an explicit fan-out the model reduces with the generated fan-in `f` -/
theorem k_reduceGlobal_some_model : ∀ (merge : List P → P) (f : Nat) (accs : List P),
    reduceGlobal merge (some f) accs =
      (match fanIn merge (K.runner_fanout_par (some f)) accs.length accs with
       | none => throw .nonTermination
       | some [] => pure (merge [])
       | some (a :: _) => pure a) := by
  intros; rfl

/-- use site: without a fan-out the model's branch is the generated `while` guard + `f == usize::MAX` test -/
theorem k_reduceGlobal_none_model : ∀ (merge : List P → P) (accs : List P),
    reduceGlobal merge none accs =
      (match (if K.runner_fanin_guard_par accs.length && K.runner_single_merge_par (K.runner_fanout_par none)
              then [merge accs] else accs) with
       | [] => pure (merge [])
       | a :: _ => pure a) := by
  intro merge accs
  rw [k_runner_single_merge_par_none, k_runner_fanin_guard_par]
  by_cases h : accs.length ≤ 1
  · simp [reduceGlobal, reduceGlobalWith, h]
    cases accs <;> rfl
  · simp [reduceGlobal, reduceGlobalWith, h]

end IB.KTies.C05
