import IbModel.Proofs.Elementwise
import IbModel.Proofs.ElementwisePlan
import IbModel.Proofs.PlannerSem
import IbModel.Proofs.ElementwiseOrder
import IbModel.Proofs.ElementwiseProgram
import IbModel.Proofs.ElementwiseTyped
import IbModel.Model.Program
import IbModel.Proofs.Terminals
import IbModel.Proofs.TypedRun
/-!
# C02 — element-wise pipelines compute the steps as written, in order

Full statement of the property (what we would like to prove):

    ∀ steps xs n,  execSeq (optimise (vecSource xs :: steps.map toNode))              = .ok (interp steps xs)
                ∧  execPar List.flatten (optimise (vecSource xs :: steps.map toNode)) n = .ok (interp steps xs)

where `interp` is the independent list interpretation (`Proofs/Elementwise.lean`: plain
`List.map/filter/flatMap` and a positional description of `slice::chunks`, folded in program order; it
mentions no engine definition) and the user functions are ARBITRARY (`Val → Val`, `Val → Bool`,
`Val → List Val`, `List Val → List Val`).

**This full statement is FALSE for the code that exists** (`reorder_breaks_order` below): the
planner's value-only reorder pass (`planner.rs::reorder_value_only_runs`) stably sorts a fused block
consisting solely of `map_values / filter_values / map_values_batches` by `(cost ≠ 1, cost)` — i.e.
`filter_values (1) < map_values_batches (2) < map_values (3)` — although these operators do not commute.
What is proved instead:

* the COMPLETE description of what the code computes, for every program, input and partition
  count: `planned_eq_interp_plannerOrder`, `planned_par_eq_interp_plannerOrder` — the planned run is
  `interp (plannerOrder steps)`, where `plannerOrder` is the program itself unless ALL steps are
  value-only (and ≥ 2), in which case filter_values run first, then map_values_batches, then
  map_values; `plannerOrder` is always a permutation (`plannerOrder_is_permutation`: no step dropped or
  duplicated), and planned = as-written iff the two orders give the same rows (`planned_eq_interp_iff`);
* with the reorder pass skipped the FULL statement holds (`noReorder_eq_interp`): the pass is the only culprit;
* the LITERAL chain (no planner) equals `interp` for all programs and inputs (`literal_chain_eq_interp`),
  sequentially, and in parallel for every partition count (`literal_par_eq_interp`);
* the planner's other three passes never change the result: `fuse_sem`, `fuse_sem_par` (no hypothesis, any
  partition type), `liftGbk_id`, `dropMid_id` (identity on chains without their trigger);
* an exact, UNCONDITIONAL description of what the planned run computes (`planned_seq_characterisation`,
  `planned_par_characterisation`): the single fused block in the planner's order;
* hence planned = `interp` under `ReorderInert` (the reorder pass finds nothing to move) —
  `planned_eq_interp_partial`, `planned_par_eq_interp_partial` — and under the weaker semantic
  condition that the permuted block computes the same function (`planned_eq_interp_commuting_partial`);
* a type-checked program never panics in an operator's downcast when run literally
  (`no_type_panic_literal`) or planned with an inert reorder pass (`no_type_panic_planned_partial`);
  the reorder pass can make it panic (`reorder_type_panic`);
* the table obligation: exactly `map_values`, `filter_values`, `map_values_batches` carry the three
  capability flags, with costs 3, 1, 2 (read from the running Rust code on every run);
* (round 3) the fail-fast terminal `collect_fail_fast` (section 9): `Ok(all values in order)` iff no element
  failed, else `Err("element failed: <e>")` for the FIRST failing element in sequence order
  (`fail_fast_ok_iff`, `fail_fast_first_error`, `fail_fast_is_mapM`), and for the programs the driver runs
  (`collect_fail_fast_after_try_map`, `…_par` for every partition count);
* (round 3) the typed run the DRIVER evaluates on `PIPEW` requests (section 10, two Rust element types in the
  harness): mode-independent for every partition count (`typed_run_mode_independent`), panic-free for
  type-checked programs with an inert reorder pass (`typed_run_no_panic_partial`), and the reorder pass makes
  the type-changing witness panic in every mode on every input (`reorder_type_panic_every_mode`) — the real
  engine does (`FilterValuesOp: expected Vec<(K,V)>`), attributed to the listed reorder finding;
* (round 3) `BatchMapValuesOp` asserts that the chunk function keeps the chunk length; the model
  (`Closures.lean::rekeyChunk`) and `EStep.eval` answer the single row `err` (= `PANIC`) otherwise.

Section 7 instantiates all of this for `runLiteral / runSeq / runPar / runSeqNoReorder`, the functions
the driver evaluates in the correspondence check against the real crate.

Parallel mode needs, for the two batch steps only, that the chunk function is element-wise
(`EStep.ParOK`): a chunk function that looks across its slice is partition-dependent by the operator's
documented per-partition semantics (chunks are cut per partition).
-/
namespace IB.C02
open Val C02W

/-! ## 1. the literal chain: one `Stateless` node per step, folded left to right -/

/-- Every element-wise program, executed literally (as the builders recorded it), returns exactly the
    sequence obtained by applying the steps one after another, in program order, to the source rows
    in source order — and never an engine error. -/
theorem literal_chain_eq_interp (xs : List Val) (steps : List EStep) :
    execSeq (vecSource xs :: steps.map EStep.toNode) = .ok (interp steps xs) :=
  execSeq_elemChain xs steps

/-- compositionality ("one after another"): a pipeline of steps `a` followed by steps `b` returns what the pipeline `b`
    returns when it is fed, as a fresh source, the result of the pipeline `a` — collecting half-way and continuing from
    the collected rows is indistinguishable from running straight through -/
theorem literal_chain_compose (xs : List Val) (a b : List EStep) :
    execSeq (vecSource xs :: (a ++ b).map EStep.toNode)
      = execSeq (vecSource (interp a xs) :: b.map EStep.toNode) := by
  rw [literal_chain_eq_interp, literal_chain_eq_interp, interp_append]

/-- the pipeline with no steps returns its source rows, in order -/
theorem literal_chain_no_steps (xs : List Val) : execSeq [vecSource xs] = .ok xs := by
  simpa using literal_chain_eq_interp xs []

/-- each operator the builders insert computes its step's list meaning on every partition -/
theorem operator_eq_step (s : EStep) (rows : List Val) : s.toOp.apply rows = s.eval rows :=
  toOp_apply s rows

/-- `BatchMapOp`'s chunk loop cuts exactly the positional batches `xs[i*n .. (i+1)*n)` -/
theorem chunks_positional (n : Nat) (hn : 1 ≤ n) (xs : List Val) :
    chunks n xs = (List.range ((xs.length + n - 1) / n)).map (fun i => (xs.drop (i * n)).take n) :=
  chunks_eq_batches n hn xs

/-! ## 2. planner semantics, pass by pass (generic in the partition type) -/

section planner
variable {P : Type}

/-- fusion keeps every operator exactly once and in order: no hypothesis, every chain -/
theorem fuse_sem (c : List (Node P)) : execSeq (fuse c) = execSeq c := fuse_sem' c

/-- … and the same under the parallel engine, for every concat and partition count -/
theorem fuse_sem_par (concat : List P → P) (c : List (Node P)) (n : Nat) :
    execPar concat (fuse c) n = execPar concat c n := fuse_sem_par' concat c n

/-- `lift_gbk_then_combine` is the identity on chains without a `gbk → combineValues(local_groups)` window -/
theorem liftGbk_id (c : List (Node P)) (h : NoLiftPair c) : liftGbk c = c :=
  liftGbk_of_noLiftPair c h

/-- `drop_mid_materialized` is the identity on chains without `Materialized` nodes -/
theorem dropMid_id (c : List (Node P)) (h : ∀ n ∈ c, Node.isMat n = false) : dropMid c = c :=
  dropMid_of_noMat c h

theorem dropMid_sem (c : List (Node P)) (h : ∀ n ∈ c, Node.isMat n = false) :
    execSeq (dropMid c) = execSeq c := by rw [dropMid_of_noMat c h]

/-- structure: the reorder pass only permutes a block (every operator kept exactly once) and never
    touches a block containing an operator without the three capability flags -/
theorem reorder_only_permutes_movable_blocks (ops : List (DynOp P)) :
    (reorderBlock ops).Perm ops ∧ (ops.all movable = false → reorderBlock ops = ops) :=
  ⟨reorderBlock_is_perm ops, reorderBlock_id_of_not_all_movable ops⟩

/-- PARTIAL (full claim `execSeq (reorder c) = execSeq c` is false, see `reorder_breaks_order`):
    when every all-movable block of the fused chain is already sorted by `(cost ≠ 1, cost)` the
    reorder pass changes nothing. -/
theorem reorder_sem_partial (c : List (Node P)) (h : ReorderInert c) : reorder (fuse c) = fuse c :=
  reorder_of_inert (fuse c) h

/-- PARTIAL, weaker hypothesis: the pass may permute blocks as long as each permuted block computes
    the same function (e.g. the swapped operators commute). -/
theorem reorder_sem_commuting_partial (c : List (Node P)) (h : CommutingChain c) :
    execSeq (reorder c) = execSeq c := reorder_sem_of_commuting c h

/-- PARTIAL: the whole planner preserves the sequential result of any chain on which the reorder
    pass is inert and the last two passes find no trigger. -/
theorem optimise_sem_partial (c : List (Node P)) (h : ReorderInert c) (hl : NoLiftPair (fuse c))
    (hm : ∀ n ∈ fuse c, Node.isMat n = false) : execSeq (optimise c) = execSeq c := by
  unfold optimise
  rw [reorder_of_inert _ h, liftGbk_of_noLiftPair _ hl, dropMid_of_noMat _ hm, fuse_sem']

/-- "custom stateless operators": the literal run of ANY chain `source; op₁; …; op_k` of arbitrary
    operators (any capability flags, any partition type) applies them in program order -/
theorem custom_ops_literal (w : P) (len : Nat) (split : Nat → List P) (ops : List (DynOp P)) :
    execSeq (.source w len split :: ops.map (fun o => .stateless [o]))
      = .ok (ops.foldl (fun acc o => o.apply acc) w) := execSeq_singles w len split ops

/-- … and its planned run applies them in the order the reorder pass leaves the fused block in
    (= program order unless ALL of them claim the three capability flags and there are ≥ 2) -/
theorem custom_ops_planned (w : P) (len : Nat) (split : Nat → List P) (ops : List (DynOp P)) :
    execSeq (optimise (.source w len split :: ops.map (fun o => .stateless [o])))
      = .ok ((reorderBlock ops).foldl (fun acc o => o.apply acc) w) :=
  execSeq_optimise_singles w len split ops

end planner

/-! ## 3. the planned element-wise chain, sequential mode -/

/-- UNCONDITIONAL: what the planned sequential run of ANY element-wise program computes — all
    operators fused into one block, applied in the order the reorder pass leaves them in. -/
theorem planned_seq_characterisation (xs : List Val) (steps : List EStep) :
    execSeq (optimise (vecSource xs :: steps.map EStep.toNode))
      = .ok (applyOps (reorderBlock (steps.map EStep.toOp)) xs) :=
  planned_seq_eq xs steps

/-- UNCONDITIONAL, in terms of the independent interpretation only: the planned run of ANY
    element-wise program is the list interpretation of its steps in `plannerOrder` — the program
    itself unless all steps are value-only and there are at least two, in which case all
    `filter_values` run first, then all `map_values_batches`, then all `map_values` (each class in
    program order: the sort is stable). This is the complete description of what the code computes. -/
theorem planned_eq_interp_plannerOrder (xs : List Val) (steps : List EStep) :
    execSeq (optimise (vecSource xs :: steps.map EStep.toNode)) = .ok (interp (plannerOrder steps) xs) :=
  planned_seq_eq_interp_plannerOrder xs steps

/-- the exact boundary of the property: planned = as written iff the planner's order gives the same rows -/
theorem planned_eq_interp_iff (xs : List Val) (steps : List EStep) :
    execSeq (optimise (vecSource xs :: steps.map EStep.toNode)) = .ok (interp steps xs)
      ↔ interp (plannerOrder steps) xs = interp steps xs := by
  rw [planned_eq_interp_plannerOrder]
  exact ⟨fun h => Except.ok.inj h, fun h => congrArg Except.ok h⟩

/-- "no step is dropped or duplicated" holds unconditionally: the planner's order is a permutation
    of the program (only "in order" can fail) -/
theorem plannerOrder_is_permutation (steps : List EStep) : (plannerOrder steps).Perm steps :=
  plannerOrder_perm steps

/-- for an element-wise program `ReorderInert` speaks about one block: the list of all its operators -/
theorem reorderInert_iff (xs : List Val) (steps : List EStep) :
    ReorderInert (vecSource xs :: steps.map EStep.toNode) ↔ BlockInert (steps.map EStep.toOp) :=
  reorderInert_elemChain_iff xs steps

/-- … and that block condition read on the steps themselves: if ALL steps are value-only and there
    are at least two, their classes (filter_values 0 < map_values_batches 1 < map_values 2) ascend -/
theorem reorderInert_iff_ranks_sorted (xs : List Val) (steps : List EStep) :
    ReorderInert (vecSource xs :: steps.map EStep.toNode) ↔
      ((steps.all EStep.isValueOnly && decide (steps.length > 1)) = true →
        steps.Pairwise (fun a b => a.rank ≤ b.rank)) := by
  rw [reorderInert_iff, blockInert_toOp_iff]

/-- attribution: with the reorder pass skipped (`optimiseNoReorder`), the FULL statement holds —
    every element-wise program, every input -/
theorem noReorder_eq_interp (xs : List Val) (steps : List EStep) :
    execSeq (optimiseNoReorder (vecSource xs :: steps.map EStep.toNode)) = .ok (interp steps xs) :=
  noReorder_seq_eq_interp xs steps

/-- PARTIAL (needs `ReorderInert`; without it the claim is false — `reorder_breaks_order`):
    the planned run returns exactly the steps as written, in order. -/
theorem planned_eq_interp_partial (xs : List Val) (steps : List EStep)
    (h : ReorderInert (vecSource xs :: steps.map EStep.toNode)) :
    execSeq (optimise (vecSource xs :: steps.map EStep.toNode)) = .ok (interp steps xs) :=
  planned_seq_of_inert xs steps h

/-- PARTIAL, weaker hypothesis: the block in the planner's order computes the same function. -/
theorem planned_eq_interp_commuting_partial (xs : List Val) (steps : List EStep)
    (h : ∀ rows, applyOps (reorderBlock (steps.map EStep.toOp)) rows = interp steps rows) :
    execSeq (optimise (vecSource xs :: steps.map EStep.toNode)) = .ok (interp steps xs) := by
  rw [planned_seq_characterisation, h]

/-- a program with at least one step that is not `map_values/filter_values/map_values_batches` is
    always `ReorderInert` (the fused block is not all-movable), so for it planned = interp outright -/
theorem planned_eq_interp_of_nonvalue_step (xs : List Val) (steps : List EStep)
    (h : ∃ s ∈ steps, s.isValueOnly = false) :
    execSeq (optimise (vecSource xs :: steps.map EStep.toNode)) = .ok (interp steps xs) := by
  apply planned_eq_interp_partial
  rw [reorderInert_iff]
  intro hc
  obtain ⟨s, hs, hv⟩ := h
  simp only [Bool.and_eq_true, List.all_eq_true, List.mem_map, forall_exists_index, and_imp,
    forall_apply_eq_imp_iff₂] at hc
  have := hc.1 s hs
  rw [movable_toOp, hv] at this
  exact absurd this (by simp)

/-! ## 4. parallel mode: every partition count, the SEQUENCE (not just the multiset) -/

/-- `VecOpsImpl::split` loses, duplicates and reorders nothing, for EVERY requested partition count -/
theorem vecSplit_flatten (xs : List Val) (n : Nat) : (vecSplit xs n).flatten = xs :=
  vecSplit_flatten' xs n

/-- the `SubNodeOK List.flatten` contract of C01 for every element-wise node: the six plain steps
    always; the batch steps when the chunk function is element-wise -/
theorem elementwise_subNodeOK (s : EStep) (h : s.ParOK) : SubNodeOK List.flatten s.toNode :=
  toNode_subNodeOK s h

/-- the literal chain in parallel mode equals `interp`, for every partition count -/
theorem literal_par_eq_interp (xs : List Val) (steps : List EStep) (hp : ∀ s ∈ steps, s.ParOK)
    (n : Nat) :
    execPar List.flatten (vecSource xs :: steps.map EStep.toNode) n = .ok (interp steps xs) := by
  have := execPar_fuse_elemChain xs steps hp n
  rwa [fuse_sem_par'] at this

/-- UNCONDITIONAL: the planned parallel run of ANY element-wise program — the planner's block
    applied to each part of the split, parts appended in order. -/
theorem planned_par_characterisation (xs : List Val) (steps : List EStep) (n : Nat) :
    execPar List.flatten (optimise (vecSource xs :: steps.map EStep.toNode)) n
      = .ok (((vecSplit xs (clampParts n xs.length)).map
          (applyOps (reorderBlock (steps.map EStep.toOp)))).flatten) :=
  planned_par_eq xs steps n

/-- UNCONDITIONAL in the program (batch chunk functions element-wise): the planned parallel run, for
    every partition count, is the list interpretation of the steps in the planner's order. -/
theorem planned_par_eq_interp_plannerOrder (xs : List Val) (steps : List EStep)
    (hp : ∀ s ∈ steps, s.ParOK) (n : Nat) :
    execPar List.flatten (optimise (vecSource xs :: steps.map EStep.toNode)) n
      = .ok (interp (plannerOrder steps) xs) :=
  planned_par_plannerOrder_aux xs steps hp n

/-- PARTIAL (needs `ReorderInert`): planned parallel run = steps as written, for every partition count. -/
theorem planned_par_eq_interp_partial (xs : List Val) (steps : List EStep)
    (h : ReorderInert (vecSource xs :: steps.map EStep.toNode)) (hp : ∀ s ∈ steps, s.ParOK) :
    ∀ n, execPar List.flatten (optimise (vecSource xs :: steps.map EStep.toNode)) n
      = .ok (interp steps xs) :=
  fun n => planned_par_of_inert xs steps h hp n

/-! ## 5. the negation of the full statement (the value-only reorder) -/

/-- witness 1: `[(0,1),(0,2)].map_values(+1).filter_values(even)`: as written `[(0,2)]`; the planner
    runs the filter first: `[(0,3)]` (reproduced on the real crate: corpus case 0 of `c02.rs`) -/
theorem reorder_witness_filter :
    interp [.mapValues add1, .filterValues isEven] [kv 0 1, kv 0 2] = [kv 0 2] ∧
    execSeq (vecSource [kv 0 1, kv 0 2] :: [EStep.mapValues add1, .filterValues isEven].map EStep.toNode)
      = .ok [kv 0 2] ∧
    execSeq (optimise
        (vecSource [kv 0 1, kv 0 2] :: [EStep.mapValues add1, .filterValues isEven].map EStep.toNode))
      = .ok [kv 0 3] := by
  refine ⟨by decide, by rw [literal_chain_eq_interp]; exact congrArg Except.ok (by decide), ?_⟩
  rw [planned_seq_characterisation]
  simp only [List.map_cons, List.map_nil]
  rw [reorderBlock_pair_swap _ _ rfl rfl (by decide)]
  exact congrArg Except.ok (by decide)

/-- witness 2: `map_values(+1)` then a slice-summing `map_values_batches(2, …)` on values `[1,2,3]`:
    as written `[5,5,4]`, planned `[4,4,4]` (the batch operator has cost 2 < 3) -/
theorem reorder_witness_batch :
    interp [.mapValues add1, .mapValuesBatches 2 sumall] [kv 0 1, kv 0 2, kv 0 3]
      = [kv 0 5, kv 0 5, kv 0 4] ∧
    execSeq (optimise (vecSource [kv 0 1, kv 0 2, kv 0 3] ::
        [EStep.mapValues add1, .mapValuesBatches 2 sumall].map EStep.toNode))
      = .ok [kv 0 4, kv 0 4, kv 0 4] := by
  refine ⟨by decide, ?_⟩
  rw [planned_seq_characterisation]
  simp only [List.map_cons, List.map_nil]
  rw [reorderBlock_pair_swap _ _ rfl rfl (by decide)]
  exact congrArg Except.ok (by decide)

/-- NEGATION of the full sequential statement: the optimised plan does not always compute the steps
    as written. -/
theorem reorder_breaks_order :
    ∃ (steps : List EStep) (xs : List Val),
      execSeq (optimise (vecSource xs :: steps.map EStep.toNode)) ≠ .ok (interp steps xs) := by
  refine ⟨[.mapValues add1, .filterValues isEven], [kv 0 1, kv 0 2], ?_⟩
  rw [reorder_witness_filter.2.2, reorder_witness_filter.1]
  intro h
  exact absurd (Except.ok.inj h) (by decide)

/-- … and the same in parallel mode, for every partition count (the rows share one partition or not,
    the filter still sees the un-incremented value). -/
theorem reorder_breaks_order_par :
    ∃ (steps : List EStep) (xs : List Val), (∀ s ∈ steps, s.ParOK) ∧
      ∀ n, execPar List.flatten (optimise (vecSource xs :: steps.map EStep.toNode)) n
        ≠ .ok (interp steps xs) := by
  refine ⟨[.mapValues add1, .filterValues isEven], [kv 0 1, kv 0 2], ?_, ?_⟩
  · intro s hs
    simp only [List.mem_cons, List.not_mem_nil, or_false] at hs
    rcases hs with rfl | rfl <;> trivial
  · intro n
    rw [planned_par_characterisation, reorder_witness_filter.1]
    simp only [List.map_cons, List.map_nil]
    rw [reorderBlock_pair_swap _ _ rfl rfl (by decide)]
    -- whatever the split is, the parts append to the source and both operators are homomorphic
    have h1 := toOp_flatten (.filterValues isEven) trivial
    have h2 := toOp_flatten (.mapValues add1) trivial
    have : ∀ ps : List Part, (ps.map (applyOps [(EStep.filterValues isEven).toOp,
        (EStep.mapValues add1).toOp])).flatten
        = applyOps [(EStep.filterValues isEven).toOp, (EStep.mapValues add1).toOp] ps.flatten := by
      intro ps
      simp only [applyOps_cons, applyOps_nil]
      rw [h1, h2, List.map_map]
      rfl
    rw [this, vecSplit_flatten]
    intro h
    exact absurd (Except.ok.inj h) (by decide)

/-- the witnesses violate the hypothesis of the partial theorems (they are not vacuous escapes) -/
theorem witnesses_not_inert :
    ¬ ReorderInert (vecSource [kv 0 1, kv 0 2] ::
        [EStep.mapValues add1, .filterValues isEven].map EStep.toNode) ∧
    ¬ ReorderInert (vecSource [kv 0 1, kv 0 2, kv 0 3] ::
        [EStep.mapValues add1, .mapValuesBatches 2 sumall].map EStep.toNode) := by
  constructor <;> (rw [reorderInert_iff]; decide)

/-! ## 5b. "a pipeline that type-checks never ends in an internal type-mismatch panic"

`Proofs/ElementwiseTyped.lean`: partitions carry the `TypeId` tag of their element type, every
operator downcasts first (`none` = the `expect("…: expected Vec<…>")` panic). -/

/-- the literal run of a type-checked element-wise program never panics in a downcast, and returns
    the steps as written with the statically known result type -/
theorem no_type_panic_literal (t0 : Nat) (xs : List Val) (steps : List TStep)
    (h : WellTyped t0 steps) :
    execSeq (typedSource t0 xs :: (steps.map TStep.toOp).map (fun o => .stateless [o]))
      = .ok (some (finalType t0 steps, interp (steps.map TStep.step) xs)) := by
  unfold typedSource
  rw [custom_ops_literal, foldl_typed steps t0 xs h]

/-- PARTIAL (needs the reorder pass to be inert; false otherwise — `reorder_type_panic`) -/
theorem no_type_panic_planned_partial (t0 : Nat) (xs : List Val) (steps : List TStep)
    (h : WellTyped t0 steps) (hin : BlockInert (steps.map (fun s => s.step.toOp))) :
    execSeq (optimise (typedSource t0 xs :: (steps.map TStep.toOp).map (fun o => .stateless [o])))
      = .ok (some (finalType t0 steps, interp (steps.map TStep.step) xs)) := by
  unfold typedSource
  rw [custom_ops_planned, reorderBlock_of_inert _ ((blockInert_typed steps).mpr hin),
    foldl_typed steps t0 xs h]

/-- NEGATION: a type-checked program whose planned run panics in a downcast — a type-changing
    `map_values` (element type 0 → 1) followed by `filter_values` on the new type: the planner runs
    the filter first, on a partition that still holds the old type
    (the real crate: `FilterValuesOp: expected Vec<(K,V)>`), for EVERY input. -/
theorem reorder_type_panic :
    ∃ (t0 : Nat) (steps : List TStep), WellTyped t0 steps ∧ ∀ xs : List Val,
      execSeq (optimise (typedSource t0 xs :: (steps.map TStep.toOp).map (fun o => .stateless [o])))
        = .ok none := by
  refine ⟨0, [⟨0, 1, .mapValues add1⟩, ⟨1, 1, .filterValues isEven⟩], ⟨rfl, trivial, rfl, rfl, trivial⟩, ?_⟩
  intro xs
  unfold typedSource
  rw [custom_ops_planned]
  simp only [List.map_cons, List.map_nil]
  rw [reorderBlock_pair_swap _ _ rfl rfl (by decide)]
  rfl

/-! ## 6. table obligation (re-read from the running Rust code by `ibh tables` on every run) -/

/-- exactly `map_values`, `filter_values`, `map_values_batches` carry all three capability flags,
    with cost hints 3, 1, 2 — flip a flag or a cost in `collection.rs` and this stops building -/
theorem movable_builders :
    (Generated.opTable.filter (fun e => e.2.movable)).map (fun e => (e.1, e.2.cost))
      = [("map_values", 3), ("filter_values", 1), ("map_values_batches", 2)] := by decide

/-- every listed builder, with its movability: all others are NOT movable -/
theorem builder_movability_table :
    Generated.opTable.map (fun e => (e.1, e.2.movable))
      = [("map", false), ("filter", false), ("flat_map", false), ("key_by", false),
         ("map_values", true), ("filter_values", true), ("map_batches", false),
         ("map_values_batches", true)] := by decide

/-- the model's operators carry exactly these flags: an element-wise operator is movable iff it is
    one of the three value-only builders … -/
theorem movable_iff_valueOnly (s : EStep) : movable s.toOp = s.isValueOnly := movable_toOp s

/-- … and the sort keys `(cost ≠ 1, cost)` order them filter_values < map_values_batches < map_values -/
theorem value_op_sort_keys (f : Val → Val) (p : Val → Bool) (n : Nat) (g : List Val → List Val) :
    sortKey (EStep.filterValues p).toOp = (0, 1) ∧
    sortKey (EStep.mapValuesBatches n g).toOp = (1, 2) ∧
    sortKey (EStep.mapValues f).toOp = (1, 3) := ⟨rfl, rfl, rfl⟩

/-! ## 7. the functions the driver evaluates in the correspondence check

`runLiteral / runSeq / runPar / runSeqNoReorder` of `Model/Program.lean` are what `ibdriver` runs on
every `PIPE` request; for programs made of the element-wise `Step`s (`toESteps steps = some es`) they
are instances of the theorems above. -/

theorem runLiteral_eq_interp (src : List Val) (steps : List Step) (es : List EStep)
    (h : toESteps steps = some es) : runLiteral src steps = .ok (interp es src) := by
  unfold runLiteral
  rw [litChain_elementwise src steps es h]
  exact literal_chain_eq_interp src es

theorem runSeq_eq_interp_plannerOrder (src : List Val) (steps : List Step) (es : List EStep)
    (h : toESteps steps = some es) : runSeq src steps = .ok (interp (plannerOrder es) src) := by
  unfold runSeq
  rw [litChain_elementwise src steps es h]
  exact planned_eq_interp_plannerOrder src es

theorem runPar_eq_interp_plannerOrder (src : List Val) (steps : List Step) (es : List EStep)
    (h : toESteps steps = some es) (hp : ∀ s ∈ es, s.ParOK) (n : Nat) :
    runPar src steps n = .ok (interp (plannerOrder es) src) := by
  unfold runPar
  rw [litChain_elementwise src steps es h]
  exact planned_par_eq_interp_plannerOrder src es hp n

theorem runSeqNoReorder_eq_interp (src : List Val) (steps : List Step) (es : List EStep)
    (h : toESteps steps = some es) : runSeqNoReorder src steps = .ok (interp es src) := by
  unfold runSeqNoReorder
  rw [litChain_elementwise src steps es h]
  exact noReorder_eq_interp src es

/-- the library's element-wise chunk functions (`BatchFn.each f`) meet the parallel side condition -/
theorem each_parOK (n : Nat) (f : Fn) :
    (EStep.mapBatches n (BatchFn.each f).eval).ParOK ∧
    (EStep.mapValuesBatches n (BatchFn.each f).eval).ParOK := by
  refine ⟨⟨fun v => [f.eval v], fun c => ?_⟩, ⟨f.eval, fun _ => rfl⟩⟩
  show c.map f.eval = c.flatMap (fun v => [f.eval v])
  induction c with
  | nil => rfl
  | cons x c ih => simp [ih]

/-! ## 8. non-vacuity -/

/-- an all-movable block of three operators that is already in the planner's order is `ReorderInert`
    (the hypothesis holds although the pass's guard `all movable ∧ len > 1` is true) -/
example : ReorderInert (vecSource [kv 0 1, kv 1 2, kv 0 3] ::
    [EStep.filterValues isEven, .mapValuesBatches 2 sumall, .mapValues add1].map EStep.toNode) := by
  rw [reorderInert_iff]; decide

/-- a mixed 5-step program (keyed, type-changing, batch) is `ReorderInert` -/
example : ReorderInert (vecSource [.int 1, .int 2, .int 3] ::
    [EStep.map add1, .keyBy (fun v => .int (v.toInt % 2)), .mapValues add1, .filterValues isEven,
     .mapBatches 0 (fun c => c.flatMap (fun v => [v, v]))].map EStep.toNode) := by
  rw [reorderInert_iff]; decide

/-- … and the partial theorem then gives its concrete output, in both modes -/
example : ∀ n, execPar List.flatten (optimise (vecSource [.int 1, .int 2, .int 3] ::
    [EStep.map add1, .keyBy (fun v => .int (v.toInt % 2)), .mapValues add1, .filterValues isEven,
     .mapBatches 0 (fun c => c.flatMap (fun v => [v, v]))].map EStep.toNode)) n
    = .ok [kv 1 4, kv 1 4] := by
  intro n
  rw [planned_par_eq_interp_partial _ _ (by rw [reorderInert_iff]; decide)]
  · exact congrArg Except.ok (by decide)
  · intro s hs
    simp only [List.mem_cons, List.not_mem_nil, or_false] at hs
    rcases hs with rfl | rfl | rfl | rfl | rfl
    · trivial
    · trivial
    · trivial
    · trivial
    · exact ⟨fun v => [v, v], fun _ => rfl⟩

/-- a block that the pass DOES permute but whose operators commute satisfies the weaker hypothesis -/
example : ∀ rows, applyOps (reorderBlock ([EStep.mapValues add1, .filterValues (fun _ => true)].map EStep.toOp)) rows
    = interp [.mapValues add1, .filterValues (fun _ => true)] rows := by
  intro rows
  simp only [List.map_cons, List.map_nil]
  rw [reorderBlock_pair_swap _ _ rfl rfl (by decide)]
  have hf : ∀ l : List Val, l.filter (fun _ => true) = l :=
    fun l => List.filter_eq_self.mpr (by simp)
  simp [operator_eq_step, EStep.eval, hf]

/-- a library program of the driver is covered: corpus case 2 of `c02.rs` -/
example : toESteps [.map (.add 1), .filter .even, .flatMap .twice, .mapBatches 0 (.each (.mul 2))]
    = some [.map (Fn.add 1).eval, .filter Pred.even.eval, .flatMap FlatFn.twice.eval,
        .mapBatches 0 (BatchFn.each (.mul 2)).eval] := rfl

/-- a type-checked, type-changing program satisfying the hypotheses of `no_type_panic_planned_partial` -/
example : WellTyped 7 [⟨7, 8, .keyBy add1⟩, ⟨8, 8, .filterValues isEven⟩, ⟨8, 9, .mapValues add1⟩] ∧
    BlockInert ([(⟨7, 8, .keyBy add1⟩ : TStep), ⟨8, 8, .filterValues isEven⟩,
      ⟨8, 9, .mapValues add1⟩].map (fun s => s.step.toOp)) :=
  ⟨⟨rfl, trivial, rfl, rfl, rfl, trivial, trivial⟩, by decide⟩

/-- the contract hypotheses of the planner lemmas hold for a real (non element-wise) chain -/
example : NoLiftPair [vecSource [kv 0 1], gbkNode, combineValuesNode (Comb.toCombiner .sum)] ∧
    (∀ n ∈ [vecSource [kv 0 1], gbkNode, combineValuesNode (Comb.toCombiner .sum)],
      Node.isMat n = false) := by
  refine ⟨by simp [NoLiftPair, vecSource, gbkNode, combineValuesNode], ?_⟩
  intro n hn
  simp only [List.mem_cons, List.not_mem_nil, or_false] at hn
  rcases hn with rfl | rfl | rfl <;> rfl

/-! ## 9. `collect_fail_fast` (round 3) — the fail-fast terminal of a `Result` collection

`Model/ProgramTerm.lean::failFast` is the loop of `helpers/try_process.rs::collect_fail_fast` (which ALWAYS collects
sequentially); the driver evaluates it on every `PIPEX … term=fail_fast` request. The code returns
`Err(anyhow!("element failed: {e}"))` for the FIRST `Err(e)` in sequence order. -/

/-- `Ok(all values, in order)` iff no element failed -/
theorem fail_fast_ok_iff (rows vs : List Val) :
    failFast rows = .ok vs ↔ (∀ r ∈ rows, isErrRow r = false) ∧ vs = rows.map Val.value :=
  failFast_ok_iff rows vs

/-- `Err` iff some element failed, and then it is the error of the FIRST failing element in sequence order
    (everything before it is `Ok`), rendered `"element failed: <e>"` -/
theorem fail_fast_first_error (rows : List Val) (m : Val) :
    failFast rows = .error m ↔
      ∃ pre r post, rows = pre ++ r :: post ∧ (∀ x ∈ pre, isErrRow x = false) ∧ isErrRow r = true ∧
        m = failMsg r.value :=
  failFast_error_iff rows m

/-- the loop is `List.mapM` in the `Except` monad -/
theorem fail_fast_is_mapM (rows : List Val) : failFast rows = rows.mapM resultOf := failFast_eq_mapM rows

theorem plannerOrder_of_nonvalue (steps : List EStep) (h : ∃ s ∈ steps, s.isValueOnly = false) :
    plannerOrder steps = steps := by
  unfold plannerOrder
  obtain ⟨s, hs, hv⟩ := h
  have : steps.all EStep.isValueOnly = false := by
    rw [List.all_eq_false]
    exact ⟨s, hs, by simp [hv]⟩
  simp [this]

/-- **`try_map` then `collect_fail_fast`, for the programs the driver runs**: after ANY element-wise program
    `pre`, the terminal returns `tryMapSpec p rows` (`Proofs/Terminals.lean`): all rows of `pre` when every one
    passes the predicate, and otherwise `Err("element failed: bad:<to_int x>")` for the FIRST row `x` (in the
    order `pre` produces them, as written — a `try_map` stops the planner's reorder pass) that does not. -/
theorem collect_fail_fast_after_try_map (src : List Val) (pre : List Step) (es : List EStep) (p : Pred)
    (h : toESteps pre = some es) :
    (runSeq src (pre ++ [.tryMapP p])).map failFast =
      .ok (tryMapSpec p (interp es src)) := by
  have h2 := toESteps_snoc pre es (.tryMapP p) (.map (tryPF p)) h rfl
  rw [runSeq_eq_interp_plannerOrder src _ _ h2,
    plannerOrder_of_nonvalue _ ⟨.map (tryPF p), by simp, rfl⟩, interp_append]
  show Except.ok (failFast ((interp es src).map (tryPF p))) = _
  rw [failFast_tryPF]

/-- the same over a PARALLEL collect, for every partition count (batch chunk functions element-wise): the
    user-level fail-fast loop over `collect_par` finds the same first error -/
theorem collect_fail_fast_after_try_map_par (src : List Val) (pre : List Step) (es : List EStep) (p : Pred)
    (h : toESteps pre = some es) (hp : ∀ s ∈ es, s.ParOK) (n : Nat) :
    (runPar src (pre ++ [.tryMapP p]) n).map failFast =
      .ok (tryMapSpec p (interp es src)) := by
  have h2 := toESteps_snoc pre es (.tryMapP p) (.map (tryPF p)) h rfl
  have hp2 : ∀ s ∈ es ++ [EStep.map (tryPF p)], s.ParOK := by
    intro s hs
    simp only [List.mem_append, List.mem_singleton] at hs
    rcases hs with hs | rfl
    · exact hp s hs
    · trivial
  rw [runPar_eq_interp_plannerOrder src _ _ h2 hp2 n,
    plannerOrder_of_nonvalue _ ⟨.map (tryPF p), by simp, rfl⟩, interp_append]
  show Except.ok (failFast ((interp es src).map (tryPF p))) = _
  rw [failFast_tryPF]

/-- non-vacuity / witnesses: only the LAST element fails; the first of two failures is reported -/
example : (runSeq [.int 2, .int 4, .int 6, .int 7] [.tryMapP .even]).map failFast
    = .ok (.error (.str "element failed: bad:7")) := by rfl
example : (runSeq [.int 2, .int 3, .int 4, .int 5] [.tryMapP .even]).map failFast
    = .ok (.error (.str "element failed: bad:3")) := by rfl
example : (runPar [.int 2, .int 4, .int 6] [.map (.add 2), .tryMapP .even] 2).map failFast
    = .ok (.ok [.int 4, .int 6, .int 8]) := by rfl

/-! ## 10. the typed run the driver evaluates on `PIPEW` requests (round 3)

The harness has a second Rust element type `W` (a newtype over `V`) and type-changing steps; the driver runs
`typedChain t0 xs steps` (`Proofs/TypedRun.lean`; `= typedSource t0 xs :: one Stateless [typedOp tin tout op] per
step`, the chain of `no_type_panic_literal` / `no_type_panic_planned_partial` / `reorder_type_panic` above)
through `optimise` and `execSeq` / `execPar concatT`, and model and real engine must agree — including `PANIC`. -/

/-- the chain the driver builds is the chain section 5b speaks about -/
theorem typed_run_chain (t0 : Nat) (xs : List Val) (steps : List TStep) :
    typedChain t0 xs steps = typedSource t0 xs :: (steps.map TStep.toOp).map (fun o => .stateless [o]) := rfl

/-- **mode independence of the typed run** (no type-check hypothesis): for every partition count the parallel
    run returns what the sequential run returns — the same rows and element type, or the same downcast panic -/
theorem typed_run_mode_independent (t0 : Nat) (xs : List Val) (steps : List TStep)
    (hp : ∀ s ∈ steps, s.step.ParOK) (n : Nat) :
    execPar concatT (optimise (typedChain t0 xs steps)) n = execSeq (optimise (typedChain t0 xs steps)) :=
  typed_par_eq_seq t0 xs steps hp n

/-- PARTIAL (needs the reorder pass to be inert — `reorder_type_panic_every_mode` otherwise): a type-checked
    program never panics in a downcast, in either mode, for any partition count, and returns the steps as written
    with the statically known element type -/
theorem typed_run_no_panic_partial (t0 : Nat) (xs : List Val) (steps : List TStep)
    (h : WellTyped t0 steps) (hin : BlockInert (steps.map (fun s => s.step.toOp)))
    (hp : ∀ s ∈ steps, s.step.ParOK) :
    execSeq (optimise (typedChain t0 xs steps)) = .ok (some (finalType t0 steps, interp (steps.map TStep.step) xs)) ∧
    ∀ n, execPar concatT (optimise (typedChain t0 xs steps)) n
      = .ok (some (finalType t0 steps, interp (steps.map TStep.step) xs)) := by
  have hs := no_type_panic_planned_partial t0 xs steps h hin
  rw [← typed_run_chain] at hs
  exact ⟨hs, fun n => by rw [typed_par_eq_seq t0 xs steps hp n, hs]⟩

/-- NEGATION in every mode: the type-changing `map_values` followed by `filter_values` on the new type panics for
    EVERY input (the empty one included) sequentially and for every partition count -/
theorem reorder_type_panic_every_mode :
    ∃ (t0 : Nat) (steps : List TStep), WellTyped t0 steps ∧ ∀ (xs : List Val),
      execSeq (optimise (typedChain t0 xs steps)) = .ok none ∧
      ∀ n, execPar concatT (optimise (typedChain t0 xs steps)) n = .ok none := by
  refine ⟨0, [⟨0, 1, .mapValues add1⟩, ⟨1, 1, .filterValues isEven⟩], ⟨rfl, trivial, rfl, rfl, trivial⟩, ?_⟩
  intro xs
  have hs : execSeq (optimise (typedChain 0 xs [⟨0, 1, .mapValues add1⟩, ⟨1, 1, .filterValues isEven⟩])) = .ok none := by
    rw [typed_run_chain]
    unfold typedSource
    rw [custom_ops_planned]
    simp only [List.map_cons, List.map_nil]
    rw [reorderBlock_pair_swap _ _ rfl rfl (by decide)]
    rfl
  refine ⟨hs, fun n => ?_⟩
  rw [typed_par_eq_seq _ _ _ (by intro s hs'; simp only [List.mem_cons, List.mem_nil_iff, or_false] at hs'; rcases hs' with rfl | rfl <;> trivial) n, hs]

end IB.C02
