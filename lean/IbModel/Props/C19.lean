import IbModel.Model.CloudGlob
import IbModel.Proofs.CloudGlob
import IbModel.Proofs.CloudGlobFloat
import IbModel.Generated.Tables
/-!
# C19 — cloud object JSONL round-trips; glob expansion follows the documented syntax

Property theorems only (helper lemmas are in `Proofs/CloudGlob.lean`). Strings are `List Char`.
The documented syntax is `Matches (tokenize pat) key`: the key is a concatenation of one piece per pattern
token, `*` ↦ a piece without `/`, `**` ↦ any piece, `?` ↦ exactly one character, any other character ↦ itself.

`Legacy.*` = the code at the pinned commit (before the two `fix:` commits); its negation witnesses and
`…_partial` theorems are at the end of each section.

## SCOPE ASSUMPTION of the round-trip half (explicit, and checked on every run)

"Records … read back are unchanged" is stated for records that JSON can carry: **`x.de (x.ser r) = some r`**
(`Lawful.de_ser`; `serde_json::from_str(&serde_json::to_string(r)) == r`). That is a statement about the record
type and serde_json, not about ironbeam, and it is FALSE for a record holding a non-finite float: serde_json
writes NaN / ±∞ as `null` and returns `Ok`, so `write_cloud_jsonl_vec` returns `Ok`, and reading fails
(`null` where an `f64`/`f32` is expected) or silently yields `None` (where an `Option<f64>` is expected).
This is JSON's value space; no small, safe repair exists inside ironbeam (the writer would have to re-read
every line, or wrap the serialiser). What is proved instead of assumed away:

* `cloud_read_after_write` — with only the TEXT laws (`LawfulText`: a record is one non-blank line, the codecs
  invert, plain JSONL has no signature) reading what was written returns exactly `rs.mapM (de ∘ ser)`:
  an error if some record is not representable, else the representable images, in order;
* `cloud_roundtrip_iff` — hence `read (write key rs) = rs` **iff** every record of `rs` satisfies the scope
  assumption; `cloud_roundtrip` (all records, `Lawful`) and `cloud_roundtrip_scoped` are its corollaries;
* the assumption is decided for a float-bearing record type (`FRec` = `{x: f64, o: Option<f64>, v: Vec<f32>}`,
  `float_de_ser`): it holds exactly for the records all of whose floats are finite
  (`float_roundtrip_iff_finite`); `float_nonfinite_read_fails`, `float_nonfinite_option_becomes_none` state what
  happens outside (write `Ok`, read `Err` / `None`) — the documented behaviour the harness's separate
  non-finite stream compares model-vs-real (`CLOUDNF`), NOT judged by the round-trip oracle.

The harness validates every `Lawful` field on the real serde_json / codec crates per record type and reports
the counts in the evidence (`lawful:<type>:<field>=ok|VIOLATED`).
-/
namespace IB.CloudGlob

deriving instance DecidableEq for Except

/-! ## tables re-read from the running code on every run -/

/- NOT demanded: `IB.Generated.escapeSet = escapeChars`. A harmless additional escape in the code (say `\#`,
   which the regex crate reads as the literal `#`) must not break the check: what the translation needs is
   `EscOK` (every metacharacter is escaped, every escaped character may be escaped), demanded of the PROBED set
   in `escape_table_covers_meta`; the driver answers `GLOB2RE` with `globToRegexWith` on the probed set and head,
   the function `glob_regex_correct_generated` / `expand_exact_generated` are about. -/

/-- no ASCII character (other than the wildcards) is translated to anything but `c` or `\c` -/
theorem escape_table_no_odd : IB.Generated.escapeOdd = [] := by decide

/-- the running `glob_to_regex` starts its output with `(?s)^` -/
theorem regex_head_current : IB.Generated.regexHead = ['(', '?', 's', ')', '^'] := by decide

/-- table obligation: the probed escape set covers every regex metacharacter (the wildcards `*`, `?`
    never reach the escape test) and every escaped character is one for which `\c` means `c` -/
theorem escape_table_covers_meta : EscOK IB.Generated.escapeSet := by
  constructor
  · intro c hm h1 h2
    have hm' : c ∈ ['\\', '.', '+', '*', '?', '(', ')', '|', '[', ']', '{', '}', '^', '$'] := by
      simpa [isMeta] using hm
    have key : ∀ d ∈ ['\\', '.', '+', '*', '?', '(', ')', '|', '[', ']', '{', '}', '^', '$'],
        d ≠ '*' → d ≠ '?' → d ∈ IB.Generated.escapeSet := by decide
    exact key c hm' h1 h2
  · decide

/-- the escape set written in the model (the one in the source text today) is fine as well -/
theorem escapeChars_ok : EscOK escapeChars := by
  constructor
  · intro c hm h1 h2
    have hm' : c ∈ ['\\', '.', '+', '*', '?', '(', ')', '|', '[', ']', '{', '}', '^', '$'] := by
      simpa [isMeta] using hm
    have key : ∀ d ∈ ['\\', '.', '+', '*', '?', '(', ')', '|', '[', ']', '{', '}', '^', '$'],
        d ≠ '*' → d ≠ '?' → d ∈ escapeChars := by decide
    exact key c hm' h1 h2
  · decide

/-! ## the reference matcher is the documented syntax -/

/-- the executable reference (also implemented independently in the harness oracle) decides exactly the
    declarative syntax -/
theorem globMatch_iff_documented (pat key : Str) :
    globMatch pat key = true ↔ Matches (tokenize pat) key := by
  rw [globMatch_eq_matchToks, matchToks_iff_matches]

/-- a run of two or more stars matches any text, a single star any text without `/` -/
example : Matches (tokenize "a/**/b*.c?".toList) "a/x/y/bz.cd".toList := by
  rw [← globMatch_iff_documented]; decide +kernel

example : ¬ Matches (tokenize "a/*/b".toList) "a/x/y/b".toList := by
  rw [← globMatch_iff_documented]; decide +kernel

/-! ### how `**` is read — and what the doc comment's "zero or more path segments" does and does not promise

The property says "`**` matches across segments"; the doc comment of `expand_cloud_glob` (readers.rs) says
"`**` matches zero or more path segments"; the doc comment of `glob_to_regex` says "`**` becomes `.*` (match
anything including path separators)". The reference fixes: **`**` stands for ANY text** (empty, part of a
segment, several segments), and the characters around it — also `/` — stand for themselves. Consequences,
proved below for all keys:

* whatever the doc comment promises under its literal reading is delivered: put zero or more whole path
  segments (joined by `/`) in the place of `**` and the key is accepted (`dstar_accepts_whole_segments`);
* `**` accepts more than whole segments (`a**b` accepts `axyb`), which the property's wording ("across
  segments") covers and the doc comment's does not mention;
* the `/` on either side of `**` are NOT absorbed: `a/**/b` accepts exactly the keys `a/` … `/b`, hence `a//b`
  (zero segments between the two separators) but not `a/b` (`dstar_slashes_are_literal`, `dstar_not_globstar`).
  Tools such as gitignore/globset give `/**/` the extra meaning "or a single `/`"; neither the property
  statement nor the doc comment promises that convention, and `glob_to_regex`'s own doc comment excludes it.
  It is therefore recorded as a wording ambiguity of the doc comment, not as a defect: the code, the model,
  the harness oracle and the property statement agree on the reading above. -/

/-- `**` between two literal (wildcard-free) texts: the key is the first text, ANY text, the second text -/
theorem dstar_any_text (a b k : Str) (ha : ∀ c ∈ a, isWild c = false) (hb : ∀ c ∈ b, isWild c = false) :
    globMatch (a ++ '*' :: '*' :: b) k = true ↔ ∃ m, k = a ++ m ++ b := by
  rw [globMatch_lit_append a _ k ha]
  constructor
  · rintro ⟨r, rfl, hr⟩
    obtain ⟨m, r', rfl, hr'⟩ := (globMatch_dstar b r).mp hr
    rw [globMatch_literal b r' hb] at hr'
    subst hr'
    exact ⟨m, by simp⟩
  · rintro ⟨m, rfl⟩
    refine ⟨m ++ b, by simp, (globMatch_dstar b _).mpr ⟨m, b, rfl, (globMatch_literal b b hb).mpr rfl⟩⟩

/-- the doc comment's sentence, literally: zero or more whole path segments in the place of `**` are accepted
    (`segs = []`: nothing at all stands there) -/
theorem dstar_accepts_whole_segments (a b : Str) (segs : List Str)
    (ha : ∀ c ∈ a, isWild c = false) (hb : ∀ c ∈ b, isWild c = false) :
    globMatch (a ++ '*' :: '*' :: b) (a ++ (['/'].intercalate segs) ++ b) = true :=
  (dstar_any_text a b _ ha hb).mpr ⟨_, rfl⟩

example : (['/'].intercalate ["x".toList, "y".toList] : Str) = "x/y".toList := by decide +kernel

/-- the separators around `**` stand for themselves: `a/**/b` accepts exactly `a/` ++ anything ++ `/b` -/
theorem dstar_slashes_are_literal (k : Str) :
    globMatch ['a', '/', '*', '*', '/', 'b'] k = true ↔ ∃ m, k = ['a', '/'] ++ m ++ ['/', 'b'] :=
  dstar_any_text ['a', '/'] ['/', 'b'] k (by decide) (by decide)

/-- … so the gitignore-style reading ("`a/**/b` also matches `a/b`") is NOT what is implemented or specified:
    `a/b` is rejected, `a//b`, `a/x/b`, `a/x/y/b` are accepted (witnesses; the harness corpus runs the same four
    keys through the real `expand_cloud_glob`) -/
theorem dstar_not_globstar :
    globMatch "a/**/b".toList "a/b".toList = false ∧ globMatch "a/**/b".toList "a//b".toList = true ∧
    globMatch "a/**/b".toList "a/x/b".toList = true ∧ globMatch "a/**/b".toList "a/x/y/b".toList = true ∧
    globMatch "a**b".toList "axyb".toList = true := by decide +kernel

/-- the one ambiguity of the prose — how to read a run of three or more stars — is harmless: `**` absorbs
    a neighbouring `*` on either side, so every way of cutting `***…` into `*`/`**` tokens accepts the
    same keys (the code cuts greedily from the left) -/
theorem star_run_insensitive (ts : List Tok) (k : Str) :
    (Matches (.dstar :: .star :: ts) k ↔ Matches (.dstar :: ts) k) ∧
    (Matches (.star :: .dstar :: ts) k ↔ Matches (.dstar :: ts) k) := by
  refine ⟨⟨?_, ?_⟩, ⟨?_, ?_⟩⟩
  · intro h
    cases h with
    | @cons _ _ s1 r1 _ h1 =>
      cases h1 with
      | @cons _ _ s2 r2 _ h2 =>
        rw [← List.append_assoc]
        exact .cons trivial h2
  · intro h
    cases h with
    | @cons _ _ s r _ h1 =>
      have : Matches (.star :: ts) ([] ++ r) := .cons (by simp [TokMatch]) h1
      exact .cons trivial this
  · intro h
    cases h with
    | @cons _ _ s1 r1 _ h1 =>
      cases h1 with
      | @cons _ _ s2 r2 _ h2 =>
        rw [← List.append_assoc]
        exact .cons trivial h2
  · intro h
    cases h with
    | @cons _ _ s r _ h1 =>
      have : Matches (.star :: .dstar :: ts) ([] ++ (s ++ r)) :=
        .cons (by simp [TokMatch]) (.cons trivial h1)
      simpa using this

/-! ## glob → regex is correct for every pattern and every key -/

/-- for every escape set that covers the metacharacters, the emitted text is inside the modelled regex
    fragment and parses to: dot-all, anchored at both ends, one item per token -/
theorem parse_globToRegexWith (esc : List Char) (he : EscOK esc) (pat : Str) :
    parseRegex (globToRegexWith esc ['(', '?', 's', ')', '^'] pat) =
      some { dotAll := true, anchorStart := true, items := (tokenize pat).map toItem, anchorEnd := true } := by
  unfold globToRegexWith parseRegex
  simp only [List.cons_append, List.nil_append, stripStart]
  rw [parseItems_emitAll esc he _ (wf_tokenize pat)]
  rfl

/-- the modelled matcher decides the language of the regex fragment (for a fully anchored regex, which is
    all `glob_to_regex` produces): backtracking over `x*` loses and invents nothing -/
theorem reMatch_iff_language (da : Bool) (is : List Item) (k : Str) :
    reMatch { dotAll := da, anchorStart := true, items := is, anchorEnd := true } k = true ↔ ItemsLang da is k := by
  simp only [reMatch, if_true]
  induction is generalizing k with
  | nil =>
    simp only [matchHere, if_true, List.isEmpty_iff]
    constructor
    · rintro rfl; exact .nil
    · intro h; cases h; rfl
  | cons i is ih =>
    cases i with
    | one a =>
      cases k with
      | nil =>
        simp only [matchHere]
        constructor
        · intro h; cases h
        · intro h; cases h
      | cons c k =>
        simp only [matchHere, Bool.and_eq_true, ih k]
        constructor
        · rintro ⟨h1, h2⟩; exact .one h1 h2
        · intro h; cases h with
          | one h1 h2 => exact ⟨h1, h2⟩
    | many a =>
      simp only [matchHere, manyLoop_eq_splitLoop, splitLoop_iff]
      constructor
      · rintro ⟨s, r, rfl, hs, hr⟩
        exact .many hs ((ih r).mp hr)
      · intro h
        cases h with
        | @many _ s _ r hs hr => exact ⟨s, r, rfl, hs, (ih r).mpr hr⟩

/-- **glob_regex_correct**: `Regex::new(glob_to_regex(pat))` succeeds and `is_match(key)` is exactly the
    reference matcher — for all patterns and keys (all Unicode scalar values, including `\n` and `/`). -/
theorem glob_regex_correct (pat key : Str) :
    (parseRegex (globToRegex pat)).map (fun re => reMatch re key) = some (globMatch pat key) := by
  unfold globToRegex
  rw [parse_globToRegexWith escapeChars escapeChars_ok pat]
  simp only [Option.map_some, reMatch, if_true, matchHere_toItems, globMatch_eq_matchToks]

/-- the same statement about the tables of the running code (escape set and head as probed) -/
theorem glob_regex_correct_generated (pat key : Str) :
    (parseRegex (globToRegexWith IB.Generated.escapeSet IB.Generated.regexHead pat)).map
      (fun re => reMatch re key) = some (globMatch pat key) := by
  rw [regex_head_current, parse_globToRegexWith _ escape_table_covers_meta pat]
  simp only [Option.map_some, reMatch, if_true, matchHere_toItems, globMatch_eq_matchToks]

/-- iff-form against the documented syntax -/
theorem glob_regex_iff_documented (pat key : Str) :
    ∃ re, parseRegex (globToRegex pat) = some re ∧ (reMatch re key = true ↔ Matches (tokenize pat) key) := by
  have h := glob_regex_correct pat key
  cases hp : parseRegex (globToRegex pat) with
  | none => simp [hp] at h
  | some re =>
    refine ⟨re, rfl, ?_⟩
    have : reMatch re key = globMatch pat key := by simpa [hp] using h
    rw [this, globMatch_iff_documented]

/-- an escape set that misses a metacharacter breaks the translation (what the table obligation guards):
    without `+` the pattern `a+` also accepts `aa`; without `(` the pattern `(` is not a regex at all -/
theorem escape_set_needed :
    (parseRegex (globToRegexWith (escapeChars.erase '(') ['(', '?', 's', ')', '^'] ['('])) = none ∧
    globMatch ['('] ['('] = true := by decide +kernel

/-! ## listing by prefix never hides a match -/

/-- **prefix_sound**: every key the pattern matches starts with the listing prefix -/
theorem prefix_sound (pat key p : Str) (hp : literalPrefix pat = some p) (hm : globMatch pat key = true) :
    p.isPrefixOf key = true := by
  rw [List.isPrefixOf_iff_prefix]
  have hpre := takeWhile_notWild_prefix pat key hm
  unfold literalPrefix at hp
  dsimp only at hp
  split at hp
  · rename_i hlen
    have : List.takeWhile (fun c => !isWild c) pat = pat :=
      (List.takeWhile_prefix _).eq_of_length hlen
    cases hp
    rwa [this] at hpre
  · split at hp
    · cases hp
    · cases hp; exact hpre

/-- the prefix is a literal prefix of the pattern: no wildcard inside, and the pattern starts with it -/
theorem prefix_literal (pat p : Str) (hp : literalPrefix pat = some p) :
    p <+: pat ∧ ∀ c ∈ p, isWild c = false := by
  unfold literalPrefix at hp
  dsimp only at hp
  split at hp
  · rename_i hlen
    have h : List.takeWhile (fun c => !isWild c) pat = pat :=
      (List.takeWhile_prefix _).eq_of_length hlen
    cases hp
    refine ⟨List.prefix_refl _, fun c hc => ?_⟩
    rw [← h] at hc
    simpa using mem_takeWhile_sat _ _ _ hc
  · split at hp
    · cases hp
    · cases hp
      exact ⟨List.takeWhile_prefix _, fun c hc => by simpa using mem_takeWhile_sat _ _ _ hc⟩

example : literalPrefix "logs/2024-*/x".toList = some "logs/2024-".toList := by decide +kernel
example : literalPrefix "*.jsonl".toList = none := by decide +kernel
example : literalPrefix "a/b".toList = some "a/b".toList := by decide +kernel

/-- **listing_never_hides**: `expand_cloud_glob` always reaches its one `list_objects` call (the regex always
    compiles), the argument is the literal prefix, and a store that honours the prefix still returns every
    key the documented syntax accepts. (The harness records the prefix the store really received and checks
    `prefix_sound` on THAT value with its own reference matcher.) -/
theorem listing_never_hides (keys : List Str) (pat : Str) :
    listedPrefix globToRegex pat = some (literalPrefix pat) ∧
    ∀ k ∈ keys, globMatch pat k = true → k ∈ listKeys keys (literalPrefix pat) := by
  constructor
  · unfold listedPrefix globToRegex
    rw [parse_globToRegexWith escapeChars escapeChars_ok pat]
    rfl
  · intro k hk hm
    cases hp : literalPrefix pat with
    | none => exact hk
    | some p => exact List.mem_filter.mpr ⟨hk, prefix_sound pat k p hp hm⟩

/-! ## expansion: exactly the matching keys, sorted -/

/-- `expand_cloud_glob` with ANY escape set that satisfies `EscOK`: never fails and returns the sorted list of
    exactly those keys of the bucket that the documented syntax accepts (the prefix listing drops nothing) -/
theorem expand_exact_with (esc : List Char) (he : EscOK esc) (keys : List Str) (pat : Str) :
    expandWith (globToRegexWith esc ['(', '?', 's', ')', '^']) keys pat =
      .ok (sortKeys (keys.filter (fun k => globMatch pat k))) := by
  have hparse := parse_globToRegexWith esc he pat
  unfold expandWith
  rw [hparse]
  simp only
  congr 2
  have hre : ∀ k, reMatch (Regex.mk true true ((tokenize pat).map toItem) true) k = globMatch pat k := by
    intro k
    simp only [reMatch, if_true, matchHere_toItems, globMatch_eq_matchToks]
  cases hp : literalPrefix pat with
  | none => exact List.filter_congr (fun k _ => hre k)
  | some p =>
    simp only [listKeys, List.filter_filter]
    apply List.filter_congr
    intro k _
    rw [hre k]
    cases hm : globMatch pat k with
    | false => rfl
    | true => simp [prefix_sound pat k p hp hm]

/-- **expand_exact**: the model's `expand_cloud_glob` (escape set as in today's source) … -/
theorem expand_exact (keys : List Str) (pat : Str) :
    expandGlob keys pat = .ok (sortKeys (keys.filter (fun k => globMatch pat k))) :=
  expand_exact_with escapeChars escapeChars_ok keys pat

/-- … and the same for the escape set and head PROBED from the running code on this run -/
theorem expand_exact_generated (keys : List Str) (pat : Str) :
    expandWith (globToRegexWith IB.Generated.escapeSet IB.Generated.regexHead) keys pat =
      .ok (sortKeys (keys.filter (fun k => globMatch pat k))) := by
  rw [regex_head_current]
  exact expand_exact_with _ escape_table_covers_meta keys pat

/-- the result is sorted in Rust `String` order … -/
theorem expand_sorted (keys ks : List Str) (pat : Str) (h : expandGlob keys pat = .ok ks) :
    ks.Pairwise (fun a b => strLe a b = true) := by
  rw [expand_exact] at h
  cases h
  exact sortKeys_pairwise _

/-- … contains exactly the matching keys … -/
theorem expand_mem (keys ks : List Str) (pat : Str) (h : expandGlob keys pat = .ok ks) (k : Str) :
    k ∈ ks ↔ k ∈ keys ∧ Matches (tokenize pat) k := by
  rw [expand_exact] at h
  cases h
  rw [← globMatch_iff_documented]
  simp [sortKeys, List.mem_mergeSort, List.mem_filter]

/-- … each as often as the bucket holds it (once: keys of a bucket are unique), so the order is strict -/
theorem expand_perm (keys ks : List Str) (pat : Str) (h : expandGlob keys pat = .ok ks) :
    ks.Perm (keys.filter (fun k => globMatch pat k)) := by
  rw [expand_exact] at h
  cases h
  exact sortKeys_perm _

theorem expand_strictly_sorted (keys ks : List Str) (pat : Str) (hk : keys.Nodup)
    (h : expandGlob keys pat = .ok ks) :
    ks.Pairwise (fun a b => strLe a b = true ∧ a ≠ b) := by
  have hs := expand_sorted keys ks pat h
  have hn : ks.Nodup := (expand_perm keys ks pat h).nodup_iff.mpr (hk.sublist List.filter_sublist)
  exact (hs.and hn).imp (fun h => h)

/-- **the model's key order IS Rust's `String` order**: `Vec<String>::sort` compares the UTF-8 bytes
    lexicographically; the model compares scalar values; the two agree on all strings (UTF-8 is order
    preserving — unlike UTF-16, where U+E000 sorts after U+10000) -/
theorem strLe_is_utf8_byte_order (a b : Str) : strLe a b = bytesLe (utf8s a) (utf8s b) :=
  strLe_eq_bytesLe a b

/-- table obligation: the model's `utf8` is the encoder of the running std on every sampled scalar value
    (all encoded-length boundaries ±1, the surrogate gap, a spread over the whole range) -/
theorem utf8_table_current : ∀ r ∈ IB.Generated.utf8Samples, utf8 (Char.ofNat r.1) = r.2 := by decide +kernel

/-- … and Lean's own encoder on the boundary values (witnesses) -/
example : ([0, 0x7f, 0x80, 0x7ff, 0x800, 0xd7ff, 0xe000, 0xffff, 0x10000, 0x10ffff].map Char.ofNat).all
    (fun c => utf8 c == (String.utf8EncodeChar c).map UInt8.toNat) = true := by decide +kernel

/-- the expansion is sorted in byte order -/
theorem expand_sorted_bytes (keys ks : List Str) (pat : Str) (h : expandGlob keys pat = .ok ks) :
    ks.Pairwise (fun a b => bytesLe (utf8s a) (utf8s b) = true) :=
  (expand_sorted keys ks pat h).imp (fun h => by rwa [← strLe_is_utf8_byte_order])

/-- the sorted list is unique: two sorted permutations of the same keys are equal, so "sorted and exactly
    the matching keys" determines the answer -/
theorem sorted_perm_unique (a b : List Str) (hp : a.Perm b)
    (ha : a.Pairwise (fun x y => strLe x y = true)) (hb : b.Pairwise (fun x y => strLe x y = true)) : a = b :=
  hp.eq_of_pairwise (fun x y _ _ h1 h2 => strLe_antisymm x y h1 h2) ha hb

/-- `expand_cloud_glob_required`: `NotFound` iff nothing matches, else the same list -/
theorem expandRequired_spec (keys : List Str) (pat : Str) :
    expandGlobRequired keys pat =
      (if keys.filter (fun k => globMatch pat k) = [] then .error .notFound
       else .ok (sortKeys (keys.filter (fun k => globMatch pat k)))) := by
  unfold expandGlobRequired
  rw [expand_exact]
  have hperm := sortKeys_perm (keys.filter (fun k => globMatch pat k))
  by_cases h : keys.filter (fun k => globMatch pat k) = []
  · rw [h]; simp [sortKeys]
  · rw [if_neg h]
    cases hs : sortKeys (keys.filter (fun k => globMatch pat k)) with
    | nil => rw [hs] at hperm; exact absurd hperm.symm.eq_nil h
    | cons a l => rfl

example : expandGlob ["b/x".toList, "a/y".toList, "a/x/z".toList, "c".toList] "*/?".toList
    = .ok ["a/y".toList, "b/x".toList] := by
  rw [expand_exact]
  have hf : ["b/x".toList, "a/y".toList, "a/x/z".toList, "c".toList].filter (fun k => globMatch "*/?".toList k)
      = ["b/x".toList, "a/y".toList] := by decide +kernel
  rw [hf]
  congr 1
  exact sorted_perm_unique _ _ ((sortKeys_perm _).trans (List.Perm.swap _ _ [])) (sortKeys_pairwise _)
    (by decide +kernel)

/-! ## pinned-commit regex (no `(?s)`): negation witness and the part that did hold -/

/-- at the pinned commit `?` did not match a `\n` in a key although the syntax says "any single character" -/
theorem legacy_newline_witness :
    (parseRegex (Legacy.globToRegex ['a', '?', 'c'])).map (fun re => reMatch re ['a', '\n', 'c']) = some false ∧
    globMatch ['a', '?', 'c'] ['a', '\n', 'c'] = true ∧
    Legacy.expandGlob [['a', '\n', 'c']] ['*', '*'] = .ok [] := by
  refine ⟨by decide +kernel, by decide +kernel, ?_⟩
  unfold Legacy.expandGlob expandWith
  have : parseRegex (Legacy.globToRegex ['*', '*']) =
      some { dotAll := false, anchorStart := true, items := [.many .dot], anchorEnd := true } := by decide +kernel
  rw [this]
  decide +kernel

theorem legacy_parse (pat : Str) :
    parseRegex (Legacy.globToRegex pat) =
      some { dotAll := false, anchorStart := true, items := (tokenize pat).map toItem, anchorEnd := true } := by
  have hshape : ∀ body : Str, parseRegex ('^' :: body) =
      (parseItems body).map (fun x => Regex.mk false true x.1 x.2) := fun _ => rfl
  unfold Legacy.globToRegex globToRegexWith
  simp only [List.cons_append, List.nil_append]
  rw [hshape, parseItems_emitAll escapeChars escapeChars_ok _ (wf_tokenize pat)]
  rfl

/-- full statement: `∀ pat key, Legacy regex matches key ↔ globMatch pat key` — false (witness above);
    what held: it is correct for keys without a line feed -/
theorem legacy_glob_regex_correct_partial (pat key : Str) (hk : '\n' ∉ key) :
    (parseRegex (Legacy.globToRegex pat)).map (fun re => reMatch re key) = some (globMatch pat key) := by
  rw [legacy_parse]
  simp only [Option.map_some, reMatch, if_true, matchHere_toItems_noNL _ _ hk, globMatch_eq_matchToks]

example : '\n' ∉ "logs/2024-01-01/data.jsonl".toList := by decide +kernel

/-! ## cloud JSONL round trip -/

section jsonl
variable {R β : Type}

/-- what is assumed of serde_json's TEXT and of the codecs (validated by the harness on the real crates per
    record type / per codec on every run, never proved) -/
structure LawfulText (x : Ext R β) : Prop where
  /-- a serialised record is one line … -/
  ser_no_nl : ∀ r, '\n' ∉ x.ser r
  /-- … that does not end in `\r` (which `lines()` would strip) … -/
  ser_no_cr : ∀ r, (x.ser r).getLast? ≠ some '\r'
  /-- … and is not blank (blank lines are skipped by the reader) -/
  ser_not_blank : ∀ r, blank (x.ser r) = false
  /-- each decoder inverts its encoder -/
  dec_enc : ∀ c t, x.dec c (x.enc c t) = some t
  /-- uncompressed JSONL does not start with a compression signature (JSON starts with one of
      `{ [ " - 0-9 t f n`; an empty object has no signature) -/
  magic_plain : ∀ rs, x.magic (x.enc .plain (jsonl x rs)) = none

/-- … plus the SCOPE ASSUMPTION on the record type: JSON can carry every record (see the file header; false
    for a type with a float field — `float_not_lawful`) -/
structure Lawful (x : Ext R β) : Prop extends LawfulText x where
  de_ser : ∀ r, x.de (x.ser r) = some r

/-! ### codec choice: the writer's `ends_with` chain, the reader's registry, the running code's table -/

/-- table obligation (re-checked on every run): the registry the model's reader consults is the one the
    RUNNING code registers — `IB.Generated.codecTable` is dumped by `c10.rs` through
    `compression::verif_codec_table()`: names, extensions and their order -/
theorem registry_current : registryOfTable IB.Generated.codecTable = some registry := by decide

/-- table obligation: the hard-coded chain of `write_cloud_jsonl_vec` lists the same codecs with the same
    extensions in the same order as the running registry (a codec or extension registered later, or
    removed, breaks this until the chain follows) -/
theorem writer_chain_is_table : registryOfTable IB.Generated.codecTable = some writerChain := by decide

/-- the transliterated `if / else if` chain is "first row of `writerChain` one of whose extensions is a suffix
    of the lower-cased key" -/
theorem writer_chain_as_data (key : Str) : writerCodec key = (extCodecWith writerChain key).getD .plain := by
  unfold writerCodec extCodecWith writerChain
  generalize lower key = s
  simp only [List.find?, List.any, Bool.or_false]
  cases endsWith s ['.', 'g', 'z'] <;> cases endsWith s ['.', 'g', 'z', 'i', 'p'] <;>
  cases endsWith s ['.', 'z', 's', 't'] <;> cases endsWith s ['.', 'z', 's', 't', 'd'] <;>
  cases endsWith s ['.', 'b', 'z', '2'] <;> cases endsWith s ['.', 'b', 'z', 'i', 'p', '2'] <;>
  cases endsWith s ['.', 'x', 'z'] <;> rfl

/-- **writer_agrees_with_reader**: the writer (the `ends_with` chain of the current code) chooses the codec
    exactly as the reader's extension detection does, for EVERY key (case variants, dot-files, keys whose
    directories look like archives, keys without a file name) — for whatever registry the running code dumps,
    as long as the two table obligations above hold -/
theorem writer_agrees_with_reader_generated (reg : List (Codec × List Str))
    (hreg : registryOfTable IB.Generated.codecTable = some reg) (key : Str) :
    writerCodec key = (extCodecWith reg key).getD .plain := by
  have : reg = writerChain := Option.some.inj (hreg.symm.trans writer_chain_is_table)
  rw [this]; exact writer_chain_as_data key

theorem writer_agrees_with_reader (key : Str) : writerCodec key = (extCodec key).getD .plain :=
  writer_agrees_with_reader_generated registry registry_current key

/-- the formulation used before the chain was transliterated ("the text after the last `.` of the lower-cased
    key names the codec") agrees with the reader too … -/
theorem lastDot_agrees_with_reader (key : Str) : writerCodecByLastDot key = (extCodec key).getD .plain := by
  unfold writerCodecByLastDot extCodec extCodecWith
  generalize lower key = s
  have iff := fun e (he : '.' ∉ e) => endsWith_dot_iff s e he
  cases h : rsplitDotExt s with
  | none =>
    have hno : ∀ e, '.' ∉ e → endsWith s ('.' :: e) = false := by
      intro e he
      cases hb : endsWith s ('.' :: e) with
      | false => rfl
      | true => rw [(iff e he).mp hb] at h; cases h
    simp [registry, List.find?, hno]
  | some e =>
    have hyes : ∀ x, '.' ∉ x → endsWith s ('.' :: x) = decide (e = x) := by
      intro x hx
      cases hb : endsWith s ('.' :: x) with
      | true =>
        have := (iff x hx).mp hb
        rw [h] at this
        cases this; simp
      | false =>
        have : ¬ e = x := by
          rintro rfl
          rw [(iff e hx).mpr h] at hb; cases hb
        simp [this]
    simp only [registry, List.find?, List.any, Option.bind, codecOfExtName]
    by_cases h1 : e = ['g', 'z'] <;> by_cases h2 : e = ['g', 'z', 'i', 'p'] <;>
    by_cases h3 : e = ['z', 's', 't'] <;> by_cases h4 : e = ['z', 's', 't', 'd'] <;>
    by_cases h5 : e = ['b', 'z', '2'] <;> by_cases h6 : e = ['b', 'z', 'i', 'p', '2'] <;>
    by_cases h7 : e = ['x', 'z'] <;> simp_all

/-- … hence it is the same function as the transliterated chain (so statements proved about either hold
    of the code's) -/
theorem writerCodec_eq_lastDot (key : Str) : writerCodec key = writerCodecByLastDot key := by
  rw [writer_agrees_with_reader, lastDot_agrees_with_reader]

/-- what a chain that tests the RAW key in one alternative would do (the second alternative of the bzip2
    branch, `key.ends_with(".bzip2")`): it disagrees with the reader on an upper-case key — the reason every
    extension is exercised in upper and mixed case by the harness -/
example : writerCodec "part-0.BZIP2".toList = .bzip2 ∧ extCodec "part-0.BZIP2".toList = some .bzip2 ∧
    endsWith "part-0.BZIP2".toList ".bzip2".toList = false := by decide +kernel

/-- the reader's text layer applied to the writer's: every record goes through `de ∘ ser`, in order; one
    failure fails the whole object (TEXT laws only — no assumption on `de ∘ ser`) -/
theorem parseJsonl_jsonl_gen (x : Ext R β) (hx : LawfulText x) (rs : List R) :
    parseJsonl x (jsonl x rs) = rs.mapM (fun r => x.de (x.ser r)) := by
  unfold parseJsonl
  induction rs with
  | nil => rfl
  | cons r rs ih =>
    have hsplit : jsonl x (r :: rs) = x.ser r ++ '\n' :: jsonl x rs := by simp [jsonl]
    rw [hsplit, splitLines_line _ _ (hx.ser_no_nl r)]
    simp only [List.map_cons, List.filter_cons, stripCR_eq _ (hx.ser_no_cr r), hx.ser_not_blank r,
      Bool.not_false, if_true, List.mapM_cons] at ih ⊢
    rw [ih]

/-- the reader's text layer inverts the writer's -/
theorem parseJsonl_jsonl (x : Ext R β) (hx : Lawful x) (rs : List R) : parseJsonl x (jsonl x rs) = some rs := by
  rw [parseJsonl_jsonl_gen x hx.toLawfulText]
  simpa using mapM_eq_some_map (fun r => x.de (x.ser r)) id rs (fun r _ => hx.de_ser r)

/-- what reading returns when the reader chooses the codec the writer chose, for ANY records -/
theorem cloud_read_after_write_of_agree (wc : Str → Codec) (x : Ext R β) (hx : LawfulText x) (s : Store β)
    (key : Str) (rs : List R) (hagree : readerCodec x key (x.enc (wc key) (jsonl x rs)) = wc key) :
    readObj x (writeObjWith wc x s key rs) key =
      match rs.mapM (fun r => x.de (x.ser r)) with
      | none => .error .internal
      | some out => .ok out := by
  unfold readObj writeObjWith
  rw [get_put_same]
  simp only [hagree, hx.dec_enc, parseJsonl_jsonl_gen x hx rs]
  cases rs.mapM (fun r => x.de (x.ser r)) <;> rfl

/-- **cloud_roundtrip (conditional form, any codec choice)**: whenever the codec the writer chose is the
    one the reader will choose for the stored object, the records come back unchanged and in order -/
theorem cloud_roundtrip_of_agree (wc : Str → Codec) (x : Ext R β) (hx : Lawful x) (s : Store β) (key : Str)
    (rs : List R) (hagree : readerCodec x key (x.enc (wc key) (jsonl x rs)) = wc key) :
    readObj x (writeObjWith wc x s key rs) key = .ok rs := by
  rw [cloud_read_after_write_of_agree wc x hx.toLawfulText s key rs hagree,
    mapM_eq_some_map (fun r => x.de (x.ser r)) id rs (fun r _ => hx.de_ser r)]
  simp

/-- the current writer always agrees with the reader (TEXT laws only) … -/
theorem reader_agrees (x : Ext R β) (hx : LawfulText x) (key : Str) (rs : List R) :
    readerCodec x key (x.enc (writerCodec key) (jsonl x rs)) = writerCodec key := by
  unfold readerCodec
  rw [writer_agrees_with_reader]
  cases h : extCodec key with
  | some c => rfl
  | none => simp [hx.magic_plain rs]

/-- **cloud_read_after_write** (no scope assumption): for EVERY key and EVERY record vector, reading what
    `write_cloud_jsonl_vec` stored returns each record's `de (ser r)` image, in order, and fails as a whole
    (`InternalError`) exactly when one record has none — the write itself never fails. Covers the records
    outside JSON's value space (non-finite floats): `float_nonfinite_read_fails`,
    `float_nonfinite_option_becomes_none` -/
theorem cloud_read_after_write (x : Ext R β) (hx : LawfulText x) (s : Store β) (key : Str) (rs : List R) :
    readObj x (writeObj x s key rs) key =
      match rs.mapM (fun r => x.de (x.ser r)) with
      | none => .error .internal
      | some out => .ok out :=
  cloud_read_after_write_of_agree writerCodec x hx s key rs (reader_agrees x hx key rs)

/-- **cloud_roundtrip_iff** (the property's first sentence at full strength, with its scope made explicit):
    for every key — with or without a compression extension, any letter case, dot-file or not — and every
    record vector, `read(write(key, rs)) = rs` holds IF AND ONLY IF every record of `rs` is one JSON can
    carry (`de (ser r) = some r`) -/
theorem cloud_roundtrip_iff (x : Ext R β) (hx : LawfulText x) (s : Store β) (key : Str) (rs : List R) :
    readObj x (writeObj x s key rs) key = .ok rs ↔ ∀ r ∈ rs, x.de (x.ser r) = some r := by
  rw [cloud_read_after_write x hx, ← mapM_eq_some_self_iff]
  cases h : rs.mapM (fun r => x.de (x.ser r)) with
  | none => simp
  | some out =>
    constructor
    · intro e; cases e; rfl
    · intro e; cases e; rfl

/-- the "if" direction, as used: records inside the scope come back unchanged and in order -/
theorem cloud_roundtrip_scoped (x : Ext R β) (hx : LawfulText x) (s : Store β) (key : Str) (rs : List R)
    (hrs : ∀ r ∈ rs, x.de (x.ser r) = some r) : readObj x (writeObj x s key rs) key = .ok rs :=
  (cloud_roundtrip_iff x hx s key rs).mpr hrs

/-- **cloud_roundtrip**: for a record type that satisfies the scope assumption throughout (`Lawful`), EVERY
    key and every record vector: `read(write(key, rs)) = rs` -/
theorem cloud_roundtrip (x : Ext R β) (hx : Lawful x) (s : Store β) (key : Str) (rs : List R) :
    readObj x (writeObj x s key rs) key = .ok rs :=
  cloud_roundtrip_scoped x hx.toLawfulText s key rs (fun r _ => hx.de_ser r)

/-- writing one object does not disturb the others -/
theorem write_frame (x : Ext R β) (s : Store β) (key k' : Str) (rs : List R) (h : k' ≠ key) :
    readObj x (writeObj x s key rs) k' = readObj x s k' := by
  unfold readObj writeObj writeObjWith
  rw [get_put_other _ _ _ _ h]

/-- `read_cloud_jsonl_glob` = concatenation, in sorted key order, of the contents of exactly the matching
    objects (`content k` = what reading object `k` returns) -/
theorem readAll_ok (x : Ext R β) (s : Store β) (content : Str → List R) (ks : List Str)
    (h : ∀ k ∈ ks, readObj x s k = .ok (content k)) : readAll x s ks = .ok (ks.flatMap content) := by
  induction ks with
  | nil => rfl
  | cons k ks ih =>
    simp only [readAll, h k (by simp), ih (fun k' hk' => h k' (by simp [hk'])), List.flatMap_cons]

theorem readGlob_spec (x : Ext R β) (s : Store β) (content : Str → List R) (pat : Str)
    (h : ∀ k ∈ keysOf s, globMatch pat k = true → readObj x s k = .ok (content k)) :
    readGlob x s pat = .ok ((sortKeys ((keysOf s).filter (fun k => globMatch pat k))).flatMap content) := by
  unfold readGlob
  rw [expand_exact]
  simp only
  apply readAll_ok
  intro k hk
  have hk' : k ∈ (keysOf s).filter (fun k => globMatch pat k) := (sortKeys_perm _).mem_iff.mp hk
  have := List.mem_filter.mp hk'
  exact h k this.1 this.2

/-- reading a key that later writes do not touch -/
theorem readObj_writeAll_other (x : Ext R β) (s : Store β) (objs : List (Str × List R)) (k : Str)
    (hk : k ∉ objs.map (·.1)) : readObj x (writeAll x s objs) k = readObj x s k := by
  induction objs generalizing s with
  | nil => rfl
  | cons o os ih =>
    have h1 : k ≠ o.1 := fun e => hk (by simp [e])
    have h2 : k ∉ os.map (·.1) := fun hm => hk (by simp only [List.map_cons, List.mem_cons]; exact Or.inr hm)
    simp only [writeAll]
    rw [ih _ h2, write_frame x s o.1 k o.2 h1]

/-- after writing several objects under distinct keys, each one reads back unchanged (records in scope) -/
theorem readObj_writeAll_scoped (x : Ext R β) (hx : LawfulText x) (s : Store β) (objs : List (Str × List R))
    (hrep : ∀ o ∈ objs, ∀ r ∈ o.2, x.de (x.ser r) = some r)
    (hnd : (objs.map (·.1)).Nodup) (o : Str × List R) (ho : o ∈ objs) :
    readObj x (writeAll x s objs) o.1 = .ok o.2 := by
  induction objs generalizing s with
  | nil => cases ho
  | cons p os ih =>
    simp only [List.map_cons, List.nodup_cons] at hnd
    simp only [writeAll]
    rcases List.mem_cons.mp ho with rfl | ho
    · rw [readObj_writeAll_other x _ os o.1 hnd.1]
      exact cloud_roundtrip_scoped x hx s o.1 o.2 (hrep o (by simp))
    · exact ih _ (fun q hq => hrep q (by simp [hq])) hnd.2 ho

theorem readObj_writeAll (x : Ext R β) (hx : Lawful x) (s : Store β) (objs : List (Str × List R))
    (hnd : (objs.map (·.1)).Nodup) (o : Str × List R) (ho : o ∈ objs) :
    readObj x (writeAll x s objs) o.1 = .ok o.2 :=
  readObj_writeAll_scoped x hx.toLawfulText s objs (fun _ _ r _ => hx.de_ser r) hnd o ho

theorem keysOf_writeAll (x : Ext R β) (s : Store β) (objs : List (Str × List R))
    (hnd : (keysOf s ++ objs.map (·.1)).Nodup) :
    keysOf (writeAll x s objs) = keysOf s ++ objs.map (·.1) := by
  induction objs generalizing s with
  | nil => simp [writeAll]
  | cons p os ih =>
    have hp : p.1 ∉ keysOf s := by
      intro hm
      have := (List.nodup_append.mp hnd).2.2 p.1 hm p.1 (by simp)
      exact this rfl
    have hk : keysOf (writeObj x s p.1 p.2) = keysOf s ++ [p.1] := by
      unfold writeObj writeObjWith
      rw [keysOf_put]
      congr 1
      apply List.filter_eq_self.mpr
      intro a ha
      have : a ≠ p.1 := fun e => hp (e ▸ ha)
      simpa using this
    simp only [writeAll]
    rw [ih]
    · rw [hk]; simp
    · rw [hk]; simpa using hnd

/-- **glob_read_roundtrip** (the property's second sentence, end to end): write any family of record vectors
    (every record inside the scope) under pairwise distinct keys (any extensions), read by any glob: the result
    is the concatenation, in sorted key order, of the records of exactly those objects whose keys the
    documented syntax accepts -/
theorem glob_read_roundtrip_scoped (x : Ext R β) (hx : LawfulText x) (objs : List (Str × List R))
    (hrep : ∀ o ∈ objs, ∀ r ∈ o.2, x.de (x.ser r) = some r)
    (hnd : (objs.map (·.1)).Nodup) (content : Str → List R) (hc : ∀ o ∈ objs, content o.1 = o.2) (pat : Str) :
    readGlob x (writeAll x [] objs) pat =
      .ok ((sortKeys ((objs.map (·.1)).filter (fun k => globMatch pat k))).flatMap content) := by
  have hkeys : keysOf (writeAll x ([] : Store β) objs) = objs.map (·.1) := by
    have := keysOf_writeAll x ([] : Store β) objs (by simpa [keysOf] using hnd)
    simpa [keysOf] using this
  rw [readGlob_spec x _ content pat, hkeys]
  intro k hk _
  rw [hkeys] at hk
  obtain ⟨o, ho, rfl⟩ := List.mem_map.mp hk
  rw [readObj_writeAll_scoped x hx [] objs hrep hnd o ho, hc o ho]

/-- the same for a record type that satisfies the scope assumption throughout -/
theorem glob_read_roundtrip (x : Ext R β) (hx : Lawful x) (objs : List (Str × List R))
    (hnd : (objs.map (·.1)).Nodup) (content : Str → List R) (hc : ∀ o ∈ objs, content o.1 = o.2) (pat : Str) :
    readGlob x (writeAll x [] objs) pat =
      .ok ((sortKeys ((objs.map (·.1)).filter (fun k => globMatch pat k))).flatMap content) :=
  glob_read_roundtrip_scoped x hx.toLawfulText objs (fun _ _ r _ => hx.de_ser r) hnd content hc pat

/-- the hypotheses are satisfiable: the toy serialiser/codec below is lawful, and on it a dot-file key
    round-trips (non-vacuity of `cloud_roundtrip`) -/
def toyExt : Ext Nat (Codec × Str) where
  ser n := List.replicate (n + 1) 'x'
  de l := if l.all (· == 'x') ∧ l ≠ [] then some (l.length - 1) else none
  enc c t := (c, t)
  dec c b := if b.1 = c then some b.2 else none
  magic b := if b.1 = .plain then none else some b.1

theorem toyExt_lawful : Lawful toyExt where
  ser_no_nl r := by simp [toyExt, List.mem_replicate]
  ser_no_cr r := by
    simp only [toyExt, List.getLast?_replicate]
    simp
  ser_not_blank r := by
    simp only [toyExt, blank, List.replicate_succ, List.all_cons]
    have : isWhite 'x' = false := by decide +kernel
    simp [this]
  de_ser r := by
    simp only [toyExt]
    have h1 : (List.replicate (r + 1) 'x').all (fun c => c == 'x') = true := by simp [List.all_replicate]
    have h2 : List.replicate (r + 1) 'x' ≠ [] := by simp [List.replicate_succ]
    simp [h1, h2]
  dec_enc c t := by simp [toyExt]
  magic_plain rs := by simp [toyExt]

example : readObj toyExt (writeObj toyExt [] "dir/.gz".toList [3, 0, 1]) "dir/.gz".toList = .ok [3, 0, 1] :=
  cloud_roundtrip toyExt toyExt_lawful [] _ _

example : readObj toyExt (writeObj toyExt [] "dir/.gz".toList [3, 0, 1]) "dir/.gz".toList = .ok [3, 0, 1] := by
  decide +kernel

/-- the serialiser/codec instance the DRIVER executes the model with (`Model/CloudGlob.lean::wireExt`, records
    = the harness's `r<hex>` tokens) satisfies the hypotheses too: the correspondence check runs an instance
    the round-trip theorems apply to -/
theorem wireExt_lawful : Lawful wireExt where
  ser_no_nl r := by
    intro h
    simp only [wireExt, List.mem_cons] at h
    rcases h with h | h
    · revert h; decide
    · exact (hex_not_ctl _ (List.all_eq_true.mp r.ok _ h)).1 rfl
  ser_no_cr r := by
    simp only [wireExt]
    intro h
    have hm : '\r' ∈ 'r' :: r.hex := List.mem_of_getLast? h
    rcases List.mem_cons.mp hm with h | h
    · revert h; decide
    · exact (hex_not_ctl _ (List.all_eq_true.mp r.ok _ h)).2 rfl
  ser_not_blank r := by
    have : isWhite 'r' = false := by decide +kernel
    simp [wireExt, blank, this]
  de_ser r := by
    simp only [wireExt, r.ok, dite_true]
  dec_enc c t := by
    cases c <;> simp [wireExt, wireText_toNat, codecTag]
  magic_plain rs := wire_magic_plain _

/-- so every `CLOUDJSONL` answer of the driver is an instance of `cloud_roundtrip` -/
theorem driver_roundtrip (s : Store (List Nat)) (key : Str) (rs : List RecTok) :
    readObj wireExt (writeObj wireExt s key rs) key = .ok rs :=
  cloud_roundtrip wireExt wireExt_lawful s key rs

/-! ### the scope assumption decided for a float-bearing record type

`FRec` = the harness's `struct RecF { x: f64, o: Option<f64>, v: Vec<f32> }` as serde_json sees it
(`Model/CloudGlob.lean`): a finite float is its decimal text, a non-finite one is written `null`. `floatExt` is
the instance the driver executes for `CLOUDNF` requests. -/

/-- the TEXT laws hold for the float record type whatever its values (a record with a NaN is still one
    non-blank line) — so `cloud_read_after_write` / `cloud_roundtrip_iff` apply to it unconditionally -/
theorem floatExt_text_lawful : LawfulText floatExt where
  ser_no_nl r := FRec.json_no_nl r
  ser_no_cr r := fun h => FRec.json_no_cr r (List.mem_of_getLast? h)
  ser_not_blank r := FRec.json_not_blank r
  dec_enc c t := wireExt_lawful.dec_enc c t
  magic_plain rs := wire_magic_plain _

/-- `from_str(to_string(r))` on the float record type, completely: an error exactly when a float outside an
    `Option` is non-finite, otherwise the record with each non-finite `Some` turned into `None` -/
theorem float_de_ser (r : FRec) :
    floatExt.de (floatExt.ser r) = if r.readable then some r.clean else none := parse_json r

/-- the scope assumption holds for `r` exactly when every float of `r` is finite -/
theorem float_de_ser_iff_finite (r : FRec) : floatExt.de (floatExt.ser r) = some r ↔ r.finite = true := by
  rw [float_de_ser]
  obtain ⟨x, o, v⟩ := r
  simp only [FRec.readable, FRec.finite, FRec.clean]
  by_cases hv : v.all FVal.isFin = true
  · cases x <;> cases o with
    | none => simp [hv, FVal.isFin, cleanO]
    | some f => cases f <;> simp [hv, FVal.isFin, cleanO]
  · cases x <;> simp [hv, FVal.isFin]

/-- **float_roundtrip_iff_finite**: a vector of float-bearing records written under ANY key reads back
    unchanged and in order if and only if every float in it is finite (−0.0, subnormals, `f64::MAX`, any finite
    bit pattern included: their texts are opaque here and validated on the real serde_json by the harness) -/
theorem float_roundtrip_iff_finite (s : Store (List Nat)) (key : Str) (rs : List FRec) :
    readObj floatExt (writeObj floatExt s key rs) key = .ok rs ↔ ∀ r ∈ rs, r.finite = true := by
  rw [cloud_roundtrip_iff floatExt floatExt_text_lawful]
  exact ⟨fun h r hr => (float_de_ser_iff_finite r).mp (h r hr), fun h r hr => (float_de_ser_iff_finite r).mpr (h r hr)⟩

/-- outside the scope, case 1 (documented behaviour, compared model-vs-real by `CLOUDNF`): a NaN / ±∞ in an
    `f64` field or in the `Vec<f32>` of ANY record — the write succeeds, the read of the whole object fails -/
theorem float_nonfinite_read_fails (s : Store (List Nat)) (key : Str) (rs : List FRec)
    (h : ∃ r ∈ rs, r.readable = false) :
    readObj floatExt (writeObj floatExt s key rs) key = .error .internal := by
  rw [cloud_read_after_write floatExt floatExt_text_lawful]
  obtain ⟨r, hr, hf⟩ := h
  rw [mapM_eq_none _ rs ⟨r, hr, by rw [float_de_ser, hf]; rfl⟩]

/-- outside the scope, case 2: non-finite values only behind `Option` — write and read succeed and every such
    `Some(NaN | ±∞)` has silently become `None`; nothing else changes, order and count are kept -/
theorem float_nonfinite_option_becomes_none (s : Store (List Nat)) (key : Str) (rs : List FRec)
    (h : ∀ r ∈ rs, r.readable = true) :
    readObj floatExt (writeObj floatExt s key rs) key = .ok (rs.map FRec.clean) := by
  rw [cloud_read_after_write floatExt floatExt_text_lawful,
    mapM_eq_some_map _ FRec.clean rs (fun r hr => by rw [float_de_ser, h r hr]; rfl)]

/-- so no serialiser/codec instance over this record type can be `Lawful`: the scope assumption is a genuine
    restriction (negation witness for "`cloud_roundtrip` for all record vectors of all types") -/
theorem float_not_lawful : ¬ Lawful floatExt := by
  intro h
  have := h.de_ser ⟨.nan, none, []⟩
  rw [float_de_ser] at this
  revert this; decide

/-- witnesses (the three cases the reviewer reproduced on the real code: `[1.5, NaN, inf]` as `x` ↦ read error;
    `Some(NaN)` ↦ `None`; all finite ↦ unchanged) -/
def tok15 : NumTok := ⟨['1', '.', '5'], by decide, by decide⟩
def tokNeg0 : NumTok := ⟨['-', '0', '.', '0'], by decide, by decide⟩

example : FRec.json ⟨.fin tok15, some .nan, [.fin tokNeg0, .pinf]⟩ =
    "{\"x\":1.5,\"o\":null,\"v\":[-0.0,null]}".toList := by decide +kernel

example : readObj floatExt (writeObj floatExt [] "a.gz".toList [⟨.fin tok15, none, []⟩, ⟨.nan, none, []⟩]) "a.gz".toList
    = .error .internal := by decide +kernel

example : readObj floatExt (writeObj floatExt [] "a".toList [⟨.fin tok15, some .nan, [.fin tokNeg0]⟩]) "a".toList
    = .ok [⟨.fin tok15, none, [.fin tokNeg0]⟩] := by decide +kernel

example : readObj floatExt (writeObj floatExt [] "a.zst".toList [⟨.fin tok15, some (.fin tokNeg0), [.fin tokNeg0, .fin tok15]⟩]) "a.zst".toList
    = .ok [⟨.fin tok15, some (.fin tokNeg0), [.fin tokNeg0, .fin tok15]⟩] := by decide +kernel

example : (⟨.fin tok15, some (.fin tokNeg0), [.fin tokNeg0, .fin tok15]⟩ : FRec).finite = true := by decide

/-- non-vacuity of `glob_read_roundtrip`: distinct keys, a content function -/
example : ([("b.gz".toList, [1, 2]), ("a".toList, [0])].map (·.1)).Nodup ∧
    ∀ o ∈ [("b.gz".toList, [1, 2]), ("a".toList, [0])],
      (fun k => if k = "a".toList then [0] else [1, 2]) o.1 = o.2 := by decide +kernel

end jsonl

/-! ## pinned-commit writer (`Path::extension`): negation witness and the part that did hold -/

/-- at the pinned commit the key `dir/.gz` was written plain (`Path::extension` of a dot-file is `None`)
    while the reader decodes it as gzip: the hypothesis of `cloud_roundtrip_of_agree` fails … -/
theorem legacy_dotfile_witness :
    Legacy.writerCodec "dir/.gz".toList = .plain ∧ extCodec "dir/.gz".toList = some .gzip ∧
    writerCodec "dir/.gz".toList = .gzip := by decide +kernel

/-- … and with it the round trip (on the toy codec: reading what the pinned-commit writer stored fails) -/
theorem legacy_roundtrip_fails :
    readObj toyExt (Legacy.writeObj toyExt [] "dir/.gz".toList [3, 0, 1]) "dir/.gz".toList = .error .internal := by
  decide +kernel

/-- full statement `∀ key, readObj (Legacy.writeObj … key rs) key = ok rs` is false; what held: the round
    trip for every key on which the two detections agree -/
theorem legacy_cloud_roundtrip_partial {R β : Type} (x : Ext R β) (hx : Lawful x) (s : Store β) (key : Str)
    (rs : List R) (hagree : readerCodec x key (x.enc (Legacy.writerCodec key) (jsonl x rs)) = Legacy.writerCodec key) :
    readObj x (Legacy.writeObj x s key rs) key = .ok rs :=
  cloud_roundtrip_of_agree Legacy.writerCodec x hx s key rs hagree

example : readerCodec toyExt "a/data.jsonl.GZ".toList
      (toyExt.enc (Legacy.writerCodec "a/data.jsonl.GZ".toList) (jsonl toyExt [1, 2])) =
    Legacy.writerCodec "a/data.jsonl.GZ".toList := by decide +kernel

end IB.CloudGlob
