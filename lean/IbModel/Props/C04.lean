import IbModel.Proofs.Gbk
import IbModel.Proofs.ParSeq
import IbModel.Proofs.VecSplit
/-!
# C04 — `group_by_key` is an exact partition of its input by key

Property theorems only (helper lemmas: `Proofs/AList.lean`, `Proofs/Gbk.lean`).

Throughout, `ps : List (List Val)` is an ARBITRARY list of partitions (any number, any sizes, empty ones
included, not only contiguous splits of a vector), `rows := ps.flatten` is the input in order and
`out := mergeGroups (ps.map groupRows)` is what the parallel engine's barrier computes
(`groupRows` = the per-partition `HashMap<K, Vec<V>>` loop, `mergeGroups` = the extend-merge of all maps;
`HashMap` = insertion-ordered association list). The sequential engine computes `mergeGroups [groupRows rows]`;
`gbk_contract` shows the two are the same list, and every theorem is restated for the sequential run.

**What the ORDER inside a group means for this property.** C04 says a key's group holds "exactly the input values
carrying that key — each one once": a MULTISET statement (`gbk_flatten_perm`). The model proves more — `gbk_values`
gives the values in input order — and the correspondence requests carry `canon=top` (groups compared as sequences
against the insertion-ordered model, because seq = par AS SEQUENCES is what the code guarantees and what C01 needs).
The harness keeps the two apart: C04's own oracle signatures (`gbk-duplicate-key-in-output`,
`gbk-groups-do-not-flatten-to-input`, `gbk-empty-group-in-output`, and the comparison with the plain-vector reference
made in `harness/src/c04.rs`, which canonicalises both sides with `deep`) compare the values of a group as multisets;
a different in-group order ALONE is reported by `par-differs-from-seq` (C01's statement) or as a model/implementation
disagreement — never by a C04 signature. Validated with the seeded change C01-4 (GBK merge appends the shorter run onto
the longer one): C04's run reports only `par-differs-from-seq`, no `gbk-*` / `differs-from-reference`.
-/
namespace IB

/-! ## parallel mode: any partition list -/

/-- exactly one `(key, values)` pair per key: the output keys are pairwise distinct -/
theorem gbk_keys_nodup (ps : List (List Val)) :
    ((mergeGroups (ps.map groupRows)).map (·.1)).Nodup :=
  nodup_keys_mergeGroups _

/-- … one for every distinct key of the input, and no other -/
theorem gbk_keys_exact (ps : List (List Val)) (k : Val) :
    k ∈ (mergeGroups (ps.map groupRows)).map (·.1) ↔ k ∈ ps.flatten.map Val.key := by
  rw [keys_mergeGroups_groupRows, mem_addKeys]
  simp

/-- the output keys come in first-occurrence order of the input (model-level detail: the real `HashMap`
    iteration order is unspecified, the harness compares canonically) -/
theorem gbk_keys_order (ps : List (List Val)) :
    (mergeGroups (ps.map groupRows)).map (·.1) = addKeys [] (ps.flatten.map Val.key) :=
  keys_mergeGroups_groupRows ps

/-- the pair of key `k` holds exactly the input values carrying `k` — each one once, in input order,
    none lost, none taken from another key (equality of lists, hence of multisets) -/
theorem gbk_values (ps : List (List Val)) (k : Val) :
    lookupKV (mergeGroups (ps.map groupRows)) k =
      if k ∈ ps.flatten.map Val.key
      then some ((ps.flatten.filter (fun r => r.key == k)).map Val.value)
      else none := by
  rw [lookupKV_mergeGroups_groupRows]
  by_cases h : k ∈ ps.flatten.map Val.key
  · have h' : ¬ rowVals k ps.flatten = [] := fun x => (rowVals_eq_nil_iff k _).mp x h
    simp only [h', h, ↓reduceIte]
    rfl
  · have h' : rowVals k ps.flatten = [] := (rowVals_eq_nil_iff k _).mpr h
    simp only [h', h, ↓reduceIte]

/-- no group is empty -/
theorem gbk_groups_nonempty (ps : List (List Val)) (kv : Val × List Val)
    (h : kv ∈ mergeGroups (ps.map groupRows)) : kv.2 ≠ [] := by
  have h1 := lookupKV_of_mem_nodup (gbk_keys_nodup ps) (k := kv.1) (b := kv.2) h
  rw [lookupKV_mergeGroups_groupRows] at h1
  by_cases h2 : rowVals kv.1 ps.flatten = []
  · simp [h2] at h1
  · simp only [h2, ↓reduceIte, Option.some.injEq] at h1
    rw [← h1]; exact h2

/-- `flatten (group_by_key x) = x` as a multiset -/
theorem gbk_flatten_perm (ps : List (List Val)) :
    ((mergeGroups (ps.map groupRows)).flatMap (fun kv => kv.2.map (fun v => Val.pair kv.1 v))).Perm
      (ps.flatten.map (fun r => Val.pair r.key r.value)) := by
  apply ungroup_perm _ _ (gbk_keys_nodup ps)
  · intro r hr
    exact (gbk_keys_exact ps r.key).mpr (List.mem_map.mpr ⟨r, hr, rfl⟩)
  · intro kv hkv
    have h1 := lookupKV_of_mem_nodup (gbk_keys_nodup ps) (k := kv.1) (b := kv.2) hkv
    rw [lookupKV_mergeGroups_groupRows] at h1
    by_cases h2 : rowVals kv.1 ps.flatten = []
    · simp [h2] at h1
    · simp only [h2, ↓reduceIte, Option.some.injEq] at h1
      exact h1.symm

/-- when the input consists of well-formed `(K, V)` rows, flattening gives back the rows themselves -/
theorem gbk_flatten_perm_pairs (ps : List (List Val))
    (hp : ∀ r ∈ ps.flatten, ∃ k v, r = Val.pair k v) :
    ((mergeGroups (ps.map groupRows)).flatMap (fun kv => kv.2.map (fun v => Val.pair kv.1 v))).Perm
      ps.flatten := by
  have h := gbk_flatten_perm ps
  have hid : ps.flatten.map (fun r => Val.pair r.key r.value) = ps.flatten := by
    conv => rhs; rw [← List.map_id ps.flatten]
    apply List.map_congr_left
    intro r hr
    obtain ⟨k, v, rfl⟩ := hp r hr
    rfl
  rwa [hid] at h

/-- an empty input (no partitions, or only empty partitions) yields an empty output -/
theorem gbk_empty (ps : List (List Val)) (h : ps.flatten = []) : mergeGroups (ps.map groupRows) = [] := by
  have hk := keys_mergeGroups_groupRows ps
  rw [h] at hk
  simpa using hk

/-- … and only an empty input does -/
theorem gbk_empty_iff (ps : List (List Val)) : mergeGroups (ps.map groupRows) = [] ↔ ps.flatten = [] := by
  constructor
  · intro h
    cases hf : ps.flatten with
    | nil => rfl
    | cons r rows =>
      have := (gbk_keys_exact ps r.key).mpr (by rw [hf]; simp)
      rw [h] at this
      simp at this
  · exact gbk_empty ps

/-! ## the literal contract of the engine (par = seq, feeds C01) -/

/-- the closures `group_by_key` installs: merging the per-partition results of ANY partition list equals
    the sequential engine's `merge(vec![local(whole input)])` — the same `Partition`, literally -/
theorem gbk_contract (ps : List (List Val)) :
    gbkMerge (ps.map gbkLocal) = gbkMerge [gbkLocal ps.flatten] := by
  unfold gbkMerge gbkLocal
  simp only [List.map_map, List.map_cons, List.map_nil, decGroups_encGroups]
  have : (decGroups ∘ fun rows => encGroups (groupRows rows)) = groupRows := by
    funext p; simp
  rw [this, mergeGroups_contract]

/-- … which is exactly the node contract `execPar_eq_execSeq` (C01) asks of a `GroupByKey` node -/
theorem gbkNode_ok : SubNodeOK List.flatten gbkNode := gbk_contract

theorem gbkNode_nodeOK : NodeOK List.flatten gbkNode := gbk_contract

/-- what `gbkMerge`/`gbkLocal` (the closures over type-erased partitions) compute is the wire image of
    `mergeGroups (ps.map groupRows)`, so the theorems above speak about the node's real output -/
theorem gbkMerge_eq (ps : List (List Val)) :
    gbkMerge (ps.map gbkLocal) = encGroups (mergeGroups (ps.map groupRows)) := by
  unfold gbkMerge gbkLocal
  simp only [List.map_map]
  have : (decGroups ∘ fun rows => encGroups (groupRows rows)) = groupRows := by
    funext p; simp
  rw [this]

/-! ## sequential mode: `mergeGroups [groupRows rows]` -/

theorem gbk_seq_eq_par (ps : List (List Val)) :
    mergeGroups [groupRows ps.flatten] = mergeGroups (ps.map groupRows) :=
  (mergeGroups_contract ps).symm

theorem gbk_seq_keys_nodup (rows : List Val) : ((mergeGroups [groupRows rows]).map (·.1)).Nodup :=
  nodup_keys_mergeGroups _

theorem gbk_seq_keys_exact (rows : List Val) (k : Val) :
    k ∈ (mergeGroups [groupRows rows]).map (·.1) ↔ k ∈ rows.map Val.key := by
  simpa using gbk_keys_exact [rows] k

theorem gbk_seq_values (rows : List Val) (k : Val) :
    lookupKV (mergeGroups [groupRows rows]) k =
      if k ∈ rows.map Val.key then some ((rows.filter (fun r => r.key == k)).map Val.value) else none := by
  simpa using gbk_values [rows] k

theorem gbk_seq_flatten_perm (rows : List Val) :
    ((mergeGroups [groupRows rows]).flatMap (fun kv => kv.2.map (fun v => Val.pair kv.1 v))).Perm
      (rows.map (fun r => Val.pair r.key r.value)) := by
  simpa using gbk_flatten_perm [rows]

theorem gbk_seq_empty : mergeGroups [groupRows []] = [] := by
  simpa using gbk_empty [[]] rfl

/-! ## end to end: `from_vec(xs).group_by_key()` on both engines, every partition count -/

theorem gbk_pipeline_par (xs : List Val) (n : Nat) :
    execPar List.flatten [vecSource xs, gbkNode] n = pure (encGroups (mergeGroups [groupRows xs])) := by
  have h := gbk_contract (vecSplit xs (clampParts n xs.length))
  rw [vecSplit_flatten] at h
  simp only [execPar, vecSource, gbkNode, List.foldlM_cons, List.foldlM_nil, stepPar, stepSubPar, pure_bind,
    coalesce, h]
  simp [gbkMerge, gbkLocal]

theorem gbk_pipeline_seq (xs : List Val) :
    execSeq [vecSource xs, gbkNode] = pure (encGroups (mergeGroups [groupRows xs])) := by
  simp [execSeq, vecSource, gbkNode, stepSeq, stepSubSeq, need, gbkMerge, gbkLocal]

/-! ## "for every partitioning": the output is a function of the input alone

`gbk_values` already fixes each group from `ps.flatten`; the next three theorems say so outright, for two arbitrary
partition lists: the same rows cut differently give the IDENTICAL output (keys, key order, in-group order), and rows that
are merely a permutation of each other (partitions arriving in another order, rows shuffled across partitions) give the
same keys and, per key, the same multiset of values — which is all C04 states. -/

/-- two partitionings of the same row sequence (any cuts, empty partitions anywhere) give the same output, literally -/
theorem gbk_partitioning_irrelevant (ps qs : List (List Val)) (h : ps.flatten = qs.flatten) :
    mergeGroups (ps.map groupRows) = mergeGroups (qs.map groupRows) := by
  rw [← gbk_seq_eq_par ps, ← gbk_seq_eq_par qs, h]

/-- … and when the rows are only a permutation of each other, the key sets agree … -/
theorem gbk_perm_keys (ps qs : List (List Val)) (h : ps.flatten.Perm qs.flatten) (k : Val) :
    k ∈ (mergeGroups (ps.map groupRows)).map (·.1) ↔ k ∈ (mergeGroups (qs.map groupRows)).map (·.1) := by
  rw [gbk_keys_exact, gbk_keys_exact]
  exact (h.map Val.key).mem_iff

/-- … and every key's group holds the same multiset of values -/
theorem gbk_perm_values (ps qs : List (List Val)) (h : ps.flatten.Perm qs.flatten) (k : Val) (vs : List Val)
    (hv : lookupKV (mergeGroups (ps.map groupRows)) k = some vs) :
    ∃ ws, lookupKV (mergeGroups (qs.map groupRows)) k = some ws ∧ vs.Perm ws := by
  rw [gbk_values] at hv
  by_cases hk : k ∈ ps.flatten.map Val.key
  · simp only [hk, ↓reduceIte, Option.some.injEq] at hv
    have hk' : k ∈ qs.flatten.map Val.key := ((h.map Val.key).mem_iff).mp hk
    refine ⟨(qs.flatten.filter (fun r => r.key == k)).map Val.value, ?_, ?_⟩
    · rw [gbk_values]; simp only [hk', ↓reduceIte]
    · rw [← hv]; exact (h.filter _).map _
  · rw [if_neg hk] at hv
    cases hv

/-! ## accounting: nothing lost, nothing invented, counted -/

/-- the group sizes add up to the number of input rows -/
theorem gbk_sizes_sum (ps : List (List Val)) :
    ((mergeGroups (ps.map groupRows)).map (fun kv => kv.2.length)).sum = ps.flatten.length := by
  have h := (gbk_flatten_perm ps).length_eq
  rw [List.length_map, List.length_flatMap] at h
  simpa using h

/-- there are never more groups than rows -/
theorem gbk_group_count_le (ps : List (List Val)) :
    (mergeGroups (ps.map groupRows)).length ≤ ps.flatten.length := by
  rw [← gbk_sizes_sum ps]
  generalize hout : mergeGroups (ps.map groupRows) = out
  have hne : ∀ kv ∈ out, kv.2 ≠ [] := fun kv hkv => gbk_groups_nonempty ps kv (hout ▸ hkv)
  clear hout
  induction out with
  | nil => simp
  | cons kv rest ih =>
    have h1 : 0 < kv.2.length := List.length_pos_iff.mpr (hne kv (by simp))
    have h2 := ih (fun x hx => hne x (by simp [hx]))
    simp only [List.length_cons, List.map_cons, List.sum_cons]
    omega

/-- no group is longer than the input -/
theorem gbk_group_size_le (ps : List (List Val)) (kv : Val × List Val)
    (h : kv ∈ mergeGroups (ps.map groupRows)) : kv.2.length ≤ ps.flatten.length := by
  rw [← gbk_sizes_sum ps]
  generalize mergeGroups (ps.map groupRows) = out at h
  induction out with
  | nil => cases h
  | cons x rest ih =>
    simp only [List.map_cons, List.sum_cons]
    rcases List.mem_cons.mp h with rfl | h'
    · omega
    · have := ih h'
      omega

/-! ## non-vacuity / witnesses (tests, not the theorems) -/

/-- `gbk_perm_values` is not vacuous and not an equality: the same rows with the partitions swapped give the same keys
    and per-key multisets but another in-group order -/
example :
    mergeGroups ([[Val.pair (.int 1) (.int 10)], [Val.pair (.int 1) (.int 11)]].map groupRows)
        = [(.int 1, [.int 10, .int 11])] ∧
    mergeGroups ([[Val.pair (.int 1) (.int 11)], [Val.pair (.int 1) (.int 10)]].map groupRows)
        = [(.int 1, [.int 11, .int 10])] := by decide

/-- a key straddling three partitions (one of them empty): values are extended, not overwritten -/
example :
    mergeGroups ([[Val.pair (.int 1) (.int 10), Val.pair (.int 2) (.int 20)], [],
        [Val.pair (.int 2) (.int 21), Val.pair (.int 1) (.int 11)]].map groupRows)
      = [(.int 1, [.int 10, .int 11]), (.int 2, [.int 20, .int 21])] := by decide

example : gbkMerge ([] : List Part) = [] := by decide

end IB
