import IbModel.Proofs.Cloud
/-!
# C18 — cloud operation helpers behave correctly under every sequence of failures

Property theorems about `Model/Cloud.lean` (the transliteration of `src/io/cloud/utils.rs` and the
wrappers of `src/helpers/cloud.rs`). Every statement is for ALL scripts (= every sequence of outcomes
the user's closure can produce), all configurations, all item lists and chunk sizes — by induction on
the loops, no bound. A *script* that is too short for the loop to finish is reported as `none`
(`retry_terminates` shows this cannot happen once the script is as long as the budget).

`terminal o` = `o` is a success or a permanent (non-transient) error; `c.budget = max 1 c.maxAttempts`.

Wrappers: every public entry point of `src/helpers/cloud.rs` has its own model definition (which the driver
runs for that wrapper) and a theorem here that identifies it with `retry` / `execute` / `batchInChunks` /
`paginate` (`wrapper_eq_retry`, `builder_execute_eq`, `executor_execute_eq`, `cio_timeout_retry_eq`,
`run_batch_operation_eq`, `run_paginated_eq`). The per-item batch `run_cloud_io_batch` is specified exactly
(`io_batch_step`, `io_batch_exact`, `io_batch_calls_determined`); `never_retry_batch_excluded` shows that the
exact statements rule out an implementation the former existential bound admitted.

Scope. Modelled and run: every public function of `src/helpers/cloud.rs` — the six entry points of the
property's `observe_at` and, although the property does not name them, `run_with_timeout_and_retry`,
`run_cloud_io_with_retry(_and_timeout)`, `run_cloud_io_paginated`, `run_parallel` (`run_parallel_*`: the code is
sequential, stops at the first failure, drops the earlier values — its doc comment promises otherwise, which is
outside this property) and `run_with_context` (`run_with_context_spec`). `BatchConfig.parallel` is a field the
code never reads (`run_batch_parallel_irrelevant`); the harness generates both values.
Not modelled: `OperationContext.start_time` / `elapsed()` (a time stamp); `u32` wrap-around of the attempt and
page counters (2³² attempts / pages) and of `retry_count`; `ConnectionPool`, credentials / URI helpers of
`utils.rs` (not part of the property).

Time. `sleeps` are the values of `delay_ms` at the `thread::sleep` statement and the timeout theorems are over
the nominal clock `elapsedOf` (scripted call durations + those waits). Lean cannot speak about the machine's
clock; that the real wait between two attempts is the reported one (never shorter; after the first never above
the cap beyond scheduling noise) is measured by the harness on the running code, each verdict confirmed by
re-execution (`harness/src/c18.rs`, header "REAL TIME").
-/
namespace IB.Cloud

variable {α β : Type}

/-! ## the tables read from the running code -/

/-- Table obligation: the kinds the running `retry_with_backoff` retries are exactly
    Network, Timeout, ServiceUnavailable, RateLimited (`Generated.transientKinds` is probed from the real
    function for all 11 kinds on every run). -/
theorem transient_table (k : Kind) :
    isTransient k = true ↔
      (k = .network ∨ k = .timeout ∨ k = .serviceUnavailable ∨ k = .rateLimited) := by
  cases k <;> decide

/-- Table obligation: the model's `Kind` enumerates `traits.rs::ErrorKind` (names in declaration order
    as printed by the running code). -/
theorem error_kind_table : IB.Generated.errorKindNames = Kind.all.map Kind.name := by
  decide

/-- 4 transient + 7 permanent kinds -/
theorem kind_counts :
    (Kind.all.filter isTransient).length = 4 ∧ (Kind.all.filter (fun k => !isTransient k)).length = 7 := by
  decide

/-! ## retry -/

/-- Never more than `max(1, budget)` attempts. -/
theorem retry_attempts_le (c : RetryConfig) (script : List (Res α)) :
    (retry c script).attempts ≤ max 1 c.maxAttempts :=
  retryLoop_attempts_le_budget c script 0 c.initialDelay (by unfold RetryConfig.budget; omega)

/-- Never another attempt after a success or a permanent error: if the `i`-th outcome (0-based) is
    terminal, at most `i + 1` calls are made. -/
theorem retry_never_after_terminal (c : RetryConfig) (script : List (Res α)) (i : Nat) (o : Res α)
    (hi : script[i]? = some o) (ht : terminal o = true) : (retry c script).attempts ≤ i + 1 := by
  apply Nat.le_of_not_lt
  intro hlt
  obtain ⟨e, he, htr⟩ := retryLoop_before_last_transient c script 0 c.initialDelay i
    (by unfold retry at hlt; omega)
  rw [hi] at he
  simp only [Option.some.injEq] at he
  subst he
  simp [terminal, htr] at ht

/-- Exact attempt count and outcome. Let `n ≥ 1` be such that the first `n − 1` outcomes are transient
    errors, `n ≤ budget`, and either the `n`-th outcome is terminal (success / permanent error) or the
    budget is used up (`n = budget`). Then exactly `n` attempts are made and the `n`-th outcome is
    returned. (So: attempts = 1 + index of the first terminal outcome when that is within budget,
    = budget otherwise.) -/
theorem retry_spec (c : RetryConfig) (script : List (Res α)) (n : Nat)
    (h1 : 1 ≤ n) (hlen : n ≤ script.length) (hb : n ≤ max 1 c.maxAttempts)
    (hpre : ∀ o ∈ script.take (n - 1), terminal o = false)
    (hend : n = max 1 c.maxAttempts ∨ ∃ o, script[n - 1]? = some o ∧ terminal o = true) :
    (retry c script).attempts = n ∧ (retry c script).outcome = script[n - 1]? := by
  have := retryLoop_spec c script 0 c.initialDelay n h1 hlen
    (by unfold RetryConfig.budget; omega) hpre
    (by unfold RetryConfig.budget; rcases hend with h | h
        · left; omega
        · right; exact h)
  simpa [retry] using this

/-- The caller receives the outcome of the last attempt (whatever is returned is, value for value,
    what the operation produced on its final call), and every earlier attempt ended in a transient error. -/
theorem retry_returns_last (c : RetryConfig) (script : List (Res α)) (o : Res α)
    (h : (retry c script).outcome = some o) :
    1 ≤ (retry c script).attempts ∧ script[(retry c script).attempts - 1]? = some o ∧
      ∀ j, j + 1 < (retry c script).attempts →
        ∃ e, script[j]? = some (.error e) ∧ isTransient e.kind = true := by
  have := retryLoop_returns_last c script 0 c.initialDelay o h
  refine ⟨by unfold retry; omega, by simpa [retry] using this.2, ?_⟩
  intro j hj
  exact retryLoop_before_last_transient c script 0 c.initialDelay j (by unfold retry at hj; omega)

/-- If an error is returned although it is transient, the budget was used up. -/
theorem retry_transient_error_means_budget (c : RetryConfig) (script : List (Res α)) (e : Err)
    (h : (retry c script).outcome = some (.error e)) (ht : isTransient e.kind = true) :
    (retry c script).attempts = max 1 c.maxAttempts := by
  obtain ⟨h1, _, _⟩ := retry_returns_last c script _ h
  have hle := retry_attempts_le c script
  have key : ∀ (s : List (Res α)) (a d : Nat),
      (retryLoop c a d s).outcome = some (.error e) → isTransient e.kind = true →
      c.maxAttempts ≤ (retryLoop c a d s).attempts := by
    intro s
    induction s with
    | nil => intro a d h; simp [retryLoop] at h
    | cons o rest ih =>
      intro a d h ht
      cases o with
      | ok v => simp [retryLoop] at h
      | error e' =>
        simp only [retryLoop] at h ⊢
        split
        · rename_i hc
          simp only [hc, ↓reduceIte, Option.some.injEq, Except.error.injEq] at h
          subst h
          simp only [ht, Bool.not_true, Bool.false_or, decide_eq_true_eq] at hc
          exact hc
        · rename_i hc
          simp only [hc] at h
          exact ih (a + 1) (nextDelay c d) (by simpa using h) ht
  have := key script 0 c.initialDelay h ht
  unfold retry at h1 hle ⊢
  omega

/-- The loop always finishes within the budget: a script at least as long as `max(1, budget)` never
    runs out — for any behaviour of the operation. -/
theorem retry_terminates (c : RetryConfig) (script : List (Res α))
    (hlen : max 1 c.maxAttempts ≤ script.length) : (retry c script).outcome ≠ none := by
  intro h
  have := retryLoop_none c script 0 c.initialDelay h
  rcases this.2.2 with h0 | h0
  · subst h0; simp at hlen
  · omega

/-- Sleeps: one between consecutive attempts (`attempts − 1` of them), the first is the initial delay,
    each next one is `min (×2-or-same, saturating) max_delay` of the previous, hence every sleep after
    the first back-off is at most `max_delay`. -/
theorem retry_sleeps (c : RetryConfig) (script : List (Res α)) (o : Res α)
    (h : (retry c script).outcome = some o) :
    (retry c script).sleeps.length = (retry c script).attempts - 1 ∧
    (retry c script).sleeps = delaySeq c c.initialDelay ((retry c script).attempts - 1) ∧
    (∀ x, (retry c script).sleeps[0]? = some x → x = c.initialDelay) ∧
    (∀ i x, 1 ≤ i → (retry c script).sleeps[i]? = some x → x ≤ c.maxDelay) := by
  have hlen := retryLoop_sleeps_length c script 0 c.initialDelay
  have hs := retryLoop_sleeps c script 0 c.initialDelay
  have hl : (retry c script).sleeps.length = (retry c script).attempts - 1 := by
    unfold retry at h ⊢; simp only [h, Option.isSome_some, ↓reduceIte] at hlen; omega
  refine ⟨hl, ?_, ?_, ?_⟩
  · rw [← hl]; exact hs
  · intro x hx
    unfold retry at hx
    rw [hs] at hx
    cases hk : (retryLoop c 0 c.initialDelay script).sleeps.length with
    | zero => rw [hk] at hx; simp [delaySeq] at hx
    | succ k => rw [hk] at hx; simp [delaySeq] at hx; exact hx.symm
  · intro i x hi hx
    unfold retry at hx
    rw [hs] at hx
    exact iterate_nextDelay_le c _ c.initialDelay i hi x hx

/-- also when the script runs out, the recorded sleeps are the delay sequence -/
theorem retry_sleeps_bounded (c : RetryConfig) (script : List (Res α)) (i x : Nat) (hi : 1 ≤ i)
    (hx : (retry c script).sleeps[i]? = some x) : x ≤ c.maxDelay := by
  unfold retry at hx
  rw [retryLoop_sleeps c script 0 c.initialDelay] at hx
  exact iterate_nextDelay_le c _ c.initialDelay i hi x hx

/-- the capped delay never exceeds the cap, whatever the multiplier (NaN, < 2, ≥ 2) -/
theorem nextDelay_le (c : RetryConfig) (d : Nat) : nextDelay c d ≤ c.maxDelay :=
  nextDelay_le_max c d

/-! ## timeout -/

/-- An operation that succeeds but overruns its time limit is reported as a timeout; within the limit its
    value is returned; an operation that itself fails reports its own error. -/
theorem timeout_spec (limit elapsed : Nat) (r : Res α) :
    (∀ v, r = .ok v → elapsed > limit → withTimeout limit elapsed r = .error timeoutErr) ∧
    (∀ v, r = .ok v → elapsed ≤ limit → withTimeout limit elapsed r = .ok v) ∧
    (∀ e, r = .error e → withTimeout limit elapsed r = .error e) := by
  refine ⟨?_, ?_, ?_⟩
  · intro v hv h; subst hv; simp [withTimeout, h]
  · intro v hv h; subst hv; simp [withTimeout]; omega
  · intro e he; subst he; simp [withTimeout]

theorem timeoutErr_kind : timeoutErr.kind = .timeout := rfl

/-- `run_with_timeout_and_retry`: the retry loop is exactly that of `retry` (same attempts, same sleeps —
    a timeout is detected after the fact and never triggers another attempt); the outcome is the retry's,
    with a success that took too long turned into `Timeout`. -/
theorem timeout_and_retry_spec (c : RetryConfig) (limit : Nat) (script : List (Res α)) (durs : List Nat) :
    (runWithTimeoutAndRetry c limit script durs).attempts = (retry c script).attempts ∧
    (runWithTimeoutAndRetry c limit script durs).sleeps = (retry c script).sleeps ∧
    (runWithTimeoutAndRetry c limit script durs).outcome =
      (retry c script).outcome.map (withTimeout limit (elapsedOf (retry c script) durs)) := by
  simp [runWithTimeoutAndRetry]

/-- The builder / executor wrappers: with a retry configuration the attempts are those of `retry`
    (so all the retry theorems apply); without one the operation is called exactly once. -/
theorem execute_attempts (rc : Option RetryConfig) (limit : Option Nat) (script : List (Res α))
    (durs : List Nat) :
    (execute rc limit script durs).attempts =
      (match rc with
       | some c => (retry c script).attempts
       | none => min 1 script.length) ∧
    (execute rc limit script durs).sleeps =
      (match rc with
       | some c => (retry c script).sleeps
       | none => []) := by
  cases rc <;> cases limit <;> cases script <;> simp [execute, callOnce, runWithTimeoutAndRetry]

/-- Outcome of the wrappers: the last attempt's outcome, post-processed by the timeout check iff a
    timeout is configured. -/
theorem execute_outcome (rc : Option RetryConfig) (limit : Option Nat) (script : List (Res α))
    (durs : List Nat) :
    (execute rc limit script durs).outcome =
      let inner := (match rc with | some c => retry c script | none => callOnce script)
      (match limit with
       | some t => inner.outcome.map (withTimeout t (elapsedOf inner durs))
       | none => inner.outcome) := by
  cases rc <;> cases limit <;> simp [execute, runWithTimeoutAndRetry]

/-! ## every public wrapper is tied to `retry` / `execute` by a theorem

The driver answers a request for wrapper `w` with `w`'s own model definition (`Model/Cloud.lean`, last
section, one definition per Rust item); the following theorems — not the driver — identify them. -/

/-- `retry_with_backoff`, `run_with_retry`, `run_cloud_io_with_retry`, and the builder / executor configured
    with a retry only, all ARE the retry loop: same attempts, same outcome, same waits, on every script. -/
theorem wrapper_eq_retry (w : RetryWrapper) (c : RetryConfig) (script : List (Res α)) :
    runWrapper w c script = retry c script := by
  cases w <;> rfl

/-- hence every retry theorem holds verbatim for every wrapper; the four claims of the property, spelled out -/
theorem wrapper_retry_claims (w : RetryWrapper) (c : RetryConfig) (script : List (Res α)) :
    (runWrapper w c script).attempts ≤ max 1 c.maxAttempts ∧
    (∀ i o, script[i]? = some o → terminal o = true → (runWrapper w c script).attempts ≤ i + 1) ∧
    (∀ n, 1 ≤ n → n ≤ script.length → n ≤ max 1 c.maxAttempts →
      (∀ o ∈ script.take (n - 1), terminal o = false) →
      (n = max 1 c.maxAttempts ∨ ∃ o, script[n - 1]? = some o ∧ terminal o = true) →
      (runWrapper w c script).attempts = n ∧ (runWrapper w c script).outcome = script[n - 1]?) ∧
    (∀ o, (runWrapper w c script).outcome = some o →
      script[(runWrapper w c script).attempts - 1]? = some o) ∧
    (∀ i x, 1 ≤ i → (runWrapper w c script).sleeps[i]? = some x → x ≤ c.maxDelay) := by
  rw [wrapper_eq_retry]
  exact ⟨retry_attempts_le c script,
    fun i o hi ht => retry_never_after_terminal c script i o hi ht,
    fun n h1 hl hb hp he => retry_spec c script n h1 hl hb hp he,
    fun o h => (retry_returns_last c script o h).2.1,
    fun i x hi hx => retry_sleeps_bounded c script i x hi hx⟩

/-- `OperationBuilder::execute` is the four-way composition `execute` (for every field combination) -/
theorem builder_execute_eq (b : OperationBuilder) (script : List (Res α)) (durs : List Nat) :
    b.execute script durs = execute b.retryConfig b.timeout script durs := by
  obtain ⟨rc, t⟩ := b
  cases rc <;> cases t <;> rfl

/-- `CloudIOExecutor::execute` is the same composition -/
theorem executor_execute_eq (b : CloudIOExecutor) (script : List (Res α)) (durs : List Nat) :
    b.execute script durs = execute b.retryConfig b.timeout script durs := by
  obtain ⟨rc, t⟩ := b
  cases rc <;> cases t <;> rfl

/-- the builder methods set exactly the named field (so `new().with_retry(c).with_timeout(t)` and the
    reverse order configure the same operation) -/
theorem builder_fields (c : RetryConfig) (t : Nat) :
    OperationBuilder.new.retryConfig = none ∧ OperationBuilder.new.timeout = none ∧
    ((OperationBuilder.new.withRetry c).withTimeout t).retryConfig = some c ∧
    ((OperationBuilder.new.withRetry c).withTimeout t).timeout = some t ∧
    ((OperationBuilder.new.withTimeout t).withRetry c).retryConfig = some c ∧
    ((OperationBuilder.new.withTimeout t).withRetry c).timeout = some t ∧
    CloudIOExecutor.new.retryConfig = none ∧ CloudIOExecutor.new.timeout = none ∧
    ((CloudIOExecutor.new.withRetry c).withTimeout t).retryConfig = some c ∧
    ((CloudIOExecutor.new.withRetry c).withTimeout t).timeout = some t ∧
    ((CloudIOExecutor.new.withTimeout t).withRetry c).retryConfig = some c ∧
    ((CloudIOExecutor.new.withTimeout t).withRetry c).timeout = some t := by
  refine ⟨rfl, rfl, rfl, rfl, rfl, rfl, rfl, rfl, rfl, rfl, rfl, rfl⟩

/-- `run_cloud_io_with_retry_and_timeout` is `run_with_timeout_and_retry` -/
theorem cio_timeout_retry_eq (c : RetryConfig) (limit : Nat) (script : List (Res α)) (durs : List Nat) :
    runCloudIoWithRetryAndTimeout c limit script durs = runWithTimeoutAndRetry c limit script durs := rfl

/-- `run_batch_operation` is `batch_in_chunks` on `config.chunk_size` (so `batch_*` apply with
    `size = cfg.chunkSize`, chunk size 0 included); `parallel` has no influence -/
theorem run_batch_operation_eq (items : List α) (cfg : BatchConfig) (f : Nat → List α → Res (List β)) :
    runBatchOperation items cfg f = batchInChunks items cfg.chunkSize f := rfl

/-- `run_paginated_operation` and `run_cloud_io_paginated` are `paginate` -/
theorem run_paginated_eq (c : PageConfig) (script : List (Res (List α × Bool))) :
    runPaginatedOperation c script = paginate c script ∧ runCloudIoPaginated c script = paginate c script :=
  ⟨rfl, rfl⟩

/-! ## batch -/

/-- `slice::chunks(n)`, `n ≥ 1`: chunk `i` is `items[i*n .. min((i+1)*n, len)]`, and there are no others. -/
theorem chunks_getElem? (n : Nat) (hn : 1 ≤ n) (l : List α) (i : Nat) :
    (chunks n l)[i]? = if i * n < l.length then some ((l.drop (i * n)).take n) else none :=
  chunksFuel_getElem? n hn l.length l i (Nat.le_refl _)

/-- The chunks partition the items in order; none is empty or longer than requested. -/
theorem chunks_partition (n : Nat) (hn : 1 ≤ n) (l : List α) :
    (chunks n l).flatten = l ∧ ∀ c ∈ chunks n l, c ≠ [] ∧ c.length ≤ n :=
  ⟨chunksFuel_flatten n hn l.length l (Nat.le_refl _), chunksFuel_bounds n hn l.length l⟩

/-- For EVERY chunk size (0 included — clamped to 1 by the current code): the processor is handed an
    initial segment of the chunk list, each chunk non-empty and no larger than `max size 1`, and what it
    has been handed, concatenated, is a prefix of the items (every item at most once, in order). -/
theorem batch_calls (items : List α) (size : Nat) (f : Nat → List α → Res (List β)) :
    (batchInChunks items size f).1 <+: chunks (max size 1) items ∧
    (∀ c ∈ (batchInChunks items size f).1, c ≠ [] ∧ c.length ≤ max size 1) ∧
    (batchInChunks items size f).1.flatten <+: items := by
  have hn : 1 ≤ max size 1 := by omega
  have hp := batchLoop_calls_prefix f (chunks (max size 1) items) 0
  refine ⟨hp, ?_, ?_⟩
  · intro c hc
    exact (chunks_partition (max size 1) hn items).2 c (hp.subset hc)
  · obtain ⟨t, ht⟩ := hp
    have := (chunks_partition (max size 1) hn items).1
    rw [← ht, List.flatten_append] at this
    exact ⟨t.flatten, this⟩

/-- Success: every chunk — hence every item exactly once, in order — was handed to the processor, the
    processor succeeded on each, and the result is the concatenation of its answers. -/
theorem batch_ok (items : List α) (size : Nat) (f : Nat → List α → Res (List β)) (rs : List β)
    (h : (batchInChunks items size f).2 = .ok rs) :
    (batchInChunks items size f).1 = chunks (max size 1) items ∧
    (batchInChunks items size f).1.flatten = items ∧
    (∀ j c, (chunks (max size 1) items)[j]? = some c → ∃ r, f j c = .ok r) ∧
    rs = (okVals (answers f 0 (chunks (max size 1) items))).flatten := by
  have := batchLoop_ok f (chunks (max size 1) items) 0 rs h
  refine ⟨this.1, ?_, ?_, this.2.2⟩
  · unfold batchInChunks; rw [this.1]
    exact (chunks_partition (max size 1) (by omega) items).1
  · intro j c hj
    have := this.2.1 j c hj
    simpa using this

/-- Failure: processing stopped at the FIRST failing chunk `k` — chunks `0..k` were handed over (and no
    later one), all before `k` succeeded, and the error returned is the processor's error on chunk `k`. -/
theorem batch_err (items : List α) (size : Nat) (f : Nat → List α → Res (List β)) (e : Err)
    (h : (batchInChunks items size f).2 = .error e) :
    ∃ k c, (chunks (max size 1) items)[k]? = some c ∧ f k c = .error e ∧
      (batchInChunks items size f).1 = (chunks (max size 1) items).take (k + 1) ∧
      ∀ j c', j < k → (chunks (max size 1) items)[j]? = some c' → ∃ r, f j c' = .ok r := by
  obtain ⟨k, c, hk, hf, hcalls, hpre⟩ := batchLoop_err f (chunks (max size 1) items) 0 e h
  refine ⟨k, c, hk, by simpa using hf, hcalls, ?_⟩
  intro j c' hj hc'
  have := hpre j c' hj hc'
  simpa using this

/-- If the processor succeeds on every chunk the batch succeeds (no spurious failure). -/
theorem batch_all_ok (items : List α) (size : Nat) (f : Nat → List α → Res (List β))
    (hall : ∀ j c, (chunks (max size 1) items)[j]? = some c → ∃ r, f j c = .ok r) :
    ∃ rs, (batchInChunks items size f).2 = .ok rs := by
  cases hres : (batchInChunks items size f).2 with
  | ok rs => exact ⟨rs, rfl⟩
  | error e =>
    obtain ⟨k, c, hk, hf, _, _⟩ := batch_err items size f e hres
    obtain ⟨r, hr⟩ := hall k c hk
    rw [hr] at hf; cases hf

/-- Exact form: if chunk `k` is the first on which the processor fails, the batch returns exactly that
    error after handing over chunks `0..k` and no others. -/
theorem batch_first_failure (items : List α) (size : Nat) (f : Nat → List α → Res (List β))
    (k : Nat) (c : List α) (e : Err)
    (hk : (chunks (max size 1) items)[k]? = some c) (hf : f k c = .error e)
    (hpre : ∀ j c', j < k → (chunks (max size 1) items)[j]? = some c' → ∃ r, f j c' = .ok r) :
    (batchInChunks items size f).2 = .error e ∧
    (batchInChunks items size f).1 = (chunks (max size 1) items).take (k + 1) := by
  cases hres : (batchInChunks items size f).2 with
  | ok rs =>
    obtain ⟨r, hr⟩ := (batch_ok items size f rs hres).2.2.1 k c hk
    rw [hr] at hf; cases hf
  | error e' =>
    obtain ⟨k', c', hk', hf', hcalls, hpre'⟩ := batch_err items size f e' hres
    rcases Nat.lt_trichotomy k' k with hlt | heq | hgt
    · obtain ⟨r, hr⟩ := hpre k' c' hlt hk'
      rw [hr] at hf'; cases hf'
    · subst heq
      rw [hk] at hk'; cases hk'
      rw [hf] at hf'; cases hf'
      exact ⟨rfl, hcalls⟩
    · obtain ⟨r, hr⟩ := hpre' k c hgt hk
      rw [hr] at hf; cases hf

/-- The code at the pinned commit: chunk size 0 panics (`none`) for every item list … -/
theorem legacy_batch_zero_panics (items : List α) (f : Nat → List α → Res (List β)) :
    Legacy.batchInChunks items 0 f = none := by
  simp [Legacy.batchInChunks]

/-- … and agrees with the current code for every size ≥ 1 (the fix changes nothing else). -/
theorem legacy_batch_eq (items : List α) (size : Nat) (hs : 1 ≤ size) (f : Nat → List α → Res (List β)) :
    Legacy.batchInChunks items size f = some (batchInChunks items size f) := by
  have h1 : size ≠ 0 := by omega
  have h2 : max size 1 = size := by omega
  simp [Legacy.batchInChunks, batchInChunks, h1, h2]

/-- witness (replayed on the real code before the fix: panic "chunk size must be non-zero"; after: 3
    chunks of one item) -/
theorem batch_zero_witness :
    Legacy.batchInChunks [1, 2, 3] 0 (fun _ c => (.ok c : Res (List Nat))) = none ∧
    batchInChunks [1, 2, 3] 0 (fun _ c => (.ok c : Res (List Nat))) = ([[1], [2], [3]], .ok [1, 2, 3]) := by
  constructor
  · rfl
  · rfl

/-! ## pagination -/

/-- `fetch_page` is called with page numbers 0, 1, 2, … and the configured page size. -/
theorem paginate_calls (c : PageConfig) (script : List (Res (List α × Bool))) :
    (paginate c script).calls =
      (List.range (paginate c script).calls.length).map (fun i => (i, c.pageSize)) := by
  have := pageLoop_calls c script 0
  simpa [paginate] using this

/-- Every page before the last fetched one was non-empty, said `has_more`, and was below the page limit
    (`pageStops … = false`): the loop never goes on after an empty page, a final page or the limit. -/
theorem paginate_prefix (c : PageConfig) (script : List (Res (List α × Bool))) (j : Nat)
    (hj : j + 1 < (paginate c script).calls.length) :
    ∃ o, script[j]? = some o ∧ pageStops c j o = false := by
  have := pageLoop_prefix c script 0 j (Or.inl hj)
  simpa using this

/-- The result: the last fetched page is the first one that stops the loop (error, empty page,
    `!has_more`, or page limit reached); an error passes through unchanged; otherwise the result is the
    concatenation of the items of all fetched pages. -/
theorem paginate_spec (c : PageConfig) (script : List (Res (List α × Bool))) (r : Res (List α))
    (h : (paginate c script).outcome = some r) :
    1 ≤ (paginate c script).calls.length ∧
    ∃ o, script[(paginate c script).calls.length - 1]? = some o ∧
      pageStops c ((paginate c script).calls.length - 1) o = true ∧
      r = finalPageResult o ((script.take (paginate c script).calls.length).flatMap pageItems) := by
  have := pageLoop_last c script 0 r h
  simpa [paginate] using this

/-- Exact form ("the concatenation of pages up to the first empty or final page or the page limit"):
    if page `n` is the FIRST scripted page that stops the listing — an error, an empty page, `!has_more`,
    or `n + 1 ≥ max_pages` — then exactly `n + 1` pages are fetched and the result is that error, or else
    the concatenation of the items of pages `0..n`. -/
theorem paginate_exact (c : PageConfig) (script : List (Res (List α × Bool))) (n : Nat)
    (o : Res (List α × Bool)) (hn : script[n]? = some o) (hstop : pageStops c n o = true)
    (hpre : ∀ j o', j < n → script[j]? = some o' → pageStops c j o' = false) :
    (paginate c script).calls.length = n + 1 ∧
    (paginate c script).outcome = some (finalPageResult o ((script.take (n + 1)).flatMap pageItems)) := by
  have := pageLoop_exact c script 0 n o hn (by simpa using hstop)
    (by intro j o' hj ho'; simpa using hpre j o' hj ho')
  simpa [paginate] using this

/-- The page limit: never more than `max(1, max_pages)` fetches. -/
theorem paginate_limit (c : PageConfig) (script : List (Res (List α × Bool))) (m : Nat)
    (hm : c.maxPages = some m) : (paginate c script).calls.length ≤ max 1 m := by
  apply Nat.le_of_not_lt
  intro hlt
  -- the page with index `max 1 m - 1` is before the last one, so it did not stop the loop; but the limit is reached there
  obtain ⟨o, _, hstop⟩ := paginate_prefix c script (max 1 m - 1) (by omega)
  cases o with
  | error e => simp [pageStops] at hstop
  | ok pg =>
    obtain ⟨items, more⟩ := pg
    simp only [pageStops, Bool.or_eq_false_iff] at hstop
    have := hstop.2
    simp only [PageConfig.limitReached, hm, decide_eq_false_iff_not] at this
    omega

/-- The script ran out only if no scripted page stops the loop (each non-empty, `has_more`, below the limit). -/
theorem paginate_none (c : PageConfig) (script : List (Res (List α × Bool)))
    (h : (paginate c script).outcome = none) (j : Nat) (hj : j < (paginate c script).calls.length) :
    ∃ o, script[j]? = some o ∧ pageStops c j o = false := by
  have := pageLoop_prefix c script 0 j (Or.inr ⟨h, hj⟩)
  simpa using this

/-! ## per-item batch (`run_cloud_io_batch`) -/

variable {ι : Type}

/-- Bounds that follow from the exact statements below (kept because they are what a reader first asks):
    the call trace is `item₀ × k₀ ++ item₁ × k₁ ++ …` over an initial segment of the items, every
    `kᵢ ≤ max(1, budget)`; on success every item was attempted at least once and gave exactly one result.
    On its own this does NOT pin the helper down (a batch that never retries satisfies it, see
    `never_retry_batch_satisfies_the_bounds`) — `io_batch_step` and `io_batch_exact` do. -/
theorem io_batch_calls_bounds (c : RetryConfig) (items : List ι) (script : List (Res β)) :
    ∃ ks : List Nat, ks.length ≤ items.length ∧ (∀ k ∈ ks, k ≤ max 1 c.maxAttempts) ∧
      (ioBatch c items script).calls = (items.zip ks).flatMap (fun p => List.replicate p.2 p.1) ∧
      (∀ vs, (ioBatch c items script).outcome = some (.ok vs) →
        ks.length = items.length ∧ vs.length = items.length ∧ ∀ k ∈ ks, 1 ≤ k) :=
  ioBatch_calls c items script

/-- no item: no call, `Ok(vec![])` -/
theorem io_batch_nil (c : RetryConfig) (script : List (Res β)) :
    (ioBatch c ([] : List ι) script).calls = [] ∧ (ioBatch c ([] : List ι) script).sleeps = [] ∧
      (ioBatch c ([] : List ι) script).outcome = some (.ok []) := by
  simp [ioBatch]

/-- EXACT recursion ("attempted until …" for the per-item wrapper). The first item is handed to the
    operation exactly `(retry c script).attempts` times — by `retry_spec` that is 1 + the index of the first
    success / permanent error, or `max(1, budget)` — with exactly `retry`'s waits. If and only if that retry
    succeeds, the remaining items are processed the same way on what is left of the script, and their
    calls / waits / results follow; otherwise the batch stops right there and returns that retry's error
    (`none`: the script ran out). The item count, the script and the configuration are arbitrary. -/
theorem io_batch_step (c : RetryConfig) (it : ι) (its : List ι) (script : List (Res β)) :
    (ioBatch c (it :: its) script).calls =
      List.replicate (retry c script).attempts it ++
        (match (retry c script).outcome with
         | some (.ok _) => (ioBatch c its (script.drop (retry c script).attempts)).calls
         | _ => []) ∧
    (ioBatch c (it :: its) script).sleeps =
      (retry c script).sleeps ++
        (match (retry c script).outcome with
         | some (.ok _) => (ioBatch c its (script.drop (retry c script).attempts)).sleeps
         | _ => []) ∧
    (ioBatch c (it :: its) script).outcome =
      (match (retry c script).outcome with
       | none => none
       | some (.error e) => some (.error e)
       | some (.ok v) => (ioBatch c its (script.drop (retry c script).attempts)).outcome.map (consOk v)) :=
  ioBatch_cons c it its script

/-- The same without recursion in the statement. There is a list `ks` (`ks[j]` = number of calls made for
    item `j`; item `j` starts at script position `(ks.take j).sum`) such that
    1. the call trace is `item₀ × ks[0] ++ item₁ × ks[1] ++ …`, in item order;
    2. `ks[j]` is EXACTLY the number of attempts `retry` makes on the script from that position on;
    3. an item is only tried after every earlier item's retry succeeded;
    4. items are left untried only because the last tried item's retry did not succeed;
    5. the batch returns an error / runs out of script iff the last tried item's retry does, with that very
       error; 6. it returns `Ok vs` only if every item was tried and `vs[j]` is the value item `j`'s retry returned.
    Conditions 2–4 determine `ks` uniquely, so this fixes calls and outcome for every input. -/
theorem io_batch_exact (c : RetryConfig) (items : List ι) (script : List (Res β)) :
    ∃ ks : List Nat, ks.length ≤ items.length ∧
      (ioBatch c items script).calls = (items.zip ks).flatMap (fun p => List.replicate p.2 p.1) ∧
      (∀ j k, ks[j]? = some k → k = (retry c (script.drop (ks.take j).sum)).attempts) ∧
      (∀ j, j + 1 < ks.length → ∃ v, (retry c (script.drop (ks.take j).sum)).outcome = some (.ok v)) ∧
      (ks.length < items.length → 1 ≤ ks.length ∧
        ∀ v, (retry c (script.drop (ks.take (ks.length - 1)).sum)).outcome ≠ some (.ok v)) ∧
      (∀ e, (ioBatch c items script).outcome = some (.error e) ↔
        (1 ≤ ks.length ∧
          (retry c (script.drop (ks.take (ks.length - 1)).sum)).outcome = some (.error e))) ∧
      ((ioBatch c items script).outcome = none ↔
        (1 ≤ ks.length ∧ (retry c (script.drop (ks.take (ks.length - 1)).sum)).outcome = none)) ∧
      (∀ vs, (ioBatch c items script).outcome = some (.ok vs) →
        ks.length = items.length ∧ vs.length = items.length ∧
        ∀ j v, vs[j]? = some v → (retry c (script.drop (ks.take j).sum)).outcome = some (.ok v)) :=
  ioBatch_exact c items script

/-- `IoTrace c n script ks` (`Proofs/Cloud.lean`) = conditions 2–4 above plus `ks.length ≤ n`. For every
    input there is such a `ks` (non-vacuity of the next two theorems) … -/
theorem io_batch_trace_exists (c : RetryConfig) (items : List ι) (script : List (Res β)) :
    ∃ ks, IoTrace c items.length script ks := by
  obtain ⟨ks, hlen, _, h2, h3, h4, _⟩ := io_batch_exact c items script
  exact ⟨ks, hlen, h2, h3, h4⟩

/-- … exactly one … -/
theorem io_batch_trace_unique (c : RetryConfig) (n : Nat) (script : List (Res β)) (ks ks' : List Nat)
    (h : IoTrace c n script ks) (h' : IoTrace c n script ks') : ks = ks' :=
  IoTrace.unique h h'

/-- … and it IS the call trace: whenever `ks` gives, for each item in turn, exactly the number of attempts
    `retry` makes from that item's position in the script, goes on only after a success and stops only at a
    failure, the operation was called `ks[j]` times for item `j`, in item order, and for nothing else. -/
theorem io_batch_calls_determined (c : RetryConfig) (items : List ι) (script : List (Res β)) (ks : List Nat)
    (h : IoTrace c items.length script ks) :
    (ioBatch c items script).calls = (items.zip ks).flatMap (fun p => List.replicate p.2 p.1) := by
  obtain ⟨ks', hlen, hcalls, h2, h3, h4, _⟩ := io_batch_exact c items script
  have e : ks = ks' := IoTrace.unique h ⟨hlen, h2, h3, h4⟩
  subst e; exact hcalls

/-- In the property's own words, for the first item (the others follow by `io_batch_step`): if the first
    `n − 1` outcomes are transient errors, `n ≤ max(1, budget)`, and the `n`-th is a success / permanent error
    or the budget is used up, then the call trace starts with exactly `n` calls for the first item, and the
    next call (if any) is for the NEXT item — so a per-item batch that does not retry, or retries too often,
    is excluded. -/
theorem io_batch_first_item (c : RetryConfig) (it : ι) (its : List ι) (script : List (Res β)) (n : Nat)
    (h1 : 1 ≤ n) (hlen : n ≤ script.length) (hb : n ≤ max 1 c.maxAttempts)
    (hpre : ∀ o ∈ script.take (n - 1), terminal o = false)
    (hend : n = max 1 c.maxAttempts ∨ ∃ o, script[n - 1]? = some o ∧ terminal o = true) :
    ∃ rest, (ioBatch c (it :: its) script).calls = List.replicate n it ++ rest ∧
      (∀ x ∈ rest, x ∈ its) ∧
      (∀ e, script[n - 1]? = some (.error e) →
        rest = [] ∧ (ioBatch c (it :: its) script).outcome = some (.error e)) := by
  obtain ⟨ha, ho⟩ := retry_spec c script n h1 hlen hb hpre hend
  obtain ⟨hc, _, hout⟩ := io_batch_step c it its script
  rw [ha] at hc
  refine ⟨_, hc, ?_, ?_⟩
  · intro x hx
    split at hx
    · obtain ⟨ks, _, _, hcalls, _⟩ := io_batch_calls_bounds c its (script.drop n)
      rw [hcalls] at hx
      simp only [List.mem_flatMap, List.mem_replicate] at hx
      obtain ⟨p, hp, _, rfl⟩ := hx
      exact (List.of_mem_zip hp).1
    · simp at hx
  · intro e he
    rw [he] at ho
    rw [ho] at hout
    simp only [ho]
    exact ⟨trivial, hout⟩

/-- The counter-model `neverRetryBatch` (one call per item, stop at the first `Err`) satisfies the bounds
    of `io_batch_calls_bounds` and `io_batch_error_is_last` on this input … -/
theorem never_retry_batch_satisfies_the_bounds :
    let c : RetryConfig := ⟨3, 1, 2, 2.0⟩
    let s : List (Res Nat) := [.error ⟨.network, 0⟩, .ok 1, .ok 2]
    (neverRetryBatch [10, 11] s).calls = ([10].zip [1]).flatMap (fun p => List.replicate p.2 p.1) ∧
      1 ≤ max 1 c.maxAttempts ∧
      (neverRetryBatch [10, 11] s).outcome = some (.error ⟨.network, 0⟩) ∧
      s[(neverRetryBatch [10, 11] s).calls.length - 1]? = some (.error ⟨.network, 0⟩) := by
  refine ⟨by decide, by decide, rfl, rfl⟩

/-- … but it is NOT the model of `run_cloud_io_batch`: the exact statements demand two calls for item 10
    (a transient error is retried), then one for item 11, and `Ok`. -/
theorem never_retry_batch_excluded :
    let c : RetryConfig := ⟨3, 1, 2, 2.0⟩
    let s : List (Res Nat) := [.error ⟨.network, 0⟩, .ok 1, .ok 2]
    (ioBatch c [10, 11] s).calls = [10, 10, 11] ∧ (ioBatch c [10, 11] s).outcome = some (.ok [1, 2]) ∧
      (ioBatch c [10, 11] s).sleeps = [1] ∧
      (neverRetryBatch [10, 11] s).calls ≠ (ioBatch c [10, 11] s).calls ∧
      (neverRetryBatch [10, 11] s).calls ≠
        List.replicate (retry c s).attempts 10 ++ (neverRetryBatch [11] (s.drop (retry c s).attempts)).calls := by
  refine ⟨by decide, rfl, by decide, by decide, by decide⟩

/-- A failure is the outcome of the very last call: nothing is attempted after the first item whose
    retries fail. -/
theorem io_batch_error_is_last (c : RetryConfig) (items : List ι) (script : List (Res β)) (e : Err)
    (h : (ioBatch c items script).outcome = some (.error e)) :
    1 ≤ (ioBatch c items script).calls.length ∧
      script[(ioBatch c items script).calls.length - 1]? = some (.error e) :=
  ioBatch_error_is_last c items script e h

/-! ## `run_parallel` and `run_with_context` (`helpers/cloud.rs:196`, `:454`)

Not named by the property's `observe_at`, but public entry points of an anchored file; modelled from the code
that exists and run by the harness (request kinds `PARALLEL`, `CONTEXT`). -/

/-- All operations succeed: each is invoked exactly once, in order, and their values are returned in order. -/
theorem run_parallel_all_ok (vs : List α) :
    (runParallel (vs.map (Except.ok : α → Res α))).calls = List.range vs.length ∧
    (runParallel (vs.map (Except.ok : α → Res α))).outcome = .ok vs := by
  have h := parLoop_all_ok vs 0
  exact ⟨by rw [List.range_eq_range']; exact h.1, h.2⟩

/-- Some operation fails: the operations up to and including the FIRST failing one are invoked exactly once
    each, in order, no later one is invoked (whatever it would have answered), and that first error is
    returned. -/
theorem run_parallel_first_error (vs : List α) (e : Err) (rest : List (Res α)) :
    (runParallel (vs.map (Except.ok : α → Res α) ++ .error e :: rest)).calls = List.range (vs.length + 1) ∧
    (runParallel (vs.map (Except.ok : α → Res α) ++ .error e :: rest)).outcome = .error e := by
  have h := parLoop_first_error vs e rest 0
  exact ⟨by rw [List.range_eq_range']; exact h.1, h.2⟩

/-- … and these two cases are all there is, so `run_parallel` is determined on every input. -/
theorem run_parallel_cases (ops : List (Res α)) :
    (∃ vs : List α, ops = vs.map Except.ok) ∨
    (∃ (vs : List α) (e : Err) (rest : List (Res α)), ops = vs.map Except.ok ++ .error e :: rest) :=
  outcomes_cases ops

/-- `run_with_context` applies the operation exactly once to the context it was given: on success the caller
    gets the operation's value together with the context exactly as the operation left it; on failure the
    operation's own error (the context is dropped). -/
theorem run_with_context_spec (ctx : OperationContext) (op : OperationContext → OperationContext × Res α) :
    (∀ v, (op ctx).2 = .ok v → runWithContext ctx op = .ok (v, (op ctx).1)) ∧
    (∀ e, (op ctx).2 = .error e → runWithContext ctx op = .error e) := by
  unfold runWithContext
  rcases h : op ctx with ⟨c', r⟩
  cases r with
  | ok v => exact ⟨fun v' hv => by simp at hv; subst hv; rfl, fun e he => by simp at he⟩
  | error e => exact ⟨fun v hv => by simp at hv, fun e' he => by simp at he; subst he; rfl⟩

/-- `HashMap::insert` as modelled: after `add_metadata(k, v)` key `k` maps to `v` (the last write wins) and
    every other key is untouched; the other fields are untouched. -/
theorem context_add_metadata (c : OperationContext) (k v k' : String) :
    (c.addMetadata k v).metadata.lookup k' = (if k' = k then some v else c.metadata.lookup k') ∧
    (c.addMetadata k v).retryCount = c.retryCount ∧ (c.addMetadata k v).operationName = c.operationName ∧
    c.incrementRetry.retryCount = c.retryCount + 1 ∧ c.incrementRetry.metadata = c.metadata := by
  refine ⟨?_, rfl, rfl, rfl, rfl⟩
  obtain ⟨nm, rc, md⟩ := c
  simp only [OperationContext.addMetadata]
  induction md with
  | nil => by_cases h : k' = k <;> simp [List.lookup, h]
  | cons p ps ih =>
    obtain ⟨a, b⟩ := p
    by_cases ha : a = k
    · subst ha
      by_cases h : k' = a
      · subst h; simpa [List.filter, List.lookup] using ih
      · have : (k' == a) = false := by simpa using h
        simpa [List.filter, List.lookup, h, this] using ih
    · have hne : (a != k) = true := by simpa using ha
      by_cases h : k' = k
      · subst h
        have : (k' == a) = false := by simpa using (fun h' => ha (h'.symm))
        simpa [List.filter, hne, List.lookup, this] using ih
      · by_cases hk : k' = a
        · subst hk; simp [List.filter, hne, List.lookup, h]
        · have : (k' == a) = false := by simpa using hk
          simpa [List.filter, hne, List.lookup, this, h] using ih

/-- `BatchConfig.parallel` has no influence on `run_batch_operation` (the flag is never read). -/
theorem run_batch_parallel_irrelevant (items : List α) (size : Nat) (f : Nat → List α → Res (List β)) :
    runBatchOperation items ⟨size, true⟩ f = runBatchOperation items ⟨size, false⟩ f := rfl

/-- witnesses: the third operation fails, the fourth is never invoked; a context round trip -/
example :
    (runParallel [(.ok 1 : Res Nat), .ok 2, .error ⟨.network, 7⟩, .ok 4]).calls = [0, 1, 2] ∧
    (runParallel [(.ok 1 : Res Nat), .ok 2, .error ⟨.network, 7⟩, .ok 4]).outcome = .error ⟨.network, 7⟩ ∧
    (runParallel [(.ok 1 : Res Nat), .ok 2]).outcome = .ok [1, 2] := by
  refine ⟨by decide, rfl, rfl⟩

example :
    runWithContext (OperationContext.new "up")
      (fun c => (((c.addMetadata "a" "x").incrementRetry).addMetadata "a" "y", (.ok 5 : Res Nat)))
      = .ok (5, ⟨"up", 1, [("a", "y")]⟩) := by
  simp [runWithContext, OperationContext.new, OperationContext.addMetadata, OperationContext.incrementRetry]

/-! ## non-vacuity examples and concrete witnesses (tests, not the theorems) -/

/-- hypotheses of `retry_spec` on a concrete script: two transient errors, then a permanent one, budget 5 -/
example :
    let c : RetryConfig := ⟨5, 1, 3, 2.0⟩
    let s : List (Res Nat) := [.error ⟨.network, 0⟩, .error ⟨.rateLimited, 1⟩, .error ⟨.notFound, 2⟩, .ok 3]
    (1 ≤ 3 ∧ 3 ≤ s.length ∧ 3 ≤ max 1 c.maxAttempts ∧ (∀ o ∈ s.take 2, terminal o = false) ∧
      ∃ o, s[2]? = some o ∧ terminal o = true) := by
  refine ⟨by decide, by decide, by decide, by decide, ⟨_, rfl, by decide⟩⟩

example :
    let c : RetryConfig := ⟨5, 1, 3, 2.0⟩
    let s : List (Res Nat) := [.error ⟨.network, 0⟩, .error ⟨.rateLimited, 1⟩, .error ⟨.notFound, 2⟩, .ok 3]
    (retry c s).attempts = 3 ∧ (retry c s).outcome = some (.error ⟨.notFound, 2⟩) := by
  refine ⟨by decide, rfl⟩

/-- budget 0 behaves as budget 1 -/
example : (retry ⟨0, 1, 3, 2.0⟩ [(.error ⟨.network, 0⟩ : Res Nat), .ok 1]).attempts = 1 := by decide

/-- pagination witness: inconsistent `has_more` (true on the page before an empty one), page limit -/
example :
    (paginate ⟨10, none⟩ [(.ok ([1, 2], true) : Res (List Nat × Bool)), .ok ([], true), .ok ([3], false)]).outcome
      = some (.ok [1, 2]) ∧
    (paginate ⟨10, some 2⟩ [(.ok ([1], true) : Res (List Nat × Bool)), .ok ([2], true), .ok ([3], true)]).outcome
      = some (.ok [1, 2]) ∧
    (paginate ⟨10, some 0⟩ [(.ok ([1], true) : Res (List Nat × Bool)), .ok ([2], true)]).outcome
      = some (.ok [1]) := by
  refine ⟨rfl, rfl, rfl⟩

/-- hypotheses of `paginate_exact` are met: page 1 is the first that stops (it is empty) -/
example :
    let s : List (Res (List Nat × Bool)) := [.ok ([1, 2], true), .ok ([], true), .ok ([3], false)]
    (∃ o, s[1]? = some o ∧ pageStops ⟨10, none⟩ 1 o = true) ∧
      (∀ j o', j < 1 → s[j]? = some o' → pageStops ⟨10, none⟩ j o' = false) := by
  refine ⟨⟨_, rfl, rfl⟩, ?_⟩
  intro j o' hj ho'
  have : j = 0 := by omega
  subst this
  simp at ho'; subst ho'; rfl

/-- hypotheses of `batch_err` are met: chunk 1 fails -/
example :
    (batchInChunks [1, 2, 3, 4, 5] 2
      (fun i c => if i = 1 then (.error ⟨.other, 7⟩ : Res (List Nat)) else .ok c)) =
      ([[1, 2], [3, 4]], .error ⟨.other, 7⟩) := by rfl

/-- per-item batch witness: item 0 retried once, item 1 succeeds, item 2 uses up its budget of 2 -/
example :
    (ioBatch ⟨2, 1, 1, 2.0⟩ [10, 11, 12]
      [(.error ⟨.network, 0⟩ : Res Nat), .ok 1, .ok 2, .error ⟨.network, 3⟩, .error ⟨.timeout, 4⟩]).calls
      = [10, 10, 11, 12, 12] := by decide

/-- the `ks` of `io_batch_exact` on that input is `[2, 1, 2]`: item 11 starts at script position 2, item 12 at 3 -/
example :
    let c : RetryConfig := ⟨2, 1, 1, 2.0⟩
    let s : List (Res Nat) := [.error ⟨.network, 0⟩, .ok 1, .ok 2, .error ⟨.network, 3⟩, .error ⟨.timeout, 4⟩]
    (retry c s).attempts = 2 ∧ (retry c (s.drop 2)).attempts = 1 ∧ (retry c (s.drop 3)).attempts = 2 ∧
      (retry c (s.drop 3)).outcome = some (.error ⟨.timeout, 4⟩) ∧
      (ioBatch c [10, 11, 12] s).outcome = some (.error ⟨.timeout, 4⟩) ∧
      (ioBatch c [10, 11, 12] s).sleeps = [1, 1] := by
  refine ⟨by decide, by decide, by decide, rfl, rfl, by decide⟩

/-- the wrappers on a concrete script (all five give the retry loop's answer; the executor with a timeout
    turns the slow success into `Timeout`) -/
example :
    let c : RetryConfig := ⟨3, 1, 2, 2.0⟩
    let s : List (Res Nat) := [.error ⟨.network, 0⟩, .error ⟨.rateLimited, 1⟩, .ok 2]
    (RetryWrapper.all.map (fun w => (runWrapper w c s).attempts)) = [3, 3, 3, 3, 3] ∧
      (runWrapper .exe c s).sleeps = [1, 2] ∧
      (((CloudIOExecutor.new.withRetry c).withTimeout 20).execute s [10, 10, 10]).outcome
        = some (.error timeoutErr) := by
  refine ⟨by decide, by decide, rfl⟩

end IB.Cloud
