import IbModel.Proofs.ParSeq
import IbModel.Proofs.PlanOK
import IbModel.Proofs.VecSplit
import IbModel.Props.C04
import IbModel.Props.C05
import IbModel.Model.Closures
/-!
# C01 — sequential and parallel execution return the same result

Engine level: for EVERY partition type, every chain whose closures meet the explicit node contracts
(`NodeOK`, Proofs/ParSeq.lean), EVERY requested partition count and EVERY fan-out setting, `exec_par`
returns exactly what `exec_seq` returns (same value or same error). The contracts are discharged for
the builders' closures in `Props/C02.lean` (element-wise ops, `VecOpsImpl::split`), `Props/C04.lean`
(group_by_key), `Props/C05.lean` (per-key / global combines under `LawfulCombiner`) and
`Props/C07.lean` (joins).
-/
namespace IB
variable {P : Type}

/-- C01 (engine): parallel = sequential for every chain meeting its node contracts, every `n`. -/
theorem C01_engine (concat : List P → P) (hc1 : ∀ p, concat [p] = p)
    (w : P) (len : Nat) (split : Nat → List P) (hsplit : ∀ k, concat (split k) = w)
    (rest : List (Node P)) (hok : ∀ nd ∈ rest, NodeOK concat nd) (n : Nat) :
    execPar concat (.source w len split :: rest) n = execSeq (.source w len split :: rest) :=
  execPar_eq_execSeq concat hc1 w len split hsplit rest hok n

/-- C01/C05 (termination): the fan-in loop finishes for EVERY fan-out setting — `None`, `Some 0`,
    `Some 1`, … — and its result is the merge of all accumulators up to the accumulator equivalence `R`
    (on accumulators satisfying the invariant `I`, e.g. "is a fold of some values"). -/
theorem C01_fanin_terminates (m : List P → P) (fo : Option Nat)
    (I : P → Prop) (R : P → P → Prop) (hrefl : ∀ a, R a a) (htrans : ∀ {a b c}, R a b → R b c → R a c)
    (hI : ∀ g : List P, (∀ a ∈ g, I a) → I (m g))
    (hm1 : ∀ a, I a → R a (m [a]))
    (hassoc : ∀ gs : List (List P), (∀ g ∈ gs, g ≠ [] ∧ ∀ a ∈ g, I a) → R (m (gs.map m)) (m gs.flatten))
    (accs : List P) (hIa : ∀ a ∈ accs, I a) :
    ∃ x, reduceGlobal m fo accs = pure x ∧ R x (m accs) :=
  reduceGlobal_spec m fo I R hrefl htrans hI hm1 hassoc accs hIa

/-- the pinned commit clamped the fan-out with `.max(1)`: with ≥ 2 accumulators and fan-out 0 or 1
    NO amount of fuel suffices (the real run never returned) -/
theorem C01_legacy_fanout_stuck (m : List P → P) (f : Nat) (hf : f ≤ 1) (accs : List P)
    (h : 2 ≤ accs.length) : Legacy.reduceGlobal m (some f) accs = throw .nonTermination :=
  legacy_reduceGlobal_stuck m f hf accs h

theorem C01_legacy_fanin_no_fuel (m : List P → P) (fuel : Nat) (accs : List P) (h : 2 ≤ accs.length) :
    fanIn m 1 fuel accs = none :=
  fanIn_one_stuck m fuel accs h

/-- the partition count the engine actually uses is between 1 and max(len, 1) -/
theorem C01_clampParts (n len : Nat) : 1 ≤ clampParts n len ∧ clampParts n len ≤ max len 1 := by
  unfold clampParts; omega

end IB

/-! ## The planned chain, and the chains the builders produce -/

namespace IB
open Val

/-- nodes a sub-plan (join side) may contain, with the facts the contracts need -/
inductive SubBuilt : Node Part → Prop
  /-- a fused or unfused block of partition-homomorphic operators (map, filter, flat_map, key_by,
      map_values, filter_values always; batch maps with an element-wise chunk function — `Props/C02`) -/
  | stateless (ops : List (DynOp Part))
      (h : ∀ op ∈ ops, ∀ ps : List Part, op.apply ps.flatten = (ps.map op.apply).flatten) :
      SubBuilt (.stateless ops)
  | gbk : SubBuilt gbkNode
  | combineValues (c : VCombiner) (R : Val → Val → Prop) (hc : LawfulCombiner c R) :
      SubBuilt (combineValuesNode c)
  | combineValuesLifted (c : VCombiner) (R : Val → Val → Prop) (hc : LawfulCombiner c R) :
      SubBuilt (combineValuesLiftedNode c)
  | combineGlobal (c : VCombiner) (R : Val → Val → Prop) (hc : LawfulCombiner c R) (fo : Option Nat) :
      SubBuilt (combineGlobalNode c fo)
  | combineGlobalLifted (c : VCombiner) (R : Val → Val → Prop) (hc : LawfulCombiner c R) (fo : Option Nat) :
      SubBuilt (combineGlobalLiftedNode c fo)

/-- nodes of a main chain: the above, or a join of two sub-plans over vector sources -/
inductive Built : Node Part → Prop
  | sub {nd : Node Part} (h : SubBuilt nd) : Built nd
  | join (k : JoinKind) (xs ys : List Val) (l r : List (Node Part))
      (hl : ∀ nd ∈ l, SubBuilt nd) (hr : ∀ nd ∈ r, SubBuilt nd) :
      Built (joinNode k (vecSource xs :: l) (vecSource ys :: r))

theorem subBuilt_ok {nd : Node Part} (h : SubBuilt nd) : SubNodeOK List.flatten nd := by
  cases h with
  | stateless ops h => exact h
  | gbk => exact gbkNode_ok
  | combineValues c R hc => exact combineValuesNode_ok hc
  | combineValuesLifted c R hc => exact combineValuesLiftedNode_ok hc
  | combineGlobal c R hc fo => exact combineGlobal_contract hc fo
  | combineGlobalLifted c R hc fo => exact combineGlobalLifted_contract hc fo

theorem subBuilt_nodeOK {nd : Node Part} (h : SubBuilt nd) : NodeOK List.flatten nd := by
  have := subBuilt_ok h
  cases h <;> exact this

theorem subBuilt_liftOK {nd : Node Part} (h : SubBuilt nd) : LiftOK List.flatten nd := by
  cases h with
  | combineValuesLifted c R hc => exact combineValuesNode_ok hc
  | stateless ops h => trivial
  | gbk => trivial
  | combineValues c R hc => trivial
  | combineGlobal c R hc fo => trivial
  | combineGlobalLifted c R hc fo => trivial

theorem built_nodeOK {nd : Node Part} (h : Built nd) : NodeOK List.flatten nd := by
  cases h with
  | sub h => exact subBuilt_nodeOK h
  | join k xs ys l r hl hr =>
    refine ⟨⟨fun n => vecSplit_flatten xs n, fun nd hnd => subBuilt_ok (hl nd hnd)⟩,
            ⟨fun n => vecSplit_flatten ys n, fun nd hnd => subBuilt_ok (hr nd hnd)⟩, rfl, rfl⟩

theorem built_liftOK {nd : Node Part} (h : Built nd) : LiftOK List.flatten nd := by
  cases h with
  | sub h => exact subBuilt_liftOK h
  | join k xs ys l r hl hr => trivial

/-- **C01, as the user sees it.** For every source vector, every chain of builder-made nodes (element-wise
    blocks, group_by_key, per-key and global combines with ANY lawful combiner and ANY fan-out, joins
    whose sides have their own transform/group/combine prefixes), and EVERY partition count `n`:
    `collect_par` (the parallel engine on the PLANNED chain) returns exactly what `collect_seq`
    returns — the same rows in the same (model) order, or the same error. -/
theorem C01_pipeline (xs : List Val) (rest : List (Node Part)) (h : ∀ nd ∈ rest, Built nd) (n : Nat) :
    execPar List.flatten (optimise (vecSource xs :: rest)) n = execSeq (optimise (vecSource xs :: rest)) := by
  obtain ⟨rest', hshape, hok⟩ := optimise_source_shape List.flatten xs xs.length (vecSplit xs) rest
    (fun nd hnd => built_nodeOK (h nd hnd)) (fun nd hnd => built_liftOK (h nd hnd))
  have hs : vecSource xs = Node.source xs xs.length (vecSplit xs) := rfl
  rw [hs, hshape]
  exact execPar_eq_execSeq List.flatten (fun p => by simp) xs xs.length (vecSplit xs)
    (fun k => vecSplit_flatten xs k) rest' hok n

/-- … and for ANY source that meets the source contract `concat (split n) = whole` — in particular the
    streamed file sources, whose contract is `IB.Io.clone_any_eq_concat_split` (Props/C09: the per-shard
    reads concatenate to the whole read for every shard size, including zero shards). -/
theorem C01_pipeline_any_source (w : Part) (len : Nat) (split : Nat → List Part)
    (hsplit : ∀ k, (split k).flatten = w) (rest : List (Node Part)) (h : ∀ nd ∈ rest, Built nd) (n : Nat) :
    execPar List.flatten (optimise (.source w len split :: rest)) n
      = execSeq (optimise (.source w len split :: rest)) := by
  obtain ⟨rest', hshape, hok⟩ := optimise_source_shape List.flatten w len split rest
    (fun nd hnd => built_nodeOK (h nd hnd)) (fun nd hnd => built_liftOK (h nd hnd))
  rw [hshape]
  exact execPar_eq_execSeq List.flatten (fun p => by simp) w len split hsplit rest' hok n

/-- the same for the literal (un-planned) chain -/
theorem C01_pipeline_literal (xs : List Val) (rest : List (Node Part)) (h : ∀ nd ∈ rest, Built nd) (n : Nat) :
    execPar List.flatten (vecSource xs :: rest) n = execSeq (vecSource xs :: rest) :=
  execPar_eq_execSeq List.flatten (fun p => by simp) xs xs.length (vecSplit xs)
    (fun k => vecSplit_flatten xs k) rest (fun nd hnd => built_nodeOK (h nd hnd)) n

/-- joins: the outer chain restarts at the 1-element dummy source -/
theorem C01_pipeline_after_join (rest : List (Node Part)) (h : ∀ nd ∈ rest, Built nd) (n : Nat) :
    execPar List.flatten (optimise (dummySource :: rest)) n = execSeq (optimise (dummySource :: rest)) :=
  C01_pipeline [.int 0] rest h n

/-! non-vacuity: a concrete chain with an element-wise block, a group_by_key lifted into a combine, a
    global combine with fan-out 1 and a join meets the hypotheses -/
example : ∀ nd ∈ ([ .stateless [mapValuesOp (fun v => .int (v.toInt + 1)), filterValuesOp (fun v => v.toInt % 2 == 0)],
                    gbkNode, combineValuesLiftedNode Comb.sum.toCombiner,
                    joinNode .left (vecSource [.pair (.int 1) (.int 2)] :: [gbkNode])
                                   (vecSource [] :: [combineValuesNode Comb.count.toCombiner]),
                    .stateless [mapOp Val.value],
                    combineGlobalNode Comb.sum.toCombiner (some 1) ] : List (Node Part)), Built nd := by
  intro nd hnd
  simp only [List.mem_cons, List.mem_nil_iff, or_false] at hnd
  rcases hnd with rfl | rfl | rfl | rfl | rfl | rfl
  · refine .sub (.stateless _ ?_)
    intro op hop ps
    simp only [List.mem_cons, List.mem_nil_iff, or_false] at hop
    rcases hop with rfl | rfl
    · show List.map _ ps.flatten = (ps.map (List.map _)).flatten
      rw [List.map_flatten]
    · show List.filter _ ps.flatten = (ps.map (List.filter _)).flatten
      rw [List.filter_flatten]
  · exact .sub .gbk
  · exact .sub (.combineValuesLifted _ Eq lawful_sum)
  · refine .join .left _ _ [gbkNode] [combineValuesNode Comb.count.toCombiner] ?_ ?_
    · intro nd h; simp only [List.mem_singleton] at h; subst h; exact .gbk
    · intro nd h; simp only [List.mem_singleton] at h; subst h; exact .combineValues _ Eq lawful_count
  · refine .sub (.stateless _ ?_)
    intro op hop ps
    simp only [List.mem_singleton] at hop
    subst hop
    show List.map _ ps.flatten = (ps.map (List.map _)).flatten
    rw [List.map_flatten]
  · exact .sub (.combineGlobal _ Eq lawful_sum (some 1))

end IB
