import IbModel.Proofs.ParSeq
import IbModel.Model.Closures
/-!
# C01 — sequential and parallel execution return the same result

Engine level: for EVERY partition type, every chain whose closures meet the explicit node contracts
(`NodeOK`, Proofs/ParSeq.lean), EVERY requested partition count and EVERY fan-out setting, `exec_par`
returns exactly what `exec_seq` returns (same value or same error). The contracts are discharged for
the builders' closures in `Props/C02.lean` (element-wise ops, `VecOpsImpl::split`), `Props/C04.lean`
(group_by_key), `Props/C05.lean` (per-key / global combines under `LawfulCombiner`) and
`Props/C07.lean` (joins).
-/
namespace IB
variable {P : Type}

/-- C01 (engine): parallel = sequential for every chain meeting its node contracts, every `n`. -/
theorem C01_engine (concat : List P → P) (hc1 : ∀ p, concat [p] = p)
    (w : P) (len : Nat) (split : Nat → List P) (hsplit : ∀ k, concat (split k) = w)
    (rest : List (Node P)) (hok : ∀ nd ∈ rest, NodeOK concat nd) (n : Nat) :
    execPar concat (.source w len split :: rest) n = execSeq (.source w len split :: rest) :=
  execPar_eq_execSeq concat hc1 w len split hsplit rest hok n

/-- C01/C05 (termination): the fan-in loop finishes for EVERY fan-out setting — `None`, `Some 0`,
    `Some 1`, … — and its result is the merge of all accumulators up to the accumulator equivalence `R`
    (on accumulators satisfying the invariant `I`, e.g. "is a fold of some values"). -/
theorem C01_fanin_terminates (m : List P → P) (fo : Option Nat)
    (I : P → Prop) (R : P → P → Prop) (hrefl : ∀ a, R a a) (htrans : ∀ {a b c}, R a b → R b c → R a c)
    (hI : ∀ g : List P, (∀ a ∈ g, I a) → I (m g))
    (hm1 : ∀ a, I a → R a (m [a]))
    (hassoc : ∀ gs : List (List P), (∀ g ∈ gs, g ≠ [] ∧ ∀ a ∈ g, I a) → R (m (gs.map m)) (m gs.flatten))
    (accs : List P) (hIa : ∀ a ∈ accs, I a) :
    ∃ x, reduceGlobal m fo accs = pure x ∧ R x (m accs) :=
  reduceGlobal_spec m fo I R hrefl htrans hI hm1 hassoc accs hIa

/-- the pinned commit clamped the fan-out with `.max(1)`: with ≥ 2 accumulators and fan-out 0 or 1
    NO amount of fuel suffices (the real run never returned) -/
theorem C01_legacy_fanout_stuck (m : List P → P) (f : Nat) (hf : f ≤ 1) (accs : List P)
    (h : 2 ≤ accs.length) : Legacy.reduceGlobal m (some f) accs = throw .nonTermination :=
  legacy_reduceGlobal_stuck m f hf accs h

theorem C01_legacy_fanin_no_fuel (m : List P → P) (fuel : Nat) (accs : List P) (h : 2 ≤ accs.length) :
    fanIn m 1 fuel accs = none :=
  fanIn_one_stuck m fuel accs h

/-- the partition count the engine actually uses is between 1 and max(len, 1) -/
theorem C01_clampParts (n len : Nat) : 1 ≤ clampParts n len ∧ clampParts n len ≤ max len 1 := by
  unfold clampParts; omega

end IB
