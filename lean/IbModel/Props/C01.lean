import IbModel.Proofs.ParSeq
import IbModel.Proofs.PlanOK
import IbModel.Proofs.VecSplit
import IbModel.Props.C04
import IbModel.Props.C05
import IbModel.Model.Closures
import IbModel.Proofs.ProgramBuilt
import IbModel.Proofs.Terminals
import IbModel.Proofs.JoinX
import IbModel.Proofs.LiftPair
/-!
# C01 — sequential and parallel execution return the same result

Engine level: for EVERY partition type, every chain whose closures meet the explicit node contracts
(`NodeOK`, Proofs/ParSeq.lean), EVERY requested partition count and EVERY fan-out setting, `exec_par`
returns exactly what `exec_seq` returns (same value or same error). The contracts are discharged for
the builders' closures in `Props/C02.lean` (element-wise ops, `VecOpsImpl::split`), `Props/C04.lean`
(group_by_key), `Props/C05.lean` (per-key / global combines under `LawfulCombiner`) and
`Props/C07.lean` (joins).

Round 3 additions (last sections of this file):
* the sorted terminals `collect_seq_sorted` / `collect_par_sorted` / `collect_par_sorted_by_key`: the `Ord`-sorted
  result is a function of the MULTISET of rows (`C01_sorted_of_same_multiset`), so after a barrier — where the
  real engine agrees across modes only up to row order — the sorted sequences still agree exactly; the stable
  key-only sort is determined up to the order of equal-key rows (`C01_sorted_by_key_of_same_multiset_partial`,
  negation `C01_sorted_by_key_not_a_function_of_the_multiset`) and exactly for barrier-free programs;
* sources: `from_iter` (`C01_from_iter`) and `from_custom_source` with a user `VecOps` whose `len` may answer
  `None` / anything and whose `split` may answer `None`, more, fewer or empty parts (`C01_custom_source`,
  `C01_program_custom`) — under the `VecOps` contract "the parts concatenate to `clone_any`", which is needed
  (`C01_custom_source_contract_needed`);
* FLOAT AGGREGATES ("aggregates that accumulate floating-point sums agree up to rounding"). PROVED: the
  exact-arithmetic statement — `Sum` / `Average` over `Rat` are lawful combiners (`Props/C06.lean`), the engine
  evaluates a merge tree of the per-partition folds (`C01_pipeline`, `program_combineGlobally_value(_par)`,
  `program_combineValues_value`), hence over exact numbers both modes return the same value for every partition
  count and fan-out. ONLY EXERCISED (no theorem; Lean's `Float` is opaque to the kernel): that the IEEE-double
  results of the two modes stay within 1e-9 relative of each other and of the row-order fold
  (`Model/ProgramFloat.lean`, `PIPEFL` requests: `Sum<f64>` / `AverageF64` through all four combine entry points,
  every fan-out, the standard partition counts, private rayon pools of 1..16 threads; NON-NEGATIVE terms only, up
  to 400 of them, so that cancellation cannot make a correct run miss the tolerance — the standard bound
  `(n-1)·2⁻⁵³` for recursive summation of same-sign terms is an assumption, not a theorem here).
-/
namespace IB
variable {P : Type}

/-- C01 (engine): parallel = sequential for every chain meeting its node contracts, every `n`. -/
theorem C01_engine (concat : List P → P) (hc1 : ∀ p, concat [p] = p)
    (w : P) (len : Nat) (split : Nat → List P) (hsplit : ∀ k, concat (split k) = w)
    (rest : List (Node P)) (hok : ∀ nd ∈ rest, NodeOK concat nd) (n : Nat) :
    execPar concat (.source w len split :: rest) n = execSeq (.source w len split :: rest) :=
  execPar_eq_execSeq concat hc1 w len split hsplit rest hok n

/-- C01/C05 (termination): the fan-in loop finishes for EVERY fan-out setting — `None`, `Some 0`,
    `Some 1`, … — and its result is the merge of all accumulators up to the accumulator equivalence `R`
    (on accumulators satisfying the invariant `I`, e.g. "is a fold of some values"). -/
theorem C01_fanin_terminates (m : List P → P) (fo : Option Nat)
    (I : P → Prop) (R : P → P → Prop) (hrefl : ∀ a, R a a) (htrans : ∀ {a b c}, R a b → R b c → R a c)
    (hI : ∀ g : List P, (∀ a ∈ g, I a) → I (m g))
    (hm1 : ∀ a, I a → R a (m [a]))
    (hassoc : ∀ gs : List (List P), (∀ g ∈ gs, g ≠ [] ∧ ∀ a ∈ g, I a) → R (m (gs.map m)) (m gs.flatten))
    (accs : List P) (hIa : ∀ a ∈ accs, I a) :
    ∃ x, reduceGlobal m fo accs = pure x ∧ R x (m accs) :=
  reduceGlobal_spec m fo I R hrefl htrans hI hm1 hassoc accs hIa

/-- the pinned commit clamped the fan-out with `.max(1)`: with ≥ 2 accumulators and fan-out 0 or 1
    NO amount of fuel suffices (the real run never returned) -/
theorem C01_legacy_fanout_stuck (m : List P → P) (f : Nat) (hf : f ≤ 1) (accs : List P)
    (h : 2 ≤ accs.length) : Legacy.reduceGlobal m (some f) accs = throw .nonTermination :=
  legacy_reduceGlobal_stuck m f hf accs h

theorem C01_legacy_fanin_no_fuel (m : List P → P) (fuel : Nat) (accs : List P) (h : 2 ≤ accs.length) :
    fanIn m 1 fuel accs = none :=
  fanIn_one_stuck m fuel accs h

/-- the partition count the engine actually uses is between 1 and max(len, 1) -/
theorem C01_clampParts (n len : Nat) : 1 ≤ clampParts n len ∧ clampParts n len ≤ max len 1 := by
  unfold clampParts; omega

end IB

/-! ## The planned chain, and the chains the builders produce -/

namespace IB
open Val

/-! `SubBuilt` (nodes a sub-plan / join side may contain: blocks of partition-homomorphic operators,
    group_by_key, per-key and global combines with ANY lawful combiner) and `Built` (those, or a join of two
    sub-plans over vector sources) are defined in `Proofs/ProgramBuilt.lean`, which also shows that the chains
    of the program library consist of such nodes (last section of this file). -/

theorem subBuilt_ok {nd : Node Part} (h : SubBuilt nd) : SubNodeOK List.flatten nd := by
  cases h with
  | stateless ops h => exact h
  | gbk => exact gbkNode_ok
  | combineValues c R hc => exact combineValuesNode_ok hc
  | combineValuesLifted c R hc => exact combineValuesLiftedNode_ok hc
  | combineGlobal c R hc fo => exact combineGlobal_contract hc fo
  | combineGlobalLifted c R hc fo => exact combineGlobalLifted_contract hc fo

theorem subBuilt_nodeOK {nd : Node Part} (h : SubBuilt nd) : NodeOK List.flatten nd := by
  have := subBuilt_ok h
  cases h <;> exact this

theorem subBuilt_liftOK {nd : Node Part} (h : SubBuilt nd) : LiftOK List.flatten nd := by
  cases h with
  | combineValuesLifted c R hc => exact combineValuesNode_ok hc
  | stateless ops h => trivial
  | gbk => trivial
  | combineValues c R hc => trivial
  | combineGlobal c R hc fo => trivial
  | combineGlobalLifted c R hc fo => trivial

theorem built_nodeOK {nd : Node Part} (h : Built nd) : NodeOK List.flatten nd := by
  cases h with
  | sub h => exact subBuilt_nodeOK h
  | join k xs ys l r hl hr =>
    refine ⟨⟨fun n => vecSplit_flatten xs n, fun nd hnd => subBuilt_ok (hl nd hnd)⟩,
            ⟨fun n => vecSplit_flatten ys n, fun nd hnd => subBuilt_ok (hr nd hnd)⟩, rfl, rfl⟩

theorem built_liftOK {nd : Node Part} (h : Built nd) : LiftOK List.flatten nd := by
  cases h with
  | sub h => exact subBuilt_liftOK h
  | join k xs ys l r hl hr => trivial

/-- **C01, as the user sees it.** For every source vector, every chain of builder-made nodes (element-wise
    blocks, group_by_key, per-key and global combines with ANY lawful combiner and ANY fan-out, joins
    whose sides have their own transform/group/combine prefixes), and EVERY partition count `n`:
    `collect_par` (the parallel engine on the PLANNED chain) returns exactly what `collect_seq`
    returns — the same rows in the same (model) order, or the same error. -/
theorem C01_pipeline (xs : List Val) (rest : List (Node Part)) (h : ∀ nd ∈ rest, Built nd) (n : Nat) :
    execPar List.flatten (optimise (vecSource xs :: rest)) n = execSeq (optimise (vecSource xs :: rest)) := by
  obtain ⟨rest', hshape, hok⟩ := optimise_source_shape List.flatten xs xs.length (vecSplit xs) rest
    (fun nd hnd => built_nodeOK (h nd hnd)) (fun nd hnd => built_liftOK (h nd hnd))
  have hs : vecSource xs = Node.source xs xs.length (vecSplit xs) := rfl
  rw [hs, hshape]
  exact execPar_eq_execSeq List.flatten (fun p => by simp) xs xs.length (vecSplit xs)
    (fun k => vecSplit_flatten xs k) rest' hok n

/-- … and for ANY source that meets the source contract `concat (split n) = whole` — in particular the
    streamed file sources, whose contract is `IB.Io.clone_any_eq_concat_split` (Props/C09: the per-shard
    reads concatenate to the whole read for every shard size, including zero shards). -/
theorem C01_pipeline_any_source (w : Part) (len : Nat) (split : Nat → List Part)
    (hsplit : ∀ k, (split k).flatten = w) (rest : List (Node Part)) (h : ∀ nd ∈ rest, Built nd) (n : Nat) :
    execPar List.flatten (optimise (.source w len split :: rest)) n
      = execSeq (optimise (.source w len split :: rest)) := by
  obtain ⟨rest', hshape, hok⟩ := optimise_source_shape List.flatten w len split rest
    (fun nd hnd => built_nodeOK (h nd hnd)) (fun nd hnd => built_liftOK (h nd hnd))
  rw [hshape]
  exact execPar_eq_execSeq List.flatten (fun p => by simp) w len split hsplit rest' hok n

/-- the same for the literal (un-planned) chain -/
theorem C01_pipeline_literal (xs : List Val) (rest : List (Node Part)) (h : ∀ nd ∈ rest, Built nd) (n : Nat) :
    execPar List.flatten (vecSource xs :: rest) n = execSeq (vecSource xs :: rest) :=
  execPar_eq_execSeq List.flatten (fun p => by simp) xs xs.length (vecSplit xs)
    (fun k => vecSplit_flatten xs k) rest (fun nd hnd => built_nodeOK (h nd hnd)) n

/-- joins: the outer chain restarts at the 1-element dummy source -/
theorem C01_pipeline_after_join (rest : List (Node Part)) (h : ∀ nd ∈ rest, Built nd) (n : Nat) :
    execPar List.flatten (optimise (dummySource :: rest)) n = execSeq (optimise (dummySource :: rest)) :=
  C01_pipeline [.int 0] rest h n

/-! non-vacuity: a concrete chain with an element-wise block, a group_by_key lifted into a combine, a
    global combine with fan-out 1 and a join meets the hypotheses -/
example : ∀ nd ∈ ([ .stateless [mapValuesOp (fun v => .int (v.toInt + 1)), filterValuesOp (fun v => v.toInt % 2 == 0)],
                    gbkNode, combineValuesLiftedNode Comb.sum.toCombiner,
                    joinNode .left (vecSource [.pair (.int 1) (.int 2)] :: [gbkNode])
                                   (vecSource [] :: [combineValuesNode Comb.count.toCombiner]),
                    .stateless [mapOp Val.value],
                    combineGlobalNode Comb.sum.toCombiner (some 1) ] : List (Node Part)), Built nd := by
  intro nd hnd
  simp only [List.mem_cons, List.mem_nil_iff, or_false] at hnd
  rcases hnd with rfl | rfl | rfl | rfl | rfl | rfl
  · refine .sub (.stateless _ ?_)
    intro op hop ps
    simp only [List.mem_cons, List.mem_nil_iff, or_false] at hop
    rcases hop with rfl | rfl
    · show List.map _ ps.flatten = (ps.map (List.map _)).flatten
      rw [List.map_flatten]
    · show List.filter _ ps.flatten = (ps.map (List.filter _)).flatten
      rw [List.filter_flatten]
  · exact .sub .gbk
  · exact .sub (.combineValuesLifted _ Eq lawful_sum)
  · refine .join .left _ _ [gbkNode] [combineValuesNode Comb.count.toCombiner] ?_ ?_
    · intro nd h; simp only [List.mem_singleton] at h; subst h; exact .gbk
    · intro nd h; simp only [List.mem_singleton] at h; subst h; exact .combineValues _ Eq lawful_count
  · refine .sub (.stateless _ ?_)
    intro op hop ps
    simp only [List.mem_singleton] at hop
    subst hop
    show List.map _ ps.flatten = (ps.map (List.map _)).flatten
    rw [List.map_flatten]
  · exact .sub (.combineGlobal _ Eq lawful_sum (some 1))

/-! ## Programs: the functions the correspondence driver runs

`ibdriver` answers every `PIPE` request with `runSeq src steps`, `runPar src steps n` or
`runLiteral src steps` (`Model/Program.lean`), where `steps : List Step` is a program of the named
function library (`Fn`, `Pred`, `FlatFn`, `KeyFn`, `BatchFn`, `Comb`) — the same requests the harness runs
through the real `collect_seq` / `collect_par`. The theorems of this section are about exactly these
functions; `Proofs/ProgramBuilt.lean` shows that the chain `litChain src steps` consists of `Built` nodes.

`stepsSupported steps` (decidable, `Proofs/ProgramBuilt.lean`) accepts every program with AT MOST ONE
top-level join (at any position; its right-side program join-free) whose steps — including those of the
join's right side — are any of the builder calls of `Step` EXCEPT
* `map_batches` / `map_values_batches` with the slice-dependent chunk functions `BatchFn.rev`, `BatchFn.sumall`
  (partition-dependent by the operator's documented per-partition semantics; `BatchFn.each f` is covered).
Every combiner of the library is covered, `TopK` included (`Comb.topK k` in the four combine entry points and
`top_k_per_key`): the pipeline model's TopK is C06's literal model of the real `merge` (extend path +
two-pointer path) over `Val.le`, which is a total order on ALL values (`Props/C05.lean::lawful_topK`).
Programs with two or more top-level joins (`stepsNested`: a join fed by a join) and programs whose one
join has a right side containing a join (`stepsRightNested`) are covered separately: both engines reject
them with `nestedCoGroup`, so parallel = sequential there too. -/

/-- shape of the literal chain of a covered program: a vector source followed by `Built` nodes only
    (the program's own source — or, after a join, the 1-element dummy source, the join node whose two
    sides are vector sources followed by `SubBuilt` nodes, and the nodes of the later steps) -/
theorem C01_litChain_built (src : List Val) (steps : List Step) (h : stepsSupported steps = true) :
    ∃ xs rest, (xs = src ∨ vecSource xs = dummySource) ∧
      litChain src steps = vecSource xs :: rest ∧ ∀ nd ∈ rest, Built nd :=
  litChain_built src steps h

/-- the precise form for a program with its one join: `Step.join` REPLACES the lineage by
    `[dummy, joinNode k <left lineage> <right lineage>, map id]` -/
theorem C01_litChain_one_join (src : List Val) (pre post : List Step) (k : JoinKind) (rsrc : List Val)
    (rsteps : List Step) (hpre : pre.all Step.subSupported = true)
    (hrs : rsteps.all Step.subSupported = true) (hpost : post.all Step.subSupported = true) :
    ∃ l r p, litChain src (pre ++ Step.join k rsrc rsteps :: post)
        = dummySource :: joinNode k (vecSource src :: l) (vecSource rsrc :: r) :: st (mapOp id) :: p ∧
      (∀ nd ∈ l, SubBuilt nd) ∧ (∀ nd ∈ r, SubBuilt nd) ∧ (∀ nd ∈ p, SubBuilt nd) :=
  litChain_one_join src pre post k rsrc rsteps hpre hrs hpost

/-- **C01 for the programs the driver runs.** For every source vector, every covered program (any
    mixture of element-wise steps, group_by_key, per-key / global combines with any fan-out, `distinct`,
    `distinct_per_key`, side inputs, `try_map`, debug taps, one join at any position with a transformed
    right side) and EVERY partition count `n`: `runPar src steps n = runSeq src steps` — the same rows in
    the same (model) order, or the same error. -/
theorem C01_program (src : List Val) (steps : List Step) (h : stepsSupported steps = true) (n : Nat) :
    runPar src steps n = runSeq src steps := by
  obtain ⟨xs, rest, _, hshape, hb⟩ := litChain_built src steps h
  unfold runPar runSeq
  rw [hshape]
  exact C01_pipeline xs rest hb n

/-- "any partition count", said directly: two parallel runs of the same program with different partition counts
    return the same rows in the same order (or the same error) — the count is not observable in the result -/
theorem C01_partition_count_irrelevant (src : List Val) (steps : List Step) (h : stepsSupported steps = true)
    (n m : Nat) : runPar src steps n = runPar src steps m := by
  rw [C01_program src steps h n, C01_program src steps h m]

/-- … and the same for any chain of built nodes (arbitrary lawful combiners, arbitrary fan-out) -/
theorem C01_pipeline_partition_count_irrelevant (xs : List Val) (rest : List (Node Part))
    (h : ∀ nd ∈ rest, Built nd) (n m : Nat) :
    execPar List.flatten (optimise (vecSource xs :: rest)) n
      = execPar List.flatten (optimise (vecSource xs :: rest)) m := by
  rw [C01_pipeline xs rest h n, C01_pipeline xs rest h m]

/-- the same for the literal (un-planned) chain: the parallel engine on `litChain` returns what
    `runLiteral` (the reference of C02/C03) returns -/
theorem C01_program_literal (src : List Val) (steps : List Step) (h : stepsSupported steps = true)
    (n : Nat) : execPar List.flatten (litChain src steps) n = runLiteral src steps := by
  obtain ⟨xs, rest, _, hshape, hb⟩ := litChain_built src steps h
  unfold runLiteral
  rw [hshape]
  exact C01_pipeline_literal xs rest hb n

/-- nested joins, left: a program with two or more top-level joins (the later join's LEFT lineage
    contains a join) is rejected with `nestedCoGroup` by both engines, planned and literal, for every
    partition count — whatever its other steps are (NO support hypothesis) -/
theorem C01_program_nested (src : List Val) (steps : List Step) (h : stepsNested steps = true) :
    runSeq src steps = .error .nestedCoGroup ∧ (∀ n, runPar src steps n = .error .nestedCoGroup) ∧
    runLiteral src steps = .error .nestedCoGroup ∧
    (∀ n, execPar List.flatten (litChain src steps) n = .error .nestedCoGroup) := by
  obtain ⟨h1, h2, h3, h4⟩ := nestedShape_rejected _ (litChain_nested src steps h)
  exact ⟨h3, h4, h1, h2⟩

/-- nested joins, right: one top-level join whose right-side program contains a join, after covered
    steps (so that the left lineage runs), followed by arbitrary join-free steps: `nestedCoGroup` in both
    modes -/
theorem C01_program_right_nested (src : List Val) (steps : List Step) (h : stepsRightNested steps = true) :
    runSeq src steps = .error .nestedCoGroup ∧ (∀ n, runPar src steps n = .error .nestedCoGroup) ∧
    runLiteral src steps = .error .nestedCoGroup ∧
    (∀ n, execPar List.flatten (litChain src steps) n = .error .nestedCoGroup) := by
  obtain ⟨k, l, r, rest, hshape, hl, hr⟩ := litChain_rightNested src steps h
  have hs : RightNestedShape (litChain src steps) :=
    ⟨k, _, r, rest, hshape, ⟨fun n => vecSplit_flatten src n, fun nd hnd => subBuilt_ok (hl nd hnd)⟩, hr⟩
  obtain ⟨h1, h2, h3, h4⟩ := rightNestedShape_rejected _ hs
  exact ⟨h3, h4, h1, h2⟩

/-- all three classes together: parallel = sequential for every partition count -/
theorem C01_program_all (src : List Val) (steps : List Step)
    (h : (stepsSupported steps || stepsNested steps || stepsRightNested steps) = true) (n : Nat) :
    runPar src steps n = runSeq src steps := by
  simp only [Bool.or_eq_true] at h
  rcases h with (h | h) | h
  · exact C01_program src steps h n
  · obtain ⟨h1, h2, _, _⟩ := C01_program_nested src steps h
    rw [h1, h2 n]
  · obtain ⟨h1, h2, _, _⟩ := C01_program_right_nested src steps h
    rw [h1, h2 n]

/-! non-vacuity: programs of the harness corpora are covered (`decide` on literals = witnesses) -/

/-- `c01.rs::corpus()`: fan-out 0 / 1 global combines, lifted combines, the reorder witness -/
example : stepsSupported [.combineGlobally .sum (some 0)] = true := by decide
example : stepsSupported [.combineGlobally .count (some 1)] = true := by decide
example : stepsSupported [.combineGloballyLifted .maxT (some 2)] = true := by decide
example : stepsSupported [.combineValuesLifted .sum] = true := by decide
example : stepsSupported [.gbk, .combineValuesLifted .sum] = true := by decide
example : stepsSupported [.mapValues (.add 1), .filterValues .even] = true := by decide
/-- … its join program: a left join whose right side has a `map_values`, then a per-key combine -/
example : stepsSupported
    [.join .left [.pair (.int 1) (.int 7), .pair (.int 3) (.int 9)] [.mapValues .neg], .combineValues .sum]
    = true := by decide
/-- `c01.rs` exhaustive block / `c05.rs`: `gbk ; combine_values_lifted count`, `values ; global sum` -/
example : stepsSupported [.gbk, .combineValuesLifted .count] = true := by decide
example : stepsSupported [.values, .combineGlobally .sum (some 2)] = true := by decide
example : stepsSupported [.gbk, .glen] = true := by decide
/-- `c07.rs` corpus: an EMPTY source with a global combine, keyed, on either side of a join -/
example : stepsSupported [.combineGlobally .sum none, .topair,
    .join .full [.pair (.int 0) (.int 7), .pair (.int 1) (.int 8)] []] = true := by decide
example : stepsSupported [.join .inner [] [.combineGlobally .sum none, .topair]] = true := by decide
/-- a longer mixed program: element-wise batch step, side input, distinct_per_key, join with a grouped and
    combined right side, downstream barrier and global combine with fan-out 1 -/
example : stepsSupported
    [.map (.add 1), .mapBatches 2 (.each (.mul 2)), .mapSide [1, -2], .keyBy (.kmod 3), .distinctPerKey,
     .join .right [.int 1, .int 2, .int 3] [.keyBy (.kmod 2), .gbk, .combineValuesLifted .minT],
     .unkey, .debugCount, .values, .combineGloballyLifted .count (some 1)] = true := by decide
/-- TopK in every entry point (`c01.rs` / `c05.rs` generate these, with ties): global with a fan-out, per
    key, lifted after a grouping, `top_k_per_key`, and on the right side of a join -/
example : stepsSupported [.values, .combineGlobally (.topK 2) (some 3)] = true := by decide
example : stepsSupported [.topKPerKey 2] = true := by decide
example : stepsSupported [.gbk, .combineValuesLifted (.topK 3), .ungroup, .values,
    .combineGloballyLifted (.topK 0) none] = true := by decide
example : stepsSupported [.join .inner [.pair (.int 1) (.int 7)] [.topKPerKey 1, .ungroup], .combineValues (.topK 2)]
    = true := by decide
/-- NOT covered (the predicate is not trivially true): slice-dependent chunk functions, a join inside a join side -/
example : stepsSupported [.mapBatches 2 .rev] = false := by decide
example : stepsSupported [.mapValuesBatches 3 .sumall, .topKPerKey 2] = false := by decide
example : stepsSupported [.join .inner [] [.join .left [] []]] = false := by decide
/-- `a.join(b).join(c)` is the nested class; a join whose right side is a join result the right-nested one -/
example : stepsNested [.join .inner [] [], .mapValues .neg, .join .left [] []] = true := by decide
example : stepsRightNested [.mapValues .neg, .join .left [] [.join .inner [] [], .unkey], .combineValues (.topK 1)]
    = true := by decide

/-- the theorem applied to the corpus join program: the concrete parallel result for EVERY `n` equals
    the sequential one, which evaluates to the expected rows -/
example (n : Nat) :
    runPar [.pair (.int 1) (.int 1), .pair (.int 1) (.int 2), .pair (.int 2) (.int 5)]
      [.join .left [.pair (.int 1) (.int 7), .pair (.int 3) (.int 9)] [.mapValues .neg], .combineValues .count] n
    = runSeq [.pair (.int 1) (.int 1), .pair (.int 1) (.int 2), .pair (.int 2) (.int 5)]
      [.join .left [.pair (.int 1) (.int 7), .pair (.int 3) (.int 9)] [.mapValues .neg], .combineValues .count] :=
  C01_program _ _ (by decide) n

/-! ## C05 / C04 at program level: a program followed by one barrier step

The planner never looks across a `CombineGlobal`, an un-lifted `CombineValues` or a trailing `GroupByKey`
node, and the sequential engine is a left fold. Hence, for EVERY program `pre` (joins, uncovered steps,
failing programs included) and every combiner, the planned run of `pre ++ [step]` is the planned run of
`pre` continued by that step's closures (`>>=` propagates an error of `pre` unchanged). With `C01_program`
the same value is returned by `runPar` for every partition count when the program is covered. The
per-key / global / grouping theorems of `Props/C05.lean`, `Props/C04.lean` then describe the result. -/

/-- C05 (global): `pre ; combine_globally(c, fo)` returns EXACTLY ONE row, `finish (foldAdd create rows)` over
    the rows `pre` returns, for every combiner (`TopK` included) and every fan-out setting -/
theorem program_combineGlobally_value (src : List Val) (pre : List Step) (c : Comb) (fo : Option Nat) :
    runSeq src (pre ++ [.combineGlobally c fo]) =
      (runSeq src pre >>= fun rows =>
        pure [c.toCombiner.finish (c.toCombiner.foldAdd c.toCombiner.create rows)]) := by
  rw [runSeq_snoc_barrier src pre (.combineGlobally c fo) rfl (combineGlobalNode c.toCombiner fo)
    (if c.globalNeedsConv then [st (mapOp id)] else []) (by simp only [Step.apply]; rfl)
    (by intro ops h; cases h) (by intro lp lg m h; cases h)
    (by intro l m lp lg mm r h; have := (List.cons.inj h).1; cases this)
    (optimise_conv_tail _)]
  congr 1
  funext rows
  rw [seqFold_conv_tail]
  exact cg_seq_value c.toCombiner fo rows

/-- … and in parallel mode, for every partition count, when the program is covered -/
theorem program_combineGlobally_value_par (src : List Val) (pre : List Step) (c : Comb) (fo : Option Nat)
    (h : stepsSupported (pre ++ [.combineGlobally c fo]) = true) (n : Nat) :
    runPar src (pre ++ [.combineGlobally c fo]) n =
      (runSeq src pre >>= fun rows =>
        pure [c.toCombiner.finish (c.toCombiner.foldAdd c.toCombiner.create rows)]) := by
  rw [C01_program src _ h n, program_combineGlobally_value]

/-- C05 (global, lifted entry point): the same single row, for every combiner (`TopK` included) -/
theorem program_combineGloballyLifted_value (src : List Val) (pre : List Step) (c : Comb) (fo : Option Nat) :
    runSeq src (pre ++ [.combineGloballyLifted c fo]) =
      (runSeq src pre >>= fun rows =>
        pure [c.toCombiner.finish (c.toCombiner.foldAdd c.toCombiner.create rows)]) := by
  rw [runSeq_snoc_barrier src pre (.combineGloballyLifted c fo) rfl (combineGlobalLiftedNode c.toCombiner fo)
    (if c.globalNeedsConv then [st (mapOp id)] else []) (by simp only [Step.apply]; rfl)
    (by intro ops h; cases h) (by intro lp lg m h; cases h)
    (by intro l m lp lg mm r h; have := (List.cons.inj h).1; cases this)
    (optimise_conv_tail _)]
  congr 1
  funext rows
  rw [seqFold_conv_tail]
  exact cg_lifted_seq_value (Comb.lawful c) fo rows

/-- C05 (per key): `pre ; combine_values(c)` returns what the combine's closures return on the rows of
    `pre` — for every program and every combiner -/
theorem program_combineValues_value (src : List Val) (pre : List Step) (c : Comb) :
    runSeq src (pre ++ [.combineValues c]) =
      (runSeq src pre >>= fun rows =>
        pure (combineMerge c.toCombiner [combineLocalPairs c.toCombiner rows])) := by
  rw [runSeq_snoc_barrier src pre (.combineValues c) rfl (combineValuesNode c.toCombiner)
    (if c.perKeyNeedsConv then [st (mapOp id)] else []) (by simp only [Step.apply]; rfl)
    (by intro ops h; cases h) (by intro lp lg m h; cases h)
    (by intro l m lp lg mm r h; have := (List.cons.inj h).1; cases this)
    (optimise_conv_tail _)]
  congr 1
  funext rows
  rw [seqFold_conv_tail]
  rfl

/-- … hence (C05 `cv_keys_nodup`, `cv_seq_value`): exactly one output row per distinct key of `pre`'s rows,
    holding `finish (foldAdd create [v | (k, v) ∈ rows])` — sequentially, and in parallel for EVERY partition
    count when the program is covered -/
theorem program_combineValues_spec (src : List Val) (pre : List Step) (c : Comb) (rows : List Val)
    (hpre : runSeq src pre = .ok rows) :
    ∃ out, runSeq src (pre ++ [.combineValues c]) = .ok out ∧
      (stepsSupported (pre ++ [.combineValues c]) = true →
        ∀ n, runPar src (pre ++ [.combineValues c]) n = .ok out) ∧
      (out.map Val.key).Nodup ∧
      ∀ k, lookupKV (decAccs out) k =
        if k ∈ rows.map Val.key
        then Option.some (c.toCombiner.finish (c.toCombiner.foldAdd c.toCombiner.create
          ((rows.filter (fun r => r.key == k)).map Val.value)))
        else Option.none := by
  have hseq : runSeq src (pre ++ [.combineValues c])
      = .ok (combineMerge c.toCombiner [combineLocalPairs c.toCombiner rows]) := by
    rw [program_combineValues_value, hpre]; rfl
  refine ⟨_, hseq, fun hs n => by rw [C01_program src _ hs n, hseq], cv_keys_nodup _ _, ?_⟩
  intro k
  exact cv_seq_value (Comb.lawful c) rows k

/-- C04: `pre ; group_by_key` returns the grouping closures' result on the rows of `pre` — for every program;
    `gbk_seq_keys_nodup / _keys_exact / _values / _flatten_perm` (Props/C04) describe it -/
theorem program_gbk_value (src : List Val) (pre : List Step) :
    runSeq src (pre ++ [.gbk]) = (runSeq src pre >>= fun rows => pure (gbkMerge [gbkLocal rows])) := by
  rw [runSeq_snoc_barrier src pre .gbk rfl gbkNode [] (by simp only [Step.apply]; rfl)
    (by intro ops h; cases h) (by intro lp lg m h; cases h)
    (by intro l m lp lg mm r h; have := (List.cons.inj h).2; cases this) rfl]
  congr 1

/-- … in parallel mode for every partition count, when the program is covered -/
theorem program_gbk_value_par (src : List Val) (pre : List Step)
    (h : stepsSupported (pre ++ [.gbk]) = true) (n : Nat) :
    runPar src (pre ++ [.gbk]) n = (runSeq src pre >>= fun rows => pure (gbkMerge [gbkLocal rows])) := by
  rw [C01_program src _ h n, program_gbk_value]

/-- witnesses: the corpus programs `[combine_globally sum (some 0)]` on `1..4` and
    `[values, combine_globally sum (some 2)]`, through the theorems above (every partition count) -/
example (n : Nat) :
    runPar [.int 1, .int 2, .int 3, .int 4] ([] ++ [.combineGlobally .sum (some 0)]) n = .ok [.int 10] := by
  rw [program_combineGlobally_value_par _ _ _ _ (by decide)]; rfl
example (n : Nat) :
    runPar [.pair (.int 1) (.int 5), .pair (.int 2) (.int 6)] ([.values] ++ [.combineGlobally .sum (some 2)]) n
      = .ok [.int 11] := by
  rw [program_combineGlobally_value_par _ _ _ _ (by decide)]; rfl

/-- the hypotheses of `program_combineValues_spec` / `program_combineGloballyLifted_value` are met by a
    concrete program: `key_by(x % 2) ; combine_values(sum)` on `[1,2,3]` gives key 1 ↦ 4 in both modes -/
example : ∃ out,
    runSeq [.int 1, .int 2, .int 3] ([.keyBy (.kmod 2)] ++ [.combineValues .sum]) = .ok out ∧
    (∀ n, runPar [.int 1, .int 2, .int 3] ([.keyBy (.kmod 2)] ++ [.combineValues .sum]) n = .ok out) ∧
    lookupKV (decAccs out) (.int 1) = Option.some (.int 4) := by
  obtain ⟨out, h1, h2, _, h4⟩ := program_combineValues_spec [.int 1, .int 2, .int 3] [.keyBy (.kmod 2)] .sum
    [.pair (.int 1) (.int 1), .pair (.int 0) (.int 2), .pair (.int 1) (.int 3)] rfl
  exact ⟨out, h1, h2 (by decide), by rw [h4]; decide⟩

/-- **`top_k_per_key(k)` at program level.** After ANY program `pre` that returns `rows`: one output row per
    distinct key, holding the `k` largest of that key's values in descending order (`Val.le`; ties between
    values of equal `toInt` by the structural order) — sequentially, and in parallel for EVERY partition count
    when the program is covered -/
theorem program_topKPerKey_spec (src : List Val) (pre : List Step) (k : Nat) (rows : List Val)
    (hpre : runSeq src pre = .ok rows) :
    ∃ out, runSeq src (pre ++ [.topKPerKey k]) = .ok out ∧
      (stepsSupported (pre ++ [.topKPerKey k]) = true →
        ∀ n, runPar src (pre ++ [.topKPerKey k]) n = .ok out) ∧
      (out.map Val.key).Nodup ∧
      ∀ key, lookupKV (decAccs out) key =
        if key ∈ rows.map Val.key
        then Option.some (Val.ofList
          ((((rows.filter (fun r => r.key == key)).map Val.value).mergeSort (fun a b => Val.le b a)).take k))
        else Option.none := by
  have hval : runSeq src (pre ++ [.topKPerKey k]) =
      (runSeq src pre >>= fun rows =>
        pure (combineMerge (Comb.topK k).toCombiner [combineLocalPairs (Comb.topK k).toCombiner rows])) := by
    rw [runSeq_snoc_barrier src pre (.topKPerKey k) rfl (combineValuesNode (Comb.topK k).toCombiner) []
      (by simp only [Step.apply]; rfl)
      (by intro ops h; cases h) (by intro lp lg m h; cases h)
      (by intro l m lp lg mm r h; have := (List.cons.inj h).1; cases this) rfl]
    congr 1
  have hseq : runSeq src (pre ++ [.topKPerKey k])
      = .ok (combineMerge (Comb.topK k).toCombiner [combineLocalPairs (Comb.topK k).toCombiner rows]) := by
    rw [hval, hpre]; rfl
  refine ⟨_, hseq, fun hs n => by rw [C01_program src _ hs n, hseq], cv_keys_nodup _ _, ?_⟩
  intro key
  rw [cv_seq_value (lawful_topK k) rows key, topK_value]

/-- the theorem applied: `key_by(x % 2) ; top_k_per_key(2)` on `[1,2,3,5]` gives key 1 ↦ `[5, 3]` for every
    partition count (the statement's right-hand side is computed by the theorem, not by evaluation) -/
example : ∃ out,
    runSeq [.int 1, .int 2, .int 3, .int 5] ([.keyBy (.kmod 2)] ++ [.topKPerKey 2]) = .ok out ∧
    (∀ n, runPar [.int 1, .int 2, .int 3, .int 5] ([.keyBy (.kmod 2)] ++ [.topKPerKey 2]) n = .ok out) := by
  obtain ⟨out, h1, h2, _, _⟩ := program_topKPerKey_spec [.int 1, .int 2, .int 3, .int 5] [.keyBy (.kmod 2)] 2
    [.pair (.int 1) (.int 1), .pair (.int 0) (.int 2), .pair (.int 1) (.int 3), .pair (.int 1) (.int 5)] rfl
  exact ⟨out, h1, h2 (by decide)⟩

end IB

/-! ## Streamed file sources (the driver's `runSeqFile` / `runParFile`, request kind `PIPEF`) -/

namespace IB

/-- the file source meets the source contract for EVERY shard size (0 is clamped to 1; an empty file has
    zero shards) and every requested partition count (which it ignores) -/
theorem fileSplit_flatten (xs : List Val) (per k : Nat) : (fileSplit xs per k).flatten = xs := by
  unfold fileSplit
  exact chunksOf_flatten (max per 1) (by omega) xs.length xs (Nat.le_refl _)

/-- **C01 over a streamed file source.** For every join-free covered program over a file source with ANY
    `lines_per_shard`, `collect_par` returns what `collect_seq` returns, for every partition count. -/
theorem C01_program_file (src : List Val) (per : Nat) (steps : List Step)
    (h : steps.all Step.subSupported = true) (n : Nat) :
    runParFile src per steps n = runSeqFile src per steps := by
  have hchain : litChainFile src per steps = fileSource src per :: steps.flatMap (Step.apply []) := by
    unfold litChainFile
    rw [applySteps_joinFree steps (steps_joinFree_of_sub steps h)]; rfl
  unfold runParFile runSeqFile
  rw [hchain]
  exact C01_pipeline_any_source src src.length (fileSplit src per) (fileSplit_flatten src per)
    _ (fun nd hnd => .sub (steps_nodes_subBuilt steps h nd hnd)) n

/-- non-vacuity: an empty file (zero shards) in front of a global combine still yields the single row -/
example : runParFile [] 3 [.combineGlobally .sum (some 1)] 4 = .ok [.int 0] ∧
    runSeqFile [] 3 [.combineGlobally .sum (some 1)] = .ok [.int 0] := by
  constructor <;> rfl

/-! ## Round 3: the sorted terminals (`helpers/collect_sorted.rs`, `Model/ProgramTerm.lean`)

`collect_seq_sorted` / `collect_par_sorted(parts, chunk)` are the plain collect followed by `[T]::sort` with the
element's `Ord` (`rowLe`: `V::cmp` = `Val.le`; tuples lexicographically); `collect_par_sorted_by_key` is the
parallel collect followed by the STABLE `sort_by` on the key alone (`sortByKey`). -/

/-- in the model the two modes agree on the sorted terminal because they agree on the rows (`C01_program`) -/
theorem C01_sorted_program (sh : RowShape) (src : List Val) (steps : List Step)
    (h : stepsSupported steps = true) (n : Nat) :
    (runPar src steps n).map (sortRows sh) = (runSeq src steps).map (sortRows sh) := by
  rw [C01_program src steps h n]

/-- **what carries over to the real engine after a barrier.** There the two modes return the same rows only AS A
    MULTISET (a `HashMap` decides the row order). For the sorted terminals that is enough: two row lists that are
    permutations of each other sort to the SAME SEQUENCE (`(K, V)` rows being pairs), because `Ord` on `V` and on
    `(V, V)` is total, transitive and antisymmetric. -/
theorem C01_sorted_of_same_multiset (sh : RowShape) (r1 r2 : List Val) (hp : r1.Perm r2)
    (hs : ∀ r ∈ r1, shapeOK sh r) : sortRows sh r1 = sortRows sh r2 :=
  sortRows_of_perm sh r1 r2 hp hs

/-- the sorted terminal returns the collected rows, each exactly once, in non-decreasing order -/
theorem C01_sorted_is_sorted (sh : RowShape) (rows : List Val) :
    (sortRows sh rows).Perm rows ∧ (sortRows sh rows).Pairwise (fun a b => rowLe sh a b = true) :=
  ⟨sortRows_perm sh rows, sortRows_sorted sh rows⟩

/-- `collect_par_sorted_by_key`: the collected rows, each exactly once, keys non-decreasing, and the rows of one
    key in their ARRIVAL order (the sort is stable and never looks at a value) -/
theorem C01_sorted_by_key_spec (rows : List Val) :
    (sortByKey rows).Perm rows ∧ (sortByKey rows).Pairwise (fun a b => Val.le a.key b.key = true) ∧
    ∀ k, (sortByKey rows).filter (fun r => r.key == k) = rows.filter (fun r => r.key == k) :=
  ⟨sortByKey_perm rows, sortByKey_sorted rows, sortByKey_stable rows⟩

/-- … hence for row lists that are permutations of each other (the two modes after a barrier): the same KEY
    sequence, and key by key the same rows as a multiset — equal up to the order of equal-key rows. PARTIAL with
    respect to sequence equality, which is false (`C01_sorted_by_key_not_a_function_of_the_multiset`). -/
theorem C01_sorted_by_key_of_same_multiset_partial (r1 r2 : List Val) (hp : r1.Perm r2) :
    (sortByKey r1).map Val.key = (sortByKey r2).map Val.key ∧
    ∀ k, ((sortByKey r1).filter (fun r => r.key == k)).Perm ((sortByKey r2).filter (fun r => r.key == k)) :=
  ⟨sortByKey_keys_of_perm r1 r2 hp, sortByKey_groups_of_perm r1 r2 hp⟩

/-- NEGATION: two arrival orders of the same two rows give different `sorted_by_key` results -/
theorem C01_sorted_by_key_not_a_function_of_the_multiset :
    ∃ r1 r2 : List Val, r1.Perm r2 ∧ sortByKey r1 ≠ sortByKey r2 := by
  refine ⟨[.pair (.int 0) (.int 1), .pair (.int 0) (.int 2)], [.pair (.int 0) (.int 2), .pair (.int 0) (.int 1)],
    List.Perm.swap _ _ _, ?_⟩
  have h1 : sortByKey [.pair (.int 0) (.int 1), .pair (.int 0) (.int 2)]
      = [.pair (.int 0) (.int 1), .pair (.int 0) (.int 2)] :=
    List.mergeSort_of_pairwise (by decide)
  have h2 : sortByKey [.pair (.int 0) (.int 2), .pair (.int 0) (.int 1)]
      = [.pair (.int 0) (.int 2), .pair (.int 0) (.int 1)] :=
    List.mergeSort_of_pairwise (by decide)
  rw [h1, h2]
  decide

/-- for the barrier-FREE programs (where C01 is sequence equality on the real engine too, `C01_program` on a
    model without hash maps) `sorted_by_key` agrees across modes exactly -/
theorem C01_sorted_by_key_program (src : List Val) (steps : List Step)
    (h : stepsSupported steps = true) (n : Nat) :
    (runPar src steps n).map sortByKey = (runSeq src steps).map sortByKey := by
  rw [C01_program src steps h n]

/-! ## Round 3: sources other than `from_vec` -/

/-- `from_iter` is `from_vec` of the collected iterator -/
theorem C01_from_iter (rows : List Val) : SourceSpec.iter.node rows = vecSource rows := rfl

/-- **C01 for a user `VecOps`** (`from_custom_source`): whatever `len` answers (`None`, a wrong number) and
    whatever `split` answers (`None` — the engine then takes `clone_any` as the single part —, more, fewer or
    empty parts), parallel = sequential for every chain of builder-made nodes and every partition count, PROVIDED
    the parts `split` returns concatenate to what `clone_any` returns. That proviso is the `VecOps` contract. -/
theorem C01_custom_source (rows : List Val) (lp : LenPol) (sp : SplitPol)
    (hc : ∀ n parts, sp.split rows n = Option.some parts → parts.flatten = rows)
    (rest : List (Node Part)) (h : ∀ nd ∈ rest, Built nd) (n : Nat) :
    execPar List.flatten (optimise (customSource rows lp sp :: rest)) n
      = execSeq (optimise (customSource rows lp sp :: rest)) :=
  C01_pipeline_any_source rows _ _ (customSource_split_flatten rows sp hc) rest h n

/-- the five policies of the harness that keep the contract do so for every input and partition count -/
theorem C01_lawful_policies_keep_contract (sp : SplitPol) (h : sp.lawful = true) (rows : List Val) (n : Nat)
    (parts : List Part) (hs : sp.split rows n = Option.some parts) : parts.flatten = rows :=
  split_contract sp h rows n parts hs

/-- … so for them, for the programs the driver runs (join-free covered programs), both modes agree -/
theorem C01_program_custom (rows : List Val) (lp : LenPol) (sp : SplitPol) (hl : sp.lawful = true)
    (steps : List Step) (h : steps.all Step.subSupported = true) (n : Nat) :
    runParFrom (customSource rows lp sp) steps n = runSeqFrom (customSource rows lp sp) steps := by
  have hchain : applySteps [customSource rows lp sp] steps
      = customSource rows lp sp :: steps.flatMap (Step.apply []) := by
    rw [applySteps_joinFree steps (steps_joinFree_of_sub steps h)]; rfl
  unfold runParFrom runSeqFrom
  rw [hchain]
  exact C01_custom_source rows lp sp (fun k parts hs => split_contract sp hl rows k parts hs)
    _ (fun nd hnd => .sub (steps_nodes_subBuilt steps h nd hnd)) n

/-- over `from_vec` / `from_iter` the new entry points are the old ones -/
theorem C01_runFrom_vec (src : List Val) (steps : List Step) (n : Nat) :
    runSeqFrom (SourceSpec.vec.node src) steps = runSeq src steps ∧
    runParFrom (SourceSpec.iter.node src) steps n = runPar src steps n := ⟨rfl, rfl⟩

/-- THE HYPOTHESIS IS NEEDED (witness): a `split` that drops the last row makes the parallel run lose it -/
theorem C01_custom_source_contract_needed :
    runParFrom (customSource [.int 1, .int 2, .int 3] .exact (.dropLast 2)) [] 2 = .ok [.int 1, .int 2] ∧
    runSeqFrom (customSource [.int 1, .int 2, .int 3] .exact (.dropLast 2)) [] = .ok [.int 1, .int 2, .int 3] ∧
    runParFrom (customSource [.int 1, .int 2, .int 3] .exact (.revParts 1)) [.map (.add 0)] 2
      = .ok [.int 3, .int 2, .int 1] := by
  refine ⟨by rfl, by rfl, by rfl⟩

/-- non-vacuity: `len = None` and `split = None` (one part holding `clone_any`), and empty parts around every row -/
example : runParFrom (customSource [.int 1, .int 2, .int 3] .none .none) [.combineGlobally .sum (some 2)] 5
    = .ok [.int 6] := by rfl
example : runParFrom (customSource [.int 1, .int 2, .int 3] (.fixed 9) (.empties 1)) [.combineGlobally .count (some 0)] 5
    = .ok [.int 3] := by rfl
example : SplitPol.lawful (.empties 1) = true ∧ SplitPol.lawful (.minus 3) = true ∧ SplitPol.lawful (.dropLast 2) = false := by decide

/-! ## Programs with joins whose right side is not a fresh collection (request kind `PIPEJ`, `Model/ProgramJoinX.lean`)

The right side on another `Pipeline`, a self-join, shared-prefix sides, a sibling second join: the driver answers
with `runSeqX` / `runParX`. Their lineage is the lineage of the program with fresh right sides (`desugar`,
`applyXSteps_eq_fresh`), so C01 transfers. -/

theorem C01_programX (src : List Val) (xs : List XStep)
    (h : (stepsSupported (desugar src xs) || stepsNested (desugar src xs) || stepsRightNested (desugar src xs)) = true)
    (n : Nat) : runParX src xs n = runSeqX src xs := by
  have e : litChainX src xs = litChain src (desugar src xs) := by
    have h := applyXSteps_eq_fresh src xs []
    simpa [litChainX, desugar, litChain, applySteps_nil] using h
  have := C01_program_all src (desugar src xs) h n
  unfold runPar runSeq at this
  unfold runParX runSeqX
  rw [e]; exact this

/-- non-vacuity: a self-join behind a barrier, and shared-prefix sides that both contain barriers, are covered -/
example : stepsSupported (desugar [.int 1] [.plain (.combineValues .sum), .joinShared .full [] [], .plain (.combineValues .count)])
    = true := by decide
example : stepsSupported (desugar [] [.plain .gbk, .joinShared .left [.gsum] [.combineValuesLifted .count]]) = true := by decide
example : stepsNested (desugar [] [.joinOther .inner [] [], .joinShared .inner [] []]) = true := by decide

/-! ## `distinct_per_key` where the planner does NOT run (a join side is executed unplanned): the literal window
`group_by_key → combine_values_lifted(DistinctSet)` on ANY partition list returns the partition the planned classic
combine returns (`distinct_per_key_composed_par`, Props/C05) -/
theorem distinct_per_key_unplanned_eq_planned (c : VCombiner) (R : Val → Val → Prop) (hc : LawfulCombiner c R)
    (ps : List (List Val)) :
    (do let a ← stepSubPar ps gbkNode
        stepSubPar a (combineValuesLiftedNode c)) = stepSubPar ps (combineValuesNode c) := by
  simp only [gbkNode, combineValuesLiftedNode, combineValuesNode, stepSubPar, pure_bind, Option.getD_some,
    Option.getD_none, List.map_cons, List.map_nil]
  rw [gbk_contract ps, lift_pair_core hc, ← combineValues_contract hc ps]

end IB
