import IbModel.Generated.Kernels
import IbModel.Model.Checkpoint
/-!
# C12 — kernel ties (translator route)

Tied here (`checkpoint.rs::cleanup_old_checkpoints`): the retention test `checkpoints.len() <= max_checkpoints` and the
number of files removed `to_delete = checkpoints.len() - max_checkpoints` (translation mode `nat`: truncated subtraction;
the Rust subtraction cannot underflow behind the test) ↔ `Checkpoint.doomed`.

Not tied: the candidate filter and the sort key (string functions: `checkpoint_file_timestamp`, `strip_prefix`, `parse`),
modelled by `isCandidate` / `sortKey` and checked differentially.
-/
set_option autoImplicit false
namespace IB.KTies.C12
open IB.Generated IB.Checkpoint

theorem k_ckpt_cleanup_keep : ∀ len m : Nat, K.ckpt_cleanup_keep len m = decide (len ≤ m) := by intros; rfl

theorem k_ckpt_cleanup_count : ∀ len m : Nat, K.ckpt_cleanup_count len m = len - m := by intros; rfl

theorem k_doomed_model : ∀ (cand : Name → Bool) (key : Name → Nat) (m : Nat) (listing : List Name),
    doomed cand key m listing =
      if K.ckpt_cleanup_keep (listing.filter cand).length m then []
      else ((listing.filter cand).mergeSort (fun a b => decide (key a ≤ key b))).take
             (K.ckpt_cleanup_count (listing.filter cand).length m) := by
  intros; simp [doomed, K.ckpt_cleanup_keep, K.ckpt_cleanup_count]

end IB.KTies.C12
