import IbModel.Generated.Kernels
import IbModel.Model.Closures
/-!
# C02 — kernel ties (translator route)

Tied here (`collection.rs`): `BatchMapOp::apply` `let batch_size = self.0.max(1);` and `BatchMapValuesOp::apply`
`let batch = self.0.max(1);` ↔ the chunk size `max n 1` of `batchMapOp` / `batchMapValuesOp` (Model/Closures.lean).

Not tied: the `while idx < kv.len()` / `(idx + batch).min(kv.len())` window loop of `BatchMapValuesOp` (the model
uses `chunks`, it has no index arithmetic), `slice::chunks` itself.
-/
set_option autoImplicit false
namespace IB.KTies.C02
open IB.Generated

theorem k_batch_map_size : ∀ n : Nat, K.batch_map_size n = max n 1 := by intro n; rfl

theorem k_batch_values_size : ∀ n : Nat, K.batch_values_size n = max n 1 := by intro n; rfl

theorem k_batch_map_size_model : ∀ (n : Nat) (f : List Val → List Val),
    batchMapOp n f = withFlags Generated.flags_map_batches (fun rows => (chunks (K.batch_map_size n) rows).flatMap f) := by
  intros; rfl

theorem k_batch_values_size_model : ∀ (n : Nat) (f : List Val → List Val),
    batchMapValuesOp n f = withFlags Generated.flags_map_values_batches (fun rows =>
      (chunks (K.batch_values_size n) rows).flatMap (fun c => rekeyChunk c (f (c.map Val.value)))) := by
  intros; rfl

end IB.KTies.C02
