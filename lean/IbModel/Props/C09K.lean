import IbModel.Generated.Kernels
import IbModel.Model.Io
/-!
# C09 — kernel ties (translator route)

Every `K.*` below is re-translated from the Rust source text on every run; the `…_model` theorems say that the
model function of `Model/Io.lean` IS that function with the generated kernels in place of its arithmetic.

Tied here
* `io/jsonl.rs::write_jsonl_par`: the `n == 0` early exit, `shards = shards.unwrap_or_else(|| num_cpus::get().max(2)).clamp(1, n)`
  (`num_cpus::get()` is the parameter `ncpu`), `chunk = n.div_ceil(shards)`, `start = (i*chunk).min(n)`,
  `end = ((i+1)*chunk).min(n)` ↔ `shardCount`, `jsonlShardBounds`, `parWriteWith`.
* `io/jsonl.rs::build_jsonl_shards` and `io/csv.rs::build_csv_shards` (the model has ONE `mkRanges` for both): the
  `total == 0` exit, `lps = lines_per_shard.max(1)`, `shards = total.div_ceil(lps)`, `start = i*lps`,
  `end = ((i+1)*lps).min(total)`.
* `read_jsonl_range` / `read_csv_range`: the `i < start` (continue) and `i >= end` (break) tests ↔ `readRangeFrom`.
* `io/csv.rs::split_ranges`: `parts.max(1).min(len.max(1))`, `base = len / parts`, `rem = len % parts`,
  `extra = usize::from(idx < rem)`, `end = start + base + extra`, the `start < end` filter ↔ `splitRanges` / `splitLoop`.
* `io/csv.rs::write_csv_par`: the `n == 0` exit and `shard_count = shards.unwrap_or_else(|| 2 * num_cpus::get().max(2)).clamp(1, n)`
  ↔ `parWriteCsvParts` (whose `auto` argument is then `2 * max ncpu 2`).
* `io/parquet.rs::build_parquet_shards`: `num_groups == 0` exit, `g = groups_per_shard.max(1)`,
  `while start < num_groups`, `end = (start + g).min(num_groups)` ↔ `mkGroupRanges` / `groupLoop`.

Not tied: the u64/usize casts (identity in the `nat` translation mode: no overflow modelled), the slice indexing
`&data[start..end]` (model: `slice?`), serialisation, file concatenation order.
-/
set_option autoImplicit false
namespace IB.KTies.C09
open IB.Generated IB.Io

/-! ### `write_jsonl_par` -/

theorem k_jsonl_par_empty : ∀ n : Nat, K.jsonl_par_empty n = decide (n = 0) := by
  intro n; cases n <;> rfl

theorem k_jsonl_par_shards : ∀ (shards : Option Nat) (ncpu n : Nat),
    K.jsonl_par_shards shards ncpu n = shardCount shards (max ncpu 2) n := by
  intros; rfl

theorem k_jsonl_par_chunk : ∀ n shards : Nat, K.jsonl_par_chunk n shards = divCeil n shards := by
  intros; rfl

theorem k_jsonl_par_start : ∀ i chunk n : Nat, K.jsonl_par_start i chunk n = min (i * chunk) n := by
  intros; rfl

theorem k_jsonl_par_end : ∀ i chunk n : Nat, K.jsonl_par_end i chunk n = min ((i + 1) * chunk) n := by
  intros; rfl

theorem k_jsonl_shard_bounds_model : ∀ n shards : Nat,
    jsonlShardBounds n shards = (List.range shards).map fun i =>
      (i, K.jsonl_par_start i (K.jsonl_par_chunk n shards) n, K.jsonl_par_end i (K.jsonl_par_chunk n shards) n) := by
  intros; rfl

theorem k_par_write_jsonl_model {α : Type} : ∀ (data : List α) (shards : Option Nat) (ncpu : Nat),
    parWriteWith jsonlShardBounds data shards (max ncpu 2) =
      if K.jsonl_par_empty data.length then some []
      else (jsonlShardBounds data.length (K.jsonl_par_shards shards ncpu data.length)).mapM
             fun b => slice? data b.2.1 b.2.2 := by
  intro data shards ncpu
  by_cases h : data.length = 0 <;> simp [parWriteWith, k_jsonl_par_empty, k_jsonl_par_shards, h]

/-! ### `build_jsonl_shards` / `build_csv_shards` -/

theorem k_jsonl_shards_empty : ∀ total : Nat, K.jsonl_shards_empty total = decide (total = 0) := by
  intro n; cases n <;> rfl

theorem k_jsonl_shards_lps : ∀ per : Nat, K.jsonl_shards_lps per = max per 1 := by intros; rfl

theorem k_jsonl_shards_count : ∀ total lps : Nat, K.jsonl_shards_count total lps = divCeil total lps := by
  intros; rfl

theorem k_jsonl_shards_start : ∀ i lps : Nat, K.jsonl_shards_start i lps = i * lps := by intros; rfl

theorem k_jsonl_shards_end : ∀ i lps total : Nat, K.jsonl_shards_end i lps total = min ((i + 1) * lps) total := by
  intros; rfl

theorem k_jsonl_shards_model : ∀ total per : Nat,
    mkRanges total per =
      if K.jsonl_shards_empty total then []
      else (List.range (K.jsonl_shards_count total (K.jsonl_shards_lps per))).map fun i =>
        (K.jsonl_shards_start i (K.jsonl_shards_lps per), K.jsonl_shards_end i (K.jsonl_shards_lps per) total) := by
  intro total per
  by_cases h : total = 0
  · simp [mkRanges, k_jsonl_shards_empty, h]
  · simp only [mkRanges, k_jsonl_shards_empty, h, if_false, decide_false]
    rfl

theorem k_csv_shards_empty : ∀ total : Nat, K.csv_shards_empty total = decide (total = 0) := by
  intro n; cases n <;> rfl

theorem k_csv_shards_rps : ∀ per : Nat, K.csv_shards_rps per = max per 1 := by intros; rfl

theorem k_csv_shards_count : ∀ total rps : Nat, K.csv_shards_count total rps = divCeil total rps := by
  intros; rfl

theorem k_csv_shards_start : ∀ i rps : Nat, K.csv_shards_start i rps = i * rps := by intros; rfl

theorem k_csv_shards_end : ∀ i rps total : Nat, K.csv_shards_end i rps total = min ((i + 1) * rps) total := by
  intros; rfl

theorem k_csv_shards_model : ∀ total per : Nat,
    mkRanges total per =
      if K.csv_shards_empty total then []
      else (List.range (K.csv_shards_count total (K.csv_shards_rps per))).map fun i =>
        (K.csv_shards_start i (K.csv_shards_rps per), K.csv_shards_end i (K.csv_shards_rps per) total) := by
  intro total per
  by_cases h : total = 0
  · simp [mkRanges, k_csv_shards_empty, h]
  · simp only [mkRanges, k_csv_shards_empty, h, if_false, decide_false]
    rfl

/-! ### `read_jsonl_range` / `read_csv_range` -/

theorem k_jsonl_range_skip : ∀ i start : Nat, K.jsonl_range_skip i start = decide (i < start) := by intros; rfl
theorem k_jsonl_range_stop : ∀ i e : Nat, K.jsonl_range_stop i e = decide (e ≤ i) := by intros; rfl
theorem k_csv_range_skip : ∀ i start : Nat, K.csv_range_skip i start = decide (i < start) := by intros; rfl
theorem k_csv_range_stop : ∀ i e : Nat, K.csv_range_stop i e = decide (e ≤ i) := by intros; rfl

theorem k_read_range_model {Line Rec : Type} : ∀ (blank : Line → Bool) (de : Line → Option Rec) (s e i : Nat)
    (l : Line) (ls : List Line),
    readRangeFrom blank de s e i (l :: ls) =
      if K.jsonl_range_skip i s then readRangeFrom blank de s e (i + 1) ls
      else if K.jsonl_range_stop i e then some []
      else if blank l then readRangeFrom blank de s e (i + 1) ls
      else match de l with
        | none => none
        | some r => (readRangeFrom blank de s e (i + 1) ls).map (r :: ·) := by
  intros; rw [readRangeFrom]; simp only [k_jsonl_range_skip, k_jsonl_range_stop, decide_eq_true_eq]; rfl

theorem k_read_range_csv_model {Line Rec : Type} : ∀ (blank : Line → Bool) (de : Line → Option Rec) (s e i : Nat)
    (l : Line) (ls : List Line),
    readRangeFrom blank de s e i (l :: ls) =
      if K.csv_range_skip i s then readRangeFrom blank de s e (i + 1) ls
      else if K.csv_range_stop i e then some []
      else if blank l then readRangeFrom blank de s e (i + 1) ls
      else match de l with
        | none => none
        | some r => (readRangeFrom blank de s e (i + 1) ls).map (r :: ·) := by
  intros; rw [readRangeFrom]; simp only [k_csv_range_skip, k_csv_range_stop, decide_eq_true_eq]; rfl

/-! ### `split_ranges` / `write_csv_par` -/

theorem k_csv_split_parts : ∀ parts len : Nat, K.csv_split_parts parts len = min (max parts 1) (max len 1) := by
  intros; rfl
theorem k_csv_split_base : ∀ len parts : Nat, K.csv_split_base len parts = len / parts := by intros; rfl
theorem k_csv_split_rem : ∀ len parts : Nat, K.csv_split_rem len parts = len % parts := by intros; rfl
theorem k_csv_split_extra : ∀ idx rem : Nat, K.csv_split_extra idx rem = if idx < rem then 1 else 0 := by
  intro idx rem; simp [K.csv_split_extra]
theorem k_csv_split_end : ∀ start base extra : Nat, K.csv_split_end start base extra = start + base + extra := by
  intros; rfl
theorem k_csv_split_keep : ∀ s e : Nat, K.csv_split_keep s e = decide (s < e) := by intros; rfl

theorem k_split_loop_model : ∀ (base rem todo idx start : Nat),
    splitLoop base rem (todo + 1) idx start =
      if K.csv_split_keep start (K.csv_split_end start base (K.csv_split_extra idx rem))
      then (idx, start, K.csv_split_end start base (K.csv_split_extra idx rem))
             :: splitLoop base rem todo (idx + 1) (K.csv_split_end start base (K.csv_split_extra idx rem))
      else splitLoop base rem todo (idx + 1) (K.csv_split_end start base (K.csv_split_extra idx rem)) := by
  intros; simp [splitLoop, k_csv_split_keep, k_csv_split_end, k_csv_split_extra]

theorem k_split_ranges_model : ∀ len parts : Nat,
    splitRanges len parts =
      splitLoop (K.csv_split_base len (K.csv_split_parts parts len)) (K.csv_split_rem len (K.csv_split_parts parts len))
        (K.csv_split_parts parts len) 0 0 := by
  intros; rfl

theorem k_csv_par_empty : ∀ n : Nat, K.csv_par_empty n = decide (n = 0) := by
  intro n; cases n <;> rfl

theorem k_csv_par_shard_count : ∀ (shards : Option Nat) (ncpu n : Nat),
    K.csv_par_shard_count shards ncpu n = shardCount shards (2 * max ncpu 2) n := by
  intros; rfl

theorem k_par_write_csv_model {Line Rec : Type} : ∀ (hdr : Bool) (header : Line) (ser : Rec → Line) (data : List Rec)
    (shards : Option Nat) (ncpu : Nat),
    parWriteCsvParts hdr header ser data shards (2 * max ncpu 2) =
      if K.csv_par_empty data.length then some []
      else (splitRanges data.length (K.csv_par_shard_count shards ncpu data.length)).mapM fun b =>
        (slice? data b.2.1 b.2.2).map (csvWrite (hdr && b.1 == 0) header ser) := by
  intro hdr header ser data shards ncpu
  by_cases h : data.length = 0 <;> simp [parWriteCsvParts, k_csv_par_empty, k_csv_par_shard_count, h]

/-! ### `build_parquet_shards` -/

theorem k_parquet_empty : ∀ n : Nat, K.parquet_empty n = decide (n = 0) := by
  intro n; cases n <;> rfl
theorem k_parquet_g : ∀ per : Nat, K.parquet_g per = max per 1 := by intros; rfl
theorem k_parquet_more : ∀ start num : Nat, K.parquet_more start num = decide (start < num) := by intros; rfl
theorem k_parquet_end : ∀ start g num : Nat, K.parquet_end start g num = min (start + g) num := by intros; rfl

theorem k_group_loop_model : ∀ (num g fuel start : Nat),
    groupLoop num g (fuel + 1) start =
      if K.parquet_more start num
      then (start, K.parquet_end start g num) :: groupLoop num g fuel (K.parquet_end start g num)
      else [] := by
  intros; simp [groupLoop, k_parquet_more, k_parquet_end]

theorem k_group_ranges_model : ∀ numGroups per : Nat,
    mkGroupRanges numGroups per =
      if K.parquet_empty numGroups then [] else groupLoop numGroups (K.parquet_g per) numGroups 0 := by
  intro n per
  by_cases h : n = 0 <;> simp [mkGroupRanges, k_parquet_empty, k_parquet_g, h]

end IB.KTies.C09
