import IbModel.Model.Metrics
import IbModel.Model.MetricsRun
import IbModel.Proofs.Metrics
/-!
# C16 — metrics never lose concurrent updates and never influence results

Property theorems about `IbModel/Model/Metrics.lean` (helper lemmas are in `Proofs/Metrics.lean`).

* threads = ANY list of lists of calls (any number of threads, any number of calls each);
* a schedule = ANY list of thread ids; entry `i` lets thread `i` run one critical section
  (one lock acquisition) — entries naming a finished or non-existent thread are no-ops;
* `run impl sched s` = the real threads interleaved at lock granularity.

`Impl.atomic` is the current `increment_counter` (after the `fix:` commit); `Impl.legacySplit` is the
pinned-commit code, kept with its negation witness.

**What is proved and what is only checked, clause by clause.**
* *no lost updates* — proved for every thread count, program and lock-granular schedule (`inc_atomic_sum`,
  `atomic_refines_sequential`, `atomic_history_program_order`). The tie to the code: one critical section per
  call is COUNTED inside src/metrics.rs (hook) and compared, real threads are driven through every schedule of
  the small scope, plus free-running races.
* *a collector never changes the result* — in the model this is STRUCTURAL: `runCollect` / `runCollectShared`
  hand the node graph to `build` and never the metrics slot, so `metrics_do_not_affect_result`,
  `shared_result_independent` and `collector_does_not_change_program_result` hold by construction and no code
  change that makes the engine consult the collector can even be expressed in the model. The theorems only
  record that fact; ALL assurance for this clause is the differential check: every `MRUN`/`MPOISON`/`MSLEEP`/
  `MMID` case runs the real pipeline with and without a collector (also while another thread increments, sets
  and registers on the shared collector) and compares both with the model's computed result and with a
  plain-vector reference (>= 300 generated programs in the quick tier).
* *start/end recorded, elapsed available* — proved on the model of `run_collect` for the value slot and for
  the shared cell the user's handle points to (`elapsed_after_success`, `user_handle_sees_stamps`); the
  boundary (slot emptied during the run) is `take_between_stamps_loses_end`.
* *the JSON export contains every registered metric* — keys for every schedule (`json_contains_registered`),
  values and descriptions of every metric kind (`json_after_register`, `json_entry_value_partial`,
  `value_of_simple_kinds`, `hist_value_shape`, `hist_percentiles_ordered`), except the one shadowed name
  (known finding, `json_shadows_user_metric`); `save_to_file` under the serialiser's round-trip law.
-/
namespace IB.Metrics

/-! ## the invariant of the machine with the current (one-section) `increment_counter` -/

/-- relative to the initial collector `c0` and the list `all` of all calls of all threads -/
structure AtomicInv (c0 : Collector) (all : List Op) (s : Sys) : Prop where
  pend : ∀ t ∈ s.ths, t.pending = none
  refines : s.c = s.trace.foldr (fun p c => applyOp p.time p.op c) c0
  account : (s.trace.map (·.op) ++ todoAll s.ths).Perm all
  secs1 : ∀ t ∈ s.ths, ∀ n ∈ t.secs, n = 1

theorem atomicInv_init (c0 : Collector) (threads : List (List Op)) :
    AtomicInv c0 threads.flatten (Sys.init c0 threads) where
  pend := by
    intro t ht
    simp only [Sys.init, List.mem_map] at ht
    obtain ⟨ops, _, rfl⟩ := ht
    rfl
  refines := rfl
  account := by simp [Sys.init, todoAll_init]
  secs1 := by
    intro t ht n hn
    simp only [Sys.init, List.mem_map] at ht
    obtain ⟨ops, _, rfl⟩ := ht
    simp [Thread.ofOps] at hn

theorem atomicInv_step (c0 : Collector) (all : List Op) (s : Sys) (i : Nat)
    (inv : AtomicInv c0 all s) : AtomicInv c0 all (step .atomic s i) := by
  unfold step
  cases hi : s.ths[i]? with
  | none => exact ⟨inv.pend, inv.refines, inv.account, inv.secs1⟩
  | some t =>
    have htm : t ∈ s.ths := List.mem_of_getElem? hi
    have hp : t.pending = none := inv.pend t htm
    simp only [stepThread, hp]
    cases htodo : t.todo with
    | nil => exact ⟨inv.pend, inv.refines, inv.account, inv.secs1⟩
    | cons op rest =>
      simp only [firstSection_atomic]
      refine ⟨?_, ?_, ?_, ?_⟩
      · intro t' ht'
        rcases List.mem_or_eq_of_mem_set ht' with h | h
        · exact inv.pend t' h
        · subst h; rfl
      · simp only [List.foldr_cons]
        rw [← inv.refines]
      · have hperm := todoAll_set_perm s.ths i t
          { pending := none, todo := rest, secs := 1 :: t.secs } op rest hi htodo rfl
        simp only [List.map_cons, List.cons_append]
        refine List.Perm.trans ?_ inv.account
        exact (List.perm_middle.symm).trans (List.Perm.append_left _ hperm.symm)
      · intro t' ht' n hn
        rcases List.mem_or_eq_of_mem_set ht' with h | h
        · exact inv.secs1 t' h n hn
        · subst h
          simp only [List.mem_cons] at hn
          rcases hn with rfl | hn
          · rfl
          · exact inv.secs1 t htm n hn

theorem atomicInv_run (c0 : Collector) (all : List Op) (sched : List Nat) : ∀ (s : Sys),
    AtomicInv c0 all s → AtomicInv c0 all (run .atomic sched s) := by
  induction sched with
  | nil => intro s h; exact h
  | cons i rest ih => intro s h; exact ih _ (atomicInv_step c0 all s i h)

/-! ## C16, part 1: no lost updates — every interleaving equals a sequential execution -/

/-- **Refinement.** With the current code, for ANY threads and ANY schedule, the shared collector is
    exactly what executing the calls ONE AFTER THE OTHER, each one whole, in the order in which their
    critical sections ran, produces (increments, sets, registers, stamps and reads mixed freely). -/
theorem atomic_refines_sequential (c0 : Collector) (threads : List (List Op)) (sched : List Nat) :
    (run .atomic sched (Sys.init c0 threads)).c
      = replay c0 (run .atomic sched (Sys.init c0 threads)).history := by
  have inv := atomicInv_run c0 _ sched _ (atomicInv_init c0 threads)
  rw [inv.refines]
  simp only [replay, Sys.history, List.foldl_reverse]

/-- **Accounting.** The calls already made plus the calls not yet made are exactly the calls of the
    program — nothing is dropped, duplicated or invented, at every point of every schedule. -/
theorem atomic_history_accounts (c0 : Collector) (threads : List (List Op)) (sched : List Nat) :
    ((run .atomic sched (Sys.init c0 threads)).history.map (·.op)
      ++ todoAll (run .atomic sched (Sys.init c0 threads)).ths).Perm threads.flatten := by
  have inv := atomicInv_run c0 _ sched _ (atomicInv_init c0 threads)
  refine List.Perm.trans ?_ inv.account
  simp only [Sys.history, List.map_reverse]
  exact List.Perm.append_right _ (List.reverse_perm _)

/-- when every thread has finished, the sequential execution is over ALL calls of ALL threads -/
theorem atomic_history_complete (c0 : Collector) (threads : List (List Op)) (sched : List Nat)
    (hdone : (run .atomic sched (Sys.init c0 threads)).complete = true) :
    ((run .atomic sched (Sys.init c0 threads)).history.map (·.op)).Perm threads.flatten := by
  have h := atomic_history_accounts c0 threads sched
  rw [todoAll_eq_nil_of_complete _ hdone, List.append_nil] at h
  exact h

/-- **Invariant form of the sum law**: at EVERY point of EVERY schedule the counter `k` equals its
    initial value plus the increments of the calls made so far, and those plus the increments still to
    come are the increments of the program. Hypotheses: `k` initially absent or a counter, and the only
    calls that write `k` are increments (other names may be incremented, set, registered at will). -/
theorem inc_atomic_sum_prefix (c0 : Collector) (threads : List (List Op)) (sched : List Nat) (k : String)
    (hk : CounterOrAbsent k c0) (hops : ∀ op ∈ threads.flatten, IncOnlyOn k op) :
    let s := run .atomic sched (Sys.init c0 threads)
    counterVal k s.c = counterVal k c0 + incSum k (s.history.map (·.op)) ∧
      incSum k (s.history.map (·.op)) + incSum k (todoAll s.ths) = incSum k threads.flatten := by
  intro s
  have hacc := atomic_history_accounts c0 threads sched
  have hmem : ∀ p ∈ s.history, IncOnlyOn k p.op := by
    intro p hp
    apply hops
    apply hacc.mem_iff.mp
    exact List.mem_append_left _ (List.mem_map_of_mem hp)
  constructor
  · have := (replay_counter k s.history c0 hk hmem).2
    rw [← atomic_refines_sequential c0 threads sched] at this
    exact this
  · have h1 := (hacc.map (incAmt k)).sum_nat
    simp only [List.map_append, List.sum_append_nat] at h1
    exact h1

/-- **C16, the sum law.** Any number of threads, any number of increments each, ANY schedule that lets
    every thread finish: the final counter equals its initial value plus the sum of ALL increments. -/
theorem inc_atomic_sum (c0 : Collector) (threads : List (List Op)) (sched : List Nat) (k : String)
    (hk : CounterOrAbsent k c0) (hops : ∀ op ∈ threads.flatten, IncOnlyOn k op)
    (hdone : (run .atomic sched (Sys.init c0 threads)).complete = true) :
    counterVal k (run .atomic sched (Sys.init c0 threads)).c
      = counterVal k c0 + incSum k threads.flatten := by
  have h := inc_atomic_sum_prefix c0 threads sched k hk hops
  simp only at h
  have hnil := todoAll_eq_nil_of_complete _ hdone
  rw [h.1, ← h.2, hnil]
  simp [incSum]

/-! ### the sequential order respects every thread's program order -/

/-- per thread: the calls it has made (oldest first) followed by the calls it still has to make are its program -/
structure OrderInv (threads : List (List Op)) (s : Sys) : Prop where
  len : s.ths.length = threads.length
  order : ∀ i t, s.ths[i]? = some t →
    ((s.trace.filter (fun c => c.tid == i)).map (·.op)).reverse ++ t.todo = threads[i]?.getD []

theorem orderInv_init (c0 : Collector) (threads : List (List Op)) : OrderInv threads (Sys.init c0 threads) where
  len := by simp [Sys.init]
  order := by
    intro i t ht
    simp only [Sys.init, List.getElem?_map] at ht
    cases hth : threads[i]? with
    | none => simp [hth] at ht
    | some ops =>
      simp only [hth, Option.map_some, Option.some.injEq] at ht
      subst ht
      simp [Sys.init, Thread.ofOps]

theorem orderInv_step (c0 : Collector) (all : List Op) (threads : List (List Op)) (s : Sys) (j : Nat)
    (ainv : AtomicInv c0 all s) (inv : OrderInv threads s) : OrderInv threads (step .atomic s j) := by
  unfold step
  cases hj : s.ths[j]? with
  | none => exact ⟨inv.len, inv.order⟩
  | some tj =>
    have hp : tj.pending = none := ainv.pend tj (List.mem_of_getElem? hj)
    simp only [stepThread, hp]
    cases htodo : tj.todo with
    | nil => exact ⟨inv.len, inv.order⟩
    | cons op rest =>
      simp only [firstSection_atomic]
      refine ⟨by simp [inv.len], ?_⟩
      intro i t ht
      have hlt : j < s.ths.length := (List.getElem?_eq_some_iff.mp hj).1
      by_cases hji : j = i
      · subst hji
        simp only [List.getElem?_set, hlt, if_true, Option.some.injEq] at ht
        subst ht
        have h0 := inv.order j tj hj
        rw [htodo] at h0
        simp only [List.filter_cons, beq_self_eq_true, if_true, List.map_cons, List.reverse_cons,
          List.append_assoc, List.singleton_append]
        exact h0
      · simp only [List.getElem?_set, hji, if_false] at ht
        have hne : (j == i) = false := by simp [hji]
        simp only [List.filter_cons, hne]
        exact inv.order i t ht

theorem orderInv_run (c0 : Collector) (all : List Op) (threads : List (List Op)) (sched : List Nat) :
    ∀ (s : Sys), AtomicInv c0 all s → OrderInv threads s → OrderInv threads (run .atomic sched s) := by
  induction sched with
  | nil => intro s _ h; exact h
  | cons j rest ih =>
    intro s ha ho
    exact ih _ (atomicInv_step c0 all s j ha) (orderInv_step c0 all threads s j ha ho)

/-- **Program order.** In the sequential execution that `atomic_refines_sequential` provides, the calls of
    each thread appear in that thread's own order: the calls thread `i` has made so far (as they stand in
    the history) followed by the calls it has not made yet are exactly its program. So the history is an
    interleaving of the threads' programs — a linearisation, not merely a permutation. -/
theorem atomic_history_program_order (c0 : Collector) (threads : List (List Op)) (sched : List Nat)
    (i : Nat) (t : Thread) (ht : (run .atomic sched (Sys.init c0 threads)).ths[i]? = some t) :
    ((run .atomic sched (Sys.init c0 threads)).history.filter (fun c => c.tid == i)).map (·.op) ++ t.todo
      = threads[i]?.getD [] := by
  have inv := orderInv_run c0 _ threads sched _ (atomicInv_init c0 threads) (orderInv_init c0 threads)
  have h := inv.order i t ht
  simpa [Sys.history, List.filter_reverse, List.map_reverse] using h

/-- corollary of the sum law: the final counter does not depend on the schedule -/
theorem inc_atomic_schedule_independent (c0 : Collector) (threads : List (List Op)) (s1 s2 : List Nat)
    (k : String) (hk : CounterOrAbsent k c0) (hops : ∀ op ∈ threads.flatten, IncOnlyOn k op)
    (h1 : (run .atomic s1 (Sys.init c0 threads)).complete = true)
    (h2 : (run .atomic s2 (Sys.init c0 threads)).complete = true) :
    counterVal k (run .atomic s1 (Sys.init c0 threads)).c = counterVal k (run .atomic s2 (Sys.init c0 threads)).c := by
  rw [inc_atomic_sum c0 threads s1 k hk hops h1, inc_atomic_sum c0 threads s2 k hk hops h2]

/-- every call of the current code is exactly ONE critical section (compared structurally with the
    real code by the harness: yield points passed per call) -/
theorem atomic_one_section_per_call (c0 : Collector) (threads : List (List Op)) (sched : List Nat) :
    ∀ t ∈ (run .atomic sched (Sys.init c0 threads)).ths, ∀ n ∈ t.secs, n = 1 :=
  (atomicInv_run c0 _ sched _ (atomicInv_init c0 threads)).secs1

/-- the implementation the driver replays is the one these theorems are about -/
theorem current_is_atomic : currentImpl = .atomic := rfl

/-! non-vacuity of the hypotheses of `inc_atomic_sum`: three threads, a set/register of ANOTHER name mixed in -/
example :
    let c0 : Collector := ⟨[("a", .counter 10), ("g", .other (.gauge 0 none))], none, none⟩
    let threads : List (List Op) := [[.inc "a" 1, .set "b" 7], [.inc "a" 2, .inc "a" 4], [.register "g" (.other (.hist [] none)), .inc "a" 8]]
    CounterOrAbsent "a" c0 ∧ (∀ op ∈ threads.flatten, IncOnlyOn "a" op) ∧
      (run .atomic [2, 0, 1, 2, 1, 0] (Sys.init c0 threads)).complete = true ∧
      counterVal "a" (run .atomic [2, 0, 1, 2, 1, 0] (Sys.init c0 threads)).c = 25 := by
  refine ⟨?_, ?_, by decide, by decide⟩
  · intro t h; simp [lookup] at h
  · intro op hop
    simp only [List.flatten_cons, List.flatten_nil, List.cons_append, List.nil_append, List.mem_cons,
      List.not_mem_nil, or_false] at hop
    rcases hop with rfl | rfl | rfl | rfl | rfl | rfl <;> intro h <;> first | exact ⟨_, rfl⟩ | (simp [touches] at h)

/-! ## the pinned-commit code (`Legacy.incSplit`): negation witness and what did hold -/

/-- **Negation (defect #14).** Two threads, one increment each, schedule read–read–write–write:
    the counter ends at 11, not 10 + 1 + 1. -/
theorem inc_split_loses :
    let s := run .legacySplit [0, 1, 0, 1]
      (Sys.init ⟨[("a", .counter 10)], none, none⟩ [[.inc "a" 1], [.inc "a" 1]])
    s.complete = true ∧ counterVal "a" s.c = 11 ∧ 11 < 10 + incSum "a" [.inc "a" 1, .inc "a" 1] := by
  decide

/-- the same for every initial value and every pair of amounts: under read–read–write–write the first
    thread's increment `a` is lost entirely (the counter ends at `n + b`) -/
theorem inc_split_loses_general (n a b : Nat) :
    counterVal "a" (run .legacySplit [0, 1, 0, 1]
      (Sys.init ⟨[("a", .counter n)], none, none⟩ [[.inc "a" a], [.inc "a" b]])).c = n + b := by
  simp [run, step, stepThread, firstSection, Legacy.incSplit, Sys.init, Thread.ofOps, lookup, insert,
    setCounter, insertSec, counterVal]

/-- the same two calls take two critical sections each in the legacy code (seen structurally by the harness) -/
theorem legacy_split_two_sections :
    ((run .legacySplit [0, 1, 0, 1]
      (Sys.init ⟨[("a", .counter 10)], none, none⟩ [[.inc "a" 1], [.inc "a" 1]])).ths.map (·.secs))
      = [[2], [2]] := by
  decide

/-- what the legacy code did guarantee (`…_partial`): a call that is not interleaved with others —
    in particular everything single-threaded, which is all the shipped tests exercise — behaves as specified. -/
theorem legacy_split_sequential_partial (now : Nat) (op : Op) (c : Collector) :
    runCall .legacySplit now op c = applyOp now op c := by
  cases op with
  | inc k v =>
    simp only [runCall, firstSection, Legacy.incSplit, applyOp, incAtomic]
    cases lookup k c.metrics with
    | none => rfl
    | some mv => cases mv <;> rfl
  | _ => rfl

/-- the current code as a whole call -/
theorem atomic_call_is_spec (now : Nat) (op : Op) (c : Collector) :
    runCall .atomic now op c = applyOp now op c := by
  simp [runCall, firstSection_atomic]

/-! ## C16, part 2: attaching a collector never changes what the pipeline returns -/

/-- the result component of `run_collect` is the same with a collector attached (whatever its state,
    whatever the clock) and without one -/
theorem metrics_do_not_affect_result {γ χ ε ρ : Type} (build : γ → Except ε χ) (exec : χ → Except ε ρ)
    (t0 t1 t0' t1' : Nat) (p : Pipe γ) (c : Collector) :
    (runCollect build exec t0 t1 (p.setMetrics c)).1
      = (runCollect build exec t0' t1' { p with metrics := none }).1 := by
  simp only [runCollect, Pipe.setMetrics, Pipe.recordMetricsStart]
  cases build p.graph <;> rfl

/-- and the node graph is left alone -/
theorem runCollect_preserves_graph {γ χ ε ρ : Type} (build : γ → Except ε χ) (exec : χ → Except ε ρ)
    (t0 t1 : Nat) (p : Pipe γ) : (runCollect build exec t0 t1 p).2.graph = p.graph := by
  simp only [runCollect, Pipe.recordMetricsStart]
  cases build p.graph <;> rfl

/-! ## C16, part 3: after a successful run start and end are recorded, elapsed is available and non-negative -/

/-- whenever planning succeeds (so in particular whenever `run_collect` returns `Ok`) both stamps are
    the two clock readings, `elapsed()` is `Some d`, and with a monotone clock `d` is the true
    non-negative difference (`start + d = end`, no saturation), and `to_json` has `execution_time_ms`. -/
theorem elapsed_after_success {γ χ ε ρ : Type} (build : γ → Except ε χ) (exec : χ → Except ε ρ)
    (t0 t1 : Nat) (p : Pipe γ) (c : Collector) (r : ρ) (hc : p.metrics = some c) (ht : t0 ≤ t1)
    (hr : (runCollect build exec t0 t1 p).1 = .ok r) :
    ∃ c', (runCollect build exec t0 t1 p).2.metrics = some c' ∧
      c'.start = some t0 ∧ c'.stop = some t1 ∧ elapsed c' = some (t1 - t0) ∧ t0 + (t1 - t0) = t1 ∧
      execKey ∈ jsonKeys c' ∧ c'.metrics = c.metrics := by
  simp only [runCollect, Pipe.recordMetricsStart, hc] at hr ⊢
  cases hb : build p.graph with
  | error e => simp [hb] at hr
  | ok chain =>
    exact ⟨recordEnd t1 (recordStart t0 c), by simp [Pipe.recordMetricsEnd], rfl, rfl, rfl, by omega,
      execKey_mem_jsonKeys _ rfl rfl, rfl⟩

/-- a planning error returns before `record_metrics_end`: the start stamp is new, the end stamp is untouched -/
theorem runCollect_plan_error {γ χ ε ρ : Type} (build : γ → Except ε χ) (exec : χ → Except ε ρ)
    (t0 t1 : Nat) (p : Pipe γ) (c : Collector) (e : ε) (hc : p.metrics = some c)
    (hb : build p.graph = .error e) :
    (runCollect build exec t0 t1 p) = (.error e, { p with metrics := some (recordStart t0 c) }) := by
  simp [runCollect, Pipe.recordMetricsStart, hc, hb]

/-! non-vacuity of `elapsed_after_success` -/
example : (runCollect (γ := Unit) (ε := String) (fun _ => .ok ()) (fun _ => (.ok 7 : Except String Nat)) 3 9
    ⟨(), some Collector.empty⟩).1 = .ok 7 := rfl

/-! ## C16, part 4: the JSON export contains every registered metric -/

/-- for EITHER implementation: names once stored stay stored, and every `register` call that has run
    left its name stored -/
structure KeyInv (keys0 : List String) (s : Sys) : Prop where
  init : ∀ x ∈ keys0, x ∈ keysOf s.c
  reg : ∀ p ∈ s.trace, ∀ k m, p.op = Op.register k m → k ∈ keysOf s.c

theorem keyInv_step (impl : Impl) (keys0 : List String) (s : Sys) (i : Nat) (inv : KeyInv keys0 s) :
    KeyInv keys0 (step impl s i) := by
  unfold step
  cases hi : s.ths[i]? with
  | none => exact ⟨inv.init, inv.reg⟩
  | some t =>
    simp only [stepThread]
    cases hp : t.pending with
    | some kn =>
      obtain ⟨k, n⟩ := kn
      exact ⟨fun x hx => keysOf_insertSec_mono _ _ _ (inv.init x hx),
        fun p hp k' m h => keysOf_insertSec_mono _ _ _ (inv.reg p hp k' m h)⟩
    | none =>
      cases htodo : t.todo with
      | nil => exact ⟨inv.init, inv.reg⟩
      | cons op rest =>
        dsimp only
        refine ⟨fun x hx => keysOf_firstSection_mono _ _ _ _ (inv.init x hx), ?_⟩
        intro p hp k' m h
        simp only [List.mem_cons] at hp
        rcases hp with rfl | hp
        · simp only at h
          subst h
          rw [firstSection_register]
          exact keysOf_insertSec_self _ _ _
        · exact keysOf_firstSection_mono _ _ _ _ (inv.reg p hp k' m h)

theorem keyInv_run (impl : Impl) (keys0 : List String) (sched : List Nat) : ∀ (s : Sys),
    KeyInv keys0 s → KeyInv keys0 (run impl sched s) := by
  induction sched with
  | nil => intro s h; exact h
  | cons i rest ih => intro s h; exact ih _ (keyInv_step impl keys0 s i h)

/-- **JSON export.** For any threads, any schedule (and either implementation): every metric present
    initially and every metric whose `register` call has run is a key of `to_json()` — there is no
    call that removes a metric. -/
theorem json_contains_registered (impl : Impl) (c0 : Collector) (threads : List (List Op)) (sched : List Nat) :
    let s := run impl sched (Sys.init c0 threads)
    (∀ x ∈ keysOf c0, x ∈ jsonKeys s.c) ∧
      (∀ now tid k m, (⟨now, tid, Op.register k m⟩ : Call) ∈ s.history → k ∈ jsonKeys s.c) := by
  intro s
  have inv : KeyInv (keysOf c0) s :=
    keyInv_run impl _ sched _ ⟨fun x hx => hx, fun p hp => by simp [Sys.init] at hp⟩
  refine ⟨fun x hx => mem_jsonKeys_of_mem_keysOf _ (inv.init x hx), ?_⟩
  intro now tid k m h
  apply mem_jsonKeys_of_mem_keysOf
  exact inv.reg ⟨now, tid, .register k m⟩ (by simpa [Sys.history] using h) k m rfl

/-- with the current code and a schedule that lets every thread finish: EVERY `register` call of the
    program is reflected in the export -/
theorem json_contains_every_registered (c0 : Collector) (threads : List (List Op)) (sched : List Nat)
    (hdone : (run .atomic sched (Sys.init c0 threads)).complete = true)
    (k : String) (m : MetricVal) (hreg : Op.register k m ∈ threads.flatten) :
    k ∈ jsonKeys (run .atomic sched (Sys.init c0 threads)).c := by
  have hperm := atomic_history_complete c0 threads sched hdone
  have hmem := hperm.mem_iff.mpr hreg
  obtain ⟨p, hp, hp2⟩ := List.mem_map.mp hmem
  obtain ⟨now, tid, op⟩ := p
  simp only at hp2
  subst hp2
  exact (json_contains_registered .atomic c0 threads sched).2 now tid k m hp

/-- `to_json` of a sequentially built collector: every registered name (API used without threads) -/
theorem json_contains_registered_sequential (c0 : Collector) (h : List Call) (now tid : Nat) (k : String)
    (m : MetricVal) (hreg : (⟨now, tid, Op.register k m⟩ : Call) ∈ h) : k ∈ jsonKeys (replay c0 h) := by
  apply mem_jsonKeys_of_mem_keysOf
  induction h generalizing c0 with
  | nil => simp at hreg
  | cons p t ih =>
    have hmono : ∀ (l : List Call) (c : Collector), k ∈ keysOf c → k ∈ keysOf (replay c l) := by
      intro l
      induction l with
      | nil => intro c hc; exact hc
      | cons q l ihl => intro c hc; exact ihl _ (keysOf_applyOp_mono q.time q.op c hc)
    simp only [List.mem_cons] at hreg
    rcases hreg with rfl | hreg
    · exact hmono t _ (keysOf_insertSec_self _ _ _)
    · exact ih _ hreg

/-! ## JSON export with VALUES; the `execution_time_ms` member shadows a user metric of that name -/

/-- the members of `to_json()` are exactly `jsonKeys` (so every key theorem above is about `toJson`) -/
theorem toJson_keys (c : Collector) : (toJson c).map Prod.fst = jsonKeys c := by
  have hm : (c.metrics.map (fun kv => (kv.1, JsonEntry.metric kv.2))).map Prod.fst = c.metrics.map Prod.fst := by
    simp [List.map_map, Function.comp_def]
  unfold toJson jsonKeys
  cases hs : c.start <;> cases he : c.stop <;> simp only [keys_putJ, hm] <;> simp

/-- **Values (`…_partial`).** Full statement wanted by the property: *for EVERY stored name `k`,
    `to_json()[k].value` is the metric's value (= `snapshot()[k]`)*. That is FALSE for the one name
    `execution_time_ms` once both stamps are set (`json_shadows_user_metric`). Proved: for every collector
    state and every name `k` other than `execution_time_ms` — or any name while a stamp is missing —
    the exported member is the stored metric, and a name that is not stored is not exported. -/
theorem json_value_registered_partial (c : Collector) (k : String)
    (h : k ≠ execKey ∨ c.start = none ∨ c.stop = none) :
    getJ k (toJson c) = (lookup k (snapshot c)).map JsonEntry.metric := by
  unfold toJson snapshot
  rcases h with h | h | h
  · cases hs : c.start <;> cases he : c.stop <;> simp only [getJ_map_metric]
    rw [getJ_putJ_ne _ _ (Ne.symm h), getJ_map_metric]
  · simp [h, getJ_map_metric]
  · cases hs : c.start <;> simp [h, getJ_map_metric]

/-- with both stamps, `execution_time_ms` is the elapsed time — whatever is stored under that name -/
theorem json_exec_time_entry (c : Collector) (s e : Nat) (hs : c.start = some s) (he : c.stop = some e) :
    getJ execKey (toJson c) = some (.execTime (e - s)) ∧ elapsed c = some (e - s) := by
  simp [toJson, elapsed, hs, he, getJ_putJ_self]

/-- **Negation witness (known finding `C16-json-exec-time-shadows-user-metric`).** A user counter
    registered as `execution_time_ms` = 9 is in the snapshot, but after a run the export shows the elapsed
    time under that key: the registered metric is NOT in the JSON export. -/
theorem json_shadows_user_metric :
    let c : Collector := ⟨[("execution_time_ms", .counter 9)], some 1, some 5⟩
    lookup execKey (snapshot c) = some (.counter 9) ∧ getJ execKey (toJson c) = some (.execTime 4) ∧
      getJ execKey (toJson c) ≠ (lookup execKey (snapshot c)).map JsonEntry.metric := by
  decide

/-! ## `u64`: the sum law is about runs in which `initial + Σ increments` fits the counter type -/

/-- below the bound the `u64` code is the `Nat` model, with or without overflow checks -/
theorem incAtomic64_eq_incAtomic (checks : Bool) (k : String) (v : Nat) (c : Collector)
    (h : counterVal k c + v < u64Bound) : incAtomic64 checks k v c = some (incAtomic k v c) := by
  unfold incAtomic64 incAtomic
  cases hl : lookup k c.metrics with
  | none => rfl
  | some mv =>
    cases mv with
    | other t => rfl
    | counter n =>
      have : n + v < u64Bound := by simpa [counterVal, hl] using h
      simp [this]

/-- at the bound: with overflow checks the addition panics (call lost, state unchanged — `none`),
    without them the counter wraps; either way the sum law fails, as it must for any `u64` counter -/
theorem incAtomic64_overflow (k : String) (n v : Nat) (c : Collector)
    (hl : lookup k c.metrics = some (.counter n)) (h : u64Bound ≤ n + v) :
    incAtomic64 true k v c = none ∧
      incAtomic64 false k v c = some (insertSec k (.counter ((n + v) % u64Bound)) c) := by
  have : ¬ (n + v < u64Bound) := by omega
  simp [incAtomic64, hl, this]

/-- **No addition of any schedule overflows** when `initial + Σ all increments < 2^64`: at every point of
    every schedule, every increment of `k` that is still to come finds `count + value < 2^64`, so the
    `u64` code takes the `Nat` model's step (`incAtomic64 = some ∘ incAtomic`). Together with
    `inc_atomic_sum` this is the sum law for the real `u64` counter. -/
theorem inc_atomic_never_overflows (c0 : Collector) (threads : List (List Op)) (sched : List Nat) (k : String)
    (hk : CounterOrAbsent k c0) (hops : ∀ op ∈ threads.flatten, IncOnlyOn k op)
    (hb : counterVal k c0 + incSum k threads.flatten < u64Bound) (checks : Bool) (v : Nat)
    (hv : Op.inc k v ∈ todoAll (run .atomic sched (Sys.init c0 threads)).ths) :
    incAtomic64 checks k v (run .atomic sched (Sys.init c0 threads)).c
      = some (incAtomic k v (run .atomic sched (Sys.init c0 threads)).c) := by
  apply incAtomic64_eq_incAtomic
  have h := inc_atomic_sum_prefix c0 threads sched k hk hops
  simp only at h
  have hle := incAmt_le_incSum_of_mem k _ _ hv
  simp only [incAmt, if_true] at hle
  omega

/-! non-vacuity of the bound, and the boundary itself -/
example : incAtomic64 true "c" 1 ⟨[("c", .counter (2 ^ 64 - 1))], none, none⟩ = none := by decide
example : incAtomic64 false "c" 2 ⟨[("c", .counter (2 ^ 64 - 1))], none, none⟩
    = some ⟨[("c", .counter 1)], none, none⟩ := by decide
example : incAtomic64 true "c" 1 ⟨[("c", .counter (2 ^ 64 - 2))], none, none⟩
    = some ⟨[("c", .counter (2 ^ 64 - 1))], none, none⟩ := by decide

/-! ## `run_collect`: execution errors, a second run, and the PROGRAM model -/

/-- an execution error is returned AFTER `record_metrics_end`: both stamps are set, elapsed is available -/
theorem runCollect_exec_error {γ χ ε ρ : Type} (build : γ → Except ε χ) (exec : χ → Except ε ρ)
    (t0 t1 : Nat) (p : Pipe γ) (c : Collector) (chain : χ) (e : ε) (hc : p.metrics = some c)
    (hb : build p.graph = .ok chain) (he : exec chain = .error e) :
    runCollect build exec t0 t1 p
      = (.error e, { p with metrics := some (recordEnd t1 (recordStart t0 c)) }) := by
  simp [runCollect, Pipe.recordMetricsStart, Pipe.recordMetricsEnd, hc, hb, he]

/-- **A second run refreshes BOTH stamps**: whatever the first run left behind (and whatever its
    outcome), after a second run whose planning succeeds the stamps are the second run's two clock
    readings, so `elapsed()` is the duration of the LAST run, not of the first nor of both. -/
theorem second_run_refreshes_stamps {γ χ ε ρ : Type} (build : γ → Except ε χ) (exec : χ → Except ε ρ)
    (t0 t1 t2 t3 : Nat) (p : Pipe γ) (c : Collector) (chain : χ) (hc : p.metrics = some c)
    (hb : build p.graph = .ok chain) :
    ∃ c', (runCollectTwice build exec t0 t1 t2 t3 p).2.2.metrics = some c' ∧
      c'.start = some t2 ∧ c'.stop = some t3 ∧ elapsed c' = some (t3 - t2) ∧ c'.metrics = c.metrics := by
  simp only [runCollectTwice, runCollect, Pipe.recordMetricsStart, Pipe.recordMetricsEnd, hc, hb,
    Option.map_some]
  exact ⟨_, rfl, rfl, rfl, rfl, rfl⟩

/-- **The collector never changes the result, on the program model.** `run_collect` with ANY collector
    attached, at ANY clock readings, returns exactly what the engines of C01–C07 (`runSeq` / `runPar`:
    planner + engine model) return for the pipeline's source and builder steps. The driver computes the
    expected answer of every `MRUN`/`MPOISON`/`MSLEEP` case with `runCollectProg`. -/
theorem collector_does_not_change_program_result (m : RunMode) (g : Graph) (t0 t1 : Nat) (c : Collector)
    (p : Pipe Graph) (hg : p.graph = g) :
    (runCollectProg m true true t0 t1 (p.setMetrics c)).1 = liftM (runPlain m g) ∧
      (runCollectProg m true true t0 t1 { p with metrics := none }).1 = liftM (runPlain m g) := by
  subst hg
  cases m <;> simp [runCollectProg, runCollect, planOf, execMode, runPlain, runSeq, runPar,
    Pipe.setMetrics, Pipe.recordMetricsStart]

/-! ## the VALUES of the export for every built-in metric kind; `register` compares names exactly -/

/-- **Frame theorem of `register` for the export.** After `register(metric)` under the name `k` the member
    `k` of `to_json()` is THAT metric — whatever its kind and whatever its `value()` is (a `null` value
    included) — and every other member is what it was: names are compared as the exact strings, nothing is
    normalised, merged or dropped. (`k = execution_time_ms` with both stamps set is the known finding.) -/
theorem json_after_register (c : Collector) (k : String) (m : MetricVal)
    (h : k ≠ execKey ∨ c.start = none ∨ c.stop = none) :
    getJ k (toJson (register k m c)) = some (.metric m) ∧
      ∀ k', k' ≠ k → getJ k' (toJson (register k m c)) = getJ k' (toJson c) := by
  constructor
  · have := json_value_registered_partial (register k m c) k h
    rw [this]
    simp [snapshot, register, insertSec, lookup_insert_self]
  · intro k' hk'
    have hne : k ≠ k' := fun e => hk' e.symm
    by_cases hx : k' ≠ execKey ∨ c.start = none ∨ c.stop = none
    · rw [json_value_registered_partial (register k m c) k' hx, json_value_registered_partial c k' hx]
      simp [snapshot, register, insertSec, lookup_insert_ne _ _ hne]
    · have hk : k' = execKey := by
        by_cases hk : k' = execKey
        · exact hk
        · exact absurd (Or.inl hk) hx
      cases hs : c.start with
      | none => exact absurd (Or.inr (Or.inl hs)) hx
      | some s =>
        cases he : c.stop with
        | none => exact absurd (Or.inr (Or.inr he)) hx
        | some e =>
          subst hk
          rw [(json_exec_time_entry (register k m c) s e hs he).1, (json_exec_time_entry c s e hs he).1]

/-- the same for `set_counter` and for an `increment_counter` that creates the counter -/
theorem json_after_set_counter (c : Collector) (k : String) (n : Nat)
    (h : k ≠ execKey ∨ c.start = none ∨ c.stop = none) :
    getJ k (toJson (setCounter k n c)) = some (.metric (.counter n)) ∧
      ∀ k', k' ≠ k → getJ k' (toJson (setCounter k n c)) = getJ k' (toJson c) :=
  json_after_register c k (.counter n) h

/-- `value()` / `description()` of the three simple kinds: a counter is its count (no description); a gauge
    is its `f64` — `null` when it is not finite (NaN, ±inf), as `serde_json` has no such numbers — with its
    description; a user metric's value and description are passed through -/
theorem value_of_simple_kinds (sum0 n b : Nat) (v : String) (d : Option String) :
    (MetricVal.counter n).value sum0 = .num (.uint n) ∧ (MetricVal.counter n).description = none ∧
    (MetricVal.other (.gauge b d)).value sum0 = .num (if f64Finite b then .float b else .null) ∧
    (MetricVal.other (.gauge b d)).description = d ∧
    (MetricVal.other (.user v d)).value sum0 = .opaque v ∧ (MetricVal.other (.user v d)).description = d := by
  refine ⟨rfl, rfl, ?_, rfl, rfl, rfl⟩
  simp only [MetricVal.value, jsonOfF64]

/-- **A metric whose value is `null` is still exported** (a NaN / infinite gauge; the key clause of the
    property does not depend on the value): the member is there, its value is `null`, its description kept. -/
theorem json_null_valued_metric_is_exported (c : Collector) (k : String) (b sum0 : Nat) (d : Option String)
    (hb : f64Finite b = false) (h : k ≠ execKey ∨ c.start = none ∨ c.stop = none) :
    k ∈ jsonKeys (register k (.other (.gauge b d)) c) ∧
      (getJ k (toJson (register k (.other (.gauge b d)) c))).map (JsonEntry.value sum0) = some (.num .null) ∧
      (getJ k (toJson (register k (.other (.gauge b d)) c))).map JsonEntry.description = some d := by
  refine ⟨mem_jsonKeys_of_mem_keysOf _ (keysOf_insertSec_self _ _ _), ?_, ?_⟩
  · rw [(json_after_register c k _ h).1]
    simp [JsonEntry.value, MetricVal.value, jsonOfF64, hb]
  · rw [(json_after_register c k _ h).1]
    simp [JsonEntry.description, MetricVal.description]

/-! witnesses: NaN, +inf are not finite, 1.5 and -0.0 are -/
example : f64Finite 0x7FF8000000000000 = false ∧ f64Finite 0x7FF0000000000000 = false ∧
    f64Finite 0x3FF8000000000000 = true ∧ f64Finite 0x8000000000000000 = true := by decide

/-- names that differ only in case or in surrounding blanks are DIFFERENT metrics, and the empty name is a name -/
example :
    let c := register " a " (.counter 4) (register "" (.counter 3) (register "rows" (.counter 2)
      (register "Rows" (.counter 1) Collector.empty)))
    getJ "Rows" (toJson c) = some (.metric (.counter 1)) ∧ getJ "rows" (toJson c) = some (.metric (.counter 2)) ∧
      getJ "" (toJson c) = some (.metric (.counter 3)) ∧ getJ " a " (toJson c) = some (.metric (.counter 4)) ∧
      getJ "a" (toJson c) = none ∧ (toJson c).length = 4 := by decide

/-- **Histogram.** `value()` is an object with exactly the members `count, sum, mean, min, max, p50, p95, p99`
    (in this order), `count` is the number of recorded values, and the empty histogram is all zeros. The
    float members are computed by `histStats` on `Float` (compared with the real code case by case). -/
theorem hist_value_shape (sum0 : Nat) (vs : List Nat) :
    ∃ fields, histValue sum0 vs = .obj fields ∧
      fields.map Prod.fst = ["count", "sum", "mean", "min", "max", "p50", "p95", "p99"] ∧
      fields.head? = some ("count", .uint vs.length) := by
  refine ⟨_, rfl, rfl, ?_⟩
  simp only [List.head?_cons, Option.some.injEq, Prod.mk.injEq, true_and, JNum.uint.injEq]
  unfold histStats
  cases vs with
  | nil => rfl
  | cons v r => simp [sortTotal_length]

theorem hist_value_empty (sum0 : Nat) :
    histValue sum0 [] = .obj [("count", .uint 0), ("sum", .float 0), ("mean", .float 0), ("min", .float 0),
      ("max", .float 0), ("p50", .float 0), ("p95", .float 0), ("p99", .float 0)] := by
  simp [histValue, histStats, jsonOfF64, f64Finite]

/-- **The histogram's sort (current code, `f64::total_cmp`).** For ANY recorded values — NaN, infinities and
    both zeros included — the sorted vector is a permutation of the recorded values and is ordered by
    `total_cmp`; so `stats()` always returns, and with it `to_json` / `snapshot` / `print`. -/
theorem hist_sort_total (vs : List Nat) : (sortTotal vs).Perm vs ∧ SortedTotal (sortTotal vs) :=
  ⟨sortTotal_perm vs, sortTotal_sorted vs⟩

/-- `min ≤ p50 ≤ p95 ≤ p99 ≤ max` in the `total_cmp` order, and each of them is one of the recorded values -/
theorem hist_percentiles_ordered (sum0 : Nat) (vs : List Nat) (h : vs ≠ []) :
    let s := histStats sum0 vs
    totalKey s.min ≤ totalKey s.p50 ∧ totalKey s.p50 ≤ totalKey s.p95 ∧ totalKey s.p95 ≤ totalKey s.p99 ∧
      totalKey s.p99 ≤ totalKey s.max ∧ s.min ∈ vs ∧ s.max ∈ vs ∧ s.p50 ∈ vs ∧ s.p95 ∈ vs ∧ s.p99 ∈ vs := by
  have hne : vs.isEmpty = false := by cases vs <;> simp_all
  have hlen : 0 < (sortTotal vs).length := by
    rw [sortTotal_length]; exact List.length_pos_iff.mpr h
  have hs := sortTotal_sorted vs
  have hix := pctIdx_in_range' (sortTotal vs).length hlen
  simp only [histStats, hne, Bool.false_eq_true, if_false]
  have mem : ∀ i, i < (sortTotal vs).length → (sortTotal vs).getD i 0 ∈ vs := by
    intro i hi
    have e : (sortTotal vs).getD i 0 = (sortTotal vs)[i] := by simp [List.getD, List.getElem?_eq_getElem hi]
    rw [e]
    exact (sortTotal_perm vs).mem_iff.mp (List.getElem_mem hi)
  simp only [pctIdx] at hix ⊢
  refine ⟨sortedTotal_getD_mono _ hs _ _ (Nat.zero_le _) (by omega),
    sortedTotal_getD_mono _ hs _ _ (by omega) (by omega),
    sortedTotal_getD_mono _ hs _ _ (by omega) (by omega),
    sortedTotal_getD_mono _ hs _ _ (by omega) (by omega),
    mem _ hlen, mem _ (by omega), mem _ (by omega), mem _ (by omega), mem _ (by omega)⟩

/-- **Negation witness for the pinned-commit comparator** `a.partial_cmp(b).unwrap_or(Equal)`: with a NaN it
    is not transitive (1 = NaN, NaN = 2, but 1 < 2), i.e. not the total order `slice::sort_by` requires; the
    standard library may then panic ("user-provided comparison function does not correctly implement a total
    order") — observed on the real code with 33 values, 8 of them NaN: `to_json()`, `save_to_file()` and
    `snapshot()` of the WHOLE collector panicked, so no registered metric was exported. -/
theorem legacy_hist_comparator_not_a_total_order :
    Legacy.cmpOrEqual (some 1) none = .eq ∧ Legacy.cmpOrEqual none (some 2) = .eq ∧
      Legacy.cmpOrEqual (some 1) (some 2) = .lt := by decide

/-- what the pinned-commit comparator did guarantee (`…_partial`): without a NaN it is the order of the numbers -/
theorem legacy_hist_comparator_partial (a b : Int) : Legacy.cmpOrEqual (some a) (some b) = compare a b := rfl

/-- `total_cmp` IS a total order on bit patterns: total, transitive (it is `≤` on `totalKey`) and
    antisymmetric (only bit-identical values compare equal) -/
theorem total_cmp_is_total_order (a b : Nat) (ha : a < 2 ^ 64) (hb : b < 2 ^ 64) :
    (totalKey a ≤ totalKey b ∨ totalKey b ≤ totalKey a) ∧ (totalKey a = totalKey b → a = b) := by
  refine ⟨by omega, ?_⟩
  unfold totalKey
  split <;> split <;> omega

/-- the three percentile positions are inside a non-empty sorted vector (`sorted[..]` never panics) -/
theorem pctIdx_in_range (n : Nat) (h : 0 < n) :
    (pctIdx n).1 < n ∧ (pctIdx n).2.1 < n ∧ (pctIdx n).2.2 < n := by
  simp only [pctIdx]
  omega

/-- exported VALUE and DESCRIPTION of every stored metric (`…_partial` for the same reason as
    `json_value_registered_partial`: the one name `execution_time_ms` once both stamps are set) -/
theorem json_entry_value_partial (c : Collector) (k : String) (sum0 : Nat)
    (h : k ≠ execKey ∨ c.start = none ∨ c.stop = none) :
    (getJ k (toJson c)).map (JsonEntry.value sum0) = (lookup k c.metrics).map (MetricVal.value sum0) ∧
      (getJ k (toJson c)).map JsonEntry.description = (lookup k c.metrics).map MetricVal.description := by
  rw [json_value_registered_partial c k h]
  simp only [snapshot, Option.map_map]
  exact ⟨rfl, rfl⟩

/-- the execution-time member: the elapsed milliseconds and the fixed description -/
theorem json_exec_time_value (c : Collector) (s e sum0 : Nat) (hs : c.start = some s) (he : c.stop = some e) :
    (getJ execKey (toJson c)).map (JsonEntry.value sum0) = some (.num (.uint (e - s))) ∧
      (getJ execKey (toJson c)).map JsonEntry.description = some (some execDesc) := by
  rw [(json_exec_time_entry c s e hs he).1]
  exact ⟨rfl, rfl⟩

/-- **`save_to_file`** writes `to_json()`: whatever parser inverts the serialiser reads the same export
    back from the file — in particular every registered metric and the execution time are in the file -/
theorem save_to_file_roundtrip {σ : Type} (ser : List (String × JsonEntry) → σ)
    (parse : σ → Option (List (String × JsonEntry))) (hlaw : ∀ j, parse (ser j) = some j) (c : Collector) :
    parse (saveToFile ser c) = some (toJson c) := hlaw _

/-! ## the slot holds a clone of the user's handle: what the USER's handle shows after a run -/

/-- the result does not depend on the slot, the shared cell, the clock, or on anything done to the handle or
    to the slot while the engine runs (STRUCTURAL in the model, like `metrics_do_not_affect_result`) -/
theorem shared_result_independent {γ χ ε ρ : Type} (build : γ → Except ε χ) (exec : χ → Except ε ρ)
    (t0 t1 t0' t1' : Nat) (mid : List MidEvent) (p : SharedPipe γ) :
    (runCollectShared build exec t0 t1 mid p).1
      = (runCollect build exec t0' t1' ⟨p.graph, none⟩).1 := by
  have hg : (p.stampStart t0).graph = p.graph := by
    unfold SharedPipe.stampStart; split <;> rfl
  simp only [runCollectShared, runCollect, Pipe.recordMetricsStart, hg]
  cases build p.graph <;> rfl

/-- **The user's handle sees both stamps.** Collector attached, planning succeeds, and while the engine runs
    the handle is used for anything EXCEPT writing stamps, and the slot is not emptied: afterwards the cell
    the user's handle points to has `start = t0`, `end = t1`, `elapsed() = Some(t1 - t0)`, and the collector
    is still attached. -/
theorem user_handle_sees_stamps {γ χ ε ρ : Type} (build : γ → Except ε χ) (exec : χ → Except ε ρ)
    (t0 t1 : Nat) (mid : List MidEvent) (p : SharedPipe γ) (chain : χ) (ha : p.attached = true)
    (hb : build p.graph = .ok chain) (hm : ∀ ev ∈ mid, ev.keepsStamps = true) :
    let q := (runCollectShared build exec t0 t1 mid p).2
    q.attached = true ∧ q.cell.start = some t0 ∧ q.cell.stop = some t1 ∧ elapsed q.cell = some (t1 - t0) := by
  intro q
  have h1 : p.stampStart t0 = { p with cell := recordStart t0 p.cell } := by
    unfold SharedPipe.stampStart; rw [if_pos ha]
  have hk := mids_keep t0 mid { p with cell := recordStart t0 p.cell } hm
  have hq : q = (mid.foldl (SharedPipe.mid t0) { p with cell := recordStart t0 p.cell }).stampEnd t1 := by
    simp only [q, runCollectShared, h1, hb]
  generalize mid.foldl (SharedPipe.mid t0) { p with cell := recordStart t0 p.cell } = r at hk hq
  have hatt : r.attached = true := hk.1.trans ha
  have hq2 : q = { r with cell := recordEnd t1 r.cell } := by
    rw [hq]; unfold SharedPipe.stampEnd; rw [if_pos hatt]
  rw [hq2]
  have hst : r.cell.start = some t0 := hk.2.1
  refine ⟨hatt, hst, rfl, ?_⟩
  simp [elapsed, recordEnd, hst]

/-- **`take_metrics` while the engine runs (`…_partial` boundary of the stamp clause).** Full statement wanted:
    *after a successful run start and end are recorded in the collector that was attached*. That needs the
    collector to STAY attached: if the slot is emptied between the two stamps, `record_metrics_end` finds no
    collector — the handle shows the new start stamp and whatever end stamp it had before (none on a fresh
    collector, so `elapsed()` is `None` although the run succeeded). Proved for every collector and clock. -/
theorem take_between_stamps_loses_end {γ χ ε ρ : Type} (build : γ → Except ε χ) (exec : χ → Except ε ρ)
    (t0 t1 : Nat) (p : SharedPipe γ) (chain : χ) (ha : p.attached = true) (hb : build p.graph = .ok chain) :
    let q := (runCollectShared build exec t0 t1 [.take] p).2
    q.attached = false ∧ q.cell.start = some t0 ∧ q.cell.stop = p.cell.stop ∧
      (p.cell.stop = none → elapsed q.cell = none) := by
  have h1 : p.stampStart t0 = { p with cell := recordStart t0 p.cell } := by simp [SharedPipe.stampStart, ha]
  simp only [runCollectShared, h1, hb, List.foldl_cons, List.foldl_nil, SharedPipe.mid, SharedPipe.stampEnd]
  refine ⟨rfl, rfl, rfl, ?_⟩
  intro hs
  simp [elapsed, recordStart, hs]

/-! negation witness: a successful run, the slot emptied meanwhile — no elapsed time on the user's handle -/
example : elapsed (runCollectShared (γ := Unit) (ε := String) (fun _ => .ok ()) (fun _ => (.ok 7 : Except String Nat))
    3 9 [.take] ⟨(), true, Collector.empty⟩).2.cell = none ∧
    (runCollectShared (γ := Unit) (ε := String) (fun _ => .ok ()) (fun _ => (.ok 7 : Except String Nat))
    3 9 [.take] ⟨(), true, Collector.empty⟩).1 = .ok 7 := ⟨rfl, rfl⟩

/-- with nothing happening meanwhile the shared model IS the value model of `runCollect` -/
theorem shared_without_interference_is_runCollect {γ χ ε ρ : Type} (build : γ → Except ε χ)
    (exec : χ → Except ε ρ) (t0 t1 : Nat) (p : SharedPipe γ) :
    (runCollectShared build exec t0 t1 [] p).1 = (runCollect build exec t0 t1 p.toPipe).1 ∧
      (runCollectShared build exec t0 t1 [] p).2.toPipe = (runCollect build exec t0 t1 p.toPipe).2 := by
  cases ha : p.attached <;> cases hb : build p.graph <;>
    simp [runCollectShared, runCollect, SharedPipe.stampStart, SharedPipe.stampEnd, SharedPipe.toPipe,
      Pipe.recordMetricsStart, Pipe.recordMetricsEnd, ha, hb]

/-- `Pipeline::set_metrics` / `get_metrics` / `take_metrics`: the attached collector is the one handed
    back, `take` leaves none behind, and none of them touches the node graph -/
theorem pipe_set_get_take {γ : Type} (p : Pipe γ) (c : Collector) :
    (p.setMetrics c).getMetrics = some c ∧ (p.setMetrics c).takeMetrics.1 = some c ∧
      (p.setMetrics c).takeMetrics.2.getMetrics = none ∧ (p.setMetrics c).takeMetrics.2.graph = p.graph :=
  ⟨rfl, rfl, rfl, rfl⟩

end IB.Metrics
