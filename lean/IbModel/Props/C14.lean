import IbModel.Proofs.Sampling
import IbModel.Proofs.SamplingKeyed
import IbModel.Proofs.SamplingTies
/-!
# C14 — reservoir sampling: right size, real elements only, reproducible, mode-stable

Property theorems about the model of `src/combiners/sampling.rs` / `src/helpers/sampling.rs`
(`Model/Sampling.lean`). Everything up to `seq_ne_par` is proved for **every** generator
(`next : σ → Nat × σ`, i.e. every priority stream), every initial generator state, every `k`
(including `0` and `k ≥ n`), every input (duplicates allowed) and every merge tree / partition count.

The last claim of the property ("identical for sequential and parallel execution and for every
partitioning", as documented in `helpers/sampling.rs`) is **false for the code as written**: every
partition restarts the same SplitMix64 stream. `seq_ne_par` proves the negation on a concrete witness;
`mode_stable_single_partition_partial` and `mode_stable_multiset_of_k_ge_partial` are the parts of the
claim that do hold (`…_partial`).
-/
namespace IB.Sampling

variable {σ α : Type}

/-! ## the invariant relating `heap`, `store`, `alive` (and the input seen so far) -/

/-- `Inv k xs a`: `a` is what some merge tree with leaves `xs` evaluates to.
* `wf.heap_perm` — the heap's slot indices are exactly the indices of the live (non-tombstoned) slots,
  each once; `wf.alive_eq` — `alive` is the number of live slots;
* `alive_n` — exactly `min k n` items are live;
* `sub` — the live values together with some dropped values are a permutation of the input
  (nothing invented, nothing duplicated). -/
structure Inv (k : Nat) (xs : List α) (a : PRAcc σ α) : Prop where
  wf : WF a
  k_eq : a.k = k
  alive_n : a.alive = min k xs.length
  sub : ∃ d, xs.Perm (d ++ (live a.store).map (fun it => it.2.2))

theorem inv_create (k : Nat) (s0 : σ) : Inv k ([] : List α) (create k s0 : PRAcc σ α) :=
  ⟨wf_create k s0, rfl, by simp [create], [], by simp [create]⟩

theorem inv_addInput (next : σ → Nat × σ) {k : Nat} {xs : List α} {a : PRAcc σ α} (v : α)
    (h : Inv k xs a) : Inv k (xs ++ [v]) (addInput next a v) := by
  obtain ⟨wf, hk, hal, d, hd⟩ := h
  by_cases hk0 : a.k = 0
  · have : addInput next a v = a := by simp [addInput, hk0]
    rw [this]
    refine ⟨wf, hk, ?_, v :: d, ?_⟩
    · rw [hal]; subst hk; rw [hk0]; simp
    · exact (List.perm_append_singleton v xs).trans (List.Perm.cons v hd)
  · obtain ⟨w, hkk, hal', d', hd'⟩ := addInput_spec next a v wf hk0
    refine ⟨w, hkk.trans hk, ?_, d ++ d', ?_⟩
    · rw [hal', hal, hk]; simp only [List.length_append, List.length_cons, List.length_nil]; omega
    · have h1 : (xs ++ [v]).Perm ((d ++ (live a.store).map (fun it => it.2.2)) ++ [v]) :=
        List.Perm.append_right _ hd
      rw [List.append_assoc] at h1
      refine h1.trans ?_
      rw [List.append_assoc]
      exact List.Perm.append_left d hd'

theorem inv_foldAdd (next : σ → Nat × σ) {k : Nat} : ∀ (ys xs : List α) (a : PRAcc σ α),
    Inv k xs a → Inv k (xs ++ ys) (ys.foldl (addInput next) a)
  | [], xs, a, h => by simpa using h
  | y :: ys, xs, a, h => by
    have := inv_foldAdd next ys (xs ++ [y]) (addInput next a y) (inv_addInput next y h)
    simpa using this

theorem inv_merge {k : Nat} {xs ys : List α} {a o : PRAcc σ α} (ha : Inv k xs a) (ho : Inv k ys o) :
    Inv k (xs ++ ys) (merge a o) := by
  obtain ⟨wa, hka, hala, da, hda⟩ := ha
  obtain ⟨wo, hko, halo, dc, hdo⟩ := ho
  by_cases hk0 : a.k = 0
  · have : merge a o = a := by simp [merge, hk0]
    rw [this]
    refine ⟨wa, hka, ?_, ys ++ da, ?_⟩
    · rw [hala]; subst hka; rw [hk0]; simp
    · rw [List.append_assoc]
      exact List.perm_append_comm.trans (List.Perm.append_left ys hda)
  · obtain ⟨w, hkk, hal', d', hd'⟩ := merge_spec a o wa wo hk0
    refine ⟨w, by rw [hkk, hka, hko]; simp, ?_, da ++ dc ++ d', ?_⟩
    · rw [hal', hala, halo, hka, hko]; simp only [List.length_append]; omega
    · have h1 : (xs ++ ys).Perm ((da ++ (live a.store).map (fun it => it.2.2)) ++
          (dc ++ (live o.store).map (fun it => it.2.2))) := List.Perm.append hda hdo
      refine h1.trans ?_
      have h2 : ((da ++ (live a.store).map (fun it => it.2.2)) ++
          (dc ++ (live o.store).map (fun it => it.2.2))).Perm
          ((da ++ dc) ++ ((live a.store).map (fun it => it.2.2) ++ (live o.store).map (fun it => it.2.2))) := by
        simp only [List.append_assoc]
        refine List.Perm.append_left da ?_
        rw [← List.append_assoc, ← List.append_assoc]
        exact List.Perm.append_right _ List.perm_append_comm
      refine h2.trans ?_
      rw [List.append_assoc (da ++ dc)]
      exact List.Perm.append_left _ hd'

/-- **Invariant.** Whatever tree of per-partition folds and merges is evaluated — any generator, any `k`,
    any leaves — the resulting accumulator satisfies `Inv` for the concatenation of the leaves. -/
theorem eval_inv (next : σ → Nat × σ) (k : Nat) (s0 : σ) : ∀ (t : Tree α),
    Inv k t.leaves (t.eval (reservoir next k s0))
  | .leaf xs => by
    have := inv_foldAdd next xs [] (create k s0) (inv_create k s0)
    simpa [Tree.eval, Tree.leaves, reservoir, Combiner.foldAdd] using this
  | .node l r => by
    have hl := eval_inv next k s0 l
    have hr := eval_inv next k s0 r
    simpa [Tree.eval, Tree.leaves, reservoir] using inv_merge hl hr

/-- `build_from_group` is the per-partition fold (the `B<i>` leaves of the correspondence check) -/
theorem reservoir_build (next : σ → Nat × σ) (k : Nat) (s0 : σ) (xs : List α) :
    (reservoir next k s0).build xs = (Tree.leaf xs).eval (reservoir next k s0) := rfl

/-- the model's `heap.pop()` is what `BinaryHeap<Reverse<_>>::pop` is: it removes one entry, and no entry of
    the heap is smaller than it in the lexicographic order on `(priority, seq, idx)` -/
theorem popMin_is_minimum {h h' : List (Nat × Nat × Nat)} {e : Nat × Nat × Nat}
    (hp : popMin h = some (e, h')) : h.Perm (e :: h') ∧ ∀ y ∈ h, lexLt y e = false := by
  refine ⟨popMin_perm hp, ?_⟩
  cases h with
  | nil => simp [popMin] at hp
  | cons x xs =>
    simp only [popMin, Option.some.injEq, Prod.mk.injEq] at hp
    rw [← hp.1]
    exact minOf_min xs x

/-! ## `finish` on an accumulator satisfying the invariant -/

theorem finish_length {k : Nat} {xs : List α} {a : PRAcc σ α} (h : Inv k xs a) :
    (finish a).length = min k xs.length := by
  obtain ⟨wf, hk, hal, _⟩ := h
  unfold finish
  by_cases h0 : (a.k == 0 || a.alive == 0) = true
  · simp only [h0, ↓reduceIte, List.length_nil]
    simp only [Bool.or_eq_true, beq_iff_eq] at h0
    rcases h0 with h0 | h0 <;> omega
  · simp only [h0, Bool.false_eq_true, ↓reduceIte, List.length_map, List.length_take,
      (sortItems_perm _).length_eq]
    rw [← wf.alive_eq, hal, hk]; omega

theorem finish_subperm {k : Nat} {xs : List α} {a : PRAcc σ α} (h : Inv k xs a) :
    ∃ d, xs.Perm (d ++ finish a) := by
  obtain ⟨_, _, _, d, hd⟩ := h
  unfold finish
  split
  · exact ⟨xs, by simp⟩
  · refine ⟨d ++ ((sortItems (live a.store)).drop a.k).map (fun it => it.2.2), ?_⟩
    refine hd.trans ?_
    rw [List.append_assoc]
    refine List.Perm.append_left d ?_
    have h1 : ((live a.store).map (fun it => it.2.2)).Perm ((sortItems (live a.store)).map (fun it => it.2.2)) :=
      ((sortItems_perm _).map _).symm
    refine h1.trans ?_
    have h2 : (sortItems (live a.store)).map (fun it => it.2.2) =
        ((sortItems (live a.store)).take a.k).map (fun it => it.2.2) ++
          ((sortItems (live a.store)).drop a.k).map (fun it => it.2.2) := by
      rw [← List.map_append, List.take_append_drop]
    rw [h2]
    exact List.perm_append_comm

/-! ## the property, for every merge tree -/

/-- the sample a merge tree produces -/
def sampleOf (next : σ → Nat × σ) (k : Nat) (s0 : σ) (t : Tree α) : List α :=
  (reservoir next k s0).finish (t.eval (reservoir next k s0))

/-- **Size.** Exactly `min k n` elements — every generator, every `k` (0 and `k ≥ n` included), every tree. -/
theorem sample_size (next : σ → Nat × σ) (k : Nat) (s0 : σ) (t : Tree α) :
    (sampleOf next k s0 t).length = min k t.leaves.length :=
  finish_length (eval_inv next k s0 t)

/-- **Real elements only**, strongest form: the sample together with some remainder is a permutation of the input. -/
theorem sample_subperm (next : σ → Nat × σ) (k : Nat) (s0 : σ) (t : Tree α) :
    ∃ d, t.leaves.Perm (d ++ sampleOf next k s0 t) :=
  finish_subperm (eval_inv next k s0 t)

/-- **Sub-multiset.** Nothing invented (count 0 stays 0), nothing returned more often than it occurs. -/
theorem sample_submultiset [DecidableEq α] (next : σ → Nat × σ) (k : Nat) (s0 : σ) (t : Tree α) (x : α) :
    (sampleOf next k s0 t).count x ≤ t.leaves.count x := by
  obtain ⟨d, hd⟩ := sample_subperm next k s0 t
  rw [hd.count_eq, List.count_append]
  omega

/-- every sampled element is an input element -/
theorem sample_mem (next : σ → Nat × σ) (k : Nat) (s0 : σ) (t : Tree α) (x : α)
    (hx : x ∈ sampleOf next k s0 t) : x ∈ t.leaves := by
  obtain ⟨d, hd⟩ := sample_subperm next k s0 t
  exact hd.mem_iff.mpr (List.mem_append_right d hx)

/-- `k ≥ n`: the sample is the whole input (as a multiset) -/
theorem sample_all_of_k_ge (next : σ → Nat × σ) (k : Nat) (s0 : σ) (t : Tree α)
    (hk : t.leaves.length ≤ k) : (sampleOf next k s0 t).Perm t.leaves := by
  obtain ⟨d, hd⟩ := sample_subperm next k s0 t
  have hl := hd.length_eq
  rw [List.length_append, sample_size] at hl
  have hd0 : d = [] := List.length_eq_zero_iff.mp (by omega)
  subst hd0
  simpa using hd.symm

/-- `k = 0`: the sample is empty -/
theorem sample_k_zero (next : σ → Nat × σ) (s0 : σ) (t : Tree α) : sampleOf next 0 s0 t = [] :=
  List.length_eq_zero_iff.mp (by rw [sample_size]; simp)

/-- **Reproducible.** The sample is a function of (generator, k, initial state = seed, tree): equal arguments give
    equal samples — the model has no other state (trivial, but stated). -/
theorem sample_deterministic (next : σ → Nat × σ) {k₁ k₂ : Nat} {s₁ s₂ : σ} {t₁ t₂ : Tree α}
    (hk : k₁ = k₂) (hs : s₁ = s₂) (ht : t₁ = t₂) : sampleOf next k₁ s₁ t₁ = sampleOf next k₂ s₂ t₂ := by
  subst hk hs ht; rfl

/-! ## the global pipelines (`sample_reservoir_vec`, `sample_reservoir`) -/

theorem foldl_comb_leaves : ∀ (ps : List (List α)) (t : Tree α),
    (ps.foldl (fun t q => Tree.node t (Tree.leaf q)) t).leaves = t.leaves ++ ps.flatten
  | [], t => by simp
  | p :: ps, t => by
    simp only [List.foldl_cons, foldl_comb_leaves ps, Tree.leaves, List.flatten_cons, List.append_assoc]

theorem foldl_comb_eval {A O : Type} (c : Combiner α A O) : ∀ (ps : List (List α)) (t : Tree α),
    (ps.foldl (fun t q => Tree.node t (Tree.leaf q)) t).eval c =
      (ps.map (c.foldAdd c.create)).foldl c.merge (t.eval c)
  | [], t => rfl
  | p :: ps, t => by
    simp only [List.foldl_cons, foldl_comb_eval c ps, Tree.eval, List.map_cons]

/-- the merge tree parallel execution with `n` partitions evaluates -/
def parTree (n : Nat) (xs : List α) : Tree α :=
  match partsOf n xs with
  | [] => .leaf []
  | p :: ps => combTree p ps

theorem parTree_leaves (n : Nat) (xs : List α) : (parTree n xs).leaves = xs := by
  have h := partsOf_flatten n xs
  unfold parTree
  cases hp : partsOf n xs with
  | nil => rw [hp] at h; simpa [Tree.leaves] using h
  | cons p ps =>
    rw [hp] at h
    simp only [combTree, foldl_comb_leaves, Tree.leaves]
    simpa using h

theorem samplePar_eq_tree {A O : Type} (c : Combiner α A O) (n : Nat) (xs : List α) :
    samplePar c n xs = c.finish ((parTree n xs).eval c) := by
  unfold samplePar parTree
  cases partsOf n xs with
  | nil => rfl
  | cons p ps => simp only [List.map_cons, mergeAll, combTree, foldl_comb_eval, Tree.eval]

theorem sampleSeq_eq_tree {A O : Type} (c : Combiner α A O) (xs : List α) :
    sampleSeq c xs = c.finish ((Tree.leaf xs).eval c) := rfl

/-- size, sequential mode -/
theorem sampleSeq_size (next : σ → Nat × σ) (k : Nat) (s0 : σ) (xs : List α) :
    (sampleSeq (reservoir next k s0) xs).length = min k xs.length :=
  sample_size next k s0 (.leaf xs)

/-- size, parallel mode, every partition count -/
theorem samplePar_size (next : σ → Nat × σ) (k : Nat) (s0 : σ) (n : Nat) (xs : List α) :
    (samplePar (reservoir next k s0) n xs).length = min k xs.length := by
  rw [samplePar_eq_tree]
  have := sample_size next k s0 (parTree n xs)
  rwa [parTree_leaves] at this

/-- sub-multiset, sequential mode -/
theorem sampleSeq_submultiset [DecidableEq α] (next : σ → Nat × σ) (k : Nat) (s0 : σ) (xs : List α) (x : α) :
    (sampleSeq (reservoir next k s0) xs).count x ≤ xs.count x :=
  sample_submultiset next k s0 (.leaf xs) x

/-- sub-multiset, parallel mode, every partition count -/
theorem samplePar_submultiset [DecidableEq α] (next : σ → Nat × σ) (k : Nat) (s0 : σ) (n : Nat)
    (xs : List α) (x : α) : (samplePar (reservoir next k s0) n xs).count x ≤ xs.count x := by
  rw [samplePar_eq_tree]
  have := sample_submultiset next k s0 (parTree n xs) x
  rwa [parTree_leaves] at this

/-! ## the per-key pipelines (`sample_values_reservoir_vec`, `sample_values_reservoir`) -/

section keyed
variable {κ : Type} [DecidableEq κ]

/-- per-key sampling over an **arbitrary** list of partitions (rows in map order) -/
def sampleKeyedParts {A O : Type} (c : Combiner α A O) (ps : List (List (κ × α))) : List (κ × O) :=
  mergeMaps c (ps.map (localPairs c))

theorem sampleKeyedSeq_eq_parts {A O : Type} (c : Combiner α A O) (rows : List (κ × α)) :
    sampleKeyedSeq c rows = sampleKeyedParts c [rows] := rfl

theorem sampleKeyedPar_eq_parts {A O : Type} (c : Combiner α A O) (n : Nat) (rows : List (κ × α)) :
    sampleKeyedPar c n rows = sampleKeyedParts c (partsOf n rows) := rfl

/-- the merge tree of one key: a fresh `create()`, then the folds of the partitions that contain the key, in
    partition order -/
def keyTree (k : κ) (ps : List (List (κ × α))) : Tree α := combTree [] (keyParts k ps)

theorem keyTree_leaves (k : κ) (ps : List (List (κ × α))) :
    (keyTree k ps).leaves = valuesOf k ps.flatten := by
  simp [keyTree, combTree, foldl_comb_leaves, Tree.leaves, keyParts_flatten]

/-- **Per key = a merge tree over that key's values.** For every combiner, every list of partitions and every
    key: the keyed output has an entry for the key iff the key occurs in the input, and the entry is
    `finish` of the key's merge tree, whose leaves are exactly the key's values in input order. -/
theorem keyed_lookup {A O : Type} (c : Combiner α A O) (k : κ) (ps : List (List (κ × α))) :
    lookupK k (sampleKeyedParts c ps) =
      if (valuesOf k ps.flatten).isEmpty then none else some (c.finish ((keyTree k ps).eval c)) := by
  unfold sampleKeyedParts mergeMaps mergeMapsAcc
  rw [lookupK_map, lookupK_mergeFold c k _ [] (by
    intro m hm
    obtain ⟨p, _, rfl⟩ := List.mem_map.mp hm
    exact nodup_keys_localPairs c p)]
  rw [filterMap_lookup_localPairs]
  have he : ((keyParts k ps).map (c.foldAdd c.create)).isEmpty = (valuesOf k ps.flatten).isEmpty := by
    rw [← keyParts_isEmpty]; cases keyParts k ps <;> rfl
  rw [he]
  split
  · rfl
  · simp [keyTree, combTree, foldl_comb_eval, Tree.eval, lookupK]

/-- every key is listed at most once … -/
theorem keyed_keys_nodup {A O : Type} (c : Combiner α A O) (ps : List (List (κ × α))) :
    ((sampleKeyedParts c ps).map Prod.fst).Nodup := by
  unfold sampleKeyedParts mergeMaps mergeMapsAcc
  rw [List.map_map]
  exact nodup_keys_mergeFold c _ [] (by simp)

/-- … and the keys listed are exactly the keys of the input (also when `k = 0` and the sample is empty) -/
theorem keyed_key_mem {A O : Type} (c : Combiner α A O) (k : κ) (ps : List (List (κ × α))) :
    k ∈ (sampleKeyedParts c ps).map Prod.fst ↔ k ∈ ps.flatten.map Prod.fst := by
  have h1 := lookupK_eq_none_iff k (sampleKeyedParts c ps)
  have h2 := valuesOf_eq_nil_iff k ps.flatten
  rw [keyed_lookup] at h1
  constructor
  · intro h
    apply Classical.byContradiction
    intro hn
    have : valuesOf k ps.flatten = [] := h2.mpr hn
    exact (h1.mp (by simp [this])) h
  · intro h
    apply Classical.byContradiction
    intro hn
    have h3 := h1.mpr hn
    split at h3
    · rename_i he
      exact (h2.mp (List.isEmpty_iff.mp he)) h
    · simp at h3

/-- **Size, per key**: every listed `(key, sample)` has `min k n_key` elements — every partitioning. -/
theorem keyed_sample_size (next : σ → Nat × σ) (k : Nat) (s0 : σ) (ps : List (List (κ × α)))
    (key : κ) (s : List α) (h : (key, s) ∈ sampleKeyedParts (reservoir next k s0) ps) :
    s.length = min k (valuesOf key ps.flatten).length := by
  have hl := lookupK_of_mem_nodup key s _ (keyed_keys_nodup _ ps) h
  rw [keyed_lookup] at hl
  split at hl
  · simp at hl
  · simp only [Option.some.injEq] at hl
    rw [← hl, ← keyTree_leaves]
    exact sample_size next k s0 (keyTree key ps)

/-- **Sub-multiset, per key**: a key's sample only contains that key's values, none more often than it occurs. -/
theorem keyed_sample_submultiset [DecidableEq α] (next : σ → Nat × σ) (k : Nat) (s0 : σ)
    (ps : List (List (κ × α))) (key : κ) (s : List α)
    (h : (key, s) ∈ sampleKeyedParts (reservoir next k s0) ps) (x : α) :
    s.count x ≤ (valuesOf key ps.flatten).count x := by
  have hl := lookupK_of_mem_nodup key s _ (keyed_keys_nodup _ ps) h
  rw [keyed_lookup] at hl
  split at hl
  · simp at hl
  · simp only [Option.some.injEq] at hl
    rw [← hl, ← keyTree_leaves]
    exact sample_submultiset next k s0 (keyTree key ps) x

/-- sequential mode (`sample_values_reservoir_vec(..).collect_seq()`) -/
theorem sampleKeyedSeq_size (next : σ → Nat × σ) (k : Nat) (s0 : σ) (rows : List (κ × α))
    (key : κ) (s : List α) (h : (key, s) ∈ sampleKeyedSeq (reservoir next k s0) rows) :
    s.length = min k (valuesOf key rows).length := by
  have := keyed_sample_size next k s0 [rows] key s h
  simpa using this

/-- parallel mode, every partition count -/
theorem sampleKeyedPar_size (next : σ → Nat × σ) (k : Nat) (s0 : σ) (n : Nat) (rows : List (κ × α))
    (key : κ) (s : List α) (h : (key, s) ∈ sampleKeyedPar (reservoir next k s0) n rows) :
    s.length = min k (valuesOf key rows).length := by
  have := keyed_sample_size next k s0 (partsOf n rows) key s h
  rwa [partsOf_flatten] at this

theorem sampleKeyedSeq_submultiset [DecidableEq α] (next : σ → Nat × σ) (k : Nat) (s0 : σ)
    (rows : List (κ × α)) (key : κ) (s : List α)
    (h : (key, s) ∈ sampleKeyedSeq (reservoir next k s0) rows) (x : α) :
    s.count x ≤ (valuesOf key rows).count x := by
  have := keyed_sample_submultiset next k s0 [rows] key s h x
  simpa using this

theorem sampleKeyedPar_submultiset [DecidableEq α] (next : σ → Nat × σ) (k : Nat) (s0 : σ) (n : Nat)
    (rows : List (κ × α)) (key : κ) (s : List α)
    (h : (key, s) ∈ sampleKeyedPar (reservoir next k s0) n rows) (x : α) :
    s.count x ≤ (valuesOf key rows).count x := by
  have := keyed_sample_submultiset next k s0 (partsOf n rows) key s h x
  rwa [partsOf_flatten] at this

/-- the flattened form (`sample_values_reservoir`): for **every** key (present or not) the rows of that key
    are `min k n_key` many … -/
theorem keyedFlat_size (next : σ → Nat × σ) (k : Nat) (s0 : σ) (ps : List (List (κ × α))) (key : κ) :
    (valuesOf key (flattenKeyed (sampleKeyedParts (reservoir next k s0) ps))).length =
      min k (valuesOf key ps.flatten).length := by
  rw [valuesOf_flattenKeyed key _ (keyed_keys_nodup _ ps)]
  cases hl : lookupK key (sampleKeyedParts (reservoir next k s0) ps) with
  | some s =>
    exact keyed_sample_size next k s0 ps key s (mem_of_lookupK key s _ hl)
  | none =>
    rw [keyed_lookup] at hl
    split at hl
    · rename_i he
      simp [List.isEmpty_iff.mp he]
    · simp at hl

/-- … and a sub-multiset of that key's values -/
theorem keyedFlat_submultiset [DecidableEq α] (next : σ → Nat × σ) (k : Nat) (s0 : σ)
    (ps : List (List (κ × α))) (key : κ) (x : α) :
    (valuesOf key (flattenKeyed (sampleKeyedParts (reservoir next k s0) ps))).count x ≤
      (valuesOf key ps.flatten).count x := by
  rw [valuesOf_flattenKeyed key _ (keyed_keys_nodup _ ps)]
  cases hl : lookupK key (sampleKeyedParts (reservoir next k s0) ps) with
  | some s =>
    exact keyed_sample_submultiset next k s0 ps key s (mem_of_lookupK key s _ hl) x
  | none => simp

end keyed

/-! ## mode stability: what holds, and the negation of what is documented

The full statement the property (and the crate's documentation) asks for is

    ∀ seed k n xs, samplePar (reservoirSM k seed) n xs = sampleSeq (reservoirSM k seed) xs
    (and likewise per key)

It is **false** for the code as written (`seq_ne_par`, `seq_ne_par_of_first_prio_gt`,
`samplePar_singleton_partitions`). What does hold is kept as the two `…_partial` theorems below. -/

/-- `…_partial` (1): with one partition (requested `n ≤ 1`, or an input of length ≤ 1) parallel = sequential. -/
theorem mode_stable_single_partition_partial {A O : Type} (c : Combiner α A O) (n : Nat) (xs : List α)
    (h : n ≤ 1 ∨ xs.length ≤ 1) : samplePar c n xs = sampleSeq c xs := by
  have hp : partsOf n xs = [xs] := by
    unfold partsOf vecSplit clampParts
    rw [if_pos]
    rcases h with h | h
    · left; omega
    · right; exact h
  simp [samplePar, sampleSeq, hp]

/-- `…_partial` (2): for `k ≥ n` both modes return the whole input, so they agree **as multisets**
    (the order inside the sample still differs, see `seq_ne_par_order`). -/
theorem mode_stable_multiset_of_k_ge_partial (next : σ → Nat × σ) (k : Nat) (s0 : σ) (n : Nat) (xs : List α)
    (hk : xs.length ≤ k) :
    (samplePar (reservoir next k s0) n xs).Perm (sampleSeq (reservoir next k s0) xs) := by
  have h1 := sample_all_of_k_ge next k s0 (parTree n xs) (by rw [parTree_leaves]; exact hk)
  have h2 := sample_all_of_k_ge next k s0 (.leaf xs) hk
  rw [parTree_leaves] at h1
  rw [samplePar_eq_tree]
  exact h1.trans h2.symm

/-- **Negation of the documented mode stability** (known finding `C14-sample-differs-seq-par`): for the code
    as written (SplitMix64 restarted from the same state in every partition) there are a seed, an input,
    a `k` and a partition count for which the sequential and the parallel sample differ.
    Concrete witness, evaluated by kernel reduction: seed 42, input `[0,1,2]`, `k = 1`, 2 partitions:
    sequential `[0]`, parallel `[2]`. -/
theorem seq_ne_par : ∃ (seed : UInt64) (xs : List Nat) (k n : Nat),
    sampleSeq (reservoirSM k seed) xs ≠ samplePar (reservoirSM k seed) n xs :=
  ⟨42, [0, 1, 2], 1, 2, by decide⟩

/-- the two samples of the witness are even disjoint -/
theorem seq_ne_par_values :
    sampleSeq (reservoirSM 1 42) [0, 1, 2] = [0] ∧ samplePar (reservoirSM 1 42) 2 [0, 1, 2] = [2] := by
  decide

/-- with `k ≥ n` the elements agree but the order does not (seed 42, `[0,1,2]`, `k = 3`, 2 partitions) -/
theorem seq_ne_par_order :
    sampleSeq (reservoirSM 3 42) [0, 1, 2] ≠ samplePar (reservoirSM 3 42) 2 [0, 1, 2] := by
  decide

/-- The negation does not depend on SplitMix64: for **every** generator and **every** seed the 2-partition
    sample of a 2-element input with `k = 1` is the last element — both partitions draw the same first
    priority, the tie is broken by slot index, so the seed has no influence at all … -/
theorem par_pair_ignores_generator_and_seed (next : σ → Nat × σ) (s0 : σ) (a b : α) :
    samplePar (reservoir next 1 s0) 2 [a, b] = [b] := by
  simp [samplePar, partsOf, vecSplit, clampParts, chunksOf, mergeAll, reservoir, Combiner.foldAdd,
    addInput, create, trim, trimLoop, merge, moveLive, drainHeap, popMin, minOf, lexLt, finish, live,
    sortItems, insertItem]

/-- … likewise 3 partitions, `k = 2`: always the last two elements, in input order … -/
theorem par_triple_ignores_generator_and_seed (next : σ → Nat × σ) (s0 : σ) (a b c : α) :
    samplePar (reservoir next 2 s0) 3 [a, b, c] = [b, c] := by
  simp [samplePar, partsOf, vecSplit, clampParts, chunksOf, mergeAll, reservoir, Combiner.foldAdd,
    addInput, create, trim, trimLoop, merge, moveLive, drainHeap, popMin, minOf, lexLt, finish, live,
    sortItems, insertItem, itemLe]

/-- … whereas the sequential sample of `[a, b]` is `a` whenever the first priority beats the second. -/
theorem seq_pair_of_first_prio_gt (next : σ → Nat × σ) (s0 : σ) (a b : α)
    (h : (next (next s0).2).1 < (next s0).1) : sampleSeq (reservoir next 1 s0) [a, b] = [a] := by
  have h1 : ¬ (next s0).1 < (next (next s0).2).1 := by omega
  have h2 : ¬ (next s0).1 = (next (next s0).2).1 := by omega
  simp [sampleSeq, mergeAll, reservoir, Combiner.foldAdd, addInput, create, trim, trimLoop, popMin,
    minOf, lexLt, finish, live, sortItems, insertItem, h1, h2]

/-- **Negation, for every generator**: whenever the stream's first priority exceeds its second (about half of
    all seeds of any reasonable generator) sequential and 2-partition execution disagree on every input
    `[a, b]` with `a ≠ b`. -/
theorem seq_ne_par_of_first_prio_gt (next : σ → Nat × σ) (s0 : σ) (a b : α) (hab : a ≠ b)
    (h : (next (next s0).2).1 < (next s0).1) :
    sampleSeq (reservoir next 1 s0) [a, b] ≠ samplePar (reservoir next 1 s0) 2 [a, b] := by
  rw [seq_pair_of_first_prio_gt next s0 a b h, par_pair_ignores_generator_and_seed]
  intro e
  exact hab (by simpa using e)

/-- non-vacuity of the hypothesis above: SplitMix64 with seed 42 -/
example : (smNextPrio (smNextPrio (seedState 42)).2).1 < (smNextPrio (seedState 42)).1 := by decide

/-- **General negation — every generator, every seed, every input, every `k`.** As soon as the partition
    count reaches the input length, every partition holds one element, every element draws the *same*
    priority (the first of the restarted stream), all comparisons are ties broken by slot index, and the
    parallel "sample" is simply the last `k` inputs in input order (observed on the real crate:
    `0..20`, `k = 5`, 20 partitions → `[15,16,17,18,19]` for every seed). -/
theorem samplePar_singleton_partitions (next : σ → Nat × σ) (k : Nat) (s0 : σ) (n : Nat) (xs : List α)
    (hn : xs.length ≤ n) : samplePar (reservoir next k s0) n xs = lastK k xs := by
  by_cases hk : k = 0
  · subst hk
    have h0 : samplePar (reservoir next 0 s0) n xs = [] :=
      List.length_eq_zero_iff.mp (by rw [samplePar_size]; simp)
    rw [h0]; simp [lastK]
  · have hk1 : 1 ≤ k := by omega
    match xs, hn with
    | [], _ =>
      have h0 : samplePar (reservoir next k s0) n ([] : List α) = [] :=
        List.length_eq_zero_iff.mp (by rw [samplePar_size]; simp)
      rw [h0]; simp [lastK]
    | [x], _ =>
      rw [mode_stable_single_partition_partial _ n [x] (Or.inr (by simp))]
      have : sampleSeq (reservoir next k s0) [x] = finish (singleAcc next k s0 x) := by
        simp only [sampleSeq, mergeAll, List.foldl_nil, fold_single next k s0 x hk1]; rfl
      rw [this, finish_tied (tied_single next k s0 x hk1), lastK_of_length_le k [x] (by simpa using hk1)]
    | x0 :: x1 :: rest, hn =>
      have hp := partsOf_singletons n (x0 :: x1 :: rest) (by simp) hn
      have hfold : ∀ x : α, (reservoir next k s0).foldAdd (reservoir next k s0).create [x] =
          singleAcc next k s0 x := fun x => fold_single next k s0 x hk1
      have ht := tied_mergeAll_singletons next k s0 hk1 (x1 :: rest) [x0] _ (tied_single next k s0 x0 hk1)
      have hfin := finish_tied ht
      have hparts : (partsOf n (x0 :: x1 :: rest)).map
          ((reservoir next k s0).foldAdd (reservoir next k s0).create) =
          (x0 :: x1 :: rest).map (fun x => singleAcc next k s0 x) := by
        rw [hp, List.map_map]
        exact List.map_congr_left (fun x _ => hfold x)
      unfold samplePar
      rw [hparts]
      exact hfin

/-- … hence with `n ≥ |xs|` partitions the result does not depend on the generator or the seed at all -/
theorem samplePar_singleton_partitions_ignores_seed {σ' : Type} (next : σ → Nat × σ) (next' : σ' → Nat × σ')
    (k : Nat) (s0 : σ) (s0' : σ') (n : Nat) (xs : List α) (hn : xs.length ≤ n) :
    samplePar (reservoir next k s0) n xs = samplePar (reservoir next' k s0') n xs := by
  rw [samplePar_singleton_partitions next k s0 n xs hn, samplePar_singleton_partitions next' k s0' n xs hn]

/-- the design-time witness observed on the real crate (`0..20`, `k = 5`, seed 42) -/
theorem witness_0_20_k5_seed42 :
    sampleSeq (reservoirSM 5 42) (List.range 20) = [15, 11, 19, 9, 4] ∧
    samplePar (reservoirSM 5 42) 4 (List.range 20) = [4, 9, 14, 19, 18] ∧
    samplePar (reservoirSM 5 42) 3 (List.range 20) = [4, 11, 18, 10, 17] := by
  decide +kernel

/-! non-vacuity: a non-trivial tree (three leaves, one empty, duplicates, `k` smaller than `n`) -/
example : (sampleOf smNextPrio 2 (seedState 7)
    (Tree.node (Tree.node (.leaf [1, 1, 2]) (.leaf [])) (.leaf [2, 3]))).length = 2 := by
  rw [sample_size]; rfl

example : (5 : Nat) ≤ 7 ∧ ([3, 1, 3, 1, 2] : List Nat).length ≤ 7 := by decide

end IB.Sampling
