import IbModel.Proofs.Sampling
import IbModel.Proofs.SamplingKeyed
import IbModel.Proofs.SamplingTies
import IbModel.Proofs.SamplingPlan
import IbModel.Model.Closures
import IbModel.Driver.D14
/-!
# C14 — reservoir sampling: right size, real elements only, reproducible, mode-stable

Property theorems about the model of `src/combiners/sampling.rs` / `src/helpers/sampling.rs`
(`Model/Sampling.lean`). Everything up to `seq_ne_par` is proved for **every** generator
(`next : σ → Nat × σ`, i.e. every priority stream), every initial generator state, every `k`
(including `0` and `k ≥ n`), every input (duplicates allowed) and every merge tree / partition count.

The last claim of the property ("identical for sequential and parallel execution and for every
partitioning", as documented in `helpers/sampling.rs`) is **false for the code as written**: every
partition restarts the same SplitMix64 stream. `seq_ne_par` (global) and `keyed_seq_ne_par` (per key) prove the negation on concrete witnesses;
`mode_stable_single_partition_partial`, `mode_stable_multiset_of_k_ge_partial` and their per-key / filtered /
flattened forms (`keyed_…`, `filter_…`, `flat_…`) are the parts of the claim that do hold (`…_partial`).
`sampleParts_*` state size and sub-multiset for an ARBITRARY list of partitions (empty and skewed ones, as a
`filter` upstream produces them); `sampleFlat*` are the flattened entry point `sample_reservoir`.

Round 3: (a) `cutSizes_*`, `samplePreParts_*`, `sampleKeyedPreParts_*` — the driver evaluates the partitions the real
split produced, with any stateless element-wise op (`map` / `filter` / `flat_map`) upstream; (b) the UN-lifted keyed
plan a join side runs (`sampleKeyedUnlifted_*`): there every partition count gives the sequential per-key sample
(`reservoir_unlifted_eq_seq`), so the keyed negation `keyed_seq_ne_par` is a statement about the LIFTED plan only;
(c) `execSeq_/execPar_/runSubPar_…Chain` — the pipeline definitions are `Engine.execSeq/execPar/runSubPar` on the
chains the builders insert, after `Planner.optimise`; `vecSplit_eq_closures`; (d) `prioBits_strictMono`,
`totalCmp_prio` (the integer priority of the model and the stored `f64` order alike), `merge_k_align_noop`,
`mergeMaps_lookup_congr` / `lookup_ignores_entry_order` (hash order is unobservable per key),
`sample_depends_on_feeding_order` (negation of "depends on the input multiset only": known finding
`C14-sample-after-barrier-not-reproducible`).
NOT proved (stated here in full): tree-shape independence for in-order leaves,
    ∀ t₁ t₂, t₁.leafList = t₂.leafList → sampleOf next k s0 t₁ = sampleOf next k s0 t₂
(it needs the characterisation "live items = the k largest under (priority, seq, in-order position)"); the
correspondence checks it exhaustively for every tree over ≤ 3 leaves / n ≤ 4 (7 thorough) and on left-comb /
balanced / right-comb trees over 4 leaves of 63–65 rows and 70 leaves of 2 rows.
-/
namespace IB.Sampling

variable {σ α : Type}

/-! ## the invariant relating `heap`, `store`, `alive` (and the input seen so far) -/

/-- `Inv k xs a`: `a` is what some merge tree with leaves `xs` evaluates to.
* `wf.heap_perm` — the heap's slot indices are exactly the indices of the live (non-tombstoned) slots,
  each once; `wf.alive_eq` — `alive` is the number of live slots;
* `alive_n` — exactly `min k n` items are live;
* `sub` — the live values together with some dropped values are a permutation of the input
  (nothing invented, nothing duplicated). -/
structure Inv (k : Nat) (xs : List α) (a : PRAcc σ α) : Prop where
  wf : WF a
  k_eq : a.k = k
  alive_n : a.alive = min k xs.length
  sub : ∃ d, xs.Perm (d ++ (live a.store).map (fun it => it.2.2))

theorem inv_create (k : Nat) (s0 : σ) : Inv k ([] : List α) (create k s0 : PRAcc σ α) :=
  ⟨wf_create k s0, rfl, by simp [create], [], by simp [create]⟩

theorem inv_addInput (next : σ → Nat × σ) {k : Nat} {xs : List α} {a : PRAcc σ α} (v : α)
    (h : Inv k xs a) : Inv k (xs ++ [v]) (addInput next a v) := by
  obtain ⟨wf, hk, hal, d, hd⟩ := h
  by_cases hk0 : a.k = 0
  · have : addInput next a v = a := by simp [addInput, hk0]
    rw [this]
    refine ⟨wf, hk, ?_, v :: d, ?_⟩
    · rw [hal]; subst hk; rw [hk0]; simp
    · exact (List.perm_append_singleton v xs).trans (List.Perm.cons v hd)
  · obtain ⟨w, hkk, hal', d', hd'⟩ := addInput_spec next a v wf hk0
    refine ⟨w, hkk.trans hk, ?_, d ++ d', ?_⟩
    · rw [hal', hal, hk]; simp only [List.length_append, List.length_cons, List.length_nil]; omega
    · have h1 : (xs ++ [v]).Perm ((d ++ (live a.store).map (fun it => it.2.2)) ++ [v]) :=
        List.Perm.append_right _ hd
      rw [List.append_assoc] at h1
      refine h1.trans ?_
      rw [List.append_assoc]
      exact List.Perm.append_left d hd'

theorem inv_foldAdd (next : σ → Nat × σ) {k : Nat} : ∀ (ys xs : List α) (a : PRAcc σ α),
    Inv k xs a → Inv k (xs ++ ys) (ys.foldl (addInput next) a)
  | [], xs, a, h => by simpa using h
  | y :: ys, xs, a, h => by
    have := inv_foldAdd next ys (xs ++ [y]) (addInput next a y) (inv_addInput next y h)
    simpa using this

theorem inv_merge {k : Nat} {xs ys : List α} {a o : PRAcc σ α} (ha : Inv k xs a) (ho : Inv k ys o) :
    Inv k (xs ++ ys) (merge a o) := by
  obtain ⟨wa, hka, hala, da, hda⟩ := ha
  obtain ⟨wo, hko, halo, dc, hdo⟩ := ho
  by_cases hk0 : a.k = 0
  · have : merge a o = a := by simp [merge, hk0]
    rw [this]
    refine ⟨wa, hka, ?_, ys ++ da, ?_⟩
    · rw [hala]; subst hka; rw [hk0]; simp
    · rw [List.append_assoc]
      exact List.perm_append_comm.trans (List.Perm.append_left ys hda)
  · obtain ⟨w, hkk, hal', d', hd'⟩ := merge_spec a o wa wo hk0
    refine ⟨w, by rw [hkk, hka, hko]; simp, ?_, da ++ dc ++ d', ?_⟩
    · rw [hal', hala, halo, hka, hko]; simp only [List.length_append]; omega
    · have h1 : (xs ++ ys).Perm ((da ++ (live a.store).map (fun it => it.2.2)) ++
          (dc ++ (live o.store).map (fun it => it.2.2))) := List.Perm.append hda hdo
      refine h1.trans ?_
      have h2 : ((da ++ (live a.store).map (fun it => it.2.2)) ++
          (dc ++ (live o.store).map (fun it => it.2.2))).Perm
          ((da ++ dc) ++ ((live a.store).map (fun it => it.2.2) ++ (live o.store).map (fun it => it.2.2))) := by
        simp only [List.append_assoc]
        refine List.Perm.append_left da ?_
        rw [← List.append_assoc, ← List.append_assoc]
        exact List.Perm.append_right _ List.perm_append_comm
      refine h2.trans ?_
      rw [List.append_assoc (da ++ dc)]
      exact List.Perm.append_left _ hd'

/-- **Invariant.** Whatever tree of per-partition folds and merges is evaluated — any generator, any `k`,
    any leaves — the resulting accumulator satisfies `Inv` for the concatenation of the leaves. -/
theorem eval_inv (next : σ → Nat × σ) (k : Nat) (s0 : σ) : ∀ (t : Tree α),
    Inv k t.leaves (t.eval (reservoir next k s0))
  | .leaf xs => by
    have := inv_foldAdd next xs [] (create k s0) (inv_create k s0)
    simpa [Tree.eval, Tree.leaves, reservoir, Combiner.foldAdd] using this
  | .node l r => by
    have hl := eval_inv next k s0 l
    have hr := eval_inv next k s0 r
    simpa [Tree.eval, Tree.leaves, reservoir] using inv_merge hl hr

/-- `build_from_group` is the per-partition fold (the `B<i>` leaves of the correspondence check) -/
theorem reservoir_build (next : σ → Nat × σ) (k : Nat) (s0 : σ) (xs : List α) :
    (reservoir next k s0).build xs = (Tree.leaf xs).eval (reservoir next k s0) := rfl

/-- the model's `heap.pop()` is what `BinaryHeap<Reverse<_>>::pop` is: it removes one entry, and no entry of
    the heap is smaller than it in the lexicographic order on `(priority, seq, idx)` -/
theorem popMin_is_minimum {h h' : List (Nat × Nat × Nat)} {e : Nat × Nat × Nat}
    (hp : popMin h = some (e, h')) : h.Perm (e :: h') ∧ ∀ y ∈ h, lexLt y e = false := by
  refine ⟨popMin_perm hp, ?_⟩
  cases h with
  | nil => simp [popMin] at hp
  | cons x xs =>
    simp only [popMin, Option.some.injEq, Prod.mk.injEq] at hp
    rw [← hp.1]
    exact minOf_min xs x

/-! ## `finish` on an accumulator satisfying the invariant -/

theorem finish_length {k : Nat} {xs : List α} {a : PRAcc σ α} (h : Inv k xs a) :
    (finish a).length = min k xs.length := by
  obtain ⟨wf, hk, hal, _⟩ := h
  unfold finish
  by_cases h0 : (a.k == 0 || a.alive == 0) = true
  · simp only [h0, ↓reduceIte, List.length_nil]
    simp only [Bool.or_eq_true, beq_iff_eq] at h0
    rcases h0 with h0 | h0 <;> omega
  · simp only [h0, Bool.false_eq_true, ↓reduceIte, List.length_map, List.length_take,
      (sortItems_perm _).length_eq]
    rw [← wf.alive_eq, hal, hk]; omega

theorem finish_subperm {k : Nat} {xs : List α} {a : PRAcc σ α} (h : Inv k xs a) :
    ∃ d, xs.Perm (d ++ finish a) := by
  obtain ⟨_, _, _, d, hd⟩ := h
  unfold finish
  split
  · exact ⟨xs, by simp⟩
  · refine ⟨d ++ ((sortItems (live a.store)).drop a.k).map (fun it => it.2.2), ?_⟩
    refine hd.trans ?_
    rw [List.append_assoc]
    refine List.Perm.append_left d ?_
    have h1 : ((live a.store).map (fun it => it.2.2)).Perm ((sortItems (live a.store)).map (fun it => it.2.2)) :=
      ((sortItems_perm _).map _).symm
    refine h1.trans ?_
    have h2 : (sortItems (live a.store)).map (fun it => it.2.2) =
        ((sortItems (live a.store)).take a.k).map (fun it => it.2.2) ++
          ((sortItems (live a.store)).drop a.k).map (fun it => it.2.2) := by
      rw [← List.map_append, List.take_append_drop]
    rw [h2]
    exact List.perm_append_comm

/-! ## the property, for every merge tree -/

/-- the sample a merge tree produces -/
def sampleOf (next : σ → Nat × σ) (k : Nat) (s0 : σ) (t : Tree α) : List α :=
  (reservoir next k s0).finish (t.eval (reservoir next k s0))

/-- **Size.** Exactly `min k n` elements — every generator, every `k` (0 and `k ≥ n` included), every tree. -/
theorem sample_size (next : σ → Nat × σ) (k : Nat) (s0 : σ) (t : Tree α) :
    (sampleOf next k s0 t).length = min k t.leaves.length :=
  finish_length (eval_inv next k s0 t)

/-- **Real elements only**, strongest form: the sample together with some remainder is a permutation of the input. -/
theorem sample_subperm (next : σ → Nat × σ) (k : Nat) (s0 : σ) (t : Tree α) :
    ∃ d, t.leaves.Perm (d ++ sampleOf next k s0 t) :=
  finish_subperm (eval_inv next k s0 t)

/-- **Sub-multiset.** Nothing invented (count 0 stays 0), nothing returned more often than it occurs. -/
theorem sample_submultiset [DecidableEq α] (next : σ → Nat × σ) (k : Nat) (s0 : σ) (t : Tree α) (x : α) :
    (sampleOf next k s0 t).count x ≤ t.leaves.count x := by
  obtain ⟨d, hd⟩ := sample_subperm next k s0 t
  rw [hd.count_eq, List.count_append]
  omega

/-- every sampled element is an input element -/
theorem sample_mem (next : σ → Nat × σ) (k : Nat) (s0 : σ) (t : Tree α) (x : α)
    (hx : x ∈ sampleOf next k s0 t) : x ∈ t.leaves := by
  obtain ⟨d, hd⟩ := sample_subperm next k s0 t
  exact hd.mem_iff.mpr (List.mem_append_right d hx)

/-- `k ≥ n`: the sample is the whole input (as a multiset) -/
theorem sample_all_of_k_ge (next : σ → Nat × σ) (k : Nat) (s0 : σ) (t : Tree α)
    (hk : t.leaves.length ≤ k) : (sampleOf next k s0 t).Perm t.leaves := by
  obtain ⟨d, hd⟩ := sample_subperm next k s0 t
  have hl := hd.length_eq
  rw [List.length_append, sample_size] at hl
  have hd0 : d = [] := List.length_eq_zero_iff.mp (by omega)
  subst hd0
  simpa using hd.symm

/-- `k = 0`: the sample is empty -/
theorem sample_k_zero (next : σ → Nat × σ) (s0 : σ) (t : Tree α) : sampleOf next 0 s0 t = [] :=
  List.length_eq_zero_iff.mp (by rw [sample_size]; simp)

/-- **Reproducible.** The sample is a function of (generator, k, initial state = seed, tree): equal arguments give
    equal samples — the model has no other state (trivial, but stated). -/
theorem sample_deterministic (next : σ → Nat × σ) {k₁ k₂ : Nat} {s₁ s₂ : σ} {t₁ t₂ : Tree α}
    (hk : k₁ = k₂) (hs : s₁ = s₂) (ht : t₁ = t₂) : sampleOf next k₁ s₁ t₁ = sampleOf next k₂ s₂ t₂ := by
  subst hk hs ht; rfl

/-! ## the global pipelines (`sample_reservoir_vec`, `sample_reservoir`) -/

theorem foldl_comb_leaves : ∀ (ps : List (List α)) (t : Tree α),
    (ps.foldl (fun t q => Tree.node t (Tree.leaf q)) t).leaves = t.leaves ++ ps.flatten
  | [], t => by simp
  | p :: ps, t => by
    simp only [List.foldl_cons, foldl_comb_leaves ps, Tree.leaves, List.flatten_cons, List.append_assoc]

theorem foldl_comb_eval {A O : Type} (c : Combiner α A O) : ∀ (ps : List (List α)) (t : Tree α),
    (ps.foldl (fun t q => Tree.node t (Tree.leaf q)) t).eval c =
      (ps.map (c.foldAdd c.create)).foldl c.merge (t.eval c)
  | [], t => rfl
  | p :: ps, t => by
    simp only [List.foldl_cons, foldl_comb_eval c ps, Tree.eval, List.map_cons]

/-- the merge tree parallel execution with `n` partitions evaluates -/
def parTree (n : Nat) (xs : List α) : Tree α :=
  match partsOf n xs with
  | [] => .leaf []
  | p :: ps => combTree p ps

theorem parTree_leaves (n : Nat) (xs : List α) : (parTree n xs).leaves = xs := by
  have h := partsOf_flatten n xs
  unfold parTree
  cases hp : partsOf n xs with
  | nil => rw [hp] at h; simpa [Tree.leaves] using h
  | cons p ps =>
    rw [hp] at h
    simp only [combTree, foldl_comb_leaves, Tree.leaves]
    simpa using h

theorem samplePar_eq_tree {A O : Type} (c : Combiner α A O) (n : Nat) (xs : List α) :
    samplePar c n xs = c.finish ((parTree n xs).eval c) := by
  unfold samplePar parTree
  cases partsOf n xs with
  | nil => rfl
  | cons p ps => simp only [List.map_cons, mergeAll, combTree, foldl_comb_eval, Tree.eval]

theorem sampleSeq_eq_tree {A O : Type} (c : Combiner α A O) (xs : List α) :
    sampleSeq c xs = c.finish ((Tree.leaf xs).eval c) := rfl

/-- size, sequential mode -/
theorem sampleSeq_size (next : σ → Nat × σ) (k : Nat) (s0 : σ) (xs : List α) :
    (sampleSeq (reservoir next k s0) xs).length = min k xs.length :=
  sample_size next k s0 (.leaf xs)

/-- size, parallel mode, every partition count -/
theorem samplePar_size (next : σ → Nat × σ) (k : Nat) (s0 : σ) (n : Nat) (xs : List α) :
    (samplePar (reservoir next k s0) n xs).length = min k xs.length := by
  rw [samplePar_eq_tree]
  have := sample_size next k s0 (parTree n xs)
  rwa [parTree_leaves] at this

/-- sub-multiset, sequential mode -/
theorem sampleSeq_submultiset [DecidableEq α] (next : σ → Nat × σ) (k : Nat) (s0 : σ) (xs : List α) (x : α) :
    (sampleSeq (reservoir next k s0) xs).count x ≤ xs.count x :=
  sample_submultiset next k s0 (.leaf xs) x

/-- sub-multiset, parallel mode, every partition count -/
theorem samplePar_submultiset [DecidableEq α] (next : σ → Nat × σ) (k : Nat) (s0 : σ) (n : Nat)
    (xs : List α) (x : α) : (samplePar (reservoir next k s0) n xs).count x ≤ xs.count x := by
  rw [samplePar_eq_tree]
  have := sample_submultiset next k s0 (parTree n xs) x
  rwa [parTree_leaves] at this

/-! ### arbitrary partitions (skewed / empty ones included), a `filter` upstream, the flattened form -/

/-- the merge tree `sampleParts` evaluates: the left comb over the partitions, in order -/
def partsTree (ps : List (List α)) : Tree α :=
  match ps with
  | [] => .leaf []
  | p :: ps => combTree p ps

theorem partsTree_leaves (ps : List (List α)) : (partsTree ps).leaves = ps.flatten := by
  cases ps with
  | nil => rfl
  | cons p ps => simp [partsTree, combTree, foldl_comb_leaves, Tree.leaves]

theorem sampleParts_eq_tree {A O : Type} (c : Combiner α A O) (ps : List (List α)) :
    sampleParts c ps = c.finish ((partsTree ps).eval c) := by
  unfold sampleParts partsTree
  cases ps with
  | nil => rfl
  | cons p ps => simp only [List.map_cons, mergeAll, combTree, foldl_comb_eval, Tree.eval]

/-- parallel execution is `sampleParts` on the partitions `exec_par` cuts -/
theorem samplePar_eq_parts {A O : Type} (c : Combiner α A O) (n : Nat) (xs : List α) :
    samplePar c n xs = sampleParts c (partsOf n xs) := rfl

/-- **Size, every partitioning**: any list of partitions whatsoever — empty ones, skewed ones, any number. -/
theorem sampleParts_size (next : σ → Nat × σ) (k : Nat) (s0 : σ) (ps : List (List α)) :
    (sampleParts (reservoir next k s0) ps).length = min k ps.flatten.length := by
  rw [sampleParts_eq_tree, ← partsTree_leaves]
  exact sample_size next k s0 (partsTree ps)

/-- **Sub-multiset, every partitioning.** -/
theorem sampleParts_submultiset [DecidableEq α] (next : σ → Nat × σ) (k : Nat) (s0 : σ)
    (ps : List (List α)) (x : α) :
    (sampleParts (reservoir next k s0) ps).count x ≤ ps.flatten.count x := by
  rw [sampleParts_eq_tree, ← partsTree_leaves]
  exact sample_submultiset next k s0 (partsTree ps) x

theorem flatten_map_filter {β : Type} (p : β → Bool) : ∀ (ps : List (List β)),
    (ps.map (List.filter p)).flatten = ps.flatten.filter p
  | [] => rfl
  | q :: ps => by
    simp only [List.map_cons, List.flatten_cons, List.filter_append, flatten_map_filter p ps]

/-- a `filter` before the sample, parallel mode: the partitions the combiner sees hold exactly the kept elements -/
theorem filterParts_flatten {β : Type} (n : Nat) (p : β → Bool) (xs : List β) :
    ((partsOf n xs).map (List.filter p)).flatten = xs.filter p := by
  rw [flatten_map_filter, partsOf_flatten]

/-- size with a `filter` upstream, sequential mode -/
theorem sampleFilterSeq_size (next : σ → Nat × σ) (k : Nat) (s0 : σ) (p : α → Bool) (xs : List α) :
    (sampleFilterSeq (reservoir next k s0) p xs).length = min k (xs.filter p).length :=
  sampleSeq_size next k s0 (xs.filter p)

/-- size with a `filter` upstream, parallel mode, every partition count (`min k` of the KEPT elements) -/
theorem sampleFilterPar_size (next : σ → Nat × σ) (k : Nat) (s0 : σ) (n : Nat) (p : α → Bool) (xs : List α) :
    (sampleFilterPar (reservoir next k s0) n p xs).length = min k (xs.filter p).length := by
  unfold sampleFilterPar
  rw [sampleParts_size, filterParts_flatten]

theorem sampleFilterSeq_submultiset [DecidableEq α] (next : σ → Nat × σ) (k : Nat) (s0 : σ) (p : α → Bool)
    (xs : List α) (x : α) :
    (sampleFilterSeq (reservoir next k s0) p xs).count x ≤ (xs.filter p).count x :=
  sampleSeq_submultiset next k s0 (xs.filter p) x

/-- sub-multiset of the KEPT elements with a `filter` upstream, parallel mode, every partition count -/
theorem sampleFilterPar_submultiset [DecidableEq α] (next : σ → Nat × σ) (k : Nat) (s0 : σ) (n : Nat)
    (p : α → Bool) (xs : List α) (x : α) :
    (sampleFilterPar (reservoir next k s0) n p xs).count x ≤ (xs.filter p).count x := by
  unfold sampleFilterPar
  have := sampleParts_submultiset next k s0 ((partsOf n xs).map (List.filter p)) x
  rwa [filterParts_flatten] at this

/-- the flattened entry point `sample_reservoir` returns exactly the elements of the one `Vec` row of
    `sample_reservoir_vec`, in the same order — sequential … -/
theorem sampleFlatSeq_eq {A : Type} (c : Combiner α A (List α)) (xs : List α) :
    sampleFlatSeq c xs = sampleSeq c xs := by
  simp [sampleFlatSeq, flattenGlobal]

/-- … and parallel, every partition count -/
theorem sampleFlatPar_eq {A : Type} (c : Combiner α A (List α)) (n : Nat) (xs : List α) :
    sampleFlatPar c n xs = samplePar c n xs := by
  simp [sampleFlatPar, flattenGlobal]

/-- size, flattened entry point, both modes -/
theorem sampleFlat_size (next : σ → Nat × σ) (k : Nat) (s0 : σ) (n : Nat) (xs : List α) :
    (sampleFlatSeq (reservoir next k s0) xs).length = min k xs.length ∧
    (sampleFlatPar (reservoir next k s0) n xs).length = min k xs.length := by
  rw [sampleFlatSeq_eq, sampleFlatPar_eq]
  exact ⟨sampleSeq_size next k s0 xs, samplePar_size next k s0 n xs⟩

/-- sub-multiset, flattened entry point, both modes -/
theorem sampleFlat_submultiset [DecidableEq α] (next : σ → Nat × σ) (k : Nat) (s0 : σ) (n : Nat)
    (xs : List α) (x : α) :
    (sampleFlatSeq (reservoir next k s0) xs).count x ≤ xs.count x ∧
    (sampleFlatPar (reservoir next k s0) n xs).count x ≤ xs.count x := by
  rw [sampleFlatSeq_eq, sampleFlatPar_eq]
  exact ⟨sampleSeq_submultiset next k s0 xs x, samplePar_submultiset next k s0 n xs x⟩

/-! ## the per-key pipelines (`sample_values_reservoir_vec`, `sample_values_reservoir`) -/

section keyed
variable {κ : Type} [DecidableEq κ]

theorem sampleKeyedSeq_eq_parts {A O : Type} (c : Combiner α A O) (rows : List (κ × α)) :
    sampleKeyedSeq c rows = sampleKeyedParts c [rows] := rfl

theorem sampleKeyedPar_eq_parts {A O : Type} (c : Combiner α A O) (n : Nat) (rows : List (κ × α)) :
    sampleKeyedPar c n rows = sampleKeyedParts c (partsOf n rows) := rfl

/-- the merge tree of one key: a fresh `create()`, then the folds of the partitions that contain the key, in
    partition order -/
def keyTree (k : κ) (ps : List (List (κ × α))) : Tree α := combTree [] (keyParts k ps)

theorem keyTree_leaves (k : κ) (ps : List (List (κ × α))) :
    (keyTree k ps).leaves = valuesOf k ps.flatten := by
  simp [keyTree, combTree, foldl_comb_leaves, Tree.leaves, keyParts_flatten]

/-- **Per key = a merge tree over that key's values.** For every combiner, every list of partitions and every
    key: the keyed output has an entry for the key iff the key occurs in the input, and the entry is
    `finish` of the key's merge tree, whose leaves are exactly the key's values in input order. -/
theorem keyed_lookup {A O : Type} (c : Combiner α A O) (k : κ) (ps : List (List (κ × α))) :
    lookupK k (sampleKeyedParts c ps) =
      if (valuesOf k ps.flatten).isEmpty then none else some (c.finish ((keyTree k ps).eval c)) := by
  unfold sampleKeyedParts mergeMaps mergeMapsAcc
  rw [lookupK_map, lookupK_mergeFold c k _ [] (by
    intro m hm
    obtain ⟨p, _, rfl⟩ := List.mem_map.mp hm
    exact nodup_keys_localPairs c p)]
  rw [filterMap_lookup_localPairs]
  have he : ((keyParts k ps).map (c.foldAdd c.create)).isEmpty = (valuesOf k ps.flatten).isEmpty := by
    rw [← keyParts_isEmpty]; cases keyParts k ps <;> rfl
  rw [he]
  split
  · rfl
  · simp [keyTree, combTree, foldl_comb_eval, Tree.eval, lookupK]

/-- every key is listed at most once … -/
theorem keyed_keys_nodup {A O : Type} (c : Combiner α A O) (ps : List (List (κ × α))) :
    ((sampleKeyedParts c ps).map Prod.fst).Nodup := by
  unfold sampleKeyedParts mergeMaps mergeMapsAcc
  rw [List.map_map]
  exact nodup_keys_mergeFold c _ [] (by simp)

/-- … and the keys listed are exactly the keys of the input (also when `k = 0` and the sample is empty) -/
theorem keyed_key_mem {A O : Type} (c : Combiner α A O) (k : κ) (ps : List (List (κ × α))) :
    k ∈ (sampleKeyedParts c ps).map Prod.fst ↔ k ∈ ps.flatten.map Prod.fst := by
  have h1 := lookupK_eq_none_iff k (sampleKeyedParts c ps)
  have h2 := valuesOf_eq_nil_iff k ps.flatten
  rw [keyed_lookup] at h1
  constructor
  · intro h
    apply Classical.byContradiction
    intro hn
    have : valuesOf k ps.flatten = [] := h2.mpr hn
    exact (h1.mp (by simp [this])) h
  · intro h
    apply Classical.byContradiction
    intro hn
    have h3 := h1.mpr hn
    split at h3
    · rename_i he
      exact (h2.mp (List.isEmpty_iff.mp he)) h
    · simp at h3

/-- **Size, per key**: every listed `(key, sample)` has `min k n_key` elements — every partitioning. -/
theorem keyed_sample_size (next : σ → Nat × σ) (k : Nat) (s0 : σ) (ps : List (List (κ × α)))
    (key : κ) (s : List α) (h : (key, s) ∈ sampleKeyedParts (reservoir next k s0) ps) :
    s.length = min k (valuesOf key ps.flatten).length := by
  have hl := lookupK_of_mem_nodup key s _ (keyed_keys_nodup _ ps) h
  rw [keyed_lookup] at hl
  split at hl
  · simp at hl
  · simp only [Option.some.injEq] at hl
    rw [← hl, ← keyTree_leaves]
    exact sample_size next k s0 (keyTree key ps)

/-- **Sub-multiset, per key**: a key's sample only contains that key's values, none more often than it occurs. -/
theorem keyed_sample_submultiset [DecidableEq α] (next : σ → Nat × σ) (k : Nat) (s0 : σ)
    (ps : List (List (κ × α))) (key : κ) (s : List α)
    (h : (key, s) ∈ sampleKeyedParts (reservoir next k s0) ps) (x : α) :
    s.count x ≤ (valuesOf key ps.flatten).count x := by
  have hl := lookupK_of_mem_nodup key s _ (keyed_keys_nodup _ ps) h
  rw [keyed_lookup] at hl
  split at hl
  · simp at hl
  · simp only [Option.some.injEq] at hl
    rw [← hl, ← keyTree_leaves]
    exact sample_submultiset next k s0 (keyTree key ps) x

/-- sequential mode (`sample_values_reservoir_vec(..).collect_seq()`) -/
theorem sampleKeyedSeq_size (next : σ → Nat × σ) (k : Nat) (s0 : σ) (rows : List (κ × α))
    (key : κ) (s : List α) (h : (key, s) ∈ sampleKeyedSeq (reservoir next k s0) rows) :
    s.length = min k (valuesOf key rows).length := by
  have := keyed_sample_size next k s0 [rows] key s h
  simpa using this

/-- parallel mode, every partition count -/
theorem sampleKeyedPar_size (next : σ → Nat × σ) (k : Nat) (s0 : σ) (n : Nat) (rows : List (κ × α))
    (key : κ) (s : List α) (h : (key, s) ∈ sampleKeyedPar (reservoir next k s0) n rows) :
    s.length = min k (valuesOf key rows).length := by
  have := keyed_sample_size next k s0 (partsOf n rows) key s h
  rwa [partsOf_flatten] at this

theorem sampleKeyedSeq_submultiset [DecidableEq α] (next : σ → Nat × σ) (k : Nat) (s0 : σ)
    (rows : List (κ × α)) (key : κ) (s : List α)
    (h : (key, s) ∈ sampleKeyedSeq (reservoir next k s0) rows) (x : α) :
    s.count x ≤ (valuesOf key rows).count x := by
  have := keyed_sample_submultiset next k s0 [rows] key s h x
  simpa using this

theorem sampleKeyedPar_submultiset [DecidableEq α] (next : σ → Nat × σ) (k : Nat) (s0 : σ) (n : Nat)
    (rows : List (κ × α)) (key : κ) (s : List α)
    (h : (key, s) ∈ sampleKeyedPar (reservoir next k s0) n rows) (x : α) :
    s.count x ≤ (valuesOf key rows).count x := by
  have := keyed_sample_submultiset next k s0 (partsOf n rows) key s h x
  rwa [partsOf_flatten] at this

/-- the flattened form (`sample_values_reservoir`): for **every** key (present or not) the rows of that key
    are `min k n_key` many … -/
theorem keyedFlat_size (next : σ → Nat × σ) (k : Nat) (s0 : σ) (ps : List (List (κ × α))) (key : κ) :
    (valuesOf key (flattenKeyed (sampleKeyedParts (reservoir next k s0) ps))).length =
      min k (valuesOf key ps.flatten).length := by
  rw [valuesOf_flattenKeyed key _ (keyed_keys_nodup _ ps)]
  cases hl : lookupK key (sampleKeyedParts (reservoir next k s0) ps) with
  | some s =>
    exact keyed_sample_size next k s0 ps key s (mem_of_lookupK key s _ hl)
  | none =>
    rw [keyed_lookup] at hl
    split at hl
    · rename_i he
      simp [List.isEmpty_iff.mp he]
    · simp at hl

/-- … and a sub-multiset of that key's values -/
theorem keyedFlat_submultiset [DecidableEq α] (next : σ → Nat × σ) (k : Nat) (s0 : σ)
    (ps : List (List (κ × α))) (key : κ) (x : α) :
    (valuesOf key (flattenKeyed (sampleKeyedParts (reservoir next k s0) ps))).count x ≤
      (valuesOf key ps.flatten).count x := by
  rw [valuesOf_flattenKeyed key _ (keyed_keys_nodup _ ps)]
  cases hl : lookupK key (sampleKeyedParts (reservoir next k s0) ps) with
  | some s =>
    exact keyed_sample_submultiset next k s0 ps key s (mem_of_lookupK key s _ hl) x
  | none => simp

/-- a `filter` upstream of the per-key sample is `sampleKeyedParts` on the filtered partitions -/
theorem sampleKeyedFilterPar_eq_parts {A O : Type} (c : Combiner α A O) (n : Nat) (p : κ × α → Bool)
    (rows : List (κ × α)) :
    sampleKeyedFilterPar c n p rows = sampleKeyedParts c ((partsOf n rows).map (List.filter p)) := rfl

/-- size per key with a `filter` upstream, parallel mode, every partition count -/
theorem sampleKeyedFilterPar_size (next : σ → Nat × σ) (k : Nat) (s0 : σ) (n : Nat) (p : κ × α → Bool)
    (rows : List (κ × α)) (key : κ) (s : List α)
    (h : (key, s) ∈ sampleKeyedFilterPar (reservoir next k s0) n p rows) :
    s.length = min k (valuesOf key (rows.filter p)).length := by
  have := keyed_sample_size next k s0 ((partsOf n rows).map (List.filter p)) key s h
  rwa [filterParts_flatten] at this

/-- sub-multiset per key with a `filter` upstream, parallel mode, every partition count -/
theorem sampleKeyedFilterPar_submultiset [DecidableEq α] (next : σ → Nat × σ) (k : Nat) (s0 : σ) (n : Nat)
    (p : κ × α → Bool) (rows : List (κ × α)) (key : κ) (s : List α)
    (h : (key, s) ∈ sampleKeyedFilterPar (reservoir next k s0) n p rows) (x : α) :
    s.count x ≤ (valuesOf key (rows.filter p)).count x := by
  have := keyed_sample_submultiset next k s0 ((partsOf n rows).map (List.filter p)) key s h x
  rwa [filterParts_flatten] at this

end keyed

/-! ## mode stability: what holds, and the negation of what is documented

The full statement the property (and the crate's documentation) asks for is

    ∀ seed k n xs, samplePar (reservoirSM k seed) n xs = sampleSeq (reservoirSM k seed) xs
    ∀ seed k n rows, sampleKeyedPar (reservoirSM k seed) n rows = sampleKeyedSeq (reservoirSM k seed) rows

Both are **false** for the code as written (global: `seq_ne_par`, `seq_ne_par_of_first_prio_gt`,
`samplePar_singleton_partitions`; per key: `keyed_seq_ne_par`, `keyed_seq_ne_par_of_first_prio_gt`,
`sampleKeyedPar_singleton_partitions`). What does hold is kept as the `…_partial` theorems below. -/

/-- `…_partial` (1): with one partition (requested `n ≤ 1`, or an input of length ≤ 1) parallel = sequential. -/
theorem mode_stable_single_partition_partial {A O : Type} (c : Combiner α A O) (n : Nat) (xs : List α)
    (h : n ≤ 1 ∨ xs.length ≤ 1) : samplePar c n xs = sampleSeq c xs := by
  have hp : partsOf n xs = [xs] := by
    unfold partsOf vecSplit clampParts
    rw [if_pos]
    rcases h with h | h
    · left; omega
    · right; exact h
  simp [samplePar, sampleSeq, hp]

/-- `…_partial` (2): for `k ≥ n` both modes return the whole input, so they agree **as multisets**
    (the order inside the sample still differs, see `seq_ne_par_order`). -/
theorem mode_stable_multiset_of_k_ge_partial (next : σ → Nat × σ) (k : Nat) (s0 : σ) (n : Nat) (xs : List α)
    (hk : xs.length ≤ k) :
    (samplePar (reservoir next k s0) n xs).Perm (sampleSeq (reservoir next k s0) xs) := by
  have h1 := sample_all_of_k_ge next k s0 (parTree n xs) (by rw [parTree_leaves]; exact hk)
  have h2 := sample_all_of_k_ge next k s0 (.leaf xs) hk
  rw [parTree_leaves] at h1
  rw [samplePar_eq_tree]
  exact h1.trans h2.symm

/-- one partition is what `exec_par` cuts when `n ≤ 1` is requested or the source has at most one row -/
theorem partsOf_single {β : Type} (n : Nat) (xs : List β) (h : n ≤ 1 ∨ xs.length ≤ 1) : partsOf n xs = [xs] := by
  unfold partsOf vecSplit clampParts
  rw [if_pos]
  rcases h with h | h
  · left; omega
  · right; exact h

/-- `…_partial` (1f): the same with a `filter` upstream (`n ≤ 1`, or a SOURCE of length ≤ 1) -/
theorem filter_mode_stable_single_partition_partial {A O : Type} (c : Combiner α A O) (n : Nat)
    (p : α → Bool) (xs : List α) (h : n ≤ 1 ∨ xs.length ≤ 1) :
    sampleFilterPar c n p xs = sampleFilterSeq c p xs := by
  simp [sampleFilterPar, sampleFilterSeq, sampleParts, sampleSeq, partsOf_single n xs h]

/-- `…_partial` (1g): the flattened entry point, one partition -/
theorem flat_mode_stable_single_partition_partial {A : Type} (c : Combiner α A (List α)) (n : Nat)
    (xs : List α) (h : n ≤ 1 ∨ xs.length ≤ 1) : sampleFlatPar c n xs = sampleFlatSeq c xs := by
  rw [sampleFlatPar_eq, sampleFlatSeq_eq, mode_stable_single_partition_partial c n xs h]

section keyedStability
variable {κ : Type} [DecidableEq κ]

/-- `…_partial` (1k), **per key**: with one partition (requested `n ≤ 1`, or at most one input row) the
    parallel per-key sample IS the sequential one — every combiner, every key, whole output. -/
theorem keyed_mode_stable_single_partition_partial {A O : Type} (c : Combiner α A O) (n : Nat)
    (rows : List (κ × α)) (h : n ≤ 1 ∨ rows.length ≤ 1) :
    sampleKeyedPar c n rows = sampleKeyedSeq c rows := by
  simp [sampleKeyedPar, sampleKeyedSeq, partsOf_single n rows h]

/-- `…_partial` (1kf): per key with a `filter` upstream -/
theorem keyed_filter_mode_stable_single_partition_partial {A O : Type} (c : Combiner α A O) (n : Nat)
    (p : κ × α → Bool) (rows : List (κ × α)) (h : n ≤ 1 ∨ rows.length ≤ 1) :
    sampleKeyedFilterPar c n p rows = sampleKeyedFilterSeq c p rows := by
  simp [sampleKeyedFilterPar, sampleKeyedFilterSeq, sampleKeyedSeq, partsOf_single n rows h]

/-- `…_partial` (2k), **per key**: a key with at most `k` values gets all of them in both modes, so its two
    samples agree as multisets (their internal order can differ). -/
theorem keyed_mode_stable_multiset_of_k_ge_partial (next : σ → Nat × σ) (k : Nat) (s0 : σ) (n : Nat)
    (rows : List (κ × α)) (key : κ) (sp sq : List α)
    (hp : (key, sp) ∈ sampleKeyedPar (reservoir next k s0) n rows)
    (hq : (key, sq) ∈ sampleKeyedSeq (reservoir next k s0) rows)
    (hk : (valuesOf key rows).length ≤ k) : sp.Perm sq := by
  have h1 := lookupK_of_mem_nodup key sp _ (keyed_keys_nodup _ (partsOf n rows)) hp
  have h2 := lookupK_of_mem_nodup key sq _ (keyed_keys_nodup _ [rows]) hq
  rw [keyed_lookup] at h1 h2
  split at h1
  · simp at h1
  · split at h2
    · simp at h2
    · simp only [Option.some.injEq] at h1 h2
      have e1 := sample_all_of_k_ge next k s0 (keyTree key (partsOf n rows))
        (by rw [keyTree_leaves, partsOf_flatten]; exact hk)
      have e2 := sample_all_of_k_ge next k s0 (keyTree key [rows])
        (by rw [keyTree_leaves]; simpa using hk)
      rw [keyTree_leaves, partsOf_flatten] at e1
      rw [keyTree_leaves] at e2
      simp only [List.flatten_cons, List.flatten_nil, List.append_nil] at e2
      unfold sampleOf at e1 e2
      rw [h1] at e1
      rw [h2] at e2
      exact e1.trans e2.symm

end keyedStability

/-- **Negation of the documented mode stability** (known finding `C14-sample-differs-seq-par`): for the code
    as written (SplitMix64 restarted from the same state in every partition) there are a seed, an input,
    a `k` and a partition count for which the sequential and the parallel sample differ.
    Concrete witness, evaluated by kernel reduction: seed 42, input `[0,1,2]`, `k = 1`, 2 partitions:
    sequential `[0]`, parallel `[2]`. -/
theorem seq_ne_par : ∃ (seed : UInt64) (xs : List Nat) (k n : Nat),
    sampleSeq (reservoirSM k seed) xs ≠ samplePar (reservoirSM k seed) n xs :=
  ⟨42, [0, 1, 2], 1, 2, by decide⟩

/-- the two samples of the witness are even disjoint -/
theorem seq_ne_par_values :
    sampleSeq (reservoirSM 1 42) [0, 1, 2] = [0] ∧ samplePar (reservoirSM 1 42) 2 [0, 1, 2] = [2] := by
  decide

/-- with `k ≥ n` the elements agree but the order does not (seed 42, `[0,1,2]`, `k = 3`, 2 partitions) -/
theorem seq_ne_par_order :
    sampleSeq (reservoirSM 3 42) [0, 1, 2] ≠ samplePar (reservoirSM 3 42) 2 [0, 1, 2] := by
  decide

/-- The negation does not depend on SplitMix64: for **every** generator and **every** seed the 2-partition
    sample of a 2-element input with `k = 1` is the last element — both partitions draw the same first
    priority, the tie is broken by slot index, so the seed has no influence at all … -/
theorem par_pair_ignores_generator_and_seed (next : σ → Nat × σ) (s0 : σ) (a b : α) :
    samplePar (reservoir next 1 s0) 2 [a, b] = [b] := by
  simp [samplePar, partsOf, vecSplit, clampParts, chunksOf, mergeAll, reservoir, Combiner.foldAdd,
    addInput, create, trim, trimLoop, merge, moveLive, drainHeap, popMin, minOf, lexLt, finish, live,
    sortItems, insertItem]

/-- … likewise 3 partitions, `k = 2`: always the last two elements, in input order … -/
theorem par_triple_ignores_generator_and_seed (next : σ → Nat × σ) (s0 : σ) (a b c : α) :
    samplePar (reservoir next 2 s0) 3 [a, b, c] = [b, c] := by
  simp [samplePar, partsOf, vecSplit, clampParts, chunksOf, mergeAll, reservoir, Combiner.foldAdd,
    addInput, create, trim, trimLoop, merge, moveLive, drainHeap, popMin, minOf, lexLt, finish, live,
    sortItems, insertItem, itemLe]

/-- … whereas the sequential sample of `[a, b]` is `a` whenever the first priority beats the second. -/
theorem seq_pair_of_first_prio_gt (next : σ → Nat × σ) (s0 : σ) (a b : α)
    (h : (next (next s0).2).1 < (next s0).1) : sampleSeq (reservoir next 1 s0) [a, b] = [a] := by
  have h1 : ¬ (next s0).1 < (next (next s0).2).1 := by omega
  have h2 : ¬ (next s0).1 = (next (next s0).2).1 := by omega
  simp [sampleSeq, mergeAll, reservoir, Combiner.foldAdd, addInput, create, trim, trimLoop, popMin,
    minOf, lexLt, finish, live, sortItems, insertItem, h1, h2]

/-- **Negation, for every generator**: whenever the stream's first priority exceeds its second (about half of
    all seeds of any reasonable generator) sequential and 2-partition execution disagree on every input
    `[a, b]` with `a ≠ b`. -/
theorem seq_ne_par_of_first_prio_gt (next : σ → Nat × σ) (s0 : σ) (a b : α) (hab : a ≠ b)
    (h : (next (next s0).2).1 < (next s0).1) :
    sampleSeq (reservoir next 1 s0) [a, b] ≠ samplePar (reservoir next 1 s0) 2 [a, b] := by
  rw [seq_pair_of_first_prio_gt next s0 a b h, par_pair_ignores_generator_and_seed]
  intro e
  exact hab (by simpa using e)

/-- non-vacuity of the hypothesis above: SplitMix64 with seed 42 -/
example : (smNextPrio (smNextPrio (seedState 42)).2).1 < (smNextPrio (seedState 42)).1 := by decide

/-- **General negation — every generator, every seed, every input, every `k`.** As soon as the partition
    count reaches the input length, every partition holds one element, every element draws the *same*
    priority (the first of the restarted stream), all comparisons are ties broken by slot index, and the
    parallel "sample" is simply the last `k` inputs in input order (observed on the real crate:
    `0..20`, `k = 5`, 20 partitions → `[15,16,17,18,19]` for every seed). -/
theorem samplePar_singleton_partitions (next : σ → Nat × σ) (k : Nat) (s0 : σ) (n : Nat) (xs : List α)
    (hn : xs.length ≤ n) : samplePar (reservoir next k s0) n xs = lastK k xs := by
  by_cases hk : k = 0
  · subst hk
    have h0 : samplePar (reservoir next 0 s0) n xs = [] :=
      List.length_eq_zero_iff.mp (by rw [samplePar_size]; simp)
    rw [h0]; simp [lastK]
  · have hk1 : 1 ≤ k := by omega
    match xs, hn with
    | [], _ =>
      have h0 : samplePar (reservoir next k s0) n ([] : List α) = [] :=
        List.length_eq_zero_iff.mp (by rw [samplePar_size]; simp)
      rw [h0]; simp [lastK]
    | [x], _ =>
      rw [mode_stable_single_partition_partial _ n [x] (Or.inr (by simp))]
      have : sampleSeq (reservoir next k s0) [x] = finish (singleAcc next k s0 x) := by
        simp only [sampleSeq, mergeAll, List.foldl_nil, fold_single next k s0 x hk1]; rfl
      rw [this, finish_tied (tied_single next k s0 x hk1), lastK_of_length_le k [x] (by simpa using hk1)]
    | x0 :: x1 :: rest, hn =>
      have hp := partsOf_singletons n (x0 :: x1 :: rest) (by simp) hn
      have hfold : ∀ x : α, (reservoir next k s0).foldAdd (reservoir next k s0).create [x] =
          singleAcc next k s0 x := fun x => fold_single next k s0 x hk1
      have ht := tied_mergeAll_singletons next k s0 hk1 (x1 :: rest) [x0] _ (tied_single next k s0 x0 hk1)
      have hfin := finish_tied ht
      have hparts : (partsOf n (x0 :: x1 :: rest)).map
          ((reservoir next k s0).foldAdd (reservoir next k s0).create) =
          (x0 :: x1 :: rest).map (fun x => singleAcc next k s0 x) := by
        rw [hp, List.map_map]
        exact List.map_congr_left (fun x _ => hfold x)
      unfold samplePar
      rw [hparts]
      exact hfin

/-- … hence with `n ≥ |xs|` partitions the result does not depend on the generator or the seed at all -/
theorem samplePar_singleton_partitions_ignores_seed {σ' : Type} (next : σ → Nat × σ) (next' : σ' → Nat × σ')
    (k : Nat) (s0 : σ) (s0' : σ') (n : Nat) (xs : List α) (hn : xs.length ≤ n) :
    samplePar (reservoir next k s0) n xs = samplePar (reservoir next' k s0') n xs := by
  rw [samplePar_singleton_partitions next k s0 n xs hn, samplePar_singleton_partitions next' k s0' n xs hn]

/-! ### the same collapse for ARBITRARY partitions of at most one element (singleton partitions thinned out
by an upstream `filter`), and per key -/

theorem lastK_zero (l : List α) : lastK 0 l = [] := by simp [lastK]

/-- **Every generator, every seed, every `k`, every list of partitions with at most one element each**
    (empty partitions allowed): the sample is the last `k` elements in input order. -/
theorem sampleParts_small_partitions (next : σ → Nat × σ) (k : Nat) (s0 : σ) (ps : List (List α))
    (h : ∀ q ∈ ps, q.length ≤ 1) : sampleParts (reservoir next k s0) ps = lastK k ps.flatten := by
  by_cases hk : k = 0
  · subst hk
    rw [lastK_zero]
    exact List.length_eq_zero_iff.mp (by rw [sampleParts_size]; simp)
  · have hk1 : 1 ≤ k := by omega
    cases ps with
    | nil => simp [sampleParts, mergeAll, reservoir, finish, create, lastK]
    | cons q ps =>
      have hps : ∀ q' ∈ ps, q'.length ≤ 1 := fun q' hq' => h q' (List.mem_cons_of_mem _ hq')
      have hq := h q List.mem_cons_self
      unfold sampleParts
      simp only [List.map_cons, mergeAll]
      match q, hq with
      | [], _ =>
        have ht := tied_foldl_small next k s0 hk1 ps [] _ hps (tied_create (next s0).1 k s0)
        have hf := finish_tied ht
        simpa [reservoir, Combiner.foldAdd] using hf
      | [x], _ =>
        have ht := tied_foldl_small next k s0 hk1 ps [x] _ hps (tied_single next k s0 x hk1)
        have hf := finish_tied ht
        rw [fold_single next k s0 x hk1]
        simpa [reservoir] using hf

/-- the partitions `exec_par` cuts when at least as many are requested as there are rows hold ≤ 1 row each -/
theorem partsOf_small {β : Type} (n : Nat) (xs : List β) (hn : xs.length ≤ n) :
    ∀ q ∈ partsOf n xs, q.length ≤ 1 := by
  intro q hq
  by_cases h1 : xs.length ≤ 1
  · rw [partsOf_single n xs (Or.inr h1)] at hq
    simp only [List.mem_singleton] at hq
    subst hq; exact h1
  · rw [partsOf_singletons n xs (by omega) hn] at hq
    obtain ⟨x, _, rfl⟩ := List.mem_map.mp hq
    simp

theorem filter_small {β : Type} (p : β → Bool) (ps : List (List β)) (h : ∀ q ∈ ps, q.length ≤ 1) :
    ∀ q ∈ ps.map (List.filter p), q.length ≤ 1 := by
  intro q hq
  obtain ⟨q0, hq0, rfl⟩ := List.mem_map.mp hq
  exact Nat.le_trans (List.length_filter_le p q0) (h q0 hq0)

/-- **With a `filter` upstream** and at least as many partitions as SOURCE rows: the parallel sample is the
    last `k` KEPT elements — every generator, seed, `k`, predicate. -/
theorem sampleFilterPar_singleton_partitions (next : σ → Nat × σ) (k : Nat) (s0 : σ) (n : Nat)
    (p : α → Bool) (xs : List α) (hn : xs.length ≤ n) :
    sampleFilterPar (reservoir next k s0) n p xs = lastK k (xs.filter p) := by
  unfold sampleFilterPar
  rw [sampleParts_small_partitions next k s0 _ (filter_small p _ (partsOf_small n xs hn)), filterParts_flatten]

section keyedNegation
variable {κ : Type} [DecidableEq κ]

theorem valuesOf_length_le (key : κ) : ∀ (rows : List (κ × α)), (valuesOf key rows).length ≤ rows.length
  | [] => Nat.le_refl _
  | (k', v) :: r => by
    have := valuesOf_length_le key r
    simp only [valuesOf]
    split <;> simp <;> omega

theorem keyParts_small (key : κ) (ps : List (List (κ × α))) (h : ∀ q ∈ ps, q.length ≤ 1) :
    ∀ q ∈ keyParts key ps, q.length ≤ 1 := by
  intro q hq
  unfold keyParts at hq
  obtain ⟨hq1, _⟩ := List.mem_filter.mp hq
  obtain ⟨q0, hq0, rfl⟩ := List.mem_map.mp hq1
  exact Nat.le_trans (valuesOf_length_le key q0) (h q0 hq0)

/-- **Per key, every generator, every seed, every `k`**: when every partition holds at most one row, each
    key's sample is the last `k` of that key's values in input order (and a key is listed iff it occurs). -/
theorem keyedParts_small_partitions (next : σ → Nat × σ) (k : Nat) (s0 : σ) (ps : List (List (κ × α)))
    (h : ∀ q ∈ ps, q.length ≤ 1) (key : κ) :
    lookupK key (sampleKeyedParts (reservoir next k s0) ps) =
      if (valuesOf key ps.flatten).isEmpty then none else some (lastK k (valuesOf key ps.flatten)) := by
  rw [keyed_lookup]
  split
  · rfl
  · congr 1
    by_cases hk : k = 0
    · subst hk
      rw [lastK_zero]
      exact sample_k_zero next s0 (keyTree key ps)
    · have hk1 : 1 ≤ k := by omega
      have ht := tied_foldl_small next k s0 hk1 (keyParts key ps) [] _ (keyParts_small key ps h)
        (tied_create (next s0).1 k s0)
      have hf := finish_tied ht
      rw [keyParts_flatten] at hf
      simpa [keyTree, combTree, foldl_comb_eval, Tree.eval, reservoir, Combiner.foldAdd] using hf

/-- parallel per-key sampling with at least as many partitions as rows: **last `k` values of every key** -/
theorem sampleKeyedPar_singleton_partitions (next : σ → Nat × σ) (k : Nat) (s0 : σ) (n : Nat)
    (rows : List (κ × α)) (hn : rows.length ≤ n) (key : κ) :
    lookupK key (sampleKeyedPar (reservoir next k s0) n rows) =
      if (valuesOf key rows).isEmpty then none else some (lastK k (valuesOf key rows)) := by
  have := keyedParts_small_partitions next k s0 (partsOf n rows) (partsOf_small n rows hn) key
  rwa [partsOf_flatten] at this

/-- the same with a `filter` upstream (last `k` KEPT values of every key) -/
theorem sampleKeyedFilterPar_singleton_partitions (next : σ → Nat × σ) (k : Nat) (s0 : σ) (n : Nat)
    (p : κ × α → Bool) (rows : List (κ × α)) (hn : rows.length ≤ n) (key : κ) :
    lookupK key (sampleKeyedFilterPar (reservoir next k s0) n p rows) =
      if (valuesOf key (rows.filter p)).isEmpty then none
      else some (lastK k (valuesOf key (rows.filter p))) := by
  have := keyedParts_small_partitions next k s0 ((partsOf n rows).map (List.filter p))
    (filter_small p _ (partsOf_small n rows hn)) key
  rwa [filterParts_flatten] at this

/-- per key, 2 rows of one key, 2 partitions, `k = 1`: the sample is the LAST value, whatever the generator and
    the seed … -/
theorem keyed_par_pair_ignores_generator_and_seed (next : σ → Nat × σ) (s0 : σ) (key : κ) (a b : α) :
    lookupK key (sampleKeyedPar (reservoir next 1 s0) 2 [(key, a), (key, b)]) = some [b] := by
  rw [sampleKeyedPar_singleton_partitions next 1 s0 2 _ (by simp) key]
  simp [valuesOf, lastK]

/-- … whereas the sequential per-key sample is the FIRST value whenever the first priority beats the second -/
theorem keyed_seq_pair_of_first_prio_gt (next : σ → Nat × σ) (s0 : σ) (key : κ) (a b : α)
    (h : (next (next s0).2).1 < (next s0).1) :
    lookupK key (sampleKeyedSeq (reservoir next 1 s0) [(key, a), (key, b)]) = some [a] := by
  rw [sampleKeyedSeq_eq_parts, keyed_lookup]
  have h1 : ¬ (next s0).1 < (next (next s0).2).1 := by omega
  have h2 : ¬ (next s0).1 = (next (next s0).2).1 := by omega
  simp [valuesOf, keyTree, keyParts, combTree, Tree.eval, reservoir, Combiner.foldAdd, addInput, create, trim,
    trimLoop, merge, moveLive, drainHeap, popMin, minOf, lexLt, finish, live, sortItems, insertItem, h1, h2]

/-- **Keyed negation, for every generator**: whenever the stream's first priority exceeds its second, the
    sequential and the 2-partition per-key sample of `[(key, a), (key, b)]`, `a ≠ b`, `k = 1`, differ. -/
theorem keyed_seq_ne_par_of_first_prio_gt (next : σ → Nat × σ) (s0 : σ) (key : κ) (a b : α) (hab : a ≠ b)
    (h : (next (next s0).2).1 < (next s0).1) :
    sampleKeyedSeq (reservoir next 1 s0) [(key, a), (key, b)] ≠
      sampleKeyedPar (reservoir next 1 s0) 2 [(key, a), (key, b)] := by
  intro e
  have h1 := keyed_seq_pair_of_first_prio_gt next s0 key a b h
  rw [e, keyed_par_pair_ignores_generator_and_seed] at h1
  exact hab (by simpa using h1.symm)

end keyedNegation

/-- **Keyed negation of the documented mode stability** (the keyed half of known finding
    `C14-sample-differs-seq-par`): for the code as written there are a seed, keyed rows, a `k` and a partition
    count for which `sample_values_reservoir_vec` differs between sequential and parallel execution.
    Concrete witness, kernel-evaluated: seed 42, rows `[(0,0),(1,5),(0,1),(1,6),(0,2),(1,7)]`, `k = 1`,
    2 partitions: sequential `[(0,[0]),(1,[5])]`, parallel `[(0,[2]),(1,[6])]`. -/
theorem keyed_seq_ne_par : ∃ (seed : UInt64) (rows : List (Nat × Nat)) (k n : Nat),
    sampleKeyedSeq (reservoirSM k seed) rows ≠ sampleKeyedPar (reservoirSM k seed) n rows :=
  ⟨42, [(0, 0), (1, 5), (0, 1), (1, 6), (0, 2), (1, 7)], 1, 2, by decide⟩

/-- the two keyed outputs of the witness -/
theorem keyed_seq_ne_par_values :
    sampleKeyedSeq (reservoirSM 1 42) [(0, 0), (1, 5), (0, 1), (1, 6), (0, 2), (1, 7)] = [(0, [0]), (1, [5])] ∧
    sampleKeyedPar (reservoirSM 1 42) 2 [(0, 0), (1, 5), (0, 1), (1, 6), (0, 2), (1, 7)] = [(0, [2]), (1, [6])] := by
  decide

/-- with `k ≥ n_key` for every key the per-key elements agree but their order does not -/
theorem keyed_seq_ne_par_order :
    sampleKeyedSeq (reservoirSM 3 42) [(0, 0), (0, 1), (0, 2)] ≠
      sampleKeyedPar (reservoirSM 3 42) 2 [(0, 0), (0, 1), (0, 2)] := by
  decide

/-- the flattened keyed entry point inherits the difference -/
theorem keyedFlat_seq_ne_par :
    flattenKeyed (sampleKeyedSeq (reservoirSM 1 42) [(0, 0), (1, 5), (0, 1), (1, 6), (0, 2), (1, 7)]) ≠
      flattenKeyed (sampleKeyedPar (reservoirSM 1 42) 2 [(0, 0), (1, 5), (0, 1), (1, 6), (0, 2), (1, 7)]) := by
  decide

/-- a `filter` upstream does not repair it (global, seed 42, keep the even ones of `0..5`, `k = 1`,
    2 partitions `[0,2]`, `[4]`): sequential `[0]`, parallel `[4]` -/
theorem filter_seq_ne_par :
    sampleFilterSeq (reservoirSM 1 42) (fun x : Nat => x % 2 == 0) [0, 1, 2, 3, 4, 5] = [0] ∧
      sampleFilterPar (reservoirSM 1 42) 2 (fun x : Nat => x % 2 == 0) [0, 1, 2, 3, 4, 5] = [4] := by
  decide

/-- the design-time witness observed on the real crate (`0..20`, `k = 5`, seed 42) -/
theorem witness_0_20_k5_seed42 :
    sampleSeq (reservoirSM 5 42) (List.range 20) = [15, 11, 19, 9, 4] ∧
    samplePar (reservoirSM 5 42) 4 (List.range 20) = [4, 9, 14, 19, 18] ∧
    samplePar (reservoirSM 5 42) 3 (List.range 20) = [4, 11, 18, 10, 17] := by
  decide +kernel

/-! non-vacuity: a non-trivial tree (three leaves, one empty, duplicates, `k` smaller than `n`) -/
example : (sampleOf smNextPrio 2 (seedState 7)
    (Tree.node (Tree.node (.leaf [1, 1, 2]) (.leaf [])) (.leaf [2, 3]))).length = 2 := by
  rw [sample_size]; rfl

example : (5 : Nat) ≤ 7 ∧ ([3, 1, 3, 1, 2] : List Nat).length ≤ 7 := by decide

/-! non-vacuity of the hypotheses of the theorems added for the keyed half / skewed partitions -/

/-- `sampleParts_small_partitions`, `keyedParts_small_partitions`: partitions of ≤ 1 element with empty ones
    in front, in the middle and at the end (what `filter` leaves of singleton partitions) -/
example : ∀ q ∈ ([[], [7], [], [7], [9], []] : List (List Nat)), q.length ≤ 1 := by decide

/-- … and the conclusion on it is not trivial: last 2 of `[7,7,9]`, duplicates kept apart -/
example : sampleParts (reservoirSM 2 123) ([[], [7], [], [7], [9], []] : List (List Nat)) = [7, 9] := by
  unfold reservoirSM
  rw [sampleParts_small_partitions _ _ _ _ (by decide)]; rfl

/-- `keyed_mode_stable_single_partition_partial` / `…_singleton_partitions`: both hypotheses are satisfiable
    by non-trivial rows (several keys, duplicates), `n ≤ 1` resp. `rows.length ≤ n` -/
example : ((1 : Nat) ≤ 1 ∨ ([(0, 3), (1, 3), (0, 4)] : List (Nat × Nat)).length ≤ 1) ∧
    ([(0, 3), (1, 3), (0, 4)] : List (Nat × Nat)).length ≤ 3 := by decide

/-- `keyed_mode_stable_multiset_of_k_ge_partial`: its membership hypotheses hold for real outputs -/
example : ((0 : Nat), [0, 1, 2]) ∈ sampleKeyedSeq (reservoirSM 3 42) [(0, 0), (0, 1), (0, 2)] ∧
    ((0 : Nat), [0, 2, 1]) ∈ sampleKeyedPar (reservoirSM 3 42) 2 [(0, 0), (0, 1), (0, 2)] := by decide

/-- `keyed_seq_ne_par_of_first_prio_gt`: the hypothesis holds for SplitMix64 with seed 42 (shown above for the
    global form); the keyed witness `keyed_seq_ne_par` does not use it -/
example : sampleKeyedSeq (reservoirSM 1 42) [((5 : Nat), (1 : Nat)), (5, 2)] ≠
    sampleKeyedPar (reservoirSM 1 42) 2 [(5, 1), (5, 2)] :=
  keyed_seq_ne_par_of_first_prio_gt smNextPrio (seedState 42) 5 1 2 (by decide) (by decide)

/-! ## round 3 (a): the partitions actually cut; any stateless element-wise op in front of the sample -/

/-- the driver cuts the request's rows by the chunk sizes the real split reported: the pieces always concatenate
    to the rows and have exactly the reported sizes … -/
theorem cutSizes_spec {β : Type} (xs : List β) (sz : List Nat) (ps : List (List β))
    (h : cutSizes xs sz = some ps) : ps.flatten = xs ∧ ps.map List.length = sz :=
  cutSizes_sound sz xs ps h

/-- … and when the real split cuts the way `vecSplit` is modelled, the driver's partitions ARE `partsOf n xs`,
    i.e. its answers are `samplePar` / `sampleKeyedPar` / `sampleFilterPar` … of the theorems above -/
theorem cutSizes_partsOf {β : Type} (n : Nat) (xs : List β) :
    cutSizes xs ((partsOf n xs).map List.length) = some (partsOf n xs) := by
  have := cutSizes_flatten_lengths (partsOf n xs)
  rwa [partsOf_flatten] at this

/-- sequential mode is the one-partition case -/
theorem sampleParts_single {A O : Type} (c : Combiner α A O) (xs : List α) : sampleParts c [xs] = sampleSeq c xs := rfl

/-- `filter p` in front of the sample is the `flat_map` form the driver evaluates -/
theorem sampleFilterPar_eq_pre {A O : Type} (c : Combiner α A O) (n : Nat) (p : α → Bool) (xs : List α) :
    sampleFilterPar c n p xs = samplePreParts c (filterG p) (partsOf n xs) := by
  unfold sampleFilterPar samplePreParts
  congr 1
  exact List.map_congr_left (fun q _ => filter_eq_flatMap p q)

theorem sampleFilterSeq_eq_pre {A O : Type} (c : Combiner α A O) (p : α → Bool) (xs : List α) :
    sampleFilterSeq c p xs = samplePreParts c (filterG p) [xs] := by
  simp [sampleFilterSeq, samplePreParts, sampleParts, sampleSeq, filter_eq_flatMap]

/-- **Size with ANY stateless element-wise op (`map`, `filter`, `flat_map`) upstream, any partition list**:
    `min k` of the number of rows the op hands to the sampler -/
theorem samplePreParts_size {β : Type} (next : σ → Nat × σ) (k : Nat) (s0 : σ) (g : β → List α)
    (ps : List (List β)) :
    (samplePreParts (reservoir next k s0) g ps).length = min k (ps.flatten.flatMap g).length := by
  unfold samplePreParts
  rw [sampleParts_size, flatten_map_flatMap]

/-- **Sub-multiset** of the rows the op hands to the sampler -/
theorem samplePreParts_submultiset [DecidableEq α] {β : Type} (next : σ → Nat × σ) (k : Nat) (s0 : σ)
    (g : β → List α) (ps : List (List β)) (x : α) :
    (samplePreParts (reservoir next k s0) g ps).count x ≤ (ps.flatten.flatMap g).count x := by
  unfold samplePreParts
  have := sampleParts_submultiset next k s0 (ps.map (List.flatMap g)) x
  rwa [flatten_map_flatMap] at this

/-- flattened entry point with a `filter` upstream (what the driver answers for `gflat` + filter) -/
theorem sampleFlatFilter_size (next : σ → Nat × σ) (k : Nat) (s0 : σ) (n : Nat) (p : α → Bool) (xs : List α) :
    (flattenGlobal [sampleFilterSeq (reservoir next k s0) p xs]).length = min k (xs.filter p).length ∧
    (flattenGlobal [sampleFilterPar (reservoir next k s0) n p xs]).length = min k (xs.filter p).length := by
  simp only [flattenGlobal, List.flatMap_cons, List.flatMap_nil, List.append_nil]
  exact ⟨sampleFilterSeq_size next k s0 p xs, sampleFilterPar_size next k s0 n p xs⟩

theorem sampleFlatFilter_submultiset [DecidableEq α] (next : σ → Nat × σ) (k : Nat) (s0 : σ) (n : Nat)
    (p : α → Bool) (xs : List α) (x : α) :
    (flattenGlobal [sampleFilterSeq (reservoir next k s0) p xs]).count x ≤ (xs.filter p).count x ∧
    (flattenGlobal [sampleFilterPar (reservoir next k s0) n p xs]).count x ≤ (xs.filter p).count x := by
  simp only [flattenGlobal, List.flatMap_cons, List.flatMap_nil, List.append_nil]
  exact ⟨sampleFilterSeq_submultiset next k s0 p xs x, sampleFilterPar_submultiset next k s0 n p xs x⟩

section keyedPre
variable {κ : Type} [DecidableEq κ]

theorem sampleKeyedFilterPar_eq_pre {A O : Type} (c : Combiner α A O) (n : Nat) (p : κ × α → Bool)
    (rows : List (κ × α)) :
    sampleKeyedFilterPar c n p rows = sampleKeyedPreParts c (filterG p) (partsOf n rows) := by
  unfold sampleKeyedFilterPar sampleKeyedPreParts sampleKeyedParts
  congr 2
  exact List.map_congr_left (fun q _ => filter_eq_flatMap p q)

/-- per key with ANY stateless op upstream, any partition list: size -/
theorem sampleKeyedPreParts_size {β : Type} (next : σ → Nat × σ) (k : Nat) (s0 : σ) (g : κ × β → List (κ × α))
    (ps : List (List (κ × β))) (key : κ) (s : List α)
    (h : (key, s) ∈ sampleKeyedPreParts (reservoir next k s0) g ps) :
    s.length = min k (valuesOf key (ps.flatten.flatMap g)).length := by
  have := keyed_sample_size next k s0 (ps.map (List.flatMap g)) key s h
  rwa [flatten_map_flatMap] at this

theorem sampleKeyedPreParts_submultiset [DecidableEq α] {β : Type} (next : σ → Nat × σ) (k : Nat) (s0 : σ)
    (g : κ × β → List (κ × α)) (ps : List (List (κ × β))) (key : κ) (s : List α)
    (h : (key, s) ∈ sampleKeyedPreParts (reservoir next k s0) g ps) (x : α) :
    s.count x ≤ (valuesOf key (ps.flatten.flatMap g)).count x := by
  have := keyed_sample_submultiset next k s0 (ps.map (List.flatMap g)) key s h x
  rwa [flatten_map_flatMap] at this

/-- per key with a `filter` upstream, sequential mode (missing in round 2) -/
theorem sampleKeyedFilterSeq_size (next : σ → Nat × σ) (k : Nat) (s0 : σ) (p : κ × α → Bool)
    (rows : List (κ × α)) (key : κ) (s : List α)
    (h : (key, s) ∈ sampleKeyedFilterSeq (reservoir next k s0) p rows) :
    s.length = min k (valuesOf key (rows.filter p)).length :=
  sampleKeyedSeq_size next k s0 (rows.filter p) key s h

theorem sampleKeyedFilterSeq_submultiset [DecidableEq α] (next : σ → Nat × σ) (k : Nat) (s0 : σ)
    (p : κ × α → Bool) (rows : List (κ × α)) (key : κ) (s : List α)
    (h : (key, s) ∈ sampleKeyedFilterSeq (reservoir next k s0) p rows) (x : α) :
    s.count x ≤ (valuesOf key (rows.filter p)).count x :=
  sampleKeyedSeq_submultiset next k s0 (rows.filter p) key s h x

/-- **hash order does not matter** (1): with pairwise different keys (a `HashMap`), a lookup does not depend on
    the order of the entries -/
theorem lookup_ignores_entry_order {β : Type} (key : κ) {m m' : List (κ × β)} (hp : m.Perm m')
    (hnd : (m.map Prod.fst).Nodup) : lookupK key m = lookupK key m' :=
  lookupK_perm key hp hnd

/-- **hash order does not matter** (2): the keyed merge closure iterates every partition's `HashMap` in an
    arbitrary order; a key's result depends on the partitions' maps only through their lookups of that key, so
    re-ordering the entries of any partition's map (1) changes no key's result -/
theorem mergeMaps_lookup_congr {A O : Type} (c : Combiner α A O) (key : κ) (parts parts' : List (List (κ × A)))
    (hl : parts.map (lookupK key) = parts'.map (lookupK key))
    (hnd : ∀ m ∈ parts, (m.map Prod.fst).Nodup) (hnd' : ∀ m ∈ parts', (m.map Prod.fst).Nodup) :
    lookupK key (mergeMaps c parts) = lookupK key (mergeMaps c parts') := by
  have hf : parts.filterMap (lookupK key) = parts'.filterMap (lookupK key) := by
    have h1 : ∀ l : List (List (κ × A)), l.filterMap (lookupK key) = (l.map (lookupK key)).filterMap id := by
      intro l; rw [List.filterMap_map]; rfl
    rw [h1, h1, hl]
  unfold mergeMaps mergeMapsAcc
  rw [lookupK_map, lookupK_map, lookupK_mergeFold c key parts [] hnd, lookupK_mergeFold c key parts' [] hnd', hf]

end keyedPre

section unlifted
variable {κ : Type} [DecidableEq κ]

theorem foldl_snoc_eq {β : Type} : ∀ (xs acc : List β), xs.foldl (fun l v => l ++ [v]) acc = acc ++ xs
  | [], acc => by simp
  | x :: xs, acc => by simp [foldl_snoc_eq xs]

/-- `group_by_key`'s accumulation over a merge tree is the concatenation of the leaves -/
theorem eval_listCombiner : ∀ (t : Tree α), t.eval (listCombiner α) = t.leaves
  | .leaf xs => by
    show xs.foldl (fun l v => l ++ [v]) [] = xs
    rw [foldl_snoc_eq]; rfl
  | .node l r => by
    simp only [Tree.eval, Tree.leaves, eval_listCombiner l, eval_listCombiner r]
    rfl

/-- **`group_by_key` over any partition list**: a key is listed iff it occurs, with ALL its values in input order -/
theorem gbkParts_lookup (key : κ) (ps : List (List (κ × α))) :
    lookupK key (gbkParts ps) =
      if (valuesOf key ps.flatten).isEmpty then none else some (valuesOf key ps.flatten) := by
  unfold gbkParts
  rw [keyed_lookup]
  split
  · rfl
  · rw [eval_listCombiner, keyTree_leaves]; rfl

theorem gbkParts_keys_nodup (ps : List (List (κ × α))) : ((gbkParts ps).map Prod.fst).Nodup :=
  keyed_keys_nodup (listCombiner α) ps

/-- **The un-lifted plan** (`GroupByKey` barrier, then `local_groups`): for every combiner, every partition list and
    every key, the entry is `finish(merge(create(), build_from_group(all the key's values in input order)))` -/
theorem sampleKeyedUnlifted_lookup {A O : Type} (c : Combiner α A O) (key : κ) (ps : List (List (κ × α))) :
    lookupK key (sampleKeyedUnlifted c ps) =
      if (valuesOf key ps.flatten).isEmpty then none
      else some (c.finish (c.merge c.create (c.build (valuesOf key ps.flatten)))) := by
  unfold sampleKeyedUnlifted mergeMaps mergeMapsAcc
  rw [lookupK_map, lookupK_mergeFold c key _ [] (by
    intro m hm
    simp only [List.mem_singleton] at hm
    subst hm
    exact nodup_keys_localGroups c _)]
  simp only [List.filterMap_cons, List.filterMap_nil, lookupK_localGroups c key _ (gbkParts_keys_nodup ps),
    gbkParts_lookup]
  by_cases he : (valuesOf key ps.flatten).isEmpty = true
  · simp [he, lookupK]
  · simp [he, lookupK]

theorem sampleKeyedUnlifted_keys_nodup {A O : Type} (c : Combiner α A O) (ps : List (List (κ × α))) :
    ((sampleKeyedUnlifted c ps).map Prod.fst).Nodup := by
  unfold sampleKeyedUnlifted mergeMaps mergeMapsAcc
  rw [List.map_map]
  exact nodup_keys_mergeFold c _ [] (by simp)

/-- **On the un-lifted plan the per-key sample IS mode-stable**: whatever the partitioning, every key's entry equals
    the sequential one (`build_from_group` = the fold, as for `PriorityReservoir`). This is the plan a JOIN side
    runs (`chain_from` takes the chain literally), so `sample_values_reservoir*(..).join_*(..)` does not show the
    known finding, while the same entry point collected directly (lifted plan) does (`keyed_seq_ne_par`). -/
theorem sampleKeyedUnlifted_lookup_eq_seq {A O : Type} (c : Combiner α A O)
    (hb : ∀ xs, c.build xs = c.foldAdd c.create xs) (key : κ) (ps : List (List (κ × α))) :
    lookupK key (sampleKeyedUnlifted c ps) = lookupK key (sampleKeyedSeq c ps.flatten) := by
  rw [sampleKeyedUnlifted_lookup, sampleKeyedSeq_eq_parts, keyed_lookup]
  simp only [List.flatten_cons, List.flatten_nil, List.append_nil]
  split
  · rfl
  · rename_i hne
    congr 2
    have hk : keyParts key [ps.flatten] = [valuesOf key ps.flatten] := by
      unfold keyParts
      simp only [List.map_cons, List.map_nil, List.filter_cons, List.filter_nil]
      simp [hne]
    simp [keyTree, hk, combTree, Tree.eval, hb]

/-- … in particular for the reservoir, every generator, seed, `k`, partition count -/
theorem reservoir_unlifted_eq_seq (next : σ → Nat × σ) (k : Nat) (s0 : σ) (n : Nat) (rows : List (κ × α)) (key : κ) :
    lookupK key (sampleKeyedUnlifted (reservoir next k s0) (partsOf n rows)) =
      lookupK key (sampleKeyedSeq (reservoir next k s0) rows) := by
  have := sampleKeyedUnlifted_lookup_eq_seq (reservoir next k s0) (fun _ => rfl) key (partsOf n rows)
  rwa [partsOf_flatten] at this

/-- size per key on the un-lifted plan, any partition list -/
theorem sampleKeyedUnlifted_size (next : σ → Nat × σ) (k : Nat) (s0 : σ) (ps : List (List (κ × α)))
    (key : κ) (s : List α) (h : (key, s) ∈ sampleKeyedUnlifted (reservoir next k s0) ps) :
    s.length = min k (valuesOf key ps.flatten).length := by
  have hl := lookupK_of_mem_nodup key s _ (sampleKeyedUnlifted_keys_nodup _ ps) h
  rw [sampleKeyedUnlifted_lookup_eq_seq _ (fun _ => rfl)] at hl
  exact sampleKeyedSeq_size next k s0 ps.flatten key s (mem_of_lookupK key s _ hl)

theorem sampleKeyedUnlifted_submultiset [DecidableEq α] (next : σ → Nat × σ) (k : Nat) (s0 : σ)
    (ps : List (List (κ × α))) (key : κ) (s : List α)
    (h : (key, s) ∈ sampleKeyedUnlifted (reservoir next k s0) ps) (x : α) :
    s.count x ≤ (valuesOf key ps.flatten).count x := by
  have hl := lookupK_of_mem_nodup key s _ (sampleKeyedUnlifted_keys_nodup _ ps) h
  rw [sampleKeyedUnlifted_lookup_eq_seq _ (fun _ => rfl)] at hl
  exact sampleKeyedSeq_submultiset next k s0 ps.flatten key s (mem_of_lookupK key s _ hl) x

/-- a key is listed on the un-lifted plan iff it occurs in the input -/
theorem sampleKeyedUnlifted_key_mem {A O : Type} (c : Combiner α A O) (key : κ) (ps : List (List (κ × α))) :
    key ∈ (sampleKeyedUnlifted c ps).map Prod.fst ↔ key ∈ ps.flatten.map Prod.fst := by
  have h1 := lookupK_eq_none_iff key (sampleKeyedUnlifted c ps)
  have h2 := valuesOf_eq_nil_iff key ps.flatten
  rw [sampleKeyedUnlifted_lookup] at h1
  constructor
  · intro h
    apply Classical.byContradiction
    intro hn
    have : valuesOf key ps.flatten = [] := h2.mpr hn
    exact (h1.mp (by simp [this])) h
  · intro h
    apply Classical.byContradiction
    intro hn
    have h3 := h1.mpr hn
    split at h3
    · rename_i he
      exact (h2.mp (List.isEmpty_iff.mp he)) h
    · simp at h3

end unlifted

/-- the witness of `keyed_seq_ne_par` on the un-lifted plan (2 partitions): the sequential output -/
theorem keyed_unlifted_eq_seq_witness :
    sampleKeyedUnlifted (reservoirSM 1 42) [[(0, 0), (1, 5), (0, 1)], [(1, 6), (0, 2), (1, 7)]] =
      sampleKeyedSeq (reservoirSM 1 42) ([(0, 0), (1, 5), (0, 1), (1, 6), (0, 2), (1, 7)] : List (Nat × Nat)) := by
  decide

/-! ## round 3 (c): the pipeline definitions ARE the engine (`Engine.execSeq` / `execPar` / `runSubPar`) run on the
chains the builders insert, after the planner (`Planner.optimise`) -/

section engine
variable {K V A O : Type} [DecidableEq K]

theorem mapM_map_some {X Y Z : Type} (f : X → Y) (g : Y → Option Z) (h : X → Z) (hg : ∀ x, g (f x) = some (h x)) :
    ∀ (l : List X), (l.map f).mapM g = some (l.map h)
  | [] => rfl
  | x :: l => by
    rw [List.map_cons, List.mapM_cons, hg x, mapM_map_some f g h hg l]
    rfl

omit [DecidableEq K] in
theorem gMerge_locals (c : Combiner V A O) (ps : List (List V)) :
    (ps.map (fun l => gLocal (K := K) c (.rows l))).mapM SPart.getAcc = some (ps.map (c.foldAdd c.create)) :=
  mapM_map_some (fun l => gLocal (K := K) c (.rows l)) SPart.getAcc (c.foldAdd c.create) (fun _ => rfl) ps

theorem cvMerge_locals (c : Combiner V A O) (ps : List (List (K × V))) :
    (ps.map (fun l => cvLocalPairs c (.krows l))).mapM SPart.getKAccs = some (ps.map (localPairs c)) :=
  mapM_map_some (fun l => cvLocalPairs (A := A) (O := O) c (.krows l)) SPart.getKAccs (localPairs c) (fun _ => rfl) ps

theorem gbkMerge_locals (ps : List (List (K × V))) :
    (ps.map (fun l => gbkLocal (A := A) (O := O) (.krows l))).mapM SPart.getKGroups =
      some (ps.map (localPairs (listCombiner V))) :=
  mapM_map_some (fun l => gbkLocal (A := A) (O := O) (.krows l)) SPart.getKGroups (localPairs (listCombiner V)) (fun _ => rfl) ps

/-- `sample_reservoir_vec(..).collect_seq()` IS `exec_seq` on the chain as built -/
theorem execSeq_globalChain (c : Combiner V A O) (xs : List V) :
    execSeq (globalChain (K := K) c xs) = .ok (.out [sampleSeq c xs]) := by
  simp [execSeq, globalChain, rowsSource, globalNode, stepSeq, stepSubSeq, need, List.foldlM, sampleSeq,
    gLocal, gMerge, gFinish, SPart.getAcc, bind, Except.bind, pure, Except.pure]

/-- `sample_reservoir_vec(..).collect_par(_, Some n)` IS `exec_par` on the chain as built: fan-out `None`, one
    `merge` of all per-partition accumulators (none when there is one partition), `finish` -/
theorem execPar_globalChain (c : Combiner V A O) (concat : List (SPart K V A O) → SPart K V A O) (n : Nat)
    (xs : List V) : execPar concat (globalChain c xs) n = .ok (.out [samplePar c n xs]) := by
  simp only [execPar, globalChain, rowsSource, globalNode, List.foldlM, stepPar, stepSubPar, reduceGlobal,
    reduceGlobalWith, bind, Except.bind, pure, Except.pure, List.map_map, List.length_map]
  unfold samplePar partsOf
  generalize vecSplit xs (clampParts n xs.length) = ps
  have hl := gMerge_locals (K := K) c
  match ps with
  | [] => simp [coalesce, mergeAll, gMerge, gFinish]
  | [p] => simp [coalesce, mergeAll, gLocal, gFinish]
  | p :: q :: rest =>
    have h2 := hl (p :: q :: rest)
    have : (List.map (gLocal c ∘ SPart.rows) (p :: q :: rest)) =
        (p :: q :: rest).map (fun l => gLocal (K := K) c (.rows l)) := rfl
    simp only [List.length_cons, this, gMerge, h2]
    simp [coalesce, gFinish]

/-- the planner rewrites the keyed chain `[Source, GroupByKey, CombineValues{local_groups}]` to
    `[Source, CombineValues{local_pairs only}]` (`lift_gbk_then_combine`) -/
theorem optimise_keyedChain (c : Combiner V A O) (rows : List (K × V)) :
    optimise (keyedChain c rows) = [krowsSource rows, .combineValues (cvLocalPairs c) none (cvMerge c)] := by
  simp [optimise, keyedChain, krowsSource, gbkNode, liftedNode, fuse, reorder, liftGbk, dropMid]

/-- `sample_values_reservoir_vec(..).collect_par(_, Some n)` IS `exec_par` on the PLANNED chain -/
theorem execPar_keyedChain (c : Combiner V A O) (concat : List (SPart K V A O) → SPart K V A O) (n : Nat)
    (rows : List (K × V)) :
    execPar concat (optimise (keyedChain c rows)) n = .ok (.kout (sampleKeyedPar c n rows)) := by
  rw [optimise_keyedChain]
  simp only [execPar, krowsSource, List.foldlM, stepPar, stepSubPar, Option.getD, bind, Except.bind, pure,
    Except.pure, List.map_map, coalesce]
  have : ∀ ps : List (List (K × V)), List.map (cvLocalPairs c ∘ SPart.krows (A := A) (O := O)) ps =
      ps.map (fun l => cvLocalPairs c (.krows l)) := fun _ => rfl
  simp only [this, cvMerge, cvMerge_locals]
  rfl

/-- … and sequentially -/
theorem execSeq_keyedChain (c : Combiner V A O) (rows : List (K × V)) :
    execSeq (optimise (keyedChain c rows)) = .ok (.kout (sampleKeyedSeq c rows)) := by
  rw [optimise_keyedChain]
  simp [krowsSource, execSeq, List.foldlM, stepSeq, stepSubSeq, need, bind, Except.bind, pure, Except.pure,
    cvLocalPairs, cvMerge, SPart.getKAccs, sampleKeyedSeq]

/-- a JOIN side runs the chain as built (no planner pass): `run_subplan_par` on `[Source, GroupByKey,
    CombineValues{local_groups}]` is the un-lifted per-key sample over the partitions cut -/
theorem runSubPar_keyedChain (c : Combiner V A O) (n : Nat) (rows : List (K × V)) :
    runSubPar (keyedChain c rows) n = .ok [.kout (sampleKeyedUnlifted c (partsOf n rows))] := by
  simp only [runSubPar, keyedChain, krowsSource, gbkNode, liftedNode, List.foldlM, stepSubPar, Option.getD, bind,
    Except.bind, pure, Except.pure, List.map_map, List.map_cons, List.map_nil]
  have : ∀ ps : List (List (K × V)), List.map (gbkLocal ∘ SPart.krows (A := A) (O := O)) ps =
      ps.map (fun l => gbkLocal (.krows l)) := fun _ => rfl
  simp only [this, gbkMerge, gbkMerge_locals, cvLocalGroups, cvMerge, List.mapM_cons, List.mapM_nil,
    SPart.getKAccs, bind, Option.bind, pure]
  rfl

/-- … and `run_subplan_seq` -/
theorem runSubSeq_keyedChain (c : Combiner V A O) (rows : List (K × V)) :
    runSubSeq (keyedChain c rows) = .ok (.kout (sampleKeyedUnlifted c [rows])) := by
  simp [runSubSeq, keyedChain, krowsSource, gbkNode, liftedNode, List.foldlM, stepSubSeq, need, bind, Except.bind,
    pure, Except.pure, gbkLocal, gbkMerge, cvLocalGroups, cvMerge, SPart.getKGroups, SPart.getKAccs,
    sampleKeyedUnlifted, gbkParts, sampleKeyedParts]

end engine

/-- C14's `vecSplit` is the `VecOpsImpl::split` model of the shared closure layer (`Model/Closures.lean`) -/
theorem vecSplit_eq_closures (xs : List Val) (n : Nat) : vecSplit xs n = IB.vecSplit xs n := rfl

/-! ## round 3 (d): the `f64` priority, the `k` alignment, order dependence -/

/-- **The integer the model orders by and the `f64` the code stores are ordered alike.** `m ↦ prioBits m` (the bit
    pattern of `(m as f64)·2^-53`, `0.0` replaced by `from_bits(1)`) is strictly increasing on the 53-bit draws … -/
theorem prioBits_strictMono {m m' : Nat} (h : m < m') (hb : m' < 2 ^ 53) : prioBits m < prioBits m' := by
  have h0' : m' ≠ 0 := by omega
  obtain ⟨l', u'⟩ := scaled_bounds h0' hb
  by_cases h0 : m = 0
  · subst h0
    simp only [prioBits, ↓reduceIte, h0']
    omega
  · have hbm : m < 2 ^ 53 := by omega
    obtain ⟨l, u⟩ := scaled_bounds h0 hbm
    simp only [prioBits, h0, h0', ↓reduceIte]
    have hle : Nat.log2 m ≤ Nat.log2 m' := by
      apply Classical.byContradiction
      intro hn
      have h1 : 2 ^ (Nat.log2 m' + 1) ≤ 2 ^ Nat.log2 m := Nat.pow_le_pow_right (by decide) (by omega)
      have h2 := Nat.log2_self_le h0
      have h3 : m' < 2 ^ (Nat.log2 m' + 1) := Nat.lt_log2_self
      omega
    rcases Nat.lt_or_eq_of_le hle with hlt | heq
    · have : (Nat.log2 m + 971) * 2 ^ 52 ≤ (Nat.log2 m' + 970) * 2 ^ 52 := Nat.mul_le_mul_right _ (by omega)
      have e1 : (Nat.log2 m + 971) * 2 ^ 52 = (Nat.log2 m + 970) * 2 ^ 52 + 2 ^ 52 := by
        rw [show Nat.log2 m + 971 = (Nat.log2 m + 970) + 1 from rfl, Nat.add_mul, Nat.one_mul]
      omega
    · rw [heq] at l u ⊢
      have hpos : 0 < 2 ^ (52 - Nat.log2 m') := Nat.pow_pos (by decide)
      have := Nat.mul_lt_mul_of_pos_right h hpos
      omega

/-- … every stored priority is a positive finite float below 1.0 (sign bit clear, pattern in `[1, bits(1.0))`) … -/
theorem prioBits_range {m : Nat} (hb : m < 2 ^ 53) : 1 ≤ prioBits m ∧ prioBits m < 0x3FF0000000000000 := by
  by_cases h0 : m = 0
  · subst h0; simp [prioBits]
  · obtain ⟨l, u⟩ := scaled_bounds h0 hb
    have he := log2_le_52 h0 hb
    simp only [prioBits, h0, ↓reduceIte]
    have : (Nat.log2 m + 970) * 2 ^ 52 ≤ 1022 * 2 ^ 52 := Nat.mul_le_mul_right _ (by omega)
    omega

/-- … and on such patterns `f64::total_cmp` (= `OrdF64::cmp`, compared with the real code by the `ORDF64`
    requests) is the order of the patterns: together, `lexLt` on `(m, seq, idx)` is the heap's order -/
theorem totalCmp_of_lt {a b : Nat} (hb : b < 2 ^ 63) (h : a < b) : totalCmp a b = .lt := by
  have ha : a < 2 ^ 63 := by omega
  simp only [totalCmp, totalKey, ha, hb, ↓reduceIte]
  exact Nat.compare_eq_lt.mpr (by omega)

theorem totalCmp_prio {m m' : Nat} (h : m < m') (hb : m' < 2 ^ 53) :
    totalCmp (prioBits m) (prioBits m') = .lt := by
  have := prioBits_range hb
  exact totalCmp_of_lt (by omega) (prioBits_strictMono h hb)

/-- the draws really are below `2^53` -/
theorem smNextPrio_lt (s : UInt64) : (smNextPrio s).1 < 2 ^ 53 := by
  simp only [smNextPrio]
  have h := UInt64.toNat_lt ((smNextU64 s).1)
  rw [UInt64.toNat_shiftRight]
  simp only [UInt64.reduceToNat, Nat.reduceMod, Nat.shiftRight_eq_div_pow]
  omega

/-- witnesses (corpus of the harness): the smallest draw maps to the smallest subnormal, `m = 1` to `2^-53`, the
    largest draw to `1 − 2^-53` -/
theorem prioBits_witnesses :
    prioBits 0 = 1 ∧ prioBits 1 = 0x3CA0000000000000 ∧ prioBits (2 ^ 52) = 0x3FE0000000000000 ∧
      prioBits (2 ^ 53 - 1) = 0x3FEFFFFFFFFFFFFF := by
  refine ⟨rfl, ?_, ?_, ?_⟩ <;> simp [prioBits, Nat.log2] <;> decide

/-- **the `k` alignment of `merge` (`acc.k = acc.k.max(other.k)`) is unobservable from every entry point**: all
    accumulators of one run come from ONE combiner, so both sides carry the same `k` (`Inv.k_eq`) and the line is
    the identity — for every merge any tree performs -/
theorem merge_k_align_noop {k : Nat} {xs ys : List α} {a o : PRAcc σ α} (ha : Inv k xs a) (ho : Inv k ys o) :
    max a.k o.k = a.k := by
  rw [ha.k_eq, ho.k_eq]; simp

/-- **The sample depends on the ORDER in which the sampler is fed, not only on the multiset of the input**
    (documented: "Deterministic … for a given seed and input multiset"): for every generator whose first priority
    beats its second, `[a, b]` yields `a` and `[b, a]` yields `b`. After a hash-ordered barrier
    (`group_by_key`, joins) the feeding order changes from run to run, so such a sample is not reproducible
    (known finding `C14-sample-after-barrier-not-reproducible`; requests `SAMPLEGBK`). -/
theorem sample_depends_on_feeding_order (next : σ → Nat × σ) (s0 : σ) (a b : α) (hab : a ≠ b)
    (h : (next (next s0).2).1 < (next s0).1) :
    [a, b].Perm [b, a] ∧ sampleSeq (reservoir next 1 s0) [a, b] ≠ sampleSeq (reservoir next 1 s0) [b, a] := by
  refine ⟨List.Perm.swap b a [], ?_⟩
  rw [seq_pair_of_first_prio_gt next s0 a b h, seq_pair_of_first_prio_gt next s0 b a h]
  intro e
  exact hab (by simpa using e)

/-- concrete: seed 42, keys `0,1` fed as `[0,1]` → `[0]`, fed as `[1,0]` → `[1]` -/
theorem sample_depends_on_feeding_order_witness :
    sampleParts (reservoirSM 1 42) [[(0 : Nat), 1]] = [0] ∧ sampleParts (reservoirSM 1 42) [[(1 : Nat), 0]] = [1] := by
  decide

end IB.Sampling

/-! ## the driver's `RESERVOIR` evaluator is `Tree.eval` (what the theorems above are about) -/
namespace IB.D14
open IB.Sampling

/-- the merge tree a request's shape denotes (`none` = a leaf index out of range) -/
def shapeTree (parts : List (List Int)) : Shape → Option (Tree Int)
  | .leaf i _ => (parts[i]?).map Tree.leaf
  | .node l r =>
    match shapeTree parts l, shapeTree parts r with
    | some a, some b => some (.node a b)
    | _, _ => none

/-- The recursion the driver uses to answer `RESERVOIR` requests computes `Tree.eval` of the request's tree
    (lifted leaves `B<i>` included: `build_from_group` is the per-partition fold), so the accumulators compared
    with the real crate are exactly the ones `eval_inv`, `sample_size`, `sample_submultiset` speak about. -/
theorem evalShape_eq_tree (k : Nat) (seed : UInt64) (parts : List (List Int)) : ∀ (sh : Shape),
    evalShape (reservoirSM k seed) parts sh = (shapeTree parts sh).map (Tree.eval (reservoirSM k seed))
  | .leaf i lifted => by
    simp only [evalShape, shapeTree]
    cases parts[i]? with
    | none => rfl
    | some p => cases lifted <;> rfl
  | .node l r => by
    simp only [evalShape, shapeTree, evalShape_eq_tree k seed parts l, evalShape_eq_tree k seed parts r]
    cases shapeTree parts l <;> cases shapeTree parts r <;> rfl

/-- hence every `OK` answer of the `RESERVOIR` handler is `sampleOf` of a merge tree -/
theorem reservoir_answer_is_sampleOf (k : Nat) (seed : UInt64) (parts : List (List Int)) (sh : Shape)
    (a : PRAcc UInt64 Int) (h : evalShape (reservoirSM k seed) parts sh = some a) :
    ∃ t, shapeTree parts sh = some t ∧
      (reservoirSM k seed).finish a = sampleOf smNextPrio k (seedState seed) t := by
  rw [evalShape_eq_tree] at h
  cases ht : shapeTree parts sh with
  | none => rw [ht] at h; simp at h
  | some t =>
    rw [ht] at h
    simp only [Option.map_some, Option.some.injEq] at h
    exact ⟨t, rfl, by rw [← h]; rfl⟩

end IB.D14
