import IbModel.Model.CompressionTable
import IbModel.Proofs.Compression
/-!
# C10 — compression is transparent and format detection is sound

Property theorems about `IB.Compression` (model of `src/io/compression.rs` and of every reader / writer
entry point that goes through it), instantiated on `codecTable` = the registry of the RUNNING code
(`Generated/Tables.lean`, re-dumped on every run).

* Every entry point has its OWN model definition mirroring its Rust body (`writeJsonlPar` = plain part
  files, concatenated into a final file that is opened through `autoWriter`; `readStreaming` = one
  `autoReader` for the count pass and one more per shard; …). That "every entry point passes its data
  through the compression layer" is therefore a THEOREM about those definitions (`every_writer_wraps`,
  `every_reader_decodes`), and it is FALSE for the definitions of the pinned commit (`legacy_*`).
* A reader source is a `Src` = the stream (bytes interleaved with the I/O faults the source raises:
  `Interrupted`, any other error) + a read schedule (how many bytes each successful `read` returns);
  detection is proved independent of the schedule and of `Interrupted` faults
  (`detection_independent_of_read_schedule`), which was false before the first `fix:` commit
  (`legacy_short_first_read_undetected`); for EVERY source, any faults included, the read either fails or
  returns what a `File` with the same bytes returns (`source_faults_never_silent`), which was false before the
  second `fix:` commit (`legacy_source_error_swallowed`).
* The registry is STATE: whatever sequence of `get_registry` / `register_codec` calls a process made, a
  detection sees `codecTable ++ registered` (`registry_builtins_first`); the `registered_*` theorems hold
  for EVERY list of registered codecs.
* The codecs themselves are abstract (`CodecImpl`); what is assumed about them is the structure
  `Lawful E D` (encoders `E`, decoders `D`; a hypothesis of the theorems, never an axiom):
  `D.decompress ∘ E.compress = id` and "the compressed stream starts with the format's true signature"
  (`specSignatures`). The registry's codecs are one `CodecImpl` `K` (`Lawful K K`), the cloud writer's own
  encoder instances another one `Kc` (`Lawful Kc K`: what they emit, the registry's decoders read).
  `toy_lawful` shows the hypotheses are satisfiable; the harness validates them for the real libraries on
  every generated payload.
* The format layer (serde_json / csv / lines, shard arithmetic) is a parameter; the theorems reduce every
  compressed round trip to what the SAME entry points do on a plain stream (`Reader.plain`), which is
  the subject of C09 (`reader_plain_eq_readAll`).

NOT covered: the Parquet entry points (`write_parquet_vec`, `PCollection::write_parquet`,
`read_parquet_*`) never consult the codec registry (Parquet has its own internal page compression), so a
name like `x.parquet.gz` is written as a plain Parquet file; the property's entry-point list
{`write_*_vec`, `write_*_par`, PCollection writers, streaming readers, cloud readers/writers} is read
here as the JSONL / CSV / cloud-JSONL ones.
Also outside the theorems: a path is a `List Char` — for a file name that is not valid UTF-8 the model is
given its `to_string_lossy()` form (std's lossy decoding is trusted, the harness applies it: `ODETECT` / `ORT`);
a source `error` fault BEHIND the bytes `auto_detect_reader` itself reads is modelled as a failed read (what
a decoder does with it is the decoder's business); a REGISTERED codec's extension on a cloud key (the cloud
writer never consults the registry: `cloud_writer_ignores_registered_codecs`; the property speaks of the
built-in codecs).
-/
namespace IB.Compression

/-- what is assumed of the third-party codecs: encoders `E` (the registry's `wrap_writer_dyn`, or the cloud
    writer's own encoder instances), decoders `D` (the registry's `wrap_reader_dyn`) -/
structure Lawful (E D : CodecImpl) : Prop where
  roundtrip : ∀ n s, (n, s) ∈ specSignatures → ∀ x, D.decompress n (E.compress n x) = some x
  signed : ∀ n s, (n, s) ∈ specSignatures → ∀ x, s <+: E.compress n x

/-! ## table obligations — decided on the table dumped from the running registry -/

/-- every registered codec's magic bytes ARE the format's true signature
    {gzip `1f 8b`, zstd `28 b5 2f fd`, bzip2 `42 5a 68` ("BZh"), xz `fd 37 7a 58 5a 00`} -/
theorem table_magic_is_format_signature : tableMagicOK codecTable = true := by decide

/-- the magic byte strings are pairwise prefix-free (no content can match two codecs) -/
theorem table_magic_prefix_free : magicPrefixFree codecTable = true := by decide

/-- every magic is non-empty and fits into the peeked buffer -/
theorem table_magic_sizes : magicSizesOK codecTable = true := by decide

/-- the number of leading bytes `auto_detect_reader` collects (the longest signature) is positive and
    fits the `BufReader` -/
theorem table_head_len : headLenOK codecTable = true := by decide

/-- extensions are lower-case ASCII and begin with a dot (an upper-case extension could never match) -/
theorem table_exts_wellformed : extsWellFormed codecTable = true := by decide

/-- no extension of one codec is a suffix of an extension of another -/
theorem table_exts_suffix_free : extsSuffixFree codecTable = true := by decide

/-- the cloud writer's hard-coded chain lists the same codecs and extensions as the registry -/
theorem table_cloud_chain_agrees : cloudChainOK codecTable = true := by decide

/-- all spellings of an extension that differ only in ASCII letter case -/
def caseVariants : List Char → List (List Char)
  | [] => [[]]
  | c :: cs => (caseVariants cs).flatMap fun v => [c :: v, c.toUpper :: v]

/-- lower-casing maps every case variant of every registered extension back to the extension -/
def caseVariantsOK (tbl : List CodecEntry) : Bool :=
  tbl.all fun c => c.exts.all fun e => (caseVariants e.toList).all fun v => lowerPath v == e.toList

theorem table_case_variants_lower : caseVariantsOK codecTable = true := by decide

/-! ## every entry point goes through the compression layer -/

/-- **every writer wraps**: each JSONL / CSV writer entry point — sequential, parallel (any shard
    count, `None` included), PCollection, the `write_csv` alias, cloud object — stores exactly
    `autoWriter path (the plain serialisation)`: the bytes the sequential writer of the format emits, pushed
    through ONE encoder of the codec `auto_detect_writer` would choose, as one stream (the cloud writer through
    its own encoder instances `Kc`, every other one through the registry's `K`). A theorem about the
    per-entry-point definitions (shard slicing, part files, buffers, the cloud writer's own extension chain),
    not a definition. -/
theorem every_writer_wraps {ρ : Type} (K Kc : CodecImpl) (w : AnyWriter ρ) (path : List Char) (rs : List ρ) :
    w.run K Kc codecTable path rs = some (autoWriter (w.enc K Kc) codecTable path (w.plainOf rs)) := by
  cases w with
  | jsonl w ser =>
    cases w with
    | vec => rfl
    | pc => rfl
    | par sh a => exact writeJsonlPar_eq K codecTable ser path rs sh a
    | pcPar sh a => exact writeJsonlPar_eq K codecTable ser path rs sh a
    | cloud =>
      simp only [AnyWriter.run, JWriter.run, writeCloudJsonl, AnyWriter.plainOf, AnyWriter.enc,
        cloudWriter_eq_autoWriter Kc table_cloud_chain_agrees]
  | csv w hdr header ser =>
    cases w with
    | vec => rfl
    | alias => rfl
    | pc => rfl
    | par sh a => exact writeCsvPar_eq K codecTable hdr header ser path rs sh a
    | pcPar sh a =>
      simp only [AnyWriter.run, CWriter.run, AnyWriter.plainOf, pcWriteCsvPar_eq]
      rfl

/-- is this the cloud writer (whose extension chain is hard-coded and never consults the registry)? -/
def AnyWriter.isCloud {ρ : Type} : AnyWriter ρ → Bool
  | .jsonl .cloud _ => true
  | _ => false

/-- the same for ANY registry content `tbl` (user codecs registered): every LOCAL writer entry point stores
    `autoWriter tbl path plain`; the cloud writer decides by its own chain = the BUILT-IN table, whatever
    was registered. -/
theorem every_writer_wraps_any_registry {ρ : Type} (K Kc : CodecImpl) (tbl : List CodecEntry)
    (w : AnyWriter ρ) (path : List Char) (rs : List ρ) :
    w.run K Kc tbl path rs =
      some (if w.isCloud then autoWriter Kc codecTable path (w.plainOf rs)
            else autoWriter K tbl path (w.plainOf rs)) := by
  cases w with
  | jsonl w ser =>
    cases w with
    | vec => rfl
    | pc => rfl
    | par sh a => exact writeJsonlPar_eq K tbl ser path rs sh a
    | pcPar sh a => exact writeJsonlPar_eq K tbl ser path rs sh a
    | cloud =>
      simp only [AnyWriter.run, JWriter.run, writeCloudJsonl, AnyWriter.plainOf, AnyWriter.isCloud,
        cloudWriter_eq_autoWriter Kc table_cloud_chain_agrees, if_true]
  | csv w hdr header ser =>
    cases w with
    | vec => rfl
    | alias => rfl
    | pc => rfl
    | par sh a => exact writeCsvPar_eq K tbl hdr header ser path rs sh a
    | pcPar sh a =>
      simp only [AnyWriter.run, CWriter.run, AnyWriter.plainOf, pcWriteCsvPar_eq]
      rfl

/-- **every reader decodes**: each record reader entry point — vec, helper, streaming (any shard size,
    `collect_seq` and `collect_par`: the count pass and every per-shard read re-open the file), cloud
    object — returns what its format layer computes from `autoReader path file`. -/
theorem every_reader_decodes {Line ρ : Type} (K : CodecImpl) (F : ReadFmt Line ρ) (r : Reader)
    (path : List Char) (file : Bytes) :
    r.run K codecTable F path file = (autoReader K codecTable path file).bind (r.plain F) :=
  reader_decodes K codecTable F r path file

/-- on a plain stream all reader entry points agree with `read_*_vec` (imported from C09) -/
theorem reader_plain_is_read_all {Line ρ : Type} (F : ReadFmt Line ρ) (r : Reader) (plain : Bytes) :
    r.plain F plain = (F.lines plain).bind (IB.Io.readAll F.blank F.de) :=
  reader_plain_eq_readAll F r plain

/-- **detection does not depend on how the source chunks its reads**: for EVERY read schedule (first
    read of 1 byte, byte-by-byte, …) and EVERY placement of `Interrupted` faults, `auto_detect_reader`
    succeeds, decides and returns exactly what it does on a `File` / `Cursor` with the same content — the
    decision is a function of the path and of the first `headLen` (= 6) bytes of the stream. -/
theorem detection_independent_of_read_schedule (K : CodecImpl) (path : List Char) (s : Src)
    (hs : s.ErrorFree) :
    readerCodecSrc codecTable path s = some (readerCodec codecTable path s.data) ∧
      autoReaderSrc K codecTable path s = autoReader K codecTable path s.data := by
  have hH := headLenOK_pos table_head_len
  constructor
  · rw [readerCodecSrc_eq_spec hH path s hs, readerCodec_eq_spec hH]
  · rw [autoReaderSrc_eq_spec K hH path s hs, autoReader_eq_spec K hH]

/-- the same for the plain chunked sources of the harness's `DETECTS` requests -/
theorem detection_independent_of_chunking (K : CodecImpl) (path : List Char) (bytes : Bytes)
    (sched : List Nat) :
    readerCodecSrc codecTable path (Src.chunked bytes sched) = some (readerCodec codecTable path bytes) ∧
      autoReaderSrc K codecTable path (Src.chunked bytes sched) = autoReader K codecTable path bytes := by
  have := detection_independent_of_read_schedule K path (Src.chunked bytes sched) (Src.chunked_errorFree _ _)
  rwa [Src.chunked_data] at this

/-- **a source fault is never silent**: for EVERY source — any read schedule, `Interrupted` and other
    errors anywhere in the stream — `auto_detect_reader` + reading to the end either reports an error or
    returns exactly what it returns on a `File` with the same bytes. In particular a genuine stream under a
    neutral name is never handed on undecoded because the source failed once while the signature was
    collected (false before the second `fix:` commit, `legacy_source_error_swallowed`). -/
theorem source_faults_never_silent (K : CodecImpl) (path : List Char) (s : Src) :
    autoReaderSrc K codecTable path s = none ∨
      autoReaderSrc K codecTable path s = autoReader K codecTable path s.data := by
  have hH := headLenOK_pos table_head_len
  rw [autoReader_eq_spec K hH]
  exact autoReaderSrc_none_or_spec K hH path s

/-- … and an `error` fault in front of the 6th byte (with data behind it) under a neutral name IS reported:
    `auto_detect_reader` itself returns `Err`. -/
theorem source_error_in_head_is_reported (K : CodecImpl) (path : List Char)
    (h : detectExt codecTable path = none) (pre post : List Item) (sched : List Nat)
    (hpre : errorFree pre = true) (hlen : (bytesOf pre).length < headLen codecTable)
    (hpost : bytesOf post ≠ []) :
    readerCodecSrc codecTable path ⟨pre ++ .fault .error :: post, sched⟩ = none ∧
      autoReaderSrc K codecTable path ⟨pre ++ .fault .error :: post, sched⟩ = none := by
  have hsc := headScan_error pre post (headLen codecTable) hpre hlen hpost
  have hp : peek codecTable ⟨pre ++ .fault .error :: post, sched⟩ = none := by
    unfold peek
    rw [readHead_none_of_scan (Nat.lt_succ_self _) hsc]
    rfl
  constructor
  · simp only [readerCodecSrc, h, hp, Option.map_none]
  · simp only [autoReaderSrc, h, hp]

/-! ## the core: what is stored under a name reads back -/

/-- a name is *sound* for a plain payload: it carries a codec extension, or it is neutral and the
    payload does not start with a true format signature (the property's own exception) -/
def NameOK (path : List Char) (plain : Bytes) : Prop :=
  (∃ c, detectExt codecTable path = some c) ∨
    (detectExt codecTable path = none ∧ ∀ n s, (n, s) ∈ specSignatures → ¬ s <+: plain)

theorem detectMagic_none_of_no_signature (x : Bytes) (k : Nat)
    (hx : ∀ n s, (n, s) ∈ specSignatures → ¬ s <+: x) : detectMagic codecTable (x.take k) = none := by
  apply detectMagic_take_eq_none
  intro c hc m hm hp
  obtain ⟨s, hs, hmem⟩ := spec_of_mem_table table_magic_is_format_signature hc
  rw [hm] at hs; cases hs
  exact hx _ _ hmem hp

/-- **transparent**: what `auto_detect_writer` (encoders `E`) stored under a sound name,
    `auto_detect_reader` (decoders `D`) returns unchanged — from any source that delivers those bytes
    without an `error` fault, whatever its read schedule and `Interrupted` faults. -/
theorem transparent (E D : CodecImpl) (hK : Lawful E D) (path : List Char) (plain : Bytes)
    (hok : NameOK path plain) (s : Src) (hs : s.ErrorFree)
    (hd : s.data = autoWriter E codecTable path plain) :
    autoReaderSrc D codecTable path s = some plain := by
  rw [autoReaderSrc_eq_spec D (headLenOK_pos table_head_len) path s hs, hd]
  unfold autoReaderSpec readerCodecSpec autoWriter
  rcases hok with ⟨c, h⟩ | ⟨h, hx⟩
  · obtain ⟨s, _, hs⟩ := spec_of_mem_table table_magic_is_format_signature (detectExt_mem h)
    simp only [h]
    exact hK.roundtrip _ _ hs plain
  · simp only [h, detectMagic_none_of_no_signature plain _ hx]

theorem transparent_file (E D : CodecImpl) (hK : Lawful E D) (path : List Char) (plain : Bytes)
    (hok : NameOK path plain) :
    autoReader D codecTable path (autoWriter E codecTable path plain) = some plain :=
  transparent E D hK path plain hok _ (Src.full_errorFree _) (Src.full_data _)

theorem enc_lawful {ρ : Type} (K Kc : CodecImpl) (hK : Lawful K K) (hC : Lawful Kc K) (w : AnyWriter ρ) :
    Lawful (w.enc K Kc) K := by
  cases w with
  | jsonl w ser => cases w <;> first | exact hK | exact hC
  | csv w hdr header ser => exact hK

/-- the same through any writer and any reader entry point: the compression layer vanishes — the
    result is what the reader's format layer computes from the writer's plain serialisation. -/
theorem entry_points_transparent {Line ρ : Type} (K Kc : CodecImpl) (hK : Lawful K K) (hC : Lawful Kc K)
    (F : ReadFmt Line ρ) (w : AnyWriter ρ) (r : Reader) (path : List Char) (rs : List ρ)
    (hok : NameOK path (w.plainOf rs)) :
    (w.run K Kc codecTable path rs).bind (r.run K codecTable F path) = r.plain F (w.plainOf rs) := by
  rw [every_writer_wraps, Option.bind_some, every_reader_decodes]
  rw [transparent_file _ K (enc_lawful K Kc hK hC w) path (w.plainOf rs) hok]
  rfl

/-! ## data under a codec extension -/

/-- **stored compressed**: through every writer entry point, data written to a path that carries a
    codec's extension is stored as ONE stream of that codec, which starts with the format's true
    signature. -/
theorem ext_stored_compressed {ρ : Type} (K Kc : CodecImpl) (hK : Lawful K K) (hC : Lawful Kc K)
    (w : AnyWriter ρ) (path : List Char) (c : CodecEntry) (h : detectExt codecTable path = some c)
    (rs : List ρ) :
    w.run K Kc codecTable path rs = some ((w.enc K Kc).compress c.name (w.plainOf rs)) ∧
      ∃ s, (c.name, s) ∈ specSignatures ∧ s <+: (w.enc K Kc).compress c.name (w.plainOf rs) := by
  obtain ⟨s, _, hs⟩ := spec_of_mem_table table_magic_is_format_signature (detectExt_mem h)
  refine ⟨?_, s, hs, (enc_lawful K Kc hK hC w).signed _ _ hs _⟩
  rw [every_writer_wraps]
  simp only [autoWriter, h]

/-- the same for `auto_detect_writer` used directly on raw bytes -/
theorem ext_stored_compressed_raw (K : CodecImpl) (path : List Char) (c : CodecEntry)
    (h : detectExt codecTable path = some c) (x : Bytes) :
    autoWriter K codecTable path x = K.compress c.name x := by
  simp only [autoWriter, h]

/-- **ext_roundtrip**: for EVERY writer entry point, EVERY reader entry point and EVERY path carrying a
    codec extension, what is written reads back exactly as the same entry points would read the plain
    serialisation … -/
theorem ext_roundtrip {Line ρ : Type} (K Kc : CodecImpl) (hK : Lawful K K) (hC : Lawful Kc K)
    (F : ReadFmt Line ρ) (w : AnyWriter ρ) (r : Reader) (path : List Char) (c : CodecEntry)
    (h : detectExt codecTable path = some c) (rs : List ρ) :
    (w.run K Kc codecTable path rs).bind (r.run K codecTable F path) = r.plain F (w.plainOf rs) :=
  entry_points_transparent K Kc hK hC F w r path rs (Or.inl ⟨c, h⟩)

/-- … hence, with any serialiser / parser pair of the format layer that round-trips on plain bytes
    (property C09: `roundtrip_modulo_serialiser`, `csv_roundtrip`), records written under a codec
    extension read back identical. -/
theorem ext_roundtrip_records {Line ρ : Type} (K Kc : CodecImpl) (hK : Lawful K K) (hC : Lawful Kc K)
    (F : ReadFmt Line ρ) (w : AnyWriter ρ) (r : Reader) (path : List Char) (c : CodecEntry)
    (h : detectExt codecTable path = some c) (rs : List ρ)
    (hfmt : (F.lines (w.plainOf rs)).bind (IB.Io.readAll F.blank F.de) = some rs) :
    (w.run K Kc codecTable path rs).bind (r.run K codecTable F path) = some rs := by
  rw [ext_roundtrip K Kc hK hC F w r path c h, reader_plain_is_read_all, hfmt]

/-- raw bytes through `auto_detect_writer` / `auto_detect_reader`, from any source without `error` faults -/
theorem ext_roundtrip_raw (K : CodecImpl) (hK : Lawful K K) (path : List Char) (c : CodecEntry)
    (h : detectExt codecTable path = some c) (x : Bytes) (s : Src) (hs : s.ErrorFree)
    (hd : s.data = autoWriter K codecTable path x) :
    autoReaderSrc K codecTable path s = some x :=
  transparent K K hK path x (Or.inl ⟨c, h⟩) s hs hd

/-- **case-insensitive**: a path that ends with ANY upper/lower-case spelling of a codec's extension is
    detected as that codec — by the writer and by the reader, whatever precedes the extension. -/
theorem ext_case_insensitive (stem : List Char) (c : CodecEntry) (hc : c ∈ codecTable) (e : String)
    (he : e ∈ c.exts) (v : List Char) (hv : v ∈ caseVariants e.toList) :
    detectExt codecTable (stem ++ v) = some c := by
  have hl : lowerPath v = e.toList := by
    have := List.all_eq_true.mp (List.all_eq_true.mp (List.all_eq_true.mp table_case_variants_lower c hc) e he) v hv
    exact eq_of_beq this
  apply detectExt_eq_some table_exts_suffix_free hc he
  unfold lowerPath at hl ⊢
  rw [List.flatMap_append, hl]
  exact List.suffix_append _ _

/-- the directory part of a path never influences detection: `sub.gz/x.jsonl` is a neutral name and
    `/tmp/anything/x.jsonl.gz` is detected exactly as `x.jsonl.gz` (what the harness relies on when it
    sends paths relative to its temp directory) -/
theorem detect_dir_irrelevant (dir name : List Char) :
    detectExt codecTable (dir ++ '/' :: name) = detectExt codecTable name :=
  detectExt_dir_irrelevant table_exts_wellformed dir name

/-- detection looks at the lower-cased path only -/
theorem detectExt_lower_congr (tbl : List CodecEntry) (p q : List Char) (h : lowerPath p = lowerPath q) :
    detectExt tbl p = detectExt tbl q := by
  unfold detectExt; rw [h]

/-! ## data under a neutral name -/

/-- **neutral, writer side**: no codec extension ⇒ every writer entry point stores the plain
    serialisation verbatim -/
theorem neutral_stored_verbatim {ρ : Type} (K Kc : CodecImpl) (w : AnyWriter ρ) (path : List Char)
    (h : detectExt codecTable path = none) (rs : List ρ) :
    w.run K Kc codecTable path rs = some (w.plainOf rs) := by
  rw [every_writer_wraps]
  simp only [autoWriter, h]

/-- **neutral_verbatim**: no codec extension ∧ the content does not start with a true format signature
    ⇒ `auto_detect_reader` returns the content verbatim — for ANY codec implementation and ANY source
    without `error` faults (any read schedule, any `Interrupted` faults) … -/
theorem neutral_verbatim_raw (K : CodecImpl) (path : List Char) (h : detectExt codecTable path = none)
    (s : Src) (hs : s.ErrorFree) (hx : ∀ n sg, (n, sg) ∈ specSignatures → ¬ sg <+: s.data) :
    autoReaderSrc K codecTable path s = some s.data := by
  rw [autoReaderSrc_eq_spec K (headLenOK_pos table_head_len) path s hs]
  simp only [autoReaderSpec, readerCodecSpec, h, detectMagic_none_of_no_signature s.data _ hx]

theorem neutral_verbatim_file (K : CodecImpl) (path : List Char) (h : detectExt codecTable path = none)
    (x : Bytes) (hx : ∀ n s, (n, s) ∈ specSignatures → ¬ s <+: x) :
    autoReader K codecTable path x = some x := by
  have := neutral_verbatim_raw K path h (Src.full x) (Src.full_errorFree x) (by rwa [Src.full_data])
  rwa [Src.full_data] at this

/-- … and every reader entry point parses it as a plain stream. -/
theorem neutral_verbatim {Line ρ : Type} (K : CodecImpl) (F : ReadFmt Line ρ) (r : Reader)
    (path : List Char) (h : detectExt codecTable path = none) (x : Bytes)
    (hx : ∀ n s, (n, s) ∈ specSignatures → ¬ s <+: x) :
    r.run K codecTable F path x = r.plain F x := by
  rw [every_reader_decodes, neutral_verbatim_file K path h x hx]
  rfl

/-- whole trip under a neutral name, every writer × every reader (for ANY codec implementation) -/
theorem neutral_roundtrip {Line ρ : Type} (K Kc : CodecImpl) (F : ReadFmt Line ρ)
    (w : AnyWriter ρ) (r : Reader) (path : List Char) (h : detectExt codecTable path = none)
    (rs : List ρ) (hx : ∀ n s, (n, s) ∈ specSignatures → ¬ s <+: w.plainOf rs) :
    (w.run K Kc codecTable path rs).bind (r.run K codecTable F path) = r.plain F (w.plainOf rs) := by
  rw [neutral_stored_verbatim K Kc w path h, Option.bind_some]
  exact neutral_verbatim K F r path h _ hx

theorem no_signature_of_first_byte (x : Bytes)
    (hx : ∀ b, x.head? = some b → b ∉ [0x1f, 0x28, 0x42, 0xfd]) :
    ∀ n s, (n, s) ∈ specSignatures → ¬ s <+: x := by
  intro n s hs hp
  cases x with
  | nil =>
    simp only [specSignatures, List.mem_cons, Prod.mk.injEq, List.not_mem_nil, or_false] at hs
    rcases hs with ⟨_, rfl⟩ | ⟨_, rfl⟩ | ⟨_, rfl⟩ | ⟨_, rfl⟩ <;> simp at hp
  | cons b t =>
    have hb := hx b rfl
    simp only [specSignatures, List.mem_cons, Prod.mk.injEq, List.not_mem_nil, or_false] at hs
    rcases hs with ⟨_, rfl⟩ | ⟨_, rfl⟩ | ⟨_, rfl⟩ | ⟨_, rfl⟩ <;>
      (obtain ⟨u, hu⟩ := hp; simp only [List.cons_append, List.cons.injEq] at hu; simp [← hu.1] at hb)

/-- ordinary JSON / CSV / text: content whose first byte is none of `1f`, `28`, `42` ('B'), `fd` (and
    empty content) is never taken for compressed data. JSON Lines always qualifies. -/
theorem text_never_misdetected {Line ρ : Type} (K : CodecImpl) (F : ReadFmt Line ρ) (r : Reader)
    (path : List Char) (h : detectExt codecTable path = none) (x : Bytes)
    (hx : ∀ b, x.head? = some b → b ∉ [0x1f, 0x28, 0x42, 0xfd]) (sched : List Nat) :
    autoReaderSrc K codecTable path (Src.chunked x sched) = some x ∧
      r.run K codecTable F path x = r.plain F x := by
  have h1 := neutral_verbatim_raw K path h (Src.chunked x sched) (Src.chunked_errorFree x sched)
    (by rw [Src.chunked_data]; exact no_signature_of_first_byte x hx)
  rw [Src.chunked_data] at h1
  exact ⟨h1, neutral_verbatim K F r path h x (no_signature_of_first_byte x hx)⟩

/-- pure ASCII text (every byte < 0x80) under a neutral name is taken for compressed data ONLY if it
    literally starts with the three characters "BZh" — the case the property itself excepts. -/
theorem ascii_text_misdetected_only_if_BZh {Line ρ : Type} (K : CodecImpl) (F : ReadFmt Line ρ)
    (r : Reader) (path : List Char) (h : detectExt codecTable path = none) (x : Bytes)
    (hascii : ∀ b ∈ x, b < 128) (hbzh : ¬ [0x42, 0x5a, 0x68] <+: x) (sched : List Nat) :
    autoReaderSrc K codecTable path (Src.chunked x sched) = some x ∧
      r.run K codecTable F path x = r.plain F x := by
  have hx : ∀ n s, (n, s) ∈ specSignatures → ¬ s <+: x := by
    intro n s hs hp
    simp only [specSignatures, List.mem_cons, Prod.mk.injEq, List.not_mem_nil, or_false] at hs
    rcases hs with ⟨_, rfl⟩ | ⟨_, rfl⟩ | ⟨_, rfl⟩ | ⟨_, rfl⟩
    · exact absurd (hascii 0x8b (hp.subset (by simp))) (by decide)
    · exact absurd (hascii 0xb5 (hp.subset (by simp))) (by decide)
    · exact hbzh hp
    · exact absurd (hascii 0xfd (hp.subset (by simp))) (by decide)
  have h1 := neutral_verbatim_raw K path h (Src.chunked x sched) (Src.chunked_errorFree x sched)
    (by rw [Src.chunked_data]; exact hx)
  rw [Src.chunked_data] at h1
  exact ⟨h1, neutral_verbatim K F r path h x hx⟩

/-- **neutral_signature**: genuinely compressed content (of ANY lawful encoder `E` of the format: the
    registry's, the cloud writer's, another program's) under a neutral name is recognised by its signature and
    decoded — by `auto_detect_reader` on ANY source without `error` faults (whatever its read schedule and
    `Interrupted` faults: this is what the short-first-read `fix:` commit repaired) … -/
theorem neutral_signature_raw (E K : CodecImpl) (hK : Lawful E K) (path : List Char)
    (h : detectExt codecTable path = none) (n : String) (sg : Bytes) (hs : (n, sg) ∈ specSignatures)
    (x : Bytes) (s : Src) (hsf : s.ErrorFree) (hd : s.data = E.compress n x) :
    autoReaderSrc K codecTable path s = some x := by
  obtain ⟨c, hc, hn, hm⟩ := table_of_mem_spec table_magic_is_format_signature hs
  obtain ⟨m', hm', hpos, _⟩ := magicSizesOK_spec table_magic_sizes hc
  rw [hm] at hm'; cases hm'
  have hd' : detectMagic codecTable ((E.compress n x).take (peekLen codecTable)) = some c := by
    rw [headLenOK_peekLen table_head_len]
    exact detectMagic_take_eq_some table_magic_prefix_free hc hm hpos (magic_le_headLen hc hm)
      (hK.signed _ _ hs x)
  rw [autoReaderSrc_eq_spec K (headLenOK_pos table_head_len) path s hsf, hd]
  simp only [autoReaderSpec, readerCodecSpec, h, hd', hn]
  exact hK.roundtrip _ _ hs x

/-- … and through every reader entry point. -/
theorem neutral_signature {Line ρ : Type} (E K : CodecImpl) (hK : Lawful E K) (F : ReadFmt Line ρ)
    (r : Reader) (path : List Char) (h : detectExt codecTable path = none) (n : String) (s : Bytes)
    (hs : (n, s) ∈ specSignatures) (x : Bytes) :
    r.run K codecTable F path (E.compress n x) = r.plain F x := by
  rw [every_reader_decodes]
  have := neutral_signature_raw E K hK path h n s hs x (Src.full (E.compress n x)) (Src.full_errorFree _)
    (Src.full_data _)
  rw [show autoReader K codecTable path (E.compress n x) = some x from this]
  rfl

/-- detection by content is exact: under a neutral name the reader decodes with codec `c` iff the
    content starts with `c`'s true signature — for every source without `error` faults. -/
theorem neutral_reader_codec_iff (path : List Char) (h : detectExt codecTable path = none) (s : Src)
    (hsf : s.ErrorFree) (c : CodecEntry) (hc : c ∈ codecTable) :
    readerCodecSrc codecTable path s = some (some c) ↔
      ∃ sg, (c.name, sg) ∈ specSignatures ∧ c.magic = some sg ∧ sg <+: s.data := by
  obtain ⟨sg, hm, hmem⟩ := spec_of_mem_table table_magic_is_format_signature hc
  rw [readerCodecSrc_eq_spec (headLenOK_pos table_head_len) path s hsf]
  simp only [readerCodecSpec, h, Option.some.injEq]
  constructor
  · intro hd
    refine ⟨sg, hmem, hm, ?_⟩
    unfold detectMagic at hd
    split at hd
    · cases hd
    · obtain ⟨m, hm', hp⟩ := magicMatches_iff.mp (List.find?_some hd)
      rw [hm] at hm'; cases hm'
      exact hp.trans (List.take_prefix _ _)
  · rintro ⟨s', _, hm', hp⟩
    obtain ⟨m', hm'', hpos, _⟩ := magicSizesOK_spec table_magic_sizes hc
    rw [hm'] at hm''; cases hm''
    rw [headLenOK_peekLen table_head_len]
    exact detectMagic_take_eq_some table_magic_prefix_free hc hm' hpos (magic_le_headLen hc hm') hp

/-! ## glob reads: every matched file is decoded under its OWN name -/

/-- **glob_roundtrip**: a set of files written by ANY mix of writer entry points under ANY mix of sound
    names (different codecs, case variants, neutral names side by side) and read through the glob branch
    of `read_jsonl` / `read_csv` / `read_cloud_jsonl_glob` yields the records of all files, in the
    order the files are listed — provided the format layer round-trips on plain bytes (C09). -/
theorem glob_roundtrip {Line ρ : Type} (K Kc : CodecImpl) (hK : Lawful K K) (hC : Lawful Kc K)
    (F : ReadFmt Line ρ) (items : List (List Char × AnyWriter ρ × List ρ))
    (hok : ∀ i ∈ items, NameOK i.1 (i.2.1.plainOf i.2.2))
    (hfmt : ∀ i ∈ items, (F.lines (i.2.1.plainOf i.2.2)).bind (IB.Io.readAll F.blank F.de) = some i.2.2) :
    ∃ files, items.mapM (fun i => (i.2.1.run K Kc codecTable i.1 i.2.2).map fun b => (i.1, b)) = some files ∧
      readGlob K codecTable F files = some (items.map (·.2.2)).flatten := by
  induction items with
  | nil => exact ⟨[], rfl, rfl⟩
  | cons i items ih =>
    obtain ⟨files, hf, hr⟩ := ih (fun j hj => hok j (List.mem_cons_of_mem _ hj))
      (fun j hj => hfmt j (List.mem_cons_of_mem _ hj))
    have hi := hok i List.mem_cons_self
    have hfi := hfmt i List.mem_cons_self
    refine ⟨(i.1, autoWriter (i.2.1.enc K Kc) codecTable i.1 (i.2.1.plainOf i.2.2)) :: files, ?_, ?_⟩
    · rw [List.mapM_cons, hf, every_writer_wraps]
      rfl
    · have hone : readVec K codecTable F i.1
          (autoWriter (i.2.1.enc K Kc) codecTable i.1 (i.2.1.plainOf i.2.2)) = some i.2.2 := by
        unfold readVec
        rw [transparent_file _ K (enc_lawful K Kc hK hC i.2.1) i.1 _ hi]
        exact hfi
      unfold readGlob at hr ⊢
      rw [List.mapM_cons, hone]
      cases hm : files.mapM (fun f => readVec K codecTable F f.1 f.2) with
      | none => rw [hm] at hr; simp at hr
      | some parts =>
        rw [hm] at hr
        simp only [Option.map_some, Option.some.injEq] at hr
        simp [hr]

/-! ## the registry as state: user codecs registered with `register_codec`

`regTable extra` is what `get_registry()` returns in a process that registered the codecs `extra` (in this
order, at any time, interleaved with any number of detections): `registry_builtins_first`. The theorems below
hold for EVERY `extra` — a user codec can add extensions and signatures, it can never change what happens
to a path that carries a built-in extension or to a genuine built-in stream. -/

/-- the table every detection sees after ANY sequence of registry operations in a fresh process: the
    built-in codecs first, then the registered ones in registration order (in particular a process whose
    FIRST registry operation is `register_codec` keeps all built-ins) -/
theorem registry_builtins_first (ops : List RegOp) :
    ((Registry.run codecTable none ops).get codecTable).1 = codecTable ++ registeredBy ops :=
  registry_run_get codecTable ops none

/-- operations never remove or reorder what is already there: once a detection saw `t`, every later one
    sees `t ++ (what was registered since)` -/
theorem registry_only_grows (t : List CodecEntry) (ops : List RegOp) :
    ((Registry.run codecTable (some t) ops).get codecTable).1 = t ++ registeredBy ops :=
  registry_run_get codecTable ops (some t)

/-- the extension decision for a path carrying a built-in extension is unchanged by registered codecs -/
theorem registered_keeps_extension_decision (extra : List CodecEntry) (path : List Char) (c : CodecEntry)
    (h : detectExt codecTable path = some c) : detectExt (codecTable ++ extra) path = some c :=
  detectExt_append_left h

/-- a name is neutral in the extended registry iff it carries neither a built-in nor a registered extension -/
theorem registered_neutral_iff (extra : List CodecEntry) (path : List Char) :
    detectExt (codecTable ++ extra) path = none ↔
      detectExt codecTable path = none ∧ detectExt extra path = none :=
  detectExt_append_none

theorem headLen_registered_pos (extra : List CodecEntry) : 0 < headLen (codecTable ++ extra) := by
  rw [headLen_append]
  have := headLenOK_pos table_head_len
  omega

/-- **built-in round trip with user codecs registered**: for EVERY list of registered codecs, every writer
    entry point (the cloud writer included: its chain is the built-in table), every reader entry point and
    every path carrying a BUILT-IN extension, what is written reads back as the plain serialisation. -/
theorem registered_ext_roundtrip {Line ρ : Type} (extra : List CodecEntry) (K Kc : CodecImpl)
    (hK : Lawful K K) (hC : Lawful Kc K) (F : ReadFmt Line ρ) (w : AnyWriter ρ) (r : Reader)
    (path : List Char) (c : CodecEntry) (h : detectExt codecTable path = some c) (rs : List ρ) :
    (w.run K Kc (codecTable ++ extra) path rs).bind (r.run K (codecTable ++ extra) F path) =
      r.plain F (w.plainOf rs) := by
  obtain ⟨s, _, hs⟩ := spec_of_mem_table table_magic_is_format_signature (detectExt_mem h)
  have h' := registered_keeps_extension_decision extra path c h
  have hread : ∀ E : CodecImpl, Lawful E K →
      autoReader K (codecTable ++ extra) path (E.compress c.name (w.plainOf rs)) = some (w.plainOf rs) := by
    intro E hE
    simp only [autoReader, autoReaderSrc, h', drainItems_errorFree _ (Src.full_errorFree _)]
    have := Src.full_data (E.compress c.name (w.plainOf rs))
    unfold Src.data at this
    rw [this]
    exact hE.roundtrip _ _ hs _
  rw [every_writer_wraps_any_registry, Option.bind_some, reader_decodes]
  cases hcl : w.isCloud with
  | true => simp only [if_true, autoWriter, h, hread Kc hC, Option.bind_some]
  | false => simp only [Bool.false_eq_true, if_false, autoWriter, h', hread K hK, Option.bind_some]

/-- **genuine built-in streams are still recognised**: under a name that is neutral in the extended
    registry, a genuine stream of a built-in codec is decoded, from any source without `error` faults —
    the built-in signatures are tested FIRST, whatever magic bytes user codecs declare. -/
theorem registered_neutral_signature (extra : List CodecEntry) (E K : CodecImpl) (hK : Lawful E K)
    (path : List Char) (h : detectExt (codecTable ++ extra) path = none) (n : String) (sg : Bytes)
    (hs : (n, sg) ∈ specSignatures) (x : Bytes) (s : Src) (hsf : s.ErrorFree)
    (hd : s.data = E.compress n x) :
    autoReaderSrc K (codecTable ++ extra) path s = some x := by
  obtain ⟨c, hc, hn, hm⟩ := table_of_mem_spec table_magic_is_format_signature hs
  obtain ⟨m', hm', hpos, hcap⟩ := magicSizesOK_spec table_magic_sizes hc
  rw [hm] at hm'; cases hm'
  have hle : sg.length ≤ peekLen (codecTable ++ extra) := by
    unfold peekLen
    rw [headLen_append]
    have := magic_le_headLen hc hm
    omega
  have hd' : detectMagic (codecTable ++ extra) ((E.compress n x).take (peekLen (codecTable ++ extra))) = some c :=
    detectMagic_append_left
      (detectMagic_take_eq_some table_magic_prefix_free hc hm hpos hle (hK.signed _ _ hs x))
  rw [autoReaderSrc_eq_spec K (headLen_registered_pos extra) path s hsf, hd]
  simp only [autoReaderSpec, readerCodecSpec, h, hd', hn]
  exact hK.roundtrip _ _ hs x

/-- **plain content stays verbatim**: under a name that is neutral in the extended registry, content that
    starts with no built-in signature and with no registered codec's magic bytes is returned verbatim. -/
theorem registered_neutral_verbatim (extra : List CodecEntry) (K : CodecImpl) (path : List Char)
    (h : detectExt (codecTable ++ extra) path = none) (s : Src) (hsf : s.ErrorFree)
    (hx : ∀ n sg, (n, sg) ∈ specSignatures → ¬ sg <+: s.data)
    (hu : ∀ c ∈ extra, ∀ m, c.magic = some m → ¬ m <+: s.data) :
    autoReaderSrc K (codecTable ++ extra) path s = some s.data := by
  rw [autoReaderSrc_eq_spec K (headLen_registered_pos extra) path s hsf]
  have h1 := detectMagic_none_of_no_signature s.data (peekLen (codecTable ++ extra)) hx
  have h2 : detectMagic extra (s.data.take (peekLen (codecTable ++ extra))) = none :=
    detectMagic_take_eq_none _ hu
  simp only [autoReaderSpec, readerCodecSpec, h, detectMagic_append_none h1, h2]

/-! ## non-vacuity -/

/-- the assumptions on the codecs are satisfiable: the driver's codec family meets them -/
theorem toy_lawful : Lawful toy toy := by
  constructor
  · intro n s _ x
    simp only [toy, List.isPrefixOf_iff_prefix, List.prefix_append, if_true, List.drop_left]
  · intro n s hs x
    simp only [specSignatures, List.mem_cons, Prod.mk.injEq, List.not_mem_nil, or_false] at hs
    rcases hs with ⟨rfl, rfl⟩ | ⟨rfl, rfl⟩ | ⟨rfl, rfl⟩ | ⟨rfl, rfl⟩ <;>
      exact ⟨_, by simp [toy, toyHeader, signatureOf, specSignatures, List.lookup]; rfl⟩

/-- hypotheses of `ext_roundtrip` / `ext_stored_compressed` on a concrete mixed-case path -/
example : detectExt codecTable "Data/x.jsonl.Gz".toList = some ⟨"gzip", [".gz", ".gzip"], some [0x1f, 0x8b]⟩ := by
  decide
/-- … the conclusion evaluated on it (parallel JSONL writer with 2 shards, streaming reader with 1 line per
    shard, parallel collect; records = lines `[1]`, `[2]`, `[3]`) … -/
example : ((AnyWriter.jsonl (.par (some 2) 16) id).run toy toy codecTable "x.jsonl.GZ".toList
      [[91, 49, 93], [91, 50, 93], [91, 51, 93]]).bind
    ((Reader.streaming 1 true).run toy codecTable lineJsonl "x.jsonl.GZ".toList) =
      some [[91, 49, 93], [91, 50, 93], [91, 51, 93]] := by decide
/-- … and the format hypothesis `hfmt` of `ext_roundtrip_records` / `glob_roundtrip` on the concrete line
    formats (JSONL; CSV with a header) -/
example : (lineJsonl.lines ((AnyWriter.jsonl .vec id).plainOf [[91, 49, 93], [91, 50, 93]])).bind
    (IB.Io.readAll lineJsonl.blank lineJsonl.de) = some [[91, 49, 93], [91, 50, 93]] := by decide
example : ((lineCsv true).lines ((AnyWriter.csv .vec true (withNl [110]) withNl).plainOf [[49], [50]])).bind
    (IB.Io.readAll (lineCsv true).blank (lineCsv true).de) = some [[49], [50]] := by decide
/-- hypotheses of `neutral_verbatim` on the historical witness: CSV text that starts with "BZ" -/
example : detectExt codecTable "plain.csv".toList = none ∧
    ∀ n s, (n, s) ∈ specSignatures → ¬ s <+: [0x42, 0x5a, 0x2c, 0x31, 0x0a] := by
  refine ⟨by decide, ?_⟩
  intro n s hs
  simp only [specSignatures, List.mem_cons, Prod.mk.injEq, List.not_mem_nil, or_false] at hs
  rcases hs with ⟨_, rfl⟩ | ⟨_, rfl⟩ | ⟨_, rfl⟩ | ⟨_, rfl⟩ <;>
    (rw [← List.isPrefixOf_iff_prefix]; decide)
/-- a case variant in the sense of `ext_case_insensitive` -/
example : ".bZiP2".toList ∈ caseVariants ".bzip2".toList := by decide
/-- `neutral_signature_raw` on a source that delivers its first three bytes one by one, with an
    `Interrupted` fault after the first byte (`ErrorFree`, so the hypothesis is met) -/
example : errorFree (.byte 0xfd :: .fault .interrupted :: ((toy.compress "xz" [1, 2, 3]).drop 1).map .byte) = true ∧
    autoReaderSrc toy codecTable "x.dat".toList
      ⟨.byte 0xfd :: .fault .interrupted :: ((toy.compress "xz" [1, 2, 3]).drop 1).map .byte, [0, 0, 0]⟩ =
        some [1, 2, 3] := by
  decide
/-- `source_error_in_head_is_reported` on a gzip stream whose source fails once after the first byte -/
example : autoReaderSrc toy codecTable "x.dat".toList
      ⟨.byte 0x1f :: .fault .error :: ((toy.compress "gzip" [1, 2, 3]).drop 1).map .byte, []⟩ = none := by
  decide
/-- `glob_roundtrip` evaluated: a gzip file, a plain file and a zstd file side by side -/
example : readGlob toy codecTable lineJsonl
    [("d/a.jsonl.gz".toList, writeJsonlVec toy codecTable id "d/a.jsonl.gz".toList [[49]]),
     ("d/b.jsonl".toList, writeJsonlVec toy codecTable id "d/b.jsonl".toList [[50]]),
     ("d/c.JSONL.ZST".toList, writeJsonlVec toy codecTable id "d/c.JSONL.ZST".toList [[51]])] =
    some [[49], [50], [51]] := by decide

/-- the user codecs the harness's registry child registers: one with magic bytes, one without, one whose
    extension `z` is a suffix of `.gz` / `.xz` and whose magic `1f` is a prefix of gzip's (it would shadow
    built-ins if it came first: registry ORDER is what `registered_*` rest on) -/
def userCodecs : List CodecEntry :=
  [⟨"noop", [".noop"], some [0xff, 0xfe]⟩, ⟨"rot", [".rot", ".myext"], none⟩, ⟨"zed", ["z"], some [0x1f]⟩]

/-- `registry_builtins_first` evaluated for a process whose FIRST registry operation is `register_codec` -/
example : (((Registry.run codecTable none
      [.register userCodecs[0], .get, .register userCodecs[1], .register userCodecs[2]]).get codecTable).1).map (·.name) =
    ["gzip", "zstd", "bzip2", "xz", "noop", "rot", "zed"] := by decide
/-- `registered_keeps_extension_decision` / `registered_neutral_signature` evaluated where order matters:
    `x.gz` stays gzip although `zed`'s extension `z` is a suffix of it, a gzip stream under a neutral name stays
    gzip although `zed`'s magic `1f` is a prefix of gzip's -/
example : (detectExt (codecTable ++ userCodecs) "x.gz".toList).map (·.name) = some "gzip" ∧
    (readerCodec (codecTable ++ userCodecs) "x.dat".toList
      ((toyIn (codecTable ++ userCodecs)).compress "gzip" [1, 2, 3])).map (·.name) = some "gzip" ∧
    (readerCodec (userCodecs ++ codecTable) "x.dat".toList
      ((toyIn (codecTable ++ userCodecs)).compress "gzip" [1, 2, 3])).map (·.name) = some "zed" := by decide
/-- `registered_ext_roundtrip` evaluated (local parallel writer, user codecs registered) … -/
example : ((AnyWriter.jsonl (.par (some 2) 16) id).run (toyIn (codecTable ++ userCodecs))
      (toyIn (codecTable ++ userCodecs)) (codecTable ++ userCodecs) "x.jsonl.zst".toList [[49], [50]]).bind
    (Reader.vec.run (toyIn (codecTable ++ userCodecs)) (codecTable ++ userCodecs) lineJsonl "x.jsonl.zst".toList) =
      some [[49], [50]] := by decide
/-- … and a user codec's own extension round-trips through the LOCAL entry points -/
example : ((AnyWriter.jsonl .vec id).run (toyIn (codecTable ++ userCodecs))
      (toyIn (codecTable ++ userCodecs)) (codecTable ++ userCodecs) "x.jsonl.noop".toList [[49], [50]]).bind
    (Reader.vec.run (toyIn (codecTable ++ userCodecs)) (codecTable ++ userCodecs) lineJsonl "x.jsonl.noop".toList) =
      some [[49], [50]] := by decide

/-- the hypothesis `hu` of `registered_neutral_verbatim` is necessary: a registered codec whose magic is the
    byte `{` takes every JSON object under a neutral name for its own format (the property's exception
    "unless it really begins with a codec's format signature", applied to a user codec) -/
theorem user_magic_shadows_text :
    (readerCodec (codecTable ++ [⟨"brace", [".brace"], some [0x7b]⟩]) "x.jsonl".toList
      [0x7b, 0x22, 0x61, 0x22, 0x3a, 0x31, 0x7d, 0x0a]).map (·.name) = some "brace" ∧
    (readerCodec codecTable "x.jsonl".toList [0x7b, 0x22, 0x61, 0x22, 0x3a, 0x31, 0x7d, 0x0a]) = none := by
  decide

/-- NOT covered by the property (it speaks of the built-in codecs), recorded because the model shows it:
    `write_cloud_jsonl_vec` never consults the registry, `read_cloud_jsonl_vec` does — an object written under
    a REGISTERED codec's extension is stored plain and then fed to that codec's decoder. The local writers
    round-trip (example above). -/
theorem cloud_writer_ignores_registered_codecs :
    (AnyWriter.jsonl .cloud id).run (toyIn (codecTable ++ userCodecs)) (toyIn (codecTable ++ userCodecs))
      (codecTable ++ userCodecs) "k.jsonl.noop".toList [[49]] = some [49, 10] ∧
    ((AnyWriter.jsonl .cloud id).run (toyIn (codecTable ++ userCodecs)) (toyIn (codecTable ++ userCodecs))
      (codecTable ++ userCodecs) "k.jsonl.noop".toList [[49]]).bind
      (Reader.cloud.run (toyIn (codecTable ++ userCodecs)) (codecTable ++ userCodecs) lineJsonl
        "k.jsonl.noop".toList) = none := by
  decide

/-! ## the pinned commit: negation witnesses (what the check guards against) -/

/-- at `a2588b9` the table obligation was false: bzip2's magic was only "BZ" -/
theorem legacy_table_magic_not_signature : tableMagicOK Legacy.codecTable = false := by decide

/-- … so CSV text starting with "BZ" under a neutral name was decoded as bzip2 and could not be read,
    although it does not start with bzip2's signature "BZh" (negation of `neutral_verbatim`). -/
theorem legacy_bz_text_misdetected :
    (readerCodec Legacy.codecTable "plain.csv".toList [0x42, 0x5a, 0x2c, 0x31, 0x0a]).map (·.name) = some "bzip2" ∧
    Reader.vec.run toy Legacy.codecTable (lineCsv false) "plain.csv".toList [0x42, 0x5a, 0x2c, 0x31, 0x0a] = none ∧
    Reader.vec.run toy codecTable (lineCsv false) "plain.csv".toList [0x42, 0x5a, 0x2c, 0x31, 0x0a] =
      some [[0x42, 0x5a, 0x2c, 0x31]] := by
  decide

/-- at `a2588b9` the free parallel writers (and `PCollection::write_jsonl_par`) stored the plain
    serialisation under ANY name, for all data and shard counts: `every_writer_wraps` is false for the
    pinned definitions … -/
theorem legacy_par_writers_store_plain {ρ : Type} (K Kc : CodecImpl) (tbl : List CodecEntry) (ser : ρ → Bytes)
    (hdr : Bool) (header : Bytes) (path : List Char) (rs : List ρ) (sh : Option Nat) (a : Nat) :
    Legacy.JWriter.run K Kc tbl ser (.par sh a) path rs = some (jsonlPlain ser rs) ∧
    Legacy.JWriter.run K Kc tbl ser (.pcPar sh a) path rs = some (jsonlPlain ser rs) ∧
    Legacy.CWriter.run K tbl hdr header ser (.par sh a) path rs = some (csvPlain hdr header ser rs) := by
  have hj : Legacy.writeJsonlPar ser rs sh a = some (jsonlPlain ser rs) := by
    have h := writeJsonlPar_eq ⟨fun _ x => x, fun _ x => some x⟩ [] ser path rs sh a
    unfold writeJsonlPar writeJsonlVec autoWriter detectExt at h
    unfold Legacy.writeJsonlPar
    split
    · next h0 =>
      have : rs = [] := List.eq_nil_of_length_eq_zero h0
      subst this; rfl
    · next h0 => simpa [h0] using h
  have hc : Legacy.writeCsvPar hdr header ser rs sh a = some (csvPlain hdr header ser rs) := by
    have h := writeCsvPar_eq ⟨fun _ x => x, fun _ x => some x⟩ [] hdr header ser path rs sh a
    unfold writeCsvPar writeCsvVec autoWriter detectExt at h
    unfold Legacy.writeCsvPar
    split
    · next h0 =>
      have : rs = [] := List.eq_nil_of_length_eq_zero h0
      subst this
      cases hdr <;> simp [csvPlain, IB.Io.csvWrite]
    · next h0 => simpa [h0] using h
  exact ⟨hj, hj, hc⟩

/-- … so `x.jsonl.gz` written by `write_jsonl_par` did not start with the gzip signature and could not
    be read back (negation of `ext_stored_compressed` / `ext_roundtrip`); the current model round-trips. -/
theorem legacy_par_writer_unreadable :
    Legacy.JWriter.run toy toy codecTable id (.par (some 2) 16) "x.jsonl.gz".toList [[91, 49, 93], [91, 50, 93]] =
      some [91, 49, 93, 10, 91, 50, 93, 10] ∧
    (Legacy.JWriter.run toy toy codecTable id (.par (some 2) 16) "x.jsonl.gz".toList [[91, 49, 93], [91, 50, 93]]).bind
      (Reader.vec.run toy codecTable lineJsonl "x.jsonl.gz".toList) = none ∧
    (JWriter.run toy toy codecTable id (.par (some 2) 16) "x.jsonl.gz".toList [[91, 49, 93], [91, 50, 93]]).bind
      (Reader.vec.run toy codecTable lineJsonl "x.jsonl.gz".toList) = some [[91, 49, 93], [91, 50, 93]] := by
  decide

/-- at `a2588b9` the cloud writer chose the codec from `Path::extension`, the reader by suffix: the key
    `dir/.gz` was written plain and then fed to the gzip decoder. -/
theorem legacy_cloud_dotfile_key :
    Legacy.cloudWriterCodec "dir/.gz".toList = none ∧
    (detectExt codecTable "dir/.gz".toList).map (·.name) = some "gzip" ∧
    (Legacy.JWriter.run toy toy codecTable id .cloud "dir/.gz".toList [[91, 49, 93]]).bind
      (Reader.cloud.run toy codecTable lineJsonl "dir/.gz".toList) = none ∧
    (JWriter.run toy toy codecTable id .cloud "dir/.gz".toList [[91, 49, 93]]).bind
      (Reader.cloud.run toy codecTable lineJsonl "dir/.gz".toList) = some [[91, 49, 93]] := by
  decide

/-- before the short-read `fix:` commit ONE `fill_buf()` decided: a genuine gzip stream under a neutral
    name, delivered by a source whose first read returns a single byte, was passed through undetected
    (negation of `neutral_signature_raw` / `detection_independent_of_read_schedule`); on a `File` the
    pinned code did detect it, and the current model detects it for every schedule. -/
theorem legacy_short_first_read_undetected :
    Legacy.readerCodecSrc codecTable "x.dat".toList (Src.chunked (toy.compress "gzip" [1, 2, 3]) [0]) = none ∧
    Legacy.autoReaderSrc toy codecTable "x.dat".toList (Src.chunked (toy.compress "gzip" [1, 2, 3]) [0]) =
      some (toy.compress "gzip" [1, 2, 3]) ∧
    Legacy.autoReaderSrc toy codecTable "x.dat".toList (Src.chunked (toy.compress "gzip" [1, 2, 3]) []) =
      some [1, 2, 3] ∧
    autoReaderSrc toy codecTable "x.dat".toList (Src.chunked (toy.compress "gzip" [1, 2, 3]) [0]) =
      some [1, 2, 3] := by
  decide

/-- `read_head` of `71bba51` stopped at a source error and dropped it: a genuine gzip stream under a neutral
    name whose source fails ONCE after the first byte (a time-out on a socket, say) and then delivers the
    rest was handed on UNDECODED, with no error reported — neither "recognised by its signature" nor
    `none` (negation of `source_faults_never_silent`); the current model reports the error, and decodes the
    same stream when the fault is an `Interrupted`. -/
theorem legacy_source_error_swallowed :
    Legacy.autoReaderSrcSwallow toy codecTable "x.dat".toList
      ⟨.byte 0x1f :: .fault .error :: ((toy.compress "gzip" [1, 2, 3]).drop 1).map .byte, []⟩ =
        some (toy.compress "gzip" [1, 2, 3]) ∧
    autoReader toy codecTable "x.dat".toList (toy.compress "gzip" [1, 2, 3]) = some [1, 2, 3] ∧
    autoReaderSrc toy codecTable "x.dat".toList
      ⟨.byte 0x1f :: .fault .error :: ((toy.compress "gzip" [1, 2, 3]).drop 1).map .byte, []⟩ = none ∧
    autoReaderSrc toy codecTable "x.dat".toList
      ⟨.byte 0x1f :: .fault .interrupted :: ((toy.compress "gzip" [1, 2, 3]).drop 1).map .byte, []⟩ =
        some [1, 2, 3] := by
  decide

end IB.Compression
