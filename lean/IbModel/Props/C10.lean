import IbModel.Model.CompressionTable
import IbModel.Proofs.Compression
/-!
# C10 — compression is transparent and format detection is sound

Property theorems about `IB.Compression` (model of `src/io/compression.rs` and of every reader / writer
entry point that goes through it), instantiated on `codecTable` = the registry of the RUNNING code
(`Generated/Tables.lean`, re-dumped on every run).

The codecs themselves are abstract (`CodecImpl`); what is assumed about them is the structure `Lawful`
(a hypothesis of the theorems, never an axiom): decompress ∘ compress = id and "the compressed stream
starts with the format's true signature" (`specSignatures`). `toy_lawful` shows the hypotheses are
satisfiable; the harness validates them for the real libraries on every generated payload.
-/
namespace IB.Compression

/-- what is assumed of the third-party codecs -/
structure Lawful (K : CodecImpl) : Prop where
  roundtrip : ∀ n s, (n, s) ∈ specSignatures → ∀ x, K.decompress n (K.compress n x) = some x
  signed : ∀ n s, (n, s) ∈ specSignatures → ∀ x, s <+: K.compress n x

/-! ## table obligations — decided on the table dumped from the running registry -/

/-- every registered codec's magic bytes ARE the format's true signature
    {gzip `1f 8b`, zstd `28 b5 2f fd`, bzip2 `42 5a 68` ("BZh"), xz `fd 37 7a 58 5a 00`} -/
theorem table_magic_is_format_signature : tableMagicOK codecTable = true := by decide

/-- the magic byte strings are pairwise prefix-free (no content can match two codecs) -/
theorem table_magic_prefix_free : magicPrefixFree codecTable = true := by decide

/-- every magic is non-empty and fits into the peeked buffer -/
theorem table_magic_sizes : magicSizesOK codecTable = true := by decide

/-- extensions are lower-case ASCII and begin with a dot (an upper-case extension could never match) -/
theorem table_exts_wellformed : extsWellFormed codecTable = true := by decide

/-- no extension of one codec is a suffix of an extension of another -/
theorem table_exts_suffix_free : extsSuffixFree codecTable = true := by decide

/-- the cloud writer's hard-coded chain lists the same codecs and extensions as the registry -/
theorem table_cloud_chain_agrees : cloudChainOK codecTable = true := by decide

/-- all spellings of an extension that differ only in ASCII letter case -/
def caseVariants : List Char → List (List Char)
  | [] => [[]]
  | c :: cs => (caseVariants cs).flatMap fun v => [c :: v, c.toUpper :: v]

/-- lower-casing maps every case variant of every registered extension back to the extension -/
def caseVariantsOK (tbl : List CodecEntry) : Bool :=
  tbl.all fun c => c.exts.all fun e => (caseVariants e.toList).all fun v => lowerPath v == e.toList

theorem table_case_variants_lower : caseVariantsOK codecTable = true := by decide

/-! ## internal steps -/

theorem store_of_ext {K : CodecImpl} {tbl : List CodecEntry} (hcc : cloudChainOK tbl = true)
    {path : List Char} {c : CodecEntry} (h : detectExt tbl path = some c) (w : Writer) (x : Bytes) :
    store K tbl w path x = K.compress c.name x := by
  cases w <;> simp [store, autoWriter, cloudWriter, cloudWriterCodec_eq hcc, h]

theorem store_of_neutral {K : CodecImpl} {tbl : List CodecEntry} (hcc : cloudChainOK tbl = true)
    {path : List Char} (h : detectExt tbl path = none) (w : Writer) (x : Bytes) :
    store K tbl w path x = x := by
  cases w <;> simp [store, autoWriter, cloudWriter, cloudWriterCodec_eq hcc, h]

theorem load_eq_autoReader (K : CodecImpl) (tbl : List CodecEntry) (r : Reader) (path : List Char)
    (f : Bytes) : load K tbl r path f = autoReader K tbl path f := by
  cases r <;> simp only [load] <;> cases autoReader K tbl path f <;> rfl

/-! ## data under a codec extension -/

/-- **stored compressed**: through every writer entry point, data written to a path that carries a
    codec's extension is stored as that codec's stream, which starts with the format's true signature. -/
theorem ext_stored_compressed (K : CodecImpl) (hK : Lawful K) (w : Writer) (path : List Char)
    (c : CodecEntry) (h : detectExt codecTable path = some c) (x : Bytes) :
    store K codecTable w path x = K.compress c.name x ∧
      ∃ s, (c.name, s) ∈ specSignatures ∧ s <+: store K codecTable w path x := by
  obtain ⟨s, _, hs⟩ := spec_of_mem_table table_magic_is_format_signature (detectExt_mem h)
  have hst := store_of_ext (K := K) table_cloud_chain_agrees h w x
  exact ⟨hst, s, hs, hst ▸ hK.signed _ _ hs x⟩

/-- **ext_roundtrip**: for EVERY writer entry point, EVERY reader entry point and EVERY path carrying a
    codec extension, what is written reads back byte-identical. -/
theorem ext_roundtrip (K : CodecImpl) (hK : Lawful K) (w : Writer) (r : Reader) (path : List Char)
    (c : CodecEntry) (h : detectExt codecTable path = some c) (x : Bytes) :
    load K codecTable r path (store K codecTable w path x) = some x := by
  obtain ⟨s, _, hs⟩ := spec_of_mem_table table_magic_is_format_signature (detectExt_mem h)
  rw [store_of_ext table_cloud_chain_agrees h, load_eq_autoReader]
  simp only [autoReader, readerCodec, h]
  exact hK.roundtrip _ _ hs x

/-- record level: with any serialiser / parser pair of the format layer that round-trips on plain bytes
    (property C09), records written under a codec extension read back identical. -/
theorem ext_roundtrip_records {ρ : Type} (K : CodecImpl) (hK : Lawful K) (ser : List ρ → Bytes)
    (de : Bytes → Option (List ρ)) (hfmt : ∀ rs, de (ser rs) = some rs) (w : Writer) (r : Reader)
    (path : List Char) (c : CodecEntry) (h : detectExt codecTable path = some c) (rs : List ρ) :
    readRecs K codecTable de r path (writeRecs K codecTable ser w path rs) = some rs := by
  unfold readRecs writeRecs
  rw [ext_roundtrip K hK w r path c h]
  exact hfmt rs

/-- **case-insensitive**: a path that ends with ANY upper/lower-case spelling of a codec's extension is
    detected as that codec — by the writer and by the reader, whatever precedes the extension. -/
theorem ext_case_insensitive (stem : List Char) (c : CodecEntry) (hc : c ∈ codecTable) (e : String)
    (he : e ∈ c.exts) (v : List Char) (hv : v ∈ caseVariants e.toList) :
    detectExt codecTable (stem ++ v) = some c := by
  have hl : lowerPath v = e.toList := by
    have := List.all_eq_true.mp (List.all_eq_true.mp (List.all_eq_true.mp table_case_variants_lower c hc) e he) v hv
    exact eq_of_beq this
  apply detectExt_eq_some table_exts_suffix_free hc he
  unfold lowerPath at hl ⊢
  rw [List.flatMap_append, hl]
  exact List.suffix_append _ _

/-- the directory part of a path never influences detection: `sub.gz/x.jsonl` is a neutral name and
    `/tmp/anything/x.jsonl.gz` is detected exactly as `x.jsonl.gz` (what the harness relies on when it
    sends paths relative to its temp directory) -/
theorem detect_dir_irrelevant (dir name : List Char) :
    detectExt codecTable (dir ++ '/' :: name) = detectExt codecTable name :=
  detectExt_dir_irrelevant table_exts_wellformed dir name

/-- detection looks at the lower-cased path only -/
theorem detectExt_lower_congr (tbl : List CodecEntry) (p q : List Char) (h : lowerPath p = lowerPath q) :
    detectExt tbl p = detectExt tbl q := by
  unfold detectExt; rw [h]

/-! ## data under a neutral name -/

/-- **neutral, writer side**: no codec extension ⇒ every writer entry point stores the bytes verbatim -/
theorem neutral_stored_verbatim (K : CodecImpl) (w : Writer) (path : List Char)
    (h : detectExt codecTable path = none) (x : Bytes) : store K codecTable w path x = x :=
  store_of_neutral table_cloud_chain_agrees h w x

/-- **neutral_verbatim**: no codec extension ∧ the content does not start with a true format signature
    ⇒ every reader entry point returns the content verbatim (for ANY codec implementation). -/
theorem neutral_verbatim (K : CodecImpl) (r : Reader) (path : List Char)
    (h : detectExt codecTable path = none) (x : Bytes)
    (hx : ∀ n s, (n, s) ∈ specSignatures → ¬ s <+: x) :
    load K codecTable r path x = some x := by
  have hm : detectMagic codecTable x = none := by
    apply detectMagic_eq_none
    intro c hc m hm hp
    obtain ⟨s, hs, hmem⟩ := spec_of_mem_table table_magic_is_format_signature hc
    rw [hm] at hs; cases hs
    exact hx _ _ hmem hp
  rw [load_eq_autoReader]
  simp only [autoReader, readerCodec, h, hm]

/-- whole trip under a neutral name -/
theorem neutral_roundtrip (K : CodecImpl) (w : Writer) (r : Reader) (path : List Char)
    (h : detectExt codecTable path = none) (x : Bytes)
    (hx : ∀ n s, (n, s) ∈ specSignatures → ¬ s <+: x) :
    load K codecTable r path (store K codecTable w path x) = some x := by
  rw [neutral_stored_verbatim K w path h]
  exact neutral_verbatim K r path h x hx

/-- ordinary JSON / CSV / text: content whose first byte is none of `1f`, `28`, `42` ('B'), `fd` (and
    empty content) is never taken for compressed data. JSON Lines always qualifies. -/
theorem text_never_misdetected (K : CodecImpl) (r : Reader) (path : List Char)
    (h : detectExt codecTable path = none) (x : Bytes)
    (hx : ∀ b, x.head? = some b → b ∉ [0x1f, 0x28, 0x42, 0xfd]) :
    load K codecTable r path x = some x := by
  apply neutral_verbatim K r path h x
  intro n s hs hp
  cases x with
  | nil =>
    simp only [specSignatures, List.mem_cons, Prod.mk.injEq, List.not_mem_nil, or_false] at hs
    rcases hs with ⟨_, rfl⟩ | ⟨_, rfl⟩ | ⟨_, rfl⟩ | ⟨_, rfl⟩ <;> simp at hp
  | cons b t =>
    have hb := hx b rfl
    simp only [specSignatures, List.mem_cons, Prod.mk.injEq, List.not_mem_nil, or_false] at hs
    rcases hs with ⟨_, rfl⟩ | ⟨_, rfl⟩ | ⟨_, rfl⟩ | ⟨_, rfl⟩ <;>
      (obtain ⟨u, hu⟩ := hp; simp only [List.cons_append, List.cons.injEq] at hu; simp [← hu.1] at hb)

/-- pure ASCII text (every byte < 0x80) under a neutral name is taken for compressed data ONLY if it
    literally starts with the three characters "BZh" — the case the property itself excepts. -/
theorem ascii_text_misdetected_only_if_BZh (K : CodecImpl) (r : Reader) (path : List Char)
    (h : detectExt codecTable path = none) (x : Bytes) (hascii : ∀ b ∈ x, b < 128)
    (hbzh : ¬ [0x42, 0x5a, 0x68] <+: x) : load K codecTable r path x = some x := by
  apply neutral_verbatim K r path h x
  intro n s hs hp
  simp only [specSignatures, List.mem_cons, Prod.mk.injEq, List.not_mem_nil, or_false] at hs
  rcases hs with ⟨_, rfl⟩ | ⟨_, rfl⟩ | ⟨_, rfl⟩ | ⟨_, rfl⟩
  · exact absurd (hascii 0x8b (hp.subset (by simp))) (by decide)
  · exact absurd (hascii 0xb5 (hp.subset (by simp))) (by decide)
  · exact hbzh hp
  · exact absurd (hascii 0xfd (hp.subset (by simp))) (by decide)

/-- **neutral_signature**: genuinely compressed content under a neutral name is recognised by its
    signature and decoded, through every reader entry point. -/
theorem neutral_signature (K : CodecImpl) (hK : Lawful K) (r : Reader) (path : List Char)
    (h : detectExt codecTable path = none) (n : String) (s : Bytes) (hs : (n, s) ∈ specSignatures)
    (x : Bytes) : load K codecTable r path (K.compress n x) = some x := by
  obtain ⟨c, hc, hn, hm⟩ := table_of_mem_spec table_magic_is_format_signature hs
  have hd : detectMagic codecTable (K.compress n x) = some c :=
    detectMagic_eq_some table_magic_prefix_free table_magic_sizes hc hm (hK.signed _ _ hs x)
  rw [load_eq_autoReader]
  simp only [autoReader, readerCodec, h, hd, hn]
  exact hK.roundtrip _ _ hs x

/-- detection by content is exact: under a neutral name the reader decodes with codec `c` iff the
    content starts with `c`'s true signature. -/
theorem neutral_reader_codec_iff (path : List Char) (h : detectExt codecTable path = none) (x : Bytes)
    (c : CodecEntry) (hc : c ∈ codecTable) :
    readerCodec codecTable path x = some c ↔ ∃ s, (c.name, s) ∈ specSignatures ∧ c.magic = some s ∧ s <+: x := by
  obtain ⟨s, hm, hmem⟩ := spec_of_mem_table table_magic_is_format_signature hc
  simp only [readerCodec, h]
  constructor
  · intro hd
    refine ⟨s, hmem, hm, ?_⟩
    unfold detectMagic at hd
    dsimp only at hd
    split at hd
    · cases hd
    · obtain ⟨m, hm', hp⟩ := magicMatches_iff.mp (List.find?_some hd)
      rw [hm] at hm'; cases hm'
      exact hp.trans (List.take_prefix _ _)
  · rintro ⟨s', _, hm', hp⟩
    exact detectMagic_eq_some table_magic_prefix_free table_magic_sizes hc hm' hp

/-! ## non-vacuity -/

/-- the assumptions on the codecs are satisfiable: the driver's codec family meets them -/
theorem toy_lawful : Lawful toy := by
  constructor
  · intro n s _ x
    simp only [toy, List.isPrefixOf_iff_prefix, List.prefix_append, if_true, List.drop_left]
  · intro n s hs x
    simp only [specSignatures, List.mem_cons, Prod.mk.injEq, List.not_mem_nil, or_false] at hs
    rcases hs with ⟨rfl, rfl⟩ | ⟨rfl, rfl⟩ | ⟨rfl, rfl⟩ | ⟨rfl, rfl⟩ <;>
      exact ⟨_, by simp [toy, toyHeader, signatureOf, specSignatures, List.lookup]; rfl⟩

/-- hypotheses of `ext_roundtrip` / `ext_stored_compressed` on a concrete mixed-case path -/
example : detectExt codecTable "Data/x.jsonl.Gz".toList = some ⟨"gzip", [".gz", ".gzip"], some [0x1f, 0x8b]⟩ := by
  decide
/-- … and the conclusion evaluated on it (parallel JSONL writer, streaming reader) -/
example : load toy codecTable .jsonlStreaming "x.jsonl.GZ".toList
    (store toy codecTable .jsonlPar "x.jsonl.GZ".toList [91, 49, 93, 10]) = some [91, 49, 93, 10] := by decide
/-- hypotheses of `neutral_verbatim` on the historical witness: CSV text that starts with "BZ" -/
example : detectExt codecTable "plain.csv".toList = none ∧
    ∀ n s, (n, s) ∈ specSignatures → ¬ s <+: [0x42, 0x5a, 0x2c, 0x31, 0x0a] := by
  refine ⟨by decide, ?_⟩
  intro n s hs
  simp only [specSignatures, List.mem_cons, Prod.mk.injEq, List.not_mem_nil, or_false] at hs
  rcases hs with ⟨_, rfl⟩ | ⟨_, rfl⟩ | ⟨_, rfl⟩ | ⟨_, rfl⟩ <;>
    (rw [← List.isPrefixOf_iff_prefix]; decide)
/-- a case variant in the sense of `ext_case_insensitive` -/
example : ".bZiP2".toList ∈ caseVariants ".bzip2".toList := by decide

/-! ## the pinned commit: negation witnesses (what the check guards against) -/

/-- at `a2588b9` the table obligation was false: bzip2's magic was only "BZ" -/
theorem legacy_table_magic_not_signature : tableMagicOK Legacy.codecTable = false := by decide

/-- … so CSV text starting with "BZ" under a neutral name was decoded as bzip2 and could not be read,
    although it does not start with bzip2's signature "BZh" (negation of `neutral_verbatim`). -/
theorem legacy_bz_text_misdetected :
    (readerCodec Legacy.codecTable "plain.csv".toList [0x42, 0x5a, 0x2c, 0x31, 0x0a]).map (·.name) = some "bzip2" ∧
    load toy Legacy.codecTable .csvVec "plain.csv".toList [0x42, 0x5a, 0x2c, 0x31, 0x0a] = none ∧
    load toy codecTable .csvVec "plain.csv".toList [0x42, 0x5a, 0x2c, 0x31, 0x0a] = some [0x42, 0x5a, 0x2c, 0x31, 0x0a] := by
  decide

/-- at `a2588b9` the free parallel writers stored the plain bytes under any name … -/
theorem legacy_par_writers_store_plain (K : CodecImpl) (tbl : List CodecEntry) (path : List Char) (x : Bytes) :
    Legacy.store K tbl .jsonlPar path x = x ∧ Legacy.store K tbl .csvPar path x = x ∧
      Legacy.store K tbl .pcJsonlPar path x = x := ⟨rfl, rfl, rfl⟩

/-- … so `x.jsonl.gz` written by `write_jsonl_par` did not start with the gzip signature and could not
    be read back (negation of `ext_stored_compressed` / `ext_roundtrip`); the current model round-trips. -/
theorem legacy_par_writer_unreadable :
    Legacy.store toy codecTable .jsonlPar "x.jsonl.gz".toList [91, 49, 93, 10] = [91, 49, 93, 10] ∧
    load toy codecTable .jsonlVec "x.jsonl.gz".toList
      (Legacy.store toy codecTable .jsonlPar "x.jsonl.gz".toList [91, 49, 93, 10]) = none ∧
    load toy codecTable .jsonlVec "x.jsonl.gz".toList
      (store toy codecTable .jsonlPar "x.jsonl.gz".toList [91, 49, 93, 10]) = some [91, 49, 93, 10] := by
  decide

/-- at `a2588b9` the cloud writer chose the codec from `Path::extension`, the reader by suffix: the key
    `dir/.gz` was written plain and then fed to the gzip decoder. -/
theorem legacy_cloud_dotfile_key :
    Legacy.cloudWriterCodec "dir/.gz".toList = none ∧
    (detectExt codecTable "dir/.gz".toList).map (·.name) = some "gzip" ∧
    load toy codecTable .cloudJsonl "dir/.gz".toList
      (Legacy.store toy codecTable .cloudJsonl "dir/.gz".toList [91, 49, 93, 10]) = none ∧
    load toy codecTable .cloudJsonl "dir/.gz".toList
      (store toy codecTable .cloudJsonl "dir/.gz".toList [91, 49, 93, 10]) = some [91, 49, 93, 10] := by
  decide

end IB.Compression
