import IbModel.Model.CompressionTable
import IbModel.Proofs.Compression
/-!
# C10 — compression is transparent and format detection is sound

Property theorems about `IB.Compression` (model of `src/io/compression.rs` and of every reader / writer
entry point that goes through it), instantiated on `codecTable` = the registry of the RUNNING code
(`Generated/Tables.lean`, re-dumped on every run).

* Every entry point has its OWN model definition mirroring its Rust body (`writeJsonlPar` = plain part
  files, concatenated into a final file that is opened through `autoWriter`; `readStreaming` = one
  `autoReader` for the count pass and one more per shard; …). That "every entry point passes its data
  through the compression layer" is therefore a THEOREM about those definitions (`every_writer_wraps`,
  `every_reader_decodes`), and it is FALSE for the definitions of the pinned commit (`legacy_*`).
* A reader source is a `Src` = bytes + read schedule (how many bytes each `read` call returns);
  detection is proved independent of the schedule (`detection_independent_of_read_schedule`), which was
  false before the `fix:` commit (`legacy_short_first_read_undetected`).
* The codecs themselves are abstract (`CodecImpl`); what is assumed about them is the structure `Lawful`
  (a hypothesis of the theorems, never an axiom): decompress ∘ compress = id and "the compressed stream
  starts with the format's true signature" (`specSignatures`). `toy_lawful` shows the hypotheses are
  satisfiable; the harness validates them for the real libraries on every generated payload.
* The format layer (serde_json / csv / lines, shard arithmetic) is a parameter; the theorems reduce every
  compressed round trip to what the SAME entry points do on a plain stream (`Reader.plain`), which is
  the subject of C09 (`reader_plain_eq_readAll`).

NOT covered: the Parquet entry points (`write_parquet_vec`, `PCollection::write_parquet`,
`read_parquet_*`) never consult the codec registry (Parquet has its own internal page compression), so a
name like `x.parquet.gz` is written as a plain Parquet file; the property's entry-point list
{`write_*_vec`, `write_*_par`, PCollection writers, streaming readers, cloud readers/writers} is read
here as the JSONL / CSV / cloud-JSONL ones.
-/
namespace IB.Compression

/-- what is assumed of the third-party codecs -/
structure Lawful (K : CodecImpl) : Prop where
  roundtrip : ∀ n s, (n, s) ∈ specSignatures → ∀ x, K.decompress n (K.compress n x) = some x
  signed : ∀ n s, (n, s) ∈ specSignatures → ∀ x, s <+: K.compress n x

/-! ## table obligations — decided on the table dumped from the running registry -/

/-- every registered codec's magic bytes ARE the format's true signature
    {gzip `1f 8b`, zstd `28 b5 2f fd`, bzip2 `42 5a 68` ("BZh"), xz `fd 37 7a 58 5a 00`} -/
theorem table_magic_is_format_signature : tableMagicOK codecTable = true := by decide

/-- the magic byte strings are pairwise prefix-free (no content can match two codecs) -/
theorem table_magic_prefix_free : magicPrefixFree codecTable = true := by decide

/-- every magic is non-empty and fits into the peeked buffer -/
theorem table_magic_sizes : magicSizesOK codecTable = true := by decide

/-- the number of leading bytes `auto_detect_reader` collects (the longest signature) is positive and
    fits the `BufReader` -/
theorem table_head_len : headLenOK codecTable = true := by decide

/-- extensions are lower-case ASCII and begin with a dot (an upper-case extension could never match) -/
theorem table_exts_wellformed : extsWellFormed codecTable = true := by decide

/-- no extension of one codec is a suffix of an extension of another -/
theorem table_exts_suffix_free : extsSuffixFree codecTable = true := by decide

/-- the cloud writer's hard-coded chain lists the same codecs and extensions as the registry -/
theorem table_cloud_chain_agrees : cloudChainOK codecTable = true := by decide

/-- all spellings of an extension that differ only in ASCII letter case -/
def caseVariants : List Char → List (List Char)
  | [] => [[]]
  | c :: cs => (caseVariants cs).flatMap fun v => [c :: v, c.toUpper :: v]

/-- lower-casing maps every case variant of every registered extension back to the extension -/
def caseVariantsOK (tbl : List CodecEntry) : Bool :=
  tbl.all fun c => c.exts.all fun e => (caseVariants e.toList).all fun v => lowerPath v == e.toList

theorem table_case_variants_lower : caseVariantsOK codecTable = true := by decide

/-! ## every entry point goes through the compression layer -/

/-- **every writer wraps**: each JSONL / CSV writer entry point — sequential, parallel (any shard
    count), PCollection, cloud object — stores exactly `autoWriter path (the plain serialisation)`: the
    bytes the sequential writer of the format emits, pushed through `auto_detect_writer` ONCE, as one
    stream. A theorem about the per-entry-point definitions (shard slicing, part files, buffers, the
    cloud writer's own extension chain), not a definition. -/
theorem every_writer_wraps {ρ : Type} (K : CodecImpl) (w : AnyWriter ρ) (path : List Char) (rs : List ρ) :
    w.run K codecTable path rs = some (autoWriter K codecTable path (w.plainOf rs)) := by
  cases w with
  | jsonl w ser =>
    cases w with
    | vec => rfl
    | pc => rfl
    | par sh a => exact writeJsonlPar_eq K codecTable ser path rs sh a
    | pcPar sh a => exact writeJsonlPar_eq K codecTable ser path rs sh a
    | cloud =>
      simp only [AnyWriter.run, JWriter.run, writeCloudJsonl, AnyWriter.plainOf,
        cloudWriter_eq_autoWriter K table_cloud_chain_agrees]
  | csv w hdr header ser =>
    cases w with
    | vec => rfl
    | pc => rfl
    | par sh a => exact writeCsvPar_eq K codecTable hdr header ser path rs sh a
    | pcPar n =>
      simp only [AnyWriter.run, CWriter.run, AnyWriter.plainOf, pcWriteCsvPar_eq]
      rfl

/-- **every reader decodes**: each record reader entry point — vec, helper, streaming (any shard size,
    `collect_seq` and `collect_par`: the count pass and every per-shard read re-open the file), cloud
    object — returns what its format layer computes from `autoReader path file`. -/
theorem every_reader_decodes {Line ρ : Type} (K : CodecImpl) (F : ReadFmt Line ρ) (r : Reader)
    (path : List Char) (file : Bytes) :
    r.run K codecTable F path file = (autoReader K codecTable path file).bind (r.plain F) :=
  reader_decodes K codecTable F r path file

/-- on a plain stream all reader entry points agree with `read_*_vec` (imported from C09) -/
theorem reader_plain_is_read_all {Line ρ : Type} (F : ReadFmt Line ρ) (r : Reader) (plain : Bytes) :
    r.plain F plain = (F.lines plain).bind (IB.Io.readAll F.blank F.de) :=
  reader_plain_eq_readAll F r plain

/-- **detection does not depend on how the source chunks its reads**: for EVERY read schedule (first
    read of 1 byte, byte-by-byte, …) `auto_detect_reader` decides and returns exactly what it does on a
    `File` / `Cursor` with the same content — the decision is a function of the path and of the first
    `headLen` (= 6) bytes of the stream. -/
theorem detection_independent_of_read_schedule (K : CodecImpl) (path : List Char) (bytes : Bytes)
    (sched : List Nat) :
    readerCodecSrc codecTable path ⟨bytes, sched⟩ = readerCodec codecTable path bytes ∧
      autoReaderSrc K codecTable path ⟨bytes, sched⟩ = autoReader K codecTable path bytes := by
  constructor
  · rw [readerCodecSrc_eq_spec table_head_len, readerCodec, readerCodecSrc_eq_spec table_head_len]
    rfl
  · rw [autoReaderSrc_eq_spec K table_head_len, autoReader_eq_spec K table_head_len]

/-! ## the core: what is stored under a name reads back -/

/-- a name is *sound* for a plain payload: it carries a codec extension, or it is neutral and the
    payload does not start with a true format signature (the property's own exception) -/
def NameOK (path : List Char) (plain : Bytes) : Prop :=
  (∃ c, detectExt codecTable path = some c) ∨
    (detectExt codecTable path = none ∧ ∀ n s, (n, s) ∈ specSignatures → ¬ s <+: plain)

theorem detectMagic_none_of_no_signature (x : Bytes) (k : Nat)
    (hx : ∀ n s, (n, s) ∈ specSignatures → ¬ s <+: x) : detectMagic codecTable (x.take k) = none := by
  apply detectMagic_take_eq_none
  intro c hc m hm hp
  obtain ⟨s, hs, hmem⟩ := spec_of_mem_table table_magic_is_format_signature hc
  rw [hm] at hs; cases hs
  exact hx _ _ hmem hp

/-- **transparent**: what `auto_detect_writer` stored under a sound name, `auto_detect_reader` returns
    unchanged — from any source, whatever its read schedule. -/
theorem transparent (K : CodecImpl) (hK : Lawful K) (path : List Char) (plain : Bytes)
    (hok : NameOK path plain) (sched : List Nat) :
    autoReaderSrc K codecTable path ⟨autoWriter K codecTable path plain, sched⟩ = some plain := by
  rw [autoReaderSrc_eq_spec K table_head_len]
  unfold autoReaderSpec readerCodecSpec autoWriter
  rcases hok with ⟨c, h⟩ | ⟨h, hx⟩
  · obtain ⟨s, _, hs⟩ := spec_of_mem_table table_magic_is_format_signature (detectExt_mem h)
    simp only [h]
    exact hK.roundtrip _ _ hs plain
  · simp only [h, detectMagic_none_of_no_signature plain _ hx]

/-- the same through any writer and any reader entry point: the compression layer vanishes — the
    result is what the reader's format layer computes from the writer's plain serialisation. -/
theorem entry_points_transparent {Line ρ : Type} (K : CodecImpl) (hK : Lawful K) (F : ReadFmt Line ρ)
    (w : AnyWriter ρ) (r : Reader) (path : List Char) (rs : List ρ) (hok : NameOK path (w.plainOf rs)) :
    (w.run K codecTable path rs).bind (r.run K codecTable F path) = r.plain F (w.plainOf rs) := by
  rw [every_writer_wraps, Option.bind_some, every_reader_decodes]
  have := transparent K hK path (w.plainOf rs) hok []
  rw [show autoReader K codecTable path (autoWriter K codecTable path (w.plainOf rs)) = some (w.plainOf rs) from this]
  rfl

/-! ## data under a codec extension -/

/-- **stored compressed**: through every writer entry point, data written to a path that carries a
    codec's extension is stored as ONE stream of that codec, which starts with the format's true
    signature. -/
theorem ext_stored_compressed {ρ : Type} (K : CodecImpl) (hK : Lawful K) (w : AnyWriter ρ)
    (path : List Char) (c : CodecEntry) (h : detectExt codecTable path = some c) (rs : List ρ) :
    w.run K codecTable path rs = some (K.compress c.name (w.plainOf rs)) ∧
      ∃ s, (c.name, s) ∈ specSignatures ∧ s <+: K.compress c.name (w.plainOf rs) := by
  obtain ⟨s, _, hs⟩ := spec_of_mem_table table_magic_is_format_signature (detectExt_mem h)
  refine ⟨?_, s, hs, hK.signed _ _ hs _⟩
  rw [every_writer_wraps]
  simp only [autoWriter, h]

/-- the same for `auto_detect_writer` used directly on raw bytes -/
theorem ext_stored_compressed_raw (K : CodecImpl) (path : List Char) (c : CodecEntry)
    (h : detectExt codecTable path = some c) (x : Bytes) :
    autoWriter K codecTable path x = K.compress c.name x := by
  simp only [autoWriter, h]

/-- **ext_roundtrip**: for EVERY writer entry point, EVERY reader entry point and EVERY path carrying a
    codec extension, what is written reads back exactly as the same entry points would read the plain
    serialisation … -/
theorem ext_roundtrip {Line ρ : Type} (K : CodecImpl) (hK : Lawful K) (F : ReadFmt Line ρ)
    (w : AnyWriter ρ) (r : Reader) (path : List Char) (c : CodecEntry)
    (h : detectExt codecTable path = some c) (rs : List ρ) :
    (w.run K codecTable path rs).bind (r.run K codecTable F path) = r.plain F (w.plainOf rs) :=
  entry_points_transparent K hK F w r path rs (Or.inl ⟨c, h⟩)

/-- … hence, with any serialiser / parser pair of the format layer that round-trips on plain bytes
    (property C09: `roundtrip_modulo_serialiser`, `csv_roundtrip`), records written under a codec
    extension read back identical. -/
theorem ext_roundtrip_records {Line ρ : Type} (K : CodecImpl) (hK : Lawful K) (F : ReadFmt Line ρ)
    (w : AnyWriter ρ) (r : Reader) (path : List Char) (c : CodecEntry)
    (h : detectExt codecTable path = some c) (rs : List ρ)
    (hfmt : (F.lines (w.plainOf rs)).bind (IB.Io.readAll F.blank F.de) = some rs) :
    (w.run K codecTable path rs).bind (r.run K codecTable F path) = some rs := by
  rw [ext_roundtrip K hK F w r path c h, reader_plain_is_read_all, hfmt]

/-- raw bytes through `auto_detect_writer` / `auto_detect_reader`, from any source -/
theorem ext_roundtrip_raw (K : CodecImpl) (hK : Lawful K) (path : List Char) (c : CodecEntry)
    (h : detectExt codecTable path = some c) (x : Bytes) (sched : List Nat) :
    autoReaderSrc K codecTable path ⟨autoWriter K codecTable path x, sched⟩ = some x :=
  transparent K hK path x (Or.inl ⟨c, h⟩) sched

/-- **case-insensitive**: a path that ends with ANY upper/lower-case spelling of a codec's extension is
    detected as that codec — by the writer and by the reader, whatever precedes the extension. -/
theorem ext_case_insensitive (stem : List Char) (c : CodecEntry) (hc : c ∈ codecTable) (e : String)
    (he : e ∈ c.exts) (v : List Char) (hv : v ∈ caseVariants e.toList) :
    detectExt codecTable (stem ++ v) = some c := by
  have hl : lowerPath v = e.toList := by
    have := List.all_eq_true.mp (List.all_eq_true.mp (List.all_eq_true.mp table_case_variants_lower c hc) e he) v hv
    exact eq_of_beq this
  apply detectExt_eq_some table_exts_suffix_free hc he
  unfold lowerPath at hl ⊢
  rw [List.flatMap_append, hl]
  exact List.suffix_append _ _

/-- the directory part of a path never influences detection: `sub.gz/x.jsonl` is a neutral name and
    `/tmp/anything/x.jsonl.gz` is detected exactly as `x.jsonl.gz` (what the harness relies on when it
    sends paths relative to its temp directory) -/
theorem detect_dir_irrelevant (dir name : List Char) :
    detectExt codecTable (dir ++ '/' :: name) = detectExt codecTable name :=
  detectExt_dir_irrelevant table_exts_wellformed dir name

/-- detection looks at the lower-cased path only -/
theorem detectExt_lower_congr (tbl : List CodecEntry) (p q : List Char) (h : lowerPath p = lowerPath q) :
    detectExt tbl p = detectExt tbl q := by
  unfold detectExt; rw [h]

/-! ## data under a neutral name -/

/-- **neutral, writer side**: no codec extension ⇒ every writer entry point stores the plain
    serialisation verbatim -/
theorem neutral_stored_verbatim {ρ : Type} (K : CodecImpl) (w : AnyWriter ρ) (path : List Char)
    (h : detectExt codecTable path = none) (rs : List ρ) :
    w.run K codecTable path rs = some (w.plainOf rs) := by
  rw [every_writer_wraps]
  simp only [autoWriter, h]

/-- **neutral_verbatim**: no codec extension ∧ the content does not start with a true format signature
    ⇒ `auto_detect_reader` returns the content verbatim — for ANY codec implementation and ANY read
    schedule of the source … -/
theorem neutral_verbatim_raw (K : CodecImpl) (path : List Char) (h : detectExt codecTable path = none)
    (x : Bytes) (hx : ∀ n s, (n, s) ∈ specSignatures → ¬ s <+: x) (sched : List Nat) :
    autoReaderSrc K codecTable path ⟨x, sched⟩ = some x := by
  rw [autoReaderSrc_eq_spec K table_head_len]
  simp only [autoReaderSpec, readerCodecSpec, h, detectMagic_none_of_no_signature x _ hx]

/-- … and every reader entry point parses it as a plain stream. -/
theorem neutral_verbatim {Line ρ : Type} (K : CodecImpl) (F : ReadFmt Line ρ) (r : Reader)
    (path : List Char) (h : detectExt codecTable path = none) (x : Bytes)
    (hx : ∀ n s, (n, s) ∈ specSignatures → ¬ s <+: x) :
    r.run K codecTable F path x = r.plain F x := by
  rw [every_reader_decodes]
  rw [show autoReader K codecTable path x = some x from neutral_verbatim_raw K path h x hx []]
  rfl

/-- whole trip under a neutral name, every writer × every reader (for ANY codec implementation) -/
theorem neutral_roundtrip {Line ρ : Type} (K : CodecImpl) (F : ReadFmt Line ρ)
    (w : AnyWriter ρ) (r : Reader) (path : List Char) (h : detectExt codecTable path = none)
    (rs : List ρ) (hx : ∀ n s, (n, s) ∈ specSignatures → ¬ s <+: w.plainOf rs) :
    (w.run K codecTable path rs).bind (r.run K codecTable F path) = r.plain F (w.plainOf rs) := by
  rw [neutral_stored_verbatim K w path h, Option.bind_some]
  exact neutral_verbatim K F r path h _ hx

theorem no_signature_of_first_byte (x : Bytes)
    (hx : ∀ b, x.head? = some b → b ∉ [0x1f, 0x28, 0x42, 0xfd]) :
    ∀ n s, (n, s) ∈ specSignatures → ¬ s <+: x := by
  intro n s hs hp
  cases x with
  | nil =>
    simp only [specSignatures, List.mem_cons, Prod.mk.injEq, List.not_mem_nil, or_false] at hs
    rcases hs with ⟨_, rfl⟩ | ⟨_, rfl⟩ | ⟨_, rfl⟩ | ⟨_, rfl⟩ <;> simp at hp
  | cons b t =>
    have hb := hx b rfl
    simp only [specSignatures, List.mem_cons, Prod.mk.injEq, List.not_mem_nil, or_false] at hs
    rcases hs with ⟨_, rfl⟩ | ⟨_, rfl⟩ | ⟨_, rfl⟩ | ⟨_, rfl⟩ <;>
      (obtain ⟨u, hu⟩ := hp; simp only [List.cons_append, List.cons.injEq] at hu; simp [← hu.1] at hb)

/-- ordinary JSON / CSV / text: content whose first byte is none of `1f`, `28`, `42` ('B'), `fd` (and
    empty content) is never taken for compressed data. JSON Lines always qualifies. -/
theorem text_never_misdetected {Line ρ : Type} (K : CodecImpl) (F : ReadFmt Line ρ) (r : Reader)
    (path : List Char) (h : detectExt codecTable path = none) (x : Bytes)
    (hx : ∀ b, x.head? = some b → b ∉ [0x1f, 0x28, 0x42, 0xfd]) (sched : List Nat) :
    autoReaderSrc K codecTable path ⟨x, sched⟩ = some x ∧ r.run K codecTable F path x = r.plain F x :=
  ⟨neutral_verbatim_raw K path h x (no_signature_of_first_byte x hx) sched,
   neutral_verbatim K F r path h x (no_signature_of_first_byte x hx)⟩

/-- pure ASCII text (every byte < 0x80) under a neutral name is taken for compressed data ONLY if it
    literally starts with the three characters "BZh" — the case the property itself excepts. -/
theorem ascii_text_misdetected_only_if_BZh {Line ρ : Type} (K : CodecImpl) (F : ReadFmt Line ρ)
    (r : Reader) (path : List Char) (h : detectExt codecTable path = none) (x : Bytes)
    (hascii : ∀ b ∈ x, b < 128) (hbzh : ¬ [0x42, 0x5a, 0x68] <+: x) (sched : List Nat) :
    autoReaderSrc K codecTable path ⟨x, sched⟩ = some x ∧ r.run K codecTable F path x = r.plain F x := by
  have hx : ∀ n s, (n, s) ∈ specSignatures → ¬ s <+: x := by
    intro n s hs hp
    simp only [specSignatures, List.mem_cons, Prod.mk.injEq, List.not_mem_nil, or_false] at hs
    rcases hs with ⟨_, rfl⟩ | ⟨_, rfl⟩ | ⟨_, rfl⟩ | ⟨_, rfl⟩
    · exact absurd (hascii 0x8b (hp.subset (by simp))) (by decide)
    · exact absurd (hascii 0xb5 (hp.subset (by simp))) (by decide)
    · exact hbzh hp
    · exact absurd (hascii 0xfd (hp.subset (by simp))) (by decide)
  exact ⟨neutral_verbatim_raw K path h x hx sched, neutral_verbatim K F r path h x hx⟩

/-- **neutral_signature**: genuinely compressed content under a neutral name is recognised by its
    signature and decoded — by `auto_detect_reader` on ANY source (whatever its read schedule: this is
    what the short-first-read `fix:` commit repaired) … -/
theorem neutral_signature_raw (K : CodecImpl) (hK : Lawful K) (path : List Char)
    (h : detectExt codecTable path = none) (n : String) (s : Bytes) (hs : (n, s) ∈ specSignatures)
    (x : Bytes) (sched : List Nat) :
    autoReaderSrc K codecTable path ⟨K.compress n x, sched⟩ = some x := by
  obtain ⟨c, hc, hn, hm⟩ := table_of_mem_spec table_magic_is_format_signature hs
  obtain ⟨m', hm', hpos, _⟩ := magicSizesOK_spec table_magic_sizes hc
  rw [hm] at hm'; cases hm'
  have hd : detectMagic codecTable ((K.compress n x).take (headLen codecTable)) = some c :=
    detectMagic_take_eq_some table_magic_prefix_free hc hm hpos (magic_le_headLen hc hm) (hK.signed _ _ hs x)
  rw [autoReaderSrc_eq_spec K table_head_len]
  simp only [autoReaderSpec, readerCodecSpec, h, hd, hn]
  exact hK.roundtrip _ _ hs x

/-- … and through every reader entry point. -/
theorem neutral_signature {Line ρ : Type} (K : CodecImpl) (hK : Lawful K) (F : ReadFmt Line ρ)
    (r : Reader) (path : List Char) (h : detectExt codecTable path = none) (n : String) (s : Bytes)
    (hs : (n, s) ∈ specSignatures) (x : Bytes) :
    r.run K codecTable F path (K.compress n x) = r.plain F x := by
  rw [every_reader_decodes]
  rw [show autoReader K codecTable path (K.compress n x) = some x from
    neutral_signature_raw K hK path h n s hs x []]
  rfl

/-- detection by content is exact: under a neutral name the reader decodes with codec `c` iff the
    content starts with `c`'s true signature — for every read schedule of the source. -/
theorem neutral_reader_codec_iff (path : List Char) (h : detectExt codecTable path = none) (x : Bytes)
    (sched : List Nat) (c : CodecEntry) (hc : c ∈ codecTable) :
    readerCodecSrc codecTable path ⟨x, sched⟩ = some c ↔
      ∃ s, (c.name, s) ∈ specSignatures ∧ c.magic = some s ∧ s <+: x := by
  obtain ⟨s, hm, hmem⟩ := spec_of_mem_table table_magic_is_format_signature hc
  rw [readerCodecSrc_eq_spec table_head_len]
  simp only [readerCodecSpec, h]
  constructor
  · intro hd
    refine ⟨s, hmem, hm, ?_⟩
    unfold detectMagic at hd
    split at hd
    · cases hd
    · obtain ⟨m, hm', hp⟩ := magicMatches_iff.mp (List.find?_some hd)
      rw [hm] at hm'; cases hm'
      exact hp.trans (List.take_prefix _ _)
  · rintro ⟨s', _, hm', hp⟩
    obtain ⟨m', hm'', hpos, _⟩ := magicSizesOK_spec table_magic_sizes hc
    rw [hm'] at hm''; cases hm''
    exact detectMagic_take_eq_some table_magic_prefix_free hc hm' hpos (magic_le_headLen hc hm') hp

/-! ## glob reads: every matched file is decoded under its OWN name -/

/-- **glob_roundtrip**: a set of files written by ANY mix of writer entry points under ANY mix of sound
    names (different codecs, case variants, neutral names side by side) and read through the glob branch
    of `read_jsonl` / `read_csv` / `read_cloud_jsonl_glob` yields the records of all files, in the
    order the files are listed — provided the format layer round-trips on plain bytes (C09). -/
theorem glob_roundtrip {Line ρ : Type} (K : CodecImpl) (hK : Lawful K) (F : ReadFmt Line ρ)
    (items : List (List Char × AnyWriter ρ × List ρ))
    (hok : ∀ i ∈ items, NameOK i.1 (i.2.1.plainOf i.2.2))
    (hfmt : ∀ i ∈ items, (F.lines (i.2.1.plainOf i.2.2)).bind (IB.Io.readAll F.blank F.de) = some i.2.2) :
    ∃ files, items.mapM (fun i => (i.2.1.run K codecTable i.1 i.2.2).map fun b => (i.1, b)) = some files ∧
      readGlob K codecTable F files = some (items.map (·.2.2)).flatten := by
  induction items with
  | nil => exact ⟨[], rfl, rfl⟩
  | cons i items ih =>
    obtain ⟨files, hf, hr⟩ := ih (fun j hj => hok j (List.mem_cons_of_mem _ hj))
      (fun j hj => hfmt j (List.mem_cons_of_mem _ hj))
    have hi := hok i List.mem_cons_self
    have hfi := hfmt i List.mem_cons_self
    refine ⟨(i.1, autoWriter K codecTable i.1 (i.2.1.plainOf i.2.2)) :: files, ?_, ?_⟩
    · rw [List.mapM_cons, hf, every_writer_wraps]
      rfl
    · have hone : readVec K codecTable F i.1 (autoWriter K codecTable i.1 (i.2.1.plainOf i.2.2)) = some i.2.2 := by
        unfold readVec
        rw [show autoReader K codecTable i.1 (autoWriter K codecTable i.1 (i.2.1.plainOf i.2.2)) =
          some (i.2.1.plainOf i.2.2) from transparent K hK i.1 _ hi []]
        exact hfi
      unfold readGlob at hr ⊢
      rw [List.mapM_cons, hone]
      cases hm : files.mapM (fun f => readVec K codecTable F f.1 f.2) with
      | none => rw [hm] at hr; simp at hr
      | some parts =>
        rw [hm] at hr
        simp only [Option.map_some, Option.some.injEq] at hr
        simp [hr]

/-! ## non-vacuity -/

/-- the assumptions on the codecs are satisfiable: the driver's codec family meets them -/
theorem toy_lawful : Lawful toy := by
  constructor
  · intro n s _ x
    simp only [toy, List.isPrefixOf_iff_prefix, List.prefix_append, if_true, List.drop_left]
  · intro n s hs x
    simp only [specSignatures, List.mem_cons, Prod.mk.injEq, List.not_mem_nil, or_false] at hs
    rcases hs with ⟨rfl, rfl⟩ | ⟨rfl, rfl⟩ | ⟨rfl, rfl⟩ | ⟨rfl, rfl⟩ <;>
      exact ⟨_, by simp [toy, toyHeader, signatureOf, specSignatures, List.lookup]; rfl⟩

/-- hypotheses of `ext_roundtrip` / `ext_stored_compressed` on a concrete mixed-case path -/
example : detectExt codecTable "Data/x.jsonl.Gz".toList = some ⟨"gzip", [".gz", ".gzip"], some [0x1f, 0x8b]⟩ := by
  decide
/-- … the conclusion evaluated on it (parallel JSONL writer with 2 shards, streaming reader with 1 line per
    shard, parallel collect; records = lines `[1]`, `[2]`, `[3]`) … -/
example : ((AnyWriter.jsonl (.par (some 2) 16) id).run toy codecTable "x.jsonl.GZ".toList
      [[91, 49, 93], [91, 50, 93], [91, 51, 93]]).bind
    ((Reader.streaming 1 true).run toy codecTable lineJsonl "x.jsonl.GZ".toList) =
      some [[91, 49, 93], [91, 50, 93], [91, 51, 93]] := by decide
/-- … and the format hypothesis `hfmt` of `ext_roundtrip_records` / `glob_roundtrip` on the concrete line
    formats (JSONL; CSV with a header) -/
example : (lineJsonl.lines ((AnyWriter.jsonl .vec id).plainOf [[91, 49, 93], [91, 50, 93]])).bind
    (IB.Io.readAll lineJsonl.blank lineJsonl.de) = some [[91, 49, 93], [91, 50, 93]] := by decide
example : ((lineCsv true).lines ((AnyWriter.csv .vec true (withNl [110]) withNl).plainOf [[49], [50]])).bind
    (IB.Io.readAll (lineCsv true).blank (lineCsv true).de) = some [[49], [50]] := by decide
/-- hypotheses of `neutral_verbatim` on the historical witness: CSV text that starts with "BZ" -/
example : detectExt codecTable "plain.csv".toList = none ∧
    ∀ n s, (n, s) ∈ specSignatures → ¬ s <+: [0x42, 0x5a, 0x2c, 0x31, 0x0a] := by
  refine ⟨by decide, ?_⟩
  intro n s hs
  simp only [specSignatures, List.mem_cons, Prod.mk.injEq, List.not_mem_nil, or_false] at hs
  rcases hs with ⟨_, rfl⟩ | ⟨_, rfl⟩ | ⟨_, rfl⟩ | ⟨_, rfl⟩ <;>
    (rw [← List.isPrefixOf_iff_prefix]; decide)
/-- a case variant in the sense of `ext_case_insensitive` -/
example : ".bZiP2".toList ∈ caseVariants ".bzip2".toList := by decide
/-- `neutral_signature_raw` on a source that delivers its first three bytes one by one -/
example : autoReaderSrc toy codecTable "x.dat".toList ⟨toy.compress "xz" [1, 2, 3], [0, 0, 0]⟩ = some [1, 2, 3] := by
  decide
/-- `glob_roundtrip` evaluated: a gzip file, a plain file and a zstd file side by side -/
example : readGlob toy codecTable lineJsonl
    [("d/a.jsonl.gz".toList, writeJsonlVec toy codecTable id "d/a.jsonl.gz".toList [[49]]),
     ("d/b.jsonl".toList, writeJsonlVec toy codecTable id "d/b.jsonl".toList [[50]]),
     ("d/c.JSONL.ZST".toList, writeJsonlVec toy codecTable id "d/c.JSONL.ZST".toList [[51]])] =
    some [[49], [50], [51]] := by decide

/-! ## the pinned commit: negation witnesses (what the check guards against) -/

/-- at `a2588b9` the table obligation was false: bzip2's magic was only "BZ" -/
theorem legacy_table_magic_not_signature : tableMagicOK Legacy.codecTable = false := by decide

/-- … so CSV text starting with "BZ" under a neutral name was decoded as bzip2 and could not be read,
    although it does not start with bzip2's signature "BZh" (negation of `neutral_verbatim`). -/
theorem legacy_bz_text_misdetected :
    (readerCodec Legacy.codecTable "plain.csv".toList [0x42, 0x5a, 0x2c, 0x31, 0x0a]).map (·.name) = some "bzip2" ∧
    Reader.vec.run toy Legacy.codecTable (lineCsv false) "plain.csv".toList [0x42, 0x5a, 0x2c, 0x31, 0x0a] = none ∧
    Reader.vec.run toy codecTable (lineCsv false) "plain.csv".toList [0x42, 0x5a, 0x2c, 0x31, 0x0a] =
      some [[0x42, 0x5a, 0x2c, 0x31]] := by
  decide

/-- at `a2588b9` the free parallel writers (and `PCollection::write_jsonl_par`) stored the plain
    serialisation under ANY name, for all data and shard counts: `every_writer_wraps` is false for the
    pinned definitions … -/
theorem legacy_par_writers_store_plain {ρ : Type} (K : CodecImpl) (tbl : List CodecEntry) (ser : ρ → Bytes)
    (hdr : Bool) (header : Bytes) (path : List Char) (rs : List ρ) (sh : Option Nat) (a : Nat) :
    Legacy.JWriter.run K tbl ser (.par sh a) path rs = some (jsonlPlain ser rs) ∧
    Legacy.JWriter.run K tbl ser (.pcPar sh a) path rs = some (jsonlPlain ser rs) ∧
    Legacy.CWriter.run K tbl hdr header ser (.par sh a) path rs = some (csvPlain hdr header ser rs) := by
  have hj : Legacy.writeJsonlPar ser rs sh a = some (jsonlPlain ser rs) := by
    have h := writeJsonlPar_eq ⟨fun _ x => x, fun _ x => some x⟩ [] ser path rs sh a
    unfold writeJsonlPar writeJsonlVec autoWriter detectExt at h
    unfold Legacy.writeJsonlPar
    split
    · next h0 =>
      have : rs = [] := List.eq_nil_of_length_eq_zero h0
      subst this; rfl
    · next h0 => simpa [h0] using h
  have hc : Legacy.writeCsvPar hdr header ser rs sh a = some (csvPlain hdr header ser rs) := by
    have h := writeCsvPar_eq ⟨fun _ x => x, fun _ x => some x⟩ [] hdr header ser path rs sh a
    unfold writeCsvPar writeCsvVec autoWriter detectExt at h
    unfold Legacy.writeCsvPar
    split
    · next h0 =>
      have : rs = [] := List.eq_nil_of_length_eq_zero h0
      subst this
      cases hdr <;> simp [csvPlain, IB.Io.csvWrite]
    · next h0 => simpa [h0] using h
  exact ⟨hj, hj, hc⟩

/-- … so `x.jsonl.gz` written by `write_jsonl_par` did not start with the gzip signature and could not
    be read back (negation of `ext_stored_compressed` / `ext_roundtrip`); the current model round-trips. -/
theorem legacy_par_writer_unreadable :
    Legacy.JWriter.run toy codecTable id (.par (some 2) 16) "x.jsonl.gz".toList [[91, 49, 93], [91, 50, 93]] =
      some [91, 49, 93, 10, 91, 50, 93, 10] ∧
    (Legacy.JWriter.run toy codecTable id (.par (some 2) 16) "x.jsonl.gz".toList [[91, 49, 93], [91, 50, 93]]).bind
      (Reader.vec.run toy codecTable lineJsonl "x.jsonl.gz".toList) = none ∧
    (JWriter.run toy codecTable id (.par (some 2) 16) "x.jsonl.gz".toList [[91, 49, 93], [91, 50, 93]]).bind
      (Reader.vec.run toy codecTable lineJsonl "x.jsonl.gz".toList) = some [[91, 49, 93], [91, 50, 93]] := by
  decide

/-- at `a2588b9` the cloud writer chose the codec from `Path::extension`, the reader by suffix: the key
    `dir/.gz` was written plain and then fed to the gzip decoder. -/
theorem legacy_cloud_dotfile_key :
    Legacy.cloudWriterCodec "dir/.gz".toList = none ∧
    (detectExt codecTable "dir/.gz".toList).map (·.name) = some "gzip" ∧
    (Legacy.JWriter.run toy codecTable id .cloud "dir/.gz".toList [[91, 49, 93]]).bind
      (Reader.cloud.run toy codecTable lineJsonl "dir/.gz".toList) = none ∧
    (JWriter.run toy codecTable id .cloud "dir/.gz".toList [[91, 49, 93]]).bind
      (Reader.cloud.run toy codecTable lineJsonl "dir/.gz".toList) = some [[91, 49, 93]] := by
  decide

/-- before the short-read `fix:` commit ONE `fill_buf()` decided: a genuine gzip stream under a neutral
    name, delivered by a source whose first read returns a single byte, was passed through undetected
    (negation of `neutral_signature_raw` / `detection_independent_of_read_schedule`); on a `File` the
    pinned code did detect it, and the current model detects it for every schedule. -/
theorem legacy_short_first_read_undetected :
    Legacy.readerCodecSrc codecTable "x.dat".toList ⟨toy.compress "gzip" [1, 2, 3], [0]⟩ = none ∧
    Legacy.autoReaderSrc toy codecTable "x.dat".toList ⟨toy.compress "gzip" [1, 2, 3], [0]⟩ =
      some (toy.compress "gzip" [1, 2, 3]) ∧
    Legacy.autoReaderSrc toy codecTable "x.dat".toList ⟨toy.compress "gzip" [1, 2, 3], []⟩ = some [1, 2, 3] ∧
    autoReaderSrc toy codecTable "x.dat".toList ⟨toy.compress "gzip" [1, 2, 3], [0]⟩ = some [1, 2, 3] := by
  decide

end IB.Compression
