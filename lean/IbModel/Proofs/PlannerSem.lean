import IbModel.Model.Engine
import IbModel.Model.Planner
import IbModel.Proofs.ParSeq
/-!
# Planner semantics, pass by pass (generic in the partition type `P`)

* `fuse` never changes what either engine computes (no hypothesis);
* `reorder` is the identity on chains whose all-movable blocks are already sorted (`InertChain`), and
  more generally preserves the result when every block it permutes computes the same function;
* `liftGbk` is the identity on chains without a `gbk → combineValues (some _)` window;
* `dropMid` is the identity on chains without `materialized` nodes.
-/
namespace IB
variable {P : Type}

theorem applyOps_append' (a b : List (DynOp P)) (x : P) :
    applyOps (a ++ b) x = applyOps b (applyOps a x) := by
  simp [applyOps, List.foldl_append]

/-- the sequential fold both engines' top level use -/
def seqFold (cur : Option P) (c : List (Node P)) : M (Option P) :=
  c.foldlM (fun cur n => do let b ← stepSeq cur n; pure (some b)) cur

theorem execSeq_eq_seqFold (c : List (Node P)) : execSeq c = (seqFold none c >>= need) := rfl

@[simp] theorem seqFold_nil (cur : Option P) : seqFold cur [] = pure cur := rfl
theorem seqFold_cons (cur : Option P) (n : Node P) (c : List (Node P)) :
    seqFold cur (n :: c) = (stepSeq cur n >>= fun b => seqFold (some b) c) := by
  simp [seqFold, List.foldlM_cons]

/-! ## fuse -/

theorem stepSeq_stateless_append (cur : Option P) (a b : List (DynOp P)) :
    stepSeq cur (.stateless (a ++ b))
      = (stepSeq cur (.stateless a) >>= fun x => stepSeq (some x) (.stateless b)) := by
  cases cur with
  | none => rfl
  | some x =>
    show (pure (applyOps (a ++ b) x) : M P) = pure (applyOps b (applyOps a x))
    rw [applyOps_append']

theorem seqFold_fuse (c : List (Node P)) : ∀ cur, seqFold cur (fuse c) = seqFold cur c := by
  fun_induction fuse c with
  | case1 => intro cur; rfl
  | case2 a rest b r hfr ih =>
    intro cur
    rw [seqFold_cons, seqFold_cons, stepSeq_stateless_append, bind_assoc]
    congr 1
    funext x
    rw [← ih (some x), hfr, seqFold_cons]
  | case3 a rest hfr ih =>
    intro cur
    rw [seqFold_cons, seqFold_cons]
    congr 1
    funext x
    exact ih (some x)
  | case4 n rest hn ih =>
    intro cur
    rw [seqFold_cons, seqFold_cons]
    congr 1
    funext x
    exact ih (some x)

/-- fusion keeps the meaning of EVERY chain (sequential engine) -/
theorem fuse_sem' (c : List (Node P)) : execSeq (fuse c) = execSeq c := by
  rw [execSeq_eq_seqFold, execSeq_eq_seqFold, seqFold_fuse]

/-- the same for the parallel engine, any concat and any partition count -/
theorem parFold_fuse (n : Nat) (c : List (Node P)) :
    ∀ curr, (fuse c).foldlM (stepPar n) curr = c.foldlM (stepPar n) curr := by
  fun_induction fuse c with
  | case1 => intro curr; rfl
  | case2 a rest b r hfr ih =>
    intro curr
    have h1 : stepPar n curr (.stateless (a ++ b)) = pure (curr.map (applyOps (a ++ b))) := rfl
    have h2 : stepPar n curr (.stateless a) = pure (curr.map (applyOps a)) := rfl
    rw [List.foldlM_cons, List.foldlM_cons, h1, h2, pure_bind, pure_bind, ← ih, hfr,
      List.foldlM_cons]
    have h3 : stepPar n (curr.map (applyOps a)) (.stateless b)
        = pure ((curr.map (applyOps a)).map (applyOps b)) := rfl
    rw [h3, pure_bind]
    have h4 : curr.map (applyOps (a ++ b)) = (curr.map (applyOps a)).map (applyOps b) := by
      simp [List.map_map, Function.comp_def, applyOps_append']
    rw [h4]
  | case3 a rest hfr ih =>
    intro curr
    rw [List.foldlM_cons, List.foldlM_cons]
    congr 1
    funext x
    exact ih x
  | case4 nd rest hn ih =>
    intro curr
    rw [List.foldlM_cons, List.foldlM_cons]
    congr 1
    funext x
    exact ih x

theorem fuse_source (w : P) (len : Nat) (split : Nat → List P) (rest : List (Node P)) :
    fuse (.source w len split :: rest) = .source w len split :: fuse rest := by
  rw [fuse]
  intro a h; cases h

theorem fuse_sem_par' (concat : List P → P) (c : List (Node P)) (n : Nat) :
    execPar concat (fuse c) n = execPar concat c n := by
  cases c with
  | nil => rfl
  | cons nd rest =>
    cases nd with
    | source w len split =>
      rw [fuse_source]
      simp only [execPar, parFold_fuse]
    | stateless ops =>
      have : ∀ r, execPar concat (.stateless ops :: r) n = throw .noSource := fun _ => rfl
      rw [this]
      rw [fuse]
      split <;> rfl
    | gbk l m => rw [fuse]; · rfl
                 · intro a h; cases h
    | combineValues lp lg m => rw [fuse]; · rfl
                               · intro a h; cases h
    | combineGlobal l m f fo => rw [fuse]; · rfl
                                · intro a h; cases h
    | coGroup l r cl cr ex => rw [fuse]; · rfl
                              · intro a h; cases h
    | materialized p => rw [fuse]; · rfl
                        · intro a h; cases h

/-! ## reorder -/

/-- the comparison `sort_by_key` uses -/
def opLe (a b : DynOp P) : Bool := keyLe (sortKey a) (sortKey b)

/-- a block the reorder pass cannot change: it is not (all movable ∧ length > 1), or it is already
    sorted by `(cost ≠ 1, cost)` -/
def BlockInert (ops : List (DynOp P)) : Prop :=
  (ops.all movable && decide (ops.length > 1)) = true →
    ops.Pairwise (fun a b => opLe a b = true)

/-- the pass only ever permutes a block: every operator is kept exactly once -/
theorem reorderBlock_is_perm (ops : List (DynOp P)) : (reorderBlock ops).Perm ops := by
  unfold reorderBlock
  split
  · exact List.mergeSort_perm _ _
  · exact List.Perm.refl _

/-- a block containing an operator that lacks a capability flag is never touched -/
theorem reorderBlock_id_of_not_all_movable (ops : List (DynOp P)) (h : ops.all movable = false) :
    reorderBlock ops = ops := by
  simp [reorderBlock, h]

instance (ops : List (DynOp P)) : Decidable (BlockInert ops) := by
  unfold BlockInert; infer_instance

theorem reorderBlock_of_inert (ops : List (DynOp P)) (h : BlockInert ops) :
    reorderBlock ops = ops := by
  unfold reorderBlock
  split
  · next hc => exact List.mergeSort_of_pairwise (h hc)
  · rfl

/-- every stateless block of the chain is inert -/
def InertChain : List (Node P) → Prop
  | [] => True
  | .stateless ops :: rest => BlockInert ops ∧ InertChain rest
  | _ :: rest => InertChain rest

theorem reorder_of_inert (c : List (Node P)) (h : InertChain c) : reorder c = c := by
  induction c with
  | nil => rfl
  | cons n rest ih =>
    cases n with
    | stateless ops =>
      obtain ⟨h1, h2⟩ := h
      simp only [reorder, reorderBlock_of_inert ops h1, ih h2]
    | source w len split => simp only [reorder]; rw [ih h]
    | gbk l m => simp only [reorder]; rw [ih h]
    | combineValues lp lg m => simp only [reorder]; rw [ih h]
    | combineGlobal l m f fo => simp only [reorder]; rw [ih h]
    | coGroup l r cl cr ex => simp only [reorder]; rw [ih h]
    | materialized p => simp only [reorder]; rw [ih h]

/-- the hypothesis of the partial theorems: after fusion, the reorder pass finds nothing to move -/
def ReorderInert (c : List (Node P)) : Prop := InertChain (fuse c)

/-- the weaker, semantic condition: every block computes the same function after the stable sort
    (sorted blocks, and blocks whose swapped operators commute) -/
def CommutingChain : List (Node P) → Prop
  | [] => True
  | .stateless ops :: rest => (∀ x, applyOps (reorderBlock ops) x = applyOps ops x) ∧ CommutingChain rest
  | _ :: rest => CommutingChain rest

theorem commuting_of_inert (c : List (Node P)) (h : InertChain c) : CommutingChain c := by
  induction c with
  | nil => trivial
  | cons n rest ih =>
    cases n with
    | stateless ops =>
      exact ⟨fun x => by rw [reorderBlock_of_inert ops h.1], ih h.2⟩
    | source w len split => exact ih h
    | gbk l m => exact ih h
    | combineValues lp lg m => exact ih h
    | combineGlobal l m f fo => exact ih h
    | coGroup l r cl cr ex => exact ih h
    | materialized p => exact ih h

theorem seqFold_reorder (c : List (Node P)) (h : CommutingChain c) :
    ∀ cur, seqFold cur (reorder c) = seqFold cur c := by
  induction c with
  | nil => intro cur; rfl
  | cons n rest ih =>
    intro cur
    cases n with
    | stateless ops =>
      obtain ⟨h1, h2⟩ := h
      simp only [reorder, seqFold_cons]
      have : stepSeq cur (.stateless (reorderBlock ops)) = stepSeq cur (.stateless ops) := by
        cases cur with
        | none => rfl
        | some x =>
          show (pure (applyOps (reorderBlock ops) x) : M P) = pure (applyOps ops x)
          rw [h1]
      rw [this]
      congr 1; funext x; exact ih h2 (some x)
    | source w len split => simp only [reorder, seqFold_cons]; congr 1; funext x; exact ih h (some x)
    | gbk l m => simp only [reorder, seqFold_cons]; congr 1; funext x; exact ih h (some x)
    | combineValues lp lg m => simp only [reorder, seqFold_cons]; congr 1; funext x; exact ih h (some x)
    | combineGlobal l m f fo => simp only [reorder, seqFold_cons]; congr 1; funext x; exact ih h (some x)
    | coGroup l r cl cr ex => simp only [reorder, seqFold_cons]; congr 1; funext x; exact ih h (some x)
    | materialized p => simp only [reorder, seqFold_cons]; congr 1; funext x; exact ih h (some x)

theorem reorder_sem_of_commuting (c : List (Node P)) (h : CommutingChain c) :
    execSeq (reorder c) = execSeq c := by
  rw [execSeq_eq_seqFold, execSeq_eq_seqFold, seqFold_reorder c h]

/-! ## liftGbk -/

/-- no `gbk` immediately followed by a `combineValues` that carries `local_groups` -/
def NoLiftPair : List (Node P) → Prop
  | .gbk _ _ :: .combineValues _ (some _) _ :: _ => False
  | _ :: rest => NoLiftPair rest
  | [] => True

theorem liftGbk_of_noLiftPair (c : List (Node P)) (h : NoLiftPair c) : liftGbk c = c := by
  fun_induction liftGbk c with
  | case1 l m lp lg mm rest ih => exact absurd h (by simp [NoLiftPair])
  | case2 n rest hnot ih =>
    have : NoLiftPair rest := by
      unfold NoLiftPair at h
      split at h
      · exact absurd h id
      · next heq => cases heq; exact h
      · next heq => cases heq
    rw [ih this]
  | case3 => rfl

/-! ## dropMid -/

def Node.isMat : Node P → Bool
  | .materialized _ => true
  | _ => false

theorem dropMid_of_noMat (c : List (Node P)) (h : ∀ n ∈ c, Node.isMat n = false) : dropMid c = c := by
  fun_induction dropMid c with
  | case1 => rfl
  | case2 n => rfl
  | case3 p n rest ih => exact absurd (h (.materialized p) (by simp)) (by simp [Node.isMat])
  | case4 m n rest hm ih =>
    rw [ih (fun x hx => h x (List.mem_cons_of_mem _ hx))]

/-! ## chains made of a source and stateless blocks only -/

def Node.isElem : Node P → Bool
  | .source .. => true
  | .stateless _ => true
  | _ => false

theorem fuse_isElem (c : List (Node P)) (h : ∀ n ∈ c, Node.isElem n = true) :
    ∀ n ∈ fuse c, Node.isElem n = true := by
  fun_induction fuse c with
  | case1 => intro n hn; cases hn
  | case2 a rest b r hfr ih =>
    have ih' := ih (fun x hx => h x (List.mem_cons_of_mem _ hx))
    rw [hfr] at ih'
    intro n hn
    rcases List.mem_cons.mp hn with rfl | hn
    · rfl
    · exact ih' n (List.mem_cons_of_mem _ hn)
  | case3 a rest hfr ih =>
    have ih' := ih (fun x hx => h x (List.mem_cons_of_mem _ hx))
    intro n hn
    rcases List.mem_cons.mp hn with rfl | hn
    · rfl
    · exact ih' n hn
  | case4 nd rest hnd ih =>
    have ih' := ih (fun x hx => h x (List.mem_cons_of_mem _ hx))
    intro n hn
    rcases List.mem_cons.mp hn with rfl | hn
    · exact h _ (by simp)
    · exact ih' n hn

theorem noLiftPair_of_isElem (c : List (Node P)) (h : ∀ n ∈ c, Node.isElem n = true) :
    NoLiftPair c := by
  induction c with
  | nil => trivial
  | cons n rest ih =>
    have hr := ih (fun x hx => h x (List.mem_cons_of_mem _ hx))
    have hn := h n (by simp)
    cases n with
    | gbk l m => simp [Node.isElem] at hn
    | stateless ops => exact hr
    | source w len split => exact hr
    | combineValues lp lg m => exact hr
    | combineGlobal l m f fo => exact hr
    | coGroup l r cl cr ex => exact hr
    | materialized p => exact hr

theorem noMat_of_isElem (c : List (Node P)) (h : ∀ n ∈ c, Node.isElem n = true) :
    ∀ n ∈ c, Node.isMat n = false := by
  intro n hn
  have := h n hn
  cases n <;> simp_all [Node.isElem, Node.isMat]

/-- on source/stateless chains whose fused blocks are inert the whole planner is just fusion -/
theorem optimise_of_isElem_inert (c : List (Node P)) (h : ∀ n ∈ c, Node.isElem n = true)
    (hin : ReorderInert c) : optimise c = fuse c := by
  have hf := fuse_isElem c h
  unfold optimise
  rw [reorder_of_inert _ hin, liftGbk_of_noLiftPair _ (noLiftPair_of_isElem _ hf),
    dropMid_of_noMat _ (noMat_of_isElem _ hf)]

/-! ## fusion keeps the parallel contracts -/

theorem fuse_nodeOK (concat : List P → P) (c : List (Node P)) (h : ∀ n ∈ c, NodeOK concat n) :
    ∀ n ∈ fuse c, NodeOK concat n := by
  fun_induction fuse c with
  | case1 => intro n hn; cases hn
  | case2 a rest b r hfr ih =>
    have ih' := ih (fun x hx => h x (List.mem_cons_of_mem _ hx))
    rw [hfr] at ih'
    have ha : NodeOK concat (.stateless a) := h _ (by simp)
    have hb : NodeOK concat (.stateless b) := ih' _ (by simp)
    intro n hn
    rcases List.mem_cons.mp hn with rfl | hn
    · intro op hop
      rcases List.mem_append.mp hop with h1 | h1
      · exact ha op h1
      · exact hb op h1
    · exact ih' n (List.mem_cons_of_mem _ hn)
  | case3 a rest hfr ih =>
    have ih' := ih (fun x hx => h x (List.mem_cons_of_mem _ hx))
    intro n hn
    rcases List.mem_cons.mp hn with rfl | hn
    · exact h _ (by simp)
    · exact ih' n hn
  | case4 nd rest hnd ih =>
    have ih' := ih (fun x hx => h x (List.mem_cons_of_mem _ hx))
    intro n hn
    rcases List.mem_cons.mp hn with rfl | hn
    · exact h _ (by simp)
    · exact ih' n hn

/-! ## chains of single-operator stateless nodes (what the builders produce), arbitrary operators -/

/-- one `Stateless` node per operator -/
def singles (ops : List (DynOp P)) : List (Node P) := ops.map (fun o => .stateless [o])

theorem fuse_singles (ops : List (DynOp P)) (hne : ops ≠ []) :
    fuse (singles ops) = [.stateless ops] := by
  induction ops with
  | nil => exact absurd rfl hne
  | cons o rest ih =>
    cases rest with
    | nil => rfl
    | cons t rest' =>
      have := ih (by simp)
      show fuse (.stateless [o] :: singles (t :: rest')) = _
      rw [fuse, this]
      rfl

theorem singles_isElem (ops : List (DynOp P)) : ∀ n ∈ singles ops, Node.isElem n = true := by
  intro n hn
  obtain ⟨o, _, rfl⟩ := List.mem_map.mp hn
  rfl

/-- literal run of ANY chain `source; op₁; …; op_k` of custom stateless operators: the operators
    applied to the whole source in program order -/
theorem execSeq_singles (w : P) (len : Nat) (split : Nat → List P) (ops : List (DynOp P)) :
    execSeq (.source w len split :: singles ops) = .ok (ops.foldl (fun acc o => o.apply acc) w) := by
  rw [← fuse_sem', fuse_source]
  by_cases h : ops = []
  · subst h; rfl
  · rw [fuse_singles ops h]; rfl

/-- planned run of the same chain, arbitrary capability flags and costs: the fused block in the
    order the reorder pass leaves it in -/
theorem execSeq_optimise_singles (w : P) (len : Nat) (split : Nat → List P) (ops : List (DynOp P)) :
    execSeq (optimise (.source w len split :: singles ops))
      = .ok ((reorderBlock ops).foldl (fun acc o => o.apply acc) w) := by
  unfold optimise
  rw [fuse_source]
  by_cases h : ops = []
  · subst h; rfl
  · rw [fuse_singles ops h]; rfl

end IB
