import IbModel.Proofs.CheckpointStore
import IbModel.Proofs.CheckpointNames
/-! Helper lemmas for C12: the STORE INVARIANT over whole save histories in which every step may use its own
`max_checkpoints` — every file of the directory is either untouched since the start or holds the encoding of the
state most recently saved under its name. -/
namespace IB.Checkpoint

/-- a save history: each step carries the `max_checkpoints` in force at that save -/
abbrev Hist := List (Option Nat × State)

/-- the directory after a history of saves (any pipelines, any timestamps, any order, `max` changing freely) -/
def savesV (fs : FS) (hist : Hist) : FS := hist.foldl (fun f h => save h.1 f h.2) fs

/-- the state most recently saved under the file name `n` in a history -/
def lastSaved (n : Name) : Hist → Option State
  | [] => none
  | h :: t =>
    match lastSaved n t with
    | some s => some s
    | none => if fileName h.2 = n then some h.2 else none

theorem savesV_cons (fs : FS) (h : Option Nat × State) (t : Hist) :
    savesV fs (h :: t) = savesV (save h.1 fs h.2) t := rfl

theorem savesV_append (fs : FS) (a b : Hist) : savesV fs (a ++ b) = savesV (savesV fs a) b := by
  unfold savesV; rw [List.foldl_append]

theorem mem_write {fs : FS} {name : Name} {content : Bytes} {f : Name × Bytes} (h : f ∈ write fs name content) :
    (f.1 = name ∧ f.2 = content) ∨ (f.1 ≠ name ∧ f ∈ fs) := by
  unfold write at h
  split at h
  · obtain ⟨g, hg, e⟩ := List.mem_map.mp h
    by_cases hn : g.1 = name
    · rw [if_pos (by simpa using hn)] at e
      left; rw [← e]; exact ⟨rfl, rfl⟩
    · rw [if_neg (by simpa using hn)] at e
      right; rw [← e]; exact ⟨hn, hg⟩
  · rename_i hany
    rcases List.mem_append.mp h with hf | hf
    · right
      refine ⟨fun e => hany ?_, hf⟩
      exact List.any_eq_true.mpr ⟨f, hf, by simpa using e⟩
    · left
      have := List.mem_singleton.mp hf
      rw [this]; exact ⟨rfl, rfl⟩

theorem mem_save {max : Option Nat} {fs : FS} {s : State} {f : Name × Bytes} (h : f ∈ save max fs s) :
    f ∈ write fs (fileName s) (encode s) :=
  (cleanup_sublist (isOwn s.pipelineId) (sortKey (pfx s.pipelineId)) max _).subset h

theorem lastSaved_name {n : Name} : ∀ {hist : Hist} {s : State}, lastSaved n hist = some s →
    fileName s = n ∧ ∃ m, (m, s) ∈ hist
  | [], _, h => by cases h
  | hd :: t, s, h => by
    unfold lastSaved at h
    cases ht : lastSaved n t with
    | some s' =>
      rw [ht] at h
      injection h with h; subst h
      obtain ⟨h1, m, hm⟩ := lastSaved_name ht
      exact ⟨h1, m, List.mem_cons_of_mem _ hm⟩
    | none =>
      rw [ht] at h
      simp only at h
      split at h
      · rename_i hn
        injection h with h; subst h
        exact ⟨hn, hd.1, List.mem_cons_self⟩
      · cases h

/-- **Store invariant**: after ANY history (each save with its own `max_checkpoints`), every file of the directory
    either holds exactly the encoding of the state most recently saved under its name, or nothing was ever saved
    under its name and it is the file — name and bytes — the directory started with. -/
theorem savesV_content : ∀ (hist : Hist) (fs : FS) (f : Name × Bytes), f ∈ savesV fs hist →
    (∀ s, lastSaved f.1 hist = some s → f.2 = encode s) ∧ (lastSaved f.1 hist = none → f ∈ fs)
  | [], fs, f, h => ⟨fun s hs => (by cases hs), fun _ => h⟩
  | hd :: t, fs, f, h => by
    rw [savesV_cons] at h
    obtain ⟨ih1, ih2⟩ := savesV_content t _ f h
    unfold lastSaved
    cases ht : lastSaved f.1 t with
    | some s' =>
      refine ⟨fun s hs => ?_, fun hs => by cases hs⟩
      injection hs with hs; subst hs
      exact ih1 s' ht
    | none =>
      simp only
      rcases mem_write (mem_save (ih2 ht)) with ⟨h1, h2⟩ | ⟨h1, h2⟩
      · rw [if_pos h1.symm]
        exact ⟨fun s hs => (by injection hs with hs; subst hs; exact h2), fun hs => (by cases hs)⟩
      · rw [if_neg (fun e => h1 e.symm)]
        exact ⟨fun s hs => (by cases hs), fun _ => h2⟩

theorem read_some_mem {fs : FS} {n : Name} (h : n ∈ names fs) : ∃ c, read fs n = some c ∧ (n, c) ∈ fs := by
  unfold read
  obtain ⟨f, hf, e⟩ := List.mem_map.mp h
  cases hfind : fs.find? (fun g => g.1 == n) with
  | none =>
    have := List.find?_eq_none.mp hfind f hf
    simp [e] at this
  | some g =>
    have hg := List.find?_some hfind
    have hmem := List.mem_of_find?_eq_some hfind
    have : g.1 = n := by simpa using hg
    refine ⟨g.2, rfl, ?_⟩
    rw [← this]; exact hmem

theorem names_nodup_savesV : ∀ (hist : Hist) (fs : FS), (names fs).Nodup → (names (savesV fs hist)).Nodup
  | [], _, hn => hn
  | hd :: t, fs, hn => by
    rw [savesV_cons]
    exact names_nodup_savesV t _ (names_cleanup_nodup _ _ (names_write_nodup hn _ _) hd.1)

end IB.Checkpoint
