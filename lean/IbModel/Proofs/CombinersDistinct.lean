import IbModel.Proofs.CombinerLaws
/-!
# Helper lemmas for C06: DistinctCount / DistinctSet (the `HashSet` accumulator, `R = List.Perm`)
-/
namespace IB.Combiners
open IB

section
variable {α : Type} [DecidableEq α]

theorem mem_setInsert {s : List α} {v x : α} : x ∈ setInsert s v ↔ x = v ∨ x ∈ s := by
  unfold setInsert
  split
  · constructor
    · exact Or.inr
    · rintro (rfl | h)
      · assumption
      · exact h
  · simp

theorem count_setInsert (s : List α) (v x : α) :
    (setInsert s v).count x = if v ∈ s then s.count x else s.count x + (if v = x then 1 else 0) := by
  unfold setInsert
  split
  · rfl
  · rw [List.count_cons]; simp

/-- how often `x` occurs after `extend`: elements already present keep their count, new ones occur once -/
theorem count_setExtend (s o : List α) (x : α) :
    (setExtend s o).count x = if x ∈ s then s.count x else if x ∈ o then 1 else 0 := by
  induction o generalizing s with
  | nil =>
    simp only [setExtend, List.foldl_nil, List.not_mem_nil, if_false]
    split
    · rfl
    · exact List.count_eq_zero_of_not_mem ‹_›
  | cons v o ih =>
    have step : setExtend s (v :: o) = setExtend (setInsert s v) o := rfl
    rw [step, ih, count_setInsert]
    by_cases hxs : x ∈ s
    · have : x ∈ setInsert s v := mem_setInsert.mpr (Or.inr hxs)
      rw [if_pos this, if_pos hxs]
      split
      · rfl
      · next hv =>
        have : v ≠ x := fun e => hv (e ▸ hxs)
        simp [this]
    · rw [if_neg hxs]
      have hc : s.count x = 0 := List.count_eq_zero_of_not_mem hxs
      by_cases hxv : x = v
      · subst hxv
        have : x ∈ setInsert s x := mem_setInsert.mpr (Or.inl rfl)
        rw [if_pos this, if_neg hxs, hc]; simp
      · have : x ∉ setInsert s v := fun h => (mem_setInsert.mp h).elim hxv hxs
        rw [if_neg this]
        simp [hxv]

theorem mem_setExtend {s o : List α} {x : α} : x ∈ setExtend s o ↔ x ∈ s ∨ x ∈ o := by
  rw [← List.count_pos_iff, count_setExtend]
  by_cases h1 : x ∈ s
  · simp [h1, List.count_pos_iff]
  · by_cases h2 : x ∈ o <;> simp [h1, h2]

/-- the fold from the empty set holds every value exactly once -/
theorem count_setCollect (xs : List α) (x : α) :
    (setCollect xs).count x = if x ∈ xs then 1 else 0 := by
  have := count_setExtend [] xs x
  simpa [setExtend, setCollect] using this

theorem mem_setCollect {xs : List α} {x : α} : x ∈ setCollect xs ↔ x ∈ xs := by
  rw [← List.count_pos_iff, count_setCollect]; split <;> simp [*]

theorem nodup_setCollect (xs : List α) : (setCollect xs).Nodup := by
  rw [List.nodup_iff_count]
  intro x; rw [count_setCollect]; split <;> omega

theorem setCollect_eq_nil {xs : List α} (h : setCollect xs = []) : xs = [] := by
  cases xs with
  | nil => rfl
  | cons x xs =>
    have : x ∈ setCollect (x :: xs) := mem_setCollect.mpr (List.mem_cons_self ..)
    rw [h] at this; simp at this

theorem count_setMerge (a b : List α) (x : α) :
    (setMerge a b).count x =
      if a = [] then b.count x else if x ∈ a then a.count x else if x ∈ b then 1 else 0 := by
  unfold setMerge
  cases a with
  | nil => simp
  | cons y a => simp only [List.isEmpty_cons, Bool.false_eq_true, if_false, count_setExtend]; simp

theorem setInsert_perm {a b : List α} (v : α) (h : a.Perm b) : (setInsert a v).Perm (setInsert b v) := by
  unfold setInsert
  by_cases hv : v ∈ a
  · rw [if_pos hv, if_pos (h.mem_iff.mp hv)]; exact h
  · rw [if_neg hv, if_neg (fun h' => hv (h.mem_iff.mpr h'))]; exact h.cons v

theorem setMerge_perm {a a' b b' : List α} (ha : a.Perm a') (hb : b.Perm b') :
    (setMerge a b).Perm (setMerge a' b') := by
  rw [List.perm_iff_count]
  intro x
  rw [count_setMerge, count_setMerge]
  have e1 : a = [] ↔ a' = [] := by
    constructor
    · intro h; subst h; exact ha.symm.eq_nil
    · intro h; subst h; exact ha.eq_nil
  by_cases h : a = []
  · rw [if_pos h, if_pos (e1.mp h)]; exact List.perm_iff_count.mp hb x
  · rw [if_neg h, if_neg (fun h' => h (e1.mpr h'))]
    have m1 : x ∈ a ↔ x ∈ a' := ha.mem_iff
    have m2 : x ∈ b ↔ x ∈ b' := hb.mem_iff
    have c1 := List.perm_iff_count.mp ha x
    by_cases hx : x ∈ a
    · rw [if_pos hx, if_pos (m1.mp hx), c1]
    · rw [if_neg hx, if_neg (fun h' => hx (m1.mpr h'))]
      by_cases hy : x ∈ b
      · rw [if_pos hy, if_pos (m2.mp hy)]
      · rw [if_neg hy, if_neg (fun h' => hy (m2.mpr h'))]

theorem setMerge_collect_perm (xs ys : List α) :
    (setMerge (setCollect xs) (setCollect ys)).Perm (setCollect (xs ++ ys)) := by
  rw [List.perm_iff_count]
  intro x
  rw [count_setMerge, count_setCollect, count_setCollect, count_setCollect]
  simp only [mem_setCollect, List.mem_append]
  by_cases h : setCollect xs = []
  · have := setCollect_eq_nil h; subst this; simp [h]
  · rw [if_neg h]
    by_cases h1 : x ∈ xs <;> by_cases h2 : x ∈ ys <;> simp [h1, h2]

theorem setMerge_collect_comm (xs ys : List α) :
    (setMerge (setCollect xs) (setCollect ys)).Perm (setMerge (setCollect ys) (setCollect xs)) :=
  (setMerge_collect_perm xs ys).trans
    ((by
      rw [List.perm_iff_count]; intro x
      rw [count_setCollect, count_setCollect]; simp only [List.mem_append]
      by_cases h1 : x ∈ xs <;> by_cases h2 : x ∈ ys <;> simp [h1, h2] :
      (setCollect (xs ++ ys)).Perm (setCollect (ys ++ xs))).trans (setMerge_collect_perm ys xs).symm)

end

/-- `List.eraseDups` (core) is duplicate-free — used to phrase "number of distinct values" -/
theorem nodup_eraseDups {α : Type} [DecidableEq α] : ∀ (l : List α), l.eraseDups.Nodup
  | [] => by simp
  | a :: as => by
    rw [List.eraseDups_cons]
    have _hlt : (as.filter fun b => !b == a).length < (a :: as).length :=
      Nat.lt_succ_of_le (List.length_filter_le _ _)
    have ih := nodup_eraseDups (as.filter fun b => !b == a)
    refine List.nodup_cons.mpr ⟨?_, ih⟩
    intro hm
    have := List.mem_eraseDups.mp hm
    simp at this
termination_by l => l.length

/-! sorting with an antisymmetric total order is canonical -/

structure TotalOrderB {α : Type} (le : α → α → Bool) : Prop where
  trans : ∀ a b c, le a b = true → le b c = true → le a c = true
  total : ∀ a b, (le a b || le b a) = true
  antisymm : ∀ a b, le a b = true → le b a = true → a = b

theorem leInt_total : TotalOrderB leInt where
  trans a b c h1 h2 := by simp only [leInt, decide_eq_true_eq] at *; omega
  total a b := by simp only [leInt, Bool.or_eq_true, decide_eq_true_eq]; omega
  antisymm a b h1 h2 := by simp only [leInt, decide_eq_true_eq] at *; omega

theorem TotalOrderB.flip {α : Type} {le : α → α → Bool} (h : TotalOrderB le) :
    TotalOrderB (fun a b => le b a) where
  trans a b c h1 h2 := h.trans c b a h2 h1
  total a b := h.total b a
  antisymm a b h1 h2 := h.antisymm a b h2 h1

theorem sorted_perm_eq {α : Type} {le : α → α → Bool} (h : TotalOrderB le) {l₁ l₂ : List α}
    (h1 : l₁.Pairwise (fun a b => le a b = true)) (h2 : l₂.Pairwise (fun a b => le a b = true))
    (p : l₁.Perm l₂) : l₁ = l₂ :=
  List.Perm.eq_of_pairwise (fun a b _ _ hab hba => h.antisymm a b hab hba) h1 h2 p

theorem mergeSort_sorted {α : Type} {le : α → α → Bool} (h : TotalOrderB le) (l : List α) :
    (l.mergeSort le).Pairwise (fun a b => le a b = true) :=
  List.pairwise_mergeSort h.trans h.total l

theorem mergeSort_perm_eq {α : Type} {le : α → α → Bool} (h : TotalOrderB le) {l₁ l₂ : List α}
    (p : l₁.Perm l₂) : l₁.mergeSort le = l₂.mergeSort le :=
  sorted_perm_eq h (mergeSort_sorted h _) (mergeSort_sorted h _)
    ((List.mergeSort_perm l₁ le).trans (p.trans (List.mergeSort_perm l₂ le).symm))

section
variable {α : Type} [DecidableEq α]

theorem distinct_fold_eq (c : Combiner α (List α) (List α)) (hc : c.create = []) (ha : c.add = setInsert)
    (xs : List α) : c.foldAdd c.create xs = setCollect xs := by
  simp [Combiner.foldAdd, hc, ha, setCollect]

theorem distinctCount_mergeable' (α : Type) [DecidableEq α] :
    Mergeable (distinctCount α) List.Perm where
  refl a := List.Perm.refl a
  symm h := h.symm
  trans h1 h2 := h1.trans h2
  merge_congr ha hb := setMerge_perm ha hb
  finish_congr h := h.length_eq
  merge_fold xs ys := setMerge_collect_perm xs ys
  build_fold _ := List.Perm.refl _
  add_congr v h := setInsert_perm v h
  merge_comm xs ys := setMerge_collect_comm xs ys

theorem distinctSetBy_mergeable' (le : α → α → Bool) (hle : TotalOrderB le) :
    Mergeable (distinctSetBy le) List.Perm where
  refl a := List.Perm.refl a
  symm h := h.symm
  trans h1 h2 := h1.trans h2
  merge_congr ha hb := setMerge_perm ha hb
  finish_congr h := mergeSort_perm_eq hle h
  merge_fold xs ys := setMerge_collect_perm xs ys
  build_fold _ := List.Perm.refl _
  add_congr v h := setInsert_perm v h
  merge_comm xs ys := setMerge_collect_comm xs ys

end

end IB.Combiners
