import IbModel.Model.Closures
import IbModel.Proofs.FanIn
/-! `VecOpsImpl::split` returns contiguous chunks whose concatenation is the vector, for every `n`. -/
namespace IB

theorem vecSplit_flatten (xs : List Val) (n : Nat) : (vecSplit xs n).flatten = xs := by
  unfold vecSplit
  split
  · simp
  · rename_i h
    have hn : 2 ≤ n := by omega
    have hl : 2 ≤ xs.length := by omega
    have hk : 1 ≤ (xs.length + n - 1) / n := by
      rw [Nat.le_div_iff_mul_le (by omega)]
      omega
    exact chunksOf_flatten _ hk xs.length xs (Nat.le_refl _)

end IB
