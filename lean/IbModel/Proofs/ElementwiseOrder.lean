import IbModel.Proofs.ElementwisePlan
/-!
# C02 helpers (3): the order in which the planner runs an element-wise program

A stable sort by a key with three classes is the concatenation of the three classes (each in its
original order). Hence the reorder pass on an all-value-only block of `> 1` operators runs
all `filter_values` first, then all `map_values_batches`, then all `map_values` — `plannerOrder` —
and the planned run of ANY element-wise program is `interp (plannerOrder steps)`.
-/
namespace IB

section generic
variable {α : Type}

theorem sorted_eq_classes3 (key : α → Nat) (s : List α) (hb : ∀ a ∈ s, key a < 3)
    (hs : s.Pairwise (fun a b => key a ≤ key b)) :
    s = s.filter (key · == 0) ++ (s.filter (key · == 1) ++ s.filter (key · == 2)) := by
  induction s with
  | nil => rfl
  | cons x t ih =>
    have hx : key x < 3 := hb x (by simp)
    obtain ⟨hxt, ht⟩ := List.pairwise_cons.mp hs
    have ih' := ih (fun a ha => hb a (List.mem_cons_of_mem _ ha)) ht
    have hcase : key x = 0 ∨ key x = 1 ∨ key x = 2 := by omega
    rcases hcase with h | h | h
    · simp only [List.filter_cons, h, beq_self_eq_true, ↓reduceIte, List.cons_append,
        show ((0 : Nat) == 1) = false from rfl, show ((0 : Nat) == 2) = false from rfl,
        Bool.false_eq_true]
      exact congrArg (x :: ·) ih'
    · have h0 : t.filter (key · == 0) = [] := by
        apply List.filter_eq_nil_iff.mpr
        intro a ha
        have := hxt a ha
        simp only [beq_iff_eq]; omega
      rw [h0] at ih'
      simp only [List.filter_cons, h, h0, beq_self_eq_true, ↓reduceIte, List.nil_append,
        List.cons_append, show ((1 : Nat) == 0) = false from rfl,
        show ((1 : Nat) == 2) = false from rfl, Bool.false_eq_true]
      exact congrArg (x :: ·) ih'
    · have h0 : t.filter (key · == 0) = [] := by
        apply List.filter_eq_nil_iff.mpr
        intro a ha
        have := hxt a ha
        simp only [beq_iff_eq]; omega
      have h1 : t.filter (key · == 1) = [] := by
        apply List.filter_eq_nil_iff.mpr
        intro a ha
        have := hxt a ha
        simp only [beq_iff_eq]; omega
      rw [h0, h1] at ih'
      simp only [List.filter_cons, h, h0, h1, beq_self_eq_true, ↓reduceIte, List.nil_append,
        show ((2 : Nat) == 0) = false from rfl, show ((2 : Nat) == 1) = false from rfl,
        Bool.false_eq_true]
      exact congrArg (x :: ·) ih'

/-- stability: a stable sort keeps each key class in its original order -/
theorem mergeSort_filter_class (key : α → Nat) (l : List α) (i : Nat) :
    (l.mergeSort (fun a b => decide (key a ≤ key b))).filter (key · == i)
      = l.filter (key · == i) := by
  have htrans : ∀ a b c : α, decide (key a ≤ key b) = true → decide (key b ≤ key c) = true →
      decide (key a ≤ key c) = true := by
    intro a b c h1 h2; simp only [decide_eq_true_eq] at *; omega
  have htotal : ∀ a b : α, (decide (key a ≤ key b) || decide (key b ≤ key a)) = true := by
    intro a b; simp only [Bool.or_eq_true, decide_eq_true_eq]; omega
  have hpw : (l.filter (key · == i)).Pairwise
      (fun a b => decide (key a ≤ key b) = true) := by
    apply List.Pairwise.imp_of_mem (R := fun _ _ => True)
    · intro a b ha hb _
      have h1 := (List.mem_filter.mp ha).2
      have h2 := (List.mem_filter.mp hb).2
      simp only [beq_iff_eq] at h1 h2
      simp only [decide_eq_true_eq]; omega
    · exact List.pairwise_of_forall (fun _ _ => trivial)
  have hsub := List.sublist_mergeSort htrans htotal hpw List.filter_sublist
  have hsub' := hsub.filter (key · == i)
  rw [List.filter_filter] at hsub'
  simp only [Bool.and_self] at hsub'
  have hlen := ((List.mergeSort_perm l (fun a b => decide (key a ≤ key b))).filter
    (key · == i)).length_eq
  exact (hsub'.eq_of_length hlen.symm).symm

/-- a stable sort by a key with classes 0, 1, 2 = class 0 ++ class 1 ++ class 2 -/
theorem mergeSort_classes3 (key : α → Nat) (l : List α) (hb : ∀ a ∈ l, key a < 3) :
    l.mergeSort (fun a b => decide (key a ≤ key b))
      = l.filter (key · == 0) ++ (l.filter (key · == 1) ++ l.filter (key · == 2)) := by
  have htrans : ∀ a b c : α, decide (key a ≤ key b) = true → decide (key b ≤ key c) = true →
      decide (key a ≤ key c) = true := by
    intro a b c h1 h2; simp only [decide_eq_true_eq] at *; omega
  have htotal : ∀ a b : α, (decide (key a ≤ key b) || decide (key b ≤ key a)) = true := by
    intro a b; simp only [Bool.or_eq_true, decide_eq_true_eq]; omega
  have hs := List.pairwise_mergeSort htrans htotal l
  have hs' : (l.mergeSort (fun a b => decide (key a ≤ key b))).Pairwise
      (fun a b => key a ≤ key b) := hs.imp (fun h => by simpa using h)
  have := sorted_eq_classes3 key _ (fun a ha => hb a (List.mem_mergeSort.mp ha)) hs'
  rw [mergeSort_filter_class, mergeSort_filter_class, mergeSort_filter_class] at this
  exact this

end generic

/-! ## the planner's order on steps -/

/-- the class of a step under `(cost ≠ 1, cost)`: filter_values(1) < map_values_batches(2) <
    map_values(3) < everything else (10) -/
def EStep.rank : EStep → Nat
  | .filterValues _ => 0
  | .mapValuesBatches _ _ => 1
  | .mapValues _ => 2
  | _ => 3

theorem opLe_toOp (s t : EStep) :
    keyLe (sortKey s.toOp) (sortKey t.toOp) = decide (s.rank ≤ t.rank) := by
  cases s <;> cases t <;> rfl

theorem rank_lt_of_valueOnly (s : EStep) (h : s.isValueOnly = true) : s.rank < 3 := by
  cases s <;> simp_all [EStep.isValueOnly, EStep.rank]

/-- the order in which the optimised plan runs the steps of an element-wise program -/
def plannerOrder (steps : List EStep) : List EStep :=
  if steps.all EStep.isValueOnly && decide (steps.length > 1) then
    steps.filter (·.rank == 0) ++ (steps.filter (·.rank == 1) ++ steps.filter (·.rank == 2))
  else steps

theorem reorderBlock_toOp (steps : List EStep) :
    reorderBlock (steps.map EStep.toOp) = (plannerOrder steps).map EStep.toOp := by
  unfold reorderBlock plannerOrder
  have hall : (steps.map EStep.toOp).all movable = steps.all EStep.isValueOnly := by
    rw [List.all_map]
    congr 1
    funext s
    exact movable_toOp s
  rw [hall, List.length_map]
  split
  · next hc =>
    simp only [Bool.and_eq_true, List.all_eq_true, decide_eq_true_eq] at hc
    have hm := List.map_mergeSort (r := fun a b => decide (EStep.rank a ≤ EStep.rank b))
      (s := fun a b : DynOp Part => keyLe (sortKey a) (sortKey b)) (f := EStep.toOp) (l := steps)
      (fun a _ b _ => (opLe_toOp a b).symm)
    rw [← hm]
    rw [mergeSort_classes3 EStep.rank steps (fun a ha => rank_lt_of_valueOnly a (hc.1 a ha))]
  · rfl

/-- the planner keeps every step exactly once: its order is a permutation of the program -/
theorem plannerOrder_perm (steps : List EStep) : (plannerOrder steps).Perm steps := by
  unfold plannerOrder
  split
  · next hc =>
    simp only [Bool.and_eq_true, List.all_eq_true, decide_eq_true_eq] at hc
    rw [← mergeSort_classes3 EStep.rank steps (fun a ha => rank_lt_of_valueOnly a (hc.1 a ha))]
    exact List.mergeSort_perm _ _
  · exact List.Perm.refl _

/-- `BlockInert` for an element-wise program, read on the steps: if all steps are value-only and
    there are at least two, their classes are already ascending -/
theorem blockInert_toOp_iff (steps : List EStep) :
    BlockInert (steps.map EStep.toOp) ↔
      ((steps.all EStep.isValueOnly && decide (steps.length > 1)) = true →
        steps.Pairwise (fun a b => a.rank ≤ b.rank)) := by
  unfold BlockInert
  have hall : (steps.map EStep.toOp).all movable = steps.all EStep.isValueOnly := by
    rw [List.all_map]
    congr 1
    funext s
    exact movable_toOp s
  rw [hall, List.length_map, List.pairwise_map]
  simp only [opLe, opLe_toOp, decide_eq_true_eq]

theorem plannerOrder_of_inert (steps : List EStep) (h : BlockInert (steps.map EStep.toOp)) :
    (plannerOrder steps).map EStep.toOp = steps.map EStep.toOp := by
  rw [← reorderBlock_toOp, reorderBlock_of_inert _ h]

/-- the planned run of EVERY element-wise program is the list interpretation of the steps in
    the planner's order -/
theorem planned_seq_eq_interp_plannerOrder (xs : List Val) (steps : List EStep) :
    execSeq (optimise (elemChain xs steps)) = .ok (interp (plannerOrder steps) xs) := by
  rw [planned_seq_eq, reorderBlock_toOp, applyOps_toOp]

theorem plannerOrder_parOK (steps : List EStep) (hp : ∀ s ∈ steps, s.ParOK) :
    ∀ s ∈ plannerOrder steps, s.ParOK := by
  intro s hs
  unfold plannerOrder at hs
  split at hs
  · simp only [List.mem_append, List.mem_filter] at hs
    rcases hs with h | h | h <;> exact hp s h.1
  · exact hp s hs

theorem planned_par_plannerOrder_aux (xs : List Val) (steps : List EStep)
    (hp : ∀ s ∈ steps, s.ParOK) (n : Nat) :
    execPar List.flatten (optimise (elemChain xs steps)) n
      = .ok (interp (plannerOrder steps) xs) := by
  rw [planned_par_eq, reorderBlock_toOp]
  have hp' := plannerOrder_parOK steps hp
  have h := applyOps_concat List.flatten ((plannerOrder steps).map EStep.toOp)
    (by
      intro op hop ps
      obtain ⟨s, hs, rfl⟩ := List.mem_map.mp hop
      exact toOp_flatten s (hp' s hs) ps)
    (vecSplit xs (clampParts n xs.length))
  rw [← h, vecSplit_flatten', applyOps_toOp]

end IB
