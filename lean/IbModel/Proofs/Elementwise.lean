import IbModel.Model.Closures
import IbModel.Model.Planner
import IbModel.Proofs.FanIn
/-!
# C02 helpers (1): the independent list interpretation of element-wise steps

`EStep` is the element-wise subset of the builder calls with ARBITRARY (shallow) user functions.
`interp` is the specification: plain `List.map / filter / flatMap` and a *positional* description of
`slice::chunks` (`batches`), folded in the order the user wrote the steps. It mentions no engine
definition (`DynOp`, `Node`, `applyOps`, `chunksOf`, `execSeq`, … do not occur in it).
`EStep.toOp` / `EStep.toNode` is the translation to what the Rust builders insert (one `Stateless`
node holding one operator).
-/
namespace IB
open Val

/-! ## the specification side (engine-free) -/

/-- `slice::chunks(n)` described positionally: batch `i` is `xs[i*n .. min((i+1)*n, len))`,
    for `i < ceil(len / n)` -/
def batches {α : Type} (n : Nat) (xs : List α) : List (List α) :=
  (List.range ((xs.length + n - 1) / n)).map (fun i => (xs.drop (i * n)).take n)

inductive EStep where
  | map (f : Val → Val)
  | filter (p : Val → Bool)
  | flatMap (f : Val → List Val)
  | keyBy (f : Val → Val)
  | mapValues (f : Val → Val)
  | filterValues (p : Val → Bool)
  | mapBatches (n : Nat) (f : List Val → List Val)
  | mapValuesBatches (n : Nat) (f : List Val → List Val)

/-- what ONE step means on the whole sequence of rows (batch size 0 is documented as 1) -/
def EStep.eval : EStep → List Val → List Val
  | .map f, rows => rows.map f
  | .filter p, rows => rows.filter p
  | .flatMap f, rows => rows.flatMap f
  | .keyBy f, rows => rows.map (fun t => .pair (f t) t)
  | .mapValues f, rows => rows.map (fun r => .pair r.key (f r.value))
  | .filterValues p, rows => rows.filter (fun r => p r.value)
  | .mapBatches n f, rows => (batches (max n 1) rows).flatMap f
  | .mapValuesBatches n f, rows =>
      (batches (max n 1) rows).flatMap
        (fun c => rekeyChunk c (f (c.map Val.value)))

/-- the independent list interpretation: the steps one after another, in program order -/
def interp (steps : List EStep) (xs : List Val) : List Val :=
  steps.foldl (fun rows s => s.eval rows) xs

@[simp] theorem interp_nil (xs : List Val) : interp [] xs = xs := rfl
@[simp] theorem interp_cons (s : EStep) (steps : List EStep) (xs : List Val) :
    interp (s :: steps) xs = interp steps (s.eval xs) := rfl
theorem interp_append (a b : List EStep) (xs : List Val) :
    interp (a ++ b) xs = interp b (interp a xs) := by
  simp [interp, List.foldl_append]

/-! ## the implementation side: what the builders insert -/

def EStep.toOp : EStep → DynOp Part
  | .map f => mapOp f
  | .filter p => filterOp p
  | .flatMap f => flatMapOp f
  | .keyBy f => keyByOp f
  | .mapValues f => mapValuesOp f
  | .filterValues p => filterValuesOp p
  | .mapBatches n f => batchMapOp n f
  | .mapValuesBatches n f => batchMapValuesOp n f

def EStep.toNode (s : EStep) : Node Part := .stateless [s.toOp]

/-- the literal chain of `from_vec(xs)` followed by the builder calls `steps` -/
def elemChain (xs : List Val) (steps : List EStep) : List (Node Part) :=
  vecSource xs :: steps.map EStep.toNode

/-! ## `chunksOf` (the transliterated loop) = `batches` (the positional description) -/

theorem batches_nil {α : Type} (n : Nat) (hn : 1 ≤ n) : batches n ([] : List α) = [] := by
  have : ([] : List α).length + n - 1 < n := by simp; omega
  simp only [batches, Nat.div_eq_of_lt this, List.range_zero, List.map_nil]

theorem batches_step {α : Type} (n : Nat) (hn : 1 ≤ n) (xs : List α) (hne : xs ≠ []) :
    batches n xs = xs.take n :: batches n (xs.drop n) := by
  have hl : 0 < xs.length := List.length_pos_iff.mpr hne
  have hcount : (xs.length + n - 1) / n = ((xs.drop n).length + n - 1) / n + 1 := by
    rw [List.length_drop]
    by_cases h : n ≤ xs.length
    · have : xs.length + n - 1 = (xs.length - n + n - 1) + n := by omega
      rw [this, Nat.add_div_right _ (by omega)]
    · have h1 : xs.length - n = 0 := by omega
      have h2 : (0 + n - 1) / n = 0 := by
        rw [Nat.zero_add]; exact Nat.div_eq_of_lt (by omega)
      rw [h1, h2]
      have : xs.length + n - 1 = (xs.length - 1) + n := by omega
      rw [this, Nat.add_div_right _ (by omega), Nat.div_eq_of_lt (by omega)]
  unfold batches
  rw [hcount, List.range_succ_eq_map]
  simp only [List.map_cons, List.map_map, Nat.zero_mul, List.drop_zero, List.cons.injEq, true_and]
  apply List.map_congr_left
  intro i _
  simp only [Function.comp_def, List.drop_drop, Nat.succ_eq_add_one]
  congr 2
  rw [Nat.add_mul]; omega

theorem chunksOf_eq_batches {α : Type} (n : Nat) (hn : 1 ≤ n) :
    ∀ (fuel : Nat) (xs : List α), xs.length ≤ fuel → chunksOf n fuel xs = batches n xs := by
  intro fuel
  induction fuel with
  | zero =>
    intro xs h
    have : xs = [] := List.length_eq_zero_iff.mp (by omega)
    subst this
    simp [chunksOf, batches_nil n hn]
  | succ fuel ih =>
    intro xs h
    unfold chunksOf
    by_cases he : xs.isEmpty
    · have : xs = [] := List.isEmpty_iff.mp he
      subst this
      simp [batches_nil n hn]
    · have hne : xs ≠ [] := by intro h0; simp [h0] at he
      have hl : 0 < xs.length := List.length_pos_iff.mpr hne
      simp only [he, Bool.false_eq_true, ↓reduceIte]
      rw [batches_step n hn xs hne, ih (xs.drop n) (by simp; omega)]

theorem chunks_eq_batches (n : Nat) (hn : 1 ≤ n) (xs : List Val) : chunks n xs = batches n xs :=
  chunksOf_eq_batches n hn xs.length xs (Nat.le_refl _)

theorem batches_flatten {α : Type} (n : Nat) (hn : 1 ≤ n) (xs : List α) :
    (batches n xs).flatten = xs := by
  rw [← chunksOf_eq_batches n hn xs.length xs (Nat.le_refl _)]
  exact chunksOf_flatten n hn xs.length xs (Nat.le_refl _)

/-! ## one operator = one step -/

/-- the operator a builder inserts computes exactly the step's list meaning -/
theorem toOp_apply (s : EStep) (rows : List Val) : s.toOp.apply rows = s.eval rows := by
  cases s with
  | mapBatches n f =>
    show (chunks (max n 1) rows).flatMap f = _
    rw [chunks_eq_batches _ (by omega)]; rfl
  | mapValuesBatches n f =>
    show (chunks (max n 1) rows).flatMap _ = _
    rw [chunks_eq_batches _ (by omega)]; rfl
  | _ => rfl

theorem applyOps_append {P : Type} (a b : List (DynOp P)) (x : P) :
    applyOps (a ++ b) x = applyOps b (applyOps a x) := by
  simp [applyOps, List.foldl_append]

/-- a (fused, un-reordered) block of operators computes the steps in order -/
theorem applyOps_toOp (steps : List EStep) (rows : List Val) :
    applyOps (steps.map EStep.toOp) rows = interp steps rows := by
  induction steps generalizing rows with
  | nil => rfl
  | cons s steps ih =>
    show applyOps (steps.map EStep.toOp) (s.toOp.apply rows) = _
    rw [ih, toOp_apply]; rfl

/-! ## the literal chain -/

theorem foldlM_elem (steps : List EStep) (rows : List Val) :
    (steps.map EStep.toNode).foldlM
        (fun cur n => do let b ← stepSeq cur n; pure (some b)) (some rows)
      = (pure (some (interp steps rows)) : M (Option Part)) := by
  induction steps generalizing rows with
  | nil => rfl
  | cons s steps ih =>
    have h1 : stepSeq (some rows) s.toNode = pure (s.eval rows) := by
      show (pure (applyOps [s.toOp] rows) : M Part) = _
      show (pure (s.toOp.apply rows) : M Part) = _
      rw [toOp_apply]
    simp only [List.map_cons, List.foldlM_cons, h1, pure_bind]
    rw [ih]; rfl

theorem execSeq_elemChain (xs : List Val) (steps : List EStep) :
    execSeq (elemChain xs steps) = .ok (interp steps xs) := by
  have h0 : stepSeq (none : Option Part) (vecSource xs) = pure xs := rfl
  simp only [execSeq, elemChain, List.foldlM_cons, h0, pure_bind, foldlM_elem]
  rfl

end IB
