import IbModel.Model.Closures
/-!
# Insertion-ordered association lists: `upsert`, `upsertFold`, `groupRows`

The small theory the join proofs need (kept independent of `Proofs/AList.lean`):
* `lookupKV_upsert`, `keys_upsert`, `keys_nodup_upsert`;
* `lookupKV_groupRows` : lookup of `k` in `groupRows rows` = the values of the rows with key `k`, in order
  (`none` iff there is no such row);
* `keys_nodup_groupRows`, `lookupKV_of_mem` (an entry of a map with distinct keys is what lookup finds);
* `groupRows_flatMap_perm` : regrouping then flattening is a permutation of the row-wise `flatMap`.
-/
namespace IB.Join
open Val

/-! ## generic `List.Perm` helpers missing from core -/

theorem perm_flatMap_congr {α β : Type} (l : List α) {f g : α → List β}
    (h : ∀ a ∈ l, (f a).Perm (g a)) : (l.flatMap f).Perm (l.flatMap g) := by
  induction l with
  | nil => exact List.Perm.refl _
  | cons a l ih =>
    simp only [List.flatMap_cons]
    exact (h a (by simp)).append (ih (fun b hb => h b (by simp [hb])))

theorem flatMap_congr_mem {α β : Type} (l : List α) {f g : α → List β}
    (h : ∀ a ∈ l, f a = g a) : l.flatMap f = l.flatMap g := by
  induction l with
  | nil => rfl
  | cons a l ih =>
    simp only [List.flatMap_cons]
    rw [h a (by simp), ih (fun b hb => h b (by simp [hb]))]

theorem flatMap_append_perm {α β : Type} (l : List α) (f g : α → List β) :
    (l.flatMap (fun a => f a ++ g a)).Perm (l.flatMap f ++ l.flatMap g) := by
  induction l with
  | nil => exact List.Perm.refl _
  | cons a l ih =>
    simp only [List.flatMap_cons]
    -- (f a ++ g a) ++ X  ~  (f a ++ F) ++ (g a ++ G)
    refine ((List.Perm.refl (f a ++ g a)).append ih).trans ?_
    simp only [List.append_assoc]
    refine (List.Perm.refl (f a)).append ?_
    -- g a ++ (F ++ G) ~ F ++ (g a ++ G)
    rw [← List.append_assoc, ← List.append_assoc]
    exact List.perm_append_comm.append (List.Perm.refl _)

theorem flatMap_ite_singleton {α β : Type} (l : List α) (p : α → Bool) (f : α → β) :
    l.flatMap (fun a => if p a then [f a] else []) = (l.filter p).map f := by
  induction l with
  | nil => rfl
  | cons a l ih =>
    simp only [List.flatMap_cons, List.filter_cons, ih]
    cases p a <;> simp

theorem perm_any_eq {α : Type} {l l' : List α} (h : l.Perm l') (p : α → Bool) : l.any p = l'.any p := by
  rw [Bool.eq_iff_iff]
  simp only [List.any_eq_true]
  exact ⟨fun ⟨x, hx, hp⟩ => ⟨x, h.mem_iff.mp hx, hp⟩, fun ⟨x, hx, hp⟩ => ⟨x, h.mem_iff.mpr hx, hp⟩⟩

/-- the nested loop can be run with either side outermost -/
theorem flatMap_filter_swap {α β γ : Type} (L : List α) (R : List β) (p : α → β → Bool) (f : α → β → γ) :
    (L.flatMap (fun a => (R.filter (fun b => p a b)).map (fun b => f a b))).Perm
      (R.flatMap (fun b => (L.filter (fun a => p a b)).map (fun a => f a b))) := by
  induction L with
  | nil => simp
  | cons a L ih =>
    simp only [List.flatMap_cons, List.filter_cons]
    have h1 : (R.flatMap fun b => List.map (fun a => f a b)
          (if p a b = true then a :: List.filter (fun a => p a b) L else List.filter (fun a => p a b) L))
        = R.flatMap (fun b => (if p a b then [f a b] else []) ++
            (L.filter (fun a => p a b)).map (fun a => f a b)) := by
      apply flatMap_congr_mem
      intro b _
      cases p a b <;> simp
    rw [h1]
    refine List.Perm.trans ?_ (flatMap_append_perm R _ _).symm
    rw [flatMap_ite_singleton R (fun b => p a b) (fun b => f a b)]
    exact (List.Perm.refl _).append ih

/-! ## `upsert` / `lookupKV` -/

section AList
variable {β : Type}

theorem lookupKV_upsert (m : List (Val × β)) (k : Val) (i : β) (f : β → β) (q : Val) :
    lookupKV (upsert m k i f) q =
      if q = k then Option.some (f ((lookupKV m k).getD i)) else lookupKV m q := by
  induction m with
  | nil =>
    by_cases h : q = k
    · subst h; simp [upsert, lookupKV]
    · have : ¬ k = q := fun e => h e.symm
      simp [upsert, lookupKV, h, this]
  | cons e m ih =>
    obtain ⟨k', b⟩ := e
    by_cases hk : k' = k
    · subst hk
      by_cases h : q = k'
      · subst h; simp [upsert, lookupKV]
      · have : ¬ k' = q := fun e => h e.symm
        simp [upsert, lookupKV, h, this]
    · by_cases h : q = k
      · subst h
        simp [upsert, lookupKV, hk, ih]
      · by_cases h2 : k' = q
        · subst h2; simp [upsert, lookupKV, hk]
        · simp [upsert, lookupKV, hk, h2, ih, h]

theorem lookupKV_isSome_iff (m : List (Val × β)) (k : Val) :
    (lookupKV m k).isSome = true ↔ k ∈ m.map (·.1) := by
  induction m with
  | nil => simp [lookupKV]
  | cons e m ih =>
    obtain ⟨k', b⟩ := e
    by_cases h : k' = k
    · subst h; simp [lookupKV]
    · have : ¬ k = k' := fun e => h e.symm
      simp [lookupKV, h, ih, this]

theorem lookupKV_eq_none_iff (m : List (Val × β)) (k : Val) :
    lookupKV m k = Option.none ↔ k ∉ m.map (·.1) := by
  rw [← lookupKV_isSome_iff]
  cases lookupKV m k <;> simp

theorem keys_upsert (m : List (Val × β)) (k : Val) (i : β) (f : β → β) :
    (upsert m k i f).map (·.1) =
      if k ∈ m.map (·.1) then m.map (·.1) else m.map (·.1) ++ [k] := by
  induction m with
  | nil => simp [upsert]
  | cons e m ih =>
    obtain ⟨k', b⟩ := e
    by_cases h : k' = k
    · subst h; simp [upsert]
    · have : ¬ k = k' := fun e => h e.symm
      simp only [upsert, beq_iff_eq, h, ↓reduceIte, List.map_cons, ih, List.mem_cons, this, false_or]
      split <;> simp

theorem keys_nodup_upsert (m : List (Val × β)) (k : Val) (i : β) (f : β → β)
    (h : (m.map (·.1)).Nodup) : ((upsert m k i f).map (·.1)).Nodup := by
  rw [keys_upsert]
  split
  · exact h
  · rename_i hk
    rw [List.nodup_append]
    refine ⟨h, by simp, ?_⟩
    intro a ha b hb
    simp only [List.mem_singleton] at hb
    subst hb
    intro e; subst e; exact hk ha

theorem keys_nodup_upsertFold {γ : Type} (g : β → γ → β) (init : β) (m : List (Val × β))
    (items : List (Val × γ)) (h : (m.map (·.1)).Nodup) :
    ((upsertFold g init m items).map (·.1)).Nodup := by
  unfold upsertFold
  induction items generalizing m with
  | nil => exact h
  | cons it items ih =>
    simp only [List.foldl_cons]
    exact ih _ (keys_nodup_upsert m it.1 init _ h)

/-- in a map with distinct keys, lookup finds exactly the stored entry -/
theorem lookupKV_of_mem (m : List (Val × β)) (h : (m.map (·.1)).Nodup) (k : Val) (b : β)
    (hm : (k, b) ∈ m) : lookupKV m k = Option.some b := by
  induction m with
  | nil => simp at hm
  | cons e m ih =>
    obtain ⟨k', b'⟩ := e
    simp only [List.map_cons, List.nodup_cons] at h
    rcases List.mem_cons.mp hm with heq | hm'
    · cases heq; simp [lookupKV]
    · have hne : ¬ k' = k := by
        intro e; subst e
        exact h.1 (List.mem_map.mpr ⟨(k', b), hm', rfl⟩)
      simp only [lookupKV, beq_iff_eq, hne, ↓reduceIte]
      exact ih h.2 hm'

end AList

/-! ## `groupRows` -/

/-- the values of the rows with key `k`, in order -/
def valuesAt (rows : List Val) (k : Val) : List Val :=
  (rows.filter (fun r => r.key == k)).map Val.value

def hasKey (rows : List Val) (k : Val) : Bool := rows.any (fun r => r.key == k)

theorem valuesAt_eq_nil_of_not_hasKey (rows : List Val) (k : Val) (h : hasKey rows k = false) :
    rows.filter (fun r => r.key == k) = [] := by
  unfold hasKey at h
  rw [List.filter_eq_nil_iff]
  intro a ha
  have := (List.any_eq_false.mp h) a ha
  simpa using this

theorem groupRows_eq_foldl (rows : List Val) :
    groupRows rows = (rows.map rowKV).foldl
      (fun m it => upsert m it.1 [] (fun b => b ++ [it.2])) [] := rfl

/-- lookup after pushing `rows` into an existing map `m` -/
theorem lookupKV_pushRows (m : List (Val × List Val)) (rows : List Val) (k : Val) :
    lookupKV ((rows.map rowKV).foldl (fun m it => upsert m it.1 [] (fun b => b ++ [it.2])) m) k =
      if (lookupKV m k).isSome || hasKey rows k
      then Option.some ((lookupKV m k).getD [] ++ valuesAt rows k) else Option.none := by
  induction rows generalizing m with
  | nil =>
    simp only [List.map_nil, List.foldl_nil, hasKey, List.any_nil, Bool.or_false, valuesAt,
      List.filter_nil, List.append_nil]
    cases lookupKV m k <;> simp
  | cons r rows ih =>
    simp only [List.map_cons, List.foldl_cons]
    rw [ih, lookupKV_upsert]
    simp only [rowKV, hasKey, valuesAt, List.any_cons, List.filter_cons]
    by_cases h : k = r.key
    · subst h
      simp
    · have h' : ¬ r.key = k := fun e => h e.symm
      simp [h, h']

theorem lookupKV_groupRows (rows : List Val) (k : Val) :
    lookupKV (groupRows rows) k =
      if hasKey rows k then Option.some (valuesAt rows k) else Option.none := by
  rw [groupRows_eq_foldl, lookupKV_pushRows]
  simp [lookupKV]

theorem keys_nodup_groupRows (rows : List Val) : ((groupRows rows).map (·.1)).Nodup := by
  unfold groupRows
  exact keys_nodup_upsertFold _ _ _ _ (by simp)

theorem mem_keys_groupRows (rows : List Val) (k : Val) :
    k ∈ (groupRows rows).map (·.1) ↔ hasKey rows k = true := by
  rw [← lookupKV_isSome_iff, lookupKV_groupRows]
  cases hasKey rows k <;> simp

/-- every entry of `groupRows rows` is `(k, values of the rows with key k)` and is what lookup finds -/
theorem lookupKV_groupRows_of_mem (rows : List Val) (kv : Val × List Val) (h : kv ∈ groupRows rows) :
    lookupKV (groupRows rows) kv.1 = Option.some kv.2 :=
  lookupKV_of_mem _ (keys_nodup_groupRows rows) kv.1 kv.2 h

theorem groupRows_entry (rows : List Val) (kv : Val × List Val) (h : kv ∈ groupRows rows) :
    hasKey rows kv.1 = true ∧ kv.2 = valuesAt rows kv.1 := by
  have h1 := lookupKV_groupRows_of_mem rows kv h
  rw [lookupKV_groupRows] at h1
  cases hk : hasKey rows kv.1
  · simp [hk] at h1
  · simp only [hk, ↓reduceIte, Option.some.injEq] at h1
    exact ⟨rfl, h1.symm⟩

/-! ## regroup-then-flatten is a permutation of the row-wise `flatMap` -/

theorem upsert_push_flatMap_perm {γ : Type} (g : Val → Val → List γ) (m : List (Val × List Val))
    (k v : Val) :
    ((upsert m k [] (fun b => b ++ [v])).flatMap (fun kv => kv.2.flatMap (g kv.1))).Perm
      (m.flatMap (fun kv => kv.2.flatMap (g kv.1)) ++ g k v) := by
  induction m with
  | nil => simp [upsert]
  | cons e m ih =>
    obtain ⟨k', b⟩ := e
    by_cases h : k' = k
    · subst h
      simp only [upsert, beq_self_eq_true, ↓reduceIte, List.flatMap_cons, List.flatMap_append,
        List.flatMap_nil, List.append_nil, List.append_assoc]
      exact (List.Perm.refl _).append List.perm_append_comm
    · simp only [upsert, beq_iff_eq, h, ↓reduceIte, List.flatMap_cons, List.append_assoc]
      exact (List.Perm.refl _).append ih

theorem pushRows_flatMap_perm {γ : Type} (g : Val → Val → List γ) (m : List (Val × List Val))
    (rows : List Val) :
    (((rows.map rowKV).foldl (fun m it => upsert m it.1 [] (fun b => b ++ [it.2])) m).flatMap
        (fun kv => kv.2.flatMap (g kv.1))).Perm
      (m.flatMap (fun kv => kv.2.flatMap (g kv.1)) ++ rows.flatMap (fun r => g r.key r.value)) := by
  induction rows generalizing m with
  | nil => simp
  | cons r rows ih =>
    simp only [List.map_cons, List.foldl_cons, List.flatMap_cons]
    refine (ih _).trans ?_
    rw [← List.append_assoc]
    exact (upsert_push_flatMap_perm g m r.key r.value).append (List.Perm.refl _)

/-- grouping rows by key and then expanding every `(k, [v…])` entry value by value yields a
    permutation of expanding the rows one by one -/
theorem groupRows_flatMap_perm {γ : Type} (g : Val → Val → List γ) (rows : List Val) :
    ((groupRows rows).flatMap (fun kv => kv.2.flatMap (g kv.1))).Perm
      (rows.flatMap (fun r => g r.key r.value)) := by
  rw [groupRows_eq_foldl]
  simpa using pushRows_flatMap_perm g [] rows

end IB.Join
