import IbModel.Model.CloudGlob
import IbModel.Proofs.CloudGlob
/-!
Helper lemmas for C19: the float-bearing record type (`FRec`, `FRec.json`, `FRec.parse`) — printer/parser
round trip on finite values, what the parser does with the `null` a non-finite value is written as.
-/
namespace IB.CloudGlob

theorem stripPrefix_append (p s : Str) : stripPrefix p (p ++ s) = some s := by
  induction p with
  | nil => cases s <;> rfl
  | cons c p ih => simp [stripPrefix, ih]

theorem dropWhile_append_stop {p : Char → Bool} (a : Str) (c : Char) (rest : Str)
    (ha : ∀ x ∈ a, p x = true) (hc : p c = false) : (a ++ c :: rest).dropWhile p = c :: rest := by
  induction a with
  | nil => simp [hc]
  | cons x a ih =>
    have hx : p x = true := ha x (by simp)
    simp only [List.cons_append, List.dropWhile_cons, hx, if_true]
    exact ih (fun y hy => ha y (by simp [hy]))

theorem NumTok.sat (t : NumTok) : ∀ c ∈ t.text, isNumChar c = true := by
  have := t.ok
  simpa [List.all_eq_true] using this

theorem NumTok.ext' (a b : NumTok) (h : a.text = b.text) : a = b := by
  cases a; cases b; simp only [NumTok.mk.injEq]; exact h

theorem takeNum_tok (t : NumTok) (c : Char) (rest : Str) (hc : isNumChar c = false) :
    takeNum (t.text ++ c :: rest) = some (t, c :: rest) := by
  have h1 : (t.text ++ c :: rest).takeWhile isNumChar = t.text :=
    takeWhile_append_stop _ _ _ t.sat hc
  have h2 : (t.text ++ c :: rest).dropWhile isNumChar = c :: rest :=
    dropWhile_append_stop _ _ _ t.sat hc
  unfold takeNum
  rw [dif_pos (by rw [h1]; exact t.ne)]
  simp only [Option.some.injEq, Prod.mk.injEq]
  exact ⟨NumTok.ext' _ _ h1, h2⟩

theorem takeNum_null (rest : Str) : takeNum (nullText ++ rest) = none := by
  unfold takeNum
  have : (nullText ++ rest).takeWhile isNumChar = [] := by
    have hn : isNumChar 'n' = false := by decide
    simp [nullText, hn]
  rw [dif_neg (by simp [this])]

theorem stripPrefix_null_tok (t : NumTok) (rest : Str) : stripPrefix nullText (t.text ++ rest) = none := by
  cases h : t.text with
  | nil => exact absurd h t.ne
  | cons c cs =>
    have hc : isNumChar c = true := t.sat c (by simp [h])
    have : 'n' ≠ c := by
      rintro rfl
      revert hc; decide
    simp [nullText, stripPrefix, this]

/-! ### the array -/

theorem splitOnC_ne_nil (sep : Char) (s : Str) : splitOnC sep s ≠ [] := by
  induction s with
  | nil => simp [splitOnC]
  | cons c r ih =>
    unfold splitOnC
    split
    · simp
    · split <;> simp

theorem splitOnC_piece (sep : Char) (a rest : Str) (ha : sep ∉ a) :
    splitOnC sep (a ++ sep :: rest) = a :: splitOnC sep rest := by
  induction a with
  | nil => simp [splitOnC]
  | cons c a ih =>
    have hc : c ≠ sep := fun e => ha (by simp [e])
    have ha' : sep ∉ a := fun hm => ha (by simp [hm])
    simp only [List.cons_append, splitOnC, hc, if_false, ih ha']

theorem splitOnC_last (sep : Char) (a : Str) (ha : sep ∉ a) : splitOnC sep a = [a] := by
  induction a with
  | nil => rfl
  | cons c a ih =>
    have hc : c ≠ sep := fun e => ha (by simp [e])
    have ha' : sep ∉ a := fun hm => ha (by simp [hm])
    simp only [splitOnC, hc, if_false, ih ha']

theorem splitOnC_joinC (sep : Char) (ps : List Str) (hne : ps ≠ []) (h : ∀ p ∈ ps, sep ∉ p) :
    splitOnC sep (joinC sep ps) = ps := by
  induction ps with
  | nil => exact absurd rfl hne
  | cons a ps ih =>
    cases ps with
    | nil => simpa [joinC] using splitOnC_last sep a (h a (by simp))
    | cons b r =>
      simp only [joinC]
      rw [splitOnC_piece sep a _ (h a (by simp)), ih (by simp) (fun p hp => h p (by simp [hp]))]

/-- the characters a float is written with -/
def floatChar (c : Char) : Bool := isNumChar c || c == 'n' || c == 'u' || c == 'l'

theorem FVal.json_chars (f : FVal) : ∀ c ∈ f.json, floatChar c = true := by
  cases f with
  | fin t =>
    intro c hc
    simp [floatChar, t.sat c hc]
  | nan => decide
  | pinf => decide
  | ninf => decide

theorem FVal.json_ne_nil (f : FVal) : f.json ≠ [] := by
  cases f with
  | fin t => exact t.ne
  | nan => decide
  | pinf => decide
  | ninf => decide

theorem joinC_chars (sep : Char) (P : Char → Bool) (ps : List Str) (hsep : P sep = true)
    (h : ∀ p ∈ ps, ∀ c ∈ p, P c = true) : ∀ c ∈ joinC sep ps, P c = true := by
  induction ps with
  | nil => intro c hc; simp [joinC] at hc
  | cons a ps ih =>
    cases ps with
    | nil => simpa [joinC] using h a (by simp)
    | cons b r =>
      intro c hc
      simp only [joinC, List.mem_append, List.mem_cons] at hc
      rcases hc with hc | rfl | hc
      · exact h a (by simp) c hc
      · exact hsep
      · exact ih (fun p hp => h p (by simp [hp])) c hc

theorem joinC_eq_nil (sep : Char) (ps : List Str) (h : joinC sep ps = []) : ps = [] ∨ ps = [[]] := by
  cases ps with
  | nil => left; rfl
  | cons a ps =>
    cases ps with
    | nil => right; simpa [joinC] using h
    | cons b r => simp [joinC] at h

/-- the elements of the array, read back: all finite ↦ the same elements; a `null` among them ↦ failure -/
theorem mapM_numWhole (v : List FVal) :
    ((v.map FVal.json).mapM numWhole?).map (fun ts => ts.map FVal.fin) =
      if v.all FVal.isFin then some v else none := by
  induction v with
  | nil => rfl
  | cons f v ih =>
    cases f with
    | fin t =>
      have h1 : numWhole? t.text = some t := by
        unfold numWhole?
        rw [dif_pos ⟨t.ne, t.ok⟩]
      simp only [List.map_cons, FVal.json, List.mapM_cons, h1, List.all_cons, FVal.isFin, Bool.true_and]
      cases hm : (v.map FVal.json).mapM numWhole? with
      | none =>
        rw [hm] at ih
        simp only [Option.map_none] at ih
        cases hv : v.all FVal.isFin with
        | true => rw [hv] at ih; simp at ih
        | false => simp
      | some ts =>
        rw [hm] at ih
        simp only [Option.map_some] at ih
        cases hv : v.all FVal.isFin with
        | false => rw [hv] at ih; simp at ih
        | true =>
          rw [hv] at ih
          simp only [if_true, Option.some.injEq] at ih
          simp [ih]
    | nan =>
      have h1 : numWhole? nullText = none := by decide
      simp [FVal.json, List.mapM_cons, h1, FVal.isFin]
    | pinf =>
      have h1 : numWhole? nullText = none := by decide
      simp [FVal.json, List.mapM_cons, h1, FVal.isFin]
    | ninf =>
      have h1 : numWhole? nullText = none := by decide
      simp [FVal.json, List.mapM_cons, h1, FVal.isFin]

theorem parseV_json (v : List FVal) :
    parseV (joinC ',' (v.map FVal.json) ++ sfxV) = if v.all FVal.isFin then some v else none := by
  have hchars : ∀ c ∈ joinC ',' (v.map FVal.json), (c != ']') = true := by
    intro c hc
    have := joinC_chars ',' (fun c => floatChar c || c == ',') (v.map FVal.json) (by decide)
      (by
        intro p hp d hd
        obtain ⟨f, _, rfl⟩ := List.mem_map.mp hp
        simp [f.json_chars d hd]) c hc
    cases hb : c == ']' with
    | false => simp [bne, hb]
    | true =>
      have : c = ']' := by simpa using hb
      subst this
      revert this; decide
  have hstop : ((']' : Char) != ']') = false := by decide
  have h1 : (joinC ',' (v.map FVal.json) ++ sfxV).takeWhile (· != ']') = joinC ',' (v.map FVal.json) := by
    simpa [sfxV] using takeWhile_append_stop (p := (· != ']')) _ ']' ['}'] hchars hstop
  have h2 : (joinC ',' (v.map FVal.json) ++ sfxV).dropWhile (· != ']') = sfxV := by
    simpa [sfxV] using dropWhile_append_stop (p := (· != ']')) _ ']' ['}'] hchars hstop
  unfold parseV
  rw [h2, if_pos rfl, h1]
  cases v with
  | nil => rfl
  | cons f r =>
    have hne : joinC ',' ((f :: r).map FVal.json) ≠ [] := by
      intro h
      rcases joinC_eq_nil _ _ h with h | h
      · simp at h
      · simp only [List.map_cons, List.cons.injEq] at h
        exact f.json_ne_nil h.1
    rw [if_neg hne, splitOnC_joinC ',' _ (by simp)]
    · exact mapM_numWhole (f :: r)
    · intro p hp hc
      obtain ⟨g, _, rfl⟩ := List.mem_map.mp hp
      have := g.json_chars ',' hc
      revert this; decide

theorem parseO_json (o : Option FVal) (c : Char) (rest : Str) (hc : isNumChar c = false) :
    parseO (optJson o ++ c :: rest) = some (cleanO o, c :: rest) := by
  have hnull : parseO (nullText ++ c :: rest) = some (none, c :: rest) := by
    unfold parseO
    rw [stripPrefix_append]
  cases o with
  | none => exact hnull
  | some f =>
    cases f with
    | fin t =>
      unfold parseO
      simp only [optJson, FVal.json, cleanO]
      rw [stripPrefix_null_tok, takeNum_tok t c rest hc]
      rfl
    | nan => exact hnull
    | pinf => exact hnull
    | ninf => exact hnull

/-- **the serialiser/deserialiser pair on the float record type, completely**: `from_str(to_string(r))` is an
    error exactly when a float outside an `Option` is non-finite, and otherwise the record with every
    non-finite `Some` replaced by `None` -/
theorem parse_json (r : FRec) : FRec.parse r.json = if r.readable then some r.clean else none := by
  obtain ⟨x, o, v⟩ := r
  unfold FRec.parse FRec.json
  rw [stripPrefix_append]
  simp only [Option.bind_some]
  cases x with
  | fin t =>
    have e1 : ∀ rest : Str, pfxO ++ rest = ',' :: (['"', 'o', '"', ':'] ++ rest) := fun _ => rfl
    have e2 : ∀ rest : Str, pfxV ++ rest = ',' :: (['"', 'v', '"', ':', '['] ++ rest) := fun _ => rfl
    simp only [FVal.json]
    rw [e1, takeNum_tok t ',' _ (by decide), ← e1]
    simp only [Option.bind_some]
    rw [stripPrefix_append]
    simp only [Option.bind_some]
    rw [e2, parseO_json o ',' _ (by decide), ← e2]
    simp only [Option.bind_some]
    rw [stripPrefix_append]
    simp only [Option.bind_some]
    rw [parseV_json]
    simp only [FRec.readable, FVal.isFin, Bool.true_and, FRec.clean]
    cases v.all FVal.isFin <;> rfl
  | nan => simp [FVal.json, takeNum_null, FRec.readable, FVal.isFin]
  | pinf => simp [FVal.json, takeNum_null, FRec.readable, FVal.isFin]
  | ninf => simp [FVal.json, takeNum_null, FRec.readable, FVal.isFin]

/-! ### the text of a record is one non-blank line -/

/-- the characters a record is written with -/
def recChar (c : Char) : Bool :=
  floatChar c || c == '{' || c == '}' || c == '"' || c == 'x' || c == 'o' || c == 'v' || c == ':' ||
    c == ',' || c == '[' || c == ']'

theorem recChar_of_float {c : Char} (h : floatChar c = true) : recChar c = true := by
  simp [recChar, h]

theorem optJson_chars (o : Option FVal) : ∀ c ∈ optJson o, floatChar c = true := by
  cases o with
  | none => decide
  | some f => exact f.json_chars

theorem FRec.json_chars (r : FRec) : ∀ c ∈ r.json, recChar c = true := by
  intro c hc
  unfold FRec.json at hc
  simp only [List.mem_append] at hc
  have hlit : ∀ l : Str, (l.all recChar = true) → c ∈ l → recChar c = true := by
    intro l hl hm
    exact List.all_eq_true.mp hl c hm
  rcases hc with hc | hc | hc | hc | hc | hc | hc
  · exact hlit pfxX (by decide) hc
  · exact recChar_of_float (r.x.json_chars c hc)
  · exact hlit pfxO (by decide) hc
  · exact recChar_of_float (optJson_chars r.o c hc)
  · exact hlit pfxV (by decide) hc
  · exact joinC_chars ',' recChar _ (by decide)
      (by
        intro p hp d hd
        obtain ⟨f, _, rfl⟩ := List.mem_map.mp hp
        exact recChar_of_float (f.json_chars d hd)) c hc
  · exact hlit sfxV (by decide) hc

theorem FRec.json_no_nl (r : FRec) : '\n' ∉ r.json := by
  intro h
  have := r.json_chars _ h
  revert this; decide

theorem FRec.json_no_cr (r : FRec) : '\r' ∉ r.json := by
  intro h
  have := r.json_chars _ h
  revert this; decide

theorem FRec.json_not_blank (r : FRec) : blank r.json = false := by
  have : isWhite '{' = false := by decide +kernel
  simp [FRec.json, pfxX, blank, this]

/-! ### `Option`-valued `mapM` -/

theorem mapM_eq_some_map {α γ : Type} (f : α → Option γ) (g : α → γ) (l : List α)
    (h : ∀ a ∈ l, f a = some (g a)) : l.mapM f = some (l.map g) := by
  induction l with
  | nil => rfl
  | cons a l ih =>
    simp only [List.mapM_cons, h a (by simp), ih (fun b hb => h b (by simp [hb])), List.map_cons]
    rfl

theorem mapM_eq_none {α γ : Type} (f : α → Option γ) (l : List α) (h : ∃ a ∈ l, f a = none) :
    l.mapM f = none := by
  induction l with
  | nil => obtain ⟨a, ha, _⟩ := h; cases ha
  | cons a l ih =>
    obtain ⟨b, hb, hf⟩ := h
    rcases List.mem_cons.mp hb with rfl | hb
    · simp only [List.mapM_cons, hf]; rfl
    · simp only [List.mapM_cons, ih ⟨b, hb, hf⟩]
      cases f a <;> rfl

theorem mapM_eq_some_self_iff {α : Type} (f : α → Option α) (l : List α) :
    l.mapM f = some l ↔ ∀ a ∈ l, f a = some a := by
  constructor
  · induction l with
    | nil => intro _ a ha; cases ha
    | cons a l ih =>
      intro h b hb
      simp only [List.mapM_cons] at h
      cases hfa : f a with
      | none => rw [hfa] at h; cases h
      | some a' =>
        cases hl : l.mapM f with
        | none => rw [hfa, hl] at h; cases h
        | some l' =>
          rw [hfa, hl] at h
          have h' : a' :: l' = a :: l := Option.some.inj h
          have h1 : a' = a := (List.cons.inj h').1
          have h2 : l' = l := (List.cons.inj h').2
          rcases List.mem_cons.mp hb with rfl | hb
          · rw [hfa, h1]
          · exact ih (by rw [hl, h2]) b hb
  · intro h
    have := mapM_eq_some_map f id l (by simpa using h)
    simpa using this

end IB.CloudGlob
