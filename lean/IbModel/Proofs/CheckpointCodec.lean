import IbModel.Model.Checkpoint
/-! Helper lemmas for C12: the codec (varints, strings, the record), allocation safety. -/
namespace IB.Checkpoint

@[simp] theorem andThen_ok {α β : Type} (a : α) (f : α → Except DecErr β) : andThen (.ok a) f = f a := rfl
@[simp] theorem andThen_error {α β : Type} (e : DecErr) (f : α → Except DecErr β) :
    andThen (.error e : Except DecErr α) f = .error e := rfl

theorem toNat_ofNat_lt {n : Nat} (h : n < 256) : (UInt8.ofNat n).toNat = n := by
  simp [UInt8.toNat_ofNat']; omega

@[simp] theorem length_leBytes (k n : Nat) : (leBytes k n).length = k := by
  induction k generalizing n with
  | zero => rfl
  | succ k ih => simp [leBytes, ih]

theorem leVal_leBytes (k : Nat) : ∀ n, n < 256 ^ k → leVal (leBytes k n) = n := by
  induction k with
  | zero => intro n h; simp at h; simp [leBytes, leVal, h]
  | succ k ih =>
    intro n h
    have h1 : n / 256 < 256 ^ k := by
      rw [Nat.pow_succ] at h
      exact Nat.div_lt_of_lt_mul (by omega)
    simp only [leBytes, leVal, ih _ h1]
    rw [toNat_ofNat_lt (Nat.mod_lt _ (by omega))]
    omega

theorem takeN_append (a tl : Bytes) : takeN a.length (a ++ tl) = .ok (a, tl) := by
  simp [takeN]

theorem takeN_append' (a tl : Bytes) (n : Nat) (h : a.length = n) : takeN n (a ++ tl) = .ok (a, tl) := by
  subst h; exact takeN_append a tl

theorem readVarint_enc (n : Nat) (h : n ≤ u64Max) (tl : Bytes) :
    readVarint (encVarint n ++ tl) = .ok (n, tl) := by
  unfold encVarint
  split
  · have : (UInt8.ofNat n).toNat = n := toNat_ofNat_lt (by omega)
    simp [readVarint, *]
  · split
    · have hv : leVal (leBytes 2 n) = n := leVal_leBytes 2 n (by omega)
      simp [readVarint, takeN_append' (leBytes 2 n) tl 2 (by simp), hv]
    · split
      · have hv : leVal (leBytes 4 n) = n := leVal_leBytes 4 n (by omega)
        simp [readVarint, takeN_append' (leBytes 4 n) tl 4 (by simp), hv]
      · have hv : leVal (leBytes 8 n) = n := leVal_leBytes 8 n (by unfold u64Max at h; omega)
        simp [readVarint, takeN_append' (leBytes 8 n) tl 8 (by simp), hv]

end IB.Checkpoint

namespace IB.Checkpoint

theorem overLimit_mono {cfg : Cfg} {a b : Nat} (h : a ≤ b) (hb : overLimit cfg b = false) :
    overLimit cfg a = false := by
  unfold overLimit at *
  cases hl : cfg.limit with
  | none => rfl
  | some L => simp [hl] at hb ⊢; omega

theorem claim_ok {cfg : Cfg} {c n : Nat} (h : overLimit cfg (c + n) = false) : claim cfg c n = .ok (c + n) := by
  simp [claim, h]

theorem decU64_enc (cfg : Cfg) (n : Nat) (hn : n ≤ u64Max) (tl : Bytes) (c : Nat)
    (hc : overLimit cfg (c + 8) = false) :
    decU64 cfg (encVarint n ++ tl, c) = .ok (n, (tl, c + 8)) := by
  simp [decU64, claim_ok hc, readVarint_enc n hn tl]

theorem decU8_enc (cfg : Cfg) (b : UInt8) (tl : Bytes) (c : Nat) (hc : overLimit cfg (c + 1) = false) :
    decU8 cfg (b :: tl, c) = .ok (b, (tl, c + 1)) := by
  simp [decU8, claim_ok hc]

theorem decString_enc (cfg : Cfg) (s : Bytes) (hu : validUtf8 s = true) (hl : s.length ≤ isizeMax)
    (hm : s.length ≤ cfg.mem) (tl : Bytes) (c : Nat) (hc : overLimit cfg (c + 8 + s.length) = false) :
    decString cfg (encString s ++ tl, c) = .ok (s, (tl, c + 8 + s.length)) := by
  have h8 : overLimit cfg (c + 8) = false := overLimit_mono (by omega) hc
  have hlen : s.length ≤ u64Max := by unfold isizeMax at hl; unfold u64Max; omega
  have ha : alloc cfg s.length = .ok () := by
    unfold alloc
    rw [if_neg (by omega), if_neg (by omega)]
  simp only [decString, encString, List.append_assoc, decU64_enc cfg s.length hlen (s ++ tl) c h8, andThen_ok,
    claim_ok hc, ha, takeN_append, hu, if_true]

end IB.Checkpoint

namespace IB.Checkpoint

/-- every string of the record fits the allocator -/
def FitsMem (cfg : Cfg) (s : State) : Prop :=
  s.pipelineId.length ≤ cfg.mem ∧ s.checksum.length ≤ cfg.mem ∧ s.execMode.length ≤ cfg.mem ∧
  s.metadata.lastNodeType.length ≤ cfg.mem

theorem decodeState_encode_append (cfg : Cfg) (s : State) (wf : s.WF) (hm : FitsMem cfg s)
    (hc : overLimit cfg (claims s) = false) (tl : Bytes) :
    decodeState cfg (encode s ++ tl) = .ok (s, tl) := by
  obtain ⟨hm1, hm2, hm3, hm4⟩ := hm
  unfold claims at hc
  have e1 := decString_enc cfg s.pipelineId wf.pidU wf.pidL hm1
    (encVarint s.completedNodeIndex ++ (encVarint s.timestamp ++ (encVarint s.partitionCount ++
      (encString s.checksum ++ (encString s.execMode ++ (encVarint s.metadata.totalNodes ++
      (encString s.metadata.lastNodeType ++ (s.metadata.progressPercent :: tl)))))))) 0
    (overLimit_mono (by omega) hc)
  have e2 := decU64_enc cfg s.completedNodeIndex wf.idx
    (encVarint s.timestamp ++ (encVarint s.partitionCount ++
      (encString s.checksum ++ (encString s.execMode ++ (encVarint s.metadata.totalNodes ++
      (encString s.metadata.lastNodeType ++ (s.metadata.progressPercent :: tl)))))))
    (0 + 8 + s.pipelineId.length) (overLimit_mono (by omega) hc)
  have e3 := decU64_enc cfg s.timestamp wf.ts
    (encVarint s.partitionCount ++
      (encString s.checksum ++ (encString s.execMode ++ (encVarint s.metadata.totalNodes ++
      (encString s.metadata.lastNodeType ++ (s.metadata.progressPercent :: tl))))))
    (0 + 8 + s.pipelineId.length + 8) (overLimit_mono (by omega) hc)
  have e4 := decU64_enc cfg s.partitionCount wf.pc
    (encString s.checksum ++ (encString s.execMode ++ (encVarint s.metadata.totalNodes ++
      (encString s.metadata.lastNodeType ++ (s.metadata.progressPercent :: tl)))))
    (0 + 8 + s.pipelineId.length + 8 + 8) (overLimit_mono (by omega) hc)
  have e5 := decString_enc cfg s.checksum wf.ckU wf.ckL hm2
    (encString s.execMode ++ (encVarint s.metadata.totalNodes ++
      (encString s.metadata.lastNodeType ++ (s.metadata.progressPercent :: tl))))
    (0 + 8 + s.pipelineId.length + 8 + 8 + 8) (overLimit_mono (by omega) hc)
  have e6 := decString_enc cfg s.execMode wf.emU wf.emL hm3
    (encVarint s.metadata.totalNodes ++
      (encString s.metadata.lastNodeType ++ (s.metadata.progressPercent :: tl)))
    (0 + 8 + s.pipelineId.length + 8 + 8 + 8 + 8 + s.checksum.length) (overLimit_mono (by omega) hc)
  have e7 := decU64_enc cfg s.metadata.totalNodes wf.tn
    (encString s.metadata.lastNodeType ++ (s.metadata.progressPercent :: tl))
    (0 + 8 + s.pipelineId.length + 8 + 8 + 8 + 8 + s.checksum.length + 8 + s.execMode.length)
    (overLimit_mono (by omega) hc)
  have e8 := decString_enc cfg s.metadata.lastNodeType wf.lntU wf.lntL hm4
    (s.metadata.progressPercent :: tl)
    (0 + 8 + s.pipelineId.length + 8 + 8 + 8 + 8 + s.checksum.length + 8 + s.execMode.length + 8)
    (overLimit_mono (by omega) hc)
  have e9 := decU8_enc cfg s.metadata.progressPercent tl
    (0 + 8 + s.pipelineId.length + 8 + 8 + 8 + 8 + s.checksum.length + 8 + s.execMode.length + 8 + 8 +
      s.metadata.lastNodeType.length)
    (overLimit_mono (by omega) hc)
  simp only [decodeState, encode, List.append_assoc, List.singleton_append, e1, e2, e3, e4, e5, e6, e7, e8, e9,
    andThen_ok]

end IB.Checkpoint

namespace IB.Checkpoint

/-! ## allocation safety -/

/-- the decoder neither panics ("capacity overflow") nor exhausts memory (abort) -/
def NoCrash {α : Type} (r : Except DecErr α) : Prop :=
  r ≠ .error .capacityOverflow ∧ r ≠ .error .allocFail

theorem noCrash_ok {α : Type} (a : α) : NoCrash (.ok a : Except DecErr α) := by
  constructor <;> intro h <;> cases h

theorem noCrash_error {α : Type} {e : DecErr} (h1 : e ≠ .capacityOverflow) (h2 : e ≠ .allocFail) :
    NoCrash (.error e : Except DecErr α) := by
  constructor <;> intro h <;> cases h <;> contradiction

theorem andThen_noCrash {α β : Type} {x : Except DecErr α} {f : α → Except DecErr β}
    (hx : NoCrash x) (hf : ∀ a, x = .ok a → NoCrash (f a)) : NoCrash (andThen x f) := by
  cases x with
  | ok a => exact hf a rfl
  | error e =>
    obtain ⟨h1, h2⟩ := hx
    constructor
    · intro h; apply h1; simpa [andThen] using h
    · intro h; apply h2; simpa [andThen] using h

theorem claim_noCrash (cfg : Cfg) (c n : Nat) : NoCrash (claim cfg c n) := by
  unfold claim; split
  · exact noCrash_error (by decide) (by decide)
  · exact noCrash_ok _

theorem claim_ok_inv {cfg : Cfg} {c n c' : Nat} (h : claim cfg c n = .ok c') :
    overLimit cfg (c + n) = false ∧ c' = c + n := by
  unfold claim at h
  split at h
  · cases h
  · rename_i hh; injection h with h; exact ⟨by simpa using hh, h.symm⟩

theorem takeN_noCrash (n : Nat) (inp : Bytes) : NoCrash (takeN n inp) := by
  unfold takeN; split
  · exact noCrash_ok _
  · exact noCrash_error (by decide) (by decide)

theorem readVarint_noCrash (inp : Bytes) : NoCrash (readVarint inp) := by
  unfold readVarint
  split
  · exact noCrash_error (by decide) (by decide)
  · split
    · exact noCrash_ok _
    · split
      · exact andThen_noCrash (takeN_noCrash _ _) (fun _ _ => noCrash_ok _)
      · split
        · exact andThen_noCrash (takeN_noCrash _ _) (fun _ _ => noCrash_ok _)
        · split
          · exact andThen_noCrash (takeN_noCrash _ _) (fun _ _ => noCrash_ok _)
          · exact noCrash_error (by decide) (by decide)

theorem decU64_noCrash (cfg : Cfg) (st : Bytes × Nat) : NoCrash (decU64 cfg st) := by
  unfold decU64
  exact andThen_noCrash (claim_noCrash _ _ _) fun _ _ =>
    andThen_noCrash (readVarint_noCrash _) fun _ _ => noCrash_ok _

theorem decU8_noCrash (cfg : Cfg) (st : Bytes × Nat) : NoCrash (decU8 cfg st) := by
  unfold decU8
  refine andThen_noCrash (claim_noCrash _ _ _) fun _ _ => ?_
  split
  · exact noCrash_error (by decide) (by decide)
  · exact noCrash_ok _

/-- With a limit `L` that the allocator can satisfy, a string decode never crashes: the length was claimed
    against the limit *before* the buffer is requested. -/
theorem decString_noCrash (cfg : Cfg) (L : Nat) (hL : cfg.limit = some L) (hmem : L ≤ cfg.mem)
    (hI : L ≤ isizeMax) (st : Bytes × Nat) : NoCrash (decString cfg st) := by
  unfold decString
  refine andThen_noCrash (decU64_noCrash _ _) fun lp _ => ?_
  refine andThen_noCrash (claim_noCrash _ _ _) fun c hc => ?_
  have hle : lp.1 ≤ L := by
    have := (claim_ok_inv hc).1
    simp [overLimit, hL] at this
    omega
  have ha : alloc cfg lp.1 = .ok () := by
    unfold alloc
    rw [if_neg (by omega), if_neg (by omega)]
  rw [ha]
  refine andThen_noCrash (noCrash_ok _) fun _ _ => ?_
  refine andThen_noCrash (takeN_noCrash _ _) fun p _ => ?_
  split
  · exact noCrash_ok _
  · exact noCrash_error (by decide) (by decide)

theorem decodeState_noCrash (cfg : Cfg) (L : Nat) (hL : cfg.limit = some L) (hmem : L ≤ cfg.mem)
    (hI : L ≤ isizeMax) (bytes : Bytes) : NoCrash (decodeState cfg bytes) := by
  have S := decString_noCrash cfg L hL hmem hI
  unfold decodeState
  exact andThen_noCrash (S _) fun _ _ =>
    andThen_noCrash (decU64_noCrash _ _) fun _ _ =>
    andThen_noCrash (decU64_noCrash _ _) fun _ _ =>
    andThen_noCrash (decU64_noCrash _ _) fun _ _ =>
    andThen_noCrash (S _) fun _ _ =>
    andThen_noCrash (S _) fun _ _ =>
    andThen_noCrash (decU64_noCrash _ _) fun _ _ =>
    andThen_noCrash (S _) fun _ _ =>
    andThen_noCrash (decU8_noCrash _ _) fun _ _ => noCrash_ok _

end IB.Checkpoint

namespace IB.Checkpoint

/-! ## evaluating the decoder on a hostile first length prefix -/

theorem readVarint_253 (p rest : Bytes) (hp : p.length = 8) :
    readVarint (253 :: (p ++ rest)) = .ok (leVal p, rest) := by
  simp [readVarint, takeN_append' p rest 8 hp]

theorem decString_of_readVarint {cfg : Cfg} {inp rest : Bytes} {c len : Nat}
    (hr : readVarint inp = .ok (len, rest)) :
    decString cfg (inp, c) =
      andThen (claim cfg c 8) fun c1 =>
      andThen (claim cfg c1 len) fun c2 =>
      andThen (alloc cfg len) fun _ =>
      andThen (takeN len rest) fun p =>
      if validUtf8 p.1 then .ok (p.1, (p.2, c2)) else .error .utf8 := by
  unfold decString decU64
  simp only [hr]
  cases claim cfg c 8 <;> rfl

theorem decodeState_error_first {cfg : Cfg} {bytes : Bytes} {e : DecErr}
    (h : decString cfg (bytes, 0) = .error e) : decodeState cfg bytes = .error e := by
  unfold decodeState; rw [h]; rfl

theorem load_error_of_decode {H : Bytes → Bytes} {cfg : Cfg} {bytes : Bytes} {e : DecErr}
    (h : decodeState cfg bytes = .error e) : load H cfg bytes = .error e := by
  unfold load; rw [h]; rfl

theorem claim_nolimit (mem c n : Nat) : claim { limit := none, mem := mem } c n = .ok (c + n) := rfl

end IB.Checkpoint
