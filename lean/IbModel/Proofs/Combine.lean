import IbModel.Proofs.Gbk
import IbModel.Proofs.ParSeq
/-!
# `combine_values`, `combine_values_lifted`, `combine_globally`: helper lemmas for C05

All statements are parametric in a combiner `c : VCombiner` and an accumulator equivalence `R` with
`LawfulCombiner c R` (Model/CombinerCore.lean). "`a` stands for the values `xs`" means
`R a (c.foldAdd c.create xs)`.
-/
namespace IB

variable {c : VCombiner} {R : Val → Val → Prop}

/-! ## merging accumulators that stand for value lists -/

/-- pointwise relation between two lists of the same length (core has no `Forall₂`) -/
inductive Forall2 {α β : Type} (P : α → β → Prop) : List α → List β → Prop
  | nil : Forall2 P [] []
  | cons {a : α} {b : β} {as : List α} {bs : List β} : P a b → Forall2 P as bs → Forall2 P (a :: as) (b :: bs)

@[simp] theorem Val.key_pair (a b : Val) : (Val.pair a b).key = a := rfl
@[simp] theorem Val.value_pair (a b : Val) : (Val.pair a b).value = b := rfl

theorem LawfulCombiner.merge_rel (hc : LawfulCombiner c R) {a b : Val} {xs ys : List Val}
    (ha : R a (c.foldAdd c.create xs)) (hb : R b (c.foldAdd c.create ys)) :
    R (c.merge a b) (c.foldAdd c.create (xs ++ ys)) :=
  hc.trans (hc.merge_congr ha hb) (hc.merge_fold xs ys)

theorem LawfulCombiner.create_rel (hc : LawfulCombiner c R) : R c.create (c.foldAdd c.create []) :=
  hc.refl _

/-- merging, left to right, accumulators standing for `xss` into one standing for `ys` -/
theorem foldl_merge_rel (hc : LawfulCombiner c R) {as : List Val} {xss : List (List Val)}
    (h : Forall2 (fun a xs => R a (c.foldAdd c.create xs)) as xss) :
    ∀ {a0 : Val} {ys : List Val}, R a0 (c.foldAdd c.create ys) →
      R (as.foldl c.merge a0) (c.foldAdd c.create (ys ++ xss.flatten)) := by
  induction h with
  | nil => intro a0 ys h0; simpa using h0
  | cons hax _ ih =>
    intro a0 ys h0
    have := ih (hc.merge_rel h0 hax)
    simpa [List.append_assoc] using this

/-- `merge(vec)` of the global combine: `create` for no accumulator, else a left fold of `merge` -/
def mergeAll (c : VCombiner) : List Val → Val
  | [] => c.create
  | a :: rest => rest.foldl c.merge a

theorem mergeAll_rel (hc : LawfulCombiner c R) {as : List Val} {xss : List (List Val)}
    (h : Forall2 (fun a xs => R a (c.foldAdd c.create xs)) as xss) :
    R (mergeAll c as) (c.foldAdd c.create xss.flatten) := by
  cases h with
  | nil => exact hc.refl _
  | cons hax hrest =>
    have := foldl_merge_rel hc hrest (a0 := _) (ys := _) hax
    simpa [mergeAll] using this

theorem forall₂_map_map {α : Type} (P : Val → List Val → Prop) (f : α → Val) (g : α → List Val) (l : List α)
    (h : ∀ x ∈ l, P (f x) (g x)) : Forall2 P (l.map f) (l.map g) := by
  induction l with
  | nil => exact Forall2.nil
  | cons x l ih =>
    exact Forall2.cons (h x (by simp)) (ih (fun y hy => h y (by simp [hy])))

/-! ## local accumulation: what a "local" closure must provide -/

/-- `loc` is a per-partition accumulation whose entry for `k` stands for the values `vals k p`:
    keys = distinct row keys in first-occurrence order; `vals` is additive over concatenation and empty
    for absent keys. Instances: the classic local (`vals = rowVals`) and the lifted local
    (`vals k p` = concatenation of the groups carrying `k`). -/
structure LocSpec (c : VCombiner) (R : Val → Val → Prop) (loc : List Val → List (Val × Val))
    (vals : Val → List Val → List Val) : Prop where
  keys : ∀ p, (loc p).map (·.1) = addKeys [] (p.map Val.key)
  entry : ∀ p k a, lookupKV (loc p) k = some a → R a (c.foldAdd c.create (vals k p))
  vals_nil : ∀ k p, k ∉ p.map Val.key → vals k p = []
  vals_append : ∀ k p q, vals k (p ++ q) = vals k p ++ vals k q

theorem LocSpec.vals_flatten {loc : List Val → List (Val × Val)} {vals : Val → List Val → List Val}
    (hl : LocSpec c R loc vals) (k : Val) (ps : List (List Val)) :
    vals k ps.flatten = ps.flatMap (vals k) := by
  induction ps with
  | nil => simpa using hl.vals_nil k [] (by simp)
  | cons p ps ih => simp [hl.vals_append, ih]

theorem LocSpec.nodup {loc : List Val → List (Val × Val)} {vals : Val → List Val → List Val}
    (hl : LocSpec c R loc vals) (p : List Val) : ((loc p).map (·.1)).Nodup := by
  rw [hl.keys]; exact nodup_addKeys List.nodup_nil

/-! ## `mergeAccs` of local maps -/

theorem mergeAccs_eq (c : VCombiner) (parts : List (List (Val × Val))) :
    mergeAccs c parts = upsertFold c.merge c.create [] parts.flatten := by
  unfold mergeAccs
  exact foldl_upsertFold _ _ _ _

theorem nodup_keys_mergeAccs (c : VCombiner) (parts : List (List (Val × Val))) :
    ((mergeAccs c parts).map (·.1)).Nodup := by
  rw [mergeAccs_eq]
  exact nodup_keys_upsertFold _ _ _ _ List.nodup_nil

theorem keys_mergeAccs_of_keys (c : VCombiner) (loc : List Val → List (Val × Val))
    (hkeys : ∀ p, (loc p).map (·.1) = addKeys [] (p.map Val.key)) (ps : List (List Val)) :
    (mergeAccs c (ps.map loc)).map (·.1) = addKeys [] (ps.flatten.map Val.key) := by
  rw [mergeAccs_eq, keys_upsertFold]
  exact addKeys_flatten_locals loc hkeys ps []

theorem keys_mergeAccs_locals {loc : List Val → List (Val × Val)} {vals : Val → List Val → List Val}
    (hl : LocSpec c R loc vals) (ps : List (List Val)) :
    (mergeAccs c (ps.map loc)).map (·.1) = addKeys [] (ps.flatten.map Val.key) := by
  rw [mergeAccs_eq, keys_upsertFold]
  exact addKeys_flatten_locals loc hl.keys ps []

theorem mem_keys_mergeAccs_locals {loc : List Val → List (Val × Val)} {vals : Val → List Val → List Val}
    (hl : LocSpec c R loc vals) (ps : List (List Val)) (k : Val) :
    k ∈ (mergeAccs c (ps.map loc)).map (·.1) ↔ k ∈ ps.flatten.map Val.key := by
  rw [keys_mergeAccs_locals hl, mem_addKeys]; simp

/-- the per-partition entries of `k`, partition by partition, stand for the per-partition values -/
theorem locals_forall₂ {loc : List Val → List (Val × Val)} {vals : Val → List Val → List Val}
    (hl : LocSpec c R loc vals) (k : Val) (ps : List (List Val)) :
    ∃ xss : List (List Val), xss.flatten = ps.flatMap (vals k) ∧
      Forall2 (fun a xs => R a (c.foldAdd c.create xs))
        (ps.flatMap (fun p => (lookupKV (loc p) k).toList)) xss := by
  induction ps with
  | nil => exact ⟨[], rfl, Forall2.nil⟩
  | cons p ps ih =>
    obtain ⟨xss, hfl, hall⟩ := ih
    cases hlk : lookupKV (loc p) k with
    | none =>
      refine ⟨xss, ?_, ?_⟩
      · have hk : k ∉ p.map Val.key := by
          have := (lookupKV_eq_none_iff (loc p) k).mp hlk
          rw [hl.keys, mem_addKeys] at this
          simpa using this
        simp [hfl, hl.vals_nil k p hk]
      · simpa [hlk] using hall
    | some a =>
      refine ⟨vals k p :: xss, by simp [hfl], ?_⟩
      simp only [List.flatMap_cons, hlk, Option.toList_some, List.singleton_append]
      exact Forall2.cons (hl.entry p k a hlk) hall

/-- the merged entry of `k` stands for all values of `k` in the concatenated input -/
theorem lookupKV_mergeAccs_locals (hc : LawfulCombiner c R)
    {loc : List Val → List (Val × Val)} {vals : Val → List Val → List Val}
    (hl : LocSpec c R loc vals) (ps : List (List Val)) (k a : Val)
    (h : lookupKV (mergeAccs c (ps.map loc)) k = some a) :
    R a (c.foldAdd c.create (vals k ps.flatten)) := by
  rw [mergeAccs_eq, lookupKV_upsertFold, valuesAt_flatten, List.flatMap_map] at h
  have hv : ∀ p, valuesAt k (loc p) = (lookupKV (loc p) k).toList :=
    fun p => valuesAt_eq_lookup (hl.nodup p) k
  simp only [hv, lookupKV_nil, Option.getD_none] at h
  obtain ⟨xss, hfl, hall⟩ := locals_forall₂ hl k ps
  split at h
  · exact absurd h (by simp)
  · simp only [Option.some.injEq] at h
    subst h
    have := foldl_merge_rel hc hall (a0 := c.create) (ys := []) (hc.refl _)
    rw [hl.vals_flatten, ← hfl]
    simpa using this

theorem lookupKV_mergeAccs_locals_isSome {loc : List Val → List (Val × Val)}
    {vals : Val → List Val → List Val} (hl : LocSpec c R loc vals) (ps : List (List Val)) (k : Val) :
    (lookupKV (mergeAccs c (ps.map loc)) k).isSome ↔ k ∈ ps.flatten.map Val.key := by
  rw [lookupKV_isSome_iff, mem_keys_mergeAccs_locals hl]

/-! ## the finished output -/

/-- `(key, finish acc)` for every merged entry -/
def combineOut (c : VCombiner) (parts : List (List (Val × Val))) : List (Val × Val) :=
  (mergeAccs c parts).map (fun ka => (ka.1, c.finish ka.2))

theorem combineMerge_eq (c : VCombiner) (parts : List Part) :
    combineMerge c parts = encAccs (combineOut c (parts.map decAccs)) := by
  simp [combineMerge, combineOut, encAccs, List.map_map, Function.comp_def]

theorem decAccs_combineMerge_locals (c : VCombiner) (loc : List Val → List (Val × Val))
    (ps : List (List Val)) :
    decAccs (combineMerge c (ps.map (fun p => encAccs (loc p)))) = combineOut c (ps.map loc) := by
  rw [combineMerge_eq, decAccs_encAccs]
  simp [List.map_map, Function.comp_def]

theorem map_decAccs_locals (loc : List Val → List (Val × Val)) (ps : List (List Val)) :
    (ps.map (fun p => encAccs (loc p))).map decAccs = ps.map loc := by
  simp [List.map_map, Function.comp_def]

theorem keys_combineOut (c : VCombiner) (parts : List (List (Val × Val))) :
    (combineOut c parts).map (·.1) = (mergeAccs c parts).map (·.1) := by
  simp [combineOut, List.map_map, Function.comp_def]

theorem lookupKV_combineOut (c : VCombiner) (parts : List (List (Val × Val))) (k : Val) :
    lookupKV (combineOut c parts) k = (lookupKV (mergeAccs c parts) k).map c.finish :=
  lookupKV_map _ _ _

/-- value of the finished output for any local satisfying `LocSpec` -/
theorem lookupKV_combineOut_locals (hc : LawfulCombiner c R)
    {loc : List Val → List (Val × Val)} {vals : Val → List Val → List Val}
    (hl : LocSpec c R loc vals) (ps : List (List Val)) (k : Val) :
    lookupKV (combineOut c (ps.map loc)) k =
      if k ∈ ps.flatten.map Val.key then some (c.finish (c.foldAdd c.create (vals k ps.flatten)))
      else none := by
  rw [lookupKV_combineOut]
  have hs := lookupKV_mergeAccs_locals_isSome (c := c) hl ps k
  cases hlk : lookupKV (mergeAccs c (ps.map loc)) k with
  | none =>
    rw [hlk] at hs
    have : ¬ k ∈ ps.flatten.map Val.key := fun x => by simpa using hs.mpr x
    rw [if_neg this]; rfl
  | some a =>
    rw [hlk] at hs
    have hk : k ∈ ps.flatten.map Val.key := hs.mp rfl
    simp only [hk, ↓reduceIte, Option.map_some, Option.some.injEq]
    exact hc.finish_congr (lookupKV_mergeAccs_locals hc hl ps k a hlk)

/-- the literal contract at map level, for any local satisfying `LocSpec` -/
theorem combineOut_contract (hc : LawfulCombiner c R)
    {loc : List Val → List (Val × Val)} {vals : Val → List Val → List Val}
    (hl : LocSpec c R loc vals) (ps : List (List Val)) :
    combineOut c (ps.map loc) = combineOut c [loc ps.flatten] := by
  have e1 : [loc ps.flatten] = [ps.flatten].map loc := rfl
  have e2 : [ps.flatten].flatten = ps.flatten := by simp
  apply alist_ext
  · rw [keys_combineOut]; exact nodup_keys_mergeAccs _ _
  · rw [keys_combineOut, keys_combineOut, e1, keys_mergeAccs_locals hl, keys_mergeAccs_locals hl, e2]
  · intro k
    rw [e1, lookupKV_combineOut_locals hc hl, lookupKV_combineOut_locals hc hl, e2]

theorem combineMerge_contract (hc : LawfulCombiner c R)
    {loc : List Val → List (Val × Val)} {vals : Val → List Val → List Val}
    (hl : LocSpec c R loc vals) (ps : List (List Val)) :
    combineMerge c (ps.map (fun p => encAccs (loc p))) = combineMerge c [encAccs (loc ps.flatten)] := by
  rw [combineMerge_eq, combineMerge_eq]
  simp only [List.map_map, List.map_cons, List.map_nil, decAccs_encAccs]
  have : (decAccs ∘ fun p => encAccs (loc p)) = loc := by funext p; simp
  rw [this, combineOut_contract hc hl]

/-! ## the classic local: `add_input(entry(k).or_insert_with(create), v)` -/

def localAccs (c : VCombiner) (rows : List Val) : List (Val × Val) :=
  upsertFold c.add c.create [] (rows.map rowKV)

theorem combineLocalPairs_eq (c : VCombiner) : combineLocalPairs c = fun p => encAccs (localAccs c p) := rfl

theorem lookupKV_localAccs (c : VCombiner) (rows : List Val) (k : Val) :
    lookupKV (localAccs c rows) k =
      if rowVals k rows = [] then none else some (c.foldAdd c.create (rowVals k rows)) := by
  unfold localAccs
  rw [lookupKV_upsertFold, valuesAt_rowKV]
  by_cases h : rowVals k rows = [] <;> simp [h, Combiner.foldAdd]

theorem keys_localAccs (c : VCombiner) (p : List Val) :
    (localAccs c p).map (·.1) = addKeys [] (p.map Val.key) := by
  unfold localAccs
  rw [keys_upsertFold, keys_rowKV]; rfl

theorem locSpec_classic (hc : LawfulCombiner c R) : LocSpec c R (localAccs c) rowVals where
  keys p := keys_localAccs c p
  entry p k a h := by
    rw [lookupKV_localAccs] at h
    split at h
    · exact absurd h (by simp)
    · simp only [Option.some.injEq] at h
      subst h; exact hc.refl _
  vals_nil k p h := (rowVals_eq_nil_iff k p).mpr h
  vals_append := rowVals_append

/-! ## the lifted local: `build_from_group`, merged into an existing entry -/

/-- the groups carrying key `k`, in order -/
def groupLists (k : Val) (rows : List Val) : List (List Val) :=
  (rows.filter (fun r => r.key == k)).map (fun r => r.value.toList)

/-- all values of the groups carrying `k` -/
def groupVals (k : Val) (rows : List Val) : List Val := (groupLists k rows).flatten

def rowKG (r : Val) : Val × List Val := (r.key, r.value.toList)

def liftedAccs (c : VCombiner) (rows : List Val) : List (Val × Val) := rows.foldl (liftedStep c) []

theorem combineLocalGroups_eq (c : VCombiner) : combineLocalGroups c = fun p => encAccs (liftedAccs c p) := rfl

theorem upsertWith_new_irrelevant {β : Type} {m : List (Val × β)} {k : Val} {b : β}
    (h : lookupKV m k = some b) (new new' : β) (f : β → β) :
    upsertWith m k new f = upsertWith m k new' f := by
  induction m with
  | nil => simp at h
  | cons e m ih =>
    obtain ⟨k', b'⟩ := e
    rw [lookupKV_cons] at h
    by_cases hk : k' = k
    · simp [upsertWith, hk]
    · simp only [hk, ↓reduceIte] at h
      simp [upsertWith, hk, ih h]

theorem liftedStep_eq (c : VCombiner) (m : List (Val × Val)) (r : Val) :
    liftedStep c m r =
      upsertWith m r.key (c.build r.value.toList) (fun a => c.merge a (c.build r.value.toList)) := by
  unfold liftedStep
  cases h : lookupKV m r.key with
  | none => simp only [upsertWith_of_none h]
  | some b =>
    simp only [upsert_eq_upsertWith]
    exact upsertWith_new_irrelevant h _ _ _

theorem liftedAccs_eq (c : VCombiner) (rows : List Val) :
    liftedAccs c rows =
      upsertFoldWith (fun g => c.build g) (fun a g => c.merge a (c.build g)) [] (rows.map rowKG) := by
  unfold liftedAccs upsertFoldWith
  rw [List.foldl_map]
  congr 1
  funext m r
  exact liftedStep_eq c m r

theorem valuesAt_rowKG (k : Val) (rows : List Val) : valuesAt k (rows.map rowKG) = groupLists k rows := by
  unfold valuesAt groupLists
  induction rows with
  | nil => rfl
  | cons r rows ih =>
    simp only [List.map_cons, List.filter_cons, rowKG]
    split <;> simp_all

theorem groupLists_eq_nil_iff (k : Val) (rows : List Val) : groupLists k rows = [] ↔ k ∉ rows.map Val.key := by
  rw [← valuesAt_rowKG, valuesAt_eq_nil_iff]
  simp [List.map_map, Function.comp_def, rowKG]

theorem groupVals_append (k : Val) (a b : List Val) : groupVals k (a ++ b) = groupVals k a ++ groupVals k b := by
  simp [groupVals, groupLists]

theorem keys_liftedAccs (c : VCombiner) (p : List Val) :
    (liftedAccs c p).map (·.1) = addKeys [] (p.map Val.key) := by
  rw [liftedAccs_eq, keys_upsertFoldWith]
  simp [List.map_map, Function.comp_def, rowKG]

theorem locSpec_lifted (hc : LawfulCombiner c R) : LocSpec c R (liftedAccs c) groupVals where
  keys p := keys_liftedAccs c p
  entry p k a h := by
    rw [liftedAccs_eq, lookupKV_upsertFoldWith, valuesAt_rowKG, lookupKV_nil] at h
    unfold groupVals
    cases hg : groupLists k p with
    | nil => rw [hg] at h; simp at h
    | cons g gs =>
      rw [hg, seedFold_none_cons] at h
      simp only [Option.some.injEq] at h
      subst h
      have hall : Forall2 (fun a xs => R a (c.foldAdd c.create xs)) (gs.map c.build) (gs.map id) :=
        forall₂_map_map _ _ _ gs (fun g _ => hc.build_fold g)
      have := foldl_merge_rel hc hall (a0 := c.build g) (ys := g) (hc.build_fold g)
      rw [List.foldl_map] at this
      simpa using this
  vals_nil k p h := by
    unfold groupVals
    rw [(groupLists_eq_nil_iff k p).mpr h]; rfl
  vals_append := groupVals_append

/-- ungrouping a grouped partition: `(k, [v₁, …])` ↦ `(k, v₁), …` -/
def ungroupRows (rows : List Val) : List Val :=
  rows.flatMap (fun r => r.value.toList.map (fun v => Val.pair r.key v))

theorem rowVals_ungroupRows (k : Val) (rows : List Val) : rowVals k (ungroupRows rows) = groupVals k rows := by
  induction rows with
  | nil => rfl
  | cons r rows ih =>
    have h1 : ungroupRows (r :: rows) = r.value.toList.map (fun v => Val.pair r.key v) ++ ungroupRows rows := by
      simp [ungroupRows]
    have h2 : groupVals k (r :: rows) = groupVals k [r] ++ groupVals k rows :=
      groupVals_append k [r] rows
    rw [h1, rowVals_append, ih, h2]
    congr 1
    by_cases hk : r.key = k
    · simp [rowVals, groupVals, groupLists, List.filter_map, Function.comp_def, hk]
    · simp [rowVals, groupVals, groupLists, List.filter_map, Function.comp_def, hk]

theorem ungroupRows_append (a b : List Val) : ungroupRows (a ++ b) = ungroupRows a ++ ungroupRows b := by
  simp [ungroupRows]

theorem ungroupRows_flatten (ps : List (List Val)) :
    ungroupRows ps.flatten = (ps.map ungroupRows).flatten := by
  induction ps with
  | nil => rfl
  | cons p ps ih => simp [ungroupRows_append, ih]

theorem mem_keys_of_mem_keys_ungroupRows {k : Val} {rows : List Val}
    (h : k ∈ (ungroupRows rows).map Val.key) : k ∈ rows.map Val.key := by
  apply Classical.byContradiction
  intro hn
  have h1 : groupVals k rows = [] := by
    unfold groupVals; rw [(groupLists_eq_nil_iff k rows).mpr hn]; rfl
  rw [← rowVals_ungroupRows, rowVals_eq_nil_iff] at h1
  exact h1 h

theorem addKeys_of_all_mem {ns : List Val} : ∀ {ks : List Val}, (∀ x ∈ ns, x ∈ ks) → addKeys ks ns = ks := by
  induction ns with
  | nil => intro ks _; rfl
  | cons n ns ih =>
    intro ks h
    rw [addKeys_cons, addKey_of_mem (h n (by simp))]
    exact ih (fun x hx => h x (by simp [hx]))

/-- when no group is empty, the ungrouped rows list the keys in the same first-occurrence order -/
theorem addKeys_ungroupRows (rows : List Val) (hne : ∀ r ∈ rows, r.value.toList ≠ []) :
    ∀ ks, addKeys ks ((ungroupRows rows).map Val.key) = addKeys ks (rows.map Val.key) := by
  induction rows with
  | nil => intro ks; rfl
  | cons r rows ih =>
    intro ks
    have h1 : ungroupRows (r :: rows) = r.value.toList.map (fun v => Val.pair r.key v) ++ ungroupRows rows := by
      simp [ungroupRows]
    rw [h1, List.map_append, addKeys_append, ih (fun x hx => hne x (by simp [hx])), List.map_cons, addKeys_cons]
    congr 1
    cases hl : r.value.toList with
    | nil => exact absurd hl (hne r (by simp))
    | cons v vs =>
      simp only [List.map_cons, Val.key_pair, addKeys_cons]
      apply addKeys_of_all_mem
      intro x hx
      simp only [List.map_map, List.mem_map, Function.comp_apply, Val.key_pair] at hx
      obtain ⟨_, _, rfl⟩ := hx
      exact mem_addKey.mpr (Or.inr rfl)

/-- lifted = classic, literally, on grouped input without empty groups -/
theorem combineOut_lifted_eq_classic (hc : LawfulCombiner c R) (ps : List (List Val))
    (hne : ∀ r ∈ ps.flatten, r.value.toList ≠ []) :
    combineOut c (ps.map (liftedAccs c)) = combineOut c ((ps.map ungroupRows).map (localAccs c)) := by
  have hkeys : addKeys [] ((ps.map ungroupRows).flatten.map Val.key) = addKeys [] (ps.flatten.map Val.key) := by
    rw [← ungroupRows_flatten]; exact addKeys_ungroupRows _ hne []
  apply alist_ext
  · rw [keys_combineOut]; exact nodup_keys_mergeAccs _ _
  · rw [keys_combineOut, keys_combineOut, keys_mergeAccs_of_keys c _ (keys_liftedAccs c),
      keys_mergeAccs_of_keys c _ (keys_localAccs c), hkeys]
  · intro k
    rw [lookupKV_combineOut_locals hc (locSpec_lifted hc), lookupKV_combineOut_locals hc (locSpec_classic hc),
      ← ungroupRows_flatten, rowVals_ungroupRows]
    have hm : k ∈ (ungroupRows ps.flatten).map Val.key ↔ k ∈ ps.flatten.map Val.key := by
      have h1 : k ∈ addKeys [] ((ungroupRows ps.flatten).map Val.key) ↔ k ∈ addKeys [] (ps.flatten.map Val.key) := by
        rw [addKeys_ungroupRows _ hne []]
      simpa [mem_addKeys] using h1
    by_cases h : k ∈ ps.flatten.map Val.key
    · rw [if_pos h, if_pos (hm.mpr h)]
    · rw [if_neg h, if_neg (fun x => h (hm.mp x))]

/-! ## global combine over 1-row partitions -/

theorem accOf_globalMerge (c : VCombiner) (parts : List Part) :
    accOf (globalMerge c parts) = mergeAll c (parts.map accOf) := by
  cases parts with
  | nil => rfl
  | cons p rest => simp [globalMerge, mergeAll, accOf, List.foldl_map]

/-- accumulator partitions are compared through their single row -/
def GRel (R : Val → Val → Prop) (p q : Part) : Prop := R (accOf p) (accOf q)

/-- the accumulators that occur: those standing for some list of values -/
def GInv (c : VCombiner) (R : Val → Val → Prop) (p : Part) : Prop :=
  ∃ xs, R (accOf p) (c.foldAdd c.create xs)

theorem ginv_forall₂ (g : List Part) (h : ∀ a ∈ g, GInv c R a) :
    ∃ xss, Forall2 (fun a xs => R a (c.foldAdd c.create xs)) (g.map accOf) xss := by
  induction g with
  | nil => exact ⟨[], Forall2.nil⟩
  | cons a g ih =>
    obtain ⟨xss, hx⟩ := ih (fun b hb => h b (by simp [hb]))
    obtain ⟨xs, ha⟩ := h a (by simp)
    exact ⟨xs :: xss, Forall2.cons ha hx⟩

theorem ginv_globalMerge (hc : LawfulCombiner c R) (g : List Part) (h : ∀ a ∈ g, GInv c R a) :
    GInv c R (globalMerge c g) := by
  obtain ⟨xss, hx⟩ := ginv_forall₂ g h
  exact ⟨xss.flatten, by rw [accOf_globalMerge]; exact mergeAll_rel hc hx⟩

/-- merging the local accumulators of any partition list stands for the concatenated rows -/
theorem global_locals (hc : LawfulCombiner c R) (loc : Part → Part)
    (hloc : ∀ p, R (accOf (loc p)) (c.foldAdd c.create p)) (ps : List Part) :
    R (accOf (globalMerge c (ps.map loc))) (c.foldAdd c.create ps.flatten) := by
  rw [accOf_globalMerge, List.map_map]
  have hall : Forall2 (fun a xs => R a (c.foldAdd c.create xs)) (ps.map (accOf ∘ loc)) (ps.map id) :=
    forall₂_map_map _ _ _ ps (fun p _ => hloc p)
  have h1 := mergeAll_rel hc hall
  simpa only [List.map_id] using h1

/-- merging group by group, then merging the results, is merging everything at once (up to `R`), for
    accumulators that stand for value lists -/
theorem global_assoc (hc : LawfulCombiner c R) (gs : List (List Part))
    (hgs : ∀ g ∈ gs, g ≠ [] ∧ ∀ a ∈ g, GInv c R a) :
    GRel R (globalMerge c (gs.map (globalMerge c))) (globalMerge c gs.flatten) := by
  show R _ _
  -- pick, for every accumulator that occurs, a list of values it stands for
  have hex : ∀ a : Part, ∃ xs, GInv c R a → R (accOf a) (c.foldAdd c.create xs) := by
    intro a
    by_cases h : GInv c R a
    · obtain ⟨xs, hx⟩ := h; exact ⟨xs, fun _ => hx⟩
    · exact ⟨[], fun h' => absurd h' h⟩
  obtain ⟨pick, hpick⟩ := Classical.axiomOfChoice hex
  have hgroup : ∀ g ∈ gs, R (accOf (globalMerge c g)) (c.foldAdd c.create (g.map pick).flatten) := by
    intro g hg
    rw [accOf_globalMerge]
    exact mergeAll_rel hc (forall₂_map_map _ _ _ g (fun a ha => hpick a ((hgs g hg).2 a ha)))
  have hl : R (accOf (globalMerge c (gs.map (globalMerge c))))
      (c.foldAdd c.create (gs.map (fun g => (g.map pick).flatten)).flatten) := by
    rw [accOf_globalMerge, List.map_map]
    exact mergeAll_rel hc (forall₂_map_map _ _ _ gs hgroup)
  have hr : R (accOf (globalMerge c gs.flatten))
      (c.foldAdd c.create (gs.flatten.map pick).flatten) := by
    rw [accOf_globalMerge]
    apply mergeAll_rel hc
    apply forall₂_map_map
    intro a ha
    obtain ⟨g, hg, hag⟩ := List.mem_flatten.mp ha
    exact hpick a ((hgs g hg).2 a hag)
  have heq : (gs.map (fun g => (g.map pick).flatten)).flatten = (gs.flatten.map pick).flatten := by
    clear hl hr hgroup hgs
    induction gs with
    | nil => rfl
    | cons g gs ih => simp [ih]
  rw [heq] at hl
  exact hc.trans hl (hc.symm hr)

theorem global_m1 (hc : LawfulCombiner c R) (a : Part) : GRel R a (globalMerge c [a]) := by
  show R _ _
  rw [accOf_globalMerge]
  exact hc.refl _

/-- the reduction of the per-partition accumulators terminates for EVERY fan-out and its result stands
    for the concatenated rows -/
theorem global_reduce (hc : LawfulCombiner c R) (loc : Part → Part)
    (hloc : ∀ p, R (accOf (loc p)) (c.foldAdd c.create p)) (fo : Option Nat) (ps : List Part) :
    ∃ x, reduceGlobal (globalMerge c) fo (ps.map loc) = pure x ∧
      R (accOf x) (c.foldAdd c.create ps.flatten) := by
  obtain ⟨x, hx, hR⟩ := reduceGlobal_spec (globalMerge c) fo (GInv c R) (GRel R) (fun a => hc.refl _)
    (fun h1 h2 => hc.trans h1 h2) (ginv_globalMerge hc) (fun a _ => global_m1 hc a) (global_assoc hc)
    (ps.map loc) (by
      intro a ha
      obtain ⟨p, _, rfl⟩ := List.mem_map.mp ha
      exact ⟨p, hloc p⟩)
  exact ⟨x, hx, hc.trans hR (global_locals hc loc hloc ps)⟩

/-- the global contract, for any local whose accumulator stands for the rows of its partition -/
theorem global_contract (hc : LawfulCombiner c R) (loc : Part → Part)
    (hloc : ∀ p, R (accOf (loc p)) (c.foldAdd c.create p)) (fo : Option Nat) :
    SubNodeOK List.flatten (Node.combineGlobal loc (globalMerge c) (globalFinish c) fo) := by
  refine ⟨GInv c R, GRel R, fun a => hc.refl _, fun a b d h1 h2 => hc.trans h1 h2, ?_, ?_, ?_, ?_, ?_, ?_⟩
  · intro a b h
    simp only [globalFinish]
    rw [hc.finish_congr h]
  · intro p; exact ⟨p, hloc p⟩
  · exact ginv_globalMerge hc
  · intro ps
    exact hc.trans (global_locals hc loc hloc ps) (hc.symm (hloc _))
  · intro a _; exact global_m1 hc a
  · exact global_assoc hc

theorem globalLocal_stands (hc : LawfulCombiner c R) (p : Part) :
    R (accOf (globalLocal c p)) (c.foldAdd c.create p) := hc.refl _

theorem globalLocalLifted_stands (hc : LawfulCombiner c R) (p : Part) :
    R (accOf (globalLocalLifted c p)) (c.foldAdd c.create p) := hc.build_fold p

/-! ## closed form of an association list with known keys and entries -/

theorem lookupKV_map_keys {β : Type} (f : Val → β) (ks : List Val) (k : Val) :
    lookupKV (ks.map (fun k => (k, f k))) k = if k ∈ ks then some (f k) else none := by
  induction ks with
  | nil => rfl
  | cons k' ks ih =>
    simp only [List.map_cons, lookupKV_cons, ih, List.mem_cons]
    by_cases h : k' = k
    · subst h; simp
    · have h' : ¬ k = k' := fun x => h x.symm
      simp [h, h']

theorem alist_eq_map_keys {β : Type} (f : Val → β) (m : List (Val × β)) (hn : (m.map (·.1)).Nodup)
    (hl : ∀ k, lookupKV m k = if k ∈ m.map (·.1) then some (f k) else none) :
    m = (m.map (·.1)).map (fun k => (k, f k)) := by
  apply alist_ext hn
  · simp [List.map_map, Function.comp_def]
  · intro k; rw [hl k, lookupKV_map_keys]

theorem keys_encAccs (m : List (Val × Val)) : (encAccs m).map Val.key = m.map (·.1) := by
  simp [encAccs, List.map_map, Function.comp_def]

end IB
