import IbModel.Proofs.SamplingKeyed
/-!
Helper lemmas for C14 (round 3): `cutSizes`, `filter` as the `flat_map` it is to the engine, `insertOrMerge` /
`local_groups`, and the bit pattern of the stored priority.
-/
namespace IB.Sampling

/-! ## `cutSizes` -/

theorem cutSizes_flatten_lengths {β : Type} : ∀ (ps : List (List β)),
    cutSizes ps.flatten (ps.map List.length) = some ps
  | [] => by simp [cutSizes]
  | p :: ps => by
    simp only [List.flatten_cons, List.map_cons, cutSizes, List.length_append, Nat.le_add_right, ↓reduceIte,
      List.drop_left, cutSizes_flatten_lengths ps, List.take_left]

theorem cutSizes_sound {β : Type} : ∀ (sz : List Nat) (xs : List β) (ps : List (List β)),
    cutSizes xs sz = some ps → ps.flatten = xs ∧ ps.map List.length = sz
  | [], xs, ps, h => by
    simp only [cutSizes] at h
    split at h
    · rename_i he
      simp only [Option.some.injEq] at h
      subst h
      simp [List.isEmpty_iff.mp he]
    · simp at h
  | s :: rest, xs, ps, h => by
    simp only [cutSizes] at h
    split at h
    · rename_i hs
      cases hc : cutSizes (xs.drop s) rest with
      | none => rw [hc] at h; simp at h
      | some qs =>
        rw [hc] at h
        simp only [Option.some.injEq] at h
        subst h
        obtain ⟨h1, h2⟩ := cutSizes_sound rest (xs.drop s) qs hc
        refine ⟨?_, ?_⟩
        · simp [h1]
        · simp [h2, hs]
    · simp at h

/-! ## `filter p` = `flat_map (filterG p)` -/

theorem filter_eq_flatMap {β : Type} (p : β → Bool) : ∀ (l : List β), l.filter p = l.flatMap (filterG p)
  | [] => rfl
  | x :: l => by
    simp only [List.filter_cons, List.flatMap_cons, filterG, filter_eq_flatMap p l]
    split <;> simp

theorem flatten_map_flatMap {β γ : Type} (g : β → List γ) : ∀ (ps : List (List β)),
    (ps.map (List.flatMap g)).flatten = ps.flatten.flatMap g
  | [] => rfl
  | q :: ps => by
    simp only [List.map_cons, List.flatten_cons, List.flatMap_append, flatten_map_flatMap g ps]

/-! ## `insertOrMerge`, `local_groups` -/

variable {κ : Type} [DecidableEq κ] {β : Type}

theorem lookupK_insertOrMerge (new : β) (f : β → β) (k k' : κ) : ∀ (m : List (κ × β)),
    lookupK k' (insertOrMerge m k new f) =
      if k = k' then some (match lookupK k m with | none => new | some b => f b) else lookupK k' m
  | [] => by
    simp only [insertOrMerge, lookupK]
  | (k₀, b) :: r => by
    have ih := lookupK_insertOrMerge new f k k' r
    by_cases h0 : k₀ = k
    · subst h0
      simp only [insertOrMerge, ↓reduceIte, lookupK]
      by_cases h1 : k₀ = k'
      · simp [h1]
      · simp [h1]
    · simp only [insertOrMerge, h0, ↓reduceIte, lookupK, ih]
      by_cases h1 : k₀ = k'
      · have : ¬ k = k' := fun e => h0 (h1.trans e.symm)
        simp [h1, this]
      · simp [h1]

theorem keys_insertOrMerge (new : β) (f : β → β) (k : κ) : ∀ (m : List (κ × β)),
    (insertOrMerge m k new f).map Prod.fst =
      if k ∈ m.map Prod.fst then m.map Prod.fst else m.map Prod.fst ++ [k]
  | [] => by simp [insertOrMerge]
  | (k₀, b) :: r => by
    have ih := keys_insertOrMerge new f k r
    by_cases h0 : k₀ = k
    · subst h0; simp [insertOrMerge]
    · have h0' : ¬ k = k₀ := fun e => h0 e.symm
      simp only [insertOrMerge, h0, ↓reduceIte, List.map_cons, ih, List.mem_cons, h0', false_or]
      split <;> simp

theorem nodup_keys_insertOrMerge (new : β) (f : β → β) (k : κ) (m : List (κ × β))
    (h : (m.map Prod.fst).Nodup) : ((insertOrMerge m k new f).map Prod.fst).Nodup := by
  rw [keys_insertOrMerge]
  split
  · exact h
  · rename_i hk
    rw [List.nodup_append]
    refine ⟨h, by simp, ?_⟩
    intro a ha b hb
    simp only [List.mem_singleton] at hb
    subst hb
    intro e; subst e; exact hk ha

variable {V A O : Type}

theorem nodup_keys_localGroupsFold (c : Combiner V A O) : ∀ (groups : List (κ × List V)) (m : List (κ × A)),
    (m.map Prod.fst).Nodup →
    ((groups.foldl (fun m kv => insertOrMerge m kv.1 (c.build kv.2) (fun e => c.merge e (c.build kv.2))) m).map
      Prod.fst).Nodup
  | [], m, h => h
  | g :: r, m, h => by
    rw [List.foldl_cons]
    exact nodup_keys_localGroupsFold c r _ (nodup_keys_insertOrMerge _ _ _ _ h)

/-- `local_groups` over groups with pairwise different keys (what `group_by_key` produces): the key's entry is
    `build_from_group` of its ONE group; a key already present in `m` gets the group merged in -/
theorem lookupK_localGroupsFold (c : Combiner V A O) (k : κ) : ∀ (groups : List (κ × List V)) (m : List (κ × A)),
    (groups.map Prod.fst).Nodup →
    lookupK k (groups.foldl (fun m kv => insertOrMerge m kv.1 (c.build kv.2) (fun e => c.merge e (c.build kv.2))) m) =
      match lookupK k groups with
      | none => lookupK k m
      | some vs => some (match lookupK k m with | none => c.build vs | some e => c.merge e (c.build vs))
  | [], m, _ => by simp [lookupK]
  | (k', vs) :: r, m, hnd => by
    simp only [List.map_cons, List.nodup_cons] at hnd
    rw [List.foldl_cons, lookupK_localGroupsFold c k r _ hnd.2]
    simp only [lookupK_insertOrMerge, lookupK]
    by_cases h : k' = k
    · subst h
      have : lookupK k' r = none := (lookupK_eq_none_iff k' r).mpr hnd.1
      simp [this]
    · simp only [h, ↓reduceIte]

theorem lookupK_localGroups (c : Combiner V A O) (k : κ) (groups : List (κ × List V))
    (hnd : (groups.map Prod.fst).Nodup) :
    lookupK k (localGroups c groups) = (lookupK k groups).map c.build := by
  unfold localGroups
  rw [lookupK_localGroupsFold c k groups [] hnd]
  cases lookupK k groups <;> simp [lookupK]

theorem nodup_keys_localGroups (c : Combiner V A O) (groups : List (κ × List V)) :
    ((localGroups c groups).map Prod.fst).Nodup :=
  nodup_keys_localGroupsFold c groups [] (by simp)

/-- lookups do not depend on the order of the entries when the keys are pairwise different -/
theorem lookupK_perm (k : κ) {m m' : List (κ × β)} (hp : m.Perm m') (hnd : (m.map Prod.fst).Nodup) :
    lookupK k m = lookupK k m' := by
  have hnd' : (m'.map Prod.fst).Nodup := (hp.map Prod.fst).nodup_iff.mp hnd
  cases h : lookupK k m with
  | none =>
    have h1 := (lookupK_eq_none_iff k m).mp h
    have h2 : k ∉ m'.map Prod.fst := fun hm => h1 ((hp.map Prod.fst).mem_iff.mpr hm)
    exact ((lookupK_eq_none_iff k m').mpr h2).symm
  | some b =>
    have hm := mem_of_lookupK k b m h
    exact (lookupK_of_mem_nodup k b m' hnd' (hp.mem_iff.mp hm)).symm

/-! ## the bit pattern of the stored priority -/

theorem log2_le_52 {m : Nat} (h0 : m ≠ 0) (hb : m < 2 ^ 53) : Nat.log2 m ≤ 52 := by
  have h1 := Nat.log2_self_le h0
  have h2 : 2 ^ Nat.log2 m < 2 ^ 53 := Nat.lt_of_le_of_lt h1 hb
  have := (Nat.pow_lt_pow_iff_right (by decide : 1 < 2)).mp h2
  omega

/-- the scaled significand: `2^52 ≤ m·2^(52-e) < 2^53` for `e = ⌊log2 m⌋` -/
theorem scaled_bounds {m : Nat} (h0 : m ≠ 0) (hb : m < 2 ^ 53) :
    2 ^ 52 ≤ m * 2 ^ (52 - Nat.log2 m) ∧ m * 2 ^ (52 - Nat.log2 m) < 2 ^ 53 := by
  have he := log2_le_52 h0 hb
  have h1 := Nat.log2_self_le h0
  have h2 : m < 2 ^ (Nat.log2 m + 1) := Nat.lt_log2_self
  have hp : 2 ^ Nat.log2 m * 2 ^ (52 - Nat.log2 m) = 2 ^ 52 := by
    rw [← Nat.pow_add]; congr 1; omega
  have hp' : 2 ^ (Nat.log2 m + 1) * 2 ^ (52 - Nat.log2 m) = 2 ^ 53 := by
    rw [← Nat.pow_add]; congr 1; omega
  have hpos : 0 < 2 ^ (52 - Nat.log2 m) := Nat.pow_pos (by decide)
  constructor
  · rw [← hp]; exact Nat.mul_le_mul_right _ h1
  · rw [← hp']; exact Nat.mul_lt_mul_of_pos_right h2 hpos

end IB.Sampling
