import IbModel.Model.Io
/-!
# Helper lemmas for C09 (shard arithmetic, chains of ranges, slices, range readers)
Core Lean only.
-/
namespace IB.Io

/-! ## `div_ceil` -/

theorem divCeil_mul_ge (a b : Nat) (hb : 0 < b) : a ≤ divCeil a b * b := by
  have h1 := Nat.div_add_mod a b
  have h2 := Nat.mod_lt a hb
  rw [Nat.mul_comm] at h1
  unfold divCeil
  split
  · rw [Nat.add_mul]; omega
  · omega

theorem divCeil_pred_mul_lt (a b : Nat) (hb : 0 < b) (ha : 0 < a) : (divCeil a b - 1) * b < a := by
  have h1 := Nat.div_add_mod a b
  have h2 := Nat.mod_lt a hb
  rw [Nat.mul_comm] at h1
  unfold divCeil
  split
  · simp only [Nat.add_sub_cancel]; omega
  · have hq : 0 < a / b := by
      rcases Nat.eq_zero_or_pos (a / b) with h | h
      · rw [h] at h1; omega
      · exact h
    have : (a / b - 1) * b + b = a / b * b := by
      rw [← Nat.succ_mul]; congr 1; omega
    omega

theorem divCeil_pos (a b : Nat) (hb : 0 < b) (ha : 0 < a) : 0 < divCeil a b := by
  have := divCeil_mul_ge a b hb
  rcases Nat.eq_zero_or_pos (divCeil a b) with h | h
  · rw [h] at this; omega
  · exact h

/-- for `i < div_ceil a b`: `i * b < a` -/
theorem mul_lt_of_lt_divCeil (a b i : Nat) (hb : 0 < b) (ha : 0 < a) (hi : i < divCeil a b) :
    i * b < a := by
  have h := divCeil_pred_mul_lt a b hb ha
  have : i * b ≤ (divCeil a b - 1) * b := Nat.mul_le_mul_right b (by omega)
  omega

/-! ## chains of half-open ranges -/

/-- `Chain a b rs`: the ranges `rs` are contiguous, in order, start at `a` and end at `b`
    (`[(a, m₁), (m₁, m₂), …, (mₖ, b)]` with `a ≤ m₁ ≤ … ≤ b`; `rs = []` forces `a = b`). -/
inductive Chain : Nat → Nat → List (Nat × Nat) → Prop
  | nil (a : Nat) : Chain a a []
  | cons {a m b : Nat} {rs : List (Nat × Nat)} : a ≤ m → Chain m b rs → Chain a b ((a, m) :: rs)

theorem Chain.le {a b : Nat} {rs : List (Nat × Nat)} (h : Chain a b rs) : a ≤ b := by
  induction h with
  | nil => exact Nat.le_refl _
  | cons h1 _ ih => omega

/-- the index sets of a chain, concatenated, are exactly `[a, b)` — every index once, in order -/
theorem Chain.cover {a b : Nat} {rs : List (Nat × Nat)} (h : Chain a b rs) :
    rs.flatMap (fun r => List.range' r.1 (r.2 - r.1)) = List.range' a (b - a) := by
  induction h with
  | nil => simp
  | @cons a m b rs h1 h2 ih =>
    have := h2.le
    simp only [List.flatMap_cons, ih]
    rw [show b - a = (m - a) + (b - m) by omega, ← List.range'_append_1]
    congr 2; omega


/-! ## `mkRanges` / `mkGroupRanges` are chains of non-empty ranges -/

theorem chain_map_range' (lps total k : Nat) (hk : total ≤ k * lps)
    (hlt : ∀ i, i < k → i * lps < total) :
    ∀ n j, j + n = k →
      Chain (min (j * lps) total) total
        ((List.range' j n).map fun i => (i * lps, min ((i + 1) * lps) total)) := by
  intro n
  induction n with
  | zero =>
    intro j hj
    have : j = k := by omega
    subst this
    rw [Nat.min_eq_right hk]
    exact Chain.nil _
  | succ n ih =>
    intro j hj
    have hjl := hlt j (by omega)
    rw [List.range'_succ, List.map_cons, Nat.min_eq_left (Nat.le_of_lt hjl)]
    refine Chain.cons ?_ (ih (j + 1) (by omega))
    rw [Nat.succ_mul]
    omega

theorem mkRanges_chain (total per : Nat) : Chain 0 total (mkRanges total per) := by
  unfold mkRanges
  split
  · next h => subst h; exact Chain.nil 0
  · next h =>
    have hl : 0 < max per 1 := by omega
    have ht : 0 < total := by omega
    have := chain_map_range' (max per 1) total (divCeil total (max per 1))
      (divCeil_mul_ge _ _ hl) (fun i hi => mul_lt_of_lt_divCeil _ _ i hl ht hi)
      (divCeil total (max per 1)) 0 (by omega)
    simpa [List.range_eq_range'] using this

theorem mkRanges_nonempty (total per : Nat) : ∀ r ∈ mkRanges total per, r.1 < r.2 := by
  unfold mkRanges
  split
  · simp
  · next h =>
    have hl : 0 < max per 1 := by omega
    have ht : 0 < total := by omega
    intro r hr
    simp only [List.mem_map, List.mem_range] at hr
    obtain ⟨i, hi, rfl⟩ := hr
    have := mul_lt_of_lt_divCeil _ _ i hl ht hi
    simp only
    rw [Nat.succ_mul]
    omega

theorem groupLoop_chain (num g : Nat) (hg : 0 < g) :
    ∀ fuel start, start ≤ num → num - start ≤ fuel →
      Chain start num (groupLoop num g fuel start) ∧
      ∀ r ∈ groupLoop num g fuel start, r.1 < r.2 := by
  intro fuel
  induction fuel with
  | zero =>
    intro start h1 h2
    have : start = num := by omega
    subst this
    exact ⟨Chain.nil _, by simp [groupLoop]⟩
  | succ fuel ih =>
    intro start h1 h2
    unfold groupLoop
    split
    · next hlt =>
      have ih' := ih (min (start + g) num) (by omega) (by omega)
      refine ⟨Chain.cons (by omega) ih'.1, ?_⟩
      intro r hr
      simp only [List.mem_cons] at hr
      rcases hr with rfl | hr
      · simp only; omega
      · exact ih'.2 r hr
    · next hge =>
      have : start = num := by omega
      subst this
      exact ⟨Chain.nil _, by simp⟩

theorem mkGroupRanges_chain (num per : Nat) :
    Chain 0 num (mkGroupRanges num per) ∧ ∀ r ∈ mkGroupRanges num per, r.1 < r.2 := by
  unfold mkGroupRanges
  split
  · next h => subst h; exact ⟨Chain.nil 0, by simp⟩
  · exact groupLoop_chain num (max per 1) (by omega) num 0 (by omega) (by omega)

/-! ## slices along a chain -/

theorem take_drop_append {α : Type} (data : List α) (a m b : Nat) (h1 : a ≤ m) (h2 : m ≤ b) :
    (data.drop a).take (m - a) ++ (data.drop m).take (b - m) = (data.drop a).take (b - a) := by
  rw [show b - a = (m - a) + (b - m) by omega, List.take_add, List.drop_drop]
  congr 3; omega

theorem slices_of_chain {α : Type} (data : List α) {a b : Nat} {rs : List (Nat × Nat)}
    (h : Chain a b rs) (hb : b ≤ data.length) :
    ∃ parts, rs.mapM (fun r => slice? data r.1 r.2) = some parts ∧
      parts.flatten = (data.drop a).take (b - a) := by
  induction h with
  | nil a => exact ⟨[], by simp, by simp⟩
  | @cons a m b rs h1 h2 ih =>
    obtain ⟨parts, hp, hf⟩ := ih hb
    have hmb := h2.le
    refine ⟨(data.drop a).take (m - a) :: parts, ?_, ?_⟩
    · rw [List.mapM_cons, hp]
      have : slice? data a m = some ((data.drop a).take (m - a)) := by
        unfold slice?; rw [if_pos]; omega
      simp [this]
    · rw [List.flatten_cons, hf]
      exact take_drop_append data a m b h1 hmb


/-! ## range readers -/

section readers
variable {Line Rec : Type} (blank : Line → Bool) (de : Line → Option Rec)

/-- once the cursor is past both start indices, the start index is irrelevant -/
theorem readRangeFrom_start_irrel (s s' e : Nat) :
    ∀ (ls : List Line) (i : Nat), s ≤ i → s' ≤ i →
      readRangeFrom blank de s e i ls = readRangeFrom blank de s' e i ls := by
  intro ls
  induction ls with
  | nil => intro i _ _; simp [readRangeFrom]
  | cons l ls ih =>
    intro i h1 h2
    have ih' := ih (i + 1) (by omega) (by omega)
    simp only [readRangeFrom, if_neg (Nat.not_lt.mpr h1), if_neg (Nat.not_lt.mpr h2), ih']

/-- a read past the end index yields nothing -/
theorem readRangeFrom_past (s e : Nat) :
    ∀ (ls : List Line) (i : Nat), s ≤ i → e ≤ i → readRangeFrom blank de s e i ls = some [] := by
  intro ls
  cases ls with
  | nil => intro i _ _; simp [readRangeFrom]
  | cons l ls =>
    intro i h1 h2
    simp only [readRangeFrom, if_neg (Nat.not_lt.mpr h1), if_pos h2]

/-- an empty range reads nothing (and parses nothing) -/
theorem readRangeFrom_empty (a : Nat) :
    ∀ (ls : List Line) (i : Nat), readRangeFrom blank de a a i ls = some [] := by
  intro ls
  induction ls with
  | nil => intro i; simp [readRangeFrom]
  | cons l ls ih =>
    intro i
    by_cases h : i < a
    · simp only [readRangeFrom, if_pos h, ih]
    · simp only [readRangeFrom, if_neg h, if_pos (Nat.not_lt.mp h)]

/-- reading `[a, b)` = reading `[a, m)` then `[m, b)` (errors included) -/
theorem readRangeFrom_split (a m b : Nat) (h1 : a ≤ m) (h2 : m ≤ b) :
    ∀ (ls : List Line) (i : Nat),
      readRangeFrom blank de a b i ls =
        (readRangeFrom blank de a m i ls).bind fun x =>
          (readRangeFrom blank de m b i ls).map (x ++ ·) := by
  intro ls
  induction ls with
  | nil => intro i; simp [readRangeFrom]
  | cons l ls ih =>
    intro i
    have ih' := ih (i + 1)
    by_cases hia : i < a
    · -- before both ranges
      have him : i < m := by omega
      simp only [readRangeFrom, if_pos hia, if_pos him, ih']
    · by_cases him : i < m
      · -- inside [a, m)
        have hib : ¬ b ≤ i := by omega
        have hmi : ¬ m ≤ i := by omega
        simp only [readRangeFrom, if_neg hia, if_pos him, if_neg hib, if_neg hmi]
        cases hb : blank l
        · simp only [Bool.false_eq_true, if_false]
          cases hd : de l with
          | none => simp
          | some r =>
            simp only [ih']
            cases readRangeFrom blank de a m (i + 1) ls <;>
              cases readRangeFrom blank de m b (i + 1) ls <;> simp
        · simp only [if_true, ih']
      · -- at or past m: the first read has stopped
        have hmi : m ≤ i := by omega
        rw [readRangeFrom_past blank de a m (l :: ls) i (by omega) hmi]
        simp only [Option.bind_some, List.nil_append]
        rw [readRangeFrom_start_irrel blank de a m b (l :: ls) i (by omega) hmi]
        cases readRangeFrom blank de m b i (l :: ls) <;> simp

theorem readRange_chain (ls : List Line) {a b : Nat} {rs : List (Nat × Nat)} (h : Chain a b rs) :
    (rs.mapM fun r => readRange blank de ls r.1 r.2).map List.flatten =
      readRange blank de ls a b := by
  induction h with
  | nil a =>
    simp only [List.mapM_nil, readRange, readRangeFrom_empty]
    rfl
  | @cons a m b rs h1 h2 ih =>
    have hmb := h2.le
    rw [List.mapM_cons]
    unfold readRange at ih ⊢
    rw [readRangeFrom_split blank de a m b h1 hmb ls 0, ← ih]
    cases readRangeFrom blank de a m 0 ls <;>
      cases (rs.mapM fun r => readRangeFrom blank de r.1 r.2 0 ls) <;> simp

/-- `clone_any` (`read_*_range(src, 0, total)`) = `read_*_vec` -/
theorem readRangeFrom_eq_readAll (e : Nat) :
    ∀ (ls : List Line) (i : Nat), i + ls.length ≤ e →
      readRangeFrom blank de 0 e i ls = readAll blank de ls := by
  intro ls
  induction ls with
  | nil => intro i _; simp [readRangeFrom, readAll]
  | cons l ls ih =>
    intro i hi
    simp only [List.length_cons] at hi
    have ih' := ih (i + 1) (by omega)
    have : ¬ e ≤ i := by omega
    simp only [readRangeFrom, readAll, Nat.not_lt_zero, if_false, if_neg this, ih']

end readers


/-! ## parallel writers -/

theorem Chain.cons_inv {a b : Nat} {r : Nat × Nat} {rs : List (Nat × Nat)}
    (h : Chain a b (r :: rs)) : r.1 = a ∧ a ≤ r.2 ∧ Chain r.2 b rs := by
  cases h with
  | cons h1 h2 => exact ⟨rfl, h1, h2⟩

theorem Chain.nil_inv {a b : Nat} (h : Chain a b []) : a = b := by
  cases h; rfl

/-- slices along a chain given through a projection `f` of arbitrary shard descriptors -/
theorem slices_of_chain_map {α β : Type} (data : List α) (f : β → Nat × Nat) :
    ∀ (bs : List β) (a b : Nat), Chain a b (bs.map f) → b ≤ data.length →
      ∃ parts, bs.mapM (fun x => slice? data (f x).1 (f x).2) = some parts ∧
        parts.flatten = (data.drop a).take (b - a) := by
  intro bs
  induction bs with
  | nil =>
    intro a b h _
    have := h.nil_inv
    subst this
    exact ⟨[], by simp, by simp⟩
  | cons x bs ih =>
    intro a b h hb
    rw [List.map_cons] at h
    obtain ⟨h0, h1, h2⟩ := h.cons_inv
    obtain ⟨parts, hp, hf⟩ := ih _ _ h2 hb
    have hmb := h2.le
    refine ⟨(data.drop a).take ((f x).2 - a) :: parts, ?_, ?_⟩
    · rw [List.mapM_cons, hp]
      have : slice? data (f x).1 (f x).2 = some ((data.drop a).take ((f x).2 - a)) := by
        unfold slice?; rw [h0, if_pos]; omega
      simp [this]
    · rw [List.flatten_cons, hf]
      exact take_drop_append data a (f x).2 b h1 hmb

theorem chain_map_range_min (c n k : Nat) (hk : n ≤ k * c) :
    ∀ m j, j + m = k →
      Chain (min (j * c) n) n
        ((List.range' j m).map fun i => (min (i * c) n, min ((i + 1) * c) n)) := by
  intro m
  induction m with
  | zero =>
    intro j hj
    have : j = k := by omega
    subst this
    rw [Nat.min_eq_right hk]
    exact Chain.nil _
  | succ m ih =>
    intro j hj
    rw [List.range'_succ, List.map_cons]
    refine Chain.cons ?_ (ih (j + 1) (by omega))
    rw [Nat.succ_mul]
    omega

theorem shardCount_pos (shards : Option Nat) (auto n : Nat) (hn : 0 < n) :
    0 < shardCount shards auto n ∧ shardCount shards auto n ≤ n := by
  unfold shardCount clamp
  split
  · omega
  · split <;> omega

theorem jsonlShardBounds_chain (n sh : Nat) (hsh : 0 < sh) :
    Chain 0 n ((jsonlShardBounds n sh).map (·.2)) := by
  unfold jsonlShardBounds
  have hk : n ≤ sh * divCeil n sh := by
    have := divCeil_mul_ge n sh hsh
    rwa [Nat.mul_comm] at this
  have := chain_map_range_min (divCeil n sh) n sh hk sh 0 (by omega)
  simpa [List.range_eq_range', List.map_map, Function.comp_def] using this

/-- pinned commit: the bounds coincide with the clamped ones when the last start is in range -/
theorem legacy_bounds_eq (n sh : Nat) (h : (sh - 1) * divCeil n sh ≤ n) :
    Legacy.jsonlShardBounds n sh = jsonlShardBounds n sh := by
  unfold Legacy.jsonlShardBounds jsonlShardBounds
  apply List.map_congr_left
  intro i hi
  rw [List.mem_range] at hi
  have : i * divCeil n sh ≤ (sh - 1) * divCeil n sh := Nat.mul_le_mul_right _ (by omega)
  rw [Nat.min_eq_left (show i * divCeil n sh ≤ n by omega)]

/-! ## `split_ranges` -/

theorem splitLoop_spec (base rem : Nat) :
    ∀ (todo idx start E : Nat),
      E = start + todo * base + (min (idx + todo) rem - min idx rem) →
      Chain start E ((splitLoop base rem todo idx start).map (·.2)) ∧
      ∀ x ∈ splitLoop base rem todo idx start, idx ≤ x.1 ∧ x.2.1 < x.2.2 := by
  intro todo
  induction todo with
  | zero =>
    intro idx start E hE
    have : E = start := by simp at hE; omega
    subst this
    exact ⟨Chain.nil _, by simp [splitLoop]⟩
  | succ todo ih =>
    intro idx start E hE
    rw [Nat.succ_mul] at hE
    unfold splitLoop
    simp only
    generalize hx : (if idx < rem then 1 else 0) = extra
    have hextra : extra = min (idx + 1) rem - min idx rem := by
      subst hx; split <;> omega
    have ih' := ih (idx + 1) (start + base + extra) E (by omega)
    by_cases hlt : start < start + base + extra
    · rw [if_pos hlt]
      refine ⟨?_, ?_⟩
      · rw [List.map_cons]
        exact Chain.cons (Nat.le_of_lt hlt) ih'.1
      · intro x hx
        simp only [List.mem_cons] at hx
        rcases hx with rfl | hx
        · exact ⟨Nat.le_refl _, hlt⟩
        · have := ih'.2 x hx; omega
    · rw [if_neg hlt]
      have he : start + base + extra = start := by omega
      rw [he] at ih' ⊢
      exact ⟨ih'.1, fun x hx => by have := ih'.2 x hx; omega⟩

theorem splitRanges_spec (len parts : Nat) :
    Chain 0 len ((splitRanges len parts).map (·.2)) ∧
    ∀ x ∈ splitRanges len parts, x.2.1 < x.2.2 := by
  unfold splitRanges
  have hp : 0 < min (max parts 1) (max len 1) := by omega
  have h1 := Nat.div_add_mod len (min (max parts 1) (max len 1))
  have h2 := Nat.mod_lt len hp
  have := splitLoop_spec (len / min (max parts 1) (max len 1)) (len % min (max parts 1) (max len 1))
    (min (max parts 1) (max len 1)) 0 0 len (by omega)
  exact ⟨this.1, fun x hx => (this.2 x hx).2⟩

/-- for a non-empty input the first range is chunk 0 starting at 0, and no other chunk has index 0 -/
theorem splitRanges_head (len parts : Nat) (hlen : 0 < len) :
    ∃ e rest, splitRanges len parts = (0, 0, e) :: rest ∧ 0 < e ∧ ∀ x ∈ rest, x.1 ≠ 0 := by
  simp only [splitRanges]
  have hp : 0 < min (max parts 1) (max len 1) := by omega
  have hple : min (max parts 1) (max len 1) ≤ len := by omega
  generalize min (max parts 1) (max len 1) = P at hp hple ⊢
  have hbase : 0 < len / P := Nat.div_pos hple hp
  generalize len / P = base at hbase ⊢
  generalize len % P = rem
  obtain ⟨p, rfl⟩ : ∃ p, P = p + 1 := ⟨P - 1, by omega⟩
  unfold splitLoop
  simp only
  have hlt : 0 < 0 + base + (if 0 < rem then 1 else 0) := by omega
  rw [if_pos hlt]
  refine ⟨_, _, rfl, hlt, ?_⟩
  intro x hx
  have := (splitLoop_spec base rem p (0 + 1) _ _ rfl).2 x hx
  omega

/-! ## CSV buffers -/

section csv
variable {Line Rec : Type}

/-- buffers of chunks whose index is not 0 carry no header -/
theorem csv_tail_buffers (hdr : Bool) (header : Line) (ser : Rec → Line) (data : List Rec) :
    ∀ (bs : List (Nat × Nat × Nat)) (a b : Nat), Chain a b (bs.map (·.2)) → b ≤ data.length →
      (∀ x ∈ bs, x.1 ≠ 0) →
      ∃ parts, bs.mapM (fun x => (slice? data x.2.1 x.2.2).map
          (csvWrite (hdr && x.1 == 0) header ser)) = some parts ∧
        parts.flatten = ((data.drop a).take (b - a)).map ser := by
  intro bs
  induction bs with
  | nil =>
    intro a b h _ _
    have := h.nil_inv
    subst this
    exact ⟨[], by simp, by simp⟩
  | cons x bs ih =>
    intro a b h hb hne
    rw [List.map_cons] at h
    obtain ⟨h0, h1, h2⟩ := h.cons_inv
    obtain ⟨parts, hp, hf⟩ := ih _ _ h2 hb (fun y hy => hne y (List.mem_cons_of_mem _ hy))
    have hmb := h2.le
    have hx : (x.1 == 0) = false := by
      have := hne x (List.mem_cons_self ..)
      simp [this]
    refine ⟨((data.drop a).take (x.2.2 - a)).map ser :: parts, ?_, ?_⟩
    · rw [List.mapM_cons, hp]
      have : slice? data x.2.1 x.2.2 = some ((data.drop a).take (x.2.2 - a)) := by
        unfold slice?; rw [h0, if_pos]; omega
      simp [this, hx, csvWrite]
    · rw [List.flatten_cons, hf, ← List.map_append]
      congr 1
      exact take_drop_append data a x.2.2 b h1 hmb

end csv

/-! ## `VecOpsImpl::split` -/

theorem chunksFuel_flatten {α : Type} (c : Nat) (hc : 0 < c) :
    ∀ (fuel : Nat) (l : List α), l.length ≤ fuel → (chunksFuel c fuel l).flatten = l := by
  intro fuel
  induction fuel with
  | zero =>
    intro l hl
    have : l = [] := List.eq_nil_of_length_eq_zero (by omega)
    subst this
    simp [chunksFuel]
  | succ fuel ih =>
    intro l hl
    cases l with
    | nil => simp [chunksFuel]
    | cons x xs =>
      unfold chunksFuel
      rw [List.flatten_cons, ih _ (by simp only [List.length_drop, List.length_cons] at hl ⊢; omega)]
      exact List.take_append_drop c (x :: xs)

/-! ## Parquet row groups -/

theorem readGroups_chain {Rec : Type} (groups : List (List Rec)) {a b : Nat}
    {rs : List (Nat × Nat)} (h : Chain a b rs) :
    (rs.map fun r => readGroups groups r.1 r.2).flatten = readGroups groups a b := by
  induction h with
  | nil a => simp [readGroups]
  | @cons a m b rs h1 h2 ih =>
    have hmb := h2.le
    rw [List.map_cons, List.flatten_cons, ih]
    unfold readGroups
    rw [← List.flatten_append, take_drop_append groups a m b h1 hmb]

theorem Chain.getLast {a b : Nat} {rs : List (Nat × Nat)} (h : Chain a b rs) (hne : rs ≠ []) :
    (rs.getLast?.map (·.2)) = some b := by
  induction h with
  | nil => exact absurd rfl hne
  | @cons a m b rs h1 h2 ih =>
    cases rs with
    | nil =>
      have := h2.nil_inv
      subst this
      simp
    | cons r rs =>
      rw [List.getLast?_cons_cons]
      exact ih (by simp)

/-! ## JSONL at the byte level -/

theorem stripCr_of_no_cr (l : List Char) (h : l.getLast? ≠ some '\r') : stripCr l = l := by
  unfold stripCr
  split
  · rfl
  · rw [if_neg h]

theorem splitLinesAux_line (line rest : List Char) (hnl : '\n' ∉ line) :
    ∀ cur, splitLinesAux cur (line ++ '\n' :: rest) =
      stripCr (cur.reverse ++ line) :: splitLinesAux [] rest := by
  induction line with
  | nil =>
    intro cur
    simp [splitLinesAux]
  | cons c line ih =>
    intro cur
    have hc : c ≠ '\n' := fun h => hnl (by simp [h])
    have hl : '\n' ∉ line := fun h => hnl (List.mem_cons_of_mem _ h)
    rw [List.cons_append, splitLinesAux, if_neg hc, ih hl (c :: cur)]
    simp

theorem splitLines_writeJsonl {Rec : Type} (ser : Rec → List Char)
    (hnl : ∀ r, '\n' ∉ ser r) (hcr : ∀ r, (ser r).getLast? ≠ some '\r') :
    ∀ rs : List Rec, splitLines (writeJsonl ser rs) = rs.map ser := by
  intro rs
  induction rs with
  | nil => simp [splitLines, writeJsonl, splitLinesAux]
  | cons r rs ih =>
    unfold splitLines writeJsonl at ih ⊢
    rw [List.map_cons, List.flatten_cons, List.append_assoc]
    simp only [List.singleton_append]
    rw [splitLinesAux_line (ser r) _ (hnl r) [], ih]
    simp [stripCr_of_no_cr _ (hcr r)]

theorem readAll_map_ser {Line Rec : Type} (blank : Line → Bool) (de : Line → Option Rec)
    (ser : Rec → Line) (hde : ∀ r, de (ser r) = some r) (hb : ∀ r, blank (ser r) = false) :
    ∀ rs : List Rec, readAll blank de (rs.map ser) = some rs := by
  intro rs
  induction rs with
  | nil => simp [readAll]
  | cons r rs ih => simp [readAll, hb r, hde r, ih]

/-! ## lexicographic order laws (`PathBuf: Ord`) -/


section lex
variable {α : Type} (le : α → α → Bool)

theorem lexLe_total (htot : ∀ a b, le a b = true ∨ le b a = true) :
    ∀ x y, lexLe le x y = true ∨ lexLe le y x = true := by
  intro x
  induction x with
  | nil => intro y; left; cases y <;> rfl
  | cons a as ih =>
    intro y
    cases y with
    | nil => right; rfl
    | cons b bs =>
      have := htot a b
      have := ih bs
      simp only [lexLe]
      cases hab : le a b <;> cases hba : le b a <;> simp_all

theorem lexLe_antisymm (hanti : ∀ a b, le a b = true → le b a = true → a = b) :
    ∀ x y, lexLe le x y = true → lexLe le y x = true → x = y := by
  intro x
  induction x with
  | nil => intro y h1 h2; cases y with
    | nil => rfl
    | cons b bs => simp [lexLe] at h2
  | cons a as ih =>
    intro y h1 h2
    cases y with
    | nil => simp [lexLe] at h1
    | cons b bs =>
      have := hanti a b
      have := ih bs
      simp only [lexLe] at h1 h2
      cases hab : le a b <;> cases hba : le b a <;> simp_all

theorem lexLe_trans (htr : ∀ a b c, le a b = true → le b c = true → le a c = true) :
    ∀ x y z, lexLe le x y = true → lexLe le y z = true → lexLe le x z = true := by
  intro x
  induction x with
  | nil => intro y z _ _; cases z <;> rfl
  | cons a as ih =>
    intro y z h1 h2
    cases y with
    | nil => simp [lexLe] at h1
    | cons b bs =>
      cases z with
      | nil => simp [lexLe] at h2
      | cons c cs =>
        have t1 := htr a b c
        have t2 := htr c a b
        have t3 := htr b c a
        have t4 := htr c b a
        have t5 := htr b a c
        have t6 := htr a c b
        have := ih bs cs
        simp only [lexLe] at h1 h2 ⊢
        cases hab : le a b <;> cases hba : le b a <;> cases hbc : le b c <;> cases hcb : le c b <;>
          cases hac : le a c <;> cases hca : le c a <;> simp_all

end lex

theorem natLe_total (a b : Nat) : natLe a b = true ∨ natLe b a = true := by
  simp only [natLe, decide_eq_true_eq]; omega
theorem natLe_antisymm (a b : Nat) : natLe a b = true → natLe b a = true → a = b := by
  simp only [natLe, decide_eq_true_eq]; omega
theorem natLe_trans (a b c : Nat) : natLe a b = true → natLe b c = true → natLe a c = true := by
  simp only [natLe, decide_eq_true_eq]; omega

theorem pathLe_total (a b : PathC) : pathLe a b = true ∨ pathLe b a = true :=
  lexLe_total _ (lexLe_total _ natLe_total) a b
theorem pathLe_antisymm (a b : PathC) : pathLe a b = true → pathLe b a = true → a = b :=
  lexLe_antisymm _ (lexLe_antisymm _ natLe_antisymm) a b
theorem pathLe_trans (a b c : PathC) : pathLe a b = true → pathLe b c = true → pathLe a c = true :=
  lexLe_trans _ (lexLe_trans _ natLe_trans) a b c


theorem eq_of_mem_nodup_keys {β : Type} (x y : PathC × β) (hk : x.1 = y.1) :
    ∀ (l : List (PathC × β)), (l.map Prod.fst).Nodup → x ∈ l → y ∈ l → x = y := by
  intro l
  induction l with
  | nil => intro _ hx; simp at hx
  | cons z l ih =>
    intro hnd hx hy
    simp only [List.map_cons, List.nodup_cons, List.mem_map, not_exists, not_and] at hnd
    simp only [List.mem_cons] at hx hy
    rcases hx with rfl | hx <;> rcases hy with rfl | hy
    · rfl
    · exact absurd hk.symm (hnd.1 y hy)
    · exact absurd hk (hnd.1 x hx)
    · exact ih hnd.2 hx hy

theorem mapM_some_of_forall {α β : Type} (f : α → Option β) (g : α → β) :
    ∀ l : List α, (∀ a ∈ l, f a = some (g a)) → l.mapM f = some (l.map g) := by
  intro l
  induction l with
  | nil => intro _; rfl
  | cons a l ih =>
    intro h
    rw [List.mapM_cons, h a (List.mem_cons_self ..), ih (fun b hb => h b (List.mem_cons_of_mem _ hb))]
    rfl



theorem mapM_none_of_mem {α β : Type} (f : α → Option β) :
    ∀ l : List α, (∃ a ∈ l, f a = none) → l.mapM f = none := by
  intro l
  induction l with
  | nil => intro ⟨a, ha, _⟩; simp at ha
  | cons x l ih =>
    intro ⟨a, ha, hf⟩
    rw [List.mapM_cons]
    simp only [List.mem_cons] at ha
    rcases ha with rfl | ha
    · rw [hf]; rfl
    · rw [ih ⟨a, ha, hf⟩]
      cases f x <;> rfl

theorem divCeil_zero (b : Nat) : divCeil 0 b = 0 := by
  simp [divCeil]


end IB.Io
