import IbModel.Proofs.CombinersDistinct
/-!
# Helper lemmas for C06: TopK

`desc le xs` = `xs` sorted descending; `top le k xs` = its first `k` elements. The accumulator
invariant is `acc.reverse = top le k L` for the list `L` of values seen so far.
-/
namespace IB.Combiners
open IB

/-- first `k` of a merge only looks at the first `k` (or more) of the left side (DESIGN Appendix A) -/
theorem take_merge_take_left {α} (le : α → α → Bool) :
    ∀ (k j : Nat) (X Y : List α), k ≤ j →
      ((X.take j).merge Y le).take k = (X.merge Y le).take k := by
  intro k
  induction k with
  | zero => intros; simp
  | succ k ih =>
    intro j X Y hkj
    obtain ⟨j', rfl⟩ : ∃ j', j = j' + 1 := ⟨j - 1, by omega⟩
    induction Y generalizing X j' with
    | nil => simp [List.take_take]; omega
    | cons y Y ihY =>
      cases X with
      | nil => simp
      | cons x X =>
        simp only [List.take_succ_cons, List.cons_merge_cons]
        split
        · simp only [List.take_succ_cons]
          rw [ih j' X (y :: Y) (by omega)]
        · simp only [List.take_succ_cons]
          have h := ih (j' + 1) (x :: X) Y (by omega)
          simp only [List.take_succ_cons] at h
          rw [h]

section
variable {α : Type} (le : α → α → Bool)

/-- `≥` as a Boolean relation -/
def geOf : α → α → Bool := fun a b => le b a

/-- the values sorted descending -/
def desc (xs : List α) : List α := xs.mergeSort (geOf le)

/-- the `k` largest values in descending order -/
def top (k : Nat) (xs : List α) : List α := (desc le xs).take k

variable {le} (h : TotalOrderB le)
include h

theorem geOf_total : TotalOrderB (geOf le) := h.flip

theorem desc_sorted (xs : List α) : (desc le xs).Pairwise (fun a b => geOf le a b = true) :=
  mergeSort_sorted (geOf_total h) xs

theorem desc_perm_eq {xs ys : List α} (p : xs.Perm ys) : desc le xs = desc le ys :=
  mergeSort_perm_eq (geOf_total h) p

omit h in
theorem desc_perm (xs : List α) : (desc le xs).Perm xs := List.mergeSort_perm xs _

omit h in
theorem desc_of_sorted {l : List α} (hl : l.Pairwise (fun a b => geOf le a b = true)) :
    desc le l = l := List.mergeSort_of_pairwise hl

theorem desc_append (A B : List α) : desc le (A ++ B) = (desc le A).merge (desc le B) (geOf le) := by
  apply sorted_perm_eq (geOf_total h) (desc_sorted h _)
  · exact List.pairwise_merge (geOf_total h).trans (geOf_total h).total _ _ (desc_sorted h A) (desc_sorted h B)
  · exact (desc_perm _).trans (((desc_perm A).append (desc_perm B)).symm.trans
      (List.merge_perm_append (geOf le)).symm)

theorem top_sorted (k : Nat) (xs : List α) : (top le k xs).Pairwise (fun a b => geOf le a b = true) :=
  (desc_sorted h xs).take

omit h in
theorem top_length_le (k : Nat) (xs : List α) : (top le k xs).length ≤ k := by
  simp [top, List.length_take]; omega

theorem top_perm_eq (k : Nat) {xs ys : List α} (p : xs.Perm ys) : top le k xs = top le k ys := by
  unfold top; rw [desc_perm_eq h p]

theorem top_append_left (k : Nat) (A B : List α) : top le k (A ++ B) = top le k (top le k A ++ B) := by
  unfold top
  rw [desc_append h, desc_append h, desc_of_sorted ((desc_sorted h A).take),
    take_merge_take_left (geOf le) k k _ _ (Nat.le_refl k)]

theorem top_append_right (k : Nat) (A B : List α) : top le k (A ++ B) = top le k (A ++ top le k B) := by
  rw [top_perm_eq h k (List.perm_append_comm : (A ++ B).Perm (B ++ A)), top_append_left h,
    top_perm_eq h k (List.perm_append_comm : (top le k B ++ A).Perm (A ++ top le k B))]

theorem top_append_both (k : Nat) (A B : List α) :
    top le k (A ++ B) = top le k (top le k A ++ top le k B) := by
  rw [top_append_left h, top_append_right h]

omit h in
/-- a descending list of at most `k` elements is its own top-`k` -/
theorem top_of_sorted_short (k : Nat) {l : List α} (hl : l.Pairwise (fun a b => geOf le a b = true))
    (hk : l.length ≤ k) : top le k l = l := by
  unfold top; rw [desc_of_sorted hl, List.take_of_length_le hk]

/-! ### the heap operations on the ascending list -/

omit h in
theorem heapPush_perm (l : List α) (v : α) : (heapPush le l v).Perm (v :: l) := by
  induction l with
  | nil => exact List.Perm.refl _
  | cons x xs ih =>
    simp only [heapPush]
    split
    · exact List.Perm.refl _
    · exact (ih.cons x).trans (List.Perm.swap v x xs)

omit h in
theorem heapPush_length (l : List α) (v : α) : (heapPush le l v).length = l.length + 1 := by
  simpa using (heapPush_perm l v).length_eq

theorem heapPush_sorted {l : List α} (v : α) (hl : l.Pairwise (fun a b => le a b = true)) :
    (heapPush le l v).Pairwise (fun a b => le a b = true) := by
  induction l with
  | nil => simp [heapPush]
  | cons x xs ih =>
    simp only [heapPush]
    have hx := List.pairwise_cons.mp hl
    split
    · next hvx =>
      refine List.pairwise_cons.mpr ⟨?_, hl⟩
      intro y hy
      rcases List.mem_cons.mp hy with rfl | hy
      · exact hvx
      · exact h.trans _ _ _ hvx (hx.1 y hy)
    · next hvx =>
      refine List.pairwise_cons.mpr ⟨?_, ih hx.2⟩
      intro y hy
      rcases List.mem_cons.mp ((heapPush_perm xs v).mem_iff.mp hy) with rfl | hy
      · have := h.total y x
        simp only [Bool.or_eq_true] at this
        rcases this with t | t
        · exact absurd t hvx
        · exact t
      · exact hx.1 y hy

omit h in
theorem asc_of_reverse_desc {l : List α} (hl : l.reverse.Pairwise (fun a b => geOf le a b = true)) :
    l.Pairwise (fun a b => le a b = true) := by
  have := List.pairwise_reverse.mp hl
  exact this

omit h in
theorem desc_of_asc_reverse {l : List α} (hl : l.Pairwise (fun a b => le a b = true)) :
    l.reverse.Pairwise (fun a b => geOf le a b = true) :=
  List.pairwise_reverse.mpr hl

/-- pushing onto an ascending heap = re-sorting (seen from the descending side) -/
theorem heapPush_reverse {l : List α} (v : α) (hl : l.Pairwise (fun a b => le a b = true)) :
    (heapPush le l v).reverse = desc le (v :: l.reverse) := by
  apply sorted_perm_eq (geOf_total h) (desc_of_asc_reverse (heapPush_sorted h v hl)) (desc_sorted h _)
  exact (List.reverse_perm _).trans ((heapPush_perm l v).trans
    (((List.reverse_perm l).symm.cons v).trans (desc_perm _).symm))

/-- `extend`: pushing a whole list -/
theorem extend_reverse {a : List α} (b : List α) (ha : a.Pairwise (fun x y => le x y = true)) :
    (b.foldl (heapPush le) a).reverse = desc le (a.reverse ++ b) ∧
      (b.foldl (heapPush le) a).Pairwise (fun x y => le x y = true) := by
  induction b generalizing a with
  | nil =>
    simp only [List.foldl_nil, List.append_nil]
    exact ⟨(desc_of_sorted (desc_of_asc_reverse ha)).symm, ha⟩
  | cons v b ih =>
    simp only [List.foldl_cons]
    have hs := heapPush_sorted h v ha
    refine ⟨?_, (ih hs).2⟩
    rw [(ih hs).1, heapPush_reverse h v ha]
    apply desc_perm_eq h
    exact ((desc_perm (v :: a.reverse)).append_right b).trans List.perm_middle.symm

/-- one `add_input` step keeps the invariant -/
theorem topAdd_reverse (k : Nat) {acc : List α} {L : List α} (v : α)
    (hacc : acc.reverse = top le k L) : (topAdd le k acc v).reverse = top le k (L ++ [v]) := by
  have hdesc : acc.reverse.Pairwise (fun a b => geOf le a b = true) := hacc ▸ top_sorted h k L
  have hasc := asc_of_reverse_desc hdesc
  have hlen : acc.length ≤ k := by
    have := top_length_le (le := le) k L; rw [← hacc] at this; simpa using this
  have hrev := heapPush_reverse h v hasc
  have key : (topAdd le k acc v).reverse = (desc le (v :: acc.reverse)).take k := by
    unfold topAdd
    simp only
    split
    · next hgt =>
      rw [← List.dropLast_reverse, hrev, List.dropLast_eq_take]
      have : (desc le (v :: acc.reverse)).length = acc.length + 1 := by
        rw [← hrev, List.length_reverse, heapPush_length]
      rw [this]
      rw [heapPush_length] at hgt
      have : acc.length = k := by omega
      rw [this]; rfl
    · next hle =>
      rw [hrev]
      rw [heapPush_length] at hle
      symm; apply List.take_of_length_le
      rw [← hrev, List.length_reverse, heapPush_length]; omega
  rw [key, hacc]
  show top le k ([v] ++ top le k L) = _
  rw [← top_append_right h k [v] L]
  exact top_perm_eq h k List.perm_append_comm

theorem topFold_reverse (k : Nat) (xs : List α) {acc : List α} {L : List α}
    (hacc : acc.reverse = top le k L) :
    ((topKBy le k).foldAdd acc xs).reverse = top le k (L ++ xs) := by
  induction xs generalizing acc L with
  | nil => simpa using hacc
  | cons x xs ih =>
    simp only [Combiner.foldAdd_cons]
    change ((topKBy le k).foldAdd (topAdd le k acc x) xs).reverse = _
    have := ih (topAdd_reverse h k x hacc)
    simpa using this

omit h in
theorem top_nil (k : Nat) : top le k ([] : List α) = [] := by simp [top, desc]

theorem topFold_create_reverse (k : Nat) (xs : List α) :
    ((topKBy le k).foldAdd (topKBy le k).create xs).reverse = top le k xs := by
  have := topFold_reverse h k xs (acc := []) (L := []) (by simp [top_nil])
  simpa [topKBy] using this

omit h in
/-- the two-pointer loop is `merge` (by `≥`, ties to the left) truncated to `k` -/
theorem twoPointer_eq (n : Nat) (X Y : List α) :
    twoPointer le n X Y = (X.merge Y (geOf le)).take n := by
  induction n generalizing X Y with
  | zero => simp [twoPointer]
  | succ n ih =>
    cases X with
    | nil =>
      cases Y with
      | nil => simp [twoPointer]
      | cons y ys => simp [twoPointer, ih]
    | cons x xs =>
      cases Y with
      | nil => simp [twoPointer, ih]
      | cons y ys =>
        by_cases hyx : le y x = true
        · simp [twoPointer, geOf, hyx, ih]
        · simp [twoPointer, geOf, hyx, ih]

/-- `merge` keeps the invariant -/
theorem topMerge_reverse (k : Nat) {a b A B : List α}
    (ha : a.reverse = top le k A) (hb : b.reverse = top le k B) :
    (topMerge le k a b).reverse = top le k (A ++ B) := by
  have hda : a.reverse.Pairwise (fun x y => geOf le x y = true) := ha ▸ top_sorted h k A
  have hdb : b.reverse.Pairwise (fun x y => geOf le x y = true) := hb ▸ top_sorted h k B
  have haa := asc_of_reverse_desc hda
  have hab := asc_of_reverse_desc hdb
  rw [top_append_both h]
  unfold topMerge
  split
  · next hfast =>
    rw [(extend_reverse h b haa).1, desc_perm_eq h ((List.reverse_perm b).symm.append_left a.reverse),
      ha, hb]
    unfold top
    symm; apply List.take_of_length_le
    have : (desc le (top le k A ++ top le k B)).length = a.length + b.length := by
      rw [(desc_perm _).length_eq, List.length_append, ← ha, ← hb]; simp
    unfold top at this
    omega
  · simp only
    rw [List.mergeSort_of_pairwise hab, twoPointer_eq]
    have hsorted : ((a.reverse.merge b.reverse (geOf le)).take k).Pairwise
        (fun x y => geOf le x y = true) :=
      (List.pairwise_merge (geOf_total h).trans (geOf_total h).total _ _ hda hdb).take
    have e := (extend_reverse h ((a.reverse.merge b.reverse (geOf le)).take k)
      (a := []) List.Pairwise.nil).1
    rw [e]
    simp only [List.reverse_nil, List.nil_append]
    rw [desc_of_sorted hsorted, ha, hb]
    show _ = (desc le (top le k A ++ top le k B)).take k
    rw [desc_append h, desc_of_sorted (top_sorted h k A), desc_of_sorted (top_sorted h k B)]

omit h in
theorem topBuild_eq_fold (k : Nat) (xs : List α) :
    (topKBy le k).build xs = (topKBy le k).foldAdd (topKBy le k).create xs := rfl

theorem topKBy_mergeable' (k : Nat) : Mergeable (topKBy le k) Eq := by
  refine Mergeable.ofEq _ ?_ (topBuild_eq_fold k) ?_
  · intro xs ys
    apply List.reverse_inj.mp
    rw [topFold_create_reverse h]
    exact topMerge_reverse h k (topFold_create_reverse h k xs) (topFold_create_reverse h k ys)
  · intro xs ys
    apply List.reverse_inj.mp
    have e1 : ((topKBy le k).merge _ _).reverse = _ :=
      topMerge_reverse h k (topFold_create_reverse h k xs) (topFold_create_reverse h k ys)
    have e2 : ((topKBy le k).merge _ _).reverse = _ :=
      topMerge_reverse h k (topFold_create_reverse h k ys) (topFold_create_reverse h k xs)
    rw [e1, e2]
    exact top_perm_eq h k List.perm_append_comm

end

end IB.Combiners
