import IbModel.Proofs.PlannerSem
/-! Semantics of the GBK→Combine lifting pass, for every chain over every partition type. -/
namespace IB
variable {P : Type}

/-- every GBK immediately followed by a lifted combine satisfies: running the lifted local on the grouped
    rows gives (after the merge) what the classic local gives on the raw rows -/
def LiftPairsOK : List (Node P) → Prop
  | .gbk gl gm :: .combineValues lp (some lg) m :: rest =>
      (∀ b, m [lg (gm [gl b])] = m [lp b]) ∧ LiftPairsOK rest
  | _ :: rest => LiftPairsOK rest
  | [] => True

theorem seqFold_liftGbk (c : List (Node P)) : LiftPairsOK c → ∀ cur, seqFold cur (liftGbk c) = seqFold cur c := by
  fun_induction liftGbk c with
  | case1 gl gm lp lg m rest ih =>
    intro h cur
    obtain ⟨hp, hr⟩ := h
    rw [seqFold_cons, seqFold_cons]
    cases cur with
    | none => rfl
    | some b =>
      show (pure (m [lp b]) >>= fun x => seqFold (some x) (liftGbk rest)) =
        ((pure (gm [gl b]) : M P) >>= fun x => seqFold (some x) (.combineValues lp (some lg) m :: rest))
      simp only [pure_bind]
      rw [seqFold_cons]
      show seqFold (some (m [lp b])) (liftGbk rest) =
        ((pure (m [lg (gm [gl b])]) : M P) >>= fun y => seqFold (some y) rest)
      simp only [pure_bind]
      rw [hp b, ih hr]
  | case2 n rest hne ih =>
    intro h cur
    have hr : LiftPairsOK rest := by
      cases n with
      | gbk gl gm =>
        cases rest with
        | nil => trivial
        | cons n2 rest2 =>
          cases n2 with
          | combineValues lp lg m =>
            cases lg with
            | none => exact h
            | some lg => exact absurd rfl (fun h0 => hne gl gm lp lg m rest2 h0 rfl)
          | source _ _ _ => exact h
          | stateless _ => exact h
          | gbk _ _ => exact h
          | combineGlobal _ _ _ _ => exact h
          | coGroup _ _ _ _ _ => exact h
          | materialized _ => exact h
      | source _ _ _ => exact h
      | stateless _ => exact h
      | combineValues _ _ _ => exact h
      | combineGlobal _ _ _ _ => exact h
      | coGroup _ _ _ _ _ => exact h
      | materialized _ => exact h
    rw [seqFold_cons, seqFold_cons]
    congr 1
    funext x
    exact ih hr (some x)
  | case3 => intro _ cur; rfl

/-- the lift pass preserves the sequential result of every chain whose GBK→lifted-combine pairs are
    semantically liftable -/
theorem liftGbk_sem (c : List (Node P)) (h : LiftPairsOK c) : execSeq (liftGbk c) = execSeq c := by
  rw [execSeq_eq_seqFold, execSeq_eq_seqFold, seqFold_liftGbk c h]

end IB
