import IbModel.Proofs.LiftSem
import IbModel.Proofs.PlanOK
/-!
# Semantics of the whole optimiser, pass by pass, for every chain over every partition type

* where the nodes of `fuse c`, `reorder c`, `liftGbk c` come from (so node-wise predicates transfer);
* `dropMid` semantics: dropping a non-terminal `Materialized p` is sound exactly when `p` restates the
  value flowing at that point (`MidMatOK`, stated with `seqFold`);
* the composition `optimise_sem_of`.
-/
namespace IB
variable {P : Type}

/-! ## provenance of the nodes of each pass's output -/

theorem fuse_mem_cases (c : List (Node P)) :
    ∀ n ∈ fuse c, n ∈ c ∨ ∃ ops, n = .stateless ops := by
  fun_induction fuse c with
  | case1 => intro n hn; cases hn
  | case2 a rest b r hfr ih =>
    rw [hfr] at ih
    intro n hn
    rcases List.mem_cons.mp hn with rfl | hn
    · exact Or.inr ⟨_, rfl⟩
    · rcases ih n (List.mem_cons_of_mem _ hn) with h | h
      · exact Or.inl (List.mem_cons_of_mem _ h)
      · exact Or.inr h
  | case3 a rest hfr ih =>
    intro n hn
    rcases List.mem_cons.mp hn with rfl | hn
    · exact Or.inr ⟨_, rfl⟩
    · rcases ih n hn with h | h
      · exact Or.inl (List.mem_cons_of_mem _ h)
      · exact Or.inr h
  | case4 nd rest hnd ih =>
    intro n hn
    rcases List.mem_cons.mp hn with rfl | hn
    · exact Or.inl (by simp)
    · rcases ih n hn with h | h
      · exact Or.inl (List.mem_cons_of_mem _ h)
      · exact Or.inr h

theorem reorder_mem_cases (c : List (Node P)) :
    ∀ n ∈ reorder c, n ∈ c ∨ ∃ ops, n = .stateless ops := by
  induction c with
  | nil => intro n hn; cases hn
  | cons nd rest ih =>
    intro n hn
    have key : ∀ m : Node P, reorder (nd :: rest) = m :: reorder rest → (m = nd ∨ ∃ ops, m = .stateless ops) →
        n ∈ nd :: rest ∨ ∃ ops, n = .stateless ops := by
      intro m hm hcase
      rw [hm] at hn
      rcases List.mem_cons.mp hn with rfl | hn
      · rcases hcase with rfl | h
        · exact Or.inl (by simp)
        · exact Or.inr h
      · rcases ih n hn with h | h
        · exact Or.inl (List.mem_cons_of_mem _ h)
        · exact Or.inr h
    cases nd with
    | stateless a => exact key _ rfl (Or.inr ⟨_, rfl⟩)
    | source w l s => exact key _ rfl (Or.inl rfl)
    | gbk l m => exact key _ rfl (Or.inl rfl)
    | combineValues lp lg m => exact key _ rfl (Or.inl rfl)
    | combineGlobal l m f fo => exact key _ rfl (Or.inl rfl)
    | coGroup l r cl cr e => exact key _ rfl (Or.inl rfl)
    | materialized p => exact key _ rfl (Or.inl rfl)

theorem liftGbk_mem_cases (c : List (Node P)) :
    ∀ n ∈ liftGbk c, n ∈ c ∨ ∃ lp m, n = .combineValues lp none m := by
  fun_induction liftGbk c with
  | case1 l m lp lg mm rest ih =>
    intro n hn
    rcases List.mem_cons.mp hn with rfl | hn
    · exact Or.inr ⟨_, _, rfl⟩
    · rcases ih n hn with h | h
      · exact Or.inl (by simp [h])
      · exact Or.inr h
  | case2 nd rest hne ih =>
    intro n hn
    rcases List.mem_cons.mp hn with rfl | hn
    · exact Or.inl (by simp)
    · rcases ih n hn with h | h
      · exact Or.inl (List.mem_cons_of_mem _ h)
      · exact Or.inr h
  | case3 => intro n hn; cases hn

/-- no pass before `dropMid` creates a `Materialized` marker -/
theorem noMat_before_dropMid (c : List (Node P)) (h : ∀ n ∈ c, Node.isMat n = false) :
    ∀ n ∈ liftGbk (reorder (fuse c)), Node.isMat n = false := by
  intro n hn
  rcases liftGbk_mem_cases _ n hn with h1 | ⟨_, _, rfl⟩
  · rcases reorder_mem_cases _ n h1 with h2 | ⟨_, rfl⟩
    · rcases fuse_mem_cases _ n h2 with h3 | ⟨_, rfl⟩
      · exact h n h3
      · rfl
    · rfl
  · rfl

/-! ## dropMid -/

/-- every NON-TERMINAL `Materialized p` of the chain restates the value the sequential fold (started
    from `cur`) has reached just before it: for each split `c = pre ++ materialized p :: post` with
    `post ≠ []`, the fold over `pre` succeeds with value `p` -/
def MidMatOKFrom (cur : Option P) (c : List (Node P)) : Prop :=
  ∀ (pre : List (Node P)) (p : P) (post : List (Node P)),
    c = pre ++ .materialized p :: post → post ≠ [] → seqFold cur pre = .ok (some p)

/-- … for a whole chain (`exec_seq` starts with an empty buffer) -/
def MidMatOK (c : List (Node P)) : Prop := MidMatOKFrom none c

theorem midMatOK_of_noMat (cur : Option P) (c : List (Node P)) (h : ∀ n ∈ c, Node.isMat n = false) :
    MidMatOKFrom cur c := by
  intro pre p post hc _
  have := h (.materialized p) (by rw [hc]; simp)
  simp [Node.isMat] at this

theorem seqFold_dropMid (c : List (Node P)) :
    ∀ cur, MidMatOKFrom cur c → seqFold cur (dropMid c) = seqFold cur c := by
  fun_induction dropMid c with
  | case1 => intro cur _; rfl
  | case2 n => intro cur _; rfl
  | case3 p n rest ih =>
    intro cur h
    have hcur : cur = some p := by
      have := h [] p (n :: rest) rfl (by simp)
      simpa [seqFold_nil, pure, Except.pure] using this
    subst hcur
    have hstep : seqFold (some p) (.materialized p :: n :: rest) = seqFold (some p) (n :: rest) := by
      rw [seqFold_cons]; rfl
    rw [hstep]
    apply ih
    intro pre q post hc hpost
    have := h (.materialized p :: pre) q post (by rw [hc]; rfl) hpost
    rw [seqFold_cons] at this
    exact this
  | case4 m n rest hm ih =>
    intro cur h
    rw [seqFold_cons, seqFold_cons]
    cases hs : stepSeq cur m with
    | error e => rfl
    | ok b =>
      show seqFold (some b) (dropMid (n :: rest)) = seqFold (some b) (n :: rest)
      apply ih
      intro pre q post hc hpost
      have := h (m :: pre) q post (by rw [hc]; rfl) hpost
      rw [seqFold_cons, hs] at this
      exact this

/-- dropping mid-chain markers preserves the sequential result of EVERY chain whose non-terminal
    markers restate the flowing value -/
theorem dropMid_sem_of_midMatOK (c : List (Node P)) (h : MidMatOK c) : execSeq (dropMid c) = execSeq c := by
  rw [execSeq_eq_seqFold, execSeq_eq_seqFold, seqFold_dropMid c none h]

/-! ## composition -/

/-- the whole optimiser, any chain, any partition type: if (1) each block the reorder pass permutes
    computes the same function, (2) each GBK→lifted-combine window is semantically liftable and (3) each
    non-terminal marker that reaches the last pass restates the flowing value, the planned chain computes
    what the literal chain computes -/
theorem optimise_sem_of (c : List (Node P)) (hcomm : CommutingChain (fuse c))
    (hlift : LiftPairsOK (reorder (fuse c))) (hmat : MidMatOK (liftGbk (reorder (fuse c)))) :
    execSeq (optimise c) = execSeq c := by
  unfold optimise
  rw [dropMid_sem_of_midMatOK _ hmat, liftGbk_sem _ hlift, reorder_sem_of_commuting _ hcomm, fuse_sem']

/-- … in particular for chains without markers -/
theorem optimise_sem_of_noMat (c : List (Node P)) (hcomm : CommutingChain (fuse c))
    (hlift : LiftPairsOK (reorder (fuse c))) (hmat : ∀ n ∈ c, Node.isMat n = false) :
    execSeq (optimise c) = execSeq c :=
  optimise_sem_of c hcomm hlift (midMatOK_of_noMat _ _ (noMat_before_dropMid c hmat))

end IB
