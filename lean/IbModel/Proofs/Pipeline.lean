import IbModel.Model.Pipeline
/-!
# Helper lemmas for C08: the back-walk is insensitive to graph growth; abstract step relation and invariant
-/
namespace IB.Graph
variable {N : Type}

/-! ## lookup / filter / find? facts -/

theorem lookupNode_append_ne (ns : List (Nat × N)) (m : Nat) (n : N) (cur : Nat) (h : cur ≠ m) :
    lookupNode (ns ++ [(m, n)]) cur = lookupNode ns cur := by
  unfold lookupNode
  rw [List.find?_append]
  cases h' : ns.find? (fun p => p.1 == cur) with
  | some p => simp
  | none =>
    have : (m == cur) = false := by simp; omega
    simp [this]

theorem filter_append_ne (ns : List (Nat × N)) (m : Nat) (n : N) (cur : Nat) (h : cur ≠ m) :
    (ns ++ [(m, n)]).filter (fun p => p.1 != cur) = ns.filter (fun p => p.1 != cur) ++ [(m, n)] := by
  rw [List.filter_append]
  have : (m != cur) = true := by simp; omega
  simp [this]

theorem find_edge_append_ne (es : List (Nat × Nat)) (f t cur : Nat) (h : cur ≠ t) :
    (es ++ [(f, t)]).find? (fun e => e.2 == cur) = es.find? (fun e => e.2 == cur) := by
  rw [List.find?_append]
  cases h' : es.find? (fun e => e.2 == cur) with
  | some p => simp
  | none =>
    have : (t == cur) = false := by simp; omega
    simp [this]

/-- inserting a node whose id is not mentioned as a `from` by any edge does not change any walk that
    does not start at it -/
theorem backwalkGo_insert (es : List (Nat × Nat)) (m : Nat) (n : N) (hes : ∀ e ∈ es, e.1 ≠ m) :
    ∀ (fuel : Nat) (ns : List (Nat × N)) (cur : Nat) (acc : List N), cur ≠ m →
      backwalkGo fuel (ns ++ [(m, n)]) es cur acc = backwalkGo fuel ns es cur acc := by
  intro fuel
  induction fuel with
  | zero => intros; rfl
  | succ k ih =>
    intro ns cur acc hc
    simp only [backwalkGo, lookupNode_append_ne ns m n cur hc, filter_append_ne ns m n cur hc]
    cases lookupNode ns cur with
    | none => rfl
    | some nd =>
      cases he : es.find? (fun e => e.2 == cur) with
      | none => rfl
      | some e =>
        have hm : e ∈ es := List.mem_of_find?_eq_some he
        exact ih _ _ _ (hes e hm)

/-- appending an edge into `t` does not change a walk that never stands on `t` -/
theorem backwalkGo_connect (es : List (Nat × Nat)) (f t : Nat) (hes : ∀ e ∈ es, e.1 ≠ t) :
    ∀ (fuel : Nat) (ns : List (Nat × N)) (cur : Nat) (acc : List N), cur ≠ t →
      backwalkGo fuel ns (es ++ [(f, t)]) cur acc = backwalkGo fuel ns es cur acc := by
  intro fuel
  induction fuel with
  | zero => intros; rfl
  | succ k ih =>
    intro ns cur acc hc
    simp only [backwalkGo, find_edge_append_ne es f t cur hc]
    cases lookupNode ns cur with
    | none => rfl
    | some nd =>
      cases he : es.find? (fun e => e.2 == cur) with
      | none => rfl
      | some e =>
        have hm : e ∈ es := List.mem_of_find?_eq_some he
        exact ih _ _ _ (hes e hm)

theorem lookupNode_isSome_mem {ns : List (Nat × N)} {cur : Nat} {n : N} (h : lookupNode ns cur = some n) :
    (cur, n) ∈ ns := by
  unfold lookupNode at h
  cases h' : ns.find? (fun p => p.1 == cur) with
  | none => simp [h'] at h
  | some p =>
    simp [h'] at h
    have h1 := List.mem_of_find?_eq_some h'
    have h2 := List.find?_some h'
    simp at h2
    cases p; simp_all

theorem filter_length_lt {ns : List (Nat × N)} {cur : Nat} {n : N} (h : (cur, n) ∈ ns) :
    (ns.filter (fun p => p.1 != cur)).length < ns.length := by
  induction ns with
  | nil => simp at h
  | cons a t ih =>
    have hle := List.length_filter_le (fun p : Nat × N => p.1 != cur) t
    by_cases ha : a.1 = cur
    · have hne : (a.1 != cur) = false := by simp [ha]
      rw [List.filter_cons_of_neg (p := fun p : Nat × N => p.1 != cur) (by simp [ha])]
      simp only [List.length_cons]; omega
    · have hm : (cur, n) ∈ t := by
        rcases List.mem_cons.mp h with rfl | h'
        · simp at ha
        · exact h'
      have := ih hm
      have hne : (a.1 != cur) = true := by simp [ha]
      rw [List.filter_cons_of_pos (p := fun p : Nat × N => p.1 != cur) hne]
      simp only [List.length_cons]; omega

/-- the walk removes a node per iteration, so any two fuels above `nodes.length` give the same answer -/
theorem backwalkGo_fuel2 (es : List (Nat × Nat)) :
    ∀ (f1 f2 : Nat) (ns : List (Nat × N)) (cur : Nat) (acc : List N), ns.length < f1 → ns.length < f2 →
      backwalkGo f1 ns es cur acc = backwalkGo f2 ns es cur acc := by
  intro f1
  induction f1 with
  | zero => intro _ ns _ _ h; omega
  | succ k ih =>
    intro f2 ns cur acc h1 h2
    cases f2 with
    | zero => omega
    | succ j =>
      simp only [backwalkGo]
      cases hl : lookupNode ns cur with
      | none => rfl
      | some nd =>
        cases he : es.find? (fun e => e.2 == cur) with
        | none => rfl
        | some e =>
          have hlen := filter_length_lt (lookupNode_isSome_mem hl)
          exact ih j _ _ _ (by omega) (by omega)

/-! ## abstract steps: the five shapes a lock-granular step can have -/

/-- One atomic step seen through `Cfg.abs`. `begin`/`tau` do not touch the graph; `insert` allocates the next
    id and reserves it for the stepping thread; `insertPub` (from_vec) allocates and publishes at once;
    `connectPub` adds the edge `f → t` into an id reserved by the stepping thread and publishes `t`. -/
inductive AStep : ACfg N → ACfg N → Prop
  | stutter (a : ACfg N) : AStep a a
  | begin (a : ACfg N) (i : Nat) (v v' : View) : a.views[i]? = some v → v.resv = [] → v'.resv = [] →
      (∀ h ∈ v'.held, h ∈ a.pool) → AStep a { a with views := a.views.set i v' }
  | tau (a : ACfg N) (i : Nat) (v v' : View) : a.views[i]? = some v → v'.resv = v.resv →
      (∀ h ∈ v'.held, h ∈ v.held) → AStep a { a with views := a.views.set i v' }
  | insert (a : ACfg N) (i : Nat) (v v' : View) (n : N) : a.views[i]? = some v →
      v'.resv = v.resv ++ [a.g.nextId] → (∀ h ∈ v'.held, h ∈ v.held) →
      AStep a { g := (insertNode a.g n).1, pool := a.pool, views := a.views.set i v' }
  | insertPub (a : ACfg N) (i : Nat) (v v' : View) (n : N) : a.views[i]? = some v → v.resv = [] →
      v'.resv = [] → (∀ h ∈ v'.held, h ∈ v.held ∨ h = a.g.nextId) →
      AStep a { g := (insertNode a.g n).1, pool := a.pool ++ [a.g.nextId], views := a.views.set i v' }
  | connectPub (a : ACfg N) (i : Nat) (v v' : View) (f t : Nat) : a.views[i]? = some v → t ∈ v.resv →
      (f ∈ v.held ∨ f ∈ v.resv) → f < t → v'.resv = [] → (∀ h ∈ v'.held, h ∈ v.held ∨ h = t) →
      AStep a { g := connect a.g f t, pool := a.pool ++ [t], views := a.views.set i v' }

/-- The invariant of the shared graph (and of what threads hold), true in every reachable configuration. -/
structure AInv (a : ACfg N) : Prop where
  /-- node ids are exactly `0 … nextId-1`, each once (in insertion order) -/
  ids : a.g.nodes.map Prod.fst = List.range a.g.nextId
  /-- every edge goes from an older node to a younger, existing one -/
  edgeLt : ∀ e ∈ a.g.edges, e.1 < e.2 ∧ e.2 < a.g.nextId
  /-- every node has at most one incoming edge -/
  inDeg : (a.g.edges.map Prod.snd).Nodup
  poolLt : ∀ h ∈ a.pool, h < a.g.nextId
  poolNodup : a.pool.Nodup
  /-- a thread only works with handles that have been published -/
  held : ∀ (i : Nat) (v : View), a.views[i]? = some v → ∀ h ∈ v.held, h ∈ a.pool
  /-- an id between its `insert` and its builder's return: exists, is unknown to everybody else, and no
      edge touches it yet -/
  resv : ∀ (i : Nat) (v : View), a.views[i]? = some v → ∀ r ∈ v.resv,
    r < a.g.nextId ∧ r ∉ a.pool ∧ ∀ e ∈ a.g.edges, e.1 ≠ r ∧ e.2 ≠ r
  disj : ∀ (i j : Nat) (vi vj : View), i ≠ j → a.views[i]? = some vi → a.views[j]? = some vj → ∀ r ∈ vi.resv, r ∉ vj.resv
  ord : ∀ (i : Nat) (v : View), a.views[i]? = some v → (∀ r ∈ v.resv, ∀ h ∈ v.held, h < r) ∧ v.resv.Pairwise (· < ·)

theorem getElem?_set_cases {α : Type} {l : List α} {i j : Nat} {x w : α} (h : (l.set i x)[j]? = some w) :
    (j = i ∧ w = x) ∨ (j ≠ i ∧ l[j]? = some w) := by
  rw [List.getElem?_set] at h
  by_cases hij : i = j
  · subst hij
    simp only [if_true] at h
    split at h
    · left; simp_all
    · simp at h
  · right
    simp only [hij, if_false] at h
    exact ⟨fun h' => hij h'.symm, h⟩

theorem put_fresh (nodes : List (Nat × N)) (k : Nat) (n : N) (h : nodes.map Prod.fst = List.range k) :
    put nodes k n = nodes ++ [(k, n)] := by
  unfold put
  congr 1
  apply List.filter_eq_self.mpr
  intro p hp
  have : p.1 ∈ nodes.map Prod.fst := List.mem_map_of_mem hp
  rw [h] at this
  have := List.mem_range.mp this
  simp; omega

theorem AInv.init_views (vs : List View) (h : ∀ v ∈ vs, v.held = [] ∧ v.resv = []) :
    AInv (⟨PState.init, [], vs⟩ : ACfg N) := by
  have hv : ∀ (i : Nat) (v : View), vs[i]? = some v → v.held = [] ∧ v.resv = [] := fun i v hi => h v (List.mem_of_getElem? hi)
  refine ⟨by simp [PState.init], by simp [PState.init], by simp [PState.init], by simp, by simp, ?_, ?_, ?_, ?_⟩
  · intro i v hi x hx; rw [(hv i v hi).1] at hx; simp at hx
  · intro i v hi x hx; rw [(hv i v hi).2] at hx; simp at hx
  · intro i j vi vj _ hi _ r hr; rw [(hv i vi hi).2] at hr; simp at hr
  · intro i v hi; rw [(hv i v hi).2]; simp

/-- a step that leaves graph and pool alone and does not enlarge the stepping thread's reservations -/
theorem AInv.set_local {a : ACfg N} (inv : AInv a) {i : Nat} {v v' : View} (hv : a.views[i]? = some v)
    (hr : ∀ r ∈ v'.resv, r ∈ v.resv) (hp : v'.resv.Pairwise (· < ·))
    (hh : ∀ h ∈ v'.held, h ∈ a.pool) (ho : ∀ r ∈ v'.resv, ∀ h ∈ v'.held, h < r) :
    AInv { a with views := a.views.set i v' } := by
  refine ⟨inv.ids, inv.edgeLt, inv.inDeg, inv.poolLt, inv.poolNodup, ?_, ?_, ?_, ?_⟩
  · intro j w hj
    rcases getElem?_set_cases hj with ⟨_, rfl⟩ | ⟨_, hj'⟩
    · exact hh
    · exact inv.held j w hj'
  · intro j w hj r hrw
    rcases getElem?_set_cases hj with ⟨_, rfl⟩ | ⟨_, hj'⟩
    · exact inv.resv i v hv r (hr r hrw)
    · exact inv.resv j w hj' r hrw
  · intro j k vj vk hjk hj hk r hrj
    rcases getElem?_set_cases hj with ⟨rfl, rfl⟩ | ⟨hji, hj'⟩ <;>
      rcases getElem?_set_cases hk with ⟨rfl, rfl⟩ | ⟨hki, hk'⟩
    · exact absurd rfl hjk
    · exact inv.disj _ _ v vk hjk hv hk' r (hr r hrj)
    · intro hrk
      exact inv.disj _ _ v vj (Ne.symm hjk) hv hj' r (hr r hrk) hrj
    · exact inv.disj j k vj vk hjk hj' hk' r hrj
  · intro j w hj
    rcases getElem?_set_cases hj with ⟨_, rfl⟩ | ⟨_, hj'⟩
    · exact ⟨ho, hp⟩
    · exact inv.ord j w hj'

theorem AInv.begin {a : ACfg N} (inv : AInv a) {i : Nat} {v v' : View} (hv : a.views[i]? = some v)
    (hr' : v'.resv = []) (hh : ∀ h ∈ v'.held, h ∈ a.pool) :
    AInv { a with views := a.views.set i v' } :=
  inv.set_local hv (by simp [hr']) (by simp [hr']) hh (by simp [hr'])

theorem AInv.tau {a : ACfg N} (inv : AInv a) {i : Nat} {v v' : View} (hv : a.views[i]? = some v)
    (hr' : v'.resv = v.resv) (hh : ∀ h ∈ v'.held, h ∈ v.held) :
    AInv { a with views := a.views.set i v' } :=
  inv.set_local hv (by simp [hr']) (by rw [hr']; exact (inv.ord i v hv).2)
    (fun h hm => inv.held i v hv h (hh h hm))
    (by rw [hr']; exact fun r hr h hm => (inv.ord i v hv).1 r hr h (hh h hm))

theorem insertNode_fst (s : PState N) (n : N) (h : s.nodes.map Prod.fst = List.range s.nextId) :
    (insertNode s n).1 = { nextId := s.nextId + 1, nodes := s.nodes ++ [(s.nextId, n)], edges := s.edges } := by
  simp [insertNode, put_fresh s.nodes s.nextId n h]

theorem AInv.insert {a : ACfg N} (inv : AInv a) {i : Nat} {v v' : View} (n : N) (hv : a.views[i]? = some v)
    (hr' : v'.resv = v.resv ++ [a.g.nextId]) (hh : ∀ h ∈ v'.held, h ∈ v.held) :
    AInv { g := (insertNode a.g n).1, pool := a.pool, views := a.views.set i v' } := by
  rw [insertNode_fst _ _ inv.ids]
  have hold := inv.resv i v hv
  refine ⟨?_, ?_, inv.inDeg, ?_, inv.poolNodup, ?_, ?_, ?_, ?_⟩
  · simp [inv.ids, List.range_succ]
  · intro e he; have := inv.edgeLt e he; simp; omega
  · intro h hm; have := inv.poolLt h hm; simp; omega
  · intro j w hj
    rcases getElem?_set_cases hj with ⟨_, rfl⟩ | ⟨_, hj'⟩
    · exact fun h hm => inv.held i v hv h (hh h hm)
    · exact inv.held j w hj'
  · intro j w hj r hrw
    rcases getElem?_set_cases hj with ⟨_, rfl⟩ | ⟨_, hj'⟩
    · rw [hr'] at hrw
      rcases List.mem_append.mp hrw with h1 | h1
      · have := hold r h1; exact ⟨by simp; omega, this.2.1, this.2.2⟩
      · simp at h1; subst h1
        refine ⟨by simp, fun hm => ?_, fun e he => ?_⟩
        · have := inv.poolLt _ hm; omega
        · have := inv.edgeLt e he; simp at he ⊢; omega
    · have := inv.resv j w hj' r hrw; exact ⟨by simp; omega, this.2.1, this.2.2⟩
  · intro j k vj vk hjk hj hk r hrj
    rcases getElem?_set_cases hj with ⟨rfl, rfl⟩ | ⟨hji, hj'⟩ <;>
      rcases getElem?_set_cases hk with ⟨rfl, rfl⟩ | ⟨hki, hk'⟩
    · exact absurd rfl hjk
    · rw [hr'] at hrj
      rcases List.mem_append.mp hrj with h1 | h1
      · exact inv.disj _ _ v vk hjk hv hk' r h1
      · simp at h1; subst h1
        intro hm; have := (inv.resv k vk hk' _ hm).1; omega
    · intro hrk
      rw [hr'] at hrk
      rcases List.mem_append.mp hrk with h1 | h1
      · exact inv.disj _ _ v vj (Ne.symm hjk) hv hj' r h1 hrj
      · simp at h1; subst h1
        have := (inv.resv j vj hj' _ hrj).1; omega
    · exact inv.disj j k vj vk hjk hj' hk' r hrj
  · intro j w hj
    rcases getElem?_set_cases hj with ⟨_, rfl⟩ | ⟨_, hj'⟩
    · have ho := inv.ord i v hv
      constructor
      · intro r hrw h hm
        rw [hr'] at hrw
        rcases List.mem_append.mp hrw with h1 | h1
        · exact ho.1 r h1 h (hh h hm)
        · simp at h1; subst h1
          exact inv.poolLt h (inv.held i v hv h (hh h hm))
      · rw [hr', List.pairwise_append]
        refine ⟨ho.2, by simp, ?_⟩
        intro x hx y hy
        simp at hy; subst hy
        exact (hold x hx).1
    · exact inv.ord j w hj'

theorem AInv.insertPub {a : ACfg N} (inv : AInv a) {i : Nat} {v v' : View} (n : N) (hv : a.views[i]? = some v)
    (hr' : v'.resv = []) (hh : ∀ h ∈ v'.held, h ∈ v.held ∨ h = a.g.nextId) :
    AInv { g := (insertNode a.g n).1, pool := a.pool ++ [a.g.nextId], views := a.views.set i v' } := by
  rw [insertNode_fst _ _ inv.ids]
  refine ⟨?_, ?_, inv.inDeg, ?_, ?_, ?_, ?_, ?_, ?_⟩
  · simp [inv.ids, List.range_succ]
  · intro e he; have := inv.edgeLt e he; simp; omega
  · intro h hm
    rcases List.mem_append.mp hm with h1 | h1
    · have := inv.poolLt h h1; simp; omega
    · simp at h1; subst h1; simp
  · rw [List.nodup_append]
    refine ⟨inv.poolNodup, by simp, ?_⟩
    intro x hx y hy
    simp at hy; subst hy
    have := inv.poolLt x hx; omega
  · intro j w hj h hm
    rcases getElem?_set_cases hj with ⟨_, rfl⟩ | ⟨_, hj'⟩
    · rcases hh h hm with h1 | h1
      · exact List.mem_append_left _ (inv.held i v hv h h1)
      · subst h1; simp
    · exact List.mem_append_left _ (inv.held j w hj' h hm)
  · intro j w hj r hrw
    rcases getElem?_set_cases hj with ⟨_, rfl⟩ | ⟨_, hj'⟩
    · rw [hr'] at hrw; simp at hrw
    · have := inv.resv j w hj' r hrw
      refine ⟨by simp; omega, ?_, this.2.2⟩
      intro hm
      rcases List.mem_append.mp hm with h1 | h1
      · exact this.2.1 h1
      · simp at h1; omega
  · intro j k vj vk hjk hj hk r hrj
    rcases getElem?_set_cases hj with ⟨rfl, rfl⟩ | ⟨hji, hj'⟩ <;>
      rcases getElem?_set_cases hk with ⟨rfl, rfl⟩ | ⟨hki, hk'⟩
    · exact absurd rfl hjk
    · rw [hr'] at hrj; simp at hrj
    · rw [hr']; simp
    · exact inv.disj j k vj vk hjk hj' hk' r hrj
  · intro j w hj
    rcases getElem?_set_cases hj with ⟨_, rfl⟩ | ⟨_, hj'⟩
    · rw [hr']; simp
    · exact inv.ord j w hj'

theorem AInv.connectPub {a : ACfg N} (inv : AInv a) {i : Nat} {v v' : View} {f t : Nat}
    (hv : a.views[i]? = some v) (ht : t ∈ v.resv) (hf : f ∈ v.held ∨ f ∈ v.resv) (hft : f < t)
    (hr' : v'.resv = []) (hh : ∀ h ∈ v'.held, h ∈ v.held ∨ h = t) :
    AInv { g := connect a.g f t, pool := a.pool ++ [t], views := a.views.set i v' } := by
  have hT := inv.resv i v hv t ht
  refine ⟨inv.ids, ?_, ?_, ?_, ?_, ?_, ?_, ?_, ?_⟩
  · intro e he
    simp only [connect] at he ⊢
    rcases List.mem_append.mp he with h1 | h1
    · exact inv.edgeLt e h1
    · simp at h1; subst h1; exact ⟨hft, hT.1⟩
  · simp only [connect, List.map_append, List.map_cons, List.map_nil]
    rw [List.nodup_append]
    refine ⟨inv.inDeg, by simp, ?_⟩
    intro x hx y hy
    simp at hy; subst hy
    rcases List.mem_map.mp hx with ⟨e, he, rfl⟩
    exact (hT.2.2 e he).2
  · intro h hm
    simp only [connect]
    rcases List.mem_append.mp hm with h1 | h1
    · exact inv.poolLt h h1
    · simp at h1; subst h1; exact hT.1
  · rw [List.nodup_append]
    refine ⟨inv.poolNodup, by simp, ?_⟩
    intro x hx y hy
    simp at hy; subst hy
    intro hxy; subst hxy; exact hT.2.1 hx
  · intro j w hj h hm
    rcases getElem?_set_cases hj with ⟨_, rfl⟩ | ⟨_, hj'⟩
    · rcases hh h hm with h1 | h1
      · exact List.mem_append_left _ (inv.held i v hv h h1)
      · subst h1; simp
    · exact List.mem_append_left _ (inv.held j w hj' h hm)
  · intro j w hj r hrw
    rcases getElem?_set_cases hj with ⟨_, rfl⟩ | ⟨hji, hj'⟩
    · rw [hr'] at hrw; simp at hrw
    · have hR := inv.resv j w hj' r hrw
      have hrt : r ≠ t := fun h => inv.disj i j v w (Ne.symm hji) hv hj' t ht (h ▸ hrw)
      have hrf : r ≠ f := by
        rcases hf with h1 | h1
        · intro h; subst h; exact hR.2.1 (inv.held i v hv _ h1)
        · intro h; subst h; exact inv.disj i j v w (Ne.symm hji) hv hj' _ h1 hrw
      refine ⟨hR.1, ?_, ?_⟩
      · intro hm
        rcases List.mem_append.mp hm with h1 | h1
        · exact hR.2.1 h1
        · simp at h1; exact hrt h1
      · intro e he
        simp only [connect] at he
        rcases List.mem_append.mp he with h1 | h1
        · exact hR.2.2 e h1
        · simp at h1; subst h1; exact ⟨Ne.symm hrf, Ne.symm hrt⟩
  · intro j k vj vk hjk hj hk r hrj
    rcases getElem?_set_cases hj with ⟨rfl, rfl⟩ | ⟨hji, hj'⟩ <;>
      rcases getElem?_set_cases hk with ⟨rfl, rfl⟩ | ⟨hki, hk'⟩
    · exact absurd rfl hjk
    · rw [hr'] at hrj; simp at hrj
    · rw [hr']; simp
    · exact inv.disj j k vj vk hjk hj' hk' r hrj
  · intro j w hj
    rcases getElem?_set_cases hj with ⟨_, rfl⟩ | ⟨_, hj'⟩
    · rw [hr']; simp
    · exact inv.ord j w hj'

/-- the invariant is preserved by every abstract step -/
theorem AInv.step {a a' : ACfg N} (inv : AInv a) (st : AStep a a') : AInv a' := by
  cases st with
  | stutter => exact inv
  | begin i v v' hv _ hr' hh => exact inv.begin hv hr' hh
  | tau i v v' hv hr' hh => exact inv.tau hv hr' hh
  | insert i v v' n hv hr' hh => exact inv.insert n hv hr' hh
  | insertPub i v v' n hv _ hr' hh => exact inv.insertPub n hv hr' hh
  | connectPub i v v' f t hv ht hf hft hr' hh => exact inv.connectPub hv ht hf hft hr' hh

/-! ## lineage stability and totality of the back-walk -/

/-- **One step cannot change the lineage of a published handle**: the graph only grows by a fresh node
    (whose id no edge mentions) or by an edge into a reserved id (which no edge mentions and which is not
    published), and the walk from a published handle never stands on either. -/
theorem backwalk_stable_step {a a' : ACfg N} (inv : AInv a) (st : AStep a a') {x : Nat} (hx : x ∈ a.pool) :
    backwalk a'.g x = backwalk a.g x := by
  have hxlt := inv.poolLt x hx
  have hins : ∀ n : N, backwalk (insertNode a.g n).1 x = backwalk a.g x := by
    intro n
    rw [insertNode_fst _ _ inv.ids]
    unfold backwalk
    simp only [List.length_append, List.length_cons, List.length_nil]
    rw [backwalkGo_insert a.g.edges a.g.nextId n (fun e he => by have := inv.edgeLt e he; omega) _ _ _ _
      (by omega)]
    exact backwalkGo_fuel2 _ _ _ _ _ _ (by omega) (by omega)
  cases st with
  | stutter => rfl
  | begin => rfl
  | tau => rfl
  | insert i v v' n => exact hins n
  | insertPub i v v' n => exact hins n
  | connectPub i v v' f t hv ht hf hft hr' hh =>
    have hT := inv.resv i v hv t ht
    unfold backwalk
    simp only [connect]
    exact backwalkGo_connect a.g.edges f t (fun e he => (hT.2.2 e he).1) _ _ _ _
      (fun h => hT.2.1 (h ▸ hx))

theorem pool_mono_step {a a' : ACfg N} (st : AStep a a') {x : Nat} (hx : x ∈ a.pool) : x ∈ a'.pool := by
  cases st <;> first | exact hx | exact List.mem_append_left _ hx

theorem lookupNode_filter_ne (ns : List (Nat × N)) (cur i : Nat) (h : i ≠ cur) :
    lookupNode (ns.filter (fun p => p.1 != cur)) i = lookupNode ns i := by
  unfold lookupNode
  rw [List.find?_filter]
  have : (fun a : Nat × N => decide ((a.1 != cur) = true ∧ (a.1 == i) = true)) = (fun a => a.1 == i) := by
    funext a
    by_cases ha : a.1 = i
    · have : a.1 ≠ cur := by omega
      simp [ha, h]
    · simp [ha]
  rw [this]

theorem lookupNode_isSome_of_mem (ns : List (Nat × N)) (i : Nat) (h : i ∈ ns.map Prod.fst) :
    (lookupNode ns i).isSome := by
  unfold lookupNode
  rcases List.mem_map.mp h with ⟨p, hp, rfl⟩
  have : (ns.find? (fun q => q.1 == p.1)).isSome := by
    rw [List.find?_isSome]; exact ⟨p, hp, by simp⟩
  cases hf : ns.find? (fun q => q.1 == p.1) with
  | none => simp [hf] at this
  | some q => simp

/-- with edges going from older to younger nodes and all ids up to the start present, the walk succeeds -/
theorem backwalkGo_total (es : List (Nat × Nat)) (hes : ∀ e ∈ es, e.1 < e.2) :
    ∀ (fuel : Nat) (ns : List (Nat × N)) (cur : Nat) (acc : List N), cur < fuel →
      (∀ i, i ≤ cur → (lookupNode ns i).isSome) → (backwalkGo fuel ns es cur acc).isSome := by
  intro fuel
  induction fuel with
  | zero => intro _ _ _ h; omega
  | succ k ih =>
    intro ns cur acc hlt hall
    simp only [backwalkGo]
    have hc := hall cur (Nat.le_refl _)
    cases hl : lookupNode ns cur with
    | none => simp [hl] at hc
    | some nd =>
      cases he : es.find? (fun e => e.2 == cur) with
      | none => simp
      | some e =>
        have hm : e ∈ es := List.mem_of_find?_eq_some he
        have h2 := List.find?_some he
        simp at h2
        have := hes e hm
        apply ih
        · omega
        · intro i hi
          rw [lookupNode_filter_ne _ _ _ (by omega)]
          exact hall i (by omega)

/-- under the invariant, the back-walk from ANY existing node succeeds (no "missing node" error) -/
theorem backwalk_isSome {a : ACfg N} (inv : AInv a) {x : Nat} (hx : x < a.g.nextId) :
    (backwalk a.g x).isSome := by
  unfold backwalk
  have hlen : a.g.nodes.length = a.g.nextId := by
    have := congrArg List.length inv.ids
    simpa using this
  apply backwalkGo_total _ (fun e he => (inv.edgeLt e he).1)
  · omega
  · intro i hi
    apply lookupNode_isSome_of_mem
    rw [inv.ids]; exact List.mem_range.mpr (by omega)

/-! ## the executable step function refines the abstract steps -/

theorem pick_mem {l : List Nat} {k x : Nat} (h : pick l k = some x) : x ∈ l := by
  unfold pick at h
  split at h
  · simp at h
  · exact List.mem_of_getElem? h

theorem resolve_mem {pool own : List Nat} {r : Ref} {x : Nat} (h : resolve pool own r = some x) :
    x ∈ pool ∨ x ∈ own := by
  cases r with
  | front k => exact Or.inl (pick_mem h)
  | back k => exact Or.inl (List.mem_reverse.mp (pick_mem h))
  | mine k =>
    simp only [resolve] at h
    split at h
    · next y hy => simp at h; subst h; exact Or.inr (List.mem_reverse.mp (pick_mem hy))
    · exact Or.inl (List.mem_reverse.mp (pick_mem h))

theorem resolveCls_mem {pool : List Nat} {cls : List (Nat × Nat)} {own : List Nat} {k : Nat} {r : Ref} {x : Nat}
    (h : resolveCls pool cls own k r = some x) : x ∈ pool ∨ x ∈ own := by
  rcases resolve_mem h with h1 | h1
  · exact Or.inl (List.mem_filter.mp h1).1
  · exact Or.inr (List.mem_filter.mp h1).1

theorem stepTh_threads (kit : Kit N) (c : Cfg N) (th : Thread N) : (stepTh kit c th).1.threads = c.threads := by
  unfold stepTh
  split <;> try rfl
  · split <;> rfl
  · split <;> rfl
  · split <;> rfl
  · split <;> rfl

theorem abs_step (kit : Kit N) (c : Cfg N) (i : Nat) (th : Thread N) (h : c.threads[i]? = some th) :
    (step kit c i).abs =
      ⟨(stepTh kit c th).1.g, (stepTh kit c th).1.pool, c.abs.views.set i (stepTh kit c th).2.view⟩ := by
  simp only [step, h, Cfg.abs, stepTh_threads, List.map_set]

theorem abs_views_get (c : Cfg N) (i : Nat) (th : Thread N) (h : c.threads[i]? = some th) :
    c.abs.views[i]? = some th.view := by
  simp [Cfg.abs, List.getElem?_map, h]

/-- what the resolved handles of a beginning operation look like -/
theorem beginOp_view (c : Cfg N) (th : Thread N) (op : Op N) (rest : List (Op N)) :
    (beginOp c th op rest).view.resv = [] ∧
    ∀ h ∈ (beginOp c th op rest).view.held, h ∈ c.pool ∨ h ∈ th.own := by
  cases op with
  | source n => simp [beginOp, Thread.view, PC.resv, PC.held]; exact fun h hm => Or.inr hm
  | derive p sig n =>
    cases sig with
    | none =>
      simp only [beginOp]
      cases hr : resolve c.pool th.own p with
      | none => simp [Thread.finish, Thread.view, PC.resv, PC.held]; exact fun h hm => Or.inr hm
      | some x =>
        have := resolve_mem hr
        simp [Thread.view, PC.resv, PC.held]
        exact ⟨this, fun h hm => Or.inr hm⟩
    | some sg =>
      simp only [beginOp]
      cases hr : resolveCls c.pool c.cls th.own sg.1 p with
      | none => simp [Thread.finish, Thread.view, PC.resv, PC.held]; exact fun h hm => Or.inr hm
      | some x =>
        have := resolveCls_mem hr
        simp [Thread.view, PC.resv, PC.held]
        exact ⟨this, fun h hm => Or.inr hm⟩
  | join l r tag =>
    simp only [beginOp]
    cases hl : resolveCls c.pool c.cls th.own 0 l with
    | none => simp [Thread.finish, Thread.view, PC.resv, PC.held]; exact fun h hm => Or.inr hm
    | some x =>
      cases hr : resolveCls c.pool c.cls th.own 0 r with
      | none => simp [Thread.finish, Thread.view, PC.resv, PC.held]; exact fun h hm => Or.inr hm
      | some y =>
        have h1 := resolveCls_mem hl
        have h2 := resolveCls_mem hr
        simp [Thread.view, PC.resv, PC.held]
        exact ⟨h1, h2, fun h hm => Or.inr hm⟩
  | setMetrics => simp [beginOp, Thread.view, PC.resv, PC.held]; exact fun h hm => Or.inr hm
  | takeMetrics => simp [beginOp, Thread.view, PC.resv, PC.held]; exact fun h hm => Or.inr hm
  | getMetrics => simp [beginOp, Thread.view, PC.resv, PC.held]; exact fun h hm => Or.inr hm
  | collect x =>
    simp only [beginOp]
    cases hr : resolve c.pool th.own x with
    | none => simp [Thread.finish, Thread.view, PC.resv, PC.held]; exact fun h hm => Or.inr hm
    | some y =>
      have := resolve_mem hr
      simp [Thread.view, PC.resv, PC.held]
      exact ⟨this, fun h hm => Or.inr hm⟩

/-- **Refinement**: every atomic step of the executable model is one of the abstract steps. -/
theorem step_refines (kit : Kit N) (c : Cfg N) (i : Nat) (inv : AInv c.abs) :
    AStep c.abs (step kit c i).abs := by
  cases hth : c.threads[i]? with
  | none => simp only [step, hth]; exact AStep.stutter _
  | some th =>
    rw [abs_step kit c i th hth]
    have hv := abs_views_get c i th hth
    have hheld := inv.held i th.view hv
    have hord := inv.ord i th.view hv
    cases hpc : th.pc with
    | idle =>
      cases htd : th.todo with
      | nil =>
        simp only [stepTh, hpc, htd]
        exact AStep.tau c.abs i th.view th.view hv rfl (fun _ h => h)
      | cons op rest =>
        simp only [stepTh, hpc, htd]
        have hb := beginOp_view c th op rest
        refine AStep.begin c.abs i th.view _ hv (by simp [Thread.view, hpc, PC.resv]) hb.1 ?_
        intro h hm
        rcases hb.2 h hm with h1 | h1
        · exact h1
        · exact hheld h (by simp [Thread.view, h1])
    | srcIns n =>
      simp only [stepTh, hpc, publish]
      refine AStep.insertPub c.abs i th.view _ n hv (by simp [Thread.view, hpc, PC.resv])
        (by simp [Thread.view, Thread.finishBuilt, PC.resv]) ?_
      intro h hm
      simp [Thread.view, Thread.finishBuilt, PC.held, insertNode] at hm
      rcases hm with h1 | h1
      · left; simp [Thread.view, h1]
      · right; simp [h1, Cfg.abs]
    | drvIns p k n =>
      simp only [stepTh, hpc]
      refine AStep.insert c.abs i th.view _ n hv (by simp [Thread.view, hpc, PC.resv, insertNode, Cfg.abs]) ?_
      intro h hm
      simpa [Thread.view, PC.held, hpc] using hm
    | drvCon p m k n =>
      simp only [stepTh, hpc, publish]
      refine AStep.connectPub c.abs i th.view _ p m hv (by simp [Thread.view, hpc, PC.resv])
        (Or.inl (by simp [Thread.view, hpc, PC.held])) ?_ (by simp [Thread.view, Thread.finishBuilt, PC.resv]) ?_
      · exact hord.1 m (by simp [Thread.view, hpc, PC.resv]) p (by simp [Thread.view, hpc, PC.held])
      · intro h hm
        simp [Thread.view, Thread.finishBuilt, PC.held] at hm
        rcases hm with h1 | h1
        · left; simp [Thread.view, h1]
        · right; exact h1
    | joinSnapL l r tag =>
      simp only [stepTh, hpc]
      cases backwalk c.g l with
      | none =>
        refine AStep.tau c.abs i th.view _ hv (by simp [Thread.view, Thread.finish, hpc, PC.resv]) ?_
        intro h hm
        simp [Thread.view, Thread.finish, PC.held] at hm
        simp [Thread.view, hm]
      | some lc =>
        refine AStep.tau c.abs i th.view _ hv (by simp [Thread.view, hpc, PC.resv]) ?_
        intro h hm
        simpa [Thread.view, PC.held, hpc] using hm
    | joinSnapR l r tag lc =>
      simp only [stepTh, hpc]
      cases backwalk c.g r with
      | none =>
        refine AStep.tau c.abs i th.view _ hv (by simp [Thread.view, Thread.finish, hpc, PC.resv]) ?_
        intro h hm
        simp [Thread.view, Thread.finish, PC.held] at hm
        simp [Thread.view, hm]
      | some rc =>
        refine AStep.tau c.abs i th.view _ hv (by simp [Thread.view, hpc, PC.resv]) ?_
        intro h hm
        simp [Thread.view, PC.held] at hm
        simp [Thread.view, hm]
    | joinInsD l r tag lc rc =>
      simp only [stepTh, hpc]
      refine AStep.insert c.abs i th.view _ kit.dummy hv (by simp [Thread.view, hpc, PC.resv, insertNode, Cfg.abs]) ?_
      intro h hm
      simp [Thread.view, PC.held] at hm
      simp [Thread.view, hm]
    | joinInsG l r d tag lc rc =>
      simp only [stepTh, hpc]
      refine AStep.insert c.abs i th.view _ (kit.cogroup tag lc rc) hv
        (by simp [Thread.view, hpc, PC.resv, insertNode, Cfg.abs]) ?_
      intro h hm
      simp [Thread.view, PC.held] at hm
      simp [Thread.view, hm]
    | joinCon l r d g tag lc rc =>
      simp only [stepTh, hpc, publish]
      refine AStep.connectPub c.abs i th.view _ d g hv (by simp [Thread.view, hpc, PC.resv])
        (Or.inr (by simp [Thread.view, hpc, PC.resv])) ?_ (by simp [Thread.view, Thread.finishBuilt, PC.resv]) ?_
      · have := hord.2
        simp [Thread.view, hpc, PC.resv] at this
        exact this
      · intro h hm
        simp [Thread.view, Thread.finishBuilt, PC.held] at hm
        rcases hm with h1 | h1
        · left; simp [Thread.view, h1]
        · right; exact h1
    | colStart x =>
      simp only [stepTh, hpc]
      refine AStep.tau c.abs i th.view _ hv (by simp [Thread.view, hpc, PC.resv]) ?_
      intro h hm
      simpa [Thread.view, PC.held, hpc] using hm
    | colSnap x =>
      simp only [stepTh, hpc]
      cases backwalk c.g x with
      | none =>
        refine AStep.tau c.abs i th.view _ hv (by simp [Thread.view, Thread.finish, hpc, PC.resv]) ?_
        intro h hm
        simp [Thread.view, Thread.finish, PC.held] at hm
        simp [Thread.view, hm]
      | some ch =>
        refine AStep.tau c.abs i th.view _ hv (by simp [Thread.view, hpc, PC.resv]) ?_
        intro h hm
        simpa [Thread.view, PC.held, hpc] using hm
    | colEnd x ch =>
      simp only [stepTh, hpc]
      refine AStep.tau c.abs i th.view _ hv (by simp [Thread.view, Thread.finish, hpc, PC.resv]) ?_
      intro h hm
      simp [Thread.view, Thread.finish, PC.held] at hm
      simp [Thread.view, hm]
    | metSet =>
      simp only [stepTh, hpc]
      refine AStep.tau c.abs i th.view _ hv (by simp [Thread.view, Thread.finish, hpc, PC.resv]) ?_
      intro h hm
      simp [Thread.view, Thread.finish, PC.held] at hm
      simp [Thread.view, hm]
    | metTake =>
      simp only [stepTh, hpc]
      refine AStep.tau c.abs i th.view _ hv (by simp [Thread.view, Thread.finish, hpc, PC.resv]) ?_
      intro h hm
      simp [Thread.view, Thread.finish, PC.held] at hm
      simp [Thread.view, hm]
    | metGet =>
      simp only [stepTh, hpc]
      refine AStep.tau c.abs i th.view _ hv (by simp [Thread.view, Thread.finish, hpc, PC.resv]) ?_
      intro h hm
      simp [Thread.view, Thread.finish, PC.held] at hm
      simp [Thread.view, hm]

/-! ## reachable configurations -/

theorem inv_init (progs : List (List (Op N))) : AInv (Cfg.init progs).abs := by
  apply AInv.init_views
  intro v hv
  simp only [Cfg.init, List.map_map, List.mem_map] at hv
  rcases hv with ⟨p, _, rfl⟩
  simp [Thread.view, PC.held, PC.resv]

theorem inv_step (kit : Kit N) (c : Cfg N) (i : Nat) (inv : AInv c.abs) : AInv (step kit c i).abs :=
  inv.step (step_refines kit c i inv)

theorem inv_run (kit : Kit N) (sched : List Nat) : ∀ (c : Cfg N), AInv c.abs → AInv (run kit c sched).abs := by
  induction sched with
  | nil => intro c h; exact h
  | cons i rest ih => intro c h; exact ih _ (inv_step kit c i h)

/-! ## ghost invariant: every chain a collect (or a join) reads is the chain its handle was born with -/

structure GInv (c : Cfg N) : Prop where
  bornOk : ∀ p ∈ c.born, p.1 ∈ c.pool ∧ backwalk c.g p.1 = p.2
  bornAll : ∀ x ∈ c.pool, ∃ ch, (x, ch) ∈ c.born
  outs : ∀ (j : Nat) (th : Thread N), c.threads[j]? = some th →
    ∀ x ch, Outcome.collected x ch ∈ th.outs → (x, ch) ∈ c.born
  pcCol : ∀ (j : Nat) (th : Thread N), c.threads[j]? = some th →
    ∀ x ch, th.pc = .colEnd x ch → (x, some ch) ∈ c.born
  pcJoinL : ∀ (j : Nat) (th : Thread N), c.threads[j]? = some th →
    ∀ l r tag lc, th.pc = .joinSnapR l r tag lc → (l, some lc) ∈ c.born
  /-- from the second snapshot on, a join holds the born chains of ITS OWN operands `l`, `r` -/
  pcJoin : ∀ (j : Nat) (th : Thread N), c.threads[j]? = some th →
    ∀ l r tag lc rc, (th.pc = .joinInsD l r tag lc rc ∨ (∃ d, th.pc = .joinInsG l r d tag lc rc) ∨
        (∃ d g, th.pc = .joinCon l r d g tag lc rc)) →
      (l, some lc) ∈ c.born ∧ (r, some rc) ∈ c.born

theorem ginv_init (progs : List (List (Op N))) : GInv (Cfg.init progs) := by
  have hth : ∀ (j : Nat) (th : Thread N), (Cfg.init progs).threads[j]? = some th → th.pc = .idle ∧ th.outs = [] := by
    intro j th h
    have := List.mem_of_getElem? h
    simp only [Cfg.init, List.mem_map] at this
    rcases this with ⟨p, _, rfl⟩
    simp
  refine ⟨by simp [Cfg.init], by simp [Cfg.init], ?_, ?_, ?_, ?_⟩
  · intro j th h x ch hm; rw [(hth j th h).2] at hm; simp at hm
  · intro j th h x ch hp; rw [(hth j th h).1] at hp; cases hp
  · intro j th h l r tag lc hp; rw [(hth j th h).1] at hp; cases hp
  · intro j th h l r tag lc rc hp
    rw [(hth j th h).1] at hp
    rcases hp with hp | ⟨d, hp⟩ | ⟨d, g, hp⟩ <;> cases hp

/-- how a step changes the ghost `born` list and the pool -/
theorem stepTh_born_shape (kit : Kit N) (c : Cfg N) (th : Thread N) :
    ((stepTh kit c th).1.born = c.born ∧ (stepTh kit c th).1.pool = c.pool) ∨
    (∃ x, (stepTh kit c th).1.born = c.born ++ [(x, backwalk (stepTh kit c th).1.g x)] ∧
          (stepTh kit c th).1.pool = c.pool ++ [x]) := by
  cases hpc : th.pc with
  | idle => cases htd : th.todo <;> simp [stepTh, hpc, htd]
  | srcIns n => right; simp only [stepTh, hpc]; exact ⟨_, rfl, rfl⟩
  | drvIns p k n => simp [stepTh, hpc]
  | drvCon p m k n => right; simp only [stepTh, hpc]; exact ⟨_, rfl, rfl⟩
  | joinSnapL l r tag => simp only [stepTh, hpc]; split <;> simp
  | joinSnapR l r tag lc => simp only [stepTh, hpc]; split <;> simp
  | joinInsD l r tag lc rc => simp [stepTh, hpc]
  | joinInsG l r d tag lc rc => simp [stepTh, hpc]
  | joinCon l r d g tag lc rc => right; simp only [stepTh, hpc]; exact ⟨_, rfl, rfl⟩
  | colStart x => simp [stepTh, hpc]
  | colSnap x => simp only [stepTh, hpc]; split <;> simp
  | colEnd x ch => simp [stepTh, hpc]
  | metSet => simp [stepTh, hpc]
  | metTake => simp [stepTh, hpc]
  | metGet => simp [stepTh, hpc]

/-- `begin` adds no outcome of a collect and never lands inside a builder or at the end of a collect -/
theorem beginOp_thread (c : Cfg N) (th : Thread N) (op : Op N) (rest : List (Op N)) :
    (∀ x ch, Outcome.collected x ch ∈ (beginOp c th op rest).outs → Outcome.collected x ch ∈ th.outs) ∧
    (∀ x ch, (beginOp c th op rest).pc ≠ .colEnd x ch) ∧
    (∀ l r tag lc, (beginOp c th op rest).pc ≠ .joinSnapR l r tag lc) ∧
    (∀ l r tag lc rc, (beginOp c th op rest).pc ≠ .joinInsD l r tag lc rc) ∧
    (∀ l r d tag lc rc, (beginOp c th op rest).pc ≠ .joinInsG l r d tag lc rc) ∧
    (∀ l r d g tag lc rc, (beginOp c th op rest).pc ≠ .joinCon l r d g tag lc rc) ∧
    (∀ p m k n, (beginOp c th op rest).pc ≠ .drvCon p m k n) := by
  cases op with
  | source n => simp [beginOp]
  | derive p sig n => cases sig <;> (simp only [beginOp]; split <;> simp [Thread.finish])
  | join l r tag => simp only [beginOp]; split <;> simp [Thread.finish]
  | collect x => simp only [beginOp]; split <;> simp [Thread.finish]
  | setMetrics => simp [beginOp]
  | takeMetrics => simp [beginOp]
  | getMetrics => simp [beginOp]

/-- what the stepping thread's new outcomes / program counter can be (where it came from) -/
structure StepFacts (c : Cfg N) (th th' : Thread N) : Prop where
  outs : ∀ x ch, Outcome.collected x ch ∈ th'.outs →
    Outcome.collected x ch ∈ th.outs ∨ (∃ l, th.pc = .colEnd x l ∧ ch = some l) ∨
      (th.pc = .colSnap x ∧ ch = none ∧ backwalk c.g x = none)
  col : ∀ x ch, th'.pc = .colEnd x ch → th.pc = .colSnap x ∧ backwalk c.g x = some ch
  joinR : ∀ l r tag lc, th'.pc = .joinSnapR l r tag lc → th.pc = .joinSnapL l r tag ∧ backwalk c.g l = some lc
  joinD : ∀ l r tag lc rc, th'.pc = .joinInsD l r tag lc rc → th.pc = .joinSnapR l r tag lc ∧ backwalk c.g r = some rc
  joinG : ∀ l r d tag lc rc, th'.pc = .joinInsG l r d tag lc rc → th.pc = .joinInsD l r tag lc rc ∧ d = c.g.nextId
  joinC : ∀ l r d g tag lc rc, th'.pc = .joinCon l r d g tag lc rc → th.pc = .joinInsG l r d tag lc rc ∧ g = c.g.nextId
  drvC : ∀ p m k n, th'.pc = .drvCon p m k n → th.pc = .drvIns p k n ∧ m = c.g.nextId

theorem stepTh_thread (kit : Kit N) (c : Cfg N) (th : Thread N) : StepFacts c th (stepTh kit c th).2 := by
  cases hpc : th.pc with
  | idle =>
    cases htd : th.todo with
    | nil => constructor <;> simp_all [stepTh]
    | cons op rest =>
      have hb := beginOp_thread c th op rest
      simp only [stepTh, hpc, htd]
      exact ⟨fun x ch h => Or.inl (hb.1 x ch h), fun x ch h => absurd h (hb.2.1 x ch),
        fun l r tag lc h => absurd h (hb.2.2.1 l r tag lc), fun l r tag lc rc h => absurd h (hb.2.2.2.1 l r tag lc rc),
        fun l r d tag lc rc h => absurd h (hb.2.2.2.2.1 l r d tag lc rc),
        fun l r d g tag lc rc h => absurd h (hb.2.2.2.2.2.1 l r d g tag lc rc),
        fun p m k n h => absurd h (hb.2.2.2.2.2.2 p m k n)⟩
  | srcIns n => constructor <;> simp_all [stepTh, Thread.finishBuilt]
  | drvIns p k n => constructor <;> simp_all [stepTh, insertNode]
  | drvCon p m k n => constructor <;> simp_all [stepTh, Thread.finishBuilt]
  | joinSnapL l r tag =>
    simp only [stepTh, hpc]
    cases hb : backwalk c.g l <;> constructor <;> (try simp_all [Thread.finish]) <;> (try grind)
  | joinSnapR l r tag lc =>
    simp only [stepTh, hpc]
    cases hb : backwalk c.g r <;> constructor <;> (try simp_all [Thread.finish]) <;> (try grind)
  | joinInsD l r tag lc rc => constructor <;> simp_all [stepTh, insertNode]
  | joinInsG l r d tag lc rc => constructor <;> simp_all [stepTh, insertNode]
  | joinCon l r d g tag lc rc => constructor <;> simp_all [stepTh, Thread.finishBuilt]
  | colStart x => constructor <;> simp_all [stepTh]
  | colSnap x =>
    simp only [stepTh, hpc]
    cases hb : backwalk c.g x <;> constructor <;> (try simp_all [Thread.finish]) <;> (try grind)
  | colEnd x ch => constructor <;> (try simp_all [stepTh, Thread.finish]) <;> (try grind)
  | metSet => constructor <;> simp_all [stepTh, Thread.finish]
  | metTake => constructor <;> simp_all [stepTh, Thread.finish]
  | metGet => constructor <;> simp_all [stepTh, Thread.finish]

theorem ginv_step (kit : Kit N) (c : Cfg N) (i : Nat) (inv : AInv c.abs) (gi : GInv c) :
    GInv (step kit c i) := by
  have hst := step_refines kit c i inv
  have hstab : ∀ x ∈ c.pool, backwalk (step kit c i).g x = backwalk c.g x :=
    fun x hx => backwalk_stable_step inv hst (x := x) hx
  have hmono : ∀ x ∈ c.pool, x ∈ (step kit c i).pool := fun x hx => pool_mono_step hst (x := x) hx
  cases hth : c.threads[i]? with
  | none => simp only [step, hth]; exact gi
  | some th =>
    have hg : (step kit c i).g = (stepTh kit c th).1.g := by simp [step, hth]
    have hp : (step kit c i).pool = (stepTh kit c th).1.pool := by simp [step, hth]
    have hb : (step kit c i).born = (stepTh kit c th).1.born := by simp [step, hth]
    have hts : (step kit c i).threads = c.threads.set i (stepTh kit c th).2 := by
      simp [step, hth, stepTh_threads]
    have hheld : ∀ h ∈ th.pc.held, h ∈ c.pool := by
      intro h hm
      exact inv.held i th.view (abs_views_get c i th hth) h (by simp [Thread.view, hm])
    -- the born list only grows
    have hbmono : ∀ p ∈ c.born, p ∈ (step kit c i).born := by
      intro p hm
      rw [hb]
      rcases stepTh_born_shape kit c th with ⟨h1, _⟩ | ⟨x, h1, _⟩
      · rw [h1]; exact hm
      · rw [h1]; exact List.mem_append_left _ hm
    -- a published handle's current chain is its born chain
    have hcur : ∀ x ∈ c.pool, (x, backwalk c.g x) ∈ c.born := by
      intro x hx
      rcases gi.bornAll x hx with ⟨ch, hch⟩
      have := (gi.bornOk _ hch).2
      simp at this
      rw [this]; exact hch
    have hTh := stepTh_thread kit c th
    refine ⟨?_, ?_, ?_, ?_, ?_, ?_⟩
    · intro p hm
      rw [hb] at hm
      rcases stepTh_born_shape kit c th with ⟨h1, h2⟩ | ⟨x, h1, h2⟩
      · rw [h1] at hm
        have := gi.bornOk p hm
        exact ⟨hmono _ this.1, by rw [hstab _ this.1]; exact this.2⟩
      · rw [h1] at hm
        rcases List.mem_append.mp hm with hm | hm
        · have := gi.bornOk p hm
          exact ⟨hmono _ this.1, by rw [hstab _ this.1]; exact this.2⟩
        · simp at hm; subst hm
          exact ⟨by rw [hp, h2]; simp, by rw [hg]⟩
    · intro x hx
      rw [hp] at hx
      rcases stepTh_born_shape kit c th with ⟨h1, h2⟩ | ⟨y, h1, h2⟩
      · rw [h2] at hx
        rcases gi.bornAll x hx with ⟨ch, hch⟩
        exact ⟨ch, hbmono _ hch⟩
      · rw [h2] at hx
        rcases List.mem_append.mp hx with hx | hx
        · rcases gi.bornAll x hx with ⟨ch, hch⟩
          exact ⟨ch, hbmono _ hch⟩
        · simp at hx; subst hx
          exact ⟨backwalk (stepTh kit c th).1.g x, by rw [hb, h1]; simp⟩
    · intro j w hj x ch hm
      rw [hts] at hj
      rcases getElem?_set_cases hj with ⟨_, rfl⟩ | ⟨_, hj'⟩
      · rcases hTh.outs x ch hm with h1 | ⟨l, h1, rfl⟩ | ⟨h1, rfl, h2⟩
        · exact hbmono _ (gi.outs i th hth x ch h1)
        · exact hbmono _ (gi.pcCol i th hth x l h1)
        · have := hcur x (hheld x (by simp [h1, PC.held]))
          rw [h2] at this
          exact hbmono _ this
      · exact hbmono _ (gi.outs j w hj' x ch hm)
    · intro j w hj x ch hpc
      rw [hts] at hj
      rcases getElem?_set_cases hj with ⟨_, rfl⟩ | ⟨_, hj'⟩
      · rcases hTh.col x ch hpc with ⟨h1, h2⟩
        have := hcur x (hheld x (by simp [h1, PC.held]))
        rw [h2] at this
        exact hbmono _ this
      · exact hbmono _ (gi.pcCol j w hj' x ch hpc)
    · intro j w hj l r tag lc hpc
      rw [hts] at hj
      rcases getElem?_set_cases hj with ⟨_, rfl⟩ | ⟨_, hj'⟩
      · rcases hTh.joinR l r tag lc hpc with ⟨h1, h2⟩
        have := hcur l (hheld l (by simp [h1, PC.held]))
        rw [h2] at this
        exact hbmono _ this
      · exact hbmono _ (gi.pcJoinL j w hj' l r tag lc hpc)
    · intro j w hj l r tag lc rc hpc
      rw [hts] at hj
      rcases getElem?_set_cases hj with ⟨_, rfl⟩ | ⟨_, hj'⟩
      · rcases hpc with hpc | ⟨d, hpc⟩ | ⟨d, g, hpc⟩
        · rcases hTh.joinD l r tag lc rc hpc with ⟨h1, h2⟩
          have hr := hcur r (hheld r (by simp [h1, PC.held]))
          rw [h2] at hr
          exact ⟨hbmono _ (gi.pcJoinL i th hth l r tag lc h1), hbmono _ hr⟩
        · have h1 := (hTh.joinG l r d tag lc rc hpc).1
          have := gi.pcJoin i th hth l r tag lc rc (Or.inl h1)
          exact ⟨hbmono _ this.1, hbmono _ this.2⟩
        · have h1 := (hTh.joinC l r d g tag lc rc hpc).1
          have := gi.pcJoin i th hth l r tag lc rc (Or.inr (Or.inl ⟨d, h1⟩))
          exact ⟨hbmono _ this.1, hbmono _ this.2⟩
      · have := gi.pcJoin j w hj' l r tag lc rc hpc
        exact ⟨hbmono _ this.1, hbmono _ this.2⟩

theorem ginv_run (kit : Kit N) (sched : List Nat) :
    ∀ (c : Cfg N), AInv c.abs → GInv c → GInv (run kit c sched) := by
  induction sched with
  | nil => intro c _ h; exact h
  | cons i rest ih => intro c h g; exact ih _ (inv_step kit c i h) (ginv_step kit c i h g)


/-! ## the trace of user-code runs (laziness) -/

/-- the chains an operation's outcome stands for having run: a finished collect ran its planned chain -/
def Outcome.ran : Outcome N → List (List N)
  | .collected _ ch => ch.toList
  | _ => []

theorem set_same {α : Type} (l : List α) (i : Nat) (a : α) (h : l[i]? = some a) : l.set i a = l := by
  apply List.ext_getElem?
  intro j
  rw [List.getElem?_set]
  split
  · next hij =>
    subst hij
    have hlt : i < l.length := by
      rcases Nat.lt_or_ge i l.length with h1 | h1
      · exact h1
      · rw [List.getElem?_eq_none h1] at h; cases h
    rw [if_pos hlt, h]
  · rfl

theorem beginOp_calls (c : Cfg N) (th : Thread N) (op : Op N) (rest : List (Op N)) :
    (beginOp c th op rest).calls = th.calls ∧
    (beginOp c th op rest).outs.flatMap Outcome.ran = th.outs.flatMap Outcome.ran := by
  cases op with
  | source n => simp [beginOp]
  | derive p sig n => cases sig <;> (simp only [beginOp]; split <;> simp [Thread.finish, Outcome.ran])
  | join l r tag => simp only [beginOp]; split <;> simp [Thread.finish, Outcome.ran]
  | collect x => simp only [beginOp]; split <;> simp [Thread.finish, Outcome.ran]
  | setMetrics => simp [beginOp]
  | takeMetrics => simp [beginOp]
  | getMetrics => simp [beginOp]

/-- **a step that is not the end of a collect runs no user code**: the stepping thread's trace is unchanged -/
theorem stepTh_calls_build (kit : Kit N) (c : Cfg N) (th : Thread N) (h : ∀ x ch, th.pc ≠ .colEnd x ch) :
    (stepTh kit c th).2.calls = th.calls := by
  cases hpc : th.pc with
  | idle =>
    cases htd : th.todo with
    | nil => simp [stepTh, hpc, htd]
    | cons op rest => simp only [stepTh, hpc, htd]; exact (beginOp_calls c th _ _).1
  | srcIns n => simp [stepTh, hpc, Thread.finishBuilt]
  | drvIns p k n => simp [stepTh, hpc]
  | drvCon p m k n => simp [stepTh, hpc, Thread.finishBuilt]
  | joinSnapL l r tag => simp only [stepTh, hpc]; split <;> simp [Thread.finish]
  | joinSnapR l r tag lc => simp only [stepTh, hpc]; split <;> simp [Thread.finish]
  | joinInsD l r tag lc rc => simp [stepTh, hpc]
  | joinInsG l r d tag lc rc => simp [stepTh, hpc]
  | joinCon l r d g tag lc rc => simp [stepTh, hpc, Thread.finishBuilt]
  | colStart x => simp [stepTh, hpc]
  | colSnap x => simp only [stepTh, hpc]; split <;> simp [Thread.finish]
  | colEnd x ch => exact absurd hpc (h x ch)
  | metSet => simp [stepTh, hpc, Thread.finish]
  | metTake => simp [stepTh, hpc, Thread.finish]
  | metGet => simp [stepTh, hpc, Thread.finish]

/-- the trace is exactly the chains of the finished collects, in order -/
theorem stepTh_calls_inv (kit : Kit N) (c : Cfg N) (th : Thread N) (h : th.calls = th.outs.flatMap Outcome.ran) :
    (stepTh kit c th).2.calls = (stepTh kit c th).2.outs.flatMap Outcome.ran := by
  cases hpc : th.pc with
  | idle =>
    cases htd : th.todo with
    | nil => simpa [stepTh, hpc, htd] using h
    | cons op rest =>
      simp only [stepTh, hpc, htd]
      rw [(beginOp_calls c th _ _).1, (beginOp_calls c th _ _).2]; exact h
  | srcIns n => simp [stepTh, hpc, Thread.finishBuilt, Outcome.ran, h]
  | drvIns p k n => simpa [stepTh, hpc] using h
  | drvCon p m k n => simp [stepTh, hpc, Thread.finishBuilt, Outcome.ran, h]
  | joinSnapL l r tag => simp only [stepTh, hpc]; split <;> simp [Thread.finish, Outcome.ran, h]
  | joinSnapR l r tag lc => simp only [stepTh, hpc]; split <;> simp [Thread.finish, Outcome.ran, h]
  | joinInsD l r tag lc rc => simpa [stepTh, hpc] using h
  | joinInsG l r d tag lc rc => simpa [stepTh, hpc] using h
  | joinCon l r d g tag lc rc => simp [stepTh, hpc, Thread.finishBuilt, Outcome.ran, h]
  | colStart x => simpa [stepTh, hpc] using h
  | colSnap x => simp only [stepTh, hpc]; split <;> simp [Thread.finish, Outcome.ran, h]
  | colEnd x ch => simp [stepTh, hpc, Thread.finish, Outcome.ran, h]
  | metSet => simp [stepTh, hpc, Thread.finish, Outcome.ran, h]
  | metTake => simp [stepTh, hpc, Thread.finish, Outcome.ran, h]
  | metGet => simp [stepTh, hpc, Thread.finish, Outcome.ran, h]

/-- invariant: every thread's trace of user-code runs = the chains of its finished collects -/
def CInv (c : Cfg N) : Prop :=
  ∀ (j : Nat) (th : Thread N), c.threads[j]? = some th → th.calls = th.outs.flatMap Outcome.ran

theorem cinv_init (progs : List (List (Op N))) : CInv (Cfg.init progs) := by
  intro j th h
  have := List.mem_of_getElem? h
  simp only [Cfg.init, List.mem_map] at this
  rcases this with ⟨p, _, rfl⟩
  simp

theorem step_threads (kit : Kit N) (c : Cfg N) (i : Nat) (th : Thread N) (hth : c.threads[i]? = some th) :
    (step kit c i).threads = c.threads.set i (stepTh kit c th).2 := by
  simp [step, hth, stepTh_threads]

theorem cinv_step (kit : Kit N) (c : Cfg N) (i : Nat) (ci : CInv c) : CInv (step kit c i) := by
  cases hth : c.threads[i]? with
  | none => simp only [step, hth]; exact ci
  | some th =>
    intro j w hj
    rw [step_threads kit c i th hth] at hj
    rcases getElem?_set_cases hj with ⟨_, rfl⟩ | ⟨_, hj'⟩
    · exact stepTh_calls_inv kit c th (ci i th hth)
    · exact ci j w hj'

theorem cinv_run (kit : Kit N) (sched : List Nat) : ∀ (c : Cfg N), CInv c → CInv (run kit c sched) := by
  induction sched with
  | nil => intro c h; exact h
  | cons i rest ih => intro c h; exact ih _ (cinv_step kit c i h)

/-! ### programs without a collect never run user code -/

def Op.isCollect : Op N → Bool
  | .collect _ => true
  | _ => false

def PC.inCollect : PC N → Bool
  | .colStart _ => true
  | .colSnap _ => true
  | .colEnd _ _ => true
  | _ => false

/-- a thread that has no collect left to do, is not inside one and has never run one -/
structure NoCol (th : Thread N) : Prop where
  todo : ∀ op ∈ th.todo, Op.isCollect op = false
  pc : th.pc.inCollect = false
  calls : th.calls = []

theorem beginOp_nocol (c : Cfg N) (th : Thread N) (op : Op N) (rest : List (Op N))
    (hop : Op.isCollect op = false) (hpc : th.calls = []) :
    (beginOp c th op rest).pc.inCollect = false ∧ (beginOp c th op rest).calls = [] ∧
    (beginOp c th op rest).todo = rest := by
  cases op with
  | source n => simp [beginOp, PC.inCollect, hpc]
  | derive p sig n => cases sig <;> (simp only [beginOp]; split <;> simp [Thread.finish, PC.inCollect, hpc])
  | join l r tag => simp only [beginOp]; split <;> simp [Thread.finish, PC.inCollect, hpc]
  | collect x => simp [Op.isCollect] at hop
  | setMetrics => simp [beginOp, PC.inCollect, hpc]
  | takeMetrics => simp [beginOp, PC.inCollect, hpc]
  | getMetrics => simp [beginOp, PC.inCollect, hpc]

theorem stepTh_nocol (kit : Kit N) (c : Cfg N) (th : Thread N) (h : NoCol th) : NoCol (stepTh kit c th).2 := by
  have h1 := h.todo
  have h2 := h.pc
  have h3 := h.calls
  have fin : ∀ o : Outcome N, NoCol (th.finish o) := fun o =>
    ⟨by simpa [Thread.finish] using h1, by simp [Thread.finish, PC.inCollect], by simpa [Thread.finish] using h3⟩
  have finB : ∀ id : Nat, NoCol (th.finishBuilt id) := fun id =>
    ⟨by simpa [Thread.finishBuilt] using h1, by simp [Thread.finishBuilt, PC.inCollect], by simpa [Thread.finishBuilt] using h3⟩
  have setpc : ∀ pc : PC N, pc.inCollect = false → NoCol { th with pc := pc } := fun pc hp =>
    ⟨by simpa using h1, hp, by simpa using h3⟩
  cases hpc : th.pc with
  | idle =>
    cases htd : th.todo with
    | nil => simp only [stepTh, hpc, htd]; exact h
    | cons op rest =>
      simp only [stepTh, hpc, htd]
      rw [htd] at h1
      have hb := beginOp_nocol c th op rest (h1 op (by simp)) h3
      exact ⟨by rw [hb.2.2]; exact fun o ho => h1 o (by simp [ho]), hb.1, hb.2.1⟩
  | srcIns n => simp only [stepTh, hpc]; exact finB _
  | drvIns p k n => simp only [stepTh, hpc]; exact setpc _ (by simp [PC.inCollect])
  | drvCon p m k n => simp only [stepTh, hpc]; exact finB _
  | joinSnapL l r tag =>
    simp only [stepTh, hpc]
    split
    · exact setpc _ (by simp [PC.inCollect])
    · exact fin _
  | joinSnapR l r tag lc =>
    simp only [stepTh, hpc]
    split
    · exact setpc _ (by simp [PC.inCollect])
    · exact fin _
  | joinInsD l r tag lc rc => simp only [stepTh, hpc]; exact setpc _ (by simp [PC.inCollect])
  | joinInsG l r d tag lc rc => simp only [stepTh, hpc]; exact setpc _ (by simp [PC.inCollect])
  | joinCon l r d g tag lc rc => simp only [stepTh, hpc]; exact finB _
  | colStart x => rw [hpc] at h2; simp [PC.inCollect] at h2
  | colSnap x => rw [hpc] at h2; simp [PC.inCollect] at h2
  | colEnd x ch => rw [hpc] at h2; simp [PC.inCollect] at h2
  | metSet => simp only [stepTh, hpc]; exact fin _
  | metTake => simp only [stepTh, hpc]; exact fin _
  | metGet => simp only [stepTh, hpc]; exact fin _

theorem nocol_step (kit : Kit N) (c : Cfg N) (i : Nat) (h : ∀ th ∈ c.threads, NoCol th) :
    ∀ th ∈ (step kit c i).threads, NoCol th := by
  cases hth : c.threads[i]? with
  | none => simp only [step, hth]; exact h
  | some th =>
    intro w hw
    rw [step_threads kit c i th hth] at hw
    rcases List.getElem?_of_mem hw with ⟨j, hj⟩
    rcases getElem?_set_cases hj with ⟨_, rfl⟩ | ⟨_, hj'⟩
    · exact stepTh_nocol kit c th (h th (List.mem_of_getElem? hth))
    · exact h w (List.mem_of_getElem? hj')

theorem nocol_run (kit : Kit N) (sched : List Nat) :
    ∀ (c : Cfg N), (∀ th ∈ c.threads, NoCol th) → ∀ th ∈ (run kit c sched).threads, NoCol th := by
  induction sched with
  | nil => intro c h; exact h
  | cons i rest ih => intro c h; exact ih _ (nocol_step kit c i h)

/-! ## append-only growth; first edge = last edge when in-degrees are at most one -/

theorem graph_grows_step {a a' : ACfg N} (inv : AInv a) (st : AStep a a') :
    ∃ ns es, a'.g.nodes = a.g.nodes ++ ns ∧ a'.g.edges = a.g.edges ++ es := by
  cases st with
  | stutter => exact ⟨[], [], by simp, by simp⟩
  | begin => exact ⟨[], [], by simp, by simp⟩
  | tau => exact ⟨[], [], by simp, by simp⟩
  | insert i v v' n => rw [insertNode_fst _ _ inv.ids]; exact ⟨[(a.g.nextId, n)], [], rfl, by simp⟩
  | insertPub i v v' n => rw [insertNode_fst _ _ inv.ids]; exact ⟨[(a.g.nextId, n)], [], rfl, by simp⟩
  | connectPub i v v' f t => exact ⟨[], [(f, t)], by simp [connect], rfl⟩

theorem find?_reverse_of_nodup (es : List (Nat × Nat)) (cur : Nat) (h : (es.map Prod.snd).Nodup) :
    es.reverse.find? (fun e => e.2 == cur) = es.find? (fun e => e.2 == cur) := by
  induction es with
  | nil => rfl
  | cons e t ih =>
    simp only [List.map_cons, List.nodup_cons] at h
    rw [List.reverse_cons, List.find?_append, ih h.2]
    by_cases hc : e.2 = cur
    · have hnone : t.find? (fun e => e.2 == cur) = none := by
        rw [List.find?_eq_none]
        intro x hx hxc
        simp at hxc
        exact h.1 (by rw [hc, ← hxc]; exact List.mem_map_of_mem hx)
      simp [hnone, hc]
    · simp [hc]

theorem backwalkGoLast_eq (es : List (Nat × Nat)) (h : (es.map Prod.snd).Nodup) :
    ∀ (fuel : Nat) (ns : List (Nat × N)) (cur : Nat) (acc : List N),
      Variant.backwalkGoLast fuel ns es cur acc = backwalkGo fuel ns es cur acc := by
  intro fuel
  induction fuel with
  | zero => intros; rfl
  | succ k ih =>
    intro ns cur acc
    simp only [Variant.backwalkGoLast, backwalkGo, find?_reverse_of_nodup es cur h]
    cases lookupNode ns cur with
    | none => rfl
    | some nd =>
      cases es.find? (fun e => e.2 == cur) with
      | none => rfl
      | some e => exact ih _ _ _

/-! ## the lineage a builder creates is structural: parent's lineage plus the new node -/

theorem backwalkGo_acc (es : List (Nat × Nat)) :
    ∀ (fuel : Nat) (ns : List (Nat × N)) (cur : Nat) (acc : List N),
      backwalkGo fuel ns es cur acc = (backwalkGo fuel ns es cur []).map (· ++ acc) := by
  intro fuel
  induction fuel with
  | zero => intros; rfl
  | succ k ih =>
    intro ns cur acc
    simp only [backwalkGo]
    cases lookupNode ns cur with
    | none => rfl
    | some nd =>
      cases es.find? (fun e => e.2 == cur) with
      | none => simp
      | some e =>
        simp only []
        rw [ih _ _ (nd :: acc), ih _ _ [nd], Option.map_map]
        congr 1
        funext l
        simp

/-- removing a node that the walk never stands on does not change the walk -/
theorem backwalkGo_filter (es : List (Nat × Nat)) (m : Nat) (hes : ∀ e ∈ es, e.1 ≠ m) :
    ∀ (fuel : Nat) (ns : List (Nat × N)) (cur : Nat) (acc : List N), cur ≠ m →
      backwalkGo fuel (ns.filter (fun p => p.1 != m)) es cur acc = backwalkGo fuel ns es cur acc := by
  intro fuel
  induction fuel with
  | zero => intros; rfl
  | succ k ih =>
    intro ns cur acc hc
    simp only [backwalkGo, lookupNode_filter_ne ns m cur hc]
    cases lookupNode ns cur with
    | none => rfl
    | some nd =>
      cases he : es.find? (fun e => e.2 == cur) with
      | none => rfl
      | some e =>
        have hm : e ∈ es := List.mem_of_find?_eq_some he
        simp only []
        have hcomm : (ns.filter (fun p => p.1 != m)).filter (fun p => p.1 != cur) =
            (ns.filter (fun p => p.1 != cur)).filter (fun p => p.1 != m) := by
          rw [List.filter_filter, List.filter_filter]
          congr 1
          funext a
          exact Bool.and_comm _ _
        rw [hcomm]
        exact ih _ _ _ (hes e hm)

theorem lookupNode_mem_fst {ns : List (Nat × N)} {cur : Nat} {n : N} (h : lookupNode ns cur = some n) :
    (cur, n) ∈ ns := lookupNode_isSome_mem h

/-- **connect f → t into a fresh `t`**: the lineage of `t` is the lineage of `f` followed by `t`'s own node -/
theorem backwalk_connect_new (s : PState N) (f t : Nat) (n : N) (hn : lookupNode s.nodes t = some n)
    (hes : ∀ e ∈ s.edges, e.1 ≠ t ∧ e.2 ≠ t) (hft : f ≠ t) :
    backwalk (connect s f t) t = (backwalk s f).map (· ++ [n]) := by
  unfold backwalk
  simp only [connect, backwalkGo, hn]
  have hfind : (s.edges ++ [(f, t)]).find? (fun e => e.2 == t) = some (f, t) := by
    rw [List.find?_append]
    have : s.edges.find? (fun e => e.2 == t) = none := by
      rw [List.find?_eq_none]
      intro e he hh
      simp at hh
      exact (hes e he).2 hh
    simp [this]
  rw [hfind]
  simp only []
  have hlen := filter_length_lt (lookupNode_isSome_mem hn)
  rw [backwalkGo_connect s.edges f t (fun e he => (hes e he).1) _ _ _ _ hft]
  rw [backwalkGo_fuel2 s.edges s.nodes.length (s.nodes.length + 1) _ _ _ hlen (by omega)]
  rw [backwalkGo_filter s.edges t (fun e he => (hes e he).1) _ _ _ _ hft]
  exact backwalkGo_acc _ _ _ _ _

/-- a node without incoming edge is its own lineage -/
theorem backwalk_root (s : PState N) (x : Nat) (n : N) (hn : lookupNode s.nodes x = some n)
    (hes : ∀ e ∈ s.edges, e.2 ≠ x) : backwalk s x = some [n] := by
  unfold backwalk
  simp only [backwalkGo, hn]
  have : s.edges.find? (fun e => e.2 == x) = none := by
    rw [List.find?_eq_none]
    intro e he hh
    simp at hh
    exact hes e he hh
  rw [this]

theorem lookupNode_append_last (ns : List (Nat × N)) (k : Nat) (n : N) (h : ∀ p ∈ ns, p.1 ≠ k) :
    lookupNode (ns ++ [(k, n)]) k = some n := by
  unfold lookupNode
  rw [List.find?_append]
  have : ns.find? (fun p => p.1 == k) = none := by
    rw [List.find?_eq_none]
    intro p hp hh
    simp at hh
    exact h p hp hh
  simp [this]

theorem lookupNode_append_found (ns ms : List (Nat × N)) (k : Nat) (n : N) (h : lookupNode ns k = some n) :
    lookupNode (ns ++ ms) k = some n := by
  unfold lookupNode at h ⊢
  rw [List.find?_append]
  cases hf : ns.find? (fun p => p.1 == k) with
  | none => simp [hf] at h
  | some p => simp [hf] at h ⊢; exact h

/-! ## payload invariant: what a builder has inserted is stored under the id it holds -/

theorem lookup_insertNode {a : ACfg N} (inv : AInv a) (n : N) :
    lookupNode (insertNode a.g n).1.nodes a.g.nextId = some n := by
  rw [insertNode_fst a.g n inv.ids]
  apply lookupNode_append_last
  intro p hp hk
  have : p.1 ∈ a.g.nodes.map Prod.fst := List.mem_map_of_mem hp
  rw [inv.ids] at this
  have := List.mem_range.mp this
  omega

/-- between its `insert_node`s and its `connect`, a builder's own nodes hold exactly what it put there: the derive's
    payload `n`; the join's dummy source and `CoGroup(tag, lc, rc)` -/
structure PInv (kit : Kit N) (c : Cfg N) : Prop where
  drv : ∀ (j : Nat) (th : Thread N), c.threads[j]? = some th →
    ∀ p m k n, th.pc = .drvCon p m k n → lookupNode c.g.nodes m = some n
  jG : ∀ (j : Nat) (th : Thread N), c.threads[j]? = some th →
    ∀ l r d tag lc rc, th.pc = .joinInsG l r d tag lc rc → lookupNode c.g.nodes d = some kit.dummy
  jC : ∀ (j : Nat) (th : Thread N), c.threads[j]? = some th →
    ∀ l r d g tag lc rc, th.pc = .joinCon l r d g tag lc rc →
      lookupNode c.g.nodes d = some kit.dummy ∧ lookupNode c.g.nodes g = some (kit.cogroup tag lc rc)

theorem pinv_init (kit : Kit N) (progs : List (List (Op N))) : PInv kit (Cfg.init progs) := by
  have hth : ∀ (j : Nat) (th : Thread N), (Cfg.init progs).threads[j]? = some th → th.pc = .idle := by
    intro j th h
    have := List.mem_of_getElem? h
    simp only [Cfg.init, List.mem_map] at this
    rcases this with ⟨p, _, rfl⟩
    simp
  refine ⟨?_, ?_, ?_⟩
  · intro j th h p m k n hp; rw [hth j th h] at hp; cases hp
  · intro j th h l r d tag lc rc hp; rw [hth j th h] at hp; cases hp
  · intro j th h l r d g tag lc rc hp; rw [hth j th h] at hp; cases hp

theorem pinv_step (kit : Kit N) (c : Cfg N) (i : Nat) (inv : AInv c.abs) (pi : PInv kit c) :
    PInv kit (step kit c i) := by
  have hst := step_refines kit c i inv
  rcases graph_grows_step inv hst with ⟨ns, _, hns, _⟩
  have hkeep : ∀ k n, lookupNode c.g.nodes k = some n → lookupNode (step kit c i).g.nodes k = some n := by
    intro k n hk
    have : (step kit c i).g.nodes = c.g.nodes ++ ns := hns
    rw [this]; exact lookupNode_append_found _ _ _ _ hk
  cases hth : c.threads[i]? with
  | none => simp only [step, hth]; exact pi
  | some th =>
    have hg : (step kit c i).g = (stepTh kit c th).1.g := by simp [step, hth]
    have hts : (step kit c i).threads = c.threads.set i (stepTh kit c th).2 := by
      simp [step, hth, stepTh_threads]
    have hTh := stepTh_thread kit c th
    have hins : ∀ n : N, lookupNode (insertNode c.g n).1.nodes c.g.nextId = some n :=
      fun n => lookup_insertNode (a := c.abs) inv n
    refine ⟨?_, ?_, ?_⟩
    · intro j w hj p m k n hpc
      rw [hts] at hj
      rcases getElem?_set_cases hj with ⟨_, rfl⟩ | ⟨_, hj'⟩
      · rcases hTh.drvC p m k n hpc with ⟨h1, rfl⟩
        rw [hg]; simp only [stepTh, h1]; exact hins n
      · exact hkeep _ _ (pi.drv j w hj' p m k n hpc)
    · intro j w hj l r d tag lc rc hpc
      rw [hts] at hj
      rcases getElem?_set_cases hj with ⟨_, rfl⟩ | ⟨_, hj'⟩
      · rcases hTh.joinG l r d tag lc rc hpc with ⟨h1, rfl⟩
        rw [hg]; simp only [stepTh, h1]; exact hins kit.dummy
      · exact hkeep _ _ (pi.jG j w hj' l r d tag lc rc hpc)
    · intro j w hj l r d g tag lc rc hpc
      rw [hts] at hj
      rcases getElem?_set_cases hj with ⟨_, rfl⟩ | ⟨_, hj'⟩
      · rcases hTh.joinC l r d g tag lc rc hpc with ⟨h1, rfl⟩
        refine ⟨hkeep _ _ (pi.jG i th hth l r d tag lc rc h1), ?_⟩
        rw [hg]; simp only [stepTh, h1]; exact hins _
      · exact ⟨hkeep _ _ (pi.jC j w hj' l r d g tag lc rc hpc).1, hkeep _ _ (pi.jC j w hj' l r d g tag lc rc hpc).2⟩

theorem pinv_run (kit : Kit N) (sched : List Nat) :
    ∀ (c : Cfg N), AInv c.abs → PInv kit c → PInv kit (run kit c sched) := by
  induction sched with
  | nil => intro c _ h; exact h
  | cons i rest ih => intro c h g; exact ih _ (inv_step kit c i h) (pinv_step kit c i h g)

/-! ## the decidable graph check is the graph part of the invariant -/

theorem nodupB_iff (l : List Nat) : nodupB l = true ↔ l.Nodup := by
  induction l with
  | nil => simp [nodupB]
  | cons a t ih => simp [nodupB, ih, List.nodup_cons]

/-! ## reading a source -/

theorem readSource_readOnly {σ R : Type} (ops : SrcOps σ R) (ro : ReadOnly ops) (s : σ) (m : Option Nat) :
    (readSource ops s m).1 = s ∧ (readSource ops s m).2.map List.flatten = (ops.cloneAny s).2 := by
  cases m with
  | none =>
    simp only [readSource]
    refine ⟨ro.cloneKeeps s, ?_⟩
    cases (ops.cloneAny s).2 <;> simp
  | some p =>
    simp only [readSource]
    cases hsp : (ops.split s (clampParts p (ops.len s))).2 with
    | some parts =>
      simp only []
      exact ⟨ro.splitKeeps s _, by rw [ro.splitIsClone s _ parts hsp]; rfl⟩
    | none =>
      simp only []
      rw [ro.splitKeeps s _]
      refine ⟨ro.cloneKeeps s, ?_⟩
      cases (ops.cloneAny s).2 <;> simp

theorem chunksGo_flatten {R : Type} (k : Nat) (hk : 0 < k) :
    ∀ (fuel : Nat) (l : List R), l.length ≤ fuel → (chunksGo fuel k l).flatten = l := by
  intro fuel
  induction fuel with
  | zero => intro l h; have : l = [] := List.length_eq_zero_iff.mp (by omega); subst this; rfl
  | succ f ih =>
    intro l h
    simp only [chunksGo]
    split
    · next he => simp at he; subst he; rfl
    · next he =>
      have hlen : 0 < l.length := by
        cases l with
        | nil => simp at he
        | cons a t => simp
      simp only [List.flatten_cons]
      rw [ih (l.drop k) (by simp; omega)]
      exact List.take_append_drop k l

end IB.Graph
