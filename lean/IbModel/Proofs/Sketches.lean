import IbModel.Model.Sketches
/-!
# Helper lemmas for C15 (t-digest over `Rat`, KMV over `Nat`). Core Lean only.
-/
set_option linter.unusedSectionVars false
namespace IB.Sketches
open NumOps

/-! ## the `Rat` instance, unfolded -/
@[simp] theorem rat_zero : (NumOps.zero : Rat) = 0 := rfl
@[simp] theorem rat_one : (NumOps.one : Rat) = 1 := rfl
@[simp] theorem rat_two : (NumOps.two : Rat) = 2 := rfl
@[simp] theorem rat_half : (NumOps.half : Rat) = 1 / 2 := rfl
@[simp] theorem rat_eps : (NumOps.eps : Rat) = 1 / 4503599627370496 := rfl
@[simp] theorem rat_ofNat (n : Nat) : (NumOps.ofNat n : Rat) = (n : Rat) := rfl
@[simp] theorem rat_mulAdd (a b c : Rat) : NumOps.mulAdd a b c = a * b + c := rfl
@[simp] theorem rat_fmin (a b : Rat) : NumOps.fmin a b = if a ≤ b then a else b := rfl
@[simp] theorem rat_fmax (a b : Rat) : NumOps.fmax a b = if a ≤ b then b else a := rfl
@[simp] theorem rat_abs (a : Rat) : NumOps.abs a = if 0 ≤ a then a else -a := rfl
@[simp] theorem rat_isFinite (a : Rat) : NumOps.isFinite a = true := rfl

theorem clamp_mem {x lo hi : Rat} (h : lo ≤ hi) : lo ≤ clamp x lo hi ∧ clamp x lo hi ≤ hi := by
  unfold clamp; grind

theorem clamp_id {x lo hi : Rat} (h1 : lo ≤ x) (h2 : x ≤ hi) : clamp x lo hi = x := by
  unfold clamp; grind

/-- whatever the merged mean is, the bounded one lies between `cur.mean`'s lower bound and `c.mean` -/
theorem boundBetween_mem {cur c : Centroid Rat} {m lo hi : Rat} (h1 : lo ≤ cur.mean) (h2 : lo ≤ c.mean) (h3 : c.mean ≤ hi) :
    lo ≤ boundBetween cur c m ∧ boundBetween cur c m ≤ hi := by
  simp only [boundBetween, rat_fmin, rat_fmax]; grind

/-- a mean that already lies between the two is left alone -/
theorem boundBetween_id {cur c : Centroid Rat} {m : Rat} (h1 : cur.mean ≤ m) (h2 : m ≤ c.mean) : boundBetween cur c m = m := by
  simp only [boundBetween, rat_fmin, rat_fmax]; grind

theorem kSize_zero (δ : Rat) : kSize δ 0 = 1 := by
  simp only [kSize, clamp, rat_zero, rat_one, rat_two, rat_fmax]; grind

theorem kSize_ge_one (δ q : Rat) : 1 ≤ kSize δ q := by
  simp only [kSize, rat_fmax, rat_one]; grind

/-- sum of the weights -/
def wsum : List (Centroid Rat) → Rat
  | [] => 0
  | c :: cs => c.weight + wsum cs

@[simp] theorem wsum_nil : wsum [] = 0 := rfl
@[simp] theorem wsum_cons (c : Centroid Rat) (cs) : wsum (c :: cs) = c.weight + wsum cs := rfl
theorem wsum_append (a b : List (Centroid Rat)) : wsum (a ++ b) = wsum a + wsum b := by
  induction a with
  | nil => simp; grind
  | cons c cs ih => simp [ih]; grind

theorem wsum_perm {a b : List (Centroid Rat)} (h : a.Perm b) : wsum a = wsum b := by
  induction h with
  | nil => rfl
  | cons x _ ih => simp [ih]
  | swap x y l => simp; grind
  | trans _ _ ih1 ih2 => exact ih1.trans ih2

/-- a centroid is fine w.r.t. the observed range -/
def COk (mn mx : Rat) (c : Centroid Rat) : Prop := 0 < c.weight ∧ mn ≤ c.mean ∧ c.mean ≤ mx

theorem wsum_pos_of_ok {mn mx : Rat} : ∀ {cs : List (Centroid Rat)}, cs ≠ [] → (∀ c ∈ cs, COk mn mx c) → 0 < wsum cs
  | [], h, _ => absurd rfl h
  | [c], _, hc => by have := (hc c (by simp)).1; simp; grind
  | c :: c2 :: cs, _, hc => by
    have h1 := (hc c (by simp)).1
    have h2 := wsum_pos_of_ok (cs := c2 :: cs) (by simp) (fun x hx => hc x (by simp [hx]))
    simp at h2 ⊢; grind

/-! ## `compress` -/

theorem compressLoop_all {P : Centroid Rat → Prop} (f : Centroid Rat → Centroid Rat → Rat → Rat) (δ total : Rat)
    (hmerge : ∀ cur c, P cur → P c → P ⟨f cur c (mergeCentroid cur c).mean, (mergeCentroid cur c).weight⟩) :
    ∀ (rest : List (Centroid Rat)) (cum : Rat) (cur : Centroid Rat), P cur → (∀ c ∈ rest, P c) →
      ∀ c ∈ compressLoopWith f δ total cum cur rest, P c
  | [], _, cur, hcur, _ => by simp [compressLoopWith]; exact hcur
  | c :: rest, cum, cur, hcur, hrest => by
    have hc := hrest c (by simp)
    have hr : ∀ x ∈ rest, P x := fun x hx => hrest x (by simp [hx])
    unfold compressLoopWith
    split
    · exact compressLoop_all f δ total hmerge rest cum _ (hmerge cur c hcur hc) hr
    · intro x hx
      simp only [List.mem_cons] at hx
      rcases hx with rfl | hx
      · exact hcur
      · exact compressLoop_all f δ total hmerge rest _ c hc hr x hx

theorem compressLoop_wsum (f : Centroid Rat → Centroid Rat → Rat → Rat) (δ total : Rat) :
    ∀ (rest : List (Centroid Rat)) (cum : Rat) (cur : Centroid Rat),
      wsum (compressLoopWith f δ total cum cur rest) = cur.weight + wsum rest
  | [], _, cur => by simp [compressLoopWith]
  | c :: rest, cum, cur => by
    unfold compressLoopWith
    split
    · rw [compressLoop_wsum f δ total rest]; simp [mergeCentroid]; grind
    · simp [compressLoop_wsum f δ total rest]

theorem compressLoop_ne_nil (f : Centroid Rat → Centroid Rat → Rat → Rat) (δ total : Rat) :
    ∀ (rest : List (Centroid Rat)) (cum : Rat) (cur : Centroid Rat),
      compressLoopWith f δ total cum cur rest ≠ []
  | [], _, cur => by simp [compressLoopWith]
  | c :: rest, cum, cur => by
    unfold compressLoopWith
    split
    · exact compressLoop_ne_nil f δ total rest _ _
    · simp

/-- the first centroid is never merged (q0 = 0 ⇒ k-limit 1 < 2 ≤ proposed weight): two or more
    centroids stay two or more -/
theorem fits_first_false (δ total : Rat) (cur c : Centroid Rat) (h1 : 1 ≤ cur.weight) (h2 : 1 ≤ c.weight) :
    fits δ total 0 cur c = false := by
  have hk : kSize δ (0 / total) = 1 := by
    have : (0 : Rat) / total = 0 := by grind
    rw [this]; exact kSize_zero δ
  have := kSize_ge_one δ ((0 + (cur.weight + c.weight)) / total)
  simp only [fits, hk, rat_fmin, decide_eq_false_iff_not]
  grind

theorem compressLoop_length_two (f : Centroid Rat → Centroid Rat → Rat → Rat) (δ total : Rat) (cur c : Centroid Rat)
    (rest : List (Centroid Rat)) (h1 : 1 ≤ cur.weight) (h2 : 1 ≤ c.weight) :
    2 ≤ (compressLoopWith f δ total 0 cur (c :: rest)).length := by
  unfold compressLoopWith
  rw [fits_first_false δ total cur c h1 h2]
  have := compressLoop_ne_nil f δ total rest (0 + cur.weight) c
  simp only [Bool.false_eq_true, ↓reduceIte, List.length_cons]
  cases h : compressLoopWith f δ total (0 + cur.weight) c rest with
  | nil => exact absurd h this
  | cons _ _ => simp

/-! ## `add` inserts in order of mean -/

theorem insertRev_perm (c : Centroid Rat) : ∀ l : List (Centroid Rat), (insertRev c l).Perm (c :: l)
  | [] => by simp [insertRev]
  | x :: xs => by
    unfold insertRev
    split
    · exact List.Perm.refl _
    · exact ((insertRev_perm c xs).cons x).trans (List.Perm.swap c x xs)

theorem insertByMean_perm (c : Centroid Rat) (l : List (Centroid Rat)) : (insertByMean c l).Perm (c :: l) := by
  unfold insertByMean
  exact (List.reverse_perm _).trans ((insertRev_perm c l.reverse).trans ((List.reverse_perm l).cons c))

/-! ## the invariant -/

/-- what every reachable digest satisfies (exact arithmetic): the total is the sum of the centroid weights, every
    weight is positive (`add_weighted` admits nothing else), every mean lies in `[min, max]` -/
structure TDInv (d : TDigest Rat) : Prop where
  total_eq : d.total = wsum d.centroids
  empty : d.centroids = [] → d.min = none ∧ d.max = none
  range : d.centroids ≠ [] → ∃ mn mx, d.min = some mn ∧ d.max = some mx ∧ mn ≤ mx ∧
      (∀ c ∈ d.centroids, COk mn mx c)

theorem COk.mono {mn mx mn' mx' : Rat} {c : Centroid Rat} (h : COk mn mx c) (h1 : mn' ≤ mn) (h2 : mx ≤ mx') :
    COk mn' mx' c := by
  unfold COk at *; grind

theorem new_inv (δ : Rat) : TDInv (TDigest.new δ) := by
  constructor <;> simp [TDigest.new]

theorem mergeSort_mem {c : Centroid Rat} {l : List (Centroid Rat)} :
    c ∈ l.mergeSort meanLe ↔ c ∈ l := (List.mergeSort_perm l meanLe).mem_iff

theorem compress_inv {d : TDigest Rat} (h : TDInv d) : TDInv d.compress := by
  unfold TDigest.compress
  have hp := List.mergeSort_perm d.centroids meanLe
  split
  · exact h
  · rename_i c rest hs
    have hne : d.centroids ≠ [] := by
      intro h0; rw [h0] at hs; simp at hs
    obtain ⟨mn, mx, hmn, hmx, hle, hall⟩ := h.range hne
    have hall' : ∀ x ∈ c :: rest, COk mn mx x := fun x hx => hall x (by rw [← hs] at hx; exact mergeSort_mem.mp hx)
    refine ⟨?_, ?_, ?_⟩
    · simp only
      rw [compressLoop_wsum, h.total_eq, ← wsum_perm hp, hs]; rfl
    · intro h0; exact absurd h0 (compressLoop_ne_nil _ _ _ _ _ _)
    · intro _
      refine ⟨mn, mx, hmn, hmx, hle, ?_⟩
      apply compressLoop_all (P := COk mn mx)
      · intro cur x hcur hx
        have hb := boundBetween_mem (cur := cur) (c := x) (m := (mergeCentroid cur x).mean) hcur.2.1 hx.2.1 hx.2.2
        refine ⟨?_, hb.1, hb.2⟩
        show 0 < cur.weight + x.weight
        have := hcur.1; have := hx.1; grind
      · exact hall' c (by simp)
      · exact fun x hx => hall' x (by simp [hx])

/-! ## `add_weighted` / `add` -/

theorem rat_weightOk_pos {w : Rat} (h : 0 < w) : weightOk w = true := by
  have : ¬ w ≤ 0 := by grind
  simp [weightOk, this]

theorem rat_weightOk_nonpos {w : Rat} (h : w ≤ 0) : weightOk w = false := by
  simp [weightOk, h]

/-- `add_weighted` before its optional `compress` -/
def addPreW (d : TDigest Rat) (x w : Rat) : TDigest Rat :=
  { d with min := ominV d.min x, max := omaxV d.max x,
           centroids := insertByMean ⟨x, w⟩ d.centroids, total := d.total + w }

/-- `add` before its optional `compress` -/
def addPre (d : TDigest Rat) (x : Rat) : TDigest Rat := addPreW d x 1

theorem addWeighted_eq (d : TDigest Rat) (x w : Rat) (hw : 0 < w) :
    d.addWeighted x w =
      if ((addPreW d x w).centroids.length : Rat) > d.compression * 2 then (addPreW d x w).compress else addPreW d x w := by
  unfold TDigest.addWeighted addPreW
  simp only [rat_isFinite, rat_weightOk_pos hw, Bool.not_true, Bool.or_self, Bool.false_eq_true, ↓reduceIte, rat_ofNat,
    rat_two]

/-- a weight that is not positive is not an input: the call changes nothing -/
theorem addWeighted_ignored (d : TDigest Rat) (x w : Rat) (hw : w ≤ 0) : d.addWeighted x w = d := by
  simp [TDigest.addWeighted, rat_weightOk_nonpos hw]

theorem add_eq_addWeighted (d : TDigest Rat) (x : Rat) : d.add x = d.addWeighted x 1 := rfl

theorem add_eq (d : TDigest Rat) (x : Rat) :
    d.add x = if ((addPre d x).centroids.length : Rat) > d.compression * 2 then (addPre d x).compress else addPre d x :=
  addWeighted_eq d x 1 (by grind)

theorem addPreW_inv {d : TDigest Rat} (h : TDInv d) (x w : Rat) (hw : 0 < w) : TDInv (addPreW d x w) := by
  unfold addPreW
  have hperm := insertByMean_perm (⟨x, w⟩ : Centroid Rat) d.centroids
  refine ⟨?_, ?_, ?_⟩
  · simp only [wsum_perm hperm, h.total_eq, wsum_cons]; grind
  · intro h0; have := hperm.length_eq; simp only at h0; rw [h0] at this; simp at this
  · intro _
    by_cases hc : d.centroids = []
    · obtain ⟨hmn, hmx⟩ := h.empty hc
      refine ⟨x, x, by simp [hmn, ominV], by simp [hmx, omaxV], Rat.le_refl, ?_⟩
      intro c hcm
      simp only at hcm
      rw [hperm.mem_iff] at hcm
      simp only [hc, List.mem_singleton] at hcm
      subst hcm; simp only [COk]; grind
    · obtain ⟨mn, mx, hmn, hmx, hle, hall⟩ := h.range hc
      refine ⟨if mn ≤ x then mn else x, if mx ≤ x then x else mx, by simp [hmn, ominV], by simp [hmx, omaxV],
        by grind, ?_⟩
      intro c hcm
      simp only [hperm.mem_iff, List.mem_cons] at hcm
      rcases hcm with rfl | hcm
      · simp only [COk]; grind
      · exact (hall c hcm).mono (by grind) (by grind)

theorem addPre_inv {d : TDigest Rat} (h : TDInv d) (x : Rat) : TDInv (addPre d x) := addPreW_inv h x 1 (by grind)

theorem addWeighted_inv {d : TDigest Rat} (h : TDInv d) (x w : Rat) : TDInv (d.addWeighted x w) := by
  by_cases hw : 0 < w
  · rw [addWeighted_eq d x w hw]
    split
    · exact compress_inv (addPreW_inv h x w hw)
    · exact addPreW_inv h x w hw
  · rw [addWeighted_ignored d x w (by grind)]; exact h

theorem add_inv {d : TDigest Rat} (h : TDInv d) (x : Rat) : TDInv (d.add x) := addWeighted_inv h x 1

theorem centroids_ne_nil_of_total {d : TDigest Rat} (h : TDInv d) (ht : d.total ≠ 0) : d.centroids ≠ [] := by
  intro h0; apply ht; rw [h.total_eq, h0]; rfl

/-- `merge` before its `compress` -/
def mergePre (d o : TDigest Rat) : TDigest Rat :=
  { d with min := ominO d.min o.min, max := omaxO d.max o.max,
           centroids := d.centroids ++ o.centroids, total := d.total + o.total }

theorem merge_eq (d o : TDigest Rat) : d.merge o = if o.total == 0 then d else (mergePre d o).compress := by
  unfold TDigest.merge mergePre; simp only [rat_zero]

theorem mergePre_inv {d o : TDigest Rat} (h : TDInv d) (ho : TDInv o) (hz' : o.total ≠ 0) : TDInv (mergePre d o) := by
  unfold mergePre
  have hone := centroids_ne_nil_of_total ho hz'
  obtain ⟨omn, omx, homn, homx, hole, hoall⟩ := ho.range hone
  refine ⟨?_, ?_, ?_⟩
  · simp only [wsum_append, h.total_eq, ho.total_eq]
  · intro h0; simp only [List.append_eq_nil_iff] at h0; exact absurd h0.2 hone
  · intro _
    by_cases hc : d.centroids = []
    · obtain ⟨hmn, hmx⟩ := h.empty hc
      refine ⟨omn, omx, by simp [hmn, homn, ominO], by simp [hmx, homx, omaxO], hole, ?_⟩
      intro c hcm; simp only [hc, List.nil_append] at hcm; exact hoall c hcm
    · obtain ⟨mn, mx, hmn, hmx, hle, hall⟩ := h.range hc
      refine ⟨if mn ≤ omn then mn else omn, if mx ≤ omx then omx else mx,
        by simp [hmn, homn, ominO], by simp [hmx, homx, omaxO], by grind, ?_⟩
      intro c hcm
      simp only [List.mem_append] at hcm
      rcases hcm with hcm | hcm
      · exact (hall c hcm).mono (by grind) (by grind)
      · exact (hoall c hcm).mono (by grind) (by grind)

theorem merge_inv {d o : TDigest Rat} (h : TDInv d) (ho : TDInv o) : TDInv (d.merge o) := by
  rw [merge_eq]
  split
  · exact h
  · rename_i hz
    exact compress_inv (mergePre_inv h ho (by simpa using hz))

/-! ## `quantile` -/

theorem div_mem_unit {a b : Rat} (hb : 0 < b) (h0 : 0 ≤ a) (h1 : a ≤ b) : 0 ≤ a / b ∧ a / b ≤ 1 := by
  have e : a / b * b = a := by grind
  constructor
  · false_or_by_contra
    have : 0 < (-(a / b)) * b := Rat.mul_pos (by grind) hb
    grind
  · false_or_by_contra
    have : 0 < (a / b - 1) * b := Rat.mul_pos (by grind) hb
    grind

/-- a convex combination stays between its end points -/
theorem interp_mem {l r f lo hi : Rat} (hf0 : 0 ≤ f) (hf1 : f ≤ 1) (hl : lo ≤ l ∧ l ≤ hi) (hr : lo ≤ r ∧ r ≤ hi) :
    lo ≤ l + f * (r - l) ∧ l + f * (r - l) ≤ hi := by
  by_cases h : l ≤ r
  · have h1 : 0 ≤ f * (r - l) := Rat.mul_nonneg hf0 (by grind)
    have h2 : 0 ≤ (1 - f) * (r - l) := Rat.mul_nonneg (by grind) (by grind)
    grind
  · have h1 : 0 ≤ f * (l - r) := Rat.mul_nonneg hf0 (by grind)
    have h2 : 0 ≤ (1 - f) * (l - r) := Rat.mul_nonneg (by grind) (by grind)
    grind

/-- the loop of the current code: every exit is inside `[mn, mx]` as soon as `post` maps into it -/
theorem quantileLoop_mem (post : Rat → Rat) (mn mx target : Rat) (hle : mn ≤ mx)
    (hpost : ∀ v, mn ≤ post v ∧ post v ≤ mx) :
    ∀ (cs : List (Centroid Rat)) (left cum : Rat), (∀ c ∈ cs, COk mn mx c) →
      mn ≤ quantileLoopWith post mx target left cum cs ∧ quantileLoopWith post mx target left cum cs ≤ mx
  | [], _, _, _ => by simp [quantileLoopWith]; exact hle
  | c :: rest, left, cum, hall => by
    have hc := hall c (by simp)
    unfold quantileLoopWith
    simp only
    split
    · split
      · exact ⟨hc.2.1, hc.2.2⟩
      · exact hpost _
    · exact quantileLoop_mem post mn mx target hle hpost rest _ _ (fun x hx => hall x (by simp [hx]))

/-- the loop of the code before the fix (no clamp): in exact arithmetic the interpolation is a convex
    combination of two values of `[mn, mx]` -/
theorem legacy_quantileLoop_mem (mn mx target : Rat) (hle : mn ≤ mx) :
    ∀ (cs : List (Centroid Rat)) (left cum : Rat), (∀ c ∈ cs, COk mn mx c) → mn ≤ left → left ≤ mx → cum < target →
      mn ≤ quantileLoopWith id mx target left cum cs ∧ quantileLoopWith id mx target left cum cs ≤ mx
  | [], _, _, _, _, _, _ => by simp [quantileLoopWith]; exact hle
  | c :: rest, left, cum, hall, hl1, hl2, hcum => by
    have hc := hall c (by simp)
    unfold quantileLoopWith
    simp only
    split
    · rename_i hge
      split
      · exact ⟨hc.2.1, hc.2.2⟩
      · have hw : 0 < c.weight := by have := hc.1; grind
        have hf := div_mem_unit (a := target - cum) hw (by grind) (by grind)
        cases rest with
        | nil => exact interp_mem hf.1 hf.2 ⟨hl1, hl2⟩ ⟨hle, Rat.le_refl⟩
        | cons r rs =>
          have := hall r (by simp)
          exact interp_mem hf.1 hf.2 ⟨hl1, hl2⟩ ⟨this.2.1, this.2.2⟩
    · rename_i hlt
      exact legacy_quantileLoop_mem mn mx target hle rest _ _ (fun x hx => hall x (by simp [hx])) hc.2.1 hc.2.2 (by grind)

/-- … hence the clamp of the current code never fires in exact arithmetic -/
theorem quantileLoop_eq_legacy (mn mx target : Rat) (hle : mn ≤ mx) :
    ∀ (cs : List (Centroid Rat)) (left cum : Rat), (∀ c ∈ cs, COk mn mx c) → mn ≤ left → left ≤ mx → cum < target →
      quantileLoopWith (fun x => clamp x mn mx) mx target left cum cs = quantileLoopWith id mx target left cum cs
  | [], _, _, _, _, _, _ => by simp [quantileLoopWith]
  | c :: rest, left, cum, hall, hl1, hl2, hcum => by
    have hc := hall c (by simp)
    have hleg := legacy_quantileLoop_mem mn mx target hle (c :: rest) left cum hall hl1 hl2 hcum
    unfold quantileLoopWith at hleg ⊢
    simp only at hleg ⊢
    split
    · rename_i hge
      simp only [hge, ↓reduceIte] at hleg
      split
      · rfl
      · rename_i hne
        simp only [hne, ↓reduceIte, id] at hleg
        exact clamp_id hleg.1 hleg.2
    · exact quantileLoop_eq_legacy mn mx target hle rest _ _ (fun x hx => hall x (by simp [hx])) hc.2.1 hc.2.2 (by grind)

theorem clamp01_of_nonpos {q : Rat} (h : q ≤ 0) : clamp q 0 1 = 0 := by unfold clamp; grind
theorem clamp01_of_one_le {q : Rat} (h : 1 ≤ q) : clamp q 0 1 = 1 := by unfold clamp; grind
theorem clamp01_mem (q : Rat) : 0 ≤ clamp q 0 1 ∧ clamp q 0 1 ≤ 1 := clamp_mem (by grind)

theorem quantileCore_mem (post : Rat → Rat) (total mn mx q : Rat) (cs : List (Centroid Rat)) (hle : mn ≤ mx)
    (hpost : ∀ v, mn ≤ post v ∧ post v ≤ mx) (hall : ∀ c ∈ cs, COk mn mx c) :
    mn ≤ quantileCoreWith post total cs mn mx q ∧ quantileCoreWith post total cs mn mx q ≤ mx := by
  unfold quantileCoreWith
  simp only
  split
  · exact ⟨Rat.le_refl, hle⟩
  · split
    · exact ⟨hle, Rat.le_refl⟩
    · split
      · exact ⟨Rat.le_refl, hle⟩
      · exact quantileLoop_mem post mn mx _ hle hpost cs _ _ hall

theorem quantileCore_zero (post : Rat → Rat) (total mn mx q : Rat) (cs : List (Centroid Rat)) (hq : q ≤ 0) :
    quantileCoreWith post total cs mn mx q = mn := by
  unfold quantileCoreWith
  simp only [rat_zero, rat_one, clamp01_of_nonpos hq, rat_abs, rat_eps]
  have : ((if (0:Rat) ≤ 0 - 0 then (0:Rat) - 0 else -(0 - 0)) ≤ 1 / 4503599627370496) := by grind
  simp [this]

/-- `q ≥ 1` answers `max` — whatever the number of centroids (the end-point tests precede the single-centroid
    short cut) -/
theorem quantileCore_one (post : Rat → Rat) (total mn mx q : Rat) (cs : List (Centroid Rat)) (hq : 1 ≤ q) :
    quantileCoreWith post total cs mn mx q = mx := by
  unfold quantileCoreWith
  simp only [rat_zero, rat_one, clamp01_of_one_le hq, rat_abs, rat_eps]
  have h0 : ¬ ((if (0:Rat) ≤ 1 - 0 then (1:Rat) - 0 else -(1 - 0)) ≤ 1 / 4503599627370496) := by grind
  have h1 : ((if (0:Rat) ≤ 1 - 1 then (1:Rat) - 1 else -(1 - 1)) ≤ 1 / 4503599627370496) := by grind
  simp [h0, h1]

/-! ## digests built from inputs: `total`, `min`, `max` are those of the inputs -/

def IsMin (m : Rat) (xs : List Rat) : Prop := m ∈ xs ∧ ∀ x ∈ xs, m ≤ x
def IsMax (m : Rat) (xs : List Rat) : Prop := m ∈ xs ∧ ∀ x ∈ xs, x ≤ m

/-- `d` summarises exactly the inputs `xs` (the values that were offered with a positive weight): its range is
    theirs, and its total weight is positive iff there is one (the exact total: `eval_total`) -/
structure Summary (d : TDigest Rat) (xs : List Rat) : Prop where
  total_zero : xs = [] → d.total = 0
  total_pos : xs ≠ [] → 0 < d.total
  empty : xs = [] → d.min = none ∧ d.max = none
  range : xs ≠ [] → ∃ mn mx, d.min = some mn ∧ d.max = some mx ∧ IsMin mn xs ∧ IsMax mx xs

theorem Summary.total_nonneg {d : TDigest Rat} {xs : List Rat} (h : Summary d xs) : 0 ≤ d.total := by
  by_cases hx : xs = []
  · rw [h.total_zero hx]; exact Rat.le_refl
  · have := h.total_pos hx; grind

theorem compress_total (d : TDigest Rat) : d.compress.total = d.total := by
  unfold TDigest.compress; split <;> rfl
theorem compress_min (d : TDigest Rat) : d.compress.min = d.min := by
  unfold TDigest.compress; split <;> rfl
theorem compress_max (d : TDigest Rat) : d.compress.max = d.max := by
  unfold TDigest.compress; split <;> rfl
theorem compress_compression (d : TDigest Rat) : d.compress.compression = d.compression := by
  unfold TDigest.compress; split <;> rfl

theorem compress_summary {d : TDigest Rat} {xs : List Rat} (h : Summary d xs) : Summary d.compress xs := by
  refine ⟨?_, ?_, ?_, ?_⟩
  · rw [compress_total]; exact h.total_zero
  · rw [compress_total]; exact h.total_pos
  · rw [compress_min, compress_max]; exact h.empty
  · rw [compress_min, compress_max]; exact h.range

theorem new_summary (δ : Rat) : Summary (TDigest.new δ) [] := by
  refine ⟨?_, ?_, ?_, ?_⟩ <;> simp [TDigest.new]

theorem natCast_succ (n : Nat) : ((n + 1 : Nat) : Rat) = (n : Rat) + 1 := by grind

theorem addWeighted_summary {d : TDigest Rat} {xs : List Rat} (h : Summary d xs) (x w : Rat) (hw : 0 < w) :
    Summary (d.addWeighted x w) (xs ++ [x]) := by
  rw [addWeighted_eq d x w hw]
  have h1 : Summary (addPreW d x w) (xs ++ [x]) := by
    unfold addPreW
    refine ⟨?_, ?_, ?_, ?_⟩
    · intro h0; simp at h0
    · intro _; have := h.total_nonneg; simp only; grind
    · intro h0; simp at h0
    · intro _
      by_cases hx : xs = []
      · obtain ⟨hmn, hmx⟩ := h.empty hx
        refine ⟨x, x, by simp [hmn, ominV], by simp [hmx, omaxV], ?_, ?_⟩ <;> simp [IsMin, IsMax, hx] <;> exact Rat.le_refl
      · obtain ⟨mn, mx, hmn, hmx, hmin, hmax⟩ := h.range hx
        refine ⟨if mn ≤ x then mn else x, if mx ≤ x then x else mx, by simp [hmn, ominV], by simp [hmx, omaxV], ?_, ?_⟩
        · unfold IsMin at *
          refine ⟨by simp only [List.mem_append, List.mem_singleton]; grind, ?_⟩
          intro y hy
          simp only [List.mem_append, List.mem_singleton] at hy
          rcases hy with hy | rfl
          · have := hmin.2 y hy; grind
          · grind
        · unfold IsMax at *
          refine ⟨by simp only [List.mem_append, List.mem_singleton]; grind, ?_⟩
          intro y hy
          simp only [List.mem_append, List.mem_singleton] at hy
          rcases hy with hy | rfl
          · have := hmax.2 y hy; grind
          · grind
  split
  · exact compress_summary h1
  · exact h1

theorem add_summary {d : TDigest Rat} {xs : List Rat} (h : Summary d xs) (x : Rat) :
    Summary (d.add x) (xs ++ [x]) := addWeighted_summary h x 1 (by grind)

theorem merge_summary {d o : TDigest Rat} {xs ys : List Rat} (h : Summary d xs) (ho : Summary o ys) :
    Summary (d.merge o) (xs ++ ys) := by
  unfold TDigest.merge
  split
  · rename_i hz
    have hz' : o.total = 0 := by simpa using hz
    have : ys = [] := by
      false_or_by_contra
      rename_i hne
      have := ho.total_pos hne
      grind
    simpa [this] using h
  · rename_i hz
    have hz' : o.total ≠ 0 := by simpa using hz
    have hys : ys ≠ [] := fun h0 => hz' (ho.total_zero h0)
    obtain ⟨omn, omx, homn, homx, homin, homax⟩ := ho.range hys
    apply compress_summary
    refine ⟨?_, ?_, ?_, ?_⟩
    · intro h0; simp only [List.append_eq_nil_iff] at h0; exact absurd h0.2 hys
    · intro _; have := h.total_nonneg; have := ho.total_pos hys; simp only; grind
    · intro h0; simp only [List.append_eq_nil_iff] at h0; exact absurd h0.2 hys
    · intro _
      by_cases hx : xs = []
      · obtain ⟨hmn, hmx⟩ := h.empty hx
        exact ⟨omn, omx, by simp [hmn, homn, ominO], by simp [hmx, homx, omaxO], by simpa [hx] using homin, by simpa [hx] using homax⟩
      · obtain ⟨mn, mx, hmn, hmx, hmin, hmax⟩ := h.range hx
        refine ⟨if mn ≤ omn then mn else omn, if mx ≤ omx then omx else mx,
          by simp [hmn, homn, ominO], by simp [hmx, homx, omaxO], ?_, ?_⟩
        · unfold IsMin at *
          refine ⟨by simp only [List.mem_append]; grind, ?_⟩
          intro y hy
          simp only [List.mem_append] at hy
          rcases hy with hy | hy
          · have := hmin.2 y hy; grind
          · have := homin.2 y hy; grind
        · unfold IsMax at *
          refine ⟨by simp only [List.mem_append]; grind, ?_⟩
          intro y hy
          simp only [List.mem_append] at hy
          rcases hy with hy | hy
          · have := hmax.2 y hy; grind
          · have := homax.2 y hy; grind

theorem foldl_add_sound (xs : List Rat) : ∀ (d : TDigest Rat) (ys : List Rat), TDInv d → Summary d ys →
    TDInv (xs.foldl TDigest.add d) ∧ Summary (xs.foldl TDigest.add d) (ys ++ xs) := by
  induction xs with
  | nil => intro d ys h1 h2; simpa using ⟨h1, h2⟩
  | cons x xs ih =>
    intro d ys h1 h2
    have := ih (d.add x) (ys ++ [x]) (add_inv h1 x) (add_summary h2 x)
    simpa using this

theorem foldAdd_sound (δ : Rat) (xs : List Rat) : TDInv (foldAdd δ xs) ∧ Summary (foldAdd δ xs) xs := by
  have := foldl_add_sound xs (TDigest.new δ) [] (new_inv δ) (new_summary δ)
  simpa [foldAdd] using this

/-- `add_weighted` over a list of (value, weight) pairs: the pairs with a non-positive weight are no inputs -/
theorem foldlW_sound (ps : List (Rat × Rat)) : ∀ (d : TDigest Rat) (ys : List Rat), TDInv d → Summary d ys →
    TDInv (ps.foldl (fun d p => d.addWeighted p.1 p.2) d) ∧
      Summary (ps.foldl (fun d p => d.addWeighted p.1 p.2) d) (ys ++ (ps.filter (fun p => weightOk p.2)).map Prod.fst) := by
  induction ps with
  | nil => intro d ys h1 h2; simpa using ⟨h1, h2⟩
  | cons p ps ih =>
    intro d ys h1 h2
    by_cases hw : 0 < p.2
    · have := ih (d.addWeighted p.1 p.2) (ys ++ [p.1]) (addWeighted_inv h1 _ _) (addWeighted_summary h2 _ _ hw)
      simpa [List.filter, rat_weightOk_pos hw] using this
    · have hw' : p.2 ≤ 0 := by grind
      have := ih d ys h1 h2
      simpa [List.filter, rat_weightOk_nonpos hw', addWeighted_ignored d p.1 p.2 hw'] using this

theorem foldAddW_sound (δ : Rat) (ps : List (Rat × Rat)) :
    TDInv (foldAddW δ ps) ∧ Summary (foldAddW δ ps) ((ps.filter (fun p => weightOk p.2)).map Prod.fst) := by
  have := foldlW_sound ps (TDigest.new δ) [] (new_inv δ) (new_summary δ)
  simpa [foldAddW] using this

theorem eval_sound (δ : Rat) : ∀ t : MTree Rat, TDInv (t.eval δ) ∧ Summary (t.eval δ) t.leaves
  | .leaf xs => foldAdd_sound δ xs
  | .built xs => ⟨compress_inv (foldAdd_sound δ xs).1, compress_summary (foldAdd_sound δ xs).2⟩
  | .wleaf ps => foldAddW_sound δ ps
  | .node l r => ⟨merge_inv (eval_sound δ l).1 (eval_sound δ r).1, merge_summary (eval_sound δ l).2 (eval_sound δ r).2⟩

/-- no centroid ⇔ no input -/
theorem centroids_nil_iff {d : TDigest Rat} {xs : List Rat} (h : TDInv d) (hs : Summary d xs) :
    d.centroids = [] ↔ xs = [] := by
  constructor
  · intro h0
    false_or_by_contra
    rename_i hne
    have h1 := hs.total_pos hne
    rw [h.total_eq, h0] at h1
    simp at h1
  · intro h0
    false_or_by_contra
    rename_i hne
    obtain ⟨mn, mx, _, _, _, hall⟩ := h.range hne
    have h1 := wsum_pos_of_ok hne hall
    have : d.total = 0 := hs.total_zero h0
    rw [h.total_eq] at this
    grind

/-! ## the total weight is the sum of the admitted weights (one per element-wise input) -/

/-- sum of the weights of a list of (value, weight) pairs -/
def wsumP : List (Rat × Rat) → Rat
  | [] => 0
  | p :: ps => p.2 + wsumP ps

/-- the weight a merge tree was fed with: 1 per element-wise input, the admitted weights of an `add_weighted` leaf -/
def MTree.weight : MTree Rat → Rat
  | .leaf xs => (xs.length : Rat)
  | .built xs => (xs.length : Rat)
  | .wleaf ps => wsumP (ps.filter (fun p => weightOk p.2))
  | .node l r => l.weight + r.weight

theorem addWeighted_total (d : TDigest Rat) (x w : Rat) (hw : 0 < w) : (d.addWeighted x w).total = d.total + w := by
  rw [addWeighted_eq d x w hw]
  split
  · rw [compress_total]; rfl
  · rfl

theorem merge_total (d o : TDigest Rat) : (d.merge o).total = d.total + o.total := by
  unfold TDigest.merge
  split
  · rename_i hz
    have hz' : o.total = 0 := by simpa using hz
    rw [hz']; grind
  · rw [compress_total]

theorem foldlW_total (ps : List (Rat × Rat)) : ∀ d : TDigest Rat,
    (ps.foldl (fun d p => d.addWeighted p.1 p.2) d).total = d.total + wsumP (ps.filter (fun p => weightOk p.2)) := by
  induction ps with
  | nil => intro d; simp [wsumP]; grind
  | cons p ps ih =>
    intro d
    by_cases hw : 0 < p.2
    · simp only [List.foldl, List.filter, rat_weightOk_pos hw, wsumP]
      rw [ih, addWeighted_total d p.1 p.2 hw]; grind
    · have hw' : p.2 ≤ 0 := by grind
      simp only [List.foldl, List.filter, rat_weightOk_nonpos hw', addWeighted_ignored d p.1 p.2 hw']
      exact ih d

theorem foldl_add_total (xs : List Rat) : ∀ d : TDigest Rat,
    (xs.foldl TDigest.add d).total = d.total + (xs.length : Rat) := by
  induction xs with
  | nil => intro d; simp; grind
  | cons x xs ih =>
    intro d
    simp only [List.foldl, List.length_cons, natCast_succ]
    rw [ih, add_eq_addWeighted, addWeighted_total d x 1 (by grind)]; grind

theorem eval_total (δ : Rat) : ∀ t : MTree Rat, (t.eval δ).total = t.weight
  | .leaf xs => by
    simp only [MTree.eval, foldAdd, MTree.weight, foldl_add_total, TDigest.new, rat_zero]; grind
  | .built xs => by
    simp only [MTree.eval, buildFromGroup, compress_total, foldAdd, MTree.weight, foldl_add_total, TDigest.new, rat_zero]; grind
  | .wleaf ps => by
    simp only [MTree.eval, foldAddW, MTree.weight, foldlW_total, TDigest.new, rat_zero]; grind
  | .node l r => by
    simp only [MTree.eval, MTree.weight, merge_total, eval_total δ l, eval_total δ r]

/-- everything `quantile` needs to know about a digest that summarises the non-empty input `xs` -/
theorem digest_facts {d : TDigest Rat} {xs : List Rat} (h : TDInv d) (hs : Summary d xs) (hne : xs ≠ []) :
    ∃ mn mx c cs, d.min = some mn ∧ d.max = some mx ∧ d.centroids = c :: cs ∧ IsMin mn xs ∧ IsMax mx xs ∧ mn ≤ mx ∧
      (∀ x ∈ c :: cs, COk mn mx x) := by
  have hcn : d.centroids ≠ [] := fun h0 => hne ((centroids_nil_iff h hs).mp h0)
  obtain ⟨mn, mx, hmn, hmx, hle, hall⟩ := h.range hcn
  obtain ⟨mn', mx', hmn', hmx', hmin, hmax⟩ := hs.range hne
  have e1 : mn' = mn := by rw [hmn] at hmn'; exact (Option.some.inj hmn').symm
  have e2 : mx' = mx := by rw [hmx] at hmx'; exact (Option.some.inj hmx').symm
  subst e1 e2
  cases hc : d.centroids with
  | nil => exact absurd hc hcn
  | cons c cs => exact ⟨mn', mx', c, cs, hmn, hmx, rfl, hmin, hmax, hle, by rw [← hc]; exact hall⟩

theorem quantile_eq {d : TDigest Rat} {c : Centroid Rat} {cs : List (Centroid Rat)} {mn mx : Rat}
    (hc : d.centroids = c :: cs) (hmn : d.min = some mn) (hmx : d.max = some mx) (q : Rat) :
    d.quantile q = some (quantileCoreWith (fun x => clamp x mn mx) d.total (c :: cs) mn mx q) := by
  unfold TDigest.quantile; simp only [hc, hmn, hmx]

theorem legacy_quantile_eq {d : TDigest Rat} {c : Centroid Rat} {cs : List (Centroid Rat)} {mn mx : Rat}
    (hc : d.centroids = c :: cs) (hmn : d.min = some mn) (hmx : d.max = some mx) (q : Rat) :
    Legacy.quantile d q = some (Legacy.quantileCoreWith id d.total (c :: cs) mn mx q) := by
  unfold Legacy.quantile; simp only [hc, hmn, hmx]

theorem legacy_quantileShortcutFirst_eq {d : TDigest Rat} {c : Centroid Rat} {cs : List (Centroid Rat)} {mn mx : Rat}
    (hc : d.centroids = c :: cs) (hmn : d.min = some mn) (hmx : d.max = some mx) (q : Rat) :
    Legacy.quantileShortcutFirst d q = some (Legacy.quantileCoreWith (fun x => clamp x mn mx) d.total (c :: cs) mn mx q) := by
  unfold Legacy.quantileShortcutFirst; simp only [hc, hmn, hmx]

theorem quantileNoClamp_eq {d : TDigest Rat} {c : Centroid Rat} {cs : List (Centroid Rat)} {mn mx : Rat}
    (hc : d.centroids = c :: cs) (hmn : d.min = some mn) (hmx : d.max = some mx) (q : Rat) :
    d.quantileNoClamp q = some (quantileCoreWith id d.total (c :: cs) mn mx q) := by
  unfold TDigest.quantileNoClamp; simp only [hc, hmn, hmx]

theorem quantile_nil {d : TDigest Rat} (hc : d.centroids = []) (q : Rat) : d.quantile q = none := by
  unfold TDigest.quantile; simp only [hc]

/-! ## `compress` leaves the centroids sorted by mean -/

theorem le_of_mul_le_mul_right {a b w : Rat} (hw : 0 < w) (h : a * w ≤ b * w) : a ≤ b := by
  false_or_by_contra
  have : 0 < (a - b) * w := Rat.mul_pos (by grind) hw
  grind

/-- a weighted mean of two values lies between them -/
theorem wmean_between {m1 m2 w1 w2 : Rat} (hm : m1 ≤ m2) (h1 : 0 < w1) (h2 : 0 < w2) :
    m1 ≤ (m1 * w1 + m2 * w2) / (w1 + w2) ∧ (m1 * w1 + m2 * w2) / (w1 + w2) ≤ m2 := by
  have hW : 0 < w1 + w2 := by grind
  have e : (m1 * w1 + m2 * w2) / (w1 + w2) * (w1 + w2) = m1 * w1 + m2 * w2 := by grind
  have p1 : 0 ≤ (m2 - m1) * w2 := Rat.mul_nonneg (by grind) (by grind)
  have p2 : 0 ≤ (m2 - m1) * w1 := Rat.mul_nonneg (by grind) (by grind)
  constructor
  · apply le_of_mul_le_mul_right hW; rw [e]; grind
  · apply le_of_mul_le_mul_right hW; rw [e]; grind

def SortedC (l : List (Centroid Rat)) : Prop := l.Pairwise (fun a b => a.mean ≤ b.mean)

theorem compressLoop_sorted (δ total mn mx : Rat) :
    ∀ (rest : List (Centroid Rat)) (cum : Rat) (cur : Centroid Rat) (lo : Rat),
      (∀ c ∈ cur :: rest, COk mn mx c) → lo ≤ cur.mean → (∀ c ∈ rest, cur.mean ≤ c.mean) → SortedC rest →
      SortedC (compressLoopWith boundBetween δ total cum cur rest) ∧
        ∀ c ∈ compressLoopWith boundBetween δ total cum cur rest, lo ≤ c.mean
  | [], _, cur, lo, _, hlo, _, _ => by
    simp only [compressLoopWith, SortedC, List.pairwise_cons, List.not_mem_nil, false_imp_iff, implies_true,
      List.Pairwise.nil, and_self, List.mem_singleton, forall_eq, true_and]
    exact hlo
  | c :: rest, cum, cur, lo, hok, hlo, hge, hs => by
    have hcur := hok cur (by simp)
    have hc := hok c (by simp)
    have hs' := List.pairwise_cons.mp hs
    unfold compressLoopWith
    split
    · -- merge `c` into `cur`
      have hw := wmean_between (m1 := cur.mean) (m2 := c.mean) (w1 := cur.weight) (w2 := c.weight)
        (hge c (by simp)) (by have := hcur.1; grind) (by have := hc.1; grind)
      have hid : boundBetween cur c (mergeCentroid cur c).mean = (mergeCentroid cur c).mean := by
        apply boundBetween_id
        · simp only [mergeCentroid, rat_mulAdd]; grind
        · simp only [mergeCentroid, rat_mulAdd]; grind
      simp only [hid]
      apply compressLoop_sorted δ total mn mx rest cum _ lo
      · intro x hx
        simp only [List.mem_cons] at hx
        rcases hx with rfl | hx
        · refine ⟨?_, ?_, ?_⟩
          · simp only [mergeCentroid]; have := hcur.1; have := hc.1; grind
          · simp only [mergeCentroid, rat_mulAdd]; have := hcur.2.1; grind
          · simp only [mergeCentroid, rat_mulAdd]; have := hc.2.2; grind
        · exact hok x (by simp [hx])
      · simp only [mergeCentroid, rat_mulAdd]; grind
      · intro x hx
        have := hs'.1 x hx
        simp only [mergeCentroid, rat_mulAdd]; grind
      · exact hs'.2
    · -- push `cur`, continue with `c`
      have ih := compressLoop_sorted δ total mn mx rest (cum + cur.weight) c cur.mean
        (fun x hx => hok x (by simp only [List.mem_cons] at hx ⊢; exact Or.inr hx)) (hge c (by simp)) hs'.1 hs'.2
      refine ⟨List.pairwise_cons.mpr ⟨ih.2, ih.1⟩, ?_⟩
      intro x hx
      simp only [List.mem_cons] at hx
      rcases hx with rfl | hx
      · exact hlo
      · have := ih.2 x hx; grind

theorem meanLe_trans (a b c : Centroid Rat) : meanLe a b = true → meanLe b c = true → meanLe a c = true := by
  simp only [meanLe, Bool.not_eq_eq_eq_not, Bool.not_true, decide_eq_false_iff_not]; grind
theorem meanLe_total (a b : Centroid Rat) : (meanLe a b || meanLe b a) = true := by
  simp only [meanLe, Bool.or_eq_true, Bool.not_eq_eq_eq_not, Bool.not_true, decide_eq_false_iff_not]; grind

/-- sorted after `compress` -/
theorem compress_sorted {d : TDigest Rat} (h : TDInv d) : SortedC d.compress.centroids := by
  unfold TDigest.compress
  have hp := List.mergeSort_perm d.centroids meanLe
  have hsorted := List.pairwise_mergeSort meanLe_trans meanLe_total d.centroids
  split
  · rename_i hs
    have : d.centroids = [] := by
      have := hp.length_eq; rw [hs] at this; exact List.length_eq_zero_iff.mp this.symm
    rw [this]; exact List.Pairwise.nil
  · rename_i c rest hs
    have hne : d.centroids ≠ [] := by
      intro h0; rw [h0] at hs; simp at hs
    obtain ⟨mn, mx, hmn, hmx, hle, hall⟩ := h.range hne
    have hall' : ∀ x ∈ c :: rest, COk mn mx x := fun x hx => hall x (by rw [← hs] at hx; exact mergeSort_mem.mp hx)
    rw [hs] at hsorted
    have hs2 : SortedC (c :: rest) := by
      refine hsorted.imp ?_
      intro a b hab
      simp only [meanLe, Bool.not_eq_eq_eq_not, Bool.not_true, decide_eq_false_iff_not] at hab; grind
    have hs3 := List.pairwise_cons.mp hs2
    exact (compressLoop_sorted d.compression d.total mn mx rest zero c c.mean hall' Rat.le_refl hs3.1 hs3.2).1

/-! ## stepping lemmas (used to evaluate the non-monotonicity witness) -/

theorem quantileLoop_skip (post : Rat → Rat) (mx target left cum : Rat) (c : Centroid Rat) (rest : List (Centroid Rat))
    (h : cum + c.weight < target) :
    quantileLoopWith post mx target left cum (c :: rest) = quantileLoopWith post mx target c.mean (cum + c.weight) rest := by
  conv => lhs; unfold quantileLoopWith
  simp only; rw [if_neg (by grind)]

theorem quantileLoop_hit (post : Rat → Rat) (mx target left cum : Rat) (c r : Centroid Rat) (rest : List (Centroid Rat))
    (h : target ≤ cum + c.weight) (hw : (1:Rat) / 4503599627370496 ≤ c.weight) :
    quantileLoopWith post mx target left cum (c :: r :: rest) = post (left + (target - cum) / c.weight * (r.mean - left)) := by
  rw [quantileLoopWith]; simp only [rat_abs, rat_eps]; rw [if_pos (by grind), if_neg (by grind)]

theorem quantileCore_mid (post : Rat → Rat) (total mn mx q : Rat) (cs : List (Centroid Rat))
    (h0 : (1:Rat) / 4503599627370496 < q) (h1 : q < 1 - 1 / 4503599627370496) (hl : cs.length ≠ 1) :
    quantileCoreWith post total cs mn mx q = quantileLoopWith post mx (q * total) mn 0 cs := by
  unfold quantileCoreWith
  have : clamp q 0 1 = q := clamp_id (by grind) (by grind)
  simp only [rat_zero, rat_one, this, rat_abs, rat_eps]
  have a1 : ¬ ((if (0:Rat) ≤ q - 0 then q - 0 else -(q - 0)) ≤ 1 / 4503599627370496) := by grind
  have a2 : ¬ ((if (0:Rat) ≤ q - 1 then q - 1 else -(q - 1)) ≤ 1 / 4503599627370496) := by grind
  have a3 : ¬ ((cs.length == 1) = true) := by simpa using hl
  rw [if_neg a1, if_neg a2, if_neg a3]

/-- the same for the order of the tests before the fix (short cut first) -/
theorem legacy_quantileCore_mid (post : Rat → Rat) (total mn mx q : Rat) (cs : List (Centroid Rat))
    (h0 : (1:Rat) / 4503599627370496 < q) (h1 : q < 1 - 1 / 4503599627370496) (hl : cs.length ≠ 1) :
    Legacy.quantileCoreWith post total cs mn mx q = quantileLoopWith post mx (q * total) mn 0 cs := by
  unfold Legacy.quantileCoreWith
  have : clamp q 0 1 = q := clamp_id (by grind) (by grind)
  simp only [rat_zero, rat_one, this, rat_abs, rat_eps]
  have a1 : ¬ ((decide ((if (0:Rat) ≤ q - 0 then q - 0 else -(q - 0)) ≤ 1 / 4503599627370496) || (cs.length == 1)) = true) := by
    simp only [Bool.or_eq_true, decide_eq_true_eq, beq_iff_eq]; grind
  have a2 : ¬ ((if (0:Rat) ≤ q - 1 then q - 1 else -(q - 1)) ≤ 1 / 4503599627370496) := by grind
  rw [if_neg a1, if_neg a2]

theorem insertByMean_length (c : Centroid Rat) (l : List (Centroid Rat)) : (insertByMean c l).length = l.length + 1 := by
  rw [(insertByMean_perm c l).length_eq]; rfl

theorem addWeighted_explicit (δ tot x w : Rat) (cs : List (Centroid Rat)) (mn mx : Option Rat) (hw : 0 < w)
    (h : ¬ (((cs.length + 1 : Nat) : Rat) > δ * 2)) :
    TDigest.addWeighted ⟨δ, cs, tot, mn, mx⟩ x w = ⟨δ, insertByMean ⟨x, w⟩ cs, tot + w, ominV mn x, omaxV mx x⟩ := by
  unfold TDigest.addWeighted
  simp only [rat_isFinite, rat_weightOk_pos hw, Bool.not_true, Bool.or_self, Bool.false_eq_true, ↓reduceIte, rat_ofNat,
    rat_two, insertByMean_length]
  rw [if_neg h]

theorem add_explicit (δ tot x : Rat) (cs : List (Centroid Rat)) (mn mx : Option Rat)
    (h : ¬ (((cs.length + 1 : Nat) : Rat) > δ * 2)) :
    TDigest.add ⟨δ, cs, tot, mn, mx⟩ x = ⟨δ, insertByMean ⟨x, 1⟩ cs, tot + 1, ominV mn x, omaxV mx x⟩ :=
  addWeighted_explicit δ tot x 1 cs mn mx (by grind) h

/-- in exact arithmetic the clamp of the current `quantile` never fires -/
theorem quantileCore_eq_noclamp (total mn mx q : Rat) (cs : List (Centroid Rat)) (hle : mn ≤ mx)
    (hall : ∀ c ∈ cs, COk mn mx c) (htot : 0 < total) :
    quantileCoreWith (fun x => clamp x mn mx) total cs mn mx q = quantileCoreWith id total cs mn mx q := by
  unfold quantileCoreWith
  simp only
  split
  · rfl
  · rename_i h0
    split
    · rfl
    · split
      · rfl
      · apply quantileLoop_eq_legacy mn mx _ hle cs _ _ hall Rat.le_refl hle
        have hq := clamp01_mem q
        simp only [rat_zero, rat_one] at h0 hq ⊢
        have : 0 < clamp q 0 1 := by
          false_or_by_contra
          apply h0
          have : clamp q 0 1 = 0 := by grind
          simp [this]; grind
        exact Rat.mul_pos this htot

/-! ## where monotonicity in `q` does hold: as long as the covering centroid does not change -/

theorem clamp_mono {x y lo hi : Rat} (hle : lo ≤ hi) (h : x ≤ y) : clamp x lo hi ≤ clamp y lo hi := by
  unfold clamp; grind

theorem div_le_div_right {a b w : Rat} (hw : 0 < w) (h : a ≤ b) : a / w ≤ b / w := by
  have e1 : a / w * w = a := by grind
  have e2 : b / w * w = b := by grind
  apply le_of_mul_le_mul_right hw; rw [e1, e2]; exact h

/-- the mean of the last centroid of `pre` (or `left` if there is none) -/
def lastMean : List (Centroid Rat) → Rat → Rat
  | [], left => left
  | c :: cs, _ => lastMean cs c.mean

theorem wsum_nonneg : ∀ (l : List (Centroid Rat)), (∀ x ∈ l, 0 < x.weight) → 0 ≤ wsum l
  | [], _ => by simp
  | c :: cs, h => by
    have := wsum_nonneg cs (fun x hx => h x (by simp [hx]))
    have := h c (by simp)
    simp; grind

theorem quantileLoop_skip_prefix (post : Rat → Rat) (mx t : Rat) (tl : List (Centroid Rat)) :
    ∀ (pre : List (Centroid Rat)) (left cum : Rat), cum + wsum pre < t → (∀ x ∈ pre, 0 < x.weight) →
      quantileLoopWith post mx t left cum (pre ++ tl) = quantileLoopWith post mx t (lastMean pre left) (cum + wsum pre) tl
  | [], left, cum, _, _ => by
    have : cum + 0 = cum := by grind
    simp [lastMean, this]
  | c :: pre, left, cum, h, hw => by
    have h0 := wsum_nonneg pre (fun x hx => hw x (by simp [hx]))
    simp only [wsum_cons] at h
    rw [List.cons_append, quantileLoop_skip post mx t left cum c (pre ++ tl) (by grind)]
    rw [quantileLoop_skip_prefix post mx t tl pre c.mean (cum + c.weight) (by grind) (fun x hx => hw x (by simp [hx]))]
    have : cum + c.weight + wsum pre = cum + (c.weight + wsum pre) := by grind
    simp only [lastMean, wsum_cons, this]

/-- the neighbour to the right (or `max`) -/
def rightMean (mx : Rat) : List (Centroid Rat) → Rat
  | [] => mx
  | r :: _ => r.mean

theorem quantileLoop_hit' (post : Rat → Rat) (mx target left cum : Rat) (c : Centroid Rat) (rest : List (Centroid Rat))
    (h : target ≤ cum + c.weight) (hw : (1:Rat) / 4503599627370496 ≤ c.weight) :
    quantileLoopWith post mx target left cum (c :: rest) =
      post (left + (target - cum) / c.weight * (rightMean mx rest - left)) := by
  unfold quantileLoopWith; simp only [rat_abs, rat_eps]; rw [if_pos (by grind), if_neg (by grind)]
  cases rest <;> rfl

/-- two targets covered by the SAME centroid `c` (after the prefix `pre`): the estimate does not decrease -/
theorem quantileLoop_mono_same_centroid (mn mx : Rat) (pre : List (Centroid Rat)) (c : Centroid Rat)
    (rest : List (Centroid Rat)) (t₁ t₂ : Rat) (hle : mn ≤ mx) (hw : ∀ x ∈ pre, 0 < x.weight)
    (hcw : (1:Rat) / 4503599627370496 ≤ c.weight)
    (hsorted : lastMean pre mn ≤ rightMean mx rest)
    (h1 : wsum pre < t₁) (h12 : t₁ ≤ t₂) (h2 : t₂ ≤ wsum pre + c.weight) :
    quantileLoopWith (fun x => clamp x mn mx) mx t₁ mn 0 (pre ++ c :: rest) ≤
      quantileLoopWith (fun x => clamp x mn mx) mx t₂ mn 0 (pre ++ c :: rest) := by
  have e0 : (0 : Rat) + wsum pre = wsum pre := by grind
  rw [quantileLoop_skip_prefix _ mx t₁ (c :: rest) pre mn 0 (by grind) hw,
      quantileLoop_skip_prefix _ mx t₂ (c :: rest) pre mn 0 (by grind) hw, e0,
      quantileLoop_hit' _ mx t₁ _ _ c rest (by grind) hcw, quantileLoop_hit' _ mx t₂ _ _ c rest h2 hcw]
  apply clamp_mono hle
  have hcw' : 0 < c.weight := by grind
  have hf := div_le_div_right (a := t₁ - wsum pre) (b := t₂ - wsum pre) hcw' (by grind)
  have := Rat.mul_nonneg (a := (t₂ - wsum pre) / c.weight - (t₁ - wsum pre) / c.weight)
    (b := rightMean mx rest - lastMean pre mn) (by grind) (by grind)
  grind

/-! ## non-finite inputs never reach the digest (any carrier) -/
section generic
variable {α : Type} [Add α] [Sub α] [Mul α] [Div α] [LE α] [LT α] [DecidableLE α] [DecidableLT α]
  [BEq α] [NumOps α]

theorem addWeighted_nonfinite (d : TDigest α) (x w : α) (h : isFinite x = false) : d.addWeighted x w = d := by
  simp [TDigest.addWeighted, h]

/-- a weight that `add_weighted` does not admit (not finite, or `≤ 0`): the call changes nothing — on ANY carrier -/
theorem addWeighted_badWeight (d : TDigest α) (x w : α) (h : weightOk w = false) : d.addWeighted x w = d := by
  simp [TDigest.addWeighted, h]

theorem add_nonfinite (d : TDigest α) (x : α) (h : isFinite x = false) : d.add x = d :=
  addWeighted_nonfinite d x one h

theorem foldl_add_filter (xs : List α) : ∀ d : TDigest α,
    xs.foldl TDigest.add d = (xs.filter isFinite).foldl TDigest.add d := by
  induction xs with
  | nil => intro d; rfl
  | cons x xs ih =>
    intro d
    cases h : isFinite x with
    | true => simp [List.filter, h, ih]
    | false => simp [List.filter, h, add_nonfinite d x h, ih]

theorem foldlW_filter (ps : List (α × α)) : ∀ d : TDigest α,
    ps.foldl (fun d p => d.addWeighted p.1 p.2) d =
      (ps.filter (fun p => isFinite p.1)).foldl (fun d p => d.addWeighted p.1 p.2) d := by
  induction ps with
  | nil => intro d; rfl
  | cons p ps ih =>
    intro d
    cases h : isFinite p.1 with
    | true => simp [List.filter, h, ih]
    | false => simp [List.filter, h, addWeighted_nonfinite d p.1 p.2 h, ih]

/-- drop the non-finite values of every leaf -/
def MTree.finiteOnly : MTree α → MTree α
  | .leaf xs => .leaf (xs.filter isFinite)
  | .built xs => .built (xs.filter isFinite)
  | .wleaf ps => .wleaf (ps.filter (fun p => isFinite p.1))
  | .node l r => .node l.finiteOnly r.finiteOnly

theorem eval_finiteOnly (δ : α) : ∀ t : MTree α, t.finiteOnly.eval δ = t.eval δ
  | .leaf xs => by simp [MTree.finiteOnly, MTree.eval, foldAdd, ← foldl_add_filter]
  | .built xs => by simp [MTree.finiteOnly, MTree.eval, buildFromGroup, foldAdd, ← foldl_add_filter]
  | .wleaf ps => by simp [MTree.finiteOnly, MTree.eval, foldAddW, ← foldlW_filter]
  | .node l r => by simp [MTree.finiteOnly, MTree.eval, eval_finiteOnly δ l, eval_finiteOnly δ r]

theorem filter_comm_map_fst (ps : List (α × α)) :
    ((ps.filter (fun p => isFinite p.1)).filter (fun p => weightOk p.2)).map Prod.fst =
      ((ps.filter (fun p => weightOk p.2)).map Prod.fst).filter isFinite := by
  induction ps with
  | nil => rfl
  | cons p ps ih =>
    simp only [List.filter_cons]
    cases h1 : isFinite p.1 <;> cases h2 : weightOk p.2 <;>
      simp only [h1, h2, ↓reduceIte, Bool.false_eq_true, List.filter_cons, List.map_cons, ih]

theorem leaves_finiteOnly : ∀ t : MTree α, t.finiteOnly.leaves = t.leaves.filter isFinite
  | .leaf xs => rfl
  | .built xs => rfl
  | .wleaf ps => by simp only [MTree.finiteOnly, MTree.leaves]; exact filter_comm_map_fst ps
  | .node l r => by simp [MTree.finiteOnly, MTree.leaves, leaves_finiteOnly l, leaves_finiteOnly r]

end generic

end IB.Sketches
