import IbModel.Proofs.SketchesKMV
import IbModel.Proofs.CombinerLaws
import IbModel.Model.CombinersExt
/-!
# Helper lemmas for C06: KMV as a `Combiner` — C15's accumulator invariant on C06's merge trees

C15 proves `KInv k xs acc` ("heap and set hold the same ranks, and they are THE `k` smallest distinct ranks of
`xs`") for its own trees of `create` / `try_insert` / `merge_from`. C06's merge trees add the two remaining entry
points: `build_from_group` (a leaf built at once) and values added after a merge.
-/
namespace IB.Combiners
open IB IB.Sketches

theorem kmvK_pos' (k : Nat) : 0 < kmvK k := by
  unfold kmvK; have : 4 ≤ Nat.max k 4 := Nat.le_max_right k 4; omega

theorem kmv_mergeTree_inv (k : Nat) (t : MergeTree Nat) : KInv (kmvK k) t.leaves (t.eval (kmvComb k)) := by
  induction t with
  | leaf xs =>
    show KInv (kmvK k) xs (xs.foldl KMV.tryInsert (KMV.create (kmvK k)))
    have := foldl_tryInsert_inv (kmvK_pos' k) xs (create_inv (kmvK k))
    simpa using this
  | built xs =>
    show KInv (kmvK k) xs (xs.foldl KMV.tryInsert (KMV.create (kmvK k)))
    have := foldl_tryInsert_inv (kmvK_pos' k) xs (create_inv (kmvK k))
    simpa using this
  | node l r ihl ihr => exact mergeFrom_inv (kmvK_pos' k) ihl ihr
  | more t xs ih => exact foldl_tryInsert_inv (kmvK_pos' k) xs ih

end IB.Combiners
