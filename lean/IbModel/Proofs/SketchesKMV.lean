import IbModel.Model.Sketches
/-!
# Helper lemmas for C15: the KMV accumulator over `Nat` ranks. Core Lean only.
-/
namespace IB.Sketches

/-! ## `heapMax` = the maximum -/

theorem heapMax_none {l : List Nat} : heapMax l = none ↔ l = [] := by
  cases l with
  | nil => simp [heapMax]
  | cons x xs =>
    simp only [heapMax]
    cases heapMax xs with
    | none => simp
    | some m => by_cases h : m < x <;> simp [h]

theorem heapMax_some : ∀ {l : List Nat} {m : Nat}, heapMax l = some m → m ∈ l ∧ ∀ x ∈ l, x ≤ m
  | [], m, h => by simp [heapMax] at h
  | x :: xs, m, h => by
    simp only [heapMax] at h
    cases hx : heapMax xs with
    | none =>
      have := heapMax_none.mp hx
      simp only [hx, Option.some.injEq] at h
      subst h this; simp
    | some m' =>
      have ih := heapMax_some hx
      simp only [hx] at h
      by_cases hlt : m' < x
      · simp only [hlt, ↓reduceIte, Option.some.injEq] at h
        subst h
        refine ⟨by simp, ?_⟩
        intro y hy
        simp only [List.mem_cons] at hy
        rcases hy with rfl | hy
        · exact Nat.le_refl _
        · have := ih.2 y hy; omega
      · simp only [hlt, ↓reduceIte, Option.some.injEq] at h
        subst h
        refine ⟨by simp [ih.1], ?_⟩
        intro y hy
        simp only [List.mem_cons] at hy
        rcases hy with rfl | hy
        · omega
        · exact ih.2 y hy

/-! ## duplicate-free lists: cardinality -/

theorem length_le_of_nodup_subset : ∀ (T S : List Nat), T.Nodup → (∀ t ∈ T, t ∈ S) → T.length ≤ S.length
  | [], _, _, _ => by simp
  | t :: T, S, hnd, hsub => by
    have hnd' := List.nodup_cons.mp hnd
    have hts : t ∈ S := hsub t (by simp)
    have hsub' : ∀ x ∈ T, x ∈ S.erase t := by
      intro x hx
      have hne : x ≠ t := fun h => hnd'.1 (h ▸ hx)
      exact (List.mem_erase_of_ne hne).mpr (hsub x (by simp [hx]))
    have ih := length_le_of_nodup_subset T (S.erase t) hnd'.2 hsub'
    rw [List.length_erase_of_mem hts] at ih
    have : 0 < S.length := List.length_pos_of_mem hts
    simp only [List.length_cons]; omega

theorem subset_of_nodup_length_le : ∀ (T S : List Nat), T.Nodup → S.Nodup → (∀ t ∈ T, t ∈ S) →
    S.length ≤ T.length → ∀ s ∈ S, s ∈ T
  | [], S, _, _, _, hlen => by
    intro s hs
    have : S = [] := List.length_eq_zero_iff.mp (by simpa using hlen)
    subst this; simp at hs
  | t :: T, S, hnd, hnds, hsub, hlen => by
    have hnd' := List.nodup_cons.mp hnd
    have hts : t ∈ S := hsub t (by simp)
    have hsub' : ∀ x ∈ T, x ∈ S.erase t := by
      intro x hx
      have hne : x ≠ t := fun h => hnd'.1 (h ▸ hx)
      exact (List.mem_erase_of_ne hne).mpr (hsub x (by simp [hx]))
    have hl : (S.erase t).length ≤ T.length := by
      rw [List.length_erase_of_mem hts]; simp only [List.length_cons] at hlen; omega
    have ih := subset_of_nodup_length_le T (S.erase t) hnd'.2 (hnds.erase t) hsub' hl
    intro s hs
    by_cases hst : s = t
    · simp [hst]
    · have := ih s ((List.mem_erase_of_ne hst).mpr hs)
      simp [this]

/-! ## the specification: `S` = the `k` smallest distinct members of `xs` -/

/-- `S` is duplicate-free, consists of members of `xs`, has at most `k` elements, and every member of `xs`
    that is not kept finds `S` full with only smaller elements -/
def KSmallest (k : Nat) (xs S : List Nat) : Prop :=
  S.Nodup ∧ (∀ s ∈ S, s ∈ xs) ∧ S.length ≤ k ∧ (∀ x ∈ xs, x ∉ S → S.length = k ∧ ∀ s ∈ S, s < x)

theorem KSmallest.congr {k : Nat} {xs ys S : List Nat} (h : KSmallest k xs S) (hm : ∀ x, x ∈ xs ↔ x ∈ ys) :
    KSmallest k ys S :=
  ⟨h.1, fun s hs => (hm s).mp (h.2.1 s hs), h.2.2.1, fun x hx hn => h.2.2.2 x ((hm x).mpr hx) hn⟩

/-- the specification determines the kept set: it depends on the MEMBERS of the input only
    (not on duplicates, order or partitioning) -/
theorem KSmallest.unique {k : Nat} {xs ys S T : List Nat} (hS : KSmallest k xs S) (hT : KSmallest k ys T)
    (hm : ∀ x, x ∈ xs ↔ x ∈ ys) : S.Perm T := by
  have key : ∀ {xs ys S T : List Nat}, KSmallest k xs S → KSmallest k ys T → (∀ x, x ∈ xs ↔ x ∈ ys) →
      ∀ s ∈ S, s ∈ T := by
    intro xs ys S T hS hT hm s hs
    false_or_by_contra
    rename_i hnt
    obtain ⟨hfull, hlt⟩ := hT.2.2.2 s ((hm s).mp (hS.2.1 s hs)) hnt
    -- every t ∈ T is in S, so s :: T ⊆ S is duplicate-free with k+1 elements
    have hTS : ∀ t ∈ T, t ∈ S := by
      intro t ht
      false_or_by_contra
      rename_i hns
      have := (hS.2.2.2 t ((hm t).mpr (hT.2.1 t ht)) hns).2 s hs
      have := hlt t ht
      omega
    have hnd : (s :: T).Nodup := List.nodup_cons.mpr ⟨hnt, hT.1⟩
    have := length_le_of_nodup_subset (s :: T) S hnd (by
      intro x hx; simp only [List.mem_cons] at hx; rcases hx with rfl | hx; exact hs; exact hTS x hx)
    have := hS.2.2.1
    simp only [List.length_cons] at *; omega
  exact (List.perm_ext_iff_of_nodup hS.1 hT.1).mpr (fun a =>
    ⟨key hS hT hm a, key hT hS (fun x => (hm x).symm) a⟩)

/-- adding a whole second input of which only its own `k` smallest (`T`) were offered -/
theorem KSmallest.merge {k : Nat} {xs ys S T : List Nat} (hT : KSmallest k ys T) (hS : KSmallest k (xs ++ T) S) :
    KSmallest k (xs ++ ys) S := by
  refine ⟨hS.1, ?_, hS.2.2.1, ?_⟩
  · intro s hs
    have := hS.2.1 s hs
    simp only [List.mem_append] at this ⊢
    rcases this with h | h
    · exact Or.inl h
    · exact Or.inr (hT.2.1 s h)
  · intro x hx hxS
    simp only [List.mem_append] at hx
    by_cases hxx : x ∈ xs ∨ x ∈ T
    · exact hS.2.2.2 x (by simpa using hxx) hxS
    · have hxy : x ∈ ys := by
        rcases hx with h | h
        · exact absurd (Or.inl h) hxx
        · exact h
      have hxT : x ∉ T := fun h => hxx (Or.inr h)
      obtain ⟨hfull, hlt⟩ := hT.2.2.2 x hxy hxT
      by_cases hall : ∀ t ∈ T, t ∈ S
      · have hle : S.length ≤ T.length := by have := hS.2.2.1; omega
        have hST := subset_of_nodup_length_le T S hT.1 hS.1 hall hle
        have := length_le_of_nodup_subset T S hT.1 hall
        exact ⟨by have := hS.2.2.1; omega, fun s hs => hlt s (hST s hs)⟩
      · have : ∃ t, t ∈ T ∧ t ∉ S := by
          false_or_by_contra
          rename_i hne
          apply hall
          intro t ht
          false_or_by_contra
          rename_i hts
          exact hne ⟨t, ht, hts⟩
        obtain ⟨t, ht, hts⟩ := this
        obtain ⟨hf, hl⟩ := hS.2.2.2 t (by simp [ht]) hts
        exact ⟨hf, fun s hs => by have := hl s hs; have := hlt t ht; omega⟩

/-! ## the accumulator invariant -/

structure KInv (k : Nat) (xs : List Nat) (a : KMV Nat) : Prop where
  hk : a.k = k
  /-- heap and set hold the same ranks -/
  perm : a.heap.Perm a.set
  spec : KSmallest k xs a.set

theorem create_inv (k : Nat) : KInv k [] (KMV.create k) :=
  ⟨rfl, List.Perm.refl _, by simp [KMV.create, KSmallest]⟩

theorem tryInsert_inv {k : Nat} (hk0 : 0 < k) {xs : List Nat} {a : KMV Nat} (h : KInv k xs a) (r : Nat) :
    KInv k (xs ++ [r]) (a.tryInsert r) := by
  obtain ⟨hk, hperm, hnd, hsub, hlen, hrest⟩ := h
  have hlenEq : a.heap.length = a.set.length := hperm.length_eq
  unfold KMV.tryInsert
  by_cases hc : a.set.contains r = true
  · -- already present
    have hr : r ∈ a.set := List.contains_iff_mem.mp hc
    simp only [hc, ↓reduceIte]
    refine ⟨hk, hperm, hnd, fun s hs => by simp [hsub s hs], hlen, ?_⟩
    intro x hx hxS
    simp only [List.mem_append, List.mem_singleton] at hx
    rcases hx with hx | rfl
    · exact hrest x hx hxS
    · exact absurd hr hxS
  · have hr : r ∉ a.set := fun h' => hc (List.contains_iff_mem.mpr h')
    simp only [hc, Bool.false_eq_true, ↓reduceIte]
    by_cases hroom : a.heap.length < a.k
    · simp only [hroom, ↓reduceIte]
      refine ⟨hk, List.Perm.cons r hperm, List.nodup_cons.mpr ⟨hr, hnd⟩, ?_, ?_, ?_⟩
      · intro s hs
        simp only [List.mem_cons] at hs
        rcases hs with rfl | hs
        · simp
        · simp [hsub s hs]
      · simp only [List.length_cons]; omega
      · intro x hx hxS
        simp only [List.mem_append, List.mem_singleton] at hx
        simp only [List.mem_cons, not_or] at hxS
        rcases hx with hx | rfl
        · have := (hrest x hx hxS.2).1; omega
        · exact absurd rfl hxS.1
    · simp only [hroom, ↓reduceIte]
      have hfull : a.set.length = k := by omega
      have hne : a.heap ≠ [] := by
        intro h0; rw [h0] at hlenEq; simp at hlenEq; omega
      cases hm : heapMax a.heap with
      | none => exact absurd (heapMax_none.mp hm) hne
      | some rk =>
        obtain ⟨hrkh, hmax⟩ := heapMax_some hm
        have hrks : rk ∈ a.set := hperm.mem_iff.mp hrkh
        have hmaxS : ∀ s ∈ a.set, s ≤ rk := fun s hs => hmax s (hperm.mem_iff.mpr hs)
        simp only
        by_cases hlt : r < rk
        · simp only [hlt, ↓reduceIte]
          have hne' : ¬ (r == rk) = true := by simp; omega
          rw [List.erase_cons_tail hne']
          refine ⟨hk, List.Perm.cons r (hperm.erase rk), ?_, ?_, ?_, ?_⟩
          · exact List.nodup_cons.mpr ⟨fun h' => hr (List.mem_of_mem_erase h'), hnd.erase rk⟩
          · intro s hs
            simp only [List.mem_cons] at hs
            rcases hs with rfl | hs
            · simp
            · simp [hsub s (List.mem_of_mem_erase hs)]
          · simp only [List.length_cons, List.length_erase_of_mem hrks]; omega
          · intro x hx hxS
            simp only [List.mem_append, List.mem_singleton] at hx
            simp only [List.mem_cons, not_or] at hxS
            refine ⟨by simp only [List.length_cons, List.length_erase_of_mem hrks]; omega, ?_⟩
            have hxr : x ≠ r := hxS.1
            have hxx : x ∈ xs := by
              rcases hx with hx | hx
              · exact hx
              · exact absurd hx hxr
            intro s hs
            simp only [List.mem_cons] at hs
            by_cases hxin : x ∈ a.set
            · -- then x is the evicted threshold
              have hxrk : x = rk := by
                false_or_by_contra
                rename_i hne2
                exact hxS.2 ((List.mem_erase_of_ne hne2).mpr hxin)
              subst hxrk
              rcases hs with rfl | hs
              · exact hlt
              · have := (hnd.mem_erase_iff.mp hs)
                have := hmaxS s this.2
                have := this
                omega
            · have hold := (hrest x hxx hxin).2
              rcases hs with rfl | hs
              · have := hold rk hrks; omega
              · exact hold s (List.mem_of_mem_erase hs)
        · simp only [hlt, ↓reduceIte, List.erase_cons_head]
          refine ⟨hk, hperm, hnd, fun s hs => by simp [hsub s hs], hlen, ?_⟩
          intro x hx hxS
          simp only [List.mem_append, List.mem_singleton] at hx
          rcases hx with hx | rfl
          · exact hrest x hx hxS
          · refine ⟨hfull, ?_⟩
            intro s hs
            have h1 := hmaxS s hs
            have h2 : s ≠ x := fun h' => hr (h' ▸ hs)
            omega

theorem foldl_tryInsert_inv {k : Nat} (hk0 : 0 < k) (ys : List Nat) : ∀ {xs : List Nat} {a : KMV Nat},
    KInv k xs a → KInv k (xs ++ ys) (ys.foldl KMV.tryInsert a) := by
  induction ys with
  | nil => intro xs a h; simpa using h
  | cons y ys ih =>
    intro xs a h
    have := ih (tryInsert_inv hk0 h y)
    simpa using this

theorem drain_inv {k : Nat} (hk0 : 0 < k) : ∀ (fuel : Nat) (h : List Nat) {xs : List Nat} {a : KMV Nat},
    h.length ≤ fuel → KInv k xs a →
    ∃ zs, (∀ x, x ∈ zs ↔ x ∈ xs ++ h) ∧ KInv k zs (KMV.drain fuel a h)
  | 0, h, xs, a, hl, hi => by
    have : h = [] := List.length_eq_zero_iff.mp (by omega)
    subst this
    exact ⟨xs, by simp, by simpa [KMV.drain] using hi⟩
  | fuel + 1, h, xs, a, hl, hi => by
    unfold KMV.drain
    cases hm : heapMax h with
    | none =>
      have := heapMax_none.mp hm; subst this
      exact ⟨xs, by simp, hi⟩
    | some m =>
      have hmh := (heapMax_some hm).1
      have hl' : (h.erase m).length ≤ fuel := by
        rw [List.length_erase_of_mem hmh]; omega
      obtain ⟨zs, hz, hzi⟩ := drain_inv hk0 fuel (h.erase m) hl' (tryInsert_inv hk0 hi m)
      refine ⟨zs, ?_, hzi⟩
      intro x
      rw [hz]
      simp only [List.mem_append, List.mem_singleton]
      constructor
      · rintro ((h1 | rfl) | h3)
        · exact Or.inl h1
        · exact Or.inr hmh
        · exact Or.inr (List.mem_of_mem_erase h3)
      · rintro (h1 | h2)
        · exact Or.inl (Or.inl h1)
        · by_cases hx : x = m
          · exact Or.inl (Or.inr hx)
          · exact Or.inr ((List.mem_erase_of_ne hx).mpr h2)

theorem mergeFrom_inv {k : Nat} (hk0 : 0 < k) {xs ys : List Nat} {a o : KMV Nat} (ha : KInv k xs a) (ho : KInv k ys o) :
    KInv k (xs ++ ys) (a.mergeFrom o) := by
  obtain ⟨zs, hz, hzi⟩ := drain_inv hk0 o.heap.length o.heap (Nat.le_refl _) ha
  have hmem : ∀ x, x ∈ zs ↔ x ∈ xs ++ o.set := by
    intro x; rw [hz]; simp only [List.mem_append, ho.perm.mem_iff]
  exact ⟨hzi.hk, hzi.perm, KSmallest.merge ho.spec (hzi.spec.congr hmem)⟩

theorem ktree_inv {k : Nat} (hk0 : 0 < k) : ∀ t : KTree Nat, KInv k t.leaves (t.eval k)
  | .leaf xs => by
    have := foldl_tryInsert_inv hk0 xs (create_inv k)
    simpa [KTree.eval, KTree.leaves] using this
  | .node l r => mergeFrom_inv hk0 (ktree_inv hk0 l) (ktree_inv hk0 r)

/-- the maximum of a list depends on its members only -/
theorem heapMax_congr {a b : List Nat} (h : ∀ x, x ∈ a ↔ x ∈ b) : heapMax a = heapMax b := by
  cases ha : heapMax a with
  | none =>
    have := heapMax_none.mp ha; subst this
    have : b = [] := by
      cases b with
      | nil => rfl
      | cons y ys => exact absurd ((h y).mpr (by simp)) (by simp)
    subst this; rfl
  | some m =>
    obtain ⟨hm, hmax⟩ := heapMax_some ha
    cases hb : heapMax b with
    | none =>
      have := heapMax_none.mp hb; subst this
      exact absurd ((h m).mp hm) (by simp)
    | some m' =>
      obtain ⟨hm', hmax'⟩ := heapMax_some hb
      have h1 := hmax m' ((h m').mpr hm')
      have h2 := hmax' m ((h m).mp hm)
      congr 1; omega

/-! ## values, hashed -/

def KTree.map {β : Type} (f : β → Nat) : KTree β → KTree Nat
  | .leaf xs => .leaf (xs.map f)
  | .node l r => .node (l.map f) (r.map f)

theorem KTree.leaves_map {β : Type} (f : β → Nat) : ∀ t : KTree β, (t.map f).leaves = t.leaves.map f
  | .leaf xs => rfl
  | .node l r => by simp [KTree.map, KTree.leaves, KTree.leaves_map f l, KTree.leaves_map f r]

theorem nodup_map_of_inj_on {β : Type} (f : β → Nat) : ∀ (D : List β), D.Nodup →
    (∀ a ∈ D, ∀ b ∈ D, f a = f b → a = b) → (D.map f).Nodup
  | [], _, _ => by simp
  | d :: D, hnd, hinj => by
    have hnd' := List.nodup_cons.mp hnd
    simp only [List.map_cons, List.nodup_cons, List.mem_map, not_exists, not_and]
    refine ⟨?_, nodup_map_of_inj_on f D hnd'.2 (fun a ha b hb => hinj a (by simp [ha]) b (by simp [hb]))⟩
    intro x hx hfx
    have := hinj x (by simp [hx]) d (by simp) hfx
    exact hnd'.1 (this ▸ hx)

/-- fewer than `k` distinct ranks: the set holds all of them -/
theorem KSmallest.length_eq_of_lt {k : Nat} {xs S D : List Nat} (hS : KSmallest k xs S) (hD : D.Nodup)
    (hm : ∀ x, x ∈ D ↔ x ∈ xs) (hlt : D.length < k) : S.length = D.length := by
  have hSD : ∀ s ∈ S, s ∈ D := fun s hs => (hm s).mpr (hS.2.1 s hs)
  have h1 := length_le_of_nodup_subset S D hS.1 hSD
  have hDS : ∀ d ∈ D, d ∈ S := by
    intro d hd
    false_or_by_contra
    rename_i hn
    have := (hS.2.2.2 d ((hm d).mp hd) hn).1
    omega
  have h2 := length_le_of_nodup_subset D S hD hDS
  omega

end IB.Sketches
