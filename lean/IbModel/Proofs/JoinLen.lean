/-!
# helper lemmas for the row-count theorems of C07 (`Props/C07.lean` §2b)

Pure list arithmetic, no model definitions: for a nested loop with partner predicate `m a b`,
"partners of `a`" + "1 if `a` has none" is at least 1, summed over the preserved side.
-/
namespace IB.JoinLen

theorem length_nested {α β γ : Type} (L : List α) (R : List β) (m : α → β → Bool) (f : α → β → γ) :
    (L.flatMap (fun a => (R.filter (m a)).map (f a))).length = (L.map (fun a => R.countP (m a))).sum := by
  induction L with
  | nil => rfl
  | cons a L ih =>
    simp only [List.flatMap_cons, List.length_append, List.length_map, List.map_cons, List.sum_cons, ih,
      List.countP_eq_length_filter]

theorem preserved_le {α β : Type} (L : List α) (R : List β) (m : α → β → Bool) :
    L.length ≤ (L.map (fun a => R.countP (m a))).sum + (L.filter (fun a => !R.any (m a))).length := by
  induction L with
  | nil => simp
  | cons a L ih =>
    simp only [List.length_cons, List.map_cons, List.sum_cons, List.filter_cons]
    by_cases h : R.any (m a) = true
    · have hp : 0 < R.countP (m a) := by
        rw [List.countP_pos_iff]
        simpa using h
      simp only [h, Bool.not_true, Bool.false_eq_true, ↓reduceIte]
      omega
    · simp only [Bool.not_eq_true] at h
      simp only [h, Bool.not_false, ↓reduceIte, List.length_cons]
      omega

/-- the same count seen from the other side: pairs `(a, b)` with `m a b`, summed over `R` first -/
theorem nested_count_swap {α β : Type} (L : List α) (R : List β) (m : α → β → Bool) :
    (L.map (fun a => R.countP (m a))).sum = (R.map (fun b => L.countP (fun a => m a b))).sum := by
  induction L with
  | nil =>
    induction R with
    | nil => rfl
    | cons b R ihR => simpa using ihR
  | cons a L ih =>
    simp only [List.map_cons, List.sum_cons, ih, List.countP_cons]
    clear ih
    induction R with
    | nil => simp
    | cons b R ihR =>
      simp only [List.countP_cons, List.map_cons, List.sum_cons]
      omega

theorem filter_const_true {α : Type} (l : List α) : l.filter (fun _ => true) = l :=
  List.filter_eq_self.mpr (by simp)

end IB.JoinLen
