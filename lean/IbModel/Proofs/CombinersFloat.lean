import IbModel.Proofs.CombinersBasic
import IbModel.Proofs.CombinersOrd
import IbModel.Proofs.CombinersDistinct
/-!
# Helper lemmas for C06: floats

* `Sum<f64>` / `AverageF64`: the class (finite / +inf / -inf / NaN) of the result of ANY merge tree, over an
  abstract number type with a classification `cls` that is a homomorphism into the IEEE class table
  (`NumHom N classOps cls`: true of `f64` as long as no addition of two finite values overflows).
* `OrdF64`: `ordKey` is injective, hence `leF64` is a total order on bit patterns and `ltF64` its strict part.
-/
namespace IB.Combiners
open IB

/-! ## the class monoid -/

theorem FClass.add_assoc (a b c : FClass) : FClass.add (FClass.add a b) c = FClass.add a (FClass.add b c) := by
  cases a <;> cases b <;> cases c <;> rfl
theorem FClass.add_comm (a b : FClass) : FClass.add a b = FClass.add b a := by
  cases a <;> cases b <;> rfl
theorem FClass.fin_add (a : FClass) : FClass.add .fin a = a := by cases a <;> rfl

theorem classOps_lawful : classOps.Lawful :=
  ⟨FClass.add_assoc, FClass.add_comm, FClass.fin_add, rfl⟩

theorem sumClass_nil : sumClass [] = .fin := by decide

/-- the closed form: folding the class table over the classes of the terms -/
theorem foldl_classAdd (cs : List FClass) : ∀ a : FClass, cs.foldl FClass.add a = sumClass (a :: cs) := by
  induction cs with
  | nil => intro a; cases a <;> decide
  | cons c cs ih =>
    intro a
    rw [List.foldl_cons, ih]
    cases a <;> cases c <;>
      simp only [FClass.add, sumClass, List.contains_cons] <;>
      cases cs.contains FClass.nan <;> cases cs.contains FClass.pinf <;> cases cs.contains FClass.ninf <;> decide

theorem foldl_classAdd_fin (cs : List FClass) : cs.foldl FClass.add .fin = sumClass cs := by
  rw [foldl_classAdd]
  simp only [sumClass, List.contains_cons]
  cases cs.contains FClass.nan <;> cases cs.contains FClass.pinf <;> cases cs.contains FClass.ninf <;> decide

/-! ## homomorphisms of number types -/

structure NumHom {α β : Type} (N : NumOps α) (M : NumOps β) (f : α → β) : Prop where
  zero : f N.zero = M.zero
  sumInit : f N.sumInit = M.sumInit
  add : ∀ a b, f (N.add a b) = M.add (f a) (f b)
  div : ∀ a n, 0 < n → f (N.divNat a n) = M.divNat (f a) n

section hom
variable {α β : Type} {N : NumOps α} {M : NumOps β} {f : α → β}

theorem NumHom.foldl (h : NumHom N M f) (xs : List α) : ∀ a : α,
    f (xs.foldl N.add a) = (xs.map f).foldl M.add (f a) := by
  induction xs with
  | nil => intro a; rfl
  | cons x xs ih => intro a; simp only [List.foldl_cons, List.map_cons]; rw [ih, h.add]

theorem sumG_eval_hom (h : NumHom N M f) (t : MergeTree α) :
    f (t.eval (sumG N)) = (t.map f).eval (sumG M) := by
  induction t with
  | leaf xs =>
    show f (xs.foldl N.add N.zero) = (xs.map f).foldl M.add M.zero
    rw [h.foldl, h.zero]
  | built xs =>
    show f (xs.foldl (fun a v => N.add a v) N.zero) = (xs.map f).foldl (fun a v => M.add a v) M.zero
    rw [h.foldl, h.zero]
  | node l r ihl ihr =>
    show f (N.add (l.eval (sumG N)) (r.eval (sumG N))) = M.add _ _
    rw [h.add, ihl, ihr]
  | more t xs ih =>
    show f (xs.foldl N.add (t.eval (sumG N))) = (xs.map f).foldl M.add ((t.map f).eval (sumG M))
    rw [h.foldl, ih]

theorem averageG_foldAdd' (N : NumOps α) (xs : List α) (a : α × Nat) :
    (averageG N).foldAdd a xs = (xs.foldl N.add a.1, a.2 + xs.length) := averageG_foldAdd N a.1 a.2 xs

theorem averageG_eval_hom (h : NumHom N M f) (t : MergeTree α) :
    (f (t.eval (averageG N)).1, (t.eval (averageG N)).2) = (t.map f).eval (averageG M) := by
  induction t with
  | leaf xs =>
    show (f ((averageG N).foldAdd (N.zero, 0) xs).1, ((averageG N).foldAdd (N.zero, 0) xs).2)
      = (averageG M).foldAdd (M.zero, 0) (xs.map f)
    rw [averageG_foldAdd, averageG_foldAdd, h.foldl, h.zero, List.length_map]
  | built xs =>
    show (f (xs.foldl (fun a v => N.add a v) N.sumInit), xs.length)
      = ((xs.map f).foldl (fun a v => M.add a v) M.sumInit, (xs.map f).length)
    rw [h.foldl, h.sumInit, List.length_map]
  | node l r ihl ihr =>
    have e1 := congrArg Prod.fst ihl; have e2 := congrArg Prod.snd ihl
    have e3 := congrArg Prod.fst ihr; have e4 := congrArg Prod.snd ihr
    simp only at e1 e2 e3 e4
    show (f (N.add (l.eval (averageG N)).1 (r.eval (averageG N)).1), (l.eval (averageG N)).2 + (r.eval (averageG N)).2)
      = (M.add ((l.map f).eval (averageG M)).1 ((r.map f).eval (averageG M)).1,
         ((l.map f).eval (averageG M)).2 + ((r.map f).eval (averageG M)).2)
    rw [h.add, e1, e2, e3, e4]
  | more t xs ih =>
    have e1 := congrArg Prod.fst ih; have e2 := congrArg Prod.snd ih
    simp only at e1 e2
    show (f ((averageG N).foldAdd (t.eval (averageG N)) xs).1, ((averageG N).foldAdd (t.eval (averageG N)) xs).2)
      = (averageG M).foldAdd ((t.map f).eval (averageG M)) (xs.map f)
    rw [averageG_foldAdd', averageG_foldAdd', h.foldl, e1, e2, List.length_map]

theorem MergeTree.leaves_map (f : α → β) (t : MergeTree α) : (t.map f).leaves = t.leaves.map f := by
  induction t with
  | leaf xs => rfl
  | built xs => rfl
  | node l r ihl ihr => simp [MergeTree.map, MergeTree.leaves, ihl, ihr]
  | more t xs ih => simp [MergeTree.map, MergeTree.leaves, ih]

/-- the count component of an `AverageF64` accumulator is the number of values, whatever the arithmetic -/
theorem averageG_eval_count (N : NumOps α) (t : MergeTree α) : (t.eval (averageG N)).2 = t.leaves.length := by
  induction t with
  | leaf xs =>
    show ((averageG N).foldAdd (N.zero, 0) xs).2 = xs.length
    rw [averageG_foldAdd]; simp
  | built xs => rfl
  | node l r ihl ihr =>
    show (l.eval (averageG N)).2 + (r.eval (averageG N)).2 = (l.leaves ++ r.leaves).length
    rw [ihl, ihr, List.length_append]
  | more t xs ih =>
    show ((averageG N).foldAdd (t.eval (averageG N)) xs).2 = (t.leaves ++ xs).length
    rw [averageG_foldAdd', ih, List.length_append]

end hom

/-! ## `OrdF64` -/

theorem ordKey_cases (b : UInt64) :
    (b.toNat < two63 ∧ ordKey b = (b.toNat : Int)) ∨
    (two63 ≤ b.toNat ∧ ordKey b = -1 - ((b.toNat - two63 : Nat) : Int)) := by
  unfold ordKey
  by_cases h : b.toNat < two63
  · exact Or.inl ⟨h, by rw [if_pos h]⟩
  · exact Or.inr ⟨by omega, by rw [if_neg h]⟩

theorem ordKey_inj (a b : UInt64) (h : ordKey a = ordKey b) : a = b := by
  apply UInt64.toNat_inj.mp
  have ha := a.toNat_lt
  have hb := b.toNat_lt
  unfold ordKey two63 at h
  split at h <;> split at h <;> omega

theorem leF64_total : TotalOrderB leF64 where
  trans a b c h1 h2 := by simp only [leF64, decide_eq_true_eq] at *; omega
  total a b := by simp only [leF64, Bool.or_eq_true, decide_eq_true_eq]; omega
  antisymm a b h1 h2 := by
    simp only [leF64, decide_eq_true_eq] at h1 h2
    exact ordKey_inj a b (by omega)

theorem ltF64_strictWeak : StrictWeakB ltF64 where
  irrefl a := by simp [ltF64]
  trans a b c h1 h2 := by simp only [ltF64, decide_eq_true_eq] at *; omega
  neg_trans a b c h1 h2 := by simp only [ltF64, decide_eq_false_iff_not] at *; omega

theorem ltF64_anti : ∀ a b : UInt64, Equiv ltF64 a b → a = b := by
  intro a b e
  have e1 := e.1; have e2 := e.2
  simp only [ltF64, decide_eq_false_iff_not] at e1 e2
  exact ordKey_inj a b (by omega)

/-- `leF64` is the reflexive closure of `ltF64` (the code uses `<`, `>` and `>=` of the same `Ord`) -/
theorem leF64_eq_not_lt (a b : UInt64) : leF64 a b = !ltF64 b a := by
  simp only [leF64, ltF64]
  by_cases h : ordKey a ≤ ordKey b
  · simp [h]
  · simp [h]; omega

end IB.Combiners
