import IbModel.Model.Program
import IbModel.Proofs.ValOrder
import IbModel.Proofs.CombinersTopK
/-!
# From typed combiners (C06) to `Val`-level combiners (C05 / C01)

`Combiner.toVal decV encA decA encO t` is the typed combiner `t : Combiner V A O` with its accumulator
travelling as a `Val`. If `decA` is a left inverse of `encA`, every fold of the `Val`-level combiner is the
encoding of the typed fold, so `LawfulCombiner t R` transfers — to `R` on the decoded accumulators in
general, to plain equality when `R = Eq`. Instance: the pipeline model's `TopK` (`topKVal k`), which is C06's
literal `topKBy Val.le k` behind `Val.ofList` / `Val.toList`.
-/
namespace IB
open IB.Combiners

section transfer
variable {V A O : Type} (decV : Val → V) (encA : A → Val) (decA : Val → A) (encO : O → Val)
  (t : Combiner V A O)

/-- a `Val`-level fold is the encoding of the typed fold over the decoded values -/
theorem toVal_foldAdd (hdec : ∀ a, decA (encA a) = a) (xs : List Val) : ∀ a : A,
    (t.toVal decV encA decA encO).foldAdd (encA a) xs = encA (t.foldAdd a (xs.map decV)) := by
  induction xs with
  | nil => intro a; rfl
  | cons x xs ih =>
    intro a
    rw [Combiner.foldAdd_cons, List.map_cons, Combiner.foldAdd_cons]
    have : (t.toVal decV encA decA encO).add (encA a) x = encA (t.add a (decV x)) := by
      show encA (t.add (decA (encA a)) (decV x)) = _
      rw [hdec]
    rw [this, ih]

theorem toVal_foldAdd_create (hdec : ∀ a, decA (encA a) = a) (xs : List Val) :
    (t.toVal decV encA decA encO).foldAdd (t.toVal decV encA decA encO).create xs
      = encA (t.foldAdd t.create (xs.map decV)) :=
  toVal_foldAdd decV encA decA encO t hdec xs t.create

/-- **transfer, general form**: accumulators are compared after decoding -/
theorem lawful_toVal {R : A → A → Prop} (hdec : ∀ a, decA (encA a) = a) (h : LawfulCombiner t R) :
    LawfulCombiner (t.toVal decV encA decA encO) (fun x y => R (decA x) (decA y)) where
  refl a := h.refl _
  symm hab := h.symm hab
  trans h1 h2 := h.trans h1 h2
  merge_congr := by
    intro a a' b b' h1 h2
    show R (decA (encA (t.merge (decA a) (decA b)))) (decA (encA (t.merge (decA a') (decA b'))))
    rw [hdec, hdec]
    exact h.merge_congr h1 h2
  finish_congr := by
    intro a b hab
    show encO (t.finish (decA a)) = encO (t.finish (decA b))
    rw [h.finish_congr hab]
  merge_fold := by
    intro xs ys
    rw [toVal_foldAdd_create decV encA decA encO t hdec, toVal_foldAdd_create decV encA decA encO t hdec,
      toVal_foldAdd_create decV encA decA encO t hdec]
    show R (decA (encA (t.merge (decA (encA _)) (decA (encA _))))) (decA (encA _))
    rw [hdec, hdec, hdec, hdec, List.map_append]
    exact h.merge_fold _ _
  build_fold := by
    intro xs
    rw [toVal_foldAdd_create decV encA decA encO t hdec]
    show R (decA (encA (t.build (xs.map decV)))) (decA (encA _))
    rw [hdec, hdec]
    exact h.build_fold _

/-- **transfer for `R = Eq`**: a typed combiner that is lawful on the nose stays lawful on the nose -/
theorem lawful_toVal_eq (hdec : ∀ a, decA (encA a) = a) (h : LawfulCombiner t Eq) :
    LawfulCombiner (t.toVal decV encA decA encO) Eq where
  refl _ := rfl
  symm hab := hab.symm
  trans h1 h2 := h1.trans h2
  merge_congr h1 h2 := by rw [h1, h2]
  finish_congr hab := by rw [hab]
  merge_fold := by
    intro xs ys
    rw [toVal_foldAdd_create decV encA decA encO t hdec, toVal_foldAdd_create decV encA decA encO t hdec,
      toVal_foldAdd_create decV encA decA encO t hdec]
    show encA (t.merge (decA (encA _)) (decA (encA _))) = _
    rw [hdec, hdec, List.map_append, h.merge_fold]
  build_fold := by
    intro xs
    rw [toVal_foldAdd_create decV encA decA encO t hdec]
    show encA (t.build (xs.map decV)) = _
    rw [h.build_fold]

/-- the result of a fold, read through the encoding -/
theorem toVal_finish_fold (hdec : ∀ a, decA (encA a) = a) (xs : List Val) :
    (t.toVal decV encA decA encO).finish
      ((t.toVal decV encA decA encO).foldAdd (t.toVal decV encA decA encO).create xs)
      = encO (t.finish (t.foldAdd t.create (xs.map decV))) := by
  rw [toVal_foldAdd_create decV encA decA encO t hdec]
  show encO (t.finish (decA (encA _))) = _
  rw [hdec]

end transfer

/-! ## the pipeline model's TopK -/

/-- the `Val`-level TopK is lawful on the nose, for every `k` and ALL values (no well-formedness
    assumption): `Val.le` is a total order (`Val.le_totalOrder`), so C06's `topKBy_mergeable'` applies -/
theorem topKVal_lawful (k : Nat) : LawfulCombiner (topKVal k) Eq :=
  lawful_toVal_eq id Val.ofList Val.toList Val.ofList (topKBy Val.le k) Val.toList_ofList
    (topKBy_mergeable' Val.le_totalOrder k).toLawfulCombiner

/-- what it returns: the `k` largest values in descending order -/
theorem topKVal_value (k : Nat) (xs : List Val) :
    (topKVal k).finish ((topKVal k).foldAdd (topKVal k).create xs)
      = Val.ofList ((xs.mergeSort (fun a b => Val.le b a)).take k) := by
  unfold topKVal
  rw [toVal_finish_fold id Val.ofList Val.toList Val.ofList _ Val.toList_ofList, List.map_id]
  show Val.ofList ((topKBy Val.le k).foldAdd (topKBy Val.le k).create xs).reverse = _
  rw [topFold_create_reverse Val.le_totalOrder k xs]
  rfl

end IB
