import IbModel.Model.Validation
/-!
Helper lemmas for C17. The two operator loops of the model (`validateLoop`, `validateValuesLoop`) are shown to be
instances of one generic loop `loopG` (record-id prefix and value projection as parameters); the facts about the
loop are proved once, with the accumulators generalised.
-/
namespace IB.Validation

variable {α κ ε : Type}

/-- generic form of the two loops: `proj` extracts what is validated, `pfx` is the record-id prefix -/
def loopG (pfx : String) (validate : α → VResult ε) (mode : Mode) (hasCollector : Bool) :
    List α → Nat → List α → List (RecordError ε) → Outcome α ε
  | [], _, valid, pushes => ⟨valid, pushes, none⟩
  | elem :: rest, idx, valid, pushes =>
    match validate elem with
    | none => loopG pfx validate mode hasCollector rest (idx + 1) (valid ++ [elem]) pushes
    | some errors =>
      match mode with
      | .skipInvalid => loopG pfx validate mode hasCollector rest (idx + 1) valid pushes
      | .logAndContinue =>
        if hasCollector then
          loopG pfx validate mode hasCollector rest (idx + 1) valid
            (addError pushes (some (pfx ++ toString idx)) errors)
        else loopG pfx validate mode hasCollector rest (idx + 1) valid pushes
      | .failFast => ⟨valid, pushes, some (idx, errors)⟩

theorem validateLoop_eq_loopG (validate : α → VResult ε) (mode : Mode) (c : Bool) (xs : List α) (i : Nat)
    (vs : List α) (ps : List (RecordError ε)) :
    validateLoop validate mode c xs i vs ps = loopG "record_" validate mode c xs i vs ps := by
  induction xs generalizing i vs ps with
  | nil => rfl
  | cons x xs ih =>
    unfold validateLoop loopG
    cases validate x <;> cases mode <;> cases c <;> simp [ih]

theorem validateValuesLoop_eq_loopG (validate : α → VResult ε) (mode : Mode) (c : Bool) (xs : List (κ × α))
    (i : Nat) (vs : List (κ × α)) (ps : List (RecordError ε)) :
    validateValuesLoop validate mode c xs i vs ps
      = loopG "pair_" (fun kv : κ × α => validate kv.2) mode c xs i vs ps := by
  induction xs generalizing i vs ps with
  | nil => rfl
  | cons x xs ih =>
    obtain ⟨k, v⟩ := x
    unfold validateValuesLoop loopG
    cases validate v <;> cases mode <;> cases c <;> simp [ih]

/-- a record is valid iff `validate` returned `Ok(())` -/
def isValid (validate : α → VResult ε) (x : α) : Bool := (validate x).isNone

section loop
variable (pfx : String) (validate : α → VResult ε)

theorem loopG_panic_of_ne_failFast {mode : Mode} (h : mode ≠ .failFast) (c : Bool) (xs : List α) (i : Nat)
    (vs : List α) (ps : List (RecordError ε)) :
    (loopG pfx validate mode c xs i vs ps).panic = none := by
  induction xs generalizing i vs ps with
  | nil => rfl
  | cons x xs ih =>
    unfold loopG
    cases hx : validate x <;> cases mode <;> cases c <;> simp_all

theorem loopG_valid_of_ne_failFast {mode : Mode} (h : mode ≠ .failFast) (c : Bool) (xs : List α) (i : Nat)
    (vs : List α) (ps : List (RecordError ε)) :
    (loopG pfx validate mode c xs i vs ps).valid = vs ++ xs.filter (isValid validate) := by
  induction xs generalizing i vs ps with
  | nil => simp [loopG]
  | cons x xs ih =>
    unfold loopG
    cases hx : validate x <;> cases mode <;> cases c <;> simp_all [isValid]

theorem loopG_pushes_log (xs : List α) (i : Nat) (vs : List α) (ps : List (RecordError ε)) :
    (loopG pfx validate .logAndContinue true xs i vs ps).pushes.map (·.errors)
      = ps.map (·.errors) ++ xs.filterMap validate := by
  induction xs generalizing i vs ps with
  | nil => simp [loopG]
  | cons x xs ih =>
    unfold loopG
    cases hx : validate x <;> simp_all [addError]

/-- the record ids pushed are the prefix followed by the index *within this call* (partition-local) -/
theorem loopG_pushes_log_ids (xs : List α) (i : Nat) (vs : List α) (ps : List (RecordError ε)) :
    (loopG pfx validate .logAndContinue true xs i vs ps).pushes
      = ps ++ (xs.zipIdx i).filterMap
          (fun p => (validate p.1).map (fun es => ⟨some (pfx ++ toString p.2), es⟩)) := by
  induction xs generalizing i vs ps with
  | nil => simp [loopG]
  | cons x xs ih =>
    unfold loopG
    cases hx : validate x <;> simp_all [addError, List.zipIdx_cons]

theorem loopG_pushes_unchanged {mode : Mode} {c : Bool} (h : ¬ (mode = .logAndContinue ∧ c = true))
    (xs : List α) (i : Nat) (vs : List α) (ps : List (RecordError ε)) :
    (loopG pfx validate mode c xs i vs ps).pushes = ps := by
  induction xs generalizing i vs ps with
  | nil => rfl
  | cons x xs ih =>
    unfold loopG
    cases hx : validate x <;> cases mode <;> cases c <;> simp_all

theorem loopG_failFast_ok (c : Bool) (xs : List α) (h : ∀ x ∈ xs, validate x = none) (i : Nat)
    (vs : List α) (ps : List (RecordError ε)) :
    loopG pfx validate .failFast c xs i vs ps = ⟨vs ++ xs, ps, none⟩ := by
  induction xs generalizing i vs ps with
  | nil => simp [loopG]
  | cons x xs ih =>
    unfold loopG
    have hx : validate x = none := h x (by simp)
    have ht : ∀ y ∈ xs, validate y = none := fun y hy => h y (by simp [hy])
    simp [hx, ih ht]

/-- fail-fast stops at the first invalid element, quoting its partition-local index and its errors -/
theorem loopG_failFast_first (c : Bool) (pre : List α) (x : α) (post : List α) (es : List ε)
    (hpre : ∀ y ∈ pre, validate y = none) (hx : validate x = some es) (i : Nat)
    (vs : List α) (ps : List (RecordError ε)) :
    loopG pfx validate .failFast c (pre ++ x :: post) i vs ps = ⟨vs ++ pre, ps, some (i + pre.length, es)⟩ := by
  induction pre generalizing i vs ps with
  | nil => simp [loopG, hx]
  | cons y pre ih =>
    have hy : validate y = none := hpre y (by simp)
    have ht : ∀ z ∈ pre, validate z = none := fun z hz => hpre z (by simp [hz])
    simp only [List.cons_append]
    unfold loopG
    simp only [hy]
    rw [ih ht]
    simp only [List.append_assoc, List.cons_append, List.nil_append, List.length_cons, Outcome.mk.injEq,
      Option.some.injEq, Prod.mk.injEq, and_true, true_and]
    omega

/-- every list is all-valid, or splits at its first invalid element -/
theorem first_invalid_split (xs : List α) :
    (∀ x ∈ xs, validate x = none) ∨
    ∃ pre x post es, xs = pre ++ x :: post ∧ (∀ y ∈ pre, validate y = none) ∧ validate x = some es := by
  induction xs with
  | nil => left; simp
  | cons x xs ih =>
    cases hx : validate x with
    | some es => right; exact ⟨[], x, xs, es, rfl, by simp, hx⟩
    | none =>
      rcases ih with h | ⟨pre, y, post, es, rfl, hpre, hy⟩
      · left; intro z hz
        rcases List.mem_cons.mp hz with rfl | hz
        · exact hx
        · exact h z hz
      · right
        refine ⟨x :: pre, y, post, es, rfl, ?_, hy⟩
        intro z hz
        rcases List.mem_cons.mp hz with rfl | hz
        · exact hx
        · exact hpre z hz

end loop

/-! ### what the rest of the development needs to know about an operator -/

/-- Per-partition contract of a validation operator `op` for `validate`, `mode`, collector present or not. -/
structure ValidatorSpec (validate : α → VResult ε) (mode : Mode) (c : Bool)
    (op : List α → Outcome α ε) : Prop where
  /-- the loop is left by `panic!` exactly in fail-fast mode on a partition with an invalid record … -/
  panic_iff : ∀ xs, (op xs).panic ≠ none ↔ (mode = .failFast ∧ ∃ x ∈ xs, validate x ≠ none)
  /-- … otherwise the output partition is the valid records in their original order -/
  valid_eq : ∀ xs, (op xs).panic = none → (op xs).valid = xs.filter (isValid validate)
  /-- the error lists pushed to the collector, in order: those of the invalid records if logging, else none -/
  pushes_errors : ∀ xs, (op xs).pushes.map (·.errors)
      = if mode = .logAndContinue ∧ c = true then xs.filterMap validate else []

theorem loopG_spec (pfx : String) (validate : α → VResult ε) (mode : Mode) (c : Bool) :
    ValidatorSpec validate mode c (fun xs => loopG pfx validate mode c xs 0 [] []) where
  panic_iff xs := by
    by_cases hm : mode = .failFast
    · subst hm
      rcases first_invalid_split validate xs with h | ⟨pre, x, post, es, rfl, hpre, hx⟩
      · simp only [loopG_failFast_ok pfx validate c xs h, ne_eq, not_true_eq_false, true_and, false_iff,
          not_exists, not_and, Decidable.not_not]
        exact h
      · simp only [loopG_failFast_first pfx validate c pre x post es hpre hx, ne_eq, true_and]
        constructor
        · intro _; exact ⟨x, by simp, by simp [hx]⟩
        · intro _; simp
    · simp [loopG_panic_of_ne_failFast pfx validate hm, hm]
  valid_eq xs hp := by
    by_cases hm : mode = .failFast
    · subst hm
      rcases first_invalid_split validate xs with h | ⟨pre, x, post, es, rfl, hpre, hx⟩
      · rw [loopG_failFast_ok pfx validate c xs h]
        simp only [List.nil_append]
        exact (List.filter_eq_self.mpr (fun a ha => by simp [isValid, h a ha])).symm
      · rw [loopG_failFast_first pfx validate c pre x post es hpre hx] at hp
        simp at hp
    · simpa using loopG_valid_of_ne_failFast pfx validate hm c xs 0 [] []
  pushes_errors xs := by
    by_cases h : mode = .logAndContinue ∧ c = true
    · obtain ⟨rfl, rfl⟩ := h
      simpa using loopG_pushes_log pfx validate xs 0 [] []
    · rw [loopG_pushes_unchanged pfx validate h]; simp [h]

/-! ### small list facts -/

/-- the error lists of the invalid records, one per invalid record, in order -/
theorem filterMap_validate_eq (validate : α → VResult ε) (xs : List α) :
    xs.filterMap validate = (xs.filter (fun x => !isValid validate x)).map (fun x => (validate x).getD []) := by
  induction xs with
  | nil => rfl
  | cons x xs ih => cases hx : validate x <;> simp [isValid, hx, ih]

theorem combine_fold (rs : List (VResult ε)) (b : Bool) (acc : List ε) :
    rs.foldl combineStep (b, acc)
      = (b || rs.any (·.isSome), acc ++ (rs.filterMap id).flatten) := by
  induction rs generalizing b acc with
  | nil => simp
  | cons r rs ih => cases r <;> simp [ih, combineStep]

theorem legacy_combine_fold (rs : List (VResult ε)) (acc : List ε) :
    rs.foldl Legacy.combineStep acc
      = acc ++ (rs.filterMap id).flatten := by
  induction rs generalizing acc with
  | nil => simp
  | cons r rs ih => cases r <;> simp [ih, Legacy.combineStep]

/-! ### partition arithmetic -/

theorem chunksAux_flatten (chunk : Nat) (hc : 1 ≤ chunk) (fuel : Nat) (xs : List α) (h : xs.length ≤ fuel) :
    (chunksAux chunk fuel xs).flatten = xs := by
  induction fuel generalizing xs with
  | zero =>
    have : xs = [] := List.length_eq_zero_iff.mp (by omega)
    subst this; rfl
  | succ n ih =>
    unfold chunksAux
    cases xs with
    | nil => simp
    | cons x xs =>
      have hl : ((x :: xs).drop chunk).length ≤ n := by
        simp only [List.length_drop, List.length_cons] at *
        omega
      simp only [List.isEmpty_cons, Bool.false_eq_true, ↓reduceIte, List.flatten_cons, ih _ hl,
        List.take_append_drop]

theorem split_flatten (n : Nat) (v : List α) : (split n v).flatten = v := by
  unfold split
  split
  · simp
  · rename_i h
    have h1 : ¬ n ≤ 1 := fun h' => h (Or.inl h')
    have h2 : ¬ v.length ≤ 1 := fun h' => h (Or.inr h')
    apply chunksAux_flatten _ _ _ _ (Nat.le_refl _)
    have : n ≤ v.length + n - 1 := by omega
    exact (Nat.le_div_iff_mul_le (by omega)).mpr (by omega)

theorem sourcePartitions_flatten (n : Nat) (v : List α) : (sourcePartitions n v).flatten = v :=
  split_flatten _ v

/-! ### interleavings -/

theorem Interleave.perm {β : Type} {ps : List (List β)} {out : List β} (h : Interleave ps out) :
    out.Perm ps.flatten := by
  induction h with
  | @done ps hnil =>
    have : ps.flatten = [] := by
      simp only [List.flatten_eq_nil_iff]; exact hnil
    rw [this]
  | @take a b x rest out _ ih =>
    simp only [List.flatten_append, List.flatten_cons, List.cons_append] at ih ⊢
    exact (List.Perm.cons x ih).trans List.perm_middle.symm

/-- an empty sequence contributes nothing -/
theorem Interleave.cons_nil {β : Type} {ps : List (List β)} {out : List β} (h : Interleave ps out) :
    Interleave ([] :: ps) out := by
  induction h with
  | @done ps hnil =>
    exact .done (by intro l hl; rcases List.mem_cons.mp hl with rfl | hl; rfl; exact hnil l hl)
  | @take a b x rest out _ ih => exact Interleave.take (a := [] :: a) ih

/-- the partition-by-partition order (what `runParts` reports) is one of the interleavings -/
theorem Interleave.flatten {β : Type} (ps : List (List β)) : Interleave ps ps.flatten := by
  induction ps with
  | nil => exact .done (by simp)
  | cons p ps ih =>
    induction p with
    | nil => simpa using ih.cons_nil
    | cons x p ihp =>
      simp only [List.flatten_cons, List.cons_append] at ihp ⊢
      exact Interleave.take (a := []) ihp

/-- an interleaving of ONE sequence is that sequence (a sequential run has one partition) -/
theorem Interleave.singleton {β : Type} {l out : List β} (h : Interleave [l] out) : out = l := by
  generalize hps : [l] = ps at h
  induction h generalizing l with
  | @done ps hnil => subst hps; exact (hnil l (by simp)).symm
  | @take a b x rest out _ ih =>
    cases a with
    | nil =>
      simp only [List.nil_append, List.cons.injEq] at hps
      obtain ⟨rfl, rfl⟩ := hps
      rw [ih (l := rest) rfl]
    | cons y a => simp at hps

/-! ### the collector object -/

theorem Collector.absorb_entries (c : Collector ε) (coll : List (RecordError ε)) :
    (c.absorb coll).entries = c.entries ++ coll := by
  unfold Collector.absorb
  induction coll generalizing c with
  | nil => simp
  | cons e coll ih => simp [ih, Collector.push, addError]

theorem Collector.absorb_poisoned (c : Collector ε) (coll : List (RecordError ε)) :
    (c.absorb coll).poisoned = c.poisoned := by
  unfold Collector.absorb
  induction coll generalizing c with
  | nil => simp
  | cons e coll ih => simp [ih, Collector.push]

/-- the entries a logging validator with id prefix `pfx` pushes for one partition: one per invalid record, in
    order, the id being the prefix followed by the index INSIDE the partition -/
def logEntries (pfx : String) (validate : α → VResult ε) (xs : List α) : List (RecordError ε) :=
  xs.zipIdx.filterMap (fun p => (validate p.1).map (fun es => ⟨some (pfx ++ toString p.2), es⟩))

theorem logEntries_errors (pfx : String) (validate : α → VResult ε) (xs : List α) :
    (logEntries pfx validate xs).map (·.errors) = xs.filterMap validate := by
  have h := loopG_pushes_log pfx validate xs 0 [] []
  rw [loopG_pushes_log_ids] at h
  simpa [logEntries] using h

/-! ### the legacy (`lock().unwrap()`) loop -/

theorem legacy_validateLoop_healthy (validate : α → VResult ε) (mode : Mode) (c : Bool) (xs : List α) (i : Nat)
    (vs : List α) (ps : List (RecordError ε)) :
    Legacy.validateLoop validate mode c false xs i vs ps = validateLoop validate mode c xs i vs ps := by
  induction xs generalizing i vs ps with
  | nil => rfl
  | cons x xs ih =>
    unfold Legacy.validateLoop validateLoop
    cases validate x <;> cases mode <;> cases c <;> simp [ih]

theorem legacy_validateLoop_not_logging (validate : α → VResult ε) {mode : Mode} {c : Bool}
    (h : ¬ (mode = .logAndContinue ∧ c = true)) (p : Bool) (xs : List α) (i : Nat)
    (vs : List α) (ps : List (RecordError ε)) :
    Legacy.validateLoop validate mode c p xs i vs ps = validateLoop validate mode c xs i vs ps := by
  induction xs generalizing i vs ps with
  | nil => rfl
  | cons x xs ih =>
    unfold Legacy.validateLoop validateLoop
    cases validate x <;> cases mode <;> cases c <;> simp_all

/-- with a poisoned collector the legacy log loop stopped at the first invalid record -/
theorem legacy_validateLoop_poisoned_first (validate : α → VResult ε) (pre : List α) (x : α) (post : List α)
    (es : List ε) (hpre : ∀ y ∈ pre, validate y = none) (hx : validate x = some es) (i : Nat)
    (vs : List α) (ps : List (RecordError ε)) :
    Legacy.validateLoop validate .logAndContinue true true (pre ++ x :: post) i vs ps
      = ⟨vs ++ pre, ps, some (i + pre.length, es)⟩ := by
  induction pre generalizing i vs ps with
  | nil => simp [Legacy.validateLoop, hx]
  | cons y pre ih =>
    have hy : validate y = none := hpre y (by simp)
    have ht : ∀ z ∈ pre, validate z = none := fun z hz => hpre z (by simp [hz])
    simp only [List.cons_append]
    unfold Legacy.validateLoop
    simp only [hy]
    rw [ih ht]
    simp only [List.append_assoc, List.cons_append, List.nil_append, List.length_cons, Outcome.mk.injEq,
      Option.some.injEq, Prod.mk.injEq, and_true, true_and]
    omega

/-! ### regrouping -/

theorem insertByKey_perm (key : α → Int) (x : α) (l : List α) : (insertByKey key x l).Perm (x :: l) := by
  induction l with
  | nil => exact List.Perm.refl _
  | cons y ys ih =>
    unfold insertByKey
    split
    · exact (List.Perm.cons y ih).trans (List.Perm.swap x y ys)
    · exact List.Perm.refl _

theorem regroupBy_perm' (key : α → Int) (xs : List α) : (regroupBy key xs).Perm xs := by
  induction xs with
  | nil => exact List.Perm.refl _
  | cons x xs ih => exact (insertByKey_perm key x _).trans (List.Perm.cons x ih)

/-! ### fused blocks -/

theorem applyBlock_of_panicked (ops : List (BlockOp α ε)) (st : Outcome α ε) (h : st.panic.isSome = true) :
    applyBlock ops st = st := by
  cases ops with
  | nil => rfl
  | cons s rest => simp [applyBlock, h]

theorem applyBlock_append (a b : List (BlockOp α ε)) (st : Outcome α ε) :
    applyBlock (a ++ b) st = applyBlock b (applyBlock a st) := by
  induction a generalizing st with
  | nil => rfl
  | cons s a ih =>
    by_cases hp : st.panic.isSome = true
    · rw [applyBlock_of_panicked _ _ hp, applyBlock_of_panicked _ _ hp, applyBlock_of_panicked _ _ hp]
    · simp only [List.cons_append, applyBlock, hp, Bool.false_eq_true, ↓reduceIte]
      cases s <;> simp only [ih]

end IB.Validation
