import IbModel.Model.WindowPlan
import IbModel.Proofs.Window
import IbModel.Proofs.Gbk
/-!
# C13 ↔ the engine / planner / `group_by_key` models of C01–C08

`Model/Window.lean` describes the windowing helpers with a bespoke "keyed map on every partition, then an
association-list `group_by_key`" (`groupPipeline`, over typed rows).  This file shows that this is **the same thing**
the shared models compute for the plan the builders create:

* `Window.upsert` / `groupLocal` / `mergeInto` / `groupMerge` are, under any injective key encoding into `Val`, exactly
  `IB.upsert` / `groupRows` / `upsertFold` / `mergeGroups` of `Model/Closures.lean` — the `group_by_key` model of C04 —
  row order included (`groupByKeyPar_enc`);
* `splitVec` is `vecSplit` on the encoded rows (`vecSplit_enc`; both are written with `IB.chunksOf`);
* hence the chain `from_vec(..) → Stateless[map] → GroupByKey`, run by the engine model `execSeq` / `execPar` after the
  planner model `optimise`, returns the wire image of `groupPipeline f [xs]` / `groupPipeline f (sourceParts xs n)`
  whenever no element panics (`enginePlan_seq`, `enginePlan_par`).  The engine model has no notion of a panicking
  closure, so the statement is about runs in which every element has a window.
-/
namespace IB.Window
open IB

section Enc
variable {κ β : Type} [DecidableEq κ] (encK : κ → Val) (encV : β → Val)

/-- a typed `(K, V)` row as the engine model's `Val` row -/
def encRow (kv : κ × β) : Val := .pair (encK kv.1) (encV kv.2)
/-- a typed group as an entry of C04's association list -/
def encGroup (g : κ × List β) : Val × List Val := (encK g.1, g.2.map encV)

theorem upsert_enc (hinj : Function.Injective encK) (k : κ) (vs : List β) (m : List (κ × List β)) :
    (Window.upsert k vs m).map (encGroup encK encV) =
      IB.upsert (m.map (encGroup encK encV)) (encK k) [] (fun ws => ws ++ vs.map encV) := by
  induction m with
  | nil => simp [Window.upsert, IB.upsert, encGroup]
  | cons g rest ih =>
    obtain ⟨k', ws⟩ := g
    simp only [Window.upsert, List.map_cons, IB.upsert, encGroup]
    by_cases hk : k' = k
    · subst hk; simp [encGroup]
    · have hne : (encK k' == encK k) = false := by
        simp only [beq_eq_false_iff_ne, ne_eq]
        exact fun e => hk (hinj e)
      simp only [hk, if_false, hne, Bool.false_eq_true, List.map_cons]
      rw [ih]; rfl

/-- GBK local stage = C04's `groupRows` on the encoded rows (generalised over the accumulator) -/
theorem foldl_local_enc (hinj : Function.Injective encK) (kvs : List (κ × β)) (acc : List (κ × List β)) :
    (kvs.foldl (fun m kv => Window.upsert kv.1 [kv.2] m) acc).map (encGroup encK encV) =
      upsertFold (fun vs v => vs ++ [v]) [] (acc.map (encGroup encK encV))
        ((kvs.map (encRow encK encV)).map rowKV) := by
  induction kvs generalizing acc with
  | nil => rfl
  | cons kv rest ih =>
    simp only [List.foldl_cons, List.map_cons, upsertFold]
    rw [ih, upsert_enc encK encV hinj]
    simp [upsertFold, rowKV, encRow, Val.key, Val.value]

theorem groupLocal_enc (hinj : Function.Injective encK) (kvs : List (κ × β)) :
    (groupLocal kvs).map (encGroup encK encV) = groupRows (kvs.map (encRow encK encV)) := by
  have := foldl_local_enc encK encV hinj kvs []
  simpa [groupLocal, groupRows] using this

/-- GBK merge stage, one partition = C04's `upsertFold (· ++ ·)` -/
theorem mergeInto_enc (hinj : Function.Injective encK) (m acc : List (κ × List β)) :
    (mergeInto acc m).map (encGroup encK encV) =
      upsertFold (fun vs ws => vs ++ ws) [] (acc.map (encGroup encK encV)) (m.map (encGroup encK encV)) := by
  unfold mergeInto
  induction m generalizing acc with
  | nil => rfl
  | cons g rest ih =>
    simp only [List.foldl_cons, List.map_cons, upsertFold]
    rw [ih, upsert_enc encK encV hinj]
    simp [upsertFold, encGroup]

theorem foldl_merge_enc (hinj : Function.Injective encK) (ms : List (List (κ × List β))) (acc : List (κ × List β)) :
    (ms.foldl mergeInto acc).map (encGroup encK encV) =
      (ms.map (List.map (encGroup encK encV))).foldl
        (fun acc m => upsertFold (fun vs ws => vs ++ ws) [] acc m) (acc.map (encGroup encK encV)) := by
  induction ms generalizing acc with
  | nil => rfl
  | cons m rest ih =>
    simp only [List.foldl_cons, List.map_cons]
    rw [ih, mergeInto_enc encK encV hinj]

/-- **`Window.groupByKeyPar` IS C04's `group_by_key`** (`mergeGroups (parts.map groupRows)`, `Model/Closures.lean`)
    on the encoded rows, for every partition list — the same association list, row order included -/
theorem groupByKeyPar_enc (hinj : Function.Injective encK) (parts : List (List (κ × β))) :
    (groupByKeyPar parts).map (encGroup encK encV) =
      mergeGroups ((parts.map (List.map (encRow encK encV))).map groupRows) := by
  unfold groupByKeyPar groupMerge mergeGroups
  have := foldl_merge_enc encK encV hinj (parts.map groupLocal) []
  simp only [List.map_nil, List.map_map] at this ⊢
  rw [this]
  congr 1
  apply List.map_congr_left
  intro p _
  simp only [Function.comp]
  exact groupLocal_enc encK encV hinj p

end Enc

/-! ## the source split -/

theorem chunksOf_map {α γ : Type} (f : α → γ) (c : Nat) :
    ∀ (fuel : Nat) (xs : List α), chunksOf c fuel (xs.map f) = (chunksOf c fuel xs).map (List.map f) := by
  intro fuel
  induction fuel with
  | zero => intro xs; rfl
  | succ n ih =>
    intro xs
    unfold chunksOf
    cases xs with
    | nil => rfl
    | cons x rest =>
      simp only [List.map_cons, List.isEmpty_cons, Bool.false_eq_true, if_false]
      rw [← List.map_cons, ← List.map_take, ← List.map_drop, ih]

/-- C13's `splitVec` on typed rows = C01–C08's `vecSplit` on the encoded rows -/
theorem vecSplit_enc {α : Type} (enc : α → Val) (xs : List α) (n : Nat) :
    vecSplit (xs.map enc) n = (splitVec xs n).map (List.map enc) := by
  unfold vecSplit splitVec chunks
  simp only [List.length_map]
  split
  · rfl
  · exact chunksOf_map enc _ _ xs

/-! ## the plan `from_vec → Stateless[map] → GroupByKey` on both engines, after the planner -/

section Plan
variable {α κ β : Type} [DecidableEq κ]

/-- the planner model leaves that chain alone (one stateless block of one op, nothing to lift or drop) -/
theorem optimise_mapGbkChain (F : Val → Val) (src : List Val) :
    optimise (mapGbkChain F src) = mapGbkChain F src := by
  simp [optimise, mapGbkChain, fuse, reorder, reorderBlock, liftGbk, dropMid, vecSource, gbkNode]

theorem applyOps_single {P : Type} (op : DynOp P) : applyOps [op] = op.apply := by
  funext b; rfl

theorem gbkMerge_locals (ps : List (List Val)) :
    gbkMerge (ps.map gbkLocal) = encGroups (mergeGroups (ps.map groupRows)) := by
  unfold gbkMerge gbkLocal
  simp only [List.map_map]
  have : (decGroups ∘ fun rows => encGroups (groupRows rows)) = groupRows := by
    funext p; simp
  rw [this]

/-- a Val-level closure `F` that does on encoded elements what the typed (possibly panicking) closure `f` does -/
def Realises (encA : α → Val) (encK : κ → Val) (encV : β → Val) (f : α → Option (κ × β)) (F : Val → Val) : Prop :=
  ∀ a r, f a = some r → F (encA a) = encRow encK encV r

omit [DecidableEq κ] in
theorem map_realises {encA : α → Val} {encK : κ → Val} {encV : β → Val} {f : α → Option (κ × β)} {F : Val → Val}
    (hF : Realises encA encK encV f F) (p : List α) (rows : List (κ × β)) (h : mapAll f p = some rows) :
    (p.map encA).map F = rows.map (encRow encK encV) := by
  rw [mapAll_eq_some_iff] at h
  induction p generalizing rows with
  | nil => cases rows <;> simp at h ⊢
  | cons a p ih =>
    cases rows with
    | nil => simp at h
    | cons r rows =>
      simp only [List.map_cons, List.cons.injEq] at h ⊢
      exact ⟨hF a r h.1, ih rows h.2⟩

omit [DecidableEq κ] in
theorem parts_realises {encA : α → Val} {encK : κ → Val} {encV : β → Val} {f : α → Option (κ × β)} {F : Val → Val}
    (hF : Realises encA encK encV f F) (parts : List (List α)) (kparts : List (List (κ × β)))
    (h : mapAll (mapAll f) parts = some kparts) :
    (parts.map (List.map encA)).map (List.map F) = kparts.map (List.map (encRow encK encV)) := by
  rw [mapAll_eq_some_iff] at h
  induction parts generalizing kparts with
  | nil => cases kparts <;> simp at h ⊢
  | cons p ps ih =>
    cases kparts with
    | nil => simp at h
    | cons kp kps =>
      simp only [List.map_cons, List.cons.injEq] at h ⊢
      exact ⟨map_realises hF p kp h.1, ih kps h.2⟩

/-- **Parallel engine.** For every partition count `n`: if the bespoke model's run over `exec_par`'s split returns the
    grouping `gp` (no element panics), the engine model `execPar` — after the planner model — run on the plan
    `Source → Stateless[map F] → GroupByKey` returns exactly the wire image of `gp` (same rows, same order). -/
theorem enginePlan_par (encA : α → Val) (encK : κ → Val) (encV : β → Val) (hinj : Function.Injective encK)
    (f : α → Option (κ × β)) (F : Val → Val) (hF : Realises encA encK encV f F)
    (xs : List α) (n : Nat) (gp : List (κ × List β))
    (h : groupPipeline f (sourceParts xs n) = some gp) :
    execPar List.flatten (optimise (mapGbkChain F (xs.map encA))) n =
      pure (encGroups (gp.map (encGroup encK encV))) := by
  rw [optimise_mapGbkChain]
  unfold groupPipeline at h
  cases hk : mapAll (mapAll f) (sourceParts xs n) with
  | none => simp [hk] at h
  | some kparts =>
    simp only [hk, Option.map_some, Option.some.injEq] at h
    subst h
    have hparts := parts_realises hF _ _ hk
    unfold sourceParts at hparts
    rw [← vecSplit_enc encA xs] at hparts
    simp only [execPar, mapGbkChain, vecSource, gbkNode, List.foldlM_cons, List.foldlM_nil, stepPar, stepSubPar,
      pure_bind, coalesce, List.length_map, mapOp, withFlags]
    rw [applyOps_single]
    dsimp only
    rw [hparts, gbkMerge_locals, groupByKeyPar_enc encK encV hinj]

/-- **Sequential engine**: the same for `execSeq` and the single partition `[xs]`. -/
theorem enginePlan_seq (encA : α → Val) (encK : κ → Val) (encV : β → Val) (hinj : Function.Injective encK)
    (f : α → Option (κ × β)) (F : Val → Val) (hF : Realises encA encK encV f F)
    (xs : List α) (gq : List (κ × List β)) (h : groupPipeline f [xs] = some gq) :
    execSeq (optimise (mapGbkChain F (xs.map encA))) = pure (encGroups (gq.map (encGroup encK encV))) := by
  rw [optimise_mapGbkChain]
  unfold groupPipeline at h
  cases hk : mapAll (mapAll f) [xs] with
  | none => simp [hk] at h
  | some kparts =>
    simp only [hk, Option.map_some, Option.some.injEq] at h
    subst h
    have hparts := parts_realises hF _ _ hk
    simp only [List.map_cons, List.map_nil] at hparts
    cases kparts with
    | nil => simp at hparts
    | cons kp rest =>
      cases rest with
      | cons _ _ => simp at hparts
      | nil =>
        simp only [List.map_cons, List.map_nil, List.cons.injEq, and_true] at hparts
        simp only [execSeq, mapGbkChain, vecSource, gbkNode, List.foldlM_cons, List.foldlM_nil, stepSeq, stepSubSeq,
          need, pure_bind, bind_pure, applyOps, List.foldl_cons, List.foldl_nil, mapOp, withFlags]
        try simp only [applyOps, List.foldl_cons, List.foldl_nil]
        have : gbkMerge [gbkLocal (List.map F (List.map encA xs))] =
            encGroups (mergeGroups ([List.map F (List.map encA xs)].map groupRows)) := gbkMerge_locals [_]
        rw [this, hparts, groupByKeyPar_enc encK encV hinj]
        rfl

end Plan

/-! ## instances: the two window closures as `Val` closures (`Model/WindowPlan.lean`) -/

theorem encW_injective : Function.Injective encW := by
  intro a b h
  cases a; cases b
  simp only [encW, Val.pair.injEq, Val.int.injEq, Int.natCast_inj] at h
  simp [h.1, h.2]

theorem encKW_injective : Function.Injective encKW := by
  intro a b h
  obtain ⟨k, w⟩ := a; obtain ⟨k', w'⟩ := b
  simp only [encKW, Val.pair.injEq, Val.int.injEq] at h
  rw [h.1, encW_injective h.2]

theorem windowKeyVal_realises (size off : Nat) :
    Realises encEv encW (fun v : Int => Val.int v) (windowKey size off) (windowKeyVal size off) := by
  intro ev r h
  unfold windowKey keyed windowOf at h
  cases ht : tumble ev.ts size off with
  | none => simp [ht] at h
  | some w =>
    simp only [ht, Option.map_some, Option.some.injEq] at h
    subst h
    simp [windowKeyVal, encEv, encRow, ht]

theorem keyWindowKeyVal_realises (size off : Nat) :
    Realises encKEv encKW (fun v : Int => Val.int v) (keyWindowKey size off) (keyWindowKeyVal size off) := by
  intro kv r h
  unfold keyWindowKey keyed keyWindowOf at h
  cases ht : tumble kv.2.ts size off with
  | none => simp [ht] at h
  | some w =>
    simp only [ht, Option.map_some, Option.some.injEq] at h
    subst h
    simp [keyWindowKeyVal, encKEv, encEv, encRow, encKW, ht]

end IB.Window
