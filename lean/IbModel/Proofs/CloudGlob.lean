import IbModel.Model.CloudGlob
/-!
Helper lemmas for C19 (core Lean only): the split loops, the token-level matcher, the parser on the
text `glob_to_regex` emits, the key order.
-/
namespace IB.CloudGlob

/-! ## split loops -/

theorem splitLoop_iff (ok : Char → Bool) (cont : Str → Bool) (k : Str) :
    splitLoop ok cont k = true ↔ ∃ s r, k = s ++ r ∧ (∀ c ∈ s, ok c = true) ∧ cont r = true := by
  induction k with
  | nil =>
    simp only [splitLoop]
    constructor
    · intro h; exact ⟨[], [], rfl, by simp, h⟩
    · rintro ⟨s, r, he, _, hr⟩
      have : r = [] := (List.append_eq_nil_iff.mp he.symm).2
      simpa [this] using hr
  | cons c k ih =>
    simp only [splitLoop, Bool.or_eq_true, Bool.and_eq_true, ih]
    constructor
    · rintro (h | ⟨hc, s, r, rfl, hs, hr⟩)
      · exact ⟨[], c :: k, rfl, by simp, h⟩
      · refine ⟨c :: s, r, rfl, ?_, hr⟩
        intro x hx
        rcases List.mem_cons.mp hx with rfl | hx
        · exact hc
        · exact hs x hx
    · rintro ⟨s, r, he, hs, hr⟩
      cases s with
      | nil =>
        left
        have : r = c :: k := by simpa using he.symm
        simpa [this] using hr
      | cons d s =>
        have h1 : c = d ∧ k = s ++ r := by simpa using he
        obtain ⟨rfl, rfl⟩ := h1
        right
        exact ⟨hs c (by simp), s, r, rfl, fun x hx => hs x (by simp [hx]), hr⟩

theorem manyLoop_eq_splitLoop (acc : Char → Bool) (cont : Str → Bool) (k : Str) :
    manyLoop acc cont k = splitLoop acc cont k := by
  induction k with
  | nil => rfl
  | cons c k ih => simp only [manyLoop, splitLoop, ih]

/-- the loops only look at the characters of `k` and at the continuation on suffixes of `k` -/
theorem splitLoop_congr {ok ok' : Char → Bool} {cont cont' : Str → Bool} (k : Str)
    (hok : ∀ c ∈ k, ok c = ok' c) (hc : ∀ r, r <:+ k → cont r = cont' r) :
    splitLoop ok cont k = splitLoop ok' cont' k := by
  induction k with
  | nil => simp only [splitLoop]; exact hc [] (List.suffix_refl _)
  | cons c k ih =>
    simp only [splitLoop]
    rw [hc (c :: k) (List.suffix_refl _), hok c (by simp),
      ih (fun x hx => hok x (by simp [hx])) (fun r hr => hc r (List.suffix_cons_iff.mpr (Or.inr hr)))]

/-! ## the token-level matcher and the declarative syntax -/

/-- executable matcher on tokens (bridge between `globMatch`, `Matches` and the regex matcher) -/
def matchToks : List Tok → Str → Bool
  | [], k => k.isEmpty
  | .star :: ts, k => splitLoop (fun x => x != '/') (matchToks ts) k
  | .dstar :: ts, k => splitLoop (fun _ => true) (matchToks ts) k
  | .q :: ts, k =>
    match k with
    | [] => false
    | _ :: k' => matchToks ts k'
  | .lit c :: ts, k =>
    match k with
    | [] => false
    | x :: k' => x == c && matchToks ts k'

theorem globMatch_eq_matchToks (pat key : Str) : globMatch pat key = matchToks (tokenize pat) key := by
  fun_induction tokenize pat generalizing key with
  | case1 => simp [globMatch, matchToks]
  | case2 p' ih =>
    rw [globMatch.eq_def]
    simp only [if_true, matchToks]
    exact splitLoop_congr key (fun _ _ => rfl) (fun r _ => ih r)
  | case3 d p' hd ih =>
    rw [globMatch.eq_def]
    simp only [if_true, hd, if_false, matchToks]
    exact splitLoop_congr key (fun _ _ => rfl) (fun r _ => ih r)
  | case4 =>
    rw [globMatch.eq_def]
    simp only [if_true, matchToks]
    exact splitLoop_congr key (fun _ _ => rfl) (fun r _ => by simp [globMatch, matchToks])
  | case5 p hne ih =>
    rw [globMatch.eq_def]
    simp only [Char.reduceEq, if_false, if_true, matchToks]
    cases key with
    | nil => rfl
    | cons x k => exact ih k
  | case6 c p hc hq ih =>
    rw [globMatch.eq_def]
    simp only [hc, hq, if_false, matchToks]
    cases key with
    | nil => rfl
    | cons x k => simp only [ih k]

theorem matchToks_iff_matches (ts : List Tok) (k : Str) : matchToks ts k = true ↔ Matches ts k := by
  induction ts generalizing k with
  | nil =>
    simp only [matchToks, List.isEmpty_iff]
    constructor
    · rintro rfl; exact .nil
    · intro h; cases h; rfl
  | cons t ts ih =>
    constructor
    · intro h
      cases t with
      | star =>
        obtain ⟨s, r, rfl, hs, hr⟩ := (splitLoop_iff _ _ _).mp h
        refine .cons ?_ ((ih r).mp hr)
        intro hm
        simpa using hs '/' hm
      | dstar =>
        obtain ⟨s, r, rfl, _, hr⟩ := (splitLoop_iff _ _ _).mp h
        exact .cons trivial ((ih r).mp hr)
      | q =>
        cases k with
        | nil => simp [matchToks] at h
        | cons x k' =>
          simp only [matchToks] at h
          exact .cons (s := [x]) ⟨x, rfl⟩ ((ih k').mp h)
      | lit c =>
        cases k with
        | nil => simp [matchToks] at h
        | cons x k' =>
          simp only [matchToks, Bool.and_eq_true, beq_iff_eq] at h
          obtain ⟨rfl, h2⟩ := h
          exact .cons (s := [x]) rfl ((ih k').mp h2)
    · intro h
      cases h with
      | @cons _ _ s r htm hm =>
        have hr := (ih r).mpr hm
        cases t with
        | star =>
          refine (splitLoop_iff _ _ _).mpr ⟨s, r, rfl, ?_, hr⟩
          intro c hc
          have : c ≠ '/' := fun e => htm (e ▸ hc)
          simpa using this
        | dstar => exact (splitLoop_iff _ _ _).mpr ⟨s, r, rfl, fun _ _ => rfl, hr⟩
        | q =>
          obtain ⟨c, rfl⟩ := htm
          simpa [matchToks] using hr
        | lit c =>
          have : s = [c] := htm
          subst this
          simpa [matchToks] using hr

/-! ## the regex route on tokens -/

def toItem : Tok → Item
  | .star => .many .notSlash
  | .dstar => .many .dot
  | .q => .one .dot
  | .lit c => .one (.chr c)

/-- under `(?s)` the emitted items accept exactly what the tokens accept -/
theorem matchHere_toItems (ts : List Tok) (k : Str) :
    matchHere true true (ts.map toItem) k = matchToks ts k := by
  induction ts generalizing k with
  | nil => simp [matchHere, matchToks]
  | cons t ts ih =>
    cases t with
    | star =>
      simp only [List.map_cons, toItem, matchHere, matchToks, manyLoop_eq_splitLoop]
      exact splitLoop_congr k (fun c _ => by simp [Atom.accepts]) (fun r _ => ih r)
    | dstar =>
      simp only [List.map_cons, toItem, matchHere, matchToks, manyLoop_eq_splitLoop]
      exact splitLoop_congr k (fun c _ => by simp [Atom.accepts]) (fun r _ => ih r)
    | q =>
      cases k with
      | nil => simp [toItem, matchHere, matchToks]
      | cons x k' => simp [toItem, matchHere, matchToks, Atom.accepts, ih k']
    | lit c =>
      cases k with
      | nil => simp [toItem, matchHere, matchToks]
      | cons x k' =>
        simp only [List.map_cons, toItem, matchHere, matchToks, Atom.accepts, ih k']
        rw [Bool.beq_comm]

/-- without `(?s)` (pinned commit) the same holds for keys that contain no `\n` -/
theorem matchHere_toItems_noNL (ts : List Tok) (k : Str) (hk : '\n' ∉ k) :
    matchHere false true (ts.map toItem) k = matchToks ts k := by
  induction ts generalizing k with
  | nil => simp [matchHere, matchToks]
  | cons t ts ih =>
    have hsuf : ∀ r, r <:+ k → '\n' ∉ r := fun r hr hm => hk (hr.subset hm)
    cases t with
    | star =>
      simp only [List.map_cons, toItem, matchHere, matchToks, manyLoop_eq_splitLoop]
      exact splitLoop_congr k (fun c _ => by simp [Atom.accepts]) (fun r hr => ih r (hsuf r hr))
    | dstar =>
      simp only [List.map_cons, toItem, matchHere, matchToks, manyLoop_eq_splitLoop]
      refine splitLoop_congr k (fun c hc => ?_) (fun r hr => ih r (hsuf r hr))
      have : c ≠ '\n' := fun e => hk (e ▸ hc)
      simp [Atom.accepts, this]
    | q =>
      cases k with
      | nil => simp [toItem, matchHere, matchToks]
      | cons x k' =>
        have hx : x ≠ '\n' := fun e => hk (by simp [e])
        have hk' : '\n' ∉ k' := fun hm => hk (by simp [hm])
        simp [toItem, matchHere, matchToks, Atom.accepts, ih k' hk', hx]
    | lit c =>
      cases k with
      | nil => simp [toItem, matchHere, matchToks]
      | cons x k' =>
        have hk' : '\n' ∉ k' := fun hm => hk (by simp [hm])
        simp only [List.map_cons, toItem, matchHere, matchToks, Atom.accepts, ih k' hk']
        rw [Bool.beq_comm]

/-! ## the parser on the emitted text -/

/-- what the escape set must satisfy: it covers every metacharacter (the two wildcards never reach the
    escape test) and only contains characters for which `\c` is the literal `c` -/
def EscOK (esc : List Char) : Prop :=
  (∀ c, isMeta c = true → c ≠ '*' → c ≠ '?' → c ∈ esc) ∧ (∀ c ∈ esc, escapable c = true)

/-- literal tokens produced by `tokenize` are never a wildcard character -/
def WfToks (ts : List Tok) : Prop := ∀ c, Tok.lit c ∈ ts → c ≠ '*' ∧ c ≠ '?'

theorem wf_tokenize (pat : Str) : WfToks (tokenize pat) := by
  fun_induction tokenize pat with
  | case1 => intro c h; simp at h
  | case2 p' ih => intro x h; exact ih x (by simpa using h)
  | case3 d p' hd ih => intro x h; exact ih x (by simpa using h)
  | case4 => intro x h; simp at h
  | case5 p hne ih => intro x h; exact ih x (by simpa using h)
  | case6 c p hc hq ih =>
    intro x h
    rcases List.mem_cons.mp h with h | h
    · cases h; exact ⟨hc, hq⟩
    · exact ih x h

theorem wf_tail {t : Tok} {ts : List Tok} (h : WfToks (t :: ts)) : WfToks ts :=
  fun c hc => h c (List.mem_cons_of_mem _ hc)

/-- the text after any emitted token starts with a character that is not `*` -/
theorem emitAll_head (esc : List Char) (ts : List Tok) (hw : WfToks ts) :
    ∃ h t, emitAll esc ts ++ ['$'] = h :: t ∧ h ≠ '*' := by
  cases ts with
  | nil => exact ⟨'$', [], rfl, by decide⟩
  | cons t ts =>
    cases t with
    | star => exact ⟨'[', _, by simp [emitAll, emit]; rfl, by decide⟩
    | dstar => exact ⟨'.', _, by simp [emitAll, emit]; rfl, by decide⟩
    | q => exact ⟨'.', _, by simp [emitAll, emit]; rfl, by decide⟩
    | lit c =>
      by_cases hc : c ∈ esc
      · exact ⟨'\\', _, by simp [emitAll, emit, hc]; rfl, by decide⟩
      · exact ⟨c, _, by simp [emitAll, emit, hc]; rfl, (hw c (by simp)).1⟩

theorem parseItemsF_step (esc : List Char) (he : EscOK esc) (t : Tok)
    (ht : ∀ c, t = .lit c → c ≠ '*' ∧ c ≠ '?') (n : Nat) (h : Char) (tl : Str) (hh : h ≠ '*') :
    parseItemsF (n + 1) (emit esc t ++ h :: tl) =
      (parseItemsF n (h :: tl)).map (fun x => (toItem t :: x.1, x.2)) := by
  cases t with
  | star => simp [emit, parseItemsF, parseAtom, toItem]
  | dstar => simp [emit, parseItemsF, parseAtom, toItem]
  | q =>
    simp only [emit, List.cons_append, List.nil_append, parseItemsF, parseAtom, toItem]
    simp [hh]
  | lit c =>
    obtain ⟨hc1, hc2⟩ := ht c rfl
    by_cases hc : esc.contains c = true
    · have hesc : escapable c = true := he.2 c (by simpa using hc)
      simp only [emit, hc, if_true, List.cons_append, List.nil_append, parseItemsF, parseAtom, toItem]
      simp [hesc, hh]
    · have hnm : isMeta c = false := by
        cases hm : isMeta c with
        | false => rfl
        | true => exact absurd (by simpa using he.1 c hm hc1 hc2) hc
      have hb : c ≠ '\\' := by rintro rfl; simp [isMeta] at hnm
      have hd : c ≠ '.' := by rintro rfl; simp [isMeta] at hnm
      have hk : c ≠ '[' := by rintro rfl; simp [isMeta] at hnm
      have hdol : c ≠ '$' := by rintro rfl; simp [isMeta] at hnm
      simp only [emit, hc, List.cons_append, List.nil_append, parseItemsF, parseAtom, toItem]
      simp [hb, hd, hk, hnm, hh]

theorem parseItemsF_emitAll (esc : List Char) (he : EscOK esc) (ts : List Tok) (hw : WfToks ts)
    (n : Nat) (hn : ts.length < n) :
    parseItemsF n (emitAll esc ts ++ ['$']) = some (ts.map toItem, true) := by
  induction ts generalizing n with
  | nil =>
    cases n with
    | zero => omega
    | succ n => simp [emitAll, parseItemsF]
  | cons t ts ih =>
    cases n with
    | zero => omega
    | succ n =>
      obtain ⟨h, tl, hrest, hh⟩ := emitAll_head esc ts (wf_tail hw)
      have hsplit : emitAll esc (t :: ts) ++ ['$'] = emit esc t ++ (emitAll esc ts ++ ['$']) := by
        simp [emitAll]
      rw [hsplit, hrest,
        parseItemsF_step esc he t (fun c hc => hw c (by simp [hc])) n h tl hh, ← hrest,
        ih (wf_tail hw) n (by simpa using hn)]
      rfl

theorem emit_length_pos (esc : List Char) (t : Tok) : 0 < (emit esc t).length := by
  cases t <;> simp [emit]
  split <;> simp

theorem emitAll_length (esc : List Char) (ts : List Tok) : ts.length ≤ (emitAll esc ts).length := by
  induction ts with
  | nil => simp [emitAll]
  | cons t ts ih =>
    have := emit_length_pos esc t
    simp only [emitAll, List.flatMap_cons, List.length_append, List.length_cons] at *
    omega

theorem parseItems_emitAll (esc : List Char) (he : EscOK esc) (ts : List Tok) (hw : WfToks ts) :
    parseItems (emitAll esc ts ++ ['$']) = some (ts.map toItem, true) := by
  unfold parseItems
  apply parseItemsF_emitAll esc he ts hw
  have := emitAll_length esc ts
  simp only [List.length_append, List.length_cons, List.length_nil]
  omega

/-! ## prefix -/

theorem takeWhile_notWild_prefix (pat key : Str) (h : globMatch pat key = true) :
    pat.takeWhile (fun c => !isWild c) <+: key := by
  induction pat generalizing key with
  | nil => exact List.nil_prefix
  | cons c p ih =>
    by_cases hw : isWild c = true
    · simp [List.takeWhile, hw]
    · have hc : c ≠ '*' := by rintro rfl; simp [isWild] at hw
      have hq : c ≠ '?' := by rintro rfl; simp [isWild] at hw
      rw [globMatch.eq_def] at h
      simp only [hc, hq, if_false] at h
      cases key with
      | nil => simp at h
      | cons x k =>
        simp only [Bool.and_eq_true, beq_iff_eq] at h
        obtain ⟨rfl, h2⟩ := h
        have hw' : (!isWild x) = true := by simpa using hw
        rw [List.takeWhile_cons, hw']
        exact (List.cons_prefix_cons).mpr ⟨rfl, ih k h2⟩

/-! ## key order -/

theorem strLe_total (a b : Str) : (strLe a b || strLe b a) = true := by
  induction a generalizing b with
  | nil => simp [strLe]
  | cons x a ih =>
    cases b with
    | nil => simp [strLe]
    | cons y b =>
      simp only [strLe, Bool.or_eq_true, Bool.and_eq_true, decide_eq_true_eq, beq_iff_eq]
      rcases Nat.lt_trichotomy x.toNat y.toNat with h | h | h
      · exact Or.inl (Or.inl h)
      · have hxy : x = y := Char.toNat_inj.mp h
        subst hxy
        have := ih b
        simp only [Bool.or_eq_true] at this
        rcases this with h1 | h1
        · exact Or.inl (Or.inr ⟨rfl, h1⟩)
        · exact Or.inr (Or.inr ⟨rfl, h1⟩)
      · exact Or.inr (Or.inl h)

theorem strLe_trans (a b c : Str) (h1 : strLe a b = true) (h2 : strLe b c = true) : strLe a c = true := by
  induction a generalizing b c with
  | nil => simp [strLe]
  | cons x a ih =>
    cases b with
    | nil => simp [strLe] at h1
    | cons y b =>
      cases c with
      | nil => simp [strLe] at h2
      | cons z c =>
        simp only [strLe, Bool.or_eq_true, Bool.and_eq_true, decide_eq_true_eq, beq_iff_eq] at h1 h2 ⊢
        rcases h1 with h1 | ⟨rfl, h1⟩
        · rcases h2 with h2 | ⟨rfl, _⟩
          · exact Or.inl (Nat.lt_trans h1 h2)
          · exact Or.inl h1
        · rcases h2 with h2 | ⟨rfl, h2⟩
          · exact Or.inl h2
          · exact Or.inr ⟨rfl, ih b c h1 h2⟩

theorem strLe_antisymm (a b : Str) (h1 : strLe a b = true) (h2 : strLe b a = true) : a = b := by
  induction a generalizing b with
  | nil => cases b with
    | nil => rfl
    | cons y b => simp [strLe] at h2
  | cons x a ih =>
    cases b with
    | nil => simp [strLe] at h1
    | cons y b =>
      simp only [strLe, Bool.or_eq_true, Bool.and_eq_true, decide_eq_true_eq, beq_iff_eq] at h1 h2
      rcases h1 with h1 | ⟨rfl, h1⟩
      · rcases h2 with h2 | ⟨rfl, _⟩
        · omega
        · omega
      · rcases h2 with h2 | ⟨_, h2⟩
        · omega
        · rw [ih b h1 h2]

theorem sortKeys_pairwise (l : List Str) : (sortKeys l).Pairwise (fun a b => strLe a b = true) :=
  List.pairwise_mergeSort strLe_trans strLe_total l

theorem sortKeys_perm (l : List Str) : (sortKeys l).Perm l := List.mergeSort_perm l strLe

/-! ## store -/

section store
variable {β : Type}

theorem find_filter_ne (s : Store β) (k : Str) :
    (s.filter (fun e => e.1 != k)).find? (fun e => e.1 == k) = none := by
  rw [List.find?_eq_none]
  intro x hx
  have := (List.mem_filter.mp hx).2
  simpa using this

theorem get_put_same (s : Store β) (k : Str) (b : β) : get (put s k b) k = some b := by
  unfold get put
  rw [List.find?_append, find_filter_ne]
  simp

theorem find_filter_other (s : Store β) (k k' : Str) (h : k' ≠ k) :
    (s.filter (fun e => e.1 != k)).find? (fun e => e.1 == k') = s.find? (fun e => e.1 == k') := by
  induction s with
  | nil => rfl
  | cons e s ih =>
    by_cases he : e.1 = k
    · have h2 : ¬ e.1 = k' := fun h2 => h (h2.symm.trans he)
      have hf : (e.1 != k) = false := by simp [he]
      have hg : (e.1 == k') = false := by simpa using h2
      rw [List.filter_cons, hf, List.find?_cons, hg]
      simpa using ih
    · have hf : (e.1 != k) = true := by simpa using he
      rw [List.filter_cons, hf]
      simp only [if_true, List.find?_cons, ih]

theorem get_put_other (s : Store β) (k k' : Str) (b : β) (h : k' ≠ k) : get (put s k b) k' = get s k' := by
  have hne : (k == k') = false := by simpa using fun e : k = k' => h e.symm
  unfold get put
  rw [List.find?_append, find_filter_other s k k' h]
  cases s.find? (fun e => e.1 == k') with
  | some v => rfl
  | none => simp [List.find?_cons, hne]

theorem keysOf_put (s : Store β) (k : Str) (b : β) :
    keysOf (put s k b) = (keysOf s).filter (fun x => x != k) ++ [k] := by
  simp only [keysOf, put, List.map_append, List.map_cons, List.map_nil, List.filter_map]
  rfl

end store

/-! ## JSONL text -/

theorem splitLines_line (l rest : Str) (hl : '\n' ∉ l) :
    splitLines (l ++ '\n' :: rest) = l :: splitLines rest := by
  induction l with
  | nil => simp [splitLines]
  | cons c l ih =>
    have hc : c ≠ '\n' := fun e => hl (by simp [e])
    have hl' : '\n' ∉ l := fun hm => hl (by simp [hm])
    simp only [List.cons_append, splitLines, hc, if_false, ih hl']

theorem stripCR_eq (l : Str) (h : l.getLast? ≠ some '\r') : stripCR l = l := by
  unfold stripCR
  split
  · rename_i r heq
    exfalso; apply h
    rw [List.getLast?_eq_head?_reverse, heq]; rfl
  · rfl

/-! ## extensions -/

theorem takeWhile_append_stop {p : Char → Bool} (a : Str) (c : Char) (rest : Str)
    (ha : ∀ x ∈ a, p x = true) (hc : p c = false) : (a ++ c :: rest).takeWhile p = a := by
  induction a with
  | nil => simp [List.takeWhile_cons, hc]
  | cons x a ih =>
    have hx : p x = true := ha x (by simp)
    simp only [List.cons_append, List.takeWhile_cons, hx, if_true]
    rw [ih (fun y hy => ha y (by simp [hy]))]

theorem mem_takeWhile_sat (p : Char → Bool) (l : Str) (x : Char) (h : x ∈ l.takeWhile p) : p x = true := by
  induction l with
  | nil => simp at h
  | cons y l ih =>
    by_cases hy : p y = true
    · simp only [List.takeWhile_cons, hy, if_true, List.mem_cons] at h
      rcases h with rfl | h
      · exact hy
      · exact ih h
    · simp [List.takeWhile_cons, hy] at h

theorem dropWhile_head (p : Char → Bool) (l : Str) :
    l.dropWhile p = [] ∨ ∃ c t, l.dropWhile p = c :: t ∧ p c = false := by
  induction l with
  | nil => left; rfl
  | cons x l ih =>
    by_cases hx : p x = true
    · simpa [List.dropWhile_cons, hx] using ih
    · right
      have hx' : p x = false := by simpa using hx
      exact ⟨x, l, by simp [List.dropWhile_cons, hx'], hx'⟩

/-- the text after the last `.` is `e` exactly when the key ends in `.e` (for dot-free `e`) -/
theorem endsWith_dot_iff (s e : Str) (he : '.' ∉ e) :
    endsWith s ('.' :: e) = true ↔ rsplitDotExt s = some e := by
  have hrev : ('.' :: e).reverse = e.reverse ++ ['.'] := by simp
  have hall : ∀ x ∈ e.reverse, (x != '.') = true := by
    intro x hx
    have : x ≠ '.' := fun h => he (h ▸ (List.mem_reverse.mp hx))
    simpa using this
  unfold endsWith rsplitDotExt
  rw [List.isPrefixOf_iff_prefix, hrev]
  constructor
  · rintro ⟨t, ht⟩
    have hs : s.reverse = e.reverse ++ '.' :: t := by simp [← ht]
    have htw : s.reverse.takeWhile (fun x => x != '.') = e.reverse := by
      rw [hs]; exact takeWhile_append_stop _ _ _ hall (by simp)
    have hlen : s.length = e.length + 1 + t.length := by
      have := congrArg List.length hs
      simp at this; omega
    simp only [htw, List.reverse_reverse]
    have : ¬ e.length = s.length := by omega
    simp [this]
  · intro h
    dsimp only at h
    split at h
    · simp at h
    · rename_i hne
      have heq : (s.reverse.takeWhile (fun x => x != '.')).reverse = e := by simpa using h
      have htw : s.reverse.takeWhile (fun x => x != '.') = e.reverse := by rw [← heq]; simp
      have hsplit := List.takeWhile_append_dropWhile (p := fun x => x != '.') (l := s.reverse)
      rcases dropWhile_head (fun x => x != '.') s.reverse with hd | ⟨c, t, hd, hc⟩
      · exfalso; apply hne
        rw [hd, List.append_nil] at hsplit
        rw [hsplit]; simp
      · have hc' : c = '.' := by simpa using hc
        subst hc'
        rw [hd, htw] at hsplit
        exact ⟨t, by rw [← hsplit]; simp⟩

theorem rsplitDotExt_no_dot (s e : Str) (h : rsplitDotExt s = some e) : '.' ∉ e := by
  unfold rsplitDotExt at h
  dsimp only at h
  split at h
  · simp at h
  · have heq : (s.reverse.takeWhile (fun x => x != '.')).reverse = e := by simpa using h
    intro hm
    rw [← heq, List.mem_reverse] at hm
    have := mem_takeWhile_sat _ _ _ hm
    simp at this

/-! ## literal stretches and `**` -/

/-- a literal (wildcard-free) stretch at the head of a pattern must be the head of the key -/
theorem globMatch_lit_append (a p k : Str) (ha : ∀ c ∈ a, isWild c = false) :
    globMatch (a ++ p) k = true ↔ ∃ r, k = a ++ r ∧ globMatch p r = true := by
  induction a generalizing k with
  | nil => simp
  | cons c a ih =>
    have hc : c ≠ '*' := by rintro rfl; have := ha '*' (by simp); simp [isWild] at this
    have hq : c ≠ '?' := by rintro rfl; have := ha '?' (by simp); simp [isWild] at this
    have ha' : ∀ x ∈ a, isWild x = false := fun x hx => ha x (by simp [hx])
    rw [List.cons_append, globMatch.eq_def]
    simp only [hc, hq, if_false]
    cases k with
    | nil => simp
    | cons x k =>
      simp only [Bool.and_eq_true, beq_iff_eq, ih k ha']
      constructor
      · rintro ⟨rfl, r, rfl, hr⟩; exact ⟨r, rfl, hr⟩
      · rintro ⟨r, he, hr⟩
        have h1 : x = c ∧ k = a ++ r := by simpa using he
        exact ⟨h1.1, r, h1.2, hr⟩

theorem globMatch_literal (b k : Str) (hb : ∀ c ∈ b, isWild c = false) :
    globMatch b k = true ↔ k = b := by
  have := globMatch_lit_append b [] k hb
  rw [List.append_nil] at this
  rw [this]
  constructor
  · rintro ⟨r, rfl, hr⟩
    have : r = [] := by simpa [globMatch] using hr
    simp [this]
  · rintro rfl; exact ⟨[], by simp, by simp [globMatch]⟩

theorem globMatch_dstar (b k : Str) :
    globMatch ('*' :: '*' :: b) k = true ↔ ∃ m r, k = m ++ r ∧ globMatch b r = true := by
  rw [globMatch.eq_def]
  simp only [if_true, splitLoop_iff]
  constructor
  · rintro ⟨s, r, rfl, _, hr⟩; exact ⟨s, r, rfl, hr⟩
  · rintro ⟨s, r, rfl, hr⟩; exact ⟨s, r, rfl, by simp, hr⟩

/-! ## the wire serialiser/codec instance -/

theorem hex_not_ctl (c : Char) (h : isHexChar c = true) : c ≠ '\n' ∧ c ≠ '\r' := by
  constructor <;> rintro rfl <;> revert h <;> decide

theorem wireText_toNat (t : Str) : wireText (t.map Char.toNat) = some t := by
  unfold wireText
  have h1 : (t.map Char.toNat).all (· < 0x110000) = true := by
    simp only [List.all_map, List.all_eq_true, Function.comp, decide_eq_true_eq]
    intro c _
    have := c.valid
    rcases this with h | ⟨_, h⟩ <;> simp only [Char.toNat] <;> omega
  rw [if_pos h1]
  congr 1
  rw [List.map_map]
  conv => rhs; rw [← List.map_id t]
  apply List.map_congr_left
  intro c _
  simp [Function.comp, Char.ofNat_toNat]

theorem wire_magic_plain (t : Str) : wireExt.magic (wireExt.enc .plain t) = none := by
  cases t with
  | nil => rfl
  | cons c rest =>
    have hv : c.toNat < 0x110000 := by
      rcases c.valid with h | ⟨_, h⟩ <;> simp only [Char.toNat] <;> omega
    have h1 : c.toNat ≠ 0x110001 := by omega
    have h2 : c.toNat ≠ 0x110002 := by omega
    have h3 : c.toNat ≠ 0x110003 := by omega
    have h4 : c.toNat ≠ 0x110004 := by omega
    simp [wireExt, h1, h2, h3, h4]

/-! ## key order on UTF-8 bytes -/

/-- strictly smaller at the first differing byte (never decided by running out of bytes) -/
def bytesLtAt : List Nat → List Nat → Bool
  | p :: ps, q :: qs => decide (p < q) || (p == q && bytesLtAt ps qs)
  | _, _ => false

theorem bytesLe_of_ltAt (s t : List Nat) (h : bytesLtAt s t = true) :
    bytesLe s t = true ∧ bytesLe t s = false := by
  induction s generalizing t with
  | nil => simp [bytesLtAt] at h
  | cons p ps ih =>
    cases t with
    | nil => simp [bytesLtAt] at h
    | cons q qs =>
      simp only [bytesLtAt, Bool.or_eq_true, decide_eq_true_eq, Bool.and_eq_true, beq_iff_eq] at h
      rcases h with h | ⟨rfl, h⟩
      · have h1 : ¬ q < p := by omega
        have h2 : ¬ q = p := by omega
        simp [bytesLe, h, h1, h2]
      · have := ih qs h
        simp [bytesLe, this.1, this.2]

theorem bytesLe_append_same (w s t : List Nat) : bytesLe (w ++ s) (w ++ t) = bytesLe s t := by
  induction w with
  | nil => rfl
  | cons a w ih => simp [bytesLe, ih]

theorem bytesLtAt_append (s t u v : List Nat) (h : bytesLtAt s t = true) : bytesLtAt (s ++ u) (t ++ v) = true := by
  induction s generalizing t with
  | nil => simp [bytesLtAt] at h
  | cons p ps ih =>
    cases t with
    | nil => simp [bytesLtAt] at h
    | cons q qs =>
      simp only [bytesLtAt, Bool.or_eq_true, decide_eq_true_eq, Bool.and_eq_true, beq_iff_eq,
        List.cons_append] at h ⊢
      rcases h with h | ⟨rfl, h⟩
      · exact Or.inl h
      · exact Or.inr ⟨rfl, ih qs h⟩

/-- UTF-8 is order preserving on single scalar values, and the order is decided at a byte both encodings have -/
theorem utf8_lt (x y : Char) (h : x.toNat < y.toNat) : bytesLtAt (utf8 x) (utf8 y) = true := by
  have hy : y.toNat < 0x110000 := by
    rcases y.valid with h | ⟨_, h⟩ <;> simp only [Char.toNat] <;> omega
  unfold utf8
  dsimp only
  generalize x.toNat = n at h ⊢
  generalize y.toNat = m at h hy ⊢
  by_cases a1 : n < 0x80 <;> by_cases a2 : n < 0x800 <;> by_cases a3 : n < 0x10000 <;>
  by_cases b1 : m < 0x80 <;> by_cases b2 : m < 0x800 <;> by_cases b3 : m < 0x10000 <;>
  simp only [a1, a2, a3, b1, b2, b3, if_true, if_false, bytesLtAt, Bool.or_eq_true, decide_eq_true_eq,
    Bool.and_eq_true, beq_iff_eq, Bool.or_false, Bool.and_false] <;> omega

theorem utf8_ne_nil (x : Char) : ∃ p ps, utf8 x = p :: ps := by
  unfold utf8
  dsimp only
  split
  · exact ⟨_, _, rfl⟩
  · split
    · exact ⟨_, _, rfl⟩
    · split <;> exact ⟨_, _, rfl⟩

/-- **Rust `String` order (bytes of the UTF-8 encoding) = the model's order on scalar values** -/
theorem strLe_eq_bytesLe (a b : Str) : strLe a b = bytesLe (utf8s a) (utf8s b) := by
  induction a generalizing b with
  | nil => simp [strLe, utf8s, bytesLe]
  | cons x a ih =>
    cases b with
    | nil =>
      obtain ⟨p, ps, hp⟩ := utf8_ne_nil x
      simp [strLe, utf8s, hp, bytesLe]
    | cons y b =>
      have e1 : utf8s (x :: a) = utf8 x ++ utf8s a := by simp [utf8s]
      have e2 : utf8s (y :: b) = utf8 y ++ utf8s b := by simp [utf8s]
      rw [e1, e2]
      rcases Nat.lt_trichotomy x.toNat y.toNat with h | h | h
      · have := bytesLe_of_ltAt _ _ (bytesLtAt_append _ _ (utf8s a) (utf8s b) (utf8_lt x y h))
        rw [this.1]
        simp [strLe, h]
      · have hxy : x = y := Char.toNat_inj.mp h
        subst hxy
        rw [bytesLe_append_same, ← ih b]
        simp [strLe]
      · have := bytesLe_of_ltAt _ _ (bytesLtAt_append _ _ (utf8s b) (utf8s a) (utf8_lt y x h))
        rw [this.2]
        have h1 : ¬ x.toNat < y.toNat := by omega
        have h2 : ¬ x = y := by rintro rfl; omega
        simp [strLe, h1, h2]

end IB.CloudGlob
