import IbModel.Proofs.CombinerLaws
/-!
# Helper lemmas for C06: Count, Sum, Average, Min, Max
-/
namespace IB.Combiners
open IB

/-- the laws of `+` the numeric combiners rely on (hold for `Int`, `Rat`; for `f64` only up to rounding) -/
structure NumOps.Lawful {α : Type} (N : NumOps α) : Prop where
  add_assoc : ∀ a b c, N.add (N.add a b) c = N.add a (N.add b c)
  add_comm : ∀ a b, N.add a b = N.add b a
  zero_add : ∀ a, N.add N.zero a = a
  /-- the start value of `Iterator::sum` is the zero (true in exact arithmetic; in `f64` it is `-0.0`) -/
  sumInit_eq : N.sumInit = N.zero

theorem intOps_lawful : intOps.Lawful :=
  ⟨fun a b c => Int.add_assoc a b c, fun a b => Int.add_comm a b, fun a => Int.zero_add a, rfl⟩

theorem ratOps_lawful : ratOps.Lawful :=
  ⟨fun a b c => Rat.add_assoc a b c, fun a b => Rat.add_comm a b, fun a => Rat.zero_add a, rfl⟩

/-! ## Count -/

theorem count_foldAdd {V : Type} (a : Nat) (xs : List V) :
    (count V).foldAdd a xs = a + xs.length := by
  induction xs generalizing a with
  | nil => rfl
  | cons x xs ih => simp only [Combiner.foldAdd_cons, ih, List.length_cons]; simp [count]; omega

theorem count_mergeable' (V : Type) : Mergeable (count V) Eq := by
  refine Mergeable.ofMonoid (count V) (fun _ => 1) ?_ ?_ ?_ ?_ ?_
  · intro a v; rfl
  · intro a b d; simp [count]; omega
  · intro a; simp [count]
  · intro a b; simp [count]; omega
  · intro xs; rw [count_foldAdd]; simp [count]

/-! ## Sum -/

theorem sumG_foldAdd {α : Type} (N : NumOps α) (a : α) (xs : List α) :
    (sumG N).foldAdd a xs = xs.foldl N.add a := rfl

theorem sumG_mergeable' {α : Type} (N : NumOps α) (hN : N.Lawful) : Mergeable (sumG N) Eq := by
  refine Mergeable.ofMonoid (sumG N) (fun v => v) ?_ ?_ ?_ ?_ ?_
  · intro a v; rfl
  · intro a b d; exact hN.add_assoc a b d
  · intro a; exact hN.zero_add a
  · intro a b; exact hN.add_comm a b
  · intro xs; rfl

theorem int_foldl_add (a : Int) (xs : List Int) : xs.foldl (· + ·) a = a + xs.sum := by
  induction xs generalizing a with
  | nil => simp
  | cons x xs ih => simp only [List.foldl_cons, ih, List.sum_cons]; omega

theorem rat_foldl_add (a : Rat) (xs : List Rat) : xs.foldl (· + ·) a = a + xs.sum := by
  induction xs generalizing a with
  | nil => simp [Rat.add_zero]
  | cons x xs ih => simp only [List.foldl_cons, ih, List.sum_cons, Rat.add_assoc]

/-! ## Average -/

theorem averageG_foldAdd {α : Type} (N : NumOps α) (s : α) (n : Nat) (xs : List α) :
    (averageG N).foldAdd (s, n) xs = (xs.foldl N.add s, n + xs.length) := by
  induction xs generalizing s n with
  | nil => rfl
  | cons x xs ih =>
    simp only [Combiner.foldAdd_cons, List.foldl_cons, List.length_cons]
    have : (averageG N).add (s, n) x = (N.add s x, n + 1) := rfl
    rw [this, ih]
    congr 1; omega

theorem averageG_mergeable' {α : Type} (N : NumOps α) (hN : N.Lawful) :
    Mergeable (averageG N) Eq := by
  refine Mergeable.ofMonoid (averageG N) (fun v => (v, 1)) ?_ ?_ ?_ ?_ ?_
  · intro a v; rfl
  · intro a b d
    show (N.add (N.add a.1 b.1) d.1, a.2 + b.2 + d.2) = (N.add a.1 (N.add b.1 d.1), a.2 + (b.2 + d.2))
    rw [hN.add_assoc, Nat.add_assoc]
  · intro a
    show (N.add N.zero a.1, 0 + a.2) = a
    rw [hN.zero_add, Nat.zero_add]
  · intro a b
    show (N.add a.1 b.1, a.2 + b.2) = (N.add b.1 a.1, b.2 + a.2)
    rw [hN.add_comm, Nat.add_comm]
  · intro xs
    show (xs.foldl (fun a v => N.add a v) N.sumInit, xs.length) = (averageG N).foldAdd (N.zero, 0) xs
    rw [hN.sumInit_eq, averageG_foldAdd]; simp

/-! ## Min / Max -/

theorem minC_foldAdd_some (m : Int) (xs : List Int) :
    minC.foldAdd (some m) xs = some (xs.foldl min m) := by
  induction xs generalizing m with
  | nil => rfl
  | cons x xs ih =>
    simp only [Combiner.foldAdd_cons, List.foldl_cons]
    have : minC.add (some m) x = some (min m x) := by
      simp only [minC, Int.min_def]; split <;> split <;> first | rfl | (congr 1; omega)
    rw [this, ih]

theorem minC_fold_eq_min? (xs : List Int) : minC.foldAdd minC.create xs = xs.min? := by
  cases xs with
  | nil => rfl
  | cons x xs =>
    simp only [Combiner.foldAdd_cons]
    have : minC.add minC.create x = some x := rfl
    rw [this, minC_foldAdd_some]; rfl

theorem iterMin_eq_min? (xs : List Int) : iterMin xs = xs.min? := by
  cases xs with
  | nil => rfl
  | cons x xs =>
    simp only [iterMin, List.min?]
    congr 1
    induction xs generalizing x with
    | nil => rfl
    | cons y ys ih =>
      simp only [List.foldl_cons]
      have : (if x > y then y else x) = min x y := by simp only [Int.min_def]; split <;> split <;> omega
      rw [this, ih]

theorem maxC_foldAdd_some (m : Int) (xs : List Int) :
    maxC.foldAdd (some m) xs = some (xs.foldl max m) := by
  induction xs generalizing m with
  | nil => rfl
  | cons x xs ih =>
    simp only [Combiner.foldAdd_cons, List.foldl_cons]
    have : maxC.add (some m) x = some (max m x) := by
      simp only [maxC, Int.max_def]; split <;> split <;> first | rfl | (congr 1; omega)
    rw [this, ih]

theorem maxC_fold_eq_max? (xs : List Int) : maxC.foldAdd maxC.create xs = xs.max? := by
  cases xs with
  | nil => rfl
  | cons x xs =>
    simp only [Combiner.foldAdd_cons]
    have : maxC.add maxC.create x = some x := rfl
    rw [this, maxC_foldAdd_some]; rfl

theorem iterMax_eq_max? (xs : List Int) : iterMax xs = xs.max? := by
  cases xs with
  | nil => rfl
  | cons x xs =>
    simp only [iterMax, List.max?]
    congr 1
    induction xs generalizing x with
    | nil => rfl
    | cons y ys ih =>
      simp only [List.foldl_cons]
      have : (if x > y then x else y) = max x y := by simp only [Int.max_def]; split <;> split <;> omega
      rw [this, ih]

theorem minC_merge_some (a b : Int) : minC.merge (some a) (some b) = some (min a b) := by
  simp only [minC, Int.min_def]; split <;> split <;> first | rfl | (congr 1; omega)
theorem minC_merge_none_left (b : Option Int) : minC.merge none b = b := by cases b <;> rfl
theorem minC_merge_none_right (a : Option Int) : minC.merge a none = a := rfl

theorem maxC_merge_some (a b : Int) : maxC.merge (some a) (some b) = some (max a b) := by
  simp only [maxC, Int.max_def]; split <;> split <;> first | rfl | (congr 1; omega)
theorem maxC_merge_none_left (b : Option Int) : maxC.merge none b = b := by cases b <;> rfl
theorem maxC_merge_none_right (a : Option Int) : maxC.merge a none = a := rfl

theorem minC_mergeable' : Mergeable minC Eq := by
  refine Mergeable.ofMonoid minC (fun v => some v) ?_ ?_ ?_ ?_ ?_
  · intro a v; cases a <;> rfl
  · intro a b d
    cases a <;> cases b <;> cases d <;>
      simp only [minC_merge_some, minC_merge_none_left, minC_merge_none_right, Int.min_assoc]
  · intro a; exact minC_merge_none_left a
  · intro a b
    cases a <;> cases b <;>
      simp only [minC_merge_some, minC_merge_none_left, minC_merge_none_right, Int.min_comm]
  · intro xs; show iterMin xs = _; rw [iterMin_eq_min?, minC_fold_eq_min?]

theorem maxC_mergeable' : Mergeable maxC Eq := by
  refine Mergeable.ofMonoid maxC (fun v => some v) ?_ ?_ ?_ ?_ ?_
  · intro a v; cases a <;> rfl
  · intro a b d
    cases a <;> cases b <;> cases d <;>
      simp only [maxC_merge_some, maxC_merge_none_left, maxC_merge_none_right, Int.max_assoc]
  · intro a; exact maxC_merge_none_left a
  · intro a b
    cases a <;> cases b <;>
      simp only [maxC_merge_some, maxC_merge_none_left, maxC_merge_none_right, Int.max_comm]
  · intro xs; show iterMax xs = _; rw [iterMax_eq_max?, maxC_fold_eq_max?]

end IB.Combiners
