import IbModel.Model.Program
import IbModel.Model.CombinerCore
import IbModel.Proofs.AList
import IbModel.Proofs.ValOrder
/-!
# Closed forms of the `Val`-level `count` and `sum` combiners (non-vacuity of `LawfulCombiner` for C05)
-/
namespace IB

/-- with `R := Eq` only the two fold laws have to be shown -/
theorem lawful_of_eq {V A O : Type} (c : Combiner V A O)
    (hm : ∀ xs ys, c.merge (c.foldAdd c.create xs) (c.foldAdd c.create ys) = c.foldAdd c.create (xs ++ ys))
    (hb : ∀ xs, c.build xs = c.foldAdd c.create xs) : LawfulCombiner c Eq where
  refl _ := rfl
  symm h := h.symm
  trans h1 h2 := h1.trans h2
  merge_congr h1 h2 := by rw [h1, h2]
  finish_congr h := by rw [h]
  merge_fold := hm
  build_fold := hb

theorem count_foldAdd (xs : List Val) : ∀ n : Int,
    Comb.count.toCombiner.foldAdd (.int n) xs = .int (n + xs.length) := by
  induction xs with
  | nil => intro n; simp
  | cons x xs ih =>
    intro n
    rw [Combiner.foldAdd_cons]
    have : Comb.count.toCombiner.add (.int n) x = .int (n + 1) := rfl
    rw [this, ih]
    congr 1
    simp only [List.length_cons, Int.natCast_add, Int.cast_ofNat_Int]
    omega

def sumInts (xs : List Val) : Int := xs.foldr (fun v s => v.toInt + s) 0

theorem sumInts_append (xs ys : List Val) : sumInts (xs ++ ys) = sumInts xs + sumInts ys := by
  induction xs with
  | nil => simp [sumInts]
  | cons x xs ih =>
    simp only [sumInts, List.cons_append, List.foldr_cons] at *
    rw [ih]; omega

theorem sum_foldAdd (xs : List Val) : ∀ n : Int,
    Comb.sum.toCombiner.foldAdd (.int n) xs = .int (n + sumInts xs) := by
  induction xs with
  | nil => intro n; simp [sumInts]
  | cons x xs ih =>
    intro n
    rw [Combiner.foldAdd_cons]
    have : Comb.sum.toCombiner.add (.int n) x = .int (n + x.toInt) := rfl
    rw [this, ih]
    congr 1
    simp only [sumInts, List.foldr_cons]
    omega

/-! ## `distinctSet` (the `HashSet` as a duplicate-free list in first-occurrence order) -/

theorem setInsert_eq_addKey : setInsert = addKey := by
  funext acc v
  unfold setInsert addKey
  simp

theorem distinct_foldAdd (xs : List Val) : ∀ acc : List Val,
    Comb.distinctSet.toCombiner.foldAdd (Val.ofList acc) xs = Val.ofList (addKeys acc xs) := by
  induction xs with
  | nil => intro acc; rfl
  | cons x xs ih =>
    intro acc
    rw [Combiner.foldAdd_cons]
    have : Comb.distinctSet.toCombiner.add (Val.ofList acc) x = Val.ofList (addKey acc x) := by
      show Val.ofList (setInsert (Val.ofList acc).toList x) = _
      rw [Val.toList_ofList, setInsert_eq_addKey]
    rw [this, ih]
    rfl

theorem distinct_merge (a b : List Val) :
    Comb.distinctSet.toCombiner.merge (Val.ofList a) (Val.ofList b) =
      if a.isEmpty then Val.ofList b else Val.ofList (addKeys a b) := by
  show (if (Val.ofList a).toList.isEmpty then Val.ofList b
    else Val.ofList ((Val.ofList b).toList.foldl setInsert (Val.ofList a).toList)) = _
  rw [Val.toList_ofList, Val.toList_ofList, setInsert_eq_addKey]
  rfl

/-! ## `Option`-accumulator combiners (`Min`, `Max`): lawful whenever the binary choice is associative -/

/-- `Some(cur) => Some(p cur v)`, `None => Some(v)` -/
def optAdd (p : Val → Val → Val) (acc v : Val) : Val :=
  match acc with
  | .some cur => .some (p cur v)
  | _ => .some v

def pickMin (cur v : Val) : Val := if Val.lt v cur then v else cur
def pickMax (cur v : Val) : Val := if Val.lt cur v then v else cur

theorem minAdd_eq : minAdd = optAdd pickMin := by
  funext acc v
  cases acc <;> simp only [minAdd, optAdd, pickMin, apply_ite Val.some]

theorem maxAdd_eq : maxAdd = optAdd pickMax := by
  funext acc v
  cases acc <;> simp only [maxAdd, optAdd, pickMax, apply_ite Val.some]

theorem foldl_optAdd_some (p : Val → Val → Val) (l : List Val) : ∀ a : Val,
    l.foldl (optAdd p) (.some a) = .some (l.foldl p a) := by
  induction l with
  | nil => intro a; rfl
  | cons x l ih => intro a; simp [optAdd, ih]

theorem foldl_assoc_shift (p : Val → Val → Val) (hp : ∀ a b d, p (p a b) d = p a (p b d)) (l : List Val) :
    ∀ u y : Val, p u (l.foldl p y) = l.foldl p (p u y) := by
  induction l with
  | nil => intro u y; rfl
  | cons z l ih => intro u y; simp only [List.foldl_cons]; rw [ih, hp]

/-- any combiner of the shape of `Min`/`Max` with an associative choice `p` is lawful (with `R := Eq`) -/
theorem lawful_optCombiner (p : Val → Val → Val) (hp : ∀ a b d, p (p a b) d = p a (p b d))
    (fin : Val → Val) :
    LawfulCombiner
      ({ create := .none, add := optAdd p,
         merge := fun a b => match b with | .some v => optAdd p a v | _ => a,
         finish := fin, build := fun xs => xs.foldl (optAdd p) .none } : VCombiner) Eq := by
  apply lawful_of_eq
  · intro xs ys
    simp only [Combiner.foldAdd]
    cases ys with
    | nil => simp
    | cons y ys =>
      have hy : (y :: ys).foldl (optAdd p) Val.none = .some (ys.foldl p y) := by
        simp [optAdd, foldl_optAdd_some]
      rw [hy]
      cases xs with
      | nil => simp [optAdd, foldl_optAdd_some]
      | cons x xs =>
        have hx : (x :: xs).foldl (optAdd p) Val.none = .some (xs.foldl p x) := by
          simp [optAdd, foldl_optAdd_some]
        rw [hx]
        simp only [optAdd, List.cons_append, List.foldl_cons, foldl_optAdd_some, List.foldl_append]
        rw [foldl_assoc_shift p hp]
  · intro xs; rfl

/-! ## `Val.le` is a total order (`Proofs/ValOrder.lean`), hence `min`/`max` (ties → the later element) are associative -/

theorem pickMin_eq (cur v : Val) : pickMin cur v = if Val.le v cur then v else cur := by
  unfold pickMin Val.lt
  by_cases h : v = cur
  · subst h; simp
  · simp [h]

theorem pickMax_eq (cur v : Val) : pickMax cur v = if Val.le cur v then v else cur := by
  unfold pickMax Val.lt
  by_cases h : cur = v
  · subst h; simp
  · simp [h]

theorem pickMin_assoc (a b d : Val) : pickMin (pickMin a b) d = pickMin a (pickMin b d) := by
  simp only [pickMin_eq]
  cases h1 : Val.le b a <;> cases h2 : Val.le d b <;> simp [h1, h2]
  · -- ¬ b ≤ a, ¬ d ≤ b: then ¬ d ≤ a
    cases h3 : Val.le d a
    · simp
    · have hab : Val.le a b = true := by
        rcases Val.le_total a b with h | h
        · exact h
        · rw [h1] at h; exact absurd h (by simp)
      have := Val.le_trans h3 hab
      rw [h2] at this; exact absurd this (by simp)
  · -- b ≤ a, d ≤ b: then d ≤ a
    rw [Val.le_trans h2 h1]; simp

theorem pickMax_assoc (a b d : Val) : pickMax (pickMax a b) d = pickMax a (pickMax b d) := by
  simp only [pickMax_eq]
  cases h1 : Val.le a b <;> cases h2 : Val.le b d <;> simp [h1, h2]
  · cases h3 : Val.le a d
    · simp
    · have hba : Val.le b a = true := by
        rcases Val.le_total a b with h | h
        · rw [h1] at h; exact absurd h (by simp)
        · exact h
      have := Val.le_trans hba h3
      rw [h2] at this; exact absurd this (by simp)
  · rw [Val.le_trans h1 h2]; simp

end IB
